import Thanos.Model.Merge
import Thanos.Lemmas.Order
import Thanos.Lemmas.Proxy
/-
  The response deduplicator over a label-sorted stream: each label set once, strictly increasing.
-/
namespace Thanos.Merge

theorem seriesOf_cons_series (t : Series) (rest : List Frame) :
    seriesOf (.series t :: rest) = t :: seriesOf rest := rfl

theorem mem_seriesOf_tail {t s : Series} {rest : List Frame} (h : s ∈ seriesOf rest) :
    s ∈ seriesOf (.series t :: rest) := by
  rw [seriesOf_cons_series]; exact List.mem_cons_of_mem _ h

theorem mem_seriesOf_head (t : Series) (rest : List Frame) : t ∈ seriesOf (.series t :: rest) := by
  rw [seriesOf_cons_series]; simp

def NoSeries (fs : List Frame) : Prop := ∀ x ∈ fs, x.isSeries = false

theorem seriesOf_pending {pending : List Frame} (h : NoSeries pending) (rest : List Frame) :
    seriesOf (pending ++ rest) = seriesOf rest := by
  rw [seriesOf_append, seriesOf_nonSeries pending h]; rfl

theorem noSeries_snoc {pending : List Frame} (h : NoSeries pending) (x : Frame) (hx : x.isSeries = false) :
    NoSeries (pending ++ [x]) := by
  intro y hy
  simp only [List.mem_append, List.mem_singleton] at hy
  rcases hy with hy | rfl
  · exact h y hy
  · exact hx

/-- series of the stream are sorted by labels (not necessarily strictly: a series may be split
    over several frames, and several stores may deliver it) -/
def SortedSeries (fs : List Frame) : Prop := (seriesOf fs).Pairwise (fun a b => lblLe a.lbls b.lbls)

theorem dedupGo_sorted (fixed : Bool) : ∀ (fs : List Frame) (same : Option (Series × List Series))
    (pending : List Frame), NoSeries pending → SortedSeries fs →
    (∀ f r, same = some (f, r) → ∀ s ∈ seriesOf fs, lblLe f.lbls s.lbls) →
    (seriesOf (dedupGo fixed same pending fs)).Pairwise (fun a b => cmpLabels a.lbls b.lbls = .lt) ∧
    (∀ o ∈ seriesOf (dedupGo fixed same pending fs),
      (∃ s ∈ seriesOf fs, o.lbls = s.lbls) ∨ (∃ f r, same = some (f, r) ∧ o.lbls = f.lbls))
  | [], same, pending, hp, _, _ => by
    unfold dedupGo
    rw [seriesOf_pending hp]
    cases same with
    | none => simp [seriesOf]
    | some p =>
      obtain ⟨f, r⟩ := p
      simp only [seriesOf, List.filterMap_cons, List.filterMap_nil, List.pairwise_cons, List.not_mem_nil,
        false_imp_iff, implies_true, List.Pairwise.nil, and_self, List.mem_singleton, true_and]
      intro o ho
      subst ho
      exact Or.inr ⟨f, r, rfl, chain_lbls' fixed f r⟩
  | .series t :: rest, same, pending, hp, hs, hlow => by
    have hs' : SortedSeries rest := by
      unfold SortedSeries at hs ⊢
      rw [seriesOf_cons_series] at hs
      exact (List.pairwise_cons.mp hs).2
    have ht : ∀ s ∈ seriesOf rest, lblLe t.lbls s.lbls := by
      unfold SortedSeries at hs
      rw [seriesOf_cons_series] at hs
      exact (List.pairwise_cons.mp hs).1
    unfold dedupGo
    cases same with
    | none =>
      simp only
      have ih := dedupGo_sorted fixed rest (some (t, [])) pending hp hs'
        (by intro f r h s hsm; simp only [Option.some.injEq, Prod.mk.injEq] at h; rw [← h.1]; exact ht s hsm)
      refine ⟨ih.1, ?_⟩
      intro o ho
      rcases ih.2 o ho with ⟨s, hsm, hl⟩ | ⟨f, r, h, hl⟩
      · exact Or.inl ⟨s, mem_seriesOf_tail hsm, hl⟩
      · simp only [Option.some.injEq, Prod.mk.injEq] at h
        exact Or.inl ⟨t, mem_seriesOf_head t rest, by rw [hl, ← h.1]⟩
    | some p =>
      obtain ⟨f, r⟩ := p
      have hft : lblLe f.lbls t.lbls := hlow f r rfl t (mem_seriesOf_head t rest)
      have hfrest : ∀ s ∈ seriesOf rest, lblLe f.lbls s.lbls :=
        fun s hsm => hlow f r rfl s (mem_seriesOf_tail hsm)
      simp only
      by_cases heq : cmpLabels f.lbls t.lbls = .eq
      · simp only [heq, if_true]
        have ih := dedupGo_sorted fixed rest (some (f, r ++ [t])) pending hp hs'
          (by intro f' r' h s hsm; simp only [Option.some.injEq, Prod.mk.injEq] at h; rw [← h.1]; exact hfrest s hsm)
        refine ⟨ih.1, ?_⟩
        intro o ho
        rcases ih.2 o ho with ⟨s, hsm, hl⟩ | ⟨f', r', h, hl⟩
        · exact Or.inl ⟨s, mem_seriesOf_tail hsm, hl⟩
        · simp only [Option.some.injEq, Prod.mk.injEq] at h
          exact Or.inr ⟨f, r, rfl, by rw [hl, ← h.1]⟩
      · simp only [heq, if_false]
        have hlt : cmpLabels f.lbls t.lbls = .lt := by
          cases hc : cmpLabels f.lbls t.lbls with
          | lt => rfl
          | eq => exact absurd hc heq
          | gt => exact absurd hc hft
        have ih := dedupGo_sorted fixed rest (some (t, [])) [] (by intro x hx; simp at hx) hs'
          (by intro f' r' h s hsm; simp only [Option.some.injEq, Prod.mk.injEq] at h; rw [← h.1]; exact ht s hsm)
        rw [seriesOf_pending hp, seriesOf_cons_series]
        constructor
        · refine List.pairwise_cons.mpr ⟨?_, ih.1⟩
          intro o ho
          rw [chain_lbls' fixed f r]
          rcases ih.2 o ho with ⟨s, hsm, hl⟩ | ⟨f', r', h, hl⟩
          · rw [hl]; exact lt_of_lt_of_le hlt (ht s hsm)
          · simp only [Option.some.injEq, Prod.mk.injEq] at h
            rw [hl, ← h.1]; exact hlt
        · intro o ho
          simp only [List.mem_cons] at ho
          rcases ho with rfl | ho
          · exact Or.inr ⟨f, r, rfl, chain_lbls' fixed f r⟩
          · rcases ih.2 o ho with ⟨s, hsm, hl⟩ | ⟨f', r', h, hl⟩
            · exact Or.inl ⟨s, mem_seriesOf_tail hsm, hl⟩
            · simp only [Option.some.injEq, Prod.mk.injEq] at h
              exact Or.inl ⟨t, mem_seriesOf_head t rest, by rw [hl, ← h.1]⟩
  | .warning m :: rest, same, pending, hp, hs, hlow => by
    unfold dedupGo
    have hs' : SortedSeries rest := by simpa [SortedSeries, seriesOf] using hs
    have := dedupGo_sorted fixed rest same (pending ++ [.warning m]) (noSeries_snoc hp _ rfl) hs'
      (by intro f r h s hsm; exact hlow f r h s (by simpa [seriesOf] using hsm))
    refine ⟨this.1, ?_⟩
    intro o ho
    rcases this.2 o ho with ⟨s, hsm, hl⟩ | h
    · exact Or.inl ⟨s, by simpa [seriesOf] using hsm, hl⟩
    · exact Or.inr h
  | .hints m :: rest, same, pending, hp, hs, hlow => by
    unfold dedupGo
    have hs' : SortedSeries rest := by simpa [SortedSeries, seriesOf] using hs
    have := dedupGo_sorted fixed rest same (pending ++ [.hints m]) (noSeries_snoc hp _ rfl) hs'
      (by intro f r h s hsm; exact hlow f r h s (by simpa [seriesOf] using hsm))
    refine ⟨this.1, ?_⟩
    intro o ho
    rcases this.2 o ho with ⟨s, hsm, hl⟩ | h
    · exact Or.inl ⟨s, by simpa [seriesOf] using hsm, hl⟩
    · exact Or.inr h
  | .batch b :: rest, same, pending, hp, hs, hlow => by
    unfold dedupGo
    have hs' : SortedSeries rest := by simpa [SortedSeries, seriesOf] using hs
    have := dedupGo_sorted fixed rest same (pending ++ [.batch b]) (noSeries_snoc hp _ rfl) hs'
      (by intro f r h s hsm; exact hlow f r h s (by simpa [seriesOf] using hsm))
    refine ⟨this.1, ?_⟩
    intro o ho
    rcases this.2 o ho with ⟨s, hsm, hl⟩ | h
    · exact Or.inl ⟨s, by simpa [seriesOf] using hsm, hl⟩
    · exact Or.inr h

end Thanos.Merge

namespace Thanos.Merge

/-- every series the deduplicator emits is the chain of a run `f :: r` of series responses of its
    input that all compare equal to `f` -/
theorem dedupGo_groups (fixed : Bool) : ∀ (fs : List Frame) (same : Option (Series × List Series))
    (pending : List Frame), NoSeries pending →
    (∀ f r, same = some (f, r) → ∀ x ∈ r, cmpLabels f.lbls x.lbls = .eq) →
    ∀ o ∈ seriesOf (dedupGo fixed same pending fs),
      ∃ f r, o = chain fixed f r ∧
        (∀ x ∈ f :: r, x ∈ seriesOf fs ∨ ∃ f0 r0, same = some (f0, r0) ∧ x ∈ f0 :: r0) ∧
        ∀ x ∈ r, cmpLabels f.lbls x.lbls = .eq
  | [], same, pending, hp, hinv, o, ho => by
    unfold dedupGo at ho
    rw [seriesOf_pending hp] at ho
    cases same with
    | none => simp [seriesOf] at ho
    | some p =>
      obtain ⟨f, r⟩ := p
      simp only [seriesOf, List.filterMap_cons, List.filterMap_nil, List.mem_singleton] at ho
      subst ho
      exact ⟨f, r, rfl, fun x hx => Or.inr ⟨f, r, rfl, hx⟩, hinv f r rfl⟩
  | .series t :: rest, same, pending, hp, hinv, o, ho => by
    unfold dedupGo at ho
    cases same with
    | none =>
      simp only at ho
      obtain ⟨f, r, ho', hmem, heq⟩ := dedupGo_groups fixed rest (some (t, [])) pending hp
        (by intro f r h x hx; simp only [Option.some.injEq, Prod.mk.injEq] at h; rw [← h.2] at hx; simp at hx) o ho
      refine ⟨f, r, ho', ?_, heq⟩
      intro x hx
      rcases hmem x hx with h | ⟨f0, r0, h0, hx0⟩
      · exact Or.inl (mem_seriesOf_tail h)
      · simp only [Option.some.injEq, Prod.mk.injEq] at h0
        rw [← h0.1, ← h0.2] at hx0
        simp only [List.mem_cons, List.not_mem_nil, or_false] at hx0
        subst hx0
        exact Or.inl (mem_seriesOf_head x rest)
    | some p =>
      obtain ⟨f, r⟩ := p
      simp only at ho
      by_cases hc : cmpLabels f.lbls t.lbls = .eq
      · simp only [hc, if_true] at ho
        obtain ⟨f', r', ho', hmem, heq⟩ := dedupGo_groups fixed rest (some (f, r ++ [t])) pending hp
          (by
            intro f1 r1 h x hx
            simp only [Option.some.injEq, Prod.mk.injEq] at h
            rw [← h.1]; rw [← h.2] at hx
            simp only [List.mem_append, List.mem_singleton] at hx
            rcases hx with hx | rfl
            · exact hinv f r rfl x hx
            · exact hc) o ho
        refine ⟨f', r', ho', ?_, heq⟩
        intro x hx
        rcases hmem x hx with h | ⟨f0, r0, h0, hx0⟩
        · exact Or.inl (mem_seriesOf_tail h)
        · simp only [Option.some.injEq, Prod.mk.injEq] at h0
          rw [← h0.1, ← h0.2] at hx0
          simp only [List.mem_cons, List.mem_append, List.not_mem_nil, or_false] at hx0
          rcases hx0 with hx0 | hx0 | hx0
          · exact Or.inr ⟨f, r, rfl, by simp [hx0]⟩
          · exact Or.inr ⟨f, r, rfl, by simp [hx0]⟩
          · subst hx0; exact Or.inl (mem_seriesOf_head x rest)
      · simp only [hc, if_false] at ho
        rw [seriesOf_pending hp, seriesOf_cons_series] at ho
        simp only [List.mem_cons] at ho
        rcases ho with rfl | ho
        · exact ⟨f, r, rfl, fun x hx => Or.inr ⟨f, r, rfl, hx⟩, hinv f r rfl⟩
        · obtain ⟨f', r', ho', hmem, heq⟩ := dedupGo_groups fixed rest (some (t, [])) [] (by intro x hx; simp at hx)
            (by intro f1 r1 h x hx; simp only [Option.some.injEq, Prod.mk.injEq] at h; rw [← h.2] at hx; simp at hx) o ho
          refine ⟨f', r', ho', ?_, heq⟩
          intro x hx
          rcases hmem x hx with h | ⟨f0, r0, h0, hx0⟩
          · exact Or.inl (mem_seriesOf_tail h)
          · simp only [Option.some.injEq, Prod.mk.injEq] at h0
            rw [← h0.1, ← h0.2] at hx0
            simp only [List.mem_cons, List.not_mem_nil, or_false] at hx0
            subst hx0
            exact Or.inl (mem_seriesOf_head x rest)
  | .warning m :: rest, same, pending, hp, hinv, o, ho => by
    unfold dedupGo at ho
    obtain ⟨f, r, ho', hmem, heq⟩ := dedupGo_groups fixed rest same _ (noSeries_snoc hp (.warning m) rfl) hinv o ho
    exact ⟨f, r, ho', fun x hx => (hmem x hx).imp (fun h => by simpa [seriesOf] using h) id, heq⟩
  | .hints m :: rest, same, pending, hp, hinv, o, ho => by
    unfold dedupGo at ho
    obtain ⟨f, r, ho', hmem, heq⟩ := dedupGo_groups fixed rest same _ (noSeries_snoc hp (.hints m) rfl) hinv o ho
    exact ⟨f, r, ho', fun x hx => (hmem x hx).imp (fun h => by simpa [seriesOf] using h) id, heq⟩
  | .batch b :: rest, same, pending, hp, hinv, o, ho => by
    unfold dedupGo at ho
    obtain ⟨f, r, ho', hmem, heq⟩ := dedupGo_groups fixed rest same _ (noSeries_snoc hp (.batch b) rfl) hinv o ho
    exact ⟨f, r, ho', fun x hx => (hmem x hx).imp (fun h => by simpa [seriesOf] using h) id, heq⟩

/-- `dedupGo_series` with provenance: the run that absorbs a series response consists of series
    responses of the input -/
theorem dedupGo_series' (fixed : Bool) : ∀ (fs : List Frame) (same : Option (Series × List Series))
    (pending : List Frame) (s : Series),
    (∀ f r, same = some (f, r) → ∀ x ∈ r, cmpLabels f.lbls x.lbls = .eq) →
    (s ∈ seriesOf fs ∨ ∃ f r, same = some (f, r) ∧ s ∈ f :: r) →
    ∃ f r, .series (chain fixed f r) ∈ dedupGo fixed same pending fs ∧ s ∈ f :: r ∧
      (∀ x ∈ r, cmpLabels f.lbls x.lbls = .eq) ∧
      (∀ x ∈ f :: r, x ∈ seriesOf fs ∨ ∃ f0 r0, same = some (f0, r0) ∧ x ∈ f0 :: r0)
  | [], same, pending, s, hinv, h => by
    unfold dedupGo
    rcases h with h | ⟨f, r, hs, hm⟩
    · simp [seriesOf] at h
    · subst hs
      exact ⟨f, r, by simp, hm, hinv f r rfl, fun x hx => Or.inr ⟨f, r, rfl, hx⟩⟩
  | .series t :: rest, same, pending, s, hinv, h => by
    unfold dedupGo
    cases same with
    | none =>
      simp only
      have hs' : s ∈ seriesOf rest ∨ ∃ f r, some (t, ([] : List Series)) = some (f, r) ∧ s ∈ f :: r := by
        rcases h with h | ⟨f, r, hs, _⟩
        · rw [seriesOf_cons_series, List.mem_cons] at h
          rcases h with rfl | h
          · exact Or.inr ⟨s, [], rfl, by simp⟩
          · exact Or.inl h
        · simp at hs
      obtain ⟨f, r, hmem, hsf, hr, hprov⟩ := dedupGo_series' fixed rest (some (t, [])) pending s
        (by intro f r h x hx; simp only [Option.some.injEq, Prod.mk.injEq] at h; rw [← h.2] at hx; simp at hx) hs'
      refine ⟨f, r, hmem, hsf, hr, ?_⟩
      intro x hx
      rcases hprov x hx with h | ⟨f0, r0, h0, hx0⟩
      · exact Or.inl (mem_seriesOf_tail h)
      · simp only [Option.some.injEq, Prod.mk.injEq] at h0
        rw [← h0.1, ← h0.2] at hx0
        simp only [List.mem_cons, List.not_mem_nil, or_false] at hx0
        subst hx0
        exact Or.inl (mem_seriesOf_head x rest)
    | some p =>
      obtain ⟨f, r⟩ := p
      simp only
      by_cases heq : cmpLabels f.lbls t.lbls = .eq
      · simp only [heq, if_true]
        have hs' : s ∈ seriesOf rest ∨ ∃ f1 r1, some (f, r ++ [t]) = some (f1, r1) ∧ s ∈ f1 :: r1 := by
          rcases h with h | ⟨f', r', hs, hm⟩
          · rw [seriesOf_cons_series, List.mem_cons] at h
            rcases h with rfl | h
            · exact Or.inr ⟨f, r ++ [s], rfl, by simp⟩
            · exact Or.inl h
          · simp only [Option.some.injEq, Prod.mk.injEq] at hs
            obtain ⟨rfl, rfl⟩ := hs
            refine Or.inr ⟨f, r ++ [t], rfl, ?_⟩
            simp only [List.mem_cons, List.mem_append] at hm ⊢
            rcases hm with hm | hm
            · exact Or.inl hm
            · exact Or.inr (Or.inl hm)
        obtain ⟨f1, r1, hmem, hsf, hr, hprov⟩ := dedupGo_series' fixed rest (some (f, r ++ [t])) pending s
          (by
            intro f' r' hfr x hx
            simp only [Option.some.injEq, Prod.mk.injEq] at hfr
            obtain ⟨rfl, rfl⟩ := hfr
            simp only [List.mem_append, List.mem_singleton] at hx
            rcases hx with hx | rfl
            · exact hinv f r rfl x hx
            · exact heq) hs'
        refine ⟨f1, r1, hmem, hsf, hr, ?_⟩
        intro x hx
        rcases hprov x hx with h | ⟨f0, r0, h0, hx0⟩
        · exact Or.inl (mem_seriesOf_tail h)
        · simp only [Option.some.injEq, Prod.mk.injEq] at h0
          rw [← h0.1, ← h0.2] at hx0
          simp only [List.mem_cons, List.mem_append, List.not_mem_nil, or_false] at hx0
          rcases hx0 with hx0 | hx0 | hx0
          · exact Or.inr ⟨f, r, rfl, by simp [hx0]⟩
          · exact Or.inr ⟨f, r, rfl, by simp [hx0]⟩
          · subst hx0; exact Or.inl (mem_seriesOf_head x rest)
      · simp only [heq, if_false]
        rcases h with h | ⟨f', r', hs, hm⟩
        · rw [seriesOf_cons_series, List.mem_cons] at h
          have hs' : s ∈ seriesOf rest ∨ ∃ f1 r1, some (t, ([] : List Series)) = some (f1, r1) ∧ s ∈ f1 :: r1 := by
            rcases h with rfl | h'
            · exact Or.inr ⟨s, [], rfl, by simp⟩
            · exact Or.inl h'
          obtain ⟨f2, r2, hmem, hs2, hr2, hprov⟩ := dedupGo_series' fixed rest (some (t, [])) [] s
            (by
              intro f' r' hfr x hx
              simp only [Option.some.injEq, Prod.mk.injEq] at hfr
              obtain ⟨_, rfl⟩ := hfr
              simp at hx) hs'
          refine ⟨f2, r2, List.mem_append_right _ (List.mem_cons_of_mem _ hmem), hs2, hr2, ?_⟩
          intro x hx
          rcases hprov x hx with h | ⟨f0, r0, h0, hx0⟩
          · exact Or.inl (mem_seriesOf_tail h)
          · simp only [Option.some.injEq, Prod.mk.injEq] at h0
            rw [← h0.1, ← h0.2] at hx0
            simp only [List.mem_cons, List.not_mem_nil, or_false] at hx0
            subst hx0
            exact Or.inl (mem_seriesOf_head x rest)
        · simp only [Option.some.injEq, Prod.mk.injEq] at hs
          obtain ⟨rfl, rfl⟩ := hs
          exact ⟨f, r, List.mem_append_right _ (by simp), hm, hinv f r rfl, fun x hx => Or.inr ⟨f, r, rfl, hx⟩⟩
  | .warning m :: rest, same, pending, s, hinv, h => by
    unfold dedupGo
    obtain ⟨f, r, hmem, hsf, hr, hprov⟩ := dedupGo_series' fixed rest same (pending ++ [.warning m]) s hinv
      (h.imp (fun h => by simpa [seriesOf] using h) id)
    exact ⟨f, r, hmem, hsf, hr, fun x hx => (hprov x hx).imp (fun h => by simpa [seriesOf] using h) id⟩
  | .hints m :: rest, same, pending, s, hinv, h => by
    unfold dedupGo
    obtain ⟨f, r, hmem, hsf, hr, hprov⟩ := dedupGo_series' fixed rest same (pending ++ [.hints m]) s hinv
      (h.imp (fun h => by simpa [seriesOf] using h) id)
    exact ⟨f, r, hmem, hsf, hr, fun x hx => (hprov x hx).imp (fun h => by simpa [seriesOf] using h) id⟩
  | .batch b :: rest, same, pending, s, hinv, h => by
    unfold dedupGo
    obtain ⟨f, r, hmem, hsf, hr, hprov⟩ := dedupGo_series' fixed rest same (pending ++ [.batch b]) s hinv
      (h.imp (fun h => by simpa [seriesOf] using h) id)
    exact ⟨f, r, hmem, hsf, hr, fun x hx => (hprov x hx).imp (fun h => by simpa [seriesOf] using h) id⟩

end Thanos.Merge
