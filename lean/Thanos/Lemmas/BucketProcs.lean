import Thanos.Model.Bucket
import Thanos.Lemmas.Bucket
/-
  Helper lemmas for C28 about the call scripts of the block procedures: which mutating calls an
  upload / a replication / a Delete consists of, and why they are safe steps for `Good`.
-/
namespace Thanos.Bucket

/-- the hypothesis on the order of `block.upload`'s phases under which the property holds:
    meta.json strictly last, chunks and index somewhere before it -/
def MetaLast (order : List String) : Prop :=
  ∃ pre, order = pre ++ ["meta"] ∧ "meta" ∉ pre ∧ "chunks" ∈ pre ∧ "index" ∈ pre

theorem metaLast_code : MetaLast codeUploadOrder :=
  ⟨["chunks", "index"], by decide, by decide, by decide, by decide⟩

theorem muts_map_mu (ops : List Op) : muts (ops.map .mu) = ops := by
  induction ops with
  | nil => rfl
  | cons op ops ih => simp [muts, ih]

theorem phaseOps_data {n : Nat} {b : Block} {ph : String} (hph : ph ≠ "meta") {op : Op}
    (h : op ∈ phaseOps n b ph) : ∃ f sz, op = .put (n, f) (.data sz) ∧ (f, sz) ∈ b.files := by
  unfold phaseOps at h
  split at h
  · obtain ⟨p, hp, rfl⟩ := List.mem_map.mp h
    exact ⟨p.1, p.2, rfl, by simp [Block.files, hp]⟩
  · simp at h
    exact ⟨indexName, b.index, h, by simp [Block.files]⟩
  · exact absurd rfl hph
  · simp at h

theorem uploadOps_metaLast {order pre : List String} (n : Nat) (b : Block)
    (h : order = pre ++ ["meta"]) :
    uploadOps order n b = pre.flatMap (phaseOps n b) ++ [.put (n, metaName) b.metaObj] := by
  subst h
  simp [uploadOps, List.flatMap_append, phaseOps]

/-- the data phase of an upload: only world-data puts, and every file of the block is put -/
theorem dataPhase_props {pre : List String} (n : Nat) (b : Block) (hm : "meta" ∉ pre)
    (hc : "chunks" ∈ pre) (hi : "index" ∈ pre) :
    (∀ op ∈ pre.flatMap (phaseOps n b), ∃ f sz, op = .put (n, f) (.data sz) ∧ (f, sz) ∈ b.files) ∧
    (∀ f sz, (f, sz) ∈ b.files → Op.put (n, f) (.data sz) ∈ pre.flatMap (phaseOps n b)) := by
  constructor
  · intro op hop
    obtain ⟨ph, hph, hin⟩ := List.mem_flatMap.mp hop
    exact phaseOps_data (fun e => hm (e ▸ hph)) hin
  · intro f sz hf
    simp only [Block.files, List.mem_append, List.mem_singleton] at hf
    rcases hf with hf | hf
    · exact List.mem_flatMap.mpr ⟨"chunks", hc, by
        simp only [phaseOps]
        exact List.mem_map.mpr ⟨(f, sz), hf, rfl⟩⟩
    · cases hf
      exact List.mem_flatMap.mpr ⟨"index", hi, by simp [phaseOps]⟩

theorem safeRun_upload {w : Nat → Block} {order : List String} (ho : MetaLast order) (n : Nat)
    (s : Bucket) : SafeRun w s (uploadOps order n (w n)) := by
  obtain ⟨pre, he, hm, hc, hi⟩ := ho
  rw [uploadOps_metaLast n (w n) he, safeRun_append]
  obtain ⟨hd, hall⟩ := dataPhase_props n (w n) hm hc hi
  refine ⟨safeRun_dataPuts _ s (fun op hop => ?_), ?_, trivial⟩
  · obtain ⟨f, sz, e, hf⟩ := hd op hop
    exact ⟨n, f, sz, e, hf⟩
  · refine .putMeta n false (fun f sz hf => ?_)
    exact present_after_puts _ s (fun op hop => by
      obtain ⟨f, sz, e, _⟩ := hd op hop
      subst e; trivial) (n, f) (.data sz) (hall f sz hf)

theorem ensure_props {w : Nat → Block} (n : Nat) : ∀ (fs : List (String × Nat)) (s : Bucket),
    (∀ p ∈ fs, p ∈ (w n).files) →
    (∀ op ∈ muts (ensureScript n s fs), ∃ f sz, op = .put (n, f) (.data sz) ∧ (f, sz) ∈ (w n).files) ∧
    (∀ p ∈ fs, (get (applyAll s (muts (ensureScript n s fs))) (n, p.1)).isSome = true)
  | [], s, _ => by simp [ensureScript, muts]
  | (f, sz) :: rest, s, h => by
    have hrest : ∀ p ∈ rest, p ∈ (w n).files := fun p hp => h p (List.mem_cons_of_mem _ hp)
    unfold ensureScript
    split
    · rename_i hpres
      obtain ⟨h1, h2⟩ := ensure_props n rest s hrest
      refine ⟨by simpa [muts] using h1, ?_⟩
      intro p hp
      simp only [muts]
      rcases List.mem_cons.mp hp with e | hp'
      · subst e
        exact present_applyAll_puts _ s (fun op hop => by
          obtain ⟨f', sz', e, _⟩ := h1 op hop
          subst e; trivial) _ hpres
      · exact h2 p hp'
    · obtain ⟨h1, h2⟩ := ensure_props n rest (put s (n, f) (.data sz)) hrest
      refine ⟨?_, ?_⟩
      · intro op hop
        simp only [muts, List.mem_cons] at hop
        rcases hop with e | hop
        · exact ⟨f, sz, e, h (f, sz) (by simp)⟩
        · exact h1 op hop
      · intro p hp
        simp only [muts, applyAll_cons, apply]
        rcases List.mem_cons.mp hp with e | hp'
        · subst e
          exact present_applyAll_puts _ _ (fun op hop => by
            obtain ⟨f', sz', e, _⟩ := h1 op hop
            subst e; trivial) _ (by simp [get_put])
        · exact h2 p hp'

theorem muts_append (a b : List Call) : muts (a ++ b) = muts a ++ muts b := by
  induction a with
  | nil => rfl
  | cons c a ih => cases c <;> simp [muts, ih]

theorem muts_map_mu_del (n : Nat) (fs : List String) :
    muts (fs.map fun f => Call.mu (.del (n, f))) = fs.map fun f => Op.del (n, f) := by
  induction fs with
  | nil => rfl
  | cons f fs ih => simp [muts, ih]

/-- the mutating calls of `block.Delete`, phase by phase -/
def delMeta (s : Bucket) (n : Nat) : List Op :=
  if (get s (n, metaName)).isSome then [.del (n, metaName)] else []
def delRest (s : Bucket) (n : Nat) : List Op := (restNames s n).map fun f => .del (n, f)
def delMark (s : Bucket) (n : Nat) : List Op :=
  if (get s (n, markName)).isSome then [.del (n, markName)] else []
def delDirs (n : Nat) : List Op := [.del (n, dirMarkerChunks), .del (n, dirMarkerBlock)]

theorem filter_hasSlash_split (r : List String) :
    ∀ f, f ∈ r.filter (fun f => !hasSlash f) ++ r.filter hasSlash ↔ f ∈ r := by
  intro f
  simp only [List.mem_append, List.mem_filter]
  cases hasSlash f <;> simp

theorem muts_deleteScript (s : Bucket) (n : Nat) :
    ∃ rest', (∀ f, Op.del (n, f) ∈ rest' ↔ f ∈ restNames s n) ∧ (∀ op ∈ rest', ∃ f, op = .del (n, f)) ∧
      muts (deleteScript codeDeleteOrder s n) = delMeta s n ++ rest' ++ delMark s n ++ delDirs n := by
  let r := restNames s n
  refine ⟨(r.filter (fun f => !hasSlash f)).map (fun f => Op.del (n, f)) ++
      (r.filter hasSlash).map (fun f => Op.del (n, f)), ?_, ?_, ?_⟩
  · intro f
    rw [← List.map_append, ← filter_hasSlash_split r f]
    constructor
    · intro h
      obtain ⟨g, hg, e⟩ := List.mem_map.mp h
      cases e; exact hg
    · intro h; exact List.mem_map.mpr ⟨f, h, rfl⟩
  · intro op hop
    rw [← List.map_append] at hop
    obtain ⟨g, _, e⟩ := List.mem_map.mp hop
    exact ⟨g, e.symm⟩
  · simp only [deleteScript, codeDeleteOrder, List.flatMap_cons, List.flatMap_nil, deletePhase,
      List.append_nil, muts_append, delMeta, delMark, delDirs]
    have e1 : muts (Call.rd :: (if (get s (n, metaName)).isSome then [Call.mu (.del (n, metaName))] else [])) =
        (if (get s (n, metaName)).isSome then [Op.del (n, metaName)] else []) := by
      split <;> simp [muts]
    have e3 : muts (Call.rd :: (if (get s (n, markName)).isSome then [Call.mu (.del (n, markName))] else [])) =
        (if (get s (n, markName)).isSome then [Op.del (n, markName)] else []) := by
      split <;> simp [muts]
    have e2a : muts (Call.rd :: ((List.filter (fun f => !hasSlash f) (restNames s n)).map fun f => Call.mu (.del (n, f)))) =
        (r.filter (fun f => !hasSlash f)).map (fun f => Op.del (n, f)) := by
      simp [muts, muts_map_mu_del, r]
    have e2b : muts (if (List.filter hasSlash (restNames s n)).isEmpty then []
         else Call.rd :: ((List.filter hasSlash (restNames s n)).map fun f => Call.mu (.del (n, f)))) =
        (r.filter hasSlash).map (fun f => Op.del (n, f)) := by
      split
      · rename_i he
        simp only [List.isEmpty_iff] at he
        simp [r, he, muts]
      · simp [muts, muts_map_mu_del, r]
    rw [e1, e2a, e2b, e3]
    simp [muts, List.append_assoc]

theorem mem_restNames (s : Bucket) (n : Nat) (f : String) :
    f ∈ restNames s n ↔ f ∈ namesOf s n ∧ f ≠ metaName ∧ f ≠ markName := by
  simp only [restNames, List.mem_append, mem_sortNames, List.mem_filter]
  cases hasSlash f <;> simp

theorem mem_namesOf_of_get {s : Bucket} {n : Nat} {f : String} (h : get s (n, f) ≠ none) :
    f ∈ namesOf s n := by
  induction s with
  | nil => simp [get] at h
  | cons p s ih =>
    obtain ⟨⟨a, c⟩, o⟩ := p
    simp only [get] at h
    simp only [namesOf, List.filter_cons]
    by_cases e : (a, c) = (n, f)
    · cases e; simp
    · simp only [e, if_false] at h
      have := ih h
      simp only [namesOf] at this
      split
      · simp only [List.map_cons, List.mem_cons]; right; exact this
      · exact this

theorem dels_same_block_get {n : Nat} : ∀ (ops : List Op) (s : Bucket),
    (∀ op ∈ ops, ∃ f, op = .del (n, f)) → ∀ k,
    get (applyAll s ops) k = if (Op.del k) ∈ ops then none else get s k
  | [], s, _, k => by simp [applyAll]
  | op :: ops, s, h, k => by
    obtain ⟨f, rfl⟩ := h op (by simp)
    rw [applyAll_cons, dels_same_block_get ops _ (fun o ho => h o (List.mem_cons_of_mem _ ho)) k]
    simp only [apply, get_del, List.mem_cons]
    by_cases h1 : Op.del k ∈ ops
    · simp [h1]
    · by_cases h2 : k = (n, f)
      · subst h2; simp
      · have : ¬ Op.del k = Op.del (n, f) := fun e => h2 (by cases e; rfl)
        simp [h1, h2, this]

end Thanos.Bucket
