import Thanos.Lemmas.ChunkHeap
/-
  C40: the outer loop of `dedupChunksIterator` terminates within the model's fuel and never
  panics on well-formed input.  Measure: the number of count samples held by the heap; every
  `Next` removes at least one.
-/
namespace Thanos.Dedup

/-- count samples of an iterator / of the heap (`cnt` = count samples of a chunk) -/
def cntIt (it : ChunkIt) : Nat := (it.map cnt).sum
def cntHeap (h : List ChunkIt) : Nat := (h.map cntIt).sum

theorem sum_map_set {α : Type} (f : α → Nat) : ∀ (l : List α) (i : Nat) (a x : α), l[i]? = some x →
    ((l.set i a).map f).sum + f x = (l.map f).sum + f a
  | [], i, a, x, h => by simp at h
  | b :: l, 0, a, x, h => by
    simp at h; subst h
    simp only [List.set_cons_zero, List.map_cons, List.sum_cons]; omega
  | b :: l, i + 1, a, x, h => by
    simp only [List.getElem?_cons_succ] at h
    have := sum_map_set f l i a x h
    simp only [List.set_cons_succ, List.map_cons, List.sum_cons]; omega

theorem hswap_cnt (h : List ChunkIt) (i j : Nat) : cntHeap (hswap h i j) = cntHeap h := by
  unfold hswap cntHeap
  split
  · rename_i x y hx hy
    have h1 := sum_map_set cntIt h i y x hx
    have hj : (h.set i y)[j]? = some (if i = j then y else y) := by
      by_cases hij : i = j
      · subst hij
        have hlt : i < h.length := by
          cases hgl : h[i]? with
          | none => rw [hgl] at hx; cases hx
          | some _ => exact (List.getElem?_eq_some_iff.mp hgl).1
        simp [List.getElem?_set_self hlt]
      · rw [List.getElem?_set_ne hij]; simp [hy]
    simp only [ite_self] at hj
    have h2 := sum_map_set cntIt (h.set i y) j x y hj
    omega
  · rfl

theorem hswap_length (h : List ChunkIt) (i j : Nat) : (hswap h i j).length = h.length := by
  unfold hswap; split <;> simp

theorem hup_cnt : ∀ (f : Nat) (h : List ChunkIt) (j : Nat), cntHeap (hup f h j) = cntHeap h := by
  intro f
  induction f with
  | zero => intro h j; rfl
  | succ f ih =>
    intro h j
    unfold hup
    simp only
    split
    · rfl
    · rw [ih, hswap_cnt]

theorem hdown_cnt : ∀ (f : Nat) (h : List ChunkIt) (i n : Nat), cntHeap (hdown f h i n) = cntHeap h := by
  intro f
  induction f with
  | zero => intro h i n; rfl
  | succ f ih =>
    intro h i n
    unfold hdown
    split
    · rfl
    · split
      · rfl
      · rw [ih, hswap_cnt]

theorem hdown_length : ∀ (f : Nat) (h : List ChunkIt) (i n : Nat), (hdown f h i n).length = h.length := by
  intro f
  induction f with
  | zero => intro h i n; rfl
  | succ f ih =>
    intro h i n
    unfold hdown
    split
    · rfl
    · split
      · rfl
      · rw [ih, hswap_length]

theorem hpush_cnt (h : List ChunkIt) (x : ChunkIt) : cntHeap (hpush h x) = cntHeap h + cntIt x := by
  unfold hpush
  rw [hup_cnt]
  simp [cntHeap]

theorem hpop_cnt {h h' : List ChunkIt} {x : ChunkIt} (hp : hpop h = some (x, h')) :
    cntHeap h' + cntIt x = cntHeap h := by
  unfold hpop at hp
  split at hp
  · simp at hp
  · simp only at hp
    split at hp
    · rename_i y hy
      simp only [Option.some.injEq, Prod.mk.injEq] at hp
      obtain ⟨rfl, rfl⟩ := hp
      have htot : cntHeap (hdown (h.length + 1) (hswap h 0 (h.length - 1)) 0 (h.length - 1)) = cntHeap h := by
        rw [hdown_cnt, hswap_cnt]
      have hne : hdown (h.length + 1) (hswap h 0 (h.length - 1)) 0 (h.length - 1) ≠ [] := by
        intro he; rw [he] at hy; simp at hy
      have hsplit := List.dropLast_concat_getLast hne
      have hlast : (hdown (h.length + 1) (hswap h 0 (h.length - 1)) 0 (h.length - 1)).getLast hne = y := by
        have := List.getLast?_eq_some_getLast hne
        rw [hy] at this
        exact (Option.some.inj this).symm
      rw [← htot]
      conv => rhs; rw [← hsplit]
      rw [hlast]
      simp [cntHeap]
    · simp at hp

theorem hswap_get_other (h : List ChunkIt) (i j k : Nat) (hi : k ≠ i) (hj : k ≠ j) :
    (hswap h i j)[k]? = h[k]? := by
  unfold hswap
  split
  · rw [List.getElem?_set_ne (Ne.symm hj), List.getElem?_set_ne (Ne.symm hi)]
  · rfl

theorem hchild_lt (h : List ChunkIt) (j1 n : Nat) (hj : j1 < n) : hchild h j1 n < n := by
  unfold hchild
  split
  · rename_i hc
    simp only [Bool.and_eq_true, decide_eq_true_eq] at hc
    exact hc.1
  · exact hj

theorem hdown_get_ge : ∀ (f : Nat) (h : List ChunkIt) (i n k : Nat), i < n → n ≤ k →
    (hdown f h i n)[k]? = h[k]? := by
  intro f
  induction f with
  | zero => intro h i n k _ _; rfl
  | succ f ih =>
    intro h i n k hi hk
    unfold hdown
    split
    · rfl
    · rename_i hlt
      split
      · rfl
      · have hj := hchild_lt h (2 * i + 1) n (by omega)
        rw [ih _ _ _ _ hj hk, hswap_get_other _ _ _ _ (by omega) (by omega)]

/-- `heap.Pop` returns the root -/
theorem hpop_head {h h' : List ChunkIt} {x : ChunkIt} (hp : hpop h = some (x, h')) : h.head? = some x := by
  unfold hpop at hp
  split at hp
  · simp at hp
  · rename_i hne
    simp only at hp
    split at hp
    · rename_i y hy
      simp only [Option.some.injEq, Prod.mk.injEq] at hp
      obtain ⟨rfl, _⟩ := hp
      have hlen : h.length ≠ 0 := by
        intro h0
        have : h = [] := List.length_eq_zero_iff.mp h0
        rw [this] at hne; simp at hne
      obtain ⟨x0, hx0⟩ : ∃ x0, h[0]? = some x0 := by
        cases h with
        | nil => simp at hlen
        | cons a _ => exact ⟨a, rfl⟩
      obtain ⟨yl, hyl⟩ : ∃ yl, h[h.length - 1]? = some yl := by
        have : h.length - 1 < h.length := by omega
        exact ⟨h[h.length - 1], List.getElem?_eq_getElem this⟩
      -- after the swap the root sits at the last index
      have hsw : (hswap h 0 (h.length - 1))[h.length - 1]? = some x0 := by
        unfold hswap
        simp only [hx0, hyl]
        have : h.length - 1 < (h.set 0 yl).length := by simp; omega
        rw [List.getElem?_set_self this]
      -- heap.down below the last index does not touch it
      have hdn : (hdown (h.length + 1) (hswap h 0 (h.length - 1)) 0 (h.length - 1))[h.length - 1]? = some x0 := by
        by_cases h1 : h.length - 1 = 0
        · -- a single element: down does nothing
          rw [h1] at hsw ⊢
          unfold hdown
          simp only [Nat.mul_zero, Nat.zero_add]
          split
          · exact hsw
          · rename_i hc; omega
        · rw [hdown_get_ge _ _ _ _ _ (by omega) (Nat.le_refl _)]
          exact hsw
      -- the last element is at the last index
      have hl : (hdown (h.length + 1) (hswap h 0 (h.length - 1)) 0 (h.length - 1)).length = h.length := by
        rw [hdown_length, hswap_length]
      rw [List.getLast?_eq_getElem?, hl, hdn] at hy
      rw [List.head?_eq_getElem?, hx0]
      exact hy
    · simp at hp



/-! ### totality of the drain: the count samples held by the heap strictly decrease -/

/-- no exhausted iterator sits in the heap -/
def NE (h : List ChunkIt) : Prop := ∀ it ∈ h, it ≠ []

theorem hpush_mem {h : List ChunkIt} {x it : ChunkIt} (hit : it ∈ hpush h x) : it ∈ h ∨ it = x := by
  have := hup_sub _ _ _ it hit
  rcases List.mem_append.mp this with h1 | h1
  · exact Or.inl h1
  · simp at h1; exact Or.inr h1

theorem hpop_mem {h h' : List ChunkIt} {x : ChunkIt} (hp : hpop h = some (x, h')) :
    x ∈ h ∧ ∀ it ∈ h', it ∈ h := by
  unfold hpop at hp
  split at hp
  · simp at hp
  · simp only at hp
    split at hp
    · rename_i y hy
      simp only [Option.some.injEq, Prod.mk.injEq] at hp
      obtain ⟨rfl, rfl⟩ := hp
      have hsub : ∀ it ∈ hdown (h.length + 1) (hswap h 0 (h.length - 1)) 0 (h.length - 1), it ∈ h :=
        fun it hit => hswap_sub _ _ _ it (hdown_sub _ _ _ _ it hit)
      exact ⟨hsub _ (List.mem_of_getLast? hy), fun it hit => hsub it (List.dropLast_subset _ hit)⟩
    · simp at hp

theorem hpop_some {h : List ChunkIt} (hne : h ≠ []) : ∃ x h', hpop h = some (x, h') := by
  unfold hpop
  split
  · rename_i he; simp at he; exact absurd he hne
  · simp only
    split
    · exact ⟨_, _, rfl⟩
    · rename_i hl
      rw [List.getLast?_eq_none_iff] at hl
      have := congrArg List.length hl
      rw [hdown_length, hswap_length] at this
      cases h with
      | nil => exact absurd rfl hne
      | cons a t => simp at this

theorem hpop_none {h : List ChunkIt} (hp : hpop h = none) : h = [] := by
  cases h with
  | nil => rfl
  | cons a t =>
    obtain ⟨x, h', hx⟩ := hpop_some (h := a :: t) (by simp)
    rw [hx] at hp; simp at hp

theorem hadvance_ne {h : List ChunkIt} {it : ChunkIt} (hh : NE h) : NE (hadvance h it) := by
  unfold hadvance
  split
  · exact hh
  · rename_i hne
    intro x hx
    rcases hpush_mem hx with h1 | h1
    · exact hh x h1
    · subst h1; intro he; rw [he] at hne; simp at hne

theorem hadvance_cnt (h : List ChunkIt) (it : ChunkIt) :
    cntHeap (hadvance h it) = cntHeap h + cntIt it.tail := by
  unfold hadvance
  split
  · rename_i he
    have : it.tail = [] := by simpa using he
    rw [this]; simp [cntIt]
  · exact hpush_cnt _ _

theorem cntIt_cons (c : AggrChk) (t : List AggrChk) : cntIt (c :: t) = cnt c + cntIt t := by
  simp [cntIt]

/-- popping the top iterator and advancing it removes exactly its first chunk from the heap -/
theorem pop_advance_cnt {h h1 : List ChunkIt} {it : ChunkIt} {c : AggrChk}
    (hp : hpop h = some (it, h1)) (hc : it.head? = some c) :
    cntHeap (hadvance h1 it) + cnt c = cntHeap h := by
  have h1' := hpop_cnt hp
  rw [hadvance_cnt]
  cases it with
  | nil => simp at hc
  | cons a t =>
    simp only [List.head?_cons, Option.some.injEq] at hc
    subst hc
    rw [cntIt_cons] at h1'
    simp only [List.tail_cons]
    omega

theorem overlapLoop_cnt : ∀ (f : Nat) (h : List ChunkIt) (om : List AggrChk) (oMax : Int) (prev : AggrChk),
    NE h →
    NE (overlapLoop f h om oMax prev).1 ∧
    cntHeap (overlapLoop f h om oMax prev).1 + ((overlapLoop f h om oMax prev).2.map cnt).sum
      ≤ cntHeap h + (om.map cnt).sum := by
  intro f
  induction f with
  | zero => intro h om oMax prev hh; exact ⟨hh, Nat.le_refl _⟩
  | succ f ih =>
    intro h om oMax prev hh
    unfold overlapLoop
    cases hnext : h.head?.bind (·.head?) with
    | none => exact ⟨hh, Nat.le_refl _⟩
    | some next =>
      simp only
      split
      · exact ⟨hh, Nat.le_refl _⟩
      · cases hp : hpop h with
        | none => exact ⟨hh, Nat.le_refl _⟩
        | some p =>
          obtain ⟨it, h1⟩ := p
          have hhd := hpop_head hp
          rw [hhd] at hnext
          simp only [Option.bind_some] at hnext
          have hacc := pop_advance_cnt hp hnext
          have hh2 : NE (hadvance h1 it) := hadvance_ne (fun x hx => hh x ((hpop_mem hp).2 x hx))
          simp only
          split
          · obtain ⟨i1, i2⟩ := ih (hadvance h1 it) om oMax prev hh2
            exact ⟨i1, by omega⟩
          · obtain ⟨i1, i2⟩ := ih (hadvance h1 it) (om ++ [next])
              (if next.maxt > oMax then next.maxt else oMax) next hh2
            refine ⟨i1, ?_⟩
            simp only [List.map_append, List.sum_append, List.map_cons, List.map_nil, List.sum_cons,
              List.sum_nil] at i2
            omega

theorem cnt_pos {c : AggrChk} (h : chunkWF c = true) : 0 < cnt c := by
  have := (chunkWF_agg h).2.2.1
  unfold cnt
  exact List.length_pos_iff.mpr this

/-- **One `Next` of the repaired merger on a heap of well-formed chunks never panics**: it ends
    exactly when the heap is empty, and otherwise yields a chunk and a heap holding strictly fewer
    count samples. -/
theorem dcNext_total {split : Nat} (hsp : 0 < split) {h : List ChunkIt}
    (hh : HeapAll (fun c => chunkWF c = true) h) (hne : NE h) :
    (h = [] ∧ dcNext true true split h = .done) ∨
    ∃ c h', dcNext true true split h = .chunk c h' ∧ NE h' ∧ cntHeap h' + 1 ≤ cntHeap h := by
  cases hp : hpop h with
  | none =>
    left
    exact ⟨hpop_none hp, by unfold dcNext; rw [hp]⟩
  | some p =>
    right
    obtain ⟨it, h1⟩ := p
    obtain ⟨hmem, hsub⟩ := hpop_mem hp
    obtain ⟨hit, hh1⟩ := hpop_all hh hp
    have hitne := hne it hmem
    cases it with
    | nil => exact absurd rfl hitne
    | cons curr t =>
      have hcurr : chunkWF curr = true := hit curr (by simp)
      have hacc := pop_advance_cnt hp (c := curr) rfl
      have hne2 : NE (hadvance h1 (curr :: t)) := hadvance_ne (fun x hx => hne x (hsub x hx))
      have hh2 := hadvance_all hh1 hit
      obtain ⟨hr1, hr2⟩ := overlapLoop_all (P := fun c => chunkWF c = true)
        (heapChunks (hadvance h1 (curr :: t)) + 1) (hadvance h1 (curr :: t)) [] curr.maxt curr hh2 (by simp)
      obtain ⟨hn1, hn2⟩ := overlapLoop_cnt (heapChunks (hadvance h1 (curr :: t)) + 1)
        (hadvance h1 (curr :: t)) [] curr.maxt curr hne2
      have hpos := cnt_pos hcurr
      simp only [List.map_nil, List.sum_nil, Nat.add_zero] at hn2
      unfold dcNext
      rw [hp]
      simp only [List.head?_cons]
      split
      · exact ⟨_, _, rfl, hn1, by omega⟩
      · rename_i hemp
        have hne' : (overlapLoop (heapChunks (hadvance h1 (curr :: t)) + 1) (hadvance h1 (curr :: t)) []
            curr.maxt curr).2 ≠ [] := by
          intro he; rw [he] at hemp; simp at hemp
        obtain ⟨out, hout, hwf, hone, hocnt⟩ := aggrOut_wf hsp _ curr hne' (by
          intro c hc
          rcases List.mem_append.mp hc with hc | hc
          · exact hr2 c hc
          · simp at hc; subst hc; exact hcurr)
        rw [hout]
        cases out with
        | nil => exact absurd rfl hone
        | cons c rest =>
          simp only
          have hcpos : 0 < cnt c := cnt_pos (hwf c (by simp))
          simp only [List.map_append, List.sum_append, List.map_cons, List.map_nil, List.sum_cons,
            List.sum_nil] at hocnt
          refine ⟨_, _, rfl, ?_, ?_⟩
          · split
            · exact hn1
            · rename_i hre
              intro x hx
              rcases hpush_mem hx with h3 | h3
              · exact hn1 x h3
              · subst h3; intro he; rw [he] at hre; simp at hre
          · split
            · omega
            · rw [hpush_cnt]
              have : cntIt rest = (rest.map cnt).sum := rfl
              omega

/-- with enough fuel the outer drain loop of the repaired merger terminates without a panic -/
theorem dcDrain_total {split : Nat} (hsp : 0 < split) : ∀ (f : Nat) (h : List ChunkIt),
    HeapAll (fun c => chunkWF c = true) h → NE h → cntHeap h + 1 ≤ f →
    ∃ out, dcDrain true true split f h = some out := by
  intro f
  induction f with
  | zero => intro h _ _ hf; omega
  | succ f ih =>
    intro h hh hne hf
    unfold dcDrain
    rcases dcNext_total hsp hh hne with ⟨_, hd⟩ | ⟨c, h', hc, hne', hlt⟩
    · rw [hd]; exact ⟨[], rfl⟩
    · rw [hc]
      obtain ⟨out, ho⟩ := ih h' (dcNext_wf hsp hh hc).2 hne' (by omega)
      exact ⟨c :: out, by simp [ho]⟩

end Thanos.Dedup
