import Thanos.Lemmas.ChunkHeap
/-
  C40: the outer loop of `dedupChunksIterator` terminates within the model's fuel and never
  panics on well-formed input.  Measure: the number of count samples held by the heap; every
  `Next` removes at least one.
-/
namespace Thanos.Dedup

/-- count samples of a chunk / of an iterator / of the heap -/
def cnt (c : AggrChk) : Nat := (agg 0 c).length
def cntIt (it : ChunkIt) : Nat := (it.map cnt).sum
def cntHeap (h : List ChunkIt) : Nat := (h.map cntIt).sum

theorem sum_map_set {α : Type} (f : α → Nat) : ∀ (l : List α) (i : Nat) (a x : α), l[i]? = some x →
    ((l.set i a).map f).sum + f x = (l.map f).sum + f a
  | [], i, a, x, h => by simp at h
  | b :: l, 0, a, x, h => by
    simp at h; subst h
    simp only [List.set_cons_zero, List.map_cons, List.sum_cons]; omega
  | b :: l, i + 1, a, x, h => by
    simp only [List.getElem?_cons_succ] at h
    have := sum_map_set f l i a x h
    simp only [List.set_cons_succ, List.map_cons, List.sum_cons]; omega

theorem hswap_cnt (h : List ChunkIt) (i j : Nat) : cntHeap (hswap h i j) = cntHeap h := by
  unfold hswap cntHeap
  split
  · rename_i x y hx hy
    have h1 := sum_map_set cntIt h i y x hx
    have hj : (h.set i y)[j]? = some (if i = j then y else y) := by
      by_cases hij : i = j
      · subst hij
        have hlt : i < h.length := by
          cases hgl : h[i]? with
          | none => rw [hgl] at hx; cases hx
          | some _ => exact (List.getElem?_eq_some_iff.mp hgl).1
        simp [List.getElem?_set_self hlt]
      · rw [List.getElem?_set_ne hij]; simp [hy]
    simp only [ite_self] at hj
    have h2 := sum_map_set cntIt (h.set i y) j x y hj
    omega
  · rfl

theorem hswap_length (h : List ChunkIt) (i j : Nat) : (hswap h i j).length = h.length := by
  unfold hswap; split <;> simp

theorem hup_cnt : ∀ (f : Nat) (h : List ChunkIt) (j : Nat), cntHeap (hup f h j) = cntHeap h := by
  intro f
  induction f with
  | zero => intro h j; rfl
  | succ f ih =>
    intro h j
    unfold hup
    simp only
    split
    · rfl
    · rw [ih, hswap_cnt]

theorem hdown_cnt : ∀ (f : Nat) (h : List ChunkIt) (i n : Nat), cntHeap (hdown f h i n) = cntHeap h := by
  intro f
  induction f with
  | zero => intro h i n; rfl
  | succ f ih =>
    intro h i n
    unfold hdown
    split
    · rfl
    · split
      · rfl
      · rw [ih, hswap_cnt]

theorem hdown_length : ∀ (f : Nat) (h : List ChunkIt) (i n : Nat), (hdown f h i n).length = h.length := by
  intro f
  induction f with
  | zero => intro h i n; rfl
  | succ f ih =>
    intro h i n
    unfold hdown
    split
    · rfl
    · split
      · rfl
      · rw [ih, hswap_length]

theorem hpush_cnt (h : List ChunkIt) (x : ChunkIt) : cntHeap (hpush h x) = cntHeap h + cntIt x := by
  unfold hpush
  rw [hup_cnt]
  simp [cntHeap]

theorem hpop_cnt {h h' : List ChunkIt} {x : ChunkIt} (hp : hpop h = some (x, h')) :
    cntHeap h' + cntIt x = cntHeap h := by
  unfold hpop at hp
  split at hp
  · simp at hp
  · simp only at hp
    split at hp
    · rename_i y hy
      simp only [Option.some.injEq, Prod.mk.injEq] at hp
      obtain ⟨rfl, rfl⟩ := hp
      have htot : cntHeap (hdown (h.length + 1) (hswap h 0 (h.length - 1)) 0 (h.length - 1)) = cntHeap h := by
        rw [hdown_cnt, hswap_cnt]
      have hne : hdown (h.length + 1) (hswap h 0 (h.length - 1)) 0 (h.length - 1) ≠ [] := by
        intro he; rw [he] at hy; simp at hy
      have hsplit := List.dropLast_concat_getLast hne
      have hlast : (hdown (h.length + 1) (hswap h 0 (h.length - 1)) 0 (h.length - 1)).getLast hne = y := by
        have := List.getLast?_eq_some_getLast hne
        rw [hy] at this
        exact (Option.some.inj this).symm
      rw [← htot]
      conv => rhs; rw [← hsplit]
      rw [hlast]
      simp [cntHeap]
    · simp at hp

theorem hswap_get_other (h : List ChunkIt) (i j k : Nat) (hi : k ≠ i) (hj : k ≠ j) :
    (hswap h i j)[k]? = h[k]? := by
  unfold hswap
  split
  · rw [List.getElem?_set_ne (Ne.symm hj), List.getElem?_set_ne (Ne.symm hi)]
  · rfl

theorem hchild_lt (h : List ChunkIt) (j1 n : Nat) (hj : j1 < n) : hchild h j1 n < n := by
  unfold hchild
  split
  · rename_i hc
    simp only [Bool.and_eq_true, decide_eq_true_eq] at hc
    exact hc.1
  · exact hj

theorem hdown_get_ge : ∀ (f : Nat) (h : List ChunkIt) (i n k : Nat), i < n → n ≤ k →
    (hdown f h i n)[k]? = h[k]? := by
  intro f
  induction f with
  | zero => intro h i n k _ _; rfl
  | succ f ih =>
    intro h i n k hi hk
    unfold hdown
    split
    · rfl
    · rename_i hlt
      split
      · rfl
      · have hj := hchild_lt h (2 * i + 1) n (by omega)
        rw [ih _ _ _ _ hj hk, hswap_get_other _ _ _ _ (by omega) (by omega)]

/-- `heap.Pop` returns the root -/
theorem hpop_head {h h' : List ChunkIt} {x : ChunkIt} (hp : hpop h = some (x, h')) : h.head? = some x := by
  unfold hpop at hp
  split at hp
  · simp at hp
  · rename_i hne
    simp only at hp
    split at hp
    · rename_i y hy
      simp only [Option.some.injEq, Prod.mk.injEq] at hp
      obtain ⟨rfl, _⟩ := hp
      have hlen : h.length ≠ 0 := by
        intro h0
        have : h = [] := List.length_eq_zero_iff.mp h0
        rw [this] at hne; simp at hne
      obtain ⟨x0, hx0⟩ : ∃ x0, h[0]? = some x0 := by
        cases h with
        | nil => simp at hlen
        | cons a _ => exact ⟨a, rfl⟩
      obtain ⟨yl, hyl⟩ : ∃ yl, h[h.length - 1]? = some yl := by
        have : h.length - 1 < h.length := by omega
        exact ⟨h[h.length - 1], List.getElem?_eq_getElem this⟩
      -- after the swap the root sits at the last index
      have hsw : (hswap h 0 (h.length - 1))[h.length - 1]? = some x0 := by
        unfold hswap
        simp only [hx0, hyl]
        have : h.length - 1 < (h.set 0 yl).length := by simp; omega
        rw [List.getElem?_set_self this]
      -- heap.down below the last index does not touch it
      have hdn : (hdown (h.length + 1) (hswap h 0 (h.length - 1)) 0 (h.length - 1))[h.length - 1]? = some x0 := by
        by_cases h1 : h.length - 1 = 0
        · -- a single element: down does nothing
          rw [h1] at hsw ⊢
          unfold hdown
          simp only [Nat.mul_zero, Nat.zero_add]
          split
          · exact hsw
          · rename_i hc; omega
        · rw [hdown_get_ge _ _ _ _ _ (by omega) (Nat.le_refl _)]
          exact hsw
      -- the last element is at the last index
      have hl : (hdown (h.length + 1) (hswap h 0 (h.length - 1)) 0 (h.length - 1)).length = h.length := by
        rw [hdown_length, hswap_length]
      rw [List.getLast?_eq_getElem?, hl, hdn] at hy
      rw [List.head?_eq_getElem?, hx0]
      exact hy
    · simp at hp

end Thanos.Dedup
