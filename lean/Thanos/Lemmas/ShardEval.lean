import Thanos.Model.ShardEval
/-
  Helper lemmas for C44: evaluation of the fragment commutes with taking a shard, provided every
  node keeps the shard of a series unchanged.
-/
namespace Thanos.Sharding

theorem nub_filter {α : Type} [DecidableEq α] (p : α → Bool) :
    ∀ l : List α, nub (l.filter p) = (nub l).filter p
  | [] => rfl
  | x :: xs => by
    by_cases hp : p x = true
    · simp only [List.filter_cons, hp, if_true, nub, nub_filter p xs]
      congr 1
      simp only [List.filter_filter]
      apply List.filter_congr
      intro a _
      exact Bool.and_comm _ _
    · simp only [List.filter_cons, hp, nub, nub_filter p xs, Bool.false_eq_true, if_false]
      simp only [List.filter_filter]
      apply List.filter_congr
      intro a _
      by_cases ha : a = x
      · subst ha; simp [hp]
      · simp [ha]

theorem mem_nub {α : Type} [DecidableEq α] {a : α} : ∀ {l : List α}, a ∈ nub l ↔ a ∈ l
  | [] => by simp [nub]
  | x :: xs => by
    simp only [nub, List.mem_cons, List.mem_filter, mem_nub (l := xs)]
    by_cases h : a = x
    · simp [h]
    · simp [h]

/-- node-wise condition: no node changes the shard of a series -/
def Compat (sh : Labels → Nat) : VExpr → Prop
  | .sel _ => True
  | .fn g e => (∀ l v s, g l v = some s → sh s.1 = sh l) ∧ Compat sh e
  | .agg key _ e => (∀ l, sh (key l) = sh l) ∧ Compat sh e
  | .binL sig f l r =>
    (∀ a b, sig a = sig b → sh a = sh b) ∧ (∀ x ro s, f x ro = some s → sh s.1 = sh x.1) ∧ Compat sh l ∧ Compat sh r
  | .append l r => Compat sh l ∧ Compat sh r
  | .overTime _ key _ e => (∀ l, sh (key l) = sh l) ∧ Compat sh e
  | .aggL key op e =>
    (∀ l, sh (key l) = sh l) ∧
    (∀ k ms x, (∀ m ∈ ms, key m.1 = k) → x ∈ op k ms → sh x.1 = sh k) ∧ Compat sh e

theorem groupAgg_shard (sh : Labels → Nat) (key : Labels → Labels) (op : List Series → Int)
    (hk : ∀ l, sh (key l) = sh l) (i : Nat) (v : Vec) :
    groupAgg key op (shardOf sh i v) = shardOf sh i (groupAgg key op v) := by
  unfold groupAgg shardOf
  have hkeys : (v.filter fun s => sh s.1 = i).map (fun s => key s.1) =
      (v.map fun s => key s.1).filter (fun k => sh k = i) := by
    rw [List.filter_map]
    congr 1
    apply List.filter_congr
    intro s _
    simp [hk]
  rw [hkeys, nub_filter, List.filter_map]
  simp only [Function.comp_def]
  apply List.map_congr_left
  intro k hk'
  have hki : sh k = i := by simpa using (List.mem_filter.mp hk').2
  congr 2
  rw [List.filter_filter]
  apply List.filter_congr
  intro s _
  by_cases h : key s.1 = k
  · have : sh s.1 = i := by rw [← hk s.1, h, hki]
    simp [h, this]
  · simp [h]

theorem flatMap_ite_filter {α β : Type} (p : α → Bool) (g : α → List β) :
    ∀ l : List α, (l.flatMap fun k => if p k then g k else []) = (l.filter p).flatMap g
  | [] => rfl
  | x :: xs => by
    simp only [List.flatMap_cons, List.filter_cons]
    cases hp : p x <;> simp [flatMap_ite_filter p g xs]

theorem filter_flatMap' {α β : Type} (q : β → Bool) (g : α → List β) :
    ∀ l : List α, (l.flatMap g).filter q = l.flatMap fun a => (g a).filter q
  | [] => rfl
  | x :: xs => by simp [List.flatMap_cons, List.filter_append, filter_flatMap' q g xs]

theorem flatMap_congr' {α β : Type} (f g : α → List β) :
    ∀ (l : List α), (∀ a ∈ l, f a = g a) → l.flatMap f = l.flatMap g
  | [], _ => rfl
  | x :: xs, h => by
    simp only [List.flatMap_cons, h x (by simp)]
    rw [flatMap_congr' f g xs (fun a ha => h a (List.mem_cons_of_mem _ ha))]

theorem groupAggL_shard (sh : Labels → Nat) (key : Labels → Labels) (op : Labels → List Series → List Series)
    (hk : ∀ l, sh (key l) = sh l)
    (hop : ∀ k ms x, (∀ m ∈ ms, key m.1 = k) → x ∈ op k ms → sh x.1 = sh k) (i : Nat) (v : Vec) :
    groupAggL key op (shardOf sh i v) = shardOf sh i (groupAggL key op v) := by
  unfold groupAggL shardOf
  have hkeys : (v.filter fun s => sh s.1 = i).map (fun s => key s.1) =
      (v.map fun s => key s.1).filter (fun k => sh k = i) := by
    rw [List.filter_map]
    congr 1
    apply List.filter_congr
    intro s _
    simp [hk]
  rw [hkeys, nub_filter, filter_flatMap']
  -- right-hand side: a group's outputs all have the shard of the group key
  have hrhs : ((nub (v.map fun s => key s.1)).flatMap fun k =>
        (op k (v.filter fun s => key s.1 = k)).filter fun s => decide (sh s.1 = i)) =
      ((nub (v.map fun s => key s.1)).flatMap fun k =>
        if decide (sh k = i) then op k (v.filter fun s => key s.1 = k) else []) := by
    congr 1
    funext k
    by_cases hki : sh k = i
    · simp only [hki, decide_true, if_true]
      apply List.filter_eq_self.mpr
      intro x hx
      have := hop k _ x (fun m hm => by simpa using (List.mem_filter.mp hm).2) hx
      simp [this, hki]
    · simp only [hki, decide_false, Bool.false_eq_true, if_false]
      apply List.filter_eq_nil_iff.mpr
      intro x hx
      have := hop k _ x (fun m hm => by simpa using (List.mem_filter.mp hm).2) hx
      simp [this, hki]
  rw [hrhs, flatMap_ite_filter]
  -- left-hand side: the members of a group of shard i are all in shard i
  apply flatMap_congr'
  intro k hk'
  have hki : sh k = i := by simpa using (List.mem_filter.mp hk').2
  congr 1
  rw [List.filter_filter]
  apply List.filter_congr
  intro s _
  by_cases h : key s.1 = k
  · have : sh s.1 = i := by rw [← hk s.1, h, hki]
    simp [h, this]
  · simp [h]

theorem filterMap_shard (sh : Labels → Nat) (g : Labels → Int → Option Series)
    (hg : ∀ l v s, g l v = some s → sh s.1 = sh l) (i : Nat) :
    ∀ v : Vec, (shardOf sh i v).filterMap (fun x => g x.1 x.2) = shardOf sh i (v.filterMap fun x => g x.1 x.2)
  | [] => rfl
  | x :: xs => by
    have ih := filterMap_shard sh g hg i xs
    unfold shardOf at ih ⊢
    by_cases hx : sh x.1 = i
    · simp only [List.filter_cons, hx, decide_true, if_true, List.filterMap_cons]
      cases hgx : g x.1 x.2 with
      | none => simpa using ih
      | some s =>
        have : sh s.1 = i := by rw [hg _ _ _ hgx, hx]
        simp [this, ih]
    · simp only [List.filter_cons, hx, decide_false, List.filterMap_cons]
      cases hgx : g x.1 x.2 with
      | none => simpa using ih
      | some s =>
        have : ¬ sh s.1 = i := by rw [hg _ _ _ hgx]; exact hx
        simp [this, ih]

theorem filterMap_shard' (sh : Labels → Nat) (g : Series → Option Series)
    (hg : ∀ x s, g x = some s → sh s.1 = sh x.1) (i : Nat) :
    ∀ v : Vec, (shardOf sh i v).filterMap g = shardOf sh i (v.filterMap g)
  | [] => rfl
  | x :: xs => by
    have ih := filterMap_shard' sh g hg i xs
    unfold shardOf at ih ⊢
    by_cases hx : sh x.1 = i
    · simp only [List.filter_cons, hx, decide_true, if_true, List.filterMap_cons]
      cases hgx : g x with
      | none => simpa using ih
      | some s =>
        have : sh s.1 = i := by rw [hg _ _ hgx, hx]
        simp [this, ih]
    · simp only [List.filter_cons, hx, decide_false, List.filterMap_cons]
      cases hgx : g x with
      | none => simpa using ih
      | some s =>
        have : ¬ sh s.1 = i := by rw [hg _ _ hgx]; exact hx
        simp [this, ih]

theorem filterMap_congr' {α β : Type} (f g : α → Option β) :
    ∀ (l : List α), (∀ a ∈ l, f a = g a) → l.filterMap f = l.filterMap g
  | [], _ => rfl
  | x :: xs, h => by
    simp only [List.filterMap_cons, h x (by simp)]
    rw [filterMap_congr' f g xs (fun a ha => h a (List.mem_cons_of_mem _ ha))]

theorem find?_filter_of_imp {α : Type} (p q : α → Bool) (h : ∀ a, p a = true → q a = true) :
    ∀ l : List α, (l.filter q).find? p = l.find? p
  | [] => rfl
  | x :: xs => by
    by_cases hq : q x = true
    · simp only [List.filter_cons, hq, if_true, List.find?_cons]
      cases p x <;> simp [find?_filter_of_imp p q h xs]
    · have hp : p x = false := by
        cases hp : p x with
        | false => rfl
        | true => exact absurd (h x hp) hq
      simp [List.filter_cons, hq, List.find?_cons, hp, find?_filter_of_imp p q h xs]

/-- **evaluation commutes with taking a shard** (as lists, order included) -/
theorem shardOf_flatMap (sh : Labels → Nat) (i : Nat) {α : Type} (f : α → Vec) :
    ∀ l : List α, shardOf sh i (l.flatMap f) = l.flatMap fun a => shardOf sh i (f a)
  | [] => rfl
  | a :: l => by
    simp only [List.flatMap_cons]
    have ih := shardOf_flatMap sh i f l
    unfold shardOf at ih ⊢
    rw [List.filter_append, ih]

theorem eval_shard (sh : Labels → Nat) (i : Nat) :
    ∀ (e : VExpr), Compat sh e → ∀ (s : TVec) (t : Int), eval e (shardOfT sh i s) t = shardOf sh i (eval e s t)
  | .sel p, _, s, t => by
    simp only [eval, shardOfT, shardOf, List.filter_filter]
    apply List.filter_congr
    intro a _
    exact Bool.and_comm _ _
  | .fn g e, hc, s, t => by
    simp only [eval]
    rw [eval_shard sh i e hc.2 s t]
    exact filterMap_shard sh g hc.1 i _
  | .agg key op e, hc, s, t => by
    simp only [eval]
    rw [eval_shard sh i e hc.2 s t]
    exact groupAgg_shard sh key op hc.1 i _
  | .binL sig f l r, hc, s, t => by
    obtain ⟨hsig, hf, hl, hr⟩ := hc
    simp only [eval]
    rw [eval_shard sh i l hl s t, eval_shard sh i r hr s t]
    -- on the left series of shard i, looking up the partner in shard i of the right operand is
    -- looking it up in the whole right operand
    have hcongr : (shardOf sh i (eval l s t)).filterMap
          (fun x => f x ((shardOf sh i (eval r s t)).find? fun y => sig y.1 = sig x.1)) =
        (shardOf sh i (eval l s t)).filterMap (fun x => f x ((eval r s t).find? fun y => sig y.1 = sig x.1)) := by
      apply filterMap_congr'
      intro x hx
      have hxi : sh x.1 = i := by simpa [shardOf] using (List.mem_filter.mp hx).2
      unfold shardOf
      rw [find?_filter_of_imp]
      intro y hy
      have : sig y.1 = sig x.1 := by simpa using hy
      simp [hsig _ _ this, hxi]
    rw [hcongr]
    exact filterMap_shard' sh _ (fun x s' h => hf x _ s' h) i _
  | .append l r, hc, s, t => by
    simp only [eval]
    rw [eval_shard sh i l hc.1 s t, eval_shard sh i r hc.2 s t]
    simp [shardOf]
  | .overTime ts key op e, hc, s, t => by
    simp only [eval]
    have : ((ts t).flatMap fun t' => eval e (shardOfT sh i s) t') = shardOf sh i ((ts t).flatMap fun t' => eval e s t') := by
      rw [shardOf_flatMap]
      congr 1
      funext t'
      exact eval_shard sh i e hc.2 s t'
    rw [this]
    exact groupAgg_shard sh key op hc.1 i _
  | .aggL key op e, hc, s, t => by
    simp only [eval]
    rw [eval_shard sh i e hc.2.2 s t]
    exact groupAggL_shard sh key op hc.1 hc.2.1 i _

/-- every output series has the shard of some input series (of some timestamp) -/
theorem eval_shard_of_input (sh : Labels → Nat) :
    ∀ (e : VExpr), Compat sh e → ∀ (s : TVec) (t : Int) (x : Series), x ∈ eval e s t → ∃ t' y, y ∈ s t' ∧ sh x.1 = sh y.1
  | .sel p, _, s, t, x, hx => by
    simp only [eval, List.mem_filter] at hx
    exact ⟨t, x, hx.1, rfl⟩
  | .fn g e, hc, s, t, x, hx => by
    simp only [eval, List.mem_filterMap] at hx
    obtain ⟨z, hz, hgz⟩ := hx
    obtain ⟨t', y, hy, hzy⟩ := eval_shard_of_input sh e hc.2 s t z hz
    exact ⟨t', y, hy, by rw [hc.1 _ _ _ hgz, hzy]⟩
  | .agg key op e, hc, s, t, x, hx => by
    simp only [eval, groupAgg, List.mem_map, mem_nub] at hx
    obtain ⟨k, ⟨z, hz, hzk⟩, hxk⟩ := hx
    obtain ⟨t', y, hy, hzy⟩ := eval_shard_of_input sh e hc.2 s t z hz
    refine ⟨t', y, hy, ?_⟩
    rw [← hxk]
    simp only
    rw [← hzk, hc.1, hzy]
  | .binL sig f l r, hc, s, t, x, hx => by
    obtain ⟨_, hf, hl, _⟩ := hc
    simp only [eval, List.mem_filterMap] at hx
    obtain ⟨z, hz, hfz⟩ := hx
    obtain ⟨t', y, hy, hzy⟩ := eval_shard_of_input sh l hl s t z hz
    exact ⟨t', y, hy, by rw [hf _ _ _ hfz, hzy]⟩
  | .append l r, hc, s, t, x, hx => by
    simp only [eval, List.mem_append] at hx
    rcases hx with hx | hx
    · exact eval_shard_of_input sh l hc.1 s t x hx
    · exact eval_shard_of_input sh r hc.2 s t x hx
  | .overTime ts key op e, hc, s, t, x, hx => by
    simp only [eval, groupAgg, List.mem_map, mem_nub, List.mem_flatMap] at hx
    obtain ⟨k, ⟨z, ⟨t1, _, hz⟩, hzk⟩, hxk⟩ := hx
    obtain ⟨t', y, hy, hzy⟩ := eval_shard_of_input sh e hc.2 s t1 z hz
    refine ⟨t', y, hy, ?_⟩
    rw [← hxk]
    simp only
    rw [← hzk, hc.1, hzy]
  | .aggL key op e, hc, s, t, x, hx => by
    simp only [eval, groupAggL, List.mem_flatMap, mem_nub, List.mem_map] at hx
    obtain ⟨k, ⟨z, hz, hzk⟩, hxk⟩ := hx
    obtain ⟨t', y, hy, hzy⟩ := eval_shard_of_input sh e hc.2.2 s t z hz
    refine ⟨t', y, hy, ?_⟩
    have := hc.2.1 k _ x (fun m hm => by simpa using (List.mem_filter.mp hm).2) hxk
    rw [this, ← hzk, hc.1, hzy]

/-- a list is a permutation of its parts by shard index -/
theorem perm_shards (sh : Labels → Nat) (v : Vec) :
    ∀ n : Nat, ((List.range n).flatMap fun i => shardOf sh i v).Perm (v.filter fun s => sh s.1 < n)
  | 0 => by simp
  | n + 1 => by
    rw [List.range_succ, List.flatMap_append]
    simp only [List.flatMap_cons, List.flatMap_nil, List.append_nil]
    have h1 := perm_shards sh v n
    have h2 : (v.filter fun s => sh s.1 < n + 1).Perm
        ((v.filter fun s => sh s.1 < n) ++ shardOf sh n v) := by
      have := List.filter_append_perm (fun s : Series => decide (sh s.1 < n)) (v.filter fun s => sh s.1 < n + 1)
      rw [List.filter_filter, List.filter_filter] at this
      refine this.symm.trans ?_
      apply List.Perm.append
      · apply List.Perm.of_eq
        apply List.filter_congr
        intro a _
        by_cases h : sh a.1 < n
        · have : sh a.1 < n + 1 := by omega
          simp [h, this]
        · simp [h]
      · apply List.Perm.of_eq
        unfold shardOf
        apply List.filter_congr
        intro a _
        by_cases h : sh a.1 = n
        · simp [h]
        · by_cases h' : sh a.1 < n
          · simp [h, h']
          · have : ¬ sh a.1 < n + 1 := by omega
            simp [h, this]
    exact (List.Perm.append h1 (List.Perm.refl _)).trans h2.symm

/-! ### the fragment: syntax for the analyzer, semantics for the engine -/

/-- the fragment with the syntax the analyzer sees and the semantics the engine gives it -/
inductive FExpr where
  | sel (text : String) (p : Labels → Bool)
  | fn (name : String) (drop : Bool) (f : Int → Option Int) (e : FExpr)
  | aggBy (op : String) (L : List String) (f : List Int → Int) (e : FExpr)
  | aggWithout (op : String) (L : List String) (f : List Int → Int) (e : FExpr)
  /-- `l op on(L) r` / `l op ignoring(L) r`, one-to-one: `arith = true` for arithmetic (the
      result carries the matching labels only), `false` for comparison filters, `and`, `unless`
      (the left series is kept as it is); `f lv rv?` is the result value, `none` = dropped -/
  | bin (op : String) (on : Bool) (L : List String) (arith : Bool) (f : Int → Option Int → Option Int) (l r : FExpr)
  /-- `l or on(L) r` / `l or ignoring(L) r` -/
  | or_ (on : Bool) (L : List String) (l r : FExpr)
  /-- many-to-one arithmetic `many op on/ignoring(L) group_left(inc) one` (`manyLeft = true`) or
      `one op on/ignoring(L) group_right(inc) many` (`false`): every series of the "many" side is
      combined with the series of the "one" side that has the same signature; the result carries
      the many side's labels without the metric name, the `inc` labels taken from the one side -/
  | binMany (op : String) (on : Bool) (L inc : List String) (manyLeft : Bool) (f : Int → Int → Option Int)
      (many one : FExpr)
  /-- `topk` / `bottomk` / `limitk` `by (L)` (`by_ = true`) or `without (L)`: of every group the
      members selected by `keep` (which sees the whole group), with their own labels -/
  | aggSel (op : String) (by_ : Bool) (L : List String) (param : String) (keep : List Series → Series → Bool) (e : FExpr)
  /-- `count_values by/without (L) ("dst", e)`: one series per distinct value of a group, labelled
      with the group key and `dst = <value>` -/
  | countValues (by_ : Bool) (L : List String) (dst : String) (e : FExpr)
  /-- a range function over a matrix selector, `rate(m[5m])`, `max_over_time(m[1m])` …: for every
      series, a function `f` of its samples at the timestamps `ts t` of the window; the metric
      name is dropped when `drop` -/
  | rangeFn (name : String) (text rng : String) (p : Labels → Bool) (drop : Bool) (ts : Int → List Int)
      (f : List Series → Int)
  /-- a function over a subquery, `max_over_time((e)[1h:1m])`: the inner expression is evaluated
      at the timestamps `ts t`, then reduced per series -/
  | subq (name : String) (rng : String) (drop : Bool) (ts : Int → List Int) (f : List Series → Int) (e : FExpr)
  /-- `label_replace(e, dst, …)` / `label_join(e, dst, …)`: label `dst` is set to a value computed
      from the series' own labels (`none` = the label is removed); the other arguments are
      string literals -/
  | labelFn (name : String) (dst : String) (extra : List String) (v : Labels → Option String) (e : FExpr)
  /-- `histogram_quantile(φ, e)`: buckets grouped by every label but `le` (metric name dropped);
      `f` computes the quantile from the member series (their `le` labels and values) -/
  | histQ (phi : String) (f : List Series → Int) (e : FExpr)

def plainFn (name : String) : Bool :=
  !(name = "label_join" || name = "label_replace" || name = "absent_over_time" || name = "absent" ||
    name = "scalar" || name = "histogram_quantile" || name = "time" || name = "pi")

/-- the matching signature of `on (L)` / `ignoring (L)` -/
def sigOf (on : Bool) (L : List String) : Labels → Labels := if on then keyBy L else keyWithout L

/-- what the analyzer scopes to at a binary node -/
def binScope (on : Bool) (L : List String) : List String × Bool := (if on then L else L ++ ["__name__"], on)

def FExpr.WF : FExpr → Prop
  | .sel _ _ => True
  | .fn name _ _ e => plainFn name = true ∧ e.WF
  | .aggBy op _ _ e => op ≠ "count_values" ∧ e.WF
  | .aggWithout op _ _ e => op ≠ "count_values" ∧ e.WF
  | .bin _ _ _ _ _ l r => l.WF ∧ r.WF
  | .or_ _ _ l r => l.WF ∧ r.WF
  | .histQ _ _ e => e.WF
  | .labelFn name _ _ _ e => (name = "label_replace" ∨ name = "label_join") ∧ e.WF
  | .aggSel op _ _ _ _ e => op ≠ "count_values" ∧ e.WF
  | .countValues _ _ _ e => e.WF
  | .rangeFn name _ _ _ _ _ _ => plainFn name = true
  | .subq name _ _ _ _ e => plainFn name = true ∧ e.WF
  | .binMany _ on L inc _ _ many one =>
    -- the parser rejects a label in both `on` and `group_x`; with `ignoring` only labels of `L`
    -- can differ between the sides, so only those are meaningful to copy
    (if on then ∀ i ∈ inc, i ∉ L else ∀ i ∈ inc, i ∈ L) ∧ many.WF ∧ one.WF

def FExpr.toExpr : FExpr → Expr
  | .sel t _ => .sel t
  | .fn name _ _ e => .call name [e.toExpr]
  | .aggBy op L _ e => .agg op .by_ L none e.toExpr
  | .aggWithout op L _ e => .agg op .without L none e.toExpr
  | .bin op on L _ _ l r => .bin op (if on then .on else .ignoring) L l.toExpr r.toExpr
  | .or_ on L l r => .bin "or" (if on then .on else .ignoring) L l.toExpr r.toExpr
  | .histQ phi _ e => .call "histogram_quantile" [.num phi, e.toExpr]
  | .labelFn name dst extra _ e => .call name (e.toExpr :: .str dst :: extra.map .str)
  | .aggSel op by_ L param _ e => .agg op (if by_ then .by_ else .without) L (some (.num param)) e.toExpr
  | .countValues by_ L dst e => .agg "count_values" (if by_ then .by_ else .without) L (some (.str dst)) e.toExpr
  | .rangeFn name text rng _ _ _ _ => .call name [.mat text rng]
  | .subq name rng _ _ _ e => .call name [.sub e.toExpr rng]
  | .binMany op on L _ manyLeft _ many one =>
    if manyLeft then .bin op (if on then .on else .ignoring) L many.toExpr one.toExpr
    else .bin op (if on then .on else .ignoring) L one.toExpr many.toExpr

def FExpr.toV : FExpr → VExpr
  | .sel _ p => .sel p
  | .fn _ drop f e => .fn (fun l v => (f v).map fun v' => (if drop then dropName l else l, v')) e.toV
  | .aggBy _ L f e => .agg (keyBy L) (fun ms => f (ms.map (·.2))) e.toV
  | .aggWithout _ L f e => .agg (keyWithout L) (fun ms => f (ms.map (·.2))) e.toV
  | .bin _ on L arith f l r =>
    .binL (sigOf on L)
      (fun x ro => (f x.2 (ro.map (·.2))).map fun v => (if arith then sigOf on L x.1 else x.1, v)) l.toV r.toV
  | .or_ on L l r =>
    .append l.toV (.binL (sigOf on L) (fun x ro => match ro with | none => some x | some _ => none) r.toV l.toV)
  | .histQ _ f e => .agg (keyWithout ["le"]) f e.toV
  | .labelFn _ dst _ v e =>
    .fn (fun l x => some ((l.filter fun p => p.1 ≠ dst) ++ (match v l with | none => [] | some s => [(dst, s)]), x)) e.toV
  | .aggSel _ by_ L _ keep e =>
    .aggL (if by_ then keyBy L else keyWithout L) (fun _ ms => ms.filter (keep ms)) e.toV
  | .countValues by_ L dst e =>
    .aggL (if by_ then keyBy L else keyWithout L)
      (fun k ms => (nub (ms.map (·.2))).map fun v =>
        ((k.filter fun p => p.1 ≠ dst) ++ [(dst, toString v)], ((ms.filter fun m => m.2 = v).length : Int))) e.toV
  | .rangeFn _ _ _ p drop ts f => .overTime ts (if drop then dropName else id) f (.sel p)
  | .subq _ _ drop ts f e => .overTime ts (if drop then dropName else id) f e.toV
  | .binMany _ on L inc _ f many one =>
    .binL (sigOf on L)
      (fun x ro => ro.bind fun r => (f x.2 r.2).map fun v => (withInc inc (dropName x.1) r.1, v)) many.toV one.toV

/-- grouping scopes in the analyzer's pre-order -/
def FExpr.scopes : FExpr → List (List String × Bool)
  | .sel _ _ => []
  | .fn _ _ _ e => e.scopes
  | .aggBy _ L _ e => (L, true) :: e.scopes
  | .aggWithout _ L _ e => (L, false) :: e.scopes
  | .bin _ on L _ _ l r => binScope on L :: (l.scopes ++ r.scopes)
  | .or_ on L l r => binScope on L :: (l.scopes ++ r.scopes)
  | .histQ _ _ e => (["le"], false) :: e.scopes
  | .labelFn _ _ _ _ e => e.scopes
  | .aggSel _ by_ L _ _ e => (L, by_) :: e.scopes
  | .countValues by_ L _ e => (L, by_) :: e.scopes
  | .rangeFn _ _ _ _ _ _ _ => []
  | .subq _ _ _ _ _ e => e.scopes
  | .binMany _ on L _ manyLeft _ many one =>
    binScope on L :: (if manyLeft then many.scopes ++ one.scopes else one.scopes ++ many.scopes)

/-- the dynamic labels (targets of label_replace / label_join) in the analyzer's pre-order -/
def FExpr.dyns : FExpr → List String
  | .sel _ _ => []
  | .fn _ _ _ e => e.dyns
  | .aggBy _ _ _ e => e.dyns
  | .aggWithout _ _ _ e => e.dyns
  | .bin _ _ _ _ _ l r => l.dyns ++ r.dyns
  | .or_ _ _ l r => l.dyns ++ r.dyns
  | .histQ _ _ e => e.dyns
  | .labelFn _ dst _ _ e => dst :: e.dyns
  | .aggSel _ _ _ _ _ e => e.dyns
  | .countValues _ _ dst e => dst :: e.dyns
  | .rangeFn _ _ _ _ _ _ _ => []
  | .subq _ _ _ _ _ e => e.dyns
  | .binMany _ _ _ _ manyLeft _ many one => if manyLeft then many.dyns ++ one.dyns else one.dyns ++ many.dyns

def foldScopes (a : Analysis) (scs : List (List String × Bool)) : Analysis :=
  scs.foldl (fun a sc => scopeToLabels a sc.1 sc.2) a

theorem isScalar_fragment : ∀ (e : FExpr), e.WF → isScalar e.toExpr = false
  | .sel _ _, _ => rfl
  | .fn name _ _ e, hwf => by
    have hp := hwf.1
    simp only [plainFn, Bool.not_eq_true', Bool.or_eq_false_iff, decide_eq_false_iff_not] at hp
    obtain ⟨⟨⟨⟨⟨⟨⟨_, _⟩, _⟩, _⟩, h5⟩, _⟩, h7⟩, h8⟩ := hp
    simp [FExpr.toExpr, isScalar, h5, h7, h8]
  | .aggBy _ _ _ _, _ => rfl
  | .aggWithout _ _ _ _, _ => rfl
  | .bin _ _ _ _ _ l r, hwf => by simp [FExpr.toExpr, isScalar, isScalar_fragment l hwf.1]
  | .or_ _ _ l r, hwf => by simp [FExpr.toExpr, isScalar, isScalar_fragment l hwf.1]
  | .histQ _ _ _, _ => by simp [FExpr.toExpr, isScalar]
  | .labelFn name _ _ _ _, hwf => by
    rcases hwf.1 with h | h <;> simp [FExpr.toExpr, isScalar, h]
  | .aggSel _ _ _ _ _ _, _ => rfl
  | .countValues _ _ _ _, _ => rfl
  | .rangeFn name _ _ _ _ _ _, hwf => by
    have hp : plainFn name = true := hwf
    simp only [plainFn, Bool.not_eq_true', Bool.or_eq_false_iff, decide_eq_false_iff_not] at hp
    obtain ⟨⟨⟨⟨⟨⟨⟨_, _⟩, _⟩, _⟩, h5⟩, _⟩, h7⟩, h8⟩ := hp
    simp [FExpr.toExpr, isScalar, h5, h7, h8]
  | .subq name _ _ _ _ _, hwf => by
    have hp : plainFn name = true := hwf.1
    simp only [plainFn, Bool.not_eq_true', Bool.or_eq_false_iff, decide_eq_false_iff_not] at hp
    obtain ⟨⟨⟨⟨⟨⟨⟨_, _⟩, _⟩, _⟩, h5⟩, _⟩, h7⟩, h8⟩ := hp
    simp [FExpr.toExpr, isScalar, h5, h7, h8]
  | .binMany _ _ _ _ manyLeft _ many one, hwf => by
    cases manyLeft
    · simp [FExpr.toExpr, isScalar, isScalar_fragment one hwf.2.2]
    · simp [FExpr.toExpr, isScalar, isScalar_fragment many hwf.2.1]

theorem foldScopes_append (a : Analysis) (s1 s2 : List (List String × Bool)) :
    foldScopes a (s1 ++ s2) = foldScopes (foldScopes a s1) s2 := by
  simp [foldScopes, List.foldl_append]

theorem walkList_strs (st : St) : ∀ xs : List String, walkList st (xs.map Expr.str) = st
  | [] => rfl
  | x :: xs => by
    simp only [List.map_cons, walkList, walk]
    split
    · exact walkList_strs st xs
    · rfl

/-- what walking a fragment expression does to the analyzer state -/
def walked (st : St) (e : FExpr) : St :=
  { st with an := foldScopes st.an e.scopes, dyn := st.dyn ++ e.dyns }

theorem walk_bin (op : String) (on : Bool) (L : List String) (l r : FExpr) (hl : l.WF) (hr : r.WF)
    (ihl : ∀ st : St, st.ok = true → st.cv = true → walk st l.toExpr = walked st l)
    (ihr : ∀ st : St, st.ok = true → st.cv = true → walk st r.toExpr = walked st r)
    (st : St) (hok : st.ok = true) (hcv : st.cv = true) :
    walk st (.bin op (if on then .on else .ignoring) L l.toExpr r.toExpr) =
      { st with an := foldScopes st.an (binScope on L :: (l.scopes ++ r.scopes)), dyn := st.dyn ++ (l.dyns ++ r.dyns) } := by
  have h1 := isScalar_fragment l hl
  have h2 := isScalar_fragment r hr
  simp only [walk, hok, h1, h2]
  simp only [not_true_eq_false, if_false, Bool.or_self, Bool.false_eq_true]
  have hsc : (if (if on = true then Match.on else Match.ignoring) == Match.on then L else L ++ ["__name__"]) = (binScope on L).1 ∧
      ((if on = true then Match.on else Match.ignoring) == Match.on) = (binScope on L).2 := by
    cases on <;> simp [binScope] <;> decide
  rw [ihl _ (by simp [hok]) (by simp [hcv])]
  simp only [walked, hok, if_true]
  rw [ihr _ (by simp [hok]) (by simp [hcv])]
  simp only [walked, foldScopes, List.foldl_cons, List.foldl_append, List.append_assoc]
  rw [hsc.1, hsc.2]

theorem walk_fragment : ∀ (e : FExpr), e.WF → ∀ st : St, st.ok = true → st.cv = true → walk st e.toExpr = walked st e
  | .sel _ _, _, st, _, _ => by simp [FExpr.toExpr, walk, walked, FExpr.scopes, FExpr.dyns, foldScopes]
  | .fn name _ _ e, hwf, st, hok, hcv => by
    have hp := hwf.1
    simp only [plainFn, Bool.not_eq_true', Bool.or_eq_false_iff, decide_eq_false_iff_not] at hp
    obtain ⟨⟨⟨⟨⟨⟨⟨h1, h2⟩, h3⟩, h4⟩, h5⟩, h6⟩, _⟩, _⟩ := hp
    simp only [FExpr.toExpr, walk, hok, h1, h2, h3, h4, h5, h6, walkList, FExpr.scopes]
    simp [walk_fragment e hwf.2 st hok hcv, hok, walked, FExpr.scopes, FExpr.dyns]
  | .aggBy op L _ e, hwf, st, hok, hcv => by
    simp only [FExpr.toExpr, walk, hok, hwf.1]
    simp
    rw [walk_fragment e hwf.2 _ (by simp [hok]) (by simp [hcv])]
    have : (Mode.by_ != Mode.without) = true := by decide
    simp [walked, foldScopes, this, FExpr.scopes, FExpr.dyns, hok]
  | .aggWithout op L _ e, hwf, st, hok, hcv => by
    simp only [FExpr.toExpr, walk, hok, hwf.1]
    simp
    rw [walk_fragment e hwf.2 _ (by simp [hok]) (by simp [hcv])]
    have : (Mode.without != Mode.without) = false := by decide
    simp [walked, foldScopes, this, FExpr.scopes, FExpr.dyns, hok]
  | .bin op on L _ _ l r, hwf, st, hok, hcv => by
    simp only [FExpr.toExpr, walked, FExpr.scopes, FExpr.dyns]
    exact walk_bin op on L l r hwf.1 hwf.2 (walk_fragment l hwf.1) (walk_fragment r hwf.2) st hok hcv
  | .or_ on L l r, hwf, st, hok, hcv => by
    simp only [FExpr.toExpr, walked, FExpr.scopes, FExpr.dyns]
    exact walk_bin "or" on L l r hwf.1 hwf.2 (walk_fragment l hwf.1) (walk_fragment r hwf.2) st hok hcv
  | .histQ phi _ e, hwf, st, hok, hcv => by
    simp only [FExpr.toExpr, walk, hok]
    simp only [not_true_eq_false, if_false, String.reduceEq, or_self, if_true, walkList, walk]
    rw [walk_fragment e hwf _ (by simp [hok]) (by simp [hcv])]
    simp [walked, foldScopes, hok, FExpr.scopes, FExpr.dyns]
  | .labelFn name dst extra _ e, hwf, st, hok, hcv => by
    have hname : name = "label_join" ∨ name = "label_replace" := hwf.1.symm
    simp only [FExpr.toExpr, walk, hok, hname, dstLabel]
    simp only [not_true_eq_false, if_false, if_true, walkList]
    rw [walk_fragment e hwf.2 _ (by simp [hok]) (by simp [hcv])]
    simp only [walked, hok, if_true]
    have := walkList_strs { an := foldScopes st.an e.scopes, dyn := st.dyn ++ [dst] ++ e.dyns, ok := true, cv := st.cv } extra
    simp only [walk]
    rw [this]
    simp [FExpr.scopes, FExpr.dyns, List.append_assoc]
  | .aggSel op by_ L param _ e, hwf, st, hok, hcv => by
    simp only [FExpr.toExpr, walk, hok, hwf.1]
    simp
    rw [walk_fragment e hwf.2 _ (by simp [hok]) (by simp [hcv])]
    cases by_
    · have : (Mode.without != Mode.without) = false := by decide
      simp [walked, foldScopes, this, FExpr.scopes, FExpr.dyns, hok, walk]
    · have : (Mode.by_ != Mode.without) = true := by decide
      simp [walked, foldScopes, this, FExpr.scopes, FExpr.dyns, hok, walk]
  | .countValues by_ L dst e, hwf, st, hok, hcv => by
    simp only [FExpr.toExpr, walk, hok, hcv, paramLabel]
    simp
    rw [walk_fragment e hwf _ (by simp [hok]) (by simp [hcv])]
    cases by_
    · have : (Mode.without != Mode.without) = false := by decide
      simp [walked, foldScopes, this, FExpr.scopes, FExpr.dyns, hok, hcv, walk, List.append_assoc]
    · have : (Mode.by_ != Mode.without) = true := by decide
      simp [walked, foldScopes, this, FExpr.scopes, FExpr.dyns, hok, hcv, walk, List.append_assoc]
  | .subq name _ _ _ _ e, hwf, st, hok, hcv => by
    have hp := hwf.1
    simp only [plainFn, Bool.not_eq_true', Bool.or_eq_false_iff, decide_eq_false_iff_not] at hp
    obtain ⟨⟨⟨⟨⟨⟨⟨h1, h2⟩, h3⟩, h4⟩, h5⟩, h6⟩, _⟩, _⟩ := hp
    simp only [FExpr.toExpr, walk, hok, h1, h2, h3, h4, h5, h6, walkList]
    simp [walk_fragment e hwf.2 st hok hcv, hok, walked, FExpr.scopes, FExpr.dyns]
  | .rangeFn name _ _ _ _ _ _, hwf, st, hok, hcv => by
    have hp : plainFn name = true := hwf
    simp only [plainFn, Bool.not_eq_true', Bool.or_eq_false_iff, decide_eq_false_iff_not] at hp
    obtain ⟨⟨⟨⟨⟨⟨⟨h1, h2⟩, h3⟩, h4⟩, h5⟩, h6⟩, _⟩, _⟩ := hp
    simp only [FExpr.toExpr, walk, hok, h1, h2, h3, h4, h5, h6, walkList]
    simp only [walked, FExpr.scopes, FExpr.dyns, foldScopes, List.foldl_nil, List.append_nil, not_true_eq_false,
      if_false, or_self, if_true]
  | .binMany op on L inc manyLeft _ many one, hwf, st, hok, hcv => by
    cases manyLeft with
    | true =>
      simp only [FExpr.toExpr, walked, FExpr.scopes, FExpr.dyns, if_true]
      exact walk_bin op on L many one hwf.2.1 hwf.2.2 (walk_fragment many hwf.2.1) (walk_fragment one hwf.2.2) st hok hcv
    | false =>
      simp only [FExpr.toExpr, walked, FExpr.scopes, FExpr.dyns, Bool.false_eq_true, if_false]
      exact walk_bin op on L one many hwf.2.2 hwf.2.1 (walk_fragment one hwf.2.2) (walk_fragment many hwf.2.1) st hok hcv

/-- every scope the analyzer applies: the grouping scopes, then the dynamic labels as one
    `without` scope when there are any -/
def FExpr.allScopes (e : FExpr) : List (List String × Bool) :=
  e.scopes ++ (if e.dyns.isEmpty then [] else [(e.dyns, false)])

theorem analyze_fragment (e : FExpr) (hwf : e.WF) :
    analyze e.toExpr = foldScopes ⟨none, false⟩ e.allScopes := by
  unfold analyze analyzeWith FExpr.allScopes
  rw [walk_fragment e hwf _ rfl rfl]
  simp only [walked, List.nil_append]
  by_cases hd : e.dyns.isEmpty = true
  · simp [hd, foldScopes]
  · simp [hd, foldScopes, List.foldl_append]

theorem mem_intersect {a b : List String} {x : String} (h : x ∈ intersect a b) : x ∈ a ∧ x ∈ b := by
  unfold intersect at h
  split at h
  · simp at h
  · have := List.mem_eraseDups.mp h
    simpa using this

theorem mem_withoutL {a b : List String} {x : String} (h : x ∈ withoutL a b) : x ∈ a ∧ x ∉ b := by
  unfold withoutL at h
  split at h
  · simp at h
  · split at h
    · rename_i hb
      have : b = [] := by simpa using hb
      subst this
      exact ⟨h, by simp⟩
    · have := List.mem_eraseDups.mp h
      simpa using this

theorem mem_unionL {a b : List String} {x : String} (h : x ∈ a ∨ x ∈ b) : x ∈ unionL a b := by
  unfold unionL
  split
  · rename_i hab
    have ha : a = [] := by simpa using hab.1
    have hb : b = [] := by simpa using hab.2
    subst ha hb; simp at h
  · split
    · rename_i ha
      have : a = [] := by simpa using ha
      subst this; simpa using h
    · split
      · rename_i hb
        have : b = [] := by simpa using hb
        subst this; simpa using h
      · exact List.mem_eraseDups.mpr (by simpa using h)

/-- what the analysis guarantees about the grouping scopes it has seen -/
def ScopeInv (a : Analysis) (seen : List (List String × Bool)) : Prop :=
  match a.labels with
  | none => seen = []
  | some K =>
    if a.by_ then
      ∀ sc ∈ seen, (sc.2 = true → ∀ k ∈ K, k ∈ sc.1) ∧ (sc.2 = false → ∀ k ∈ K, k ∉ sc.1)
    else
      ∀ sc ∈ seen, sc.2 = false ∧ ∀ x ∈ sc.1, x ∈ K

theorem scopeInv_step (a : Analysis) (seen : List (List String × Bool)) (L : List String) (b : Bool)
    (h : ScopeInv a seen) : ScopeInv (scopeToLabels a L b) (seen ++ [(L, b)]) := by
  unfold ScopeInv at h ⊢
  unfold scopeToLabels
  cases hl : a.labels with
  | none =>
    rw [hl] at h
    subst h
    cases b <;> simp
  | some K =>
    rw [hl] at h
    simp only
    cases hab : a.by_ <;> cases b <;> simp only [hab] at h ⊢ <;> simp only [Bool.false_eq_true, if_false, if_true, and_self, and_false, false_and, not_false_eq_true, not_true_eq_false, true_and, and_true]
    · -- without, without
      intro sc hsc
      rcases List.mem_append.mp hsc with hsc | hsc
      · exact ⟨(h sc hsc).1, fun x hx => mem_unionL (Or.inl ((h sc hsc).2 x hx))⟩
      · simp at hsc; subst hsc
        exact ⟨rfl, fun x hx => mem_unionL (Or.inr hx)⟩
    · -- without, then by L
      intro sc hsc
      rcases List.mem_append.mp hsc with hsc | hsc
      · have := h sc hsc
        refine ⟨fun ht => (by rw [this.1] at ht; cases ht), fun _ k hk hks => ?_⟩
        exact (mem_withoutL hk).2 (this.2 k hks)
      · simp at hsc; subst hsc
        exact ⟨fun _ k hk => (mem_withoutL hk).1, fun hf => (by cases hf)⟩
    · -- by, then without L
      intro sc hsc
      rcases List.mem_append.mp hsc with hsc | hsc
      · have := h sc hsc
        exact ⟨fun ht k hk => this.1 ht k (mem_withoutL hk).1, fun hf k hk => this.2 hf k (mem_withoutL hk).1⟩
      · simp at hsc; subst hsc
        exact ⟨fun hf => (by cases hf), fun _ k hk => (mem_withoutL hk).2⟩
    · -- by, by
      intro sc hsc
      rcases List.mem_append.mp hsc with hsc | hsc
      · have := h sc hsc
        exact ⟨fun ht k hk => this.1 ht k (mem_intersect hk).1, fun hf k hk => this.2 hf k (mem_intersect hk).1⟩
      · simp at hsc; subst hsc
        exact ⟨fun _ k hk => (mem_intersect hk).2, fun hf => (by cases hf)⟩

theorem scopeInv_fold : ∀ (scs : List (List String × Bool)) (a : Analysis) (seen : List (List String × Bool)),
    ScopeInv a seen → ScopeInv (scs.foldl (fun a sc => scopeToLabels a sc.1 sc.2) a) (seen ++ scs)
  | [], a, seen, h => by simpa using h
  | sc :: scs, a, seen, h => by
    have := scopeInv_fold scs (scopeToLabels a sc.1 sc.2) (seen ++ [sc]) (scopeInv_step a seen sc.1 sc.2 h)
    simpa [List.append_assoc] using this

/-! ### from the analyzer's invariant to node-wise compatibility of the real shard function -/

theorem filter_filter_of_imp {α : Type} (q r : α → Bool) (l : List α) (h : ∀ a ∈ l, q a = true → r a = true) :
    (l.filter r).filter q = l.filter q := by
  rw [List.filter_filter]
  apply List.filter_congr
  intro a ha
  cases hq : q a
  · simp
  · simp [h a ha hq]

theorem proj_by {K : List String} {ls : Labels} : projection K true ls = ls.filter fun l => K.contains l.1 := by
  unfold projection shardByLabel
  congr 1; funext l; cases K.contains l.1 <;> simp

theorem proj_without {K : List String} {ls : Labels} : projection K false ls = ls.filter fun l => !K.contains l.1 := by
  unfold projection shardByLabel
  congr 1; funext l; cases K.contains l.1 <;> simp

/-- the shard index the stores compute for a series -/
def shReal (hash : Labels → Nat) (total : Nat) (K : List String) (by_ : Bool) (l : Labels) : Nat :=
  hash (projection K by_ l) % total

theorem proj_keyBy {K L : List String} (h : ∀ k ∈ K, k ∈ L) (l : Labels) :
    projection K true (keyBy L l) = projection K true l := by
  rw [proj_by, proj_by]
  unfold keyBy
  apply filter_filter_of_imp
  intro a _ ha
  simp only [List.contains_iff_mem] at ha ⊢
  exact h _ ha

theorem proj_keyWithout_by {K L : List String} (h : ∀ k ∈ K, k ∉ L) (hn : "__name__" ∉ K) (l : Labels) :
    projection K true (keyWithout L l) = projection K true l := by
  rw [proj_by, proj_by]
  unfold keyWithout
  apply filter_filter_of_imp
  intro a _ ha
  simp only [List.contains_iff_mem] at ha
  have h1 := h _ ha
  have h2 : a.1 ≠ "__name__" := fun e => hn (e ▸ ha)
  simp [h1, h2]

theorem proj_keyWithout_without {K L : List String} (h : ∀ x ∈ L, x ∈ K) (hn : "__name__" ∈ K) (l : Labels) :
    projection K false (keyWithout L l) = projection K false l := by
  rw [proj_without, proj_without]
  unfold keyWithout
  apply filter_filter_of_imp
  intro a _ ha
  have ha : a.1 ∉ K := by simpa using ha
  have h1 : a.1 ∉ L := fun hm => ha (h _ hm)
  have h2 : a.1 ≠ "__name__" := fun e => ha (e ▸ hn)
  simp [h1, h2]

theorem proj_dropName_by {K : List String} (hn : "__name__" ∉ K) (l : Labels) :
    projection K true (dropName l) = projection K true l := by
  rw [proj_by, proj_by]
  unfold dropName
  apply filter_filter_of_imp
  intro a _ ha
  simp only [List.contains_iff_mem] at ha
  have h2 : a.1 ≠ "__name__" := fun e => hn (e ▸ ha)
  simp [h2]

theorem proj_dropName_without {K : List String} (hn : "__name__" ∈ K) (l : Labels) :
    projection K false (dropName l) = projection K false l := by
  rw [proj_without, proj_without]
  unfold dropName
  apply filter_filter_of_imp
  intro a _ ha
  have ha : a.1 ∉ K := by simpa using ha
  have h2 : a.1 ≠ "__name__" := fun e => ha (e ▸ hn)
  simp [h2]

/-- the metric name is where the engine and the analyzer disagree: a `by` sharding must not use
    it, a `without` sharding must exclude it -/
def NameSafe (K : List String) (by_ : Bool) : Prop :=
  if by_ then "__name__" ∉ K else "__name__" ∈ K

/-- what the sharding labels must satisfy at a vector-matching node -/
def BinOK (K : List String) (by_ on : Bool) (L : List String) : Prop :=
  if on then by_ = true ∧ ∀ k ∈ K, k ∈ L
  else if by_ then (∀ k ∈ K, k ∉ L) ∧ "__name__" ∉ K
  else (∀ x ∈ L, x ∈ K) ∧ "__name__" ∈ K

theorem proj_sigOf {K : List String} {by_ on : Bool} {L : List String} (h : BinOK K by_ on L) (l : Labels) :
    projection K by_ (sigOf on L l) = projection K by_ l := by
  unfold BinOK at h
  unfold sigOf
  cases on with
  | true =>
    simp only [if_true] at h ⊢
    obtain ⟨hb, hk⟩ := h
    subst hb
    exact proj_keyBy hk l
  | false =>
    simp only [Bool.false_eq_true, if_false] at h ⊢
    cases by_ with
    | true => simp only [if_true] at h; exact proj_keyWithout_by h.1 h.2 l
    | false => simp only [Bool.false_eq_true, if_false] at h; exact proj_keyWithout_without h.1 h.2 l

/-- the grouping of an aggregation (`g` = `by`, else `without`) keeps every hashed label -/
def KeyOK (K : List String) (by_ : Bool) (g : Bool) (L : List String) : Prop :=
  if g then (by_ = true ∧ ∀ k ∈ K, k ∈ L)
  else (NameSafe K by_ ∧ if by_ then ∀ k ∈ K, k ∉ L else ∀ x ∈ L, x ∈ K)

/-- what the sharding labels must satisfy at every node of the fragment -/
def Scoped (K : List String) (by_ : Bool) : FExpr → Prop
  | .sel _ _ => True
  | .fn _ drop _ e => (drop = true → NameSafe K by_) ∧ Scoped K by_ e
  | .aggBy _ L _ e => (by_ = true ∧ ∀ k ∈ K, k ∈ L) ∧ Scoped K by_ e
  | .aggWithout _ L _ e =>
    (NameSafe K by_ ∧ if by_ then ∀ k ∈ K, k ∉ L else ∀ x ∈ L, x ∈ K) ∧ Scoped K by_ e
  | .bin _ on L _ _ l r => BinOK K by_ on L ∧ Scoped K by_ l ∧ Scoped K by_ r
  | .or_ on L l r => BinOK K by_ on L ∧ Scoped K by_ l ∧ Scoped K by_ r
  | .histQ _ _ e =>
    (NameSafe K by_ ∧ if by_ then ∀ k ∈ K, k ∉ ["le"] else ∀ x ∈ ["le"], x ∈ K) ∧ Scoped K by_ e
  | .labelFn _ dst _ _ e => shardByLabel K dst by_ = false ∧ Scoped K by_ e
  | .aggSel _ g L _ _ e => KeyOK K by_ g L ∧ Scoped K by_ e
  | .countValues g L dst e => (KeyOK K by_ g L ∧ shardByLabel K dst by_ = false) ∧ Scoped K by_ e
  | .rangeFn _ _ _ _ drop _ _ => drop = true → NameSafe K by_
  | .subq _ _ drop _ _ e => (drop = true → NameSafe K by_) ∧ Scoped K by_ e
  | .binMany _ on L inc _ _ many one =>
    (BinOK K by_ on L ∧ NameSafe K by_ ∧ (if on then ∀ i ∈ inc, i ∉ L else ∀ i ∈ inc, i ∈ L)) ∧
      Scoped K by_ many ∧ Scoped K by_ one

/-- labels copied by `group_left` / `group_right` are never among the hashed ones -/
theorem proj_withInc {K : List String} {by_ : Bool} {inc : List String}
    (h : ∀ i ∈ inc, shardByLabel K i by_ = false) (l r : Labels) :
    projection K by_ (withInc inc l r) = projection K by_ l := by
  unfold projection withInc
  rw [List.filter_append]
  have h2 : (r.filter fun x => inc.contains x.1).filter (fun x => shardByLabel K x.1 by_) = [] := by
    apply List.filter_eq_nil_iff.mpr
    intro a ha
    have := (List.mem_filter.mp ha).2
    simp [h a.1 (List.contains_iff_mem.mp this)]
  rw [h2, List.append_nil]
  apply filter_filter_of_imp
  intro a _ ha
  cases hc : inc.contains a.1 with
  | false => rfl
  | true => rw [h a.1 (List.contains_iff_mem.mp hc)] at ha; cases ha

theorem inc_not_hashed {K : List String} {by_ on : Bool} {L inc : List String} (hb : BinOK K by_ on L)
    (hw : if on then ∀ i ∈ inc, i ∉ L else ∀ i ∈ inc, i ∈ L) : ∀ i ∈ inc, shardByLabel K i by_ = false := by
  intro i hi
  unfold BinOK at hb
  unfold shardByLabel
  cases on with
  | true =>
    simp only [if_true] at hb hw
    obtain ⟨hby, hk⟩ := hb
    subst hby
    have : ¬ i ∈ K := fun hk' => hw i hi (hk i hk')
    simp [this]
  | false =>
    simp only [Bool.false_eq_true, if_false] at hb hw
    cases by_ with
    | true =>
      simp only [if_true] at hb
      have : ¬ i ∈ K := fun hk' => hb.1 i hk' (hw i hi)
      simp [this]
    | false =>
      simp only [Bool.false_eq_true, if_false] at hb
      have : i ∈ K := hb.1 i (hw i hi)
      simp [this]

/-- setting a label that is not hashed does not move the series to another shard -/
theorem proj_setLabel {K : List String} {by_ : Bool} {dst : String} (h : shardByLabel K dst by_ = false)
    (l : Labels) (nw : Labels) (hnw : ∀ x ∈ nw, x.1 = dst) :
    projection K by_ ((l.filter fun p => p.1 ≠ dst) ++ nw) = projection K by_ l := by
  unfold projection
  rw [List.filter_append]
  have h2 : nw.filter (fun x => shardByLabel K x.1 by_) = [] := by
    apply List.filter_eq_nil_iff.mpr
    intro a ha
    rw [hnw a ha, h]; simp
  rw [h2, List.append_nil]
  apply filter_filter_of_imp
  intro a _ ha
  have : a.1 ≠ dst := fun e => by rw [e, h] at ha; cases ha
  simp [this]

theorem compat_histQ (hash : Labels → Nat) (total : Nat) (K : List String) (by_ : Bool)
    (h : NameSafe K by_ ∧ if by_ then ∀ k ∈ K, k ∉ ["le"] else ∀ x ∈ ["le"], x ∈ K) (l : Labels) :
    shReal hash total K by_ (keyWithout ["le"] l) = shReal hash total K by_ l := by
  obtain ⟨hn, hk⟩ := h
  unfold shReal
  cases by_ with
  | true => rw [proj_keyWithout_by (by simpa using hk) (by simpa [NameSafe] using hn)]
  | false => rw [proj_keyWithout_without (by simpa using hk) (by simpa [NameSafe] using hn)]

theorem keyOK_sh (hash : Labels → Nat) (total : Nat) {K : List String} {by_ g : Bool} {L : List String}
    (h : KeyOK K by_ g L) (l : Labels) :
    shReal hash total K by_ ((if g then keyBy L else keyWithout L) l) = shReal hash total K by_ l := by
  unfold KeyOK at h
  cases g with
  | true =>
    simp only [if_true] at h ⊢
    obtain ⟨hb, hk⟩ := h
    subst hb
    unfold shReal
    rw [proj_keyBy hk]
  | false =>
    simp only [Bool.false_eq_true, if_false] at h ⊢
    obtain ⟨hn, hk⟩ := h
    unfold shReal
    cases by_ with
    | true => rw [proj_keyWithout_by (by simpa using hk) (by simpa [NameSafe] using hn)]
    | false => rw [proj_keyWithout_without (by simpa using hk) (by simpa [NameSafe] using hn)]

theorem compat_of_scoped (hash : Labels → Nat) (total : Nat) (K : List String) (by_ : Bool) :
    ∀ e : FExpr, Scoped K by_ e → Compat (shReal hash total K by_) e.toV
  | .sel _ _, _ => trivial
  | .fn _ drop f e, h => by
    refine ⟨?_, compat_of_scoped hash total K by_ e h.2⟩
    intro l v s hs
    cases hf : f v with
    | none => simp [hf] at hs
    | some v' =>
      simp only [hf, Option.map_some, Option.some.injEq] at hs
      subst hs
      cases drop with
      | false => rfl
      | true =>
        have hn := h.1 rfl
        unfold shReal
        cases by_ with
        | true => simp only [if_true]; rw [proj_dropName_by (by simpa [NameSafe] using hn)]
        | false => simp only [if_true]; rw [proj_dropName_without (by simpa [NameSafe] using hn)]
  | .aggBy _ L f e, h => by
    refine ⟨?_, compat_of_scoped hash total K by_ e h.2⟩
    intro l
    obtain ⟨hb, hk⟩ := h.1
    subst hb
    unfold shReal
    rw [proj_keyBy hk]
  | .aggWithout _ L f e, h => by
    refine ⟨?_, compat_of_scoped hash total K by_ e h.2⟩
    intro l
    obtain ⟨hn, hk⟩ := h.1
    unfold shReal
    cases by_ with
    | true => rw [proj_keyWithout_by (by simpa using hk) (by simpa [NameSafe] using hn)]
    | false => rw [proj_keyWithout_without (by simpa using hk) (by simpa [NameSafe] using hn)]
  | .bin _ on L arith f l r, h => by
    obtain ⟨hb, hl, hr⟩ := h
    refine ⟨?_, ?_, compat_of_scoped hash total K by_ l hl, compat_of_scoped hash total K by_ r hr⟩
    · intro a b hab
      unfold shReal
      rw [← proj_sigOf hb a, hab, proj_sigOf hb b]
    · intro x ro s hs
      cases hf : f x.2 (ro.map (·.2)) with
      | none => simp [hf] at hs
      | some v =>
        simp only [hf, Option.map_some, Option.some.injEq] at hs
        subst hs
        cases arith with
        | false => rfl
        | true => simp only [if_true]; unfold shReal; rw [proj_sigOf hb]
  | .or_ on L l r, h => by
    obtain ⟨hb, hl, hr⟩ := h
    have cl := compat_of_scoped hash total K by_ l hl
    have cr := compat_of_scoped hash total K by_ r hr
    refine ⟨cl, ?_, ?_, cr, cl⟩
    · intro a b hab
      unfold shReal
      rw [← proj_sigOf hb a, hab, proj_sigOf hb b]
    · intro x ro s hs
      cases ro with
      | none => simp at hs; subst hs; rfl
      | some _ => simp at hs
  | .histQ _ f e, h => ⟨compat_histQ hash total K by_ h.1, compat_of_scoped hash total K by_ e h.2⟩
  | .aggSel _ g L _ keep e, h => by
    refine ⟨keyOK_sh hash total h.1, ?_, compat_of_scoped hash total K by_ e h.2⟩
    intro k ms x hms hx
    have hxm : x ∈ ms := (List.mem_filter.mp hx).1
    rw [← hms x hxm, keyOK_sh hash total h.1]
  | .countValues g L dst e, h => by
    refine ⟨keyOK_sh hash total h.1.1, ?_, compat_of_scoped hash total K by_ e h.2⟩
    intro k ms x _ hx
    obtain ⟨v, _, hv⟩ := List.mem_map.mp hx
    subst hv
    unfold shReal
    rw [proj_setLabel h.1.2 k [(dst, toString v)] (by simp)]
  | .rangeFn _ _ _ _ drop _ f, h => by
    refine ⟨?_, trivial⟩
    intro l
    cases drop with
    | false => rfl
    | true =>
      have hn := h rfl
      unfold shReal
      cases by_ with
      | true => simp only [if_true]; rw [proj_dropName_by (by simpa [NameSafe] using hn)]
      | false => simp only [if_true]; rw [proj_dropName_without (by simpa [NameSafe] using hn)]
  | .subq _ _ drop _ f e, h => by
    refine ⟨?_, compat_of_scoped hash total K by_ e h.2⟩
    intro l
    cases drop with
    | false => rfl
    | true =>
      have hn := h.1 rfl
      unfold shReal
      cases by_ with
      | true => simp only [if_true]; rw [proj_dropName_by (by simpa [NameSafe] using hn)]
      | false => simp only [if_true]; rw [proj_dropName_without (by simpa [NameSafe] using hn)]
  | .labelFn _ dst _ v e, h => by
    refine ⟨?_, compat_of_scoped hash total K by_ e h.2⟩
    intro l x s hs
    simp only [Option.some.injEq] at hs
    subst hs
    unfold shReal
    simp only
    rw [proj_setLabel h.1]
    intro y hy
    cases hv : v l with
    | none => simp [hv] at hy
    | some w => simp [hv] at hy; rw [hy]
  | .binMany _ on L inc _ f many one, h => by
    obtain ⟨⟨hb, hn, hw⟩, hm, ho⟩ := h
    refine ⟨?_, ?_, compat_of_scoped hash total K by_ many hm, compat_of_scoped hash total K by_ one ho⟩
    · intro a b hab
      unfold shReal
      rw [← proj_sigOf hb a, hab, proj_sigOf hb b]
    · intro x ro s hs
      cases ro with
      | none => simp at hs
      | some r =>
        simp only [Option.bind_some] at hs
        cases hf : f x.2 r.2 with
        | none => simp [hf] at hs
        | some v =>
          simp only [hf, Option.map_some, Option.some.injEq] at hs
          subst hs
          unfold shReal
          simp only
          rw [proj_withInc (inc_not_hashed hb hw)]
          cases by_ with
          | true => rw [proj_dropName_by (by simpa [NameSafe] using hn)]
          | false => rw [proj_dropName_without (by simpa [NameSafe] using hn)]

theorem binOK_of_inv {K : List String} {by_ on : Bool} {L : List String} {rest : List (List String × Bool)}
    (h : ScopeInv ⟨some K, by_⟩ (binScope on L :: rest)) : BinOK K by_ on L := by
  unfold ScopeInv at h
  unfold BinOK
  cases by_ with
  | true =>
    simp only [if_true] at h
    have := h (binScope on L) (by simp)
    cases on with
    | true => simp only [if_true]; exact ⟨trivial, by simpa [binScope] using this.1⟩
    | false =>
      simp only [Bool.false_eq_true, if_false, if_true]
      have h2 := this.2 (by simp [binScope])
      simp only [binScope, Bool.false_eq_true, if_false, List.mem_append, List.mem_singleton, not_or] at h2
      exact ⟨fun k hk => (h2 k hk).1, fun hn => (h2 _ hn).2 rfl⟩
  | false =>
    simp only [Bool.false_eq_true, if_false] at h
    have := h (binScope on L) (by simp)
    cases on with
    | true => simp [binScope] at this
    | false =>
      simp only [Bool.false_eq_true, if_false]
      have h2 := this.2
      simp only [binScope, Bool.false_eq_true, if_false, List.mem_append, List.mem_singleton] at h2
      exact ⟨fun x hx => h2 x (Or.inl hx), h2 _ (Or.inr rfl)⟩

theorem scopeInv_sub {K : List String} {by_ : Bool} {seen sub : List (List String × Bool)}
    (h : ScopeInv ⟨some K, by_⟩ seen) (hsub : ∀ sc ∈ sub, sc ∈ seen) : ScopeInv ⟨some K, by_⟩ sub := by
  unfold ScopeInv at h ⊢
  cases by_ with
  | true => simp only [if_true] at h ⊢; exact fun sc hsc => h sc (hsub sc hsc)
  | false => simp only [Bool.false_eq_true, if_false] at h ⊢; exact fun sc hsc => h sc (hsub sc hsc)

theorem keyOK_of_inv {K : List String} {by_ g : Bool} {L : List String} {rest : List (List String × Bool)}
    (hn : NameSafe K by_) (h : ScopeInv ⟨some K, by_⟩ ((L, g) :: rest)) : KeyOK K by_ g L := by
  unfold ScopeInv at h
  unfold KeyOK
  cases g with
  | true =>
    simp only [if_true]
    cases by_ with
    | true =>
      simp only [if_true] at h
      exact ⟨rfl, (h (L, true) (by simp)).1 rfl⟩
    | false =>
      simp only [Bool.false_eq_true, if_false] at h
      have := (h (L, true) (by simp)).1
      cases this
  | false =>
    simp only [Bool.false_eq_true, if_false]
    cases by_ with
    | true =>
      simp only [if_true] at h
      exact ⟨hn, by simpa using (h (L, false) (by simp)).2 rfl⟩
    | false =>
      simp only [Bool.false_eq_true, if_false] at h
      exact ⟨hn, by simpa using (h (L, false) (by simp)).2⟩

theorem scoped_of_inv (K : List String) (by_ : Bool) (hn : NameSafe K by_) :
    ∀ e : FExpr, e.WF → (∀ d ∈ e.dyns, shardByLabel K d by_ = false) → ScopeInv ⟨some K, by_⟩ e.scopes → Scoped K by_ e
  | .sel _ _, _, _, _ => trivial
  | .fn _ _ _ e, hwf, hd, h => ⟨fun _ => hn, scoped_of_inv K by_ hn e hwf.2 hd h⟩
  | .aggBy _ L _ e, hwf, hd, h => by
    unfold ScopeInv at h
    simp only [FExpr.scopes] at h
    cases by_ with
    | true =>
      simp only [if_true] at h
      refine ⟨⟨rfl, (h (L, true) (by simp)).1 rfl⟩, scoped_of_inv K true hn e hwf.2 hd ?_⟩
      unfold ScopeInv; simp only [if_true]
      exact fun sc hsc => h sc (List.mem_cons_of_mem _ hsc)
    | false =>
      simp only [Bool.false_eq_true, if_false] at h
      have := (h (L, true) (by simp)).1
      cases this
  | .aggWithout _ L _ e, hwf, hd, h => by
    unfold ScopeInv at h
    simp only [FExpr.scopes] at h
    cases by_ with
    | true =>
      simp only [if_true] at h
      refine ⟨⟨hn, by simpa using (h (L, false) (by simp)).2 rfl⟩, scoped_of_inv K true hn e hwf.2 hd ?_⟩
      unfold ScopeInv; simp only [if_true]
      exact fun sc hsc => h sc (List.mem_cons_of_mem _ hsc)
    | false =>
      simp only [Bool.false_eq_true, if_false] at h
      refine ⟨⟨hn, by simpa using (h (L, false) (by simp)).2⟩, scoped_of_inv K false hn e hwf.2 hd ?_⟩
      unfold ScopeInv; simp only [Bool.false_eq_true, if_false]
      exact fun sc hsc => h sc (List.mem_cons_of_mem _ hsc)
  | .bin _ on L _ _ l r, hwf, hd, h => by
    simp only [FExpr.scopes] at h
    simp only [FExpr.dyns] at hd
    exact ⟨binOK_of_inv h,
      scoped_of_inv K by_ hn l hwf.1 (fun d hd' => hd d (List.mem_append_left _ hd'))
        (scopeInv_sub h (fun sc hsc => List.mem_cons_of_mem _ (List.mem_append_left _ hsc))),
      scoped_of_inv K by_ hn r hwf.2 (fun d hd' => hd d (List.mem_append_right _ hd'))
        (scopeInv_sub h (fun sc hsc => List.mem_cons_of_mem _ (List.mem_append_right _ hsc)))⟩
  | .or_ on L l r, hwf, hd, h => by
    simp only [FExpr.scopes] at h
    simp only [FExpr.dyns] at hd
    exact ⟨binOK_of_inv h,
      scoped_of_inv K by_ hn l hwf.1 (fun d hd' => hd d (List.mem_append_left _ hd'))
        (scopeInv_sub h (fun sc hsc => List.mem_cons_of_mem _ (List.mem_append_left _ hsc))),
      scoped_of_inv K by_ hn r hwf.2 (fun d hd' => hd d (List.mem_append_right _ hd'))
        (scopeInv_sub h (fun sc hsc => List.mem_cons_of_mem _ (List.mem_append_right _ hsc)))⟩
  | .aggSel _ g L _ _ e, hwf, hd, h => by
    simp only [FExpr.scopes] at h
    exact ⟨keyOK_of_inv hn h, scoped_of_inv K by_ hn e hwf.2 hd (scopeInv_sub h (fun sc hsc => List.mem_cons_of_mem _ hsc))⟩
  | .countValues g L dst e, hwf, hd, h => by
    simp only [FExpr.scopes] at h
    simp only [FExpr.dyns] at hd
    exact ⟨⟨keyOK_of_inv hn h, hd dst (by simp)⟩,
      scoped_of_inv K by_ hn e hwf (fun d hd' => hd d (List.mem_cons_of_mem _ hd'))
        (scopeInv_sub h (fun sc hsc => List.mem_cons_of_mem _ hsc))⟩
  | .histQ _ _ e, hwf, hd, h => by
    unfold ScopeInv at h
    simp only [FExpr.scopes] at h
    cases by_ with
    | true =>
      simp only [if_true] at h
      refine ⟨⟨hn, by simpa using (h (["le"], false) (by simp)).2 rfl⟩, scoped_of_inv K true hn e hwf hd ?_⟩
      unfold ScopeInv; simp only [if_true]
      exact fun sc hsc => h sc (List.mem_cons_of_mem _ hsc)
    | false =>
      simp only [Bool.false_eq_true, if_false] at h
      refine ⟨⟨hn, by simpa using (h (["le"], false) (by simp)).2⟩, scoped_of_inv K false hn e hwf hd ?_⟩
      unfold ScopeInv; simp only [Bool.false_eq_true, if_false]
      exact fun sc hsc => h sc (List.mem_cons_of_mem _ hsc)
  | .rangeFn _ _ _ _ _ _ _, _, _, _ => fun _ => hn
  | .subq _ _ _ _ _ e, hwf, hd, h => ⟨fun _ => hn, scoped_of_inv K by_ hn e hwf.2 hd h⟩
  | .labelFn _ dst _ _ e, hwf, hd, h => by
    simp only [FExpr.dyns] at hd
    exact ⟨hd dst (by simp), scoped_of_inv K by_ hn e hwf.2 (fun d hd' => hd d (List.mem_cons_of_mem _ hd')) h⟩
  | .binMany _ on L inc manyLeft _ many one, hwf, hd, h => by
    simp only [FExpr.scopes] at h
    simp only [FExpr.dyns] at hd
    refine ⟨⟨binOK_of_inv h, hn, hwf.1⟩, ?_, ?_⟩
    · apply scoped_of_inv K by_ hn many hwf.2.1 ?_ (scopeInv_sub h ?_)
      · intro d hd'; apply hd d; cases manyLeft <;> simp [hd']
      · intro sc hsc
        cases manyLeft
        · exact List.mem_cons_of_mem _ (by simp [hsc])
        · exact List.mem_cons_of_mem _ (by simp [hsc])
    · apply scoped_of_inv K by_ hn one hwf.2.2 ?_ (scopeInv_sub h ?_)
      · intro d hd'; apply hd d; cases manyLeft <;> simp [hd']
      · intro sc hsc
        cases manyLeft
        · exact List.mem_cons_of_mem _ (by simp [hsc])
        · exact List.mem_cons_of_mem _ (by simp [hsc])

/-- the final dynamic-label scope makes every dynamic label un-hashed -/
theorem dyns_not_hashed {K : List String} {by_ : Bool} {e : FExpr} (h : ScopeInv ⟨some K, by_⟩ e.allScopes) :
    ∀ d ∈ e.dyns, shardByLabel K d by_ = false := by
  intro d hd
  have hne : e.dyns.isEmpty = false := by
    cases hdy : e.dyns with
    | nil => rw [hdy] at hd; simp at hd
    | cons _ _ => rfl
  have hmem : (e.dyns, false) ∈ e.allScopes := by simp [FExpr.allScopes, hne]
  unfold ScopeInv at h
  unfold shardByLabel
  cases by_ with
  | true =>
    simp only [if_true] at h
    have := (h _ hmem).2 rfl
    have hk : ¬ d ∈ K := fun hk => this d hk hd
    simp [hk]
  | false =>
    simp only [Bool.false_eq_true, if_false] at h
    have := (h _ hmem).2 d hd
    simp [this]

end Thanos.Sharding
