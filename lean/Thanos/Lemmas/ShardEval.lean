import Thanos.Model.ShardEval
/-
  Helper lemmas for C44: evaluation of the fragment commutes with taking a shard, provided every
  node keeps the shard of a series unchanged.
-/
namespace Thanos.Sharding

theorem nub_filter {α : Type} [DecidableEq α] (p : α → Bool) :
    ∀ l : List α, nub (l.filter p) = (nub l).filter p
  | [] => rfl
  | x :: xs => by
    by_cases hp : p x = true
    · simp only [List.filter_cons, hp, if_true, nub, nub_filter p xs]
      congr 1
      simp only [List.filter_filter]
      apply List.filter_congr
      intro a _
      exact Bool.and_comm _ _
    · simp only [List.filter_cons, hp, nub, nub_filter p xs, Bool.false_eq_true, if_false]
      simp only [List.filter_filter]
      apply List.filter_congr
      intro a _
      by_cases ha : a = x
      · subst ha; simp [hp]
      · simp [ha]

theorem mem_nub {α : Type} [DecidableEq α] {a : α} : ∀ {l : List α}, a ∈ nub l ↔ a ∈ l
  | [] => by simp [nub]
  | x :: xs => by
    simp only [nub, List.mem_cons, List.mem_filter, mem_nub (l := xs)]
    by_cases h : a = x
    · simp [h]
    · simp [h]

/-- node-wise condition: no node changes the shard of a series -/
def Compat (sh : Labels → Nat) : VExpr → Prop
  | .sel _ => True
  | .fn g e => (∀ l v s, g l v = some s → sh s.1 = sh l) ∧ Compat sh e
  | .agg key _ e => (∀ l, sh (key l) = sh l) ∧ Compat sh e

theorem groupAgg_shard (sh : Labels → Nat) (key : Labels → Labels) (op : List Int → Int)
    (hk : ∀ l, sh (key l) = sh l) (i : Nat) (v : Vec) :
    groupAgg key op (shardOf sh i v) = shardOf sh i (groupAgg key op v) := by
  unfold groupAgg shardOf
  have hkeys : (v.filter fun s => sh s.1 = i).map (fun s => key s.1) =
      (v.map fun s => key s.1).filter (fun k => sh k = i) := by
    rw [List.filter_map]
    congr 1
    apply List.filter_congr
    intro s _
    simp [hk]
  rw [hkeys, nub_filter, List.filter_map]
  simp only [Function.comp_def]
  apply List.map_congr_left
  intro k hk'
  have hki : sh k = i := by simpa using (List.mem_filter.mp hk').2
  congr 2
  rw [List.filter_filter]
  congr 1
  apply List.filter_congr
  intro s _
  by_cases h : key s.1 = k
  · have : sh s.1 = i := by rw [← hk s.1, h, hki]
    simp [h, this]
  · simp [h]

theorem filterMap_shard (sh : Labels → Nat) (g : Labels → Int → Option Series)
    (hg : ∀ l v s, g l v = some s → sh s.1 = sh l) (i : Nat) :
    ∀ v : Vec, (shardOf sh i v).filterMap (fun x => g x.1 x.2) = shardOf sh i (v.filterMap fun x => g x.1 x.2)
  | [] => rfl
  | x :: xs => by
    have ih := filterMap_shard sh g hg i xs
    unfold shardOf at ih ⊢
    by_cases hx : sh x.1 = i
    · simp only [List.filter_cons, hx, decide_true, if_true, List.filterMap_cons]
      cases hgx : g x.1 x.2 with
      | none => simpa using ih
      | some s =>
        have : sh s.1 = i := by rw [hg _ _ _ hgx, hx]
        simp [this, ih]
    · simp only [List.filter_cons, hx, decide_false, List.filterMap_cons]
      cases hgx : g x.1 x.2 with
      | none => simpa using ih
      | some s =>
        have : ¬ sh s.1 = i := by rw [hg _ _ _ hgx]; exact hx
        simp [this, ih]

/-- **evaluation commutes with taking a shard** (as lists, order included) -/
theorem eval_shard (sh : Labels → Nat) (i : Nat) :
    ∀ (e : VExpr), Compat sh e → ∀ s : Vec, eval e (shardOf sh i s) = shardOf sh i (eval e s)
  | .sel p, _, s => by
    simp only [eval, shardOf, List.filter_filter]
    apply List.filter_congr
    intro a _
    exact Bool.and_comm _ _
  | .fn g e, hc, s => by
    simp only [eval]
    rw [eval_shard sh i e hc.2 s]
    exact filterMap_shard sh g hc.1 i _
  | .agg key op e, hc, s => by
    simp only [eval]
    rw [eval_shard sh i e hc.2 s]
    exact groupAgg_shard sh key op hc.1 i _

/-- every output series has the shard of some input series -/
theorem eval_shard_of_input (sh : Labels → Nat) :
    ∀ (e : VExpr), Compat sh e → ∀ (s : Vec) (x : Series), x ∈ eval e s → ∃ y ∈ s, sh x.1 = sh y.1
  | .sel p, _, s, x, hx => by
    simp only [eval, List.mem_filter] at hx
    exact ⟨x, hx.1, rfl⟩
  | .fn g e, hc, s, x, hx => by
    simp only [eval, List.mem_filterMap] at hx
    obtain ⟨z, hz, hgz⟩ := hx
    obtain ⟨y, hy, hzy⟩ := eval_shard_of_input sh e hc.2 s z hz
    exact ⟨y, hy, by rw [hc.1 _ _ _ hgz, hzy]⟩
  | .agg key op e, hc, s, x, hx => by
    simp only [eval, groupAgg, List.mem_map, mem_nub] at hx
    obtain ⟨k, ⟨z, hz, hzk⟩, hxk⟩ := hx
    obtain ⟨y, hy, hzy⟩ := eval_shard_of_input sh e hc.2 s z hz
    refine ⟨y, hy, ?_⟩
    rw [← hxk]
    simp only
    rw [← hzk, hc.1, hzy]

/-- a list is a permutation of its parts by shard index -/
theorem perm_shards (sh : Labels → Nat) (v : Vec) :
    ∀ n : Nat, ((List.range n).flatMap fun i => shardOf sh i v).Perm (v.filter fun s => sh s.1 < n)
  | 0 => by simp
  | n + 1 => by
    rw [List.range_succ, List.flatMap_append]
    simp only [List.flatMap_cons, List.flatMap_nil, List.append_nil]
    have h1 := perm_shards sh v n
    have h2 : (v.filter fun s => sh s.1 < n + 1).Perm
        ((v.filter fun s => sh s.1 < n) ++ shardOf sh n v) := by
      have := List.filter_append_perm (fun s : Series => decide (sh s.1 < n)) (v.filter fun s => sh s.1 < n + 1)
      rw [List.filter_filter, List.filter_filter] at this
      refine this.symm.trans ?_
      apply List.Perm.append
      · apply List.Perm.of_eq
        apply List.filter_congr
        intro a _
        by_cases h : sh a.1 < n
        · have : sh a.1 < n + 1 := by omega
          simp [h, this]
        · simp [h]
      · apply List.Perm.of_eq
        unfold shardOf
        apply List.filter_congr
        intro a _
        by_cases h : sh a.1 = n
        · simp [h]
        · by_cases h' : sh a.1 < n
          · simp [h, h']
          · have : ¬ sh a.1 < n + 1 := by omega
            simp [h, this]
    exact (List.Perm.append h1 (List.Perm.refl _)).trans h2.symm

/-! ### the fragment: syntax for the analyzer, semantics for the engine -/

/-- the fragment with the syntax the analyzer sees and the semantics the engine gives it -/
inductive FExpr where
  | sel (text : String) (p : Labels → Bool)
  | fn (name : String) (drop : Bool) (f : Int → Option Int) (e : FExpr)
  | aggBy (op : String) (L : List String) (f : List Int → Int) (e : FExpr)
  | aggWithout (op : String) (L : List String) (f : List Int → Int) (e : FExpr)

def plainFn (name : String) : Bool :=
  !(name = "label_join" || name = "label_replace" || name = "absent_over_time" || name = "absent" ||
    name = "scalar" || name = "histogram_quantile")

def FExpr.WF : FExpr → Prop
  | .sel _ _ => True
  | .fn name _ _ e => plainFn name = true ∧ e.WF
  | .aggBy op _ _ e => op ≠ "count_values" ∧ e.WF
  | .aggWithout op _ _ e => op ≠ "count_values" ∧ e.WF

def FExpr.toExpr : FExpr → Expr
  | .sel t _ => .sel t
  | .fn name _ _ e => .call name [e.toExpr]
  | .aggBy op L _ e => .agg op .by_ L none e.toExpr
  | .aggWithout op L _ e => .agg op .without L none e.toExpr

def FExpr.toV : FExpr → VExpr
  | .sel _ p => .sel p
  | .fn _ drop f e => .fn (fun l v => (f v).map fun v' => (if drop then dropName l else l, v')) e.toV
  | .aggBy _ L f e => .agg (keyBy L) f e.toV
  | .aggWithout _ L f e => .agg (keyWithout L) f e.toV

/-- grouping scopes in the analyzer's pre-order -/
def FExpr.scopes : FExpr → List (List String × Bool)
  | .sel _ _ => []
  | .fn _ _ _ e => e.scopes
  | .aggBy _ L _ e => (L, true) :: e.scopes
  | .aggWithout _ L _ e => (L, false) :: e.scopes

def foldScopes (a : Analysis) (scs : List (List String × Bool)) : Analysis :=
  scs.foldl (fun a sc => scopeToLabels a sc.1 sc.2) a

theorem walk_fragment : ∀ (e : FExpr), e.WF → ∀ st : St, st.ok = true →
    walk st e.toExpr = { st with an := foldScopes st.an e.scopes }
  | .sel _ _, _, st, _ => by simp [FExpr.toExpr, walk, FExpr.scopes, foldScopes]
  | .fn name _ _ e, hwf, st, hok => by
    have hp := hwf.1
    simp only [plainFn, Bool.not_eq_true', Bool.or_eq_false_iff, decide_eq_false_iff_not] at hp
    obtain ⟨⟨⟨⟨⟨h1, h2⟩, h3⟩, h4⟩, h5⟩, h6⟩ := hp
    simp only [FExpr.toExpr, walk, hok, h1, h2, h3, h4, h5, h6, walkList, FExpr.scopes]
    simp [walk_fragment e hwf.2 st hok, hok]
  | .aggBy op L _ e, hwf, st, hok => by
    simp only [FExpr.toExpr, walk, hok, hwf.1, FExpr.scopes, foldScopes, List.foldl_cons]
    simp
    rw [walk_fragment e hwf.2 _ (by simp [hok])]
    have : (Mode.by_ != Mode.without) = true := by decide
    simp [foldScopes, this]
  | .aggWithout op L _ e, hwf, st, hok => by
    simp only [FExpr.toExpr, walk, hok, hwf.1, FExpr.scopes, foldScopes, List.foldl_cons]
    simp
    rw [walk_fragment e hwf.2 _ (by simp [hok])]
    have : (Mode.without != Mode.without) = false := by decide
    simp [foldScopes, this]

theorem analyze_fragment (e : FExpr) (hwf : e.WF) :
    analyze e.toExpr = foldScopes ⟨none, false⟩ e.scopes := by
  unfold analyze analyzeWith
  rw [walk_fragment e hwf _ rfl]
  simp

theorem mem_intersect {a b : List String} {x : String} (h : x ∈ intersect a b) : x ∈ a ∧ x ∈ b := by
  unfold intersect at h
  split at h
  · simp at h
  · have := List.mem_eraseDups.mp h
    simpa using this

theorem mem_withoutL {a b : List String} {x : String} (h : x ∈ withoutL a b) : x ∈ a ∧ x ∉ b := by
  unfold withoutL at h
  split at h
  · simp at h
  · split at h
    · rename_i hb
      have : b = [] := by simpa using hb
      subst this
      exact ⟨h, by simp⟩
    · have := List.mem_eraseDups.mp h
      simpa using this

theorem mem_unionL {a b : List String} {x : String} (h : x ∈ a ∨ x ∈ b) : x ∈ unionL a b := by
  unfold unionL
  split
  · rename_i hab
    have ha : a = [] := by simpa using hab.1
    have hb : b = [] := by simpa using hab.2
    subst ha hb; simp at h
  · split
    · rename_i ha
      have : a = [] := by simpa using ha
      subst this; simpa using h
    · split
      · rename_i hb
        have : b = [] := by simpa using hb
        subst this; simpa using h
      · exact List.mem_eraseDups.mpr (by simpa using h)

/-- what the analysis guarantees about the grouping scopes it has seen -/
def ScopeInv (a : Analysis) (seen : List (List String × Bool)) : Prop :=
  match a.labels with
  | none => seen = []
  | some K =>
    if a.by_ then
      ∀ sc ∈ seen, (sc.2 = true → ∀ k ∈ K, k ∈ sc.1) ∧ (sc.2 = false → ∀ k ∈ K, k ∉ sc.1)
    else
      ∀ sc ∈ seen, sc.2 = false ∧ ∀ x ∈ sc.1, x ∈ K

theorem scopeInv_step (a : Analysis) (seen : List (List String × Bool)) (L : List String) (b : Bool)
    (h : ScopeInv a seen) : ScopeInv (scopeToLabels a L b) (seen ++ [(L, b)]) := by
  unfold ScopeInv at h ⊢
  unfold scopeToLabels
  cases hl : a.labels with
  | none =>
    rw [hl] at h
    subst h
    cases b <;> simp
  | some K =>
    rw [hl] at h
    simp only
    cases hab : a.by_ <;> cases b <;> simp only [hab] at h ⊢ <;> simp only [Bool.false_eq_true, if_false, if_true, and_self, and_false, false_and, not_false_eq_true, not_true_eq_false, true_and, and_true]
    · -- without, without
      intro sc hsc
      rcases List.mem_append.mp hsc with hsc | hsc
      · exact ⟨(h sc hsc).1, fun x hx => mem_unionL (Or.inl ((h sc hsc).2 x hx))⟩
      · simp at hsc; subst hsc
        exact ⟨rfl, fun x hx => mem_unionL (Or.inr hx)⟩
    · -- without, then by L
      intro sc hsc
      rcases List.mem_append.mp hsc with hsc | hsc
      · have := h sc hsc
        refine ⟨fun ht => (by rw [this.1] at ht; cases ht), fun _ k hk hks => ?_⟩
        exact (mem_withoutL hk).2 (this.2 k hks)
      · simp at hsc; subst hsc
        exact ⟨fun _ k hk => (mem_withoutL hk).1, fun hf => (by cases hf)⟩
    · -- by, then without L
      intro sc hsc
      rcases List.mem_append.mp hsc with hsc | hsc
      · have := h sc hsc
        exact ⟨fun ht k hk => this.1 ht k (mem_withoutL hk).1, fun hf k hk => this.2 hf k (mem_withoutL hk).1⟩
      · simp at hsc; subst hsc
        exact ⟨fun hf => (by cases hf), fun _ k hk => (mem_withoutL hk).2⟩
    · -- by, by
      intro sc hsc
      rcases List.mem_append.mp hsc with hsc | hsc
      · have := h sc hsc
        exact ⟨fun ht k hk => this.1 ht k (mem_intersect hk).1, fun hf k hk => this.2 hf k (mem_intersect hk).1⟩
      · simp at hsc; subst hsc
        exact ⟨fun _ k hk => (mem_intersect hk).2, fun hf => (by cases hf)⟩

theorem scopeInv_fold : ∀ (scs : List (List String × Bool)) (a : Analysis) (seen : List (List String × Bool)),
    ScopeInv a seen → ScopeInv (scs.foldl (fun a sc => scopeToLabels a sc.1 sc.2) a) (seen ++ scs)
  | [], a, seen, h => by simpa using h
  | sc :: scs, a, seen, h => by
    have := scopeInv_fold scs (scopeToLabels a sc.1 sc.2) (seen ++ [sc]) (scopeInv_step a seen sc.1 sc.2 h)
    simpa [List.append_assoc] using this

/-! ### from the analyzer's invariant to node-wise compatibility of the real shard function -/

theorem filter_filter_of_imp {α : Type} (q r : α → Bool) (l : List α) (h : ∀ a ∈ l, q a = true → r a = true) :
    (l.filter r).filter q = l.filter q := by
  rw [List.filter_filter]
  apply List.filter_congr
  intro a ha
  cases hq : q a
  · simp
  · simp [h a ha hq]

theorem proj_by {K : List String} {ls : Labels} : projection K true ls = ls.filter fun l => K.contains l.1 := by
  unfold projection shardByLabel
  congr 1; funext l; cases K.contains l.1 <;> simp

theorem proj_without {K : List String} {ls : Labels} : projection K false ls = ls.filter fun l => !K.contains l.1 := by
  unfold projection shardByLabel
  congr 1; funext l; cases K.contains l.1 <;> simp

/-- the shard index the stores compute for a series -/
def shReal (hash : Labels → Nat) (total : Nat) (K : List String) (by_ : Bool) (l : Labels) : Nat :=
  hash (projection K by_ l) % total

theorem proj_keyBy {K L : List String} (h : ∀ k ∈ K, k ∈ L) (l : Labels) :
    projection K true (keyBy L l) = projection K true l := by
  rw [proj_by, proj_by]
  unfold keyBy
  apply filter_filter_of_imp
  intro a _ ha
  simp only [List.contains_iff_mem] at ha ⊢
  exact h _ ha

theorem proj_keyWithout_by {K L : List String} (h : ∀ k ∈ K, k ∉ L) (hn : "__name__" ∉ K) (l : Labels) :
    projection K true (keyWithout L l) = projection K true l := by
  rw [proj_by, proj_by]
  unfold keyWithout
  apply filter_filter_of_imp
  intro a _ ha
  simp only [List.contains_iff_mem] at ha
  have h1 := h _ ha
  have h2 : a.1 ≠ "__name__" := fun e => hn (e ▸ ha)
  simp [h1, h2]

theorem proj_keyWithout_without {K L : List String} (h : ∀ x ∈ L, x ∈ K) (hn : "__name__" ∈ K) (l : Labels) :
    projection K false (keyWithout L l) = projection K false l := by
  rw [proj_without, proj_without]
  unfold keyWithout
  apply filter_filter_of_imp
  intro a _ ha
  have ha : a.1 ∉ K := by simpa using ha
  have h1 : a.1 ∉ L := fun hm => ha (h _ hm)
  have h2 : a.1 ≠ "__name__" := fun e => ha (e ▸ hn)
  simp [h1, h2]

theorem proj_dropName_by {K : List String} (hn : "__name__" ∉ K) (l : Labels) :
    projection K true (dropName l) = projection K true l := by
  rw [proj_by, proj_by]
  unfold dropName
  apply filter_filter_of_imp
  intro a _ ha
  simp only [List.contains_iff_mem] at ha
  have h2 : a.1 ≠ "__name__" := fun e => hn (e ▸ ha)
  simp [h2]

theorem proj_dropName_without {K : List String} (hn : "__name__" ∈ K) (l : Labels) :
    projection K false (dropName l) = projection K false l := by
  rw [proj_without, proj_without]
  unfold dropName
  apply filter_filter_of_imp
  intro a _ ha
  have ha : a.1 ∉ K := by simpa using ha
  have h2 : a.1 ≠ "__name__" := fun e => ha (e ▸ hn)
  simp [h2]

/-- the metric name is where the engine and the analyzer disagree: a `by` sharding must not use
    it, a `without` sharding must exclude it -/
def NameSafe (K : List String) (by_ : Bool) : Prop :=
  if by_ then "__name__" ∉ K else "__name__" ∈ K

/-- what the sharding labels must satisfy at every node of the fragment -/
def Scoped (K : List String) (by_ : Bool) : FExpr → Prop
  | .sel _ _ => True
  | .fn _ drop _ e => (drop = true → NameSafe K by_) ∧ Scoped K by_ e
  | .aggBy _ L _ e => (by_ = true ∧ ∀ k ∈ K, k ∈ L) ∧ Scoped K by_ e
  | .aggWithout _ L _ e =>
    (NameSafe K by_ ∧ if by_ then ∀ k ∈ K, k ∉ L else ∀ x ∈ L, x ∈ K) ∧ Scoped K by_ e

theorem compat_of_scoped (hash : Labels → Nat) (total : Nat) (K : List String) (by_ : Bool) :
    ∀ e : FExpr, Scoped K by_ e → Compat (shReal hash total K by_) e.toV
  | .sel _ _, _ => trivial
  | .fn _ drop f e, h => by
    refine ⟨?_, compat_of_scoped hash total K by_ e h.2⟩
    intro l v s hs
    cases hf : f v with
    | none => simp [hf] at hs
    | some v' =>
      simp only [hf, Option.map_some, Option.some.injEq] at hs
      subst hs
      cases drop with
      | false => rfl
      | true =>
        have hn := h.1 rfl
        unfold shReal
        cases by_ with
        | true => simp only [if_true]; rw [proj_dropName_by (by simpa [NameSafe] using hn)]
        | false => simp only [if_true]; rw [proj_dropName_without (by simpa [NameSafe] using hn)]
  | .aggBy _ L f e, h => by
    refine ⟨?_, compat_of_scoped hash total K by_ e h.2⟩
    intro l
    obtain ⟨hb, hk⟩ := h.1
    subst hb
    unfold shReal
    rw [proj_keyBy hk]
  | .aggWithout _ L f e, h => by
    refine ⟨?_, compat_of_scoped hash total K by_ e h.2⟩
    intro l
    obtain ⟨hn, hk⟩ := h.1
    unfold shReal
    cases by_ with
    | true => rw [proj_keyWithout_by (by simpa using hk) (by simpa [NameSafe] using hn)]
    | false => rw [proj_keyWithout_without (by simpa using hk) (by simpa [NameSafe] using hn)]

theorem scoped_of_inv (K : List String) (by_ : Bool) (hn : NameSafe K by_) :
    ∀ e : FExpr, ScopeInv ⟨some K, by_⟩ e.scopes → Scoped K by_ e
  | .sel _ _, _ => trivial
  | .fn _ _ _ e, h => ⟨fun _ => hn, scoped_of_inv K by_ hn e h⟩
  | .aggBy _ L _ e, h => by
    unfold ScopeInv at h
    simp only [FExpr.scopes] at h
    cases by_ with
    | true =>
      simp only [if_true] at h
      refine ⟨⟨rfl, (h (L, true) (by simp)).1 rfl⟩, scoped_of_inv K true hn e ?_⟩
      unfold ScopeInv; simp only [if_true]
      exact fun sc hsc => h sc (List.mem_cons_of_mem _ hsc)
    | false =>
      simp only [Bool.false_eq_true, if_false] at h
      have := (h (L, true) (by simp)).1
      cases this
  | .aggWithout _ L _ e, h => by
    unfold ScopeInv at h
    simp only [FExpr.scopes] at h
    cases by_ with
    | true =>
      simp only [if_true] at h
      refine ⟨⟨hn, by simpa using (h (L, false) (by simp)).2 rfl⟩, scoped_of_inv K true hn e ?_⟩
      unfold ScopeInv; simp only [if_true]
      exact fun sc hsc => h sc (List.mem_cons_of_mem _ hsc)
    | false =>
      simp only [Bool.false_eq_true, if_false] at h
      refine ⟨⟨hn, by simpa using (h (L, false) (by simp)).2⟩, scoped_of_inv K false hn e ?_⟩
      unfold ScopeInv; simp only [Bool.false_eq_true, if_false]
      exact fun sc hsc => h sc (List.mem_cons_of_mem _ hsc)

end Thanos.Sharding
