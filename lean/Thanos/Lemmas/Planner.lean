import Thanos.Model.Planner
/-
  Structural lemmas about the planner model (C30): every selection function returns a sublist of
  its input, what it returns is not excluded, and multi-block results have at least two blocks.
-/
namespace Thanos.Planner

/-! ### selectOverlapping -/

theorem overlapGo_sublist : ∀ (rest : List Meta) (g : Int) (p : Meta) (started : Bool),
    (overlapGo g p started rest).Sublist (if started then rest else p :: rest)
  | [], g, p, started => by cases started <;> simp [overlapGo]
  | m :: rest, g, p, started => by
    have ih := overlapGo_sublist rest
    unfold overlapGo
    by_cases h : m.min < g
    · simp only [h, if_true]
      have := ih (if m.max > g then m.max else g) m true
      simp only [if_true] at this
      cases started with
      | true =>
        simp only [if_true]
        exact List.Sublist.cons_cons _ this
      | false =>
        simp only [Bool.false_eq_true, if_false]
        exact List.Sublist.cons_cons _ (List.Sublist.cons_cons _ this)
    · simp only [h, if_false]
      cases started with
      | true => simp
      | false =>
        simp only [Bool.false_eq_true, if_false]
        have := ih (if m.max > g then m.max else g) m false
        simp only [Bool.false_eq_true, if_false] at this
        exact List.Sublist.cons _ this

theorem selectOverlapping_sublist (ms : List Meta) : (selectOverlapping ms).Sublist ms := by
  cases ms with
  | nil => simp [selectOverlapping]
  | cons m rest =>
    have := overlapGo_sublist rest m.max m false
    simpa [selectOverlapping] using this

theorem overlapGo_length : ∀ (rest : List Meta) (g : Int) (p : Meta),
    overlapGo g p false rest = [] ∨ 2 ≤ (overlapGo g p false rest).length
  | [], g, p => by simp [overlapGo]
  | m :: rest, g, p => by
    unfold overlapGo
    by_cases h : m.min < g
    · right; simp [h]
    · simp only [h, if_false, Bool.false_eq_true]
      exact overlapGo_length rest _ m

theorem selectOverlapping_length (ms : List Meta) :
    selectOverlapping ms = [] ∨ 2 ≤ (selectOverlapping ms).length := by
  cases ms with
  | nil => simp [selectOverlapping]
  | cons m rest => exact overlapGo_length rest m.max m

/-! ### exclusion scan -/

theorem scan_spec (excl : Excl) : ∀ (p : List Meta),
    ((scan excl p).1.Sublist p ∧ ∀ b ∈ (scan excl p).1, excl b.id = false) ∧
    (∀ r, (scan excl p).2 = some r → r.Sublist p ∧ 2 ≤ r.length ∧ ∀ b ∈ r, excl b.id = false)
  | [] => by simp [scan]
  | m :: rest => by
    obtain ⟨⟨h1, h2⟩, h3⟩ := scan_spec excl rest
    unfold scan
    by_cases he : excl m.id = true
    · simp only [he, if_true]
      refine ⟨⟨by simp, by simp⟩, ?_⟩
      intro r hr
      by_cases hl : (scan excl rest).1.length > 1
      · simp only [hl, if_true, Option.some.injEq] at hr
        subst hr
        exact ⟨List.Sublist.cons _ h1, by omega, h2⟩
      · simp only [hl, if_false] at hr
        obtain ⟨a, b, c⟩ := h3 r hr
        exact ⟨List.Sublist.cons _ a, b, c⟩
    · have he' : excl m.id = false := by simpa using he
      simp only [he', Bool.false_eq_true, if_false]
      refine ⟨⟨List.Sublist.cons_cons _ h1, ?_⟩, ?_⟩
      · intro b hb
        rcases List.mem_cons.mp hb with rfl | hb
        · exact he'
        · exact h2 b hb
      · intro r hr
        obtain ⟨a, b, c⟩ := h3 r hr
        exact ⟨List.Sublist.cons _ a, b, c⟩

theorem exclScan_spec (excl : Excl) (p r : List Meta) (h : exclScan excl p = some r) :
    r.Sublist p ∧ 2 ≤ r.length ∧ ∀ b ∈ r, excl b.id = false := by
  obtain ⟨⟨h1, h2⟩, h3⟩ := scan_spec excl p
  unfold exclScan at h
  by_cases hl : (scan excl p).1.length > 1
  · simp only [hl, if_true, Option.some.injEq] at h
    subst h
    exact ⟨h1, by omega, h2⟩
  · simp only [hl, if_false] at h
    exact h3 r h

/-! ### splitByRange -/

theorem split_sublist (tr : Int) : ∀ (ms : List Meta) (st : Option Int),
    (split tr st ms).1.Sublist ms ∧ ∀ g ∈ (split tr st ms).2, g.Sublist ms
  | [], st => by simp [split]
  | m :: rest, st => by
    have ih := split_sublist tr rest
    have hfresh : ∀ (fr : List Meta × List (List Meta)),
        fr = (if m.max > rangeStart tr m.min + tr then ([], (split tr none rest).2)
              else ([], (m :: (split tr (some (rangeStart tr m.min + tr)) rest).1) ::
                        (split tr (some (rangeStart tr m.min + tr)) rest).2)) →
        fr.1.Sublist (m :: rest) ∧ ∀ g ∈ fr.2, g.Sublist (m :: rest) := by
      intro fr hfr
      subst hfr
      by_cases h : m.max > rangeStart tr m.min + tr
      · simp only [h, if_true]
        exact ⟨by simp, fun g hg => List.Sublist.cons _ ((ih none).2 g hg)⟩
      · simp only [h, if_false]
        refine ⟨by simp, ?_⟩
        intro g hg
        rcases List.mem_cons.mp hg with rfl | hg
        · exact List.Sublist.cons_cons _ (ih _).1
        · exact List.Sublist.cons _ ((ih _).2 g hg)
    unfold split
    cases st with
    | none => exact hfresh _ rfl
    | some hi =>
      simp only
      by_cases h : m.max > hi
      · simp only [h, if_true]
        exact hfresh _ rfl
      · simp only [h, if_false]
        exact ⟨List.Sublist.cons_cons _ (ih _).1, fun g hg => List.Sublist.cons _ ((ih _).2 g hg)⟩

theorem splitByRange_sublist (ms : List Meta) (tr : Int) : ∀ g ∈ splitByRange ms tr, g.Sublist ms :=
  (split_sublist tr ms none).2

/-! ### selectMetas -/

theorem pickPart_spec (excl : Excl) (hi iv : Int) : ∀ (parts : List (List Meta)) (r : List Meta),
    pickPart excl hi iv parts = some r → ∃ p ∈ parts, exclScan excl p = some r
  | [], r, h => by simp [pickPart] at h
  | p :: ps, r, h => by
    have ih := pickPart_spec excl hi iv ps r
    have lift : pickPart excl hi iv ps = some r → ∃ q ∈ p :: ps, exclScan excl q = some r := by
      intro h'
      obtain ⟨q, hq, hs⟩ := ih h'
      exact ⟨q, List.mem_cons_of_mem _ hq, hs⟩
    unfold pickPart at h
    split at h
    · exact lift h
    · split at h
      · exact lift h
      · split at h
        · split at h
          · exact lift h
          · split at h
            · rename_i r' hr'
              simp only [Option.some.injEq] at h
              subst h
              exact ⟨p, by simp, hr'⟩
            · exact lift h
        · exact lift h

/-- what a non-empty result of a selection looks like -/
def GoodMulti (excl : Excl) (ms r : List Meta) : Prop :=
  r.Sublist ms ∧ 2 ≤ r.length ∧ ∀ b ∈ r, excl b.id = false

theorem pickRange_spec (excl : Excl) (hi : Int) (ms : List Meta) : ∀ (ivs : List Int) (r : List Meta),
    pickRange excl hi ms ivs = some r → r = [] ∨ GoodMulti excl ms r
  | [], r, h => by
    simp [pickRange] at h
    exact Or.inl h
  | iv :: ivs, r, h => by
    unfold pickRange at h
    split at h
    · simp at h
    · split at h
      · rename_i r' hr'
        simp only [Option.some.injEq] at h
        subst h
        obtain ⟨p, hp, hs⟩ := pickPart_spec excl hi iv _ _ hr'
        obtain ⟨a, b, c⟩ := exclScan_spec excl p r' hs
        exact Or.inr ⟨a.trans (splitByRange_sublist ms iv p hp), b, c⟩
      · exact pickRange_spec excl hi ms ivs r h

theorem selectMetas_spec (ranges : List Int) (excl : Excl) (ms r : List Meta)
    (h : selectMetas ranges excl ms = some r) : r = [] ∨ GoodMulti excl ms r := by
  unfold selectMetas at h
  split at h
  · simp at h; exact Or.inl h
  · split at h
    · simp at h; exact Or.inl h
    · exact pickRange_spec excl _ ms _ r h

/-! ### tombstone scan -/

theorem tombScan_spec (ranges : List Int) : ∀ (l r : List Meta), tombScan ranges l = some r →
    r = [] ∨ ∃ b ∈ l, r = [b] ∧ manyTombstones b = true ∧
      ∃ mid, ranges[ranges.length / 2]? = some mid ∧ mid ≤ b.max - b.min
  | [], r, h => by simp [tombScan] at h; exact Or.inl h
  | m :: rest, r, h => by
    unfold tombScan at h
    split at h
    · simp at h
    · rename_i mid hmid
      split at h
      · simp at h; exact Or.inl h
      · rename_i hlen
        split at h
        · rename_i ht
          simp only [Option.some.injEq] at h
          exact Or.inr ⟨m, by simp, h.symm, ht, mid, hmid, by omega⟩
        · rcases tombScan_spec ranges rest r h with h' | ⟨b, hb, h'⟩
          · exact Or.inl h'
          · exact Or.inr ⟨b, List.mem_cons_of_mem _ hb, h'⟩

end Thanos.Planner
