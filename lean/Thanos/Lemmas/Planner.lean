import Thanos.Model.Planner
/-
  Structural lemmas about the planner model (C30): every selection function returns a sublist of
  its input, what it returns is not excluded, and multi-block results have at least two blocks.
-/
namespace Thanos.Planner

/-! ### selectOverlapping -/

theorem overlapGo_sublist : ∀ (rest : List Meta) (g : Int) (p : Meta) (started : Bool),
    (overlapGo g p started rest).Sublist (if started then rest else p :: rest)
  | [], g, p, started => by cases started <;> simp [overlapGo]
  | m :: rest, g, p, started => by
    have ih := overlapGo_sublist rest
    unfold overlapGo
    by_cases h : m.min < g
    · simp only [h, if_true]
      have := ih (if m.max > g then m.max else g) m true
      simp only [if_true] at this
      cases started with
      | true =>
        simp only [if_true]
        exact List.Sublist.cons_cons _ this
      | false =>
        simp only [Bool.false_eq_true, if_false]
        exact List.Sublist.cons_cons _ (List.Sublist.cons_cons _ this)
    · simp only [h, if_false]
      cases started with
      | true => simp
      | false =>
        simp only [Bool.false_eq_true, if_false]
        have := ih (if m.max > g then m.max else g) m false
        simp only [Bool.false_eq_true, if_false] at this
        exact List.Sublist.cons _ this

theorem selectOverlapping_sublist (ms : List Meta) : (selectOverlapping ms).Sublist ms := by
  cases ms with
  | nil => simp [selectOverlapping]
  | cons m rest =>
    have := overlapGo_sublist rest m.max m false
    simpa [selectOverlapping] using this

theorem overlapGo_length : ∀ (rest : List Meta) (g : Int) (p : Meta),
    overlapGo g p false rest = [] ∨ 2 ≤ (overlapGo g p false rest).length
  | [], g, p => by simp [overlapGo]
  | m :: rest, g, p => by
    unfold overlapGo
    by_cases h : m.min < g
    · right; simp [h]
    · simp only [h, if_false, Bool.false_eq_true]
      exact overlapGo_length rest _ m

theorem selectOverlapping_length (ms : List Meta) :
    selectOverlapping ms = [] ∨ 2 ≤ (selectOverlapping ms).length := by
  cases ms with
  | nil => simp [selectOverlapping]
  | cons m rest => exact overlapGo_length rest m.max m

/-! ### exclusion scan -/

theorem scan_spec (excl : Excl) : ∀ (p : List Meta),
    ((scan excl p).1.Sublist p ∧ ∀ b ∈ (scan excl p).1, excl b.id = false) ∧
    (∀ r, (scan excl p).2 = some r → r.Sublist p ∧ 2 ≤ r.length ∧ ∀ b ∈ r, excl b.id = false)
  | [] => by simp [scan]
  | m :: rest => by
    obtain ⟨⟨h1, h2⟩, h3⟩ := scan_spec excl rest
    unfold scan
    by_cases he : excl m.id = true
    · simp only [he, if_true]
      refine ⟨⟨by simp, by simp⟩, ?_⟩
      intro r hr
      by_cases hl : (scan excl rest).1.length > 1
      · simp only [hl, if_true, Option.some.injEq] at hr
        subst hr
        exact ⟨List.Sublist.cons _ h1, by omega, h2⟩
      · simp only [hl, if_false] at hr
        obtain ⟨a, b, c⟩ := h3 r hr
        exact ⟨List.Sublist.cons _ a, b, c⟩
    · have he' : excl m.id = false := by simpa using he
      simp only [he', Bool.false_eq_true, if_false]
      refine ⟨⟨List.Sublist.cons_cons _ h1, ?_⟩, ?_⟩
      · intro b hb
        rcases List.mem_cons.mp hb with rfl | hb
        · exact he'
        · exact h2 b hb
      · intro r hr
        obtain ⟨a, b, c⟩ := h3 r hr
        exact ⟨List.Sublist.cons _ a, b, c⟩

theorem exclScan_spec (excl : Excl) (p r : List Meta) (h : exclScan excl p = some r) :
    r.Sublist p ∧ 2 ≤ r.length ∧ ∀ b ∈ r, excl b.id = false := by
  obtain ⟨⟨h1, h2⟩, h3⟩ := scan_spec excl p
  unfold exclScan at h
  by_cases hl : (scan excl p).1.length > 1
  · simp only [hl, if_true, Option.some.injEq] at h
    subst h
    exact ⟨h1, by omega, h2⟩
  · simp only [hl, if_false] at h
    exact h3 r h

/-! ### splitByRange -/

theorem split_sublist (tr : Int) : ∀ (ms : List Meta) (st : Option Int),
    (split tr st ms).1.Sublist ms ∧ ∀ g ∈ (split tr st ms).2, g.Sublist ms
  | [], st => by simp [split]
  | m :: rest, st => by
    have ih := split_sublist tr rest
    have hfresh : ∀ (fr : List Meta × List (List Meta)),
        fr = (if m.max > rangeStart tr m.min + tr then ([], (split tr none rest).2)
              else ([], (m :: (split tr (some (rangeStart tr m.min + tr)) rest).1) ::
                        (split tr (some (rangeStart tr m.min + tr)) rest).2)) →
        fr.1.Sublist (m :: rest) ∧ ∀ g ∈ fr.2, g.Sublist (m :: rest) := by
      intro fr hfr
      subst hfr
      by_cases h : m.max > rangeStart tr m.min + tr
      · simp only [h, if_true]
        exact ⟨by simp, fun g hg => List.Sublist.cons _ ((ih none).2 g hg)⟩
      · simp only [h, if_false]
        refine ⟨by simp, ?_⟩
        intro g hg
        rcases List.mem_cons.mp hg with rfl | hg
        · exact List.Sublist.cons_cons _ (ih _).1
        · exact List.Sublist.cons _ ((ih _).2 g hg)
    unfold split
    cases st with
    | none => exact hfresh _ rfl
    | some hi =>
      simp only
      by_cases h : m.max > hi
      · simp only [h, if_true]
        exact hfresh _ rfl
      · simp only [h, if_false]
        exact ⟨List.Sublist.cons_cons _ (ih _).1, fun g hg => List.Sublist.cons _ ((ih _).2 g hg)⟩

theorem splitByRange_sublist (ms : List Meta) (tr : Int) : ∀ g ∈ splitByRange ms tr, g.Sublist ms :=
  (split_sublist tr ms none).2

/-! ### selectMetas -/

theorem pickPart_spec (excl : Excl) (hi iv : Int) : ∀ (parts : List (List Meta)) (r : List Meta),
    pickPart excl hi iv parts = some r → ∃ p ∈ parts, exclScan excl p = some r
  | [], r, h => by simp [pickPart] at h
  | p :: ps, r, h => by
    have ih := pickPart_spec excl hi iv ps r
    have lift : pickPart excl hi iv ps = some r → ∃ q ∈ p :: ps, exclScan excl q = some r := by
      intro h'
      obtain ⟨q, hq, hs⟩ := ih h'
      exact ⟨q, List.mem_cons_of_mem _ hq, hs⟩
    unfold pickPart at h
    split at h
    · exact lift h
    · split at h
      · exact lift h
      · split at h
        · split at h
          · exact lift h
          · split at h
            · rename_i r' hr'
              simp only [Option.some.injEq] at h
              subst h
              exact ⟨p, by simp, hr'⟩
            · exact lift h
        · exact lift h

/-- what a non-empty result of a selection looks like -/
def GoodMulti (excl : Excl) (ms r : List Meta) : Prop :=
  r.Sublist ms ∧ 2 ≤ r.length ∧ ∀ b ∈ r, excl b.id = false

theorem pickRange_spec (excl : Excl) (hi : Int) (ms : List Meta) : ∀ (ivs : List Int) (r : List Meta),
    pickRange excl hi ms ivs = some r → r = [] ∨ GoodMulti excl ms r
  | [], r, h => by
    simp [pickRange] at h
    exact Or.inl h
  | iv :: ivs, r, h => by
    unfold pickRange at h
    split at h
    · simp at h
    · split at h
      · rename_i r' hr'
        simp only [Option.some.injEq] at h
        subst h
        obtain ⟨p, hp, hs⟩ := pickPart_spec excl hi iv _ _ hr'
        obtain ⟨a, b, c⟩ := exclScan_spec excl p r' hs
        exact Or.inr ⟨a.trans (splitByRange_sublist ms iv p hp), b, c⟩
      · exact pickRange_spec excl hi ms ivs r h

theorem selectMetas_spec (ranges : List Int) (excl : Excl) (ms r : List Meta)
    (h : selectMetas ranges excl ms = some r) : r = [] ∨ GoodMulti excl ms r := by
  unfold selectMetas at h
  split at h
  · simp at h; exact Or.inl h
  · split at h
    · simp at h; exact Or.inl h
    · exact pickRange_spec excl _ ms _ r h

/-! ### tombstone scan -/

theorem tombScan_spec (ranges : List Int) : ∀ (l r : List Meta), tombScan ranges l = some r →
    r = [] ∨ ∃ b ∈ l, r = [b] ∧ manyTombstones b = true ∧
      ∃ mid, ranges[ranges.length / 2]? = some mid ∧ mid ≤ b.max - b.min
  | [], r, h => by simp [tombScan] at h; exact Or.inl h
  | m :: rest, r, h => by
    unfold tombScan at h
    split at h
    · simp at h
    · rename_i mid hmid
      split at h
      · simp at h; exact Or.inl h
      · rename_i hlen
        split at h
        · rename_i ht
          simp only [Option.some.injEq] at h
          exact Or.inr ⟨m, by simp, h.symm, ht, mid, hmid, by omega⟩
        · rcases tombScan_spec ranges rest r h with h' | ⟨b, hb, h'⟩
          · exact Or.inl h'
          · exact Or.inr ⟨b, List.mem_cons_of_mem _ hb, h'⟩

end Thanos.Planner

namespace Thanos.Planner

/-! ### splitByRange: every part fits one aligned range -/

theorem rangeStart_spec (tr mint : Int) (htr : 0 < tr) : ∃ k : Int, rangeStart tr mint = tr * k ∧ tr * k ≤ mint := by
  unfold rangeStart
  by_cases h : mint ≥ 0
  · simp only [h, if_true]
    refine ⟨Int.tdiv mint tr, rfl, ?_⟩
    have h1 := Int.mul_tdiv_add_tmod mint tr
    have h2 := Int.tmod_nonneg tr h
    omega
  · simp only [h, if_false]
    refine ⟨Int.tdiv (mint - tr + 1) tr, rfl, ?_⟩
    have h1 := Int.mul_tdiv_add_tmod (mint - tr + 1) tr
    have h2 := Int.lt_tmod_of_pos (mint - tr + 1) htr
    omega

def SortedByMin (ms : List Meta) : Prop := ms.Pairwise (fun a b => a.min ≤ b.min)

theorem split_fits (tr : Int) (htr : 0 < tr) : ∀ (ms : List Meta) (st : Option Int), SortedByMin ms →
    (∀ hi, st = some hi → ∀ b ∈ (split tr st ms).1, b.max ≤ hi) ∧
    ∀ g ∈ (split tr st ms).2, ∃ k : Int, ∀ b ∈ g, tr * k ≤ b.min ∧ b.max ≤ tr * k + tr
  | [], st, _ => by simp [split]
  | m :: rest, st, hs => by
    have hs' := List.pairwise_cons.mp hs
    have ih := fun st' => split_fits tr htr rest st' hs'.2
    have hfresh : ∀ (fr : List Meta × List (List Meta)),
        fr = (if m.max > rangeStart tr m.min + tr then ([], (split tr none rest).2)
              else ([], (m :: (split tr (some (rangeStart tr m.min + tr)) rest).1) ::
                        (split tr (some (rangeStart tr m.min + tr)) rest).2)) →
        (∀ hi : Int, ∀ b ∈ fr.1, b.max ≤ hi) ∧
        ∀ g ∈ fr.2, ∃ k : Int, ∀ b ∈ g, tr * k ≤ b.min ∧ b.max ≤ tr * k + tr := by
      intro fr hfr
      subst hfr
      by_cases h : m.max > rangeStart tr m.min + tr
      · simp only [h, if_true]
        exact ⟨by simp, (ih none).2⟩
      · simp only [h, if_false]
        refine ⟨by simp, ?_⟩
        intro g hg
        rcases List.mem_cons.mp hg with rfl | hg
        · obtain ⟨k, hk, hle⟩ := rangeStart_spec tr m.min htr
          refine ⟨k, ?_⟩
          intro b hb
          rcases List.mem_cons.mp hb with rfl | hb
          · constructor <;> omega
          · have h1 := (ih (some (rangeStart tr m.min + tr))).1 _ rfl b hb
            have h2 := hs'.1 b ((split_sublist tr rest _).1.subset hb)
            constructor <;> omega
        · exact (ih _).2 g hg
    unfold split
    cases st with
    | none =>
      have := hfresh _ rfl
      exact ⟨by intro hi h; simp at h, this.2⟩
    | some hi =>
      simp only
      by_cases h : m.max > hi
      · simp only [h, if_true]
        have := hfresh _ rfl
        exact ⟨fun hi' _ b hb => this.1 hi' b hb, this.2⟩
      · simp only [h, if_false]
        refine ⟨?_, (ih _).2⟩
        intro hi' hh b hb
        simp only [Option.some.injEq] at hh
        subst hh
        rcases List.mem_cons.mp hb with rfl | hb
        · omega
        · exact (ih (some hi)).1 hi rfl b hb

/-- a part of `splitByRange` fits the aligned range `[tr·k, tr·k + tr]` -/
theorem splitByRange_fits (ms : List Meta) (tr : Int) (htr : 0 < tr) (hs : SortedByMin ms) :
    ∀ g ∈ splitByRange ms tr, ∃ k : Int, ∀ b ∈ g, tr * k ≤ b.min ∧ b.max ≤ tr * k + tr :=
  (split_fits tr htr ms none hs).2

/-- what `pickRange` returns comes from one part of one range of the list -/
theorem pickRange_from_part (excl : Excl) (hi : Int) (ms : List Meta) : ∀ (ivs : List Int) (r : List Meta),
    pickRange excl hi ms ivs = some r → r ≠ [] →
    ∃ iv ∈ ivs, ∃ p ∈ splitByRange ms iv, r.Sublist p
  | [], r, h, hne => by simp [pickRange] at h; exact absurd h hne
  | iv :: ivs, r, h, hne => by
    unfold pickRange at h
    split at h
    · simp at h
    · split at h
      · rename_i r' hr'
        simp only [Option.some.injEq] at h
        subst h
        obtain ⟨p, hp, hsc⟩ := pickPart_spec excl hi iv _ _ hr'
        exact ⟨iv, by simp, p, hp, (exclScan_spec excl p r' hsc).1⟩
      · obtain ⟨iv', hiv', rest⟩ := pickRange_from_part excl hi ms ivs r h hne
        exact ⟨iv', List.mem_cons_of_mem _ hiv', rest⟩

theorem selectMetas_from_part (ranges : List Int) (excl : Excl) (ms r : List Meta)
    (h : selectMetas ranges excl ms = some r) (hne : r ≠ []) :
    ∃ iv ∈ ranges.tail, ∃ p ∈ splitByRange ms iv, r.Sublist p := by
  unfold selectMetas at h
  split at h
  · simp at h; exact absurd h hne
  · split at h
    · simp at h; exact absurd h hne
    · exact pickRange_from_part excl _ ms _ r h hne

/-! ### plan / apply: the measure that decreases -/

theorem filter_length_sublist (keep : Meta → Bool) : ∀ {p ms : List Meta}, p.Sublist ms →
    (∀ b ∈ p, keep b = false) → (ms.filter keep).length + p.length ≤ ms.length
  | _, _, .slnil, _ => by simp
  | _, _, .cons a hsub, hk => by
    have := filter_length_sublist keep hsub hk
    have h2 := List.length_filter_le keep [a]
    simp only [List.filter_cons, List.length_cons]
    split <;> simp <;> omega
  | _, _, .cons_cons a hsub, hk => by
    have := filter_length_sublist keep hsub (fun b hb => hk b (List.mem_cons_of_mem _ hb))
    have ha := hk a (by simp)
    simp only [List.filter_cons, ha, List.length_cons]
    simp
    omega

theorem filter_countP_sublist (keep q : Meta → Bool) : ∀ {p ms : List Meta}, p.Sublist ms →
    (∀ b ∈ p, keep b = false) → (ms.filter keep).countP q + p.countP q ≤ ms.countP q
  | _, _, .slnil, _ => by simp
  | _, _, .cons a hsub, hk => by
    have := filter_countP_sublist keep q hsub hk
    simp only [List.filter_cons, List.countP_cons]
    by_cases hka : keep a = true <;> by_cases hqa : q a = true <;> simp [hka, hqa, List.countP_cons] <;> omega
  | _, _, .cons_cons a hsub, hk => by
    have := filter_countP_sublist keep q hsub (fun b hb => hk b (List.mem_cons_of_mem _ hb))
    have ha := hk a (by simp)
    simp only [List.filter_cons, ha, List.countP_cons]
    simp
    split <;> omega

theorem insertByMin_length (b : Meta) : ∀ (l : List Meta), (insertByMin b l).length = l.length + 1
  | [] => rfl
  | m :: l => by
    unfold insertByMin
    split
    · simp
    · simp [insertByMin_length b l]

theorem insertByMin_countP (q : Meta → Bool) (b : Meta) : ∀ (l : List Meta),
    (insertByMin b l).countP q = l.countP q + (if q b then 1 else 0)
  | [] => by simp [insertByMin, List.countP_cons]
  | m :: l => by
    unfold insertByMin
    split
    · simp only [List.countP_cons]
    · simp only [List.countP_cons, insertByMin_countP q b l]; omega

/-- blocks plus blocks with many tombstones: what every applied plan decreases -/
def measure (ms : List Meta) : Nat := ms.length + ms.countP manyTombstones

theorem hull_no_tombstones (newId : Nat) (p : List Meta) : manyTombstones (hull newId p) = false := by
  cases p <;> simp [hull, manyTombstones]

theorem applyPlan_measure (newId : Nat) (p ms : List Meta) (hsub : p.Sublist ms)
    (hp : 2 ≤ p.length ∨ ∃ b, p = [b] ∧ manyTombstones b = true) :
    measure (applyPlan newId p ms) < measure ms := by
  have hk : ∀ b ∈ p, (fun m : Meta => !(p.any (fun q => q.id = m.id))) b = false := by
    intro b hb
    simp only [Bool.not_eq_false', List.any_eq_true, decide_eq_true_eq]
    exact ⟨b, hb, rfl⟩
  have h1 := filter_length_sublist _ hsub hk
  have h2 := filter_countP_sublist _ manyTombstones hsub hk
  unfold measure applyPlan
  rw [insertByMin_length, insertByMin_countP, hull_no_tombstones]
  simp only [Bool.false_eq_true, if_false, Nat.add_zero]
  rcases hp with hp | ⟨b, rfl, hb⟩
  · omega
  · simp only [List.length_cons, List.length_nil, List.countP_cons, List.countP_nil, hb, if_true] at h1 h2
    omega

end Thanos.Planner

namespace Thanos.Planner

/-! ### contiguity: what the range branch and the tombstone branch return is a contiguous piece of the input -/

def Infix (p ms : List Meta) : Prop := ∃ s t, ms = s ++ p ++ t

theorem Infix.trans {a b c : List Meta} (h1 : Infix a b) (h2 : Infix b c) : Infix a c := by
  obtain ⟨s1, t1, rfl⟩ := h1
  obtain ⟨s2, t2, rfl⟩ := h2
  exact ⟨s2 ++ s1, t1 ++ t2, by simp [List.append_assoc]⟩

theorem scan_infix (excl : Excl) : ∀ (p : List Meta),
    (∃ t, p = (scan excl p).1 ++ t) ∧ (∀ r, (scan excl p).2 = some r → Infix r p)
  | [] => by simp [scan]
  | m :: rest => by
    obtain ⟨⟨t, ht⟩, h2⟩ := scan_infix excl rest
    unfold scan
    by_cases he : excl m.id = true
    · simp only [he, if_true]
      refine ⟨⟨m :: rest, by simp⟩, ?_⟩
      intro r hr
      by_cases hl : (scan excl rest).1.length > 1
      · simp only [hl, if_true, Option.some.injEq] at hr
        subst hr
        exact ⟨[m], t, by simp [← ht]⟩
      · simp only [hl, if_false] at hr
        obtain ⟨s', t', hst⟩ := h2 r hr
        exact ⟨m :: s', t', by simp [hst]⟩
    · have he' : excl m.id = false := by simpa using he
      simp only [he', Bool.false_eq_true, if_false]
      refine ⟨⟨t, by simp [← ht]⟩, ?_⟩
      intro r hr
      obtain ⟨s', t', hst⟩ := h2 r hr
      exact ⟨m :: s', t', by simp [hst]⟩

theorem exclScan_infix (excl : Excl) (p r : List Meta) (h : exclScan excl p = some r) : Infix r p := by
  obtain ⟨⟨t, ht⟩, h2⟩ := scan_infix excl p
  unfold exclScan at h
  by_cases hl : (scan excl p).1.length > 1
  · simp only [hl, if_true, Option.some.injEq] at h
    subst h
    exact ⟨[], t, by simpa using ht⟩
  · simp only [hl, if_false] at h
    exact h2 r h

theorem split_infix (tr : Int) : ∀ (ms : List Meta) (st : Option Int),
    (∃ t, ms = (split tr st ms).1 ++ t) ∧ ∀ g ∈ (split tr st ms).2, Infix g ms
  | [], st => by simp [split]
  | m :: rest, st => by
    have ih := split_infix tr rest
    have hfresh : ∀ (fr : List Meta × List (List Meta)),
        fr = (if m.max > rangeStart tr m.min + tr then ([], (split tr none rest).2)
              else ([], (m :: (split tr (some (rangeStart tr m.min + tr)) rest).1) ::
                        (split tr (some (rangeStart tr m.min + tr)) rest).2)) →
        (∃ t, m :: rest = fr.1 ++ t) ∧ ∀ g ∈ fr.2, Infix g (m :: rest) := by
      intro fr hfr
      subst hfr
      by_cases h : m.max > rangeStart tr m.min + tr
      · simp only [h, if_true]
        refine ⟨⟨m :: rest, by simp⟩, ?_⟩
        intro g hg
        obtain ⟨s', t', hst⟩ := (ih none).2 g hg
        exact ⟨m :: s', t', by simp [hst]⟩
      · simp only [h, if_false]
        refine ⟨⟨m :: rest, by simp⟩, ?_⟩
        intro g hg
        rcases List.mem_cons.mp hg with rfl | hg
        · obtain ⟨t, ht⟩ := (ih (some (rangeStart tr m.min + tr))).1
          exact ⟨[], t, by simp [← ht]⟩
        · obtain ⟨s', t', hst⟩ := (ih _).2 g hg
          exact ⟨m :: s', t', by simp [hst]⟩
    unfold split
    cases st with
    | none => exact hfresh _ rfl
    | some hi =>
      simp only
      by_cases h : m.max > hi
      · simp only [h, if_true]
        exact hfresh _ rfl
      · simp only [h, if_false]
        obtain ⟨t, ht⟩ := (ih (some hi)).1
        refine ⟨⟨t, by simp [← ht]⟩, ?_⟩
        intro g hg
        obtain ⟨s', t', hst⟩ := (ih _).2 g hg
        exact ⟨m :: s', t', by simp [hst]⟩

theorem pickRange_infix (excl : Excl) (hi : Int) (ms : List Meta) : ∀ (ivs : List Int) (r : List Meta),
    pickRange excl hi ms ivs = some r → r ≠ [] → Infix r ms
  | [], r, h, hne => by simp [pickRange] at h; exact absurd h hne
  | iv :: ivs, r, h, hne => by
    unfold pickRange at h
    split at h
    · simp at h
    · split at h
      · rename_i r' hr'
        simp only [Option.some.injEq] at h
        subst h
        obtain ⟨p, hp, hsc⟩ := pickPart_spec excl hi iv _ _ hr'
        exact (exclScan_infix excl p r' hsc).trans ((split_infix iv ms none).2 p hp)
      · exact pickRange_infix excl hi ms ivs r h hne

theorem selectMetas_infix (ranges : List Int) (excl : Excl) (ms r : List Meta)
    (h : selectMetas ranges excl ms = some r) (hne : r ≠ []) : Infix r ms := by
  unfold selectMetas at h
  split at h
  · simp at h; exact absurd h hne
  · split at h
    · simp at h; exact absurd h hne
    · exact pickRange_infix excl _ ms _ r h hne

theorem infix_dropLast {p ms : List Meta} (h : Infix p ms.dropLast) : Infix p ms := by
  obtain ⟨s, t, hst⟩ := h
  refine ⟨s, t ++ ms.drop (ms.length - 1), ?_⟩
  have h := (List.take_append_drop (ms.length - 1) ms).symm
  rw [← List.dropLast_eq_take, hst] at h
  calc ms = s ++ p ++ t ++ List.drop (ms.length - 1) ms := h
    _ = s ++ p ++ (t ++ List.drop (ms.length - 1) ms) := by simp [List.append_assoc]

/-! ### the hull of a plan -/

theorem minOf_spec : ∀ (ms : List Meta) (a : Int),
    minOf ms a ≤ a ∧ (minOf ms a = a ∨ ∃ b ∈ ms, minOf ms a = b.min)
  | [], a => by simp [minOf]
  | m :: ms, a => by
    unfold minOf
    by_cases hlt : m.min < a
    · simp only [hlt, if_true]
      obtain ⟨h1, h2⟩ := minOf_spec ms m.min
      refine ⟨by omega, ?_⟩
      rcases h2 with h2 | ⟨b, hb, h2⟩
      · exact Or.inr ⟨m, by simp, h2⟩
      · exact Or.inr ⟨b, List.mem_cons_of_mem _ hb, h2⟩
    · simp only [hlt, if_false]
      obtain ⟨h1, h2⟩ := minOf_spec ms a
      refine ⟨h1, ?_⟩
      rcases h2 with h2 | ⟨b, hb, h2⟩
      · exact Or.inl h2
      · exact Or.inr ⟨b, List.mem_cons_of_mem _ hb, h2⟩

theorem maxOf_spec : ∀ (ms : List Meta) (a : Int),
    a ≤ maxOf ms a ∧ (maxOf ms a = a ∨ ∃ b ∈ ms, maxOf ms a = b.max)
  | [], a => by simp [maxOf]
  | m :: ms, a => by
    unfold maxOf
    by_cases hlt : m.max > a
    · simp only [hlt, if_true]
      obtain ⟨h1, h2⟩ := maxOf_spec ms m.max
      refine ⟨by omega, ?_⟩
      rcases h2 with h2 | ⟨b, hb, h2⟩
      · exact Or.inr ⟨m, by simp, h2⟩
      · exact Or.inr ⟨b, List.mem_cons_of_mem _ hb, h2⟩
    · simp only [hlt, if_false]
      obtain ⟨h1, h2⟩ := maxOf_spec ms a
      refine ⟨h1, ?_⟩
      rcases h2 with h2 | ⟨b, hb, h2⟩
      · exact Or.inl h2
      · exact Or.inr ⟨b, List.mem_cons_of_mem _ hb, h2⟩

/-- the compacted block starts where one of its sources starts, ends where one of them ends, and
    contains the first source -/
theorem hull_spec (newId : Nat) (m : Meta) (ms : List Meta) :
    (∃ a ∈ m :: ms, (hull newId (m :: ms)).min = a.min) ∧ (∃ b ∈ m :: ms, (hull newId (m :: ms)).max = b.max) ∧
    (hull newId (m :: ms)).min ≤ m.min ∧ m.max ≤ (hull newId (m :: ms)).max := by
  obtain ⟨h1, h2⟩ := minOf_spec ms m.min
  obtain ⟨h3, h4⟩ := maxOf_spec ms m.max
  refine ⟨?_, ?_, h1, h3⟩
  · rcases h2 with h2 | ⟨b, hb, h2⟩
    · exact ⟨m, by simp, h2⟩
    · exact ⟨b, List.mem_cons_of_mem _ hb, h2⟩
  · rcases h4 with h4 | ⟨b, hb, h4⟩
    · exact ⟨m, by simp, h4⟩
    · exact ⟨b, List.mem_cons_of_mem _ hb, h4⟩

theorem mem_insertByMin {b c : Meta} : ∀ {l : List Meta}, c ∈ insertByMin b l ↔ c = b ∨ c ∈ l
  | [] => by simp [insertByMin]
  | m :: l => by
    unfold insertByMin
    split
    · simp
    · simp only [List.mem_cons, mem_insertByMin (l := l)]
      constructor
      · rintro (h | h | h) <;> simp [h]
      · rintro (h | h | h) <;> simp [h]

end Thanos.Planner

namespace Thanos.Planner

/-! ### the loops of the two wrapping planners terminate -/

theorem countP_lt_of_imp' {α : Type} (p q : α → Bool) : ∀ (l : List α) (u : α),
    (∀ w ∈ l, p w = true → q w = true) → u ∈ l → q u = true → p u = false → l.countP p < l.countP q
  | [], u, _, hu, _, _ => by simp at hu
  | a :: l, u, himp, hu, hq, hp => by
    have hmono : l.countP p ≤ l.countP q :=
      List.countP_mono_left (fun w hw h => himp w (List.mem_cons_of_mem _ hw) h)
    rcases List.mem_cons.mp hu with rfl | hu'
    · simp [hq, hp]; omega
    · have ih := countP_lt_of_imp' p q l u (fun w hw => himp w (List.mem_cons_of_mem _ hw)) hu' hq hp
      have ha := himp a (by simp)
      simp only [List.countP_cons]
      cases hpa : p a <;> cases hqa : q a <;> simp <;> first | omega | (simp [hpa, hqa] at ha)

/-- the block the size loop decides to mark is a block of the plan it scanned -/
theorem sizeScan_mem (limit : Int) : ∀ (p : List Meta) (total : Int) (mx : Option Int) (big : Option Meta) (b : Meta),
    sizeScan limit p total mx big = some b → b ∈ p ∨ big = some b
  | [], _, _, _, _, h => by simp [sizeScan] at h
  | m :: rest, total, mx, big, b, h => by
    unfold sizeScan at h
    cases mx with
    | none =>
      simp only at h
      split at h
      · simp only [Option.some.injEq] at h; subst h; exact Or.inl (by simp)
      · rcases sizeScan_mem limit rest _ _ _ b h with h' | h'
        · exact Or.inl (List.mem_cons_of_mem _ h')
        · simp only [Option.some.injEq] at h'; subst h'; exact Or.inl (by simp)
    | some s =>
      simp only at h
      by_cases hs : s < m.isize
      · simp only [hs, if_true] at h
        split at h
        · simp only [Option.some.injEq] at h; subst h; exact Or.inl (by simp)
        · rcases sizeScan_mem limit rest _ _ _ b h with h' | h'
          · exact Or.inl (List.mem_cons_of_mem _ h')
          · simp only [Option.some.injEq] at h'; subst h'; exact Or.inl (by simp)
      · simp only [hs, if_false] at h
        split at h
        · exact Or.inr h
        · rcases sizeScan_mem limit rest _ _ _ b h with h' | h'
          · exact Or.inl (List.mem_cons_of_mem _ h')
          · exact Or.inr h'

/-- the blocks of the group that are not (yet) excluded: what every round of the size loop decreases -/
def free (excl : Excl) (ms : List Meta) : Nat := ms.countP (fun m => !excl m.id)

theorem free_lt_of_mark (excl : Excl) (ms : List Meta) (b : Meta) (hb : b ∈ ms) (he : excl b.id = false) :
    free (fun i => i = b.id || excl i) ms < free excl ms := by
  unfold free
  apply countP_lt_of_imp' _ _ ms b
  · intro w _ hw
    simp only [Bool.not_eq_true', Bool.or_eq_false_iff, decide_eq_false_iff_not] at hw
    simp [hw.2]
  · exact hb
  · simp [he]
  · simp

end Thanos.Planner
