import Thanos.Model.Merge
import Thanos.Lemmas.Order
import Thanos.Lemmas.Proxy
import Thanos.Lemmas.DedupOnce
/-
  The specification of the k-way merge as a relation: the output is produced by repeatedly
  removing, from the heads of the streams, a head that no other head has to precede.
  "Has to precede" is the weak order `frameLe` the comparator of `NewProxyResponseLoserTree` refines:
  every non-series response before every series, series by `labels.Compare`.
-/
namespace Thanos.Merge

/-- `x` may be emitted while `y` is still a head -/
def frameLe : Frame → Frame → Prop
  | .series a, .series b => lblLe a.lbls b.lbls
  | .series _, _ => False
  | _, _ => True

inductive IsKMerge : List (List Frame) → List Frame → Prop
  | nil {ss : List (List Frame)} : (∀ s ∈ ss, s = []) → IsKMerge ss []
  | cons {ss : List (List Frame)} {out : List Frame} (i : Nat) (x : Frame) (rest : List Frame) :
      ss[i]? = some (x :: rest) →
      (∀ (j : Nat) (y : Frame) (r : List Frame), ss[j]? = some (y :: r) → frameLe x y) →
      IsKMerge (ss.set i rest) out → IsKMerge ss (x :: out)

theorem mem_set_iff {α : Type} (ss : List (List α)) (i : Nat) (x : α) (rest : List α)
    (h : ss[i]? = some (x :: rest)) (z : α) :
    (∃ s ∈ ss, z ∈ s) ↔ z = x ∨ ∃ s ∈ ss.set i rest, z ∈ s := by
  have hi : i < ss.length := by
    rcases Nat.lt_or_ge i ss.length with h' | h'
    · exact h'
    · rw [List.getElem?_eq_none h'] at h; simp at h
  constructor
  · rintro ⟨s, hs, hz⟩
    obtain ⟨j, hj, rfl⟩ := List.getElem_of_mem hs
    by_cases hji : j = i
    · subst hji
      have : ss[j] = x :: rest := by
        have := List.getElem?_eq_getElem hj
        rw [this] at h; exact Option.some.inj h
      rw [this] at hz
      simp only [List.mem_cons] at hz
      rcases hz with rfl | hz
      · exact Or.inl rfl
      · right
        refine ⟨rest, ?_, hz⟩
        exact List.mem_iff_getElem.mpr ⟨j, by simpa using hj, by simp⟩
    · right
      refine ⟨ss[j], ?_, hz⟩
      refine List.mem_iff_getElem.mpr ⟨j, by simpa using hj, ?_⟩
      rw [List.getElem_set_ne (fun e => hji e.symm)]
  · rintro (hzx | ⟨s, hs, hz⟩)
    · exact ⟨x :: rest, List.mem_of_getElem? h, by simp [hzx]⟩
    · obtain ⟨j, hj, rfl⟩ := List.getElem_of_mem hs
      have hj' : j < ss.length := by simpa using hj
      by_cases hji : j = i
      · subst hji
        rw [List.getElem_set_self] at hz
        exact ⟨x :: rest, List.mem_of_getElem? h, List.mem_cons_of_mem _ hz⟩
      · rw [List.getElem_set_ne (fun e => hji e.symm)] at hz
        exact ⟨ss[j], List.getElem_mem hj', hz⟩

/-- a k-way merge neither loses nor invents responses -/
theorem IsKMerge.mem {ss : List (List Frame)} {out : List Frame} (h : IsKMerge ss out) :
    ∀ z, z ∈ out ↔ ∃ s ∈ ss, z ∈ s := by
  induction h with
  | nil hall =>
    intro z
    simp only [List.not_mem_nil, false_iff, not_exists, not_and]
    intro s hs hz
    rw [hall s hs] at hz; simp at hz
  | cons i x rest hget _ _ ih =>
    intro z
    rw [mem_set_iff _ i x rest hget z, List.mem_cons, ih z]

/-- the series of a stream are label-sorted (non-series responses anywhere) -/
def StreamSorted (s : List Frame) : Prop := SortedSeries s

theorem streamSorted_tail {x : Frame} {rest : List Frame} (h : StreamSorted (x :: rest)) : StreamSorted rest := by
  unfold StreamSorted SortedSeries at *
  cases x with
  | series t => rw [seriesOf_cons_series] at h; exact (List.pairwise_cons.mp h).2
  | warning m => simpa [seriesOf] using h
  | hints m => simpa [seriesOf] using h
  | batch b => simpa [seriesOf] using h

/-- **k-merge, sortedness.**  Any k-way merge of streams whose series are label-sorted lists the
    series label-sorted — for every number of streams and every length, with warnings / hints
    interleaved anywhere (e.g. the warning a failing store ends with). -/
theorem IsKMerge.sorted {ss : List (List Frame)} {out : List Frame} (h : IsKMerge ss out) :
    (∀ s ∈ ss, StreamSorted s) → SortedSeries out := by
  induction h with
  | nil _ => intro _; simp [SortedSeries, seriesOf]
  | @cons ss out i x rest hget hmin hrec ih =>
    intro hss
    have hi : i < ss.length := by
      rcases Nat.lt_or_ge i ss.length with h' | h'
      · exact h'
      · rw [List.getElem?_eq_none h'] at hget; simp at hget
    have hxs : StreamSorted (x :: rest) := hss _ (List.mem_of_getElem? hget)
    have hss' : ∀ s ∈ ss.set i rest, StreamSorted s := by
      intro s hs
      obtain ⟨j, hj, rfl⟩ := List.getElem_of_mem hs
      by_cases hji : j = i
      · subst hji
        rw [List.getElem_set_self]
        exact streamSorted_tail hxs
      · rw [List.getElem_set_ne (fun e => hji e.symm)]
        exact hss _ (List.getElem_mem (by simpa using hj))
    have ih' := ih hss'
    cases x with
    | warning m => simpa [SortedSeries, seriesOf] using ih'
    | hints m => simpa [SortedSeries, seriesOf] using ih'
    | batch b => simpa [SortedSeries, seriesOf] using ih'
    | series e =>
      unfold SortedSeries at ih' ⊢
      rw [seriesOf_cons_series]
      refine List.pairwise_cons.mpr ⟨?_, ih'⟩
      intro o ho
      have hom : Frame.series o ∈ out := mem_seriesOf.mp ho
      obtain ⟨s, hs, hos⟩ := (hrec.mem _).mp hom
      obtain ⟨j, hj, rfl⟩ := List.getElem_of_mem hs
      have hj' : j < ss.length := by simpa using hj
      by_cases hji : j = i
      · subst hji
        rw [List.getElem_set_self] at hos
        have := hxs
        unfold StreamSorted SortedSeries at this
        rw [seriesOf_cons_series] at this
        exact (List.pairwise_cons.mp this).1 o (mem_seriesOf.mpr hos)
      · rw [List.getElem_set_ne (fun e => hji e.symm)] at hos
        -- stream j is non-empty: its head is a series ≥ e, and o is that head or comes after it
        cases hsj : ss[j] with
        | nil => rw [hsj] at hos; simp at hos
        | cons y r =>
          have hgetj : ss[j]? = some (y :: r) := by rw [List.getElem?_eq_getElem hj', hsj]
          have hle := hmin j y r hgetj
          have hsorted : StreamSorted (y :: r) := by
            have := hss _ (List.getElem_mem hj'); rwa [hsj] at this
          cases y with
          | warning m => simp [frameLe] at hle
          | hints m => simp [frameLe] at hle
          | batch b => simp [frameLe] at hle
          | series t =>
            simp only [frameLe] at hle
            rw [hsj] at hos
            simp only [List.mem_cons, Frame.series.injEq] at hos
            rcases hos with rfl | hos
            · exact hle
            · unfold StreamSorted SortedSeries at hsorted
              rw [seriesOf_cons_series] at hsorted
              exact lblLe_trans hle ((List.pairwise_cons.mp hsorted).1 o (mem_seriesOf.mpr hos))

end Thanos.Merge
