import Thanos.Model.ReaderPool
/-
  The bookkeeping invariant of the reader pool and its preservation by every operation.
-/
namespace Thanos.ReaderPool

theorem modify_length (rs : List Rd) (i : Nat) (f : Rd → Rd) : (modify rs i f).length = rs.length := by
  unfold modify; split <;> simp

theorem sweepFrom_length (p : Pool) : ∀ (j : Nat) (rs : List Rd), (sweepFrom p j rs).length = rs.length
  | _, [] => rfl
  | j, r :: rs => by simp [sweepFrom, sweepFrom_length p (j + 1) rs]

theorem sweepFrom_get (p : Pool) : ∀ (j : Nat) (rs : List Rd) (k : Nat) (r : Rd), rs[k]? = some r →
    (sweepFrom p j rs)[k]? = some (if idle p (j + k) r then { r with loaded := false } else r)
  | _, [], k, r, h => by simp at h
  | j, x :: rs, 0, r, h => by
    simp at h; subst h; simp [sweepFrom]
  | j, x :: rs, k + 1, r, h => by
    simp only [List.getElem?_cons_succ] at h
    have := sweepFrom_get p (j + 1) rs k r h
    simp only [sweepFrom, List.getElem?_cons_succ]
    rw [this]
    have : j + 1 + k = j + (k + 1) := by omega
    rw [this]

theorem mem_delete (i j : Nat) (l : List Nat) : j ∈ delete i l ↔ j ∈ l ∧ j ≠ i := by
  simp [delete]

theorem step_close_none (p : Pool) (i : Nat) (h : p.readers[i]? = none) : step p (.close i) = p := by
  simp [step, h]

theorem step_close_some (p : Pool) (i : Nat) (r : Rd) (h : p.readers[i]? = some r) :
    step p (.close i) =
      { p with readers := p.readers.set i { r with loaded := false },
               unloads := if r.loaded then p.unloads + 1 else p.unloads,
               tracked := delete i p.tracked,
               removals := if p.tracked.contains i then p.removals ++ [i] else p.removals } := by
  simp [step, h]

structure PInv (p : Pool) : Prop where
  nodup : p.tracked.Nodup
  inRange : ∀ i, i ∈ p.tracked → i < p.readers.length
  remNodup : p.removals.Nodup
  remRange : ∀ i, i ∈ p.removals → i < p.readers.length
  disjoint : ∀ i, i ∈ p.removals → i ∉ p.tracked
  cover : p.tracking = true → ∀ i, i < p.readers.length → i ∈ p.tracked ∨ i ∈ p.removals
  off : p.tracking = false → p.tracked = [] ∧ p.removals = []

theorem pinv_init (t : Bool) : PInv (init t) :=
  ⟨by simp [init], by simp [init], by simp [init], by simp [init], by simp [init],
   by simp [init], by simp [init]⟩

/-- operations that neither touch the map nor the number of readers -/
theorem pinv_same {p p' : Pool} (h : PInv p) (ht : p'.tracked = p.tracked) (hr : p'.removals = p.removals)
    (hl : p'.readers.length = p.readers.length) (hk : p'.tracking = p.tracking) : PInv p' :=
  ⟨by rw [ht]; exact h.nodup, by rw [ht, hl]; exact h.inRange, by rw [hr]; exact h.remNodup,
   by rw [hr, hl]; exact h.remRange, by rw [hr, ht]; exact h.disjoint,
   by rw [hk, hl, ht, hr]; exact h.cover, by rw [hk, ht, hr]; exact h.off⟩

theorem pinv_step {p : Pool} (h : PInv p) (o : Op) : PInv (step p o) := by
  cases o with
  | use i => exact pinv_same h rfl rfl (modify_length _ _ _) rfl
  | age i => exact pinv_same h rfl rfl (modify_length _ _ _) rfl
  | sweep => exact pinv_same h rfl rfl (sweepFrom_length _ _ _) rfl
  | new =>
    have hfresh : p.readers.length ∉ p.tracked := fun hm => Nat.lt_irrefl _ (h.inRange _ hm)
    cases ht : p.tracking with
    | false =>
      have ho := h.off ht
      refine ⟨?_, ?_, ?_, ?_, ?_, ?_, ?_⟩ <;> simp [step, ht, ho.1, ho.2]
    | true =>
      have hins : insert p.readers.length p.tracked = p.readers.length :: p.tracked := by
        unfold insert
        simp [hfresh]
      refine ⟨?_, ?_, ?_, ?_, ?_, ?_, ?_⟩
      · simp only [step, ht, if_true, hins]
        exact List.nodup_cons.mpr ⟨hfresh, h.nodup⟩
      · intro i hi
        simp only [step, ht, if_true, hins, List.mem_cons, List.length_append, List.length_cons,
          List.length_nil] at hi ⊢
        rcases hi with rfl | hi
        · omega
        · have := h.inRange i hi; omega
      · exact h.remNodup
      · intro i hi
        have := h.remRange i hi
        simp only [step, List.length_append, List.length_cons, List.length_nil]
        omega
      · intro i hi
        simp only [step, ht, if_true, hins, List.mem_cons, not_or]
        have h1 := h.remRange i hi
        exact ⟨by omega, h.disjoint i hi⟩
      · intro _ i hi
        simp only [step, ht, if_true, hins, List.mem_cons, List.length_append, List.length_cons,
          List.length_nil] at hi ⊢
        by_cases hlast : i = p.readers.length
        · exact Or.inl (Or.inl hlast)
        · rcases h.cover ht i (by omega) with hc | hc
          · exact Or.inl (Or.inr hc)
          · exact Or.inr hc
      · intro hf; simp [step, ht] at hf
  | close i =>
    cases hr : p.readers[i]? with
    | none => rw [step_close_none p i hr]; exact h
    | some r =>
      rw [step_close_some p i r hr]
      have hi : i < p.readers.length := by
        rcases Nat.lt_or_ge i p.readers.length with hlt | hge
        · exact hlt
        · rw [List.getElem?_eq_none hge] at hr; cases hr
      refine ⟨?_, ?_, ?_, ?_, ?_, ?_, ?_⟩
      · exact List.Pairwise.filter _ h.nodup
      · intro j hj
        simp only [List.length_set]
        exact h.inRange j ((mem_delete i j _).mp hj).1
      · by_cases hc : p.tracked.contains i = true
        · simp only [hc, if_true]
          have hni : i ∉ p.removals := fun hm => h.disjoint i hm (by simpa using hc)
          refine List.nodup_append.mpr ⟨h.remNodup, by simp, ?_⟩
          intro a ha b hb
          simp only [List.mem_singleton] at hb
          subst hb
          intro hab; subst hab; exact hni ha
        · simp only [hc, if_false, Bool.false_eq_true]; exact h.remNodup
      · intro j hj
        simp only [List.length_set]
        by_cases hc : p.tracked.contains i = true
        · simp only [hc, if_true, List.mem_append, List.mem_singleton] at hj
          rcases hj with hj | rfl
          · exact h.remRange j hj
          · exact hi
        · simp only [hc, if_false, Bool.false_eq_true] at hj; exact h.remRange j hj
      · intro j hj hd
        have hd' := (mem_delete i j _).mp hd
        by_cases hc : p.tracked.contains i = true
        · simp only [hc, if_true, List.mem_append, List.mem_singleton] at hj
          rcases hj with hj | rfl
          · exact h.disjoint j hj hd'.1
          · exact hd'.2 rfl
        · simp only [hc, if_false, Bool.false_eq_true] at hj; exact h.disjoint j hj hd'.1
      · intro ht j hj
        simp only [List.length_set] at hj
        rcases h.cover ht j hj with hc | hc
        · by_cases hji : j = i
          · subst hji
            right; show j ∈ (if p.tracked.contains j = true then p.removals ++ [j] else p.removals)
            rw [if_pos (by simpa using hc)]; simp
          · left; exact (mem_delete i j _).mpr ⟨hc, hji⟩
        · right
          by_cases hc' : p.tracked.contains i = true
          · show j ∈ (if p.tracked.contains i = true then p.removals ++ [i] else p.removals)
            rw [if_pos hc']; exact List.mem_append_left _ hc
          · show j ∈ (if p.tracked.contains i = true then p.removals ++ [i] else p.removals)
            rw [if_neg hc']; exact hc
      · intro hf
        have ho := h.off hf
        simp [ho.1, ho.2, delete]

theorem pinv_run {p : Pool} (h : PInv p) : ∀ (ops : List Op), PInv (run p ops)
  | [] => h
  | o :: os => pinv_run (pinv_step h o) os

theorem removals_mono (p : Pool) (o : Op) (i : Nat) (h : i ∈ p.removals) : i ∈ (step p o).removals := by
  cases o with
  | new => exact h
  | use j => exact h
  | age j => exact h
  | sweep => exact h
  | close j =>
    cases hr : p.readers[j]? with
    | none => rw [step_close_none p j hr]; exact h
    | some r =>
      rw [step_close_some p j r hr]
      show i ∈ (if p.tracked.contains j = true then p.removals ++ [j] else p.removals)
      split
      · exact List.mem_append_left _ h
      · exact h

theorem removals_mono_run : ∀ (ops : List Op) (p : Pool) (i : Nat), i ∈ p.removals → i ∈ (run p ops).removals
  | [], _, _, h => h
  | o :: os, p, i, h => removals_mono_run os (step p o) i (removals_mono p o i h)

theorem tracking_step (p : Pool) (o : Op) : (step p o).tracking = p.tracking := by
  cases o with
  | new => rfl
  | use j => rfl
  | age j => rfl
  | sweep => rfl
  | close j =>
    cases hr : p.readers[j]? with
    | none => rw [step_close_none p j hr]
    | some r => rw [step_close_some p j r hr]

theorem tracking_run : ∀ (ops : List Op) (p : Pool), (run p ops).tracking = p.tracking
  | [], _ => rfl
  | o :: os, p => (tracking_run os (step p o)).trans (tracking_step p o)

/-- after `Close` of an existing reader of a sweeping pool, the removal is on record -/
theorem close_recorded {p : Pool} (h : PInv p) (ht : p.tracking = true) (i : Nat) (hi : i < p.readers.length) :
    i ∈ (step p (.close i)).removals := by
  cases hr : p.readers[i]? with
  | none => rw [List.getElem?_eq_none_iff] at hr; omega
  | some r =>
    rw [step_close_some p i r hr]
    show i ∈ (if p.tracked.contains i = true then p.removals ++ [i] else p.removals)
    rcases h.cover ht i hi with hc | hc
    · rw [if_pos (by simpa using hc)]; simp
    · split
      · exact List.mem_append_left _ hc
      · exact hc

end Thanos.ReaderPool
