import Thanos.Model.ReadPath
import Thanos.Lemmas.ChunkMerge
/-
  C04 helper lemmas: `overlapSplit` (dedup.NewOverlapSplit).
-/
namespace Thanos.Dedup

/-- consecutive chunks of a row do not overlap and are ordered in time -/
def RowOK : List RChunk → Prop
  | a :: b :: r => a.maxt < b.mint ∧ RowOK (b :: r)
  | _ => True

theorem rowOK_append {row : List RChunk} {c : RChunk} (h : RowOK row)
    (hl : ∀ l, row.getLast? = some l → l.maxt < c.mint) : RowOK (row ++ [c]) := by
  induction row with
  | nil => trivial
  | cons a row ih =>
    cases row with
    | nil =>
      exact ⟨hl a rfl, trivial⟩
    | cons b r =>
      obtain ⟨h1, h2⟩ := h
      exact ⟨h1, ih h2 (fun l hl' => hl l (by simpa [List.getLast?_cons_cons] using hl'))⟩

theorem splitInsert_spec (c : RChunk) : ∀ (rows : List (List RChunk)),
    (∀ row ∈ rows, RowOK row ∧ row ≠ []) →
    (∀ row ∈ splitInsert c rows, RowOK row ∧ row ≠ []) ∧
    (splitInsert c rows).flatten.Perm (c :: rows.flatten) := by
  intro rows
  induction rows with
  | nil => intro _; exact ⟨by simp [splitInsert, RowOK], by simp [splitInsert]⟩
  | cons row rows ih =>
    intro h
    have hrow := h row (by simp)
    unfold splitInsert
    cases hl : row.getLast? with
    | none => exact absurd (List.getLast?_eq_none_iff.mp hl) hrow.2
    | some l =>
      simp only
      by_cases hlt : l.maxt < c.mint
      · simp only [hlt, if_true]
        refine ⟨?_, ?_⟩
        · intro r hr
          rcases List.mem_cons.mp hr with rfl | hr
          · exact ⟨rowOK_append hrow.1 (fun l' hl' => by rw [hl] at hl'; cases hl'; exact hlt), by simp⟩
          · exact h r (by simp [hr])
        · simp only [List.flatten_cons, List.append_assoc]
          exact (List.perm_middle (l₁ := row) (l₂ := rows.flatten) (a := c))
      · simp only [hlt, if_false]
        obtain ⟨ih1, ih2⟩ := ih (fun r hr => h r (by simp [hr]))
        refine ⟨?_, ?_⟩
        · intro r hr
          rcases List.mem_cons.mp hr with rfl | hr
          · exact hrow
          · exact ih1 r hr
        · simp only [List.flatten_cons]
          exact ((List.Perm.append_left row ih2).trans
            (List.perm_middle (l₁ := row) (l₂ := rows.flatten) (a := c)))

/-- **overlapSplit_partition.**  The rows ("virtual replicas") are non-empty, each one is ordered in
    time without overlaps, and together they hold exactly the input chunks. -/
theorem overlapSplit_partition (cs : List RChunk) :
    (∀ row ∈ overlapSplit cs, RowOK row ∧ row ≠ []) ∧ (overlapSplit cs).flatten.Perm cs := by
  unfold overlapSplit
  have key : ∀ (cs : List RChunk) (rows : List (List RChunk)), (∀ row ∈ rows, RowOK row ∧ row ≠ []) →
      (∀ row ∈ cs.foldl (fun rows c => splitInsert c rows) rows, RowOK row ∧ row ≠ []) ∧
      (cs.foldl (fun rows c => splitInsert c rows) rows).flatten.Perm (rows.flatten ++ cs) := by
    intro cs
    induction cs with
    | nil => intro rows h; exact ⟨h, by simp⟩
    | cons c cs ih =>
      intro rows h
      obtain ⟨s1, s2⟩ := splitInsert_spec c rows h
      obtain ⟨i1, i2⟩ := ih (splitInsert c rows) s1
      refine ⟨i1, i2.trans ?_⟩
      have : (c :: rows.flatten ++ cs).Perm (rows.flatten ++ c :: cs) := List.perm_middle.symm
      exact (List.Perm.append_right cs s2).trans this
  have := key cs [] (by simp)
  simpa using this

/-! ### query.chunkSeriesIterator: the union of a row of chunks -/

/-- timestamp of the last sample of the non-empty list `x :: r` -/
def lastOf (x : Sample) (r : List Sample) : Int := (r.getLast?.getD x).t

/-- what the iterator still yields from the later chunks `cs` when the last sample it has
    yielded has timestamp `last`: from every chunk the samples after `last` ("skip any
    overlapping range between adjacent chunks") -/
def unionFrom (last : Int) : List (List Sample) → List Sample
  | [] => []
  | c :: cs =>
    match dropLt (last + 1) c with
    | [] => unionFrom last cs
    | x :: r => (x :: r) ++ unionFrom (lastOf x r) cs

theorem dropLt_append_of_ne {t : Int} {a b : List Sample} (h : dropLt t a ≠ []) :
    dropLt t (a ++ b) = dropLt t a ++ b := by
  induction a with
  | nil => simp at h
  | cons x a ih =>
    by_cases hx : x.t < t
    · rw [List.cons_append, dropLt_cons_lt hx, ih (by rwa [dropLt_cons_lt hx] at h), dropLt_cons_lt hx]
    · rw [List.cons_append, dropLt_cons_ge (by omega), dropLt_cons_ge (by omega)]; rfl

theorem dropLt_append_of_nil {t : Int} {a b : List Sample} (h : dropLt t a = []) :
    dropLt t (a ++ b) = dropLt t b := by
  induction a with
  | nil => rfl
  | cons x a ih =>
    by_cases hx : x.t < t
    · rw [List.cons_append, dropLt_cons_lt hx]
      exact ih (by rwa [dropLt_cons_lt hx] at h)
    · rw [dropLt_cons_ge (by omega)] at h; simp at h

theorem all_lt_of_dropLt_nil {t : Int} {a : List Sample} (h : dropLt t a = []) : ∀ x ∈ a, x.t < t := by
  induction a with
  | nil => intro x hx; simp at hx
  | cons y a ih =>
    by_cases hy : y.t < t
    · rw [dropLt_cons_lt hy] at h
      intro x hx
      rcases List.mem_cons.mp hx with rfl | hx
      · exact hy
      · exact ih h x hx
    · rw [dropLt_cons_ge (by omega)] at h; simp at h

theorem getLast?_cons_getD : ∀ (l : List Sample) (a : Sample), (a :: l).getLast? = some (l.getLast?.getD a) := by
  intro l
  induction l with
  | nil => intro a; rfl
  | cons b l ih =>
    intro a
    rw [List.getLast?_cons_cons, ih b]
    cases hl : l.getLast? <;> simp

/-- the last timestamp of a non-empty suffix is the last timestamp of the list -/
theorem lastOf_suffix {x y : Sample} {r q : List Sample} (h : (y :: q) <:+ (x :: r)) :
    lastOf y q = lastOf x r := by
  obtain ⟨p, hp⟩ := h
  unfold lastOf
  have h1 : (x :: r).getLast? = (y :: q).getLast? := by
    rw [← hp, List.getLast?_append]
    cases hq : (y :: q).getLast? with
    | none => simp at hq
    | some z => rfl
  have e1 := getLast?_cons_getD
  rw [e1, e1] at h1
  simp only [Option.some.injEq] at h1
  rw [h1]

theorem dropLt_unionFrom {l T : Int} (h : l + 1 ≤ T) : ∀ (cs : List (List Sample)),
    dropLt T (unionFrom l cs) = unionFrom (T - 1) cs := by
  intro cs
  induction cs generalizing l with
  | nil => rfl
  | cons c cs ih =>
    have hT : T - 1 + 1 = T := by omega
    have hdd : dropLt T (dropLt (l + 1) c) = dropLt T c := by
      rw [dropLt_dropLt]; simp [h]
    simp only [unionFrom, hT]
    cases hc : dropLt (l + 1) c with
    | nil =>
      have : dropLt T c = [] := by rw [← hdd, hc]; rfl
      simp only [this]
      exact ih h
    | cons x r =>
      simp only
      rw [hc] at hdd
      cases hc2 : dropLt T c with
      | nil =>
        simp only
        rw [hc2] at hdd
        rw [dropLt_append_of_nil hdd]
        apply ih
        -- the last timestamp of the dropped part is below T
        have hall := all_lt_of_dropLt_nil hdd
        have : lastOf x r < T := by
          unfold lastOf
          cases hgl : r.getLast? with
          | none => exact hall x (by simp)
          | some z => exact hall z (by simp [List.mem_of_getLast? hgl])
        omega
      | cons y q =>
        simp only
        rw [hc2] at hdd
        rw [dropLt_append_of_ne (by rw [hdd]; simp), hdd]
        have hsuf : (y :: q) <:+ (x :: r) := by rw [← hdd]; exact dropLt_suffix _ _
        rw [lastOf_suffix hsuf]

/-- `A ++ (what follows A)` sought to `T` is the row `A :: cs` sought to `T` -/
theorem dropLt_chunk_union {x : Sample} {r : List Sample} {T : Int} (cs : List (List Sample)) :
    dropLt T ((x :: r) ++ unionFrom (lastOf x r) cs) = unionFrom (T - 1) ((x :: r) :: cs) := by
  have hT : T - 1 + 1 = T := by omega
  simp only [unionFrom, hT]
  cases hc : dropLt T (x :: r) with
  | nil =>
    simp only
    rw [dropLt_append_of_nil hc]
    apply dropLt_unionFrom
    have hall := all_lt_of_dropLt_nil hc
    have : lastOf x r < T := by
      unfold lastOf
      cases hgl : r.getLast? with
      | none => exact hall x (by simp)
      | some z => exact hall z (by simp [List.mem_of_getLast? hgl])
    omega
  | cons y q =>
    simp only
    rw [dropLt_append_of_ne (by rw [hc]; simp), hc]
    have hsuf : (y :: q) <:+ (x :: r) := by rw [← hc]; exact dropLt_suffix _ _
    rw [lastOf_suffix hsuf]

/-- the sample lists of the chunks not yet opened -/
def csRem (s : CS) : List (List Sample) := s.rest.map (·.rest)

/-- remaining samples of a started chunk-series iterator -/
def csAbs (s : CS) : List Sample :=
  if s.cur.done then [] else (s.cur.cur :: s.cur.rest) ++ unionFrom (lastOf s.cur.cur s.cur.rest) (csRem s)

def csMeasure (s : CS) : Nat := s.cur.rest.length + (s.rest.map fun c => c.rest.length + 1).sum

structure csV (s : CS) : Prop where
  nbad : s.bad = false
  started : s.cur.started = true
  doneRest : s.cur.done = true → s.rest = []
  fresh : ∀ c ∈ s.rest, c = XorIt.init c.rest ∧ c.rest ≠ [] ∧ ∀ x ∈ c.rest, 1 ≤ x.t
  pos : s.cur.done = false → 1 ≤ s.cur.cur.t ∧ ∀ x ∈ s.cur.rest, 1 ≤ x.t
  lv : s.cur.done = false → s.lastVal = true

theorem csAbs_of_not_done {s : CS} (h : s.cur.done = false) :
    csAbs s = (s.cur.cur :: s.cur.rest) ++ unionFrom (lastOf s.cur.cur s.cur.rest) (csRem s) := by
  simp [csAbs, h]

theorem csAbs_done {s : CS} (h : csAbs s = []) : s.cur.done = true := by
  cases hd : s.cur.done with
  | true => rfl
  | false => rw [csAbs_of_not_done hd] at h; simp at h

/-- neither `Next` nor `Seek` ever adds unread samples -/
theorem csRun_measure_le : ∀ (f : Nat) (mode : Bool) (T : Int) (s : CS),
    csMeasure (csRun f mode T s).1 ≤ csMeasure s := by
  intro f
  induction f with
  | zero => intro mode T s; simp [csRun, csMeasure]
  | succ f ih =>
    intro mode T s
    cases mode with
    | false =>
      unfold csRun
      simp only
      cases hr : s.cur.rest with
      | cons x r =>
        have hx : xorNext s.cur = ({ rest := r, cur := x, started := true, done := false }, true) := by
          simp [xorNext, hr]
        simp only [hx, if_true, csMeasure, hr, List.length_cons]
        omega
      | nil =>
        have hx : xorNext s.cur = ({ s.cur with done := true }, false) := by simp [xorNext, hr]
        simp only [hx, Bool.false_eq_true, if_false]
        cases hrest : s.rest with
        | nil => simp [csMeasure, hr, hrest]
        | cons c cs' =>
          simp only
          have := ih true (s.cur.cur.t + 1) { s with cur := c, rest := cs' }
          simp only [csMeasure, hr, hrest, List.map_cons, List.sum_cons, List.length_nil] at this ⊢
          omega
    | true =>
      unfold csRun
      by_cases hge : s.cur.cur.t ≥ T
      · simp [hge]
      · simp only [hge, if_false]
        have h1 := ih false 0 s
        by_cases hok : (csRun f false 0 s).2 = true
        · simp only [hok, if_true]
          exact Nat.le_trans (ih true T _) h1
        · simp only [hok, Bool.false_eq_true, if_false]
          exact h1

/-- **chunkIter_union.**  `Next` and `Seek` of `chunkSeriesIterator` (which call each other) on a
    positioned state: `tail` and `dropLt` of the union of the row. -/
theorem csRun_spec : ∀ (f : Nat) (s : CS), csV s → s.cur.done = false →
    (2 * csMeasure s + 1 ≤ f →
      csV (csRun f false 0 s).1 ∧ csAbs (csRun f false 0 s).1 = (csAbs s).tail ∧
      (csRun f false 0 s).2 = !(csAbs s).tail.isEmpty ∧
      ((csRun f false 0 s).2 = true → csMeasure (csRun f false 0 s).1 + 1 ≤ csMeasure s)) ∧
    (∀ T, 2 * csMeasure s + 2 ≤ f →
      csV (csRun f true T s).1 ∧ csAbs (csRun f true T s).1 = dropLt T (csAbs s) ∧
      (csRun f true T s).2 = !(dropLt T (csAbs s)).isEmpty) := by
  intro f
  induction f using Nat.strongRecOn with
  | _ f ih =>
  cases f with
  | zero =>
    intro s _ _
    exact ⟨fun h => (by omega), fun T h => (by omega)⟩
  | succ f =>
    intro s hV hd
    have habs := csAbs_of_not_done hd
    refine ⟨?_, ?_⟩
    · -- Next
      intro hf
      unfold csRun
      simp only
      cases hr : s.cur.rest with
      | cons x r =>
        -- the current chunk has another sample
        have hx : xorNext s.cur = ({ rest := r, cur := x, started := true, done := false }, true) := by
          simp [xorNext, hr]
        simp only [hx, if_true]
        have hp := hV.pos hd
        refine ⟨⟨hV.nbad, rfl, fun h => Bool.noConfusion h, hV.fresh,
          fun _ => ⟨hp.2 x (by rw [hr]; simp), fun y hy => hp.2 y (by rw [hr]; simp [hy])⟩, fun _ => rfl⟩,
          ?_, ?_, ?_⟩
        · rw [habs, hr]
          simp only [csAbs, Bool.false_eq_true, if_false, List.cons_append, List.tail_cons, csRem]
          have : lastOf x r = lastOf s.cur.cur (x :: r) := by
            unfold lastOf
            rw [getLast?_cons_getD r x]; rfl
          rw [this]
        · rw [habs, hr]; simp
        · intro _
          simp only [csMeasure, hr, List.length_cons]; omega
      | nil =>
        have hx : xorNext s.cur = ({ s.cur with done := true }, false) := by simp [xorNext, hr]
        simp only [hx, Bool.false_eq_true, if_false]
        cases hrest : s.rest with
        | nil =>
          simp only
          refine ⟨⟨hV.nbad, hV.started, fun _ => rfl, (by simp), fun h => Bool.noConfusion h,
            fun h => Bool.noConfusion h⟩, ?_, ?_, fun h => Bool.noConfusion h⟩
          · rw [habs, hr]; simp [csAbs, csRem, hrest, unionFrom]
          · rw [habs, hr]; simp [csRem, hrest, unionFrom]
        | cons c cs' =>
          simp only
          obtain ⟨hcf, hcne, hcpos⟩ := hV.fresh c (by rw [hrest]; simp)
          obtain ⟨x, r, hxr⟩ : ∃ x r, c.rest = x :: r := by
            cases hcr : c.rest with
            | nil => exact absurd hcr hcne
            | cons x r => exact ⟨x, r, rfl⟩
          have hp := hV.pos hd
          -- fuel: at least two more levels
          have hm : csMeasure s = (r.length + 2) + (cs'.map fun c => c.rest.length + 1).sum := by
            simp only [csMeasure, hr, hrest, List.map_cons, List.sum_cons, hxr, List.length_cons, List.length_nil]
            omega
          obtain ⟨f1, rfl⟩ : ∃ f1, f = f1 + 2 := ⟨f - 2, by omega⟩
          -- Seek(lastT+1) on the freshly opened chunk: its `t` is still 0, so it calls Next once
          have hc0 : c.cur.t = 0 := by rw [hcf]; rfl
          have hT : ¬ (c.cur.t ≥ s.cur.cur.t + 1) := by rw [hc0]; omega
          rw [csRun]
          simp only [hT, if_false]
          rw [csRun]
          have hxn : xorNext c = ({ rest := r, cur := x, started := true, done := false }, true) := by
            rw [hcf]; simp [xorNext, XorIt.init, hxr]
          simp only [hxn, if_true]
          -- now a positioned state on chunk c
          let s2 : CS := { cur := { rest := r, cur := x, started := true, done := false }, rest := cs',
                           lastVal := true, bad := s.bad }
          have hfresh2 : ∀ c' ∈ cs', c' = XorIt.init c'.rest ∧ c'.rest ≠ [] ∧ ∀ x ∈ c'.rest, 1 ≤ x.t := by
            intro c' hc'
            apply hV.fresh c'
            rw [hrest]
            exact List.mem_cons_of_mem _ hc'
          have hpos2 : 1 ≤ x.t ∧ ∀ y ∈ r, 1 ≤ y.t := by
            refine ⟨hcpos x (by rw [hxr]; simp), fun y hy => hcpos y ?_⟩
            rw [hxr]
            exact List.mem_cons_of_mem _ hy
          have hV2 : csV s2 := ⟨hV.nbad, rfl, fun h => Bool.noConfusion h, hfresh2, fun _ => hpos2, fun _ => rfl⟩
          have hm2 : csMeasure s2 + 2 = csMeasure s := by
            rw [hm]; simp only [csMeasure, s2]; omega
          obtain ⟨b1, b2, b3⟩ := (ih (f1 + 1) (by omega) s2 hV2 rfl).2 (s.cur.cur.t + 1) (by omega)
          have hs2abs : csAbs s2 = (x :: r) ++ unionFrom (lastOf x r) (cs'.map (·.rest)) := by
            simp [csAbs, csRem, s2]
          have htail : (csAbs s).tail = unionFrom (s.cur.cur.t + 1 - 1) ((x :: r) :: cs'.map (·.rest)) := by
            rw [habs, hr]
            simp only [List.cons_append, List.nil_append, List.tail_cons, csRem, hrest, List.map_cons, hxr]
            have : lastOf s.cur.cur [] = s.cur.cur.t + 1 - 1 := by simp [lastOf]
            rw [this]
          rw [hs2abs, dropLt_chunk_union] at b2 b3
          rw [← htail] at b2 b3
          refine ⟨b1, b2, b3, ?_⟩
          intro hok
          -- the measure after the seek is at most that of s2
          have hle := csRun_measure_le (f1 + 1) true (s.cur.cur.t + 1) s2
          show csMeasure (csRun (f1 + 1) true (s.cur.cur.t + 1) s2).1 + 1 ≤ csMeasure s
          omega
    · -- Seek T
      intro T hf
      unfold csRun
      by_cases hge : s.cur.cur.t ≥ T
      · simp only [hge, if_true]
        have hdl : dropLt T (csAbs s) = csAbs s := by
          rw [habs, List.cons_append]; exact dropLt_cons_ge hge
        rw [hdl]
        refine ⟨hV, rfl, ?_⟩
        rw [hV.lv hd, habs]; rfl
      · simp only [hge, if_false]
        have hlt : s.cur.cur.t < T := by omega
        obtain ⟨a1, a2, a3, a4⟩ := (ih f (by omega) s hV hd).1 (by omega)
        have hdl : dropLt T (csAbs s) = dropLt T (csAbs s).tail := by
          rw [habs, List.cons_append, dropLt_cons_lt hlt]; rfl
        rw [hdl]
        by_cases hok : (csRun f false 0 s).2 = true
        · simp only [hok, if_true]
          have hne : csAbs (csRun f false 0 s).1 ≠ [] := by
            rw [a2]; intro h; rw [a3, h] at hok; simp at hok
          have hd' : (csRun f false 0 s).1.cur.done = false := by
            cases h : (csRun f false 0 s).1.cur.done with
            | false => rfl
            | true => exact absurd (by simp [csAbs, h]) hne
          let s1 : CS := { (csRun f false 0 s).1 with lastVal := true }
          have hV1 : csV s1 := ⟨a1.nbad, a1.started, a1.doneRest, a1.fresh, a1.pos, fun _ => rfl⟩
          have hm1 := a4 hok
          have habs1 : csAbs s1 = csAbs (csRun f false 0 s).1 := rfl
          have hmeas1 : csMeasure s1 = csMeasure (csRun f false 0 s).1 := rfl
          obtain ⟨b1, b2, b3⟩ := (ih f (by omega) s1 hV1 hd').2 T (by omega)
          rw [habs1, a2] at b2 b3
          exact ⟨b1, b2, b3⟩
        · simp only [hok, Bool.false_eq_true, if_false]
          have he : (csAbs s).tail = [] := by
            cases h : (csAbs s).tail with
            | nil => rfl
            | cons y l => rw [a3, h] at hok; simp at hok
          have hdone := csAbs_done (by rw [a2]; exact he)
          have hnd : ∀ {P : Prop}, (csRun f false 0 s).1.cur.done = false → P := by
            intro P h; rw [hdone] at h; exact Bool.noConfusion h
          refine ⟨⟨a1.nbad, a1.started, a1.doneRest, a1.fresh, fun h => hnd h, fun h => hnd h⟩, ?_,
            (by simp [he])⟩
          rw [he]
          simp [csAbs, hdone]

theorem mem_unionFrom {l : Int} {cs : List (List Sample)} {z : Sample} :
    z ∈ unionFrom l cs → ∃ c ∈ cs, z ∈ c := by
  induction cs generalizing l with
  | nil => intro h; simp [unionFrom] at h
  | cons c cs ih =>
    intro h
    simp only [unionFrom] at h
    cases hc : dropLt (l + 1) c with
    | nil =>
      rw [hc] at h
      obtain ⟨c', hc', hz⟩ := ih h
      exact ⟨c', by simp [hc'], hz⟩
    | cons x r =>
      rw [hc] at h
      simp only at h
      rcases List.mem_append.mp h with h | h
      · exact ⟨c, by simp, mem_of_mem_dropLt (by rw [hc]; exact h)⟩
      · obtain ⟨c', hc', hz⟩ := ih h
        exact ⟨c', by simp [hc'], hz⟩

theorem unionFrom_length_le (l : Int) (cs : List (List Sample)) :
    (unionFrom l cs).length ≤ (cs.map List.length).sum := by
  induction cs generalizing l with
  | nil => simp [unionFrom]
  | cons c cs ih =>
    simp only [unionFrom, List.map_cons, List.sum_cons]
    have hd := dropLt_length_le (l + 1) c
    cases hc : dropLt (l + 1) c with
    | nil => have := ih l; simp only; omega
    | cons x r =>
      rw [hc] at hd
      have := ih (lastOf x r)
      simp only [List.length_append]
      omega

/-- each chunk time-sorted ⇒ the union is strictly increasing and lies after `l` -/
theorem unionFrom_sorted {l : Int} {cs : List (List Sample)} (h : ∀ c ∈ cs, SSorted c) :
    SSorted (unionFrom l cs) ∧ ∀ z ∈ unionFrom l cs, l < z.t := by
  induction cs generalizing l with
  | nil => simp [unionFrom, SSorted]
  | cons c cs ih =>
    simp only [unionFrom]
    have hsc := h c (by simp)
    cases hc : dropLt (l + 1) c with
    | nil => exact ih (fun c' hc' => h c' (by simp [hc']))
    | cons x r =>
      simp only
      have hs : SSorted (x :: r) := by rw [← hc]; exact ssorted_dropLt _ hsc
      have hx : l + 1 ≤ x.t := head_dropLt_ge (by rw [hc]; rfl)
      obtain ⟨i1, i2⟩ := ih (l := lastOf x r) (fun c' hc' => h c' (by simp [hc']))
      -- every element of x :: r is ≤ lastOf x r and > l
      have hb : ∀ z ∈ x :: r, l < z.t ∧ z.t ≤ lastOf x r := by
        intro z hz
        have hl : (x :: r).getLast? = some (r.getLast?.getD x) := getLast?_cons_getD r x
        have := ssorted_bounds hs rfl hl z hz
        unfold lastOf
        omega
      refine ⟨?_, ?_⟩
      · apply List.pairwise_append.mpr
        refine ⟨hs, i1, ?_⟩
        intro a ha b hb'
        have := (hb a ha).2
        have := i2 b hb'
        omega
      · intro z hz
        rcases List.mem_append.mp hz with hz | hz
        · exact (hb z hz).1
        · have h1 := i2 z hz
          have h2 := (hb x (by simp))
          omega

@[simp] theorem csOps_next (s : CS) : csOps.next s = csRun (csFuel s) false 0 s := rfl
@[simp] theorem csOps_seek (t : Int) (s : CS) : csOps.seek t s = csRun (csFuel s) true t s := rfl
@[simp] theorem csOps_atS (s : CS) : csOps.atS s = some s.cur.cur := rfl
@[simp] theorem csOps_atT (s : CS) : csOps.atT s = some s.cur.cur.t := rfl
@[simp] theorem csOps_adjust (v : Int) (s : CS) : csOps.adjust v s = s := rfl
@[simp] theorem csOps_bad (s : CS) : csOps.bad s = s.bad := rfl

theorem csFuel_ge (s : CS) : 2 * csMeasure s + 2 ≤ csFuel s := by
  simp only [csFuel, csMeasure]; omega

theorem cs_not_done {s : CS} (h : csAbs s ≠ []) : s.cur.done = false := by
  cases hd : s.cur.done with
  | false => rfl
  | true => exact absurd (by simp [csAbs, hd]) h

/-- **chunkIter_union.**  `chunkSeriesIterator` over a row of non-empty XOR chunks is list-like:
    what it still yields is the current chunk's rest followed by `unionFrom` of the later chunks. -/
theorem cs_listLike : ListLike csOps csV csAbs where
  lower := by
    intro s hV x hx
    have hd : s.cur.done = false := cs_not_done (by intro h; rw [h] at hx; simp at hx)
    rw [csAbs_of_not_done hd] at hx
    have hp := hV.pos hd
    have : 1 ≤ x.t := by
      rcases List.mem_append.mp hx with hx | hx
      · rcases List.mem_cons.mp hx with rfl | hx
        · exact hp.1
        · exact hp.2 x hx
      · obtain ⟨c, hc, hxc⟩ := mem_unionFrom hx
        simp only [csRem, List.mem_map] at hc
        obtain ⟨ci, hci, rfl⟩ := hc
        exact (hV.fresh ci hci).2.2 x hxc
    simp only [minT]; omega
  atS := by
    intro s _ hne
    rw [csAbs_of_not_done (cs_not_done hne)]; rfl
  atT := by
    intro s _ hne
    rw [csAbs_of_not_done (cs_not_done hne)]; rfl
  seekV := fun s t hV hne => ((csRun_spec _ s hV (cs_not_done hne)).2 t (csFuel_ge s)).1
  seekAbs := fun s t hV hne => ((csRun_spec _ s hV (cs_not_done hne)).2 t (csFuel_ge s)).2.1
  seekOk := fun s t hV hne => ((csRun_spec _ s hV (cs_not_done hne)).2 t (csFuel_ge s)).2.2
  nextV := fun s hV hne => ((csRun_spec _ s hV (cs_not_done hne)).1 (by have := csFuel_ge s; omega)).1
  nextAbs := fun s hV hne => ((csRun_spec _ s hV (cs_not_done hne)).1 (by have := csFuel_ge s; omega)).2.1
  nextOk := fun s hV hne => ((csRun_spec _ s hV (cs_not_done hne)).1 (by have := csFuel_ge s; omega)).2.2.1
  adjustV := fun s v hV _ => hV
  adjustAbs := fun s v _ _ => rfl
  bad := fun s hV => hV.nbad
  fuel := by
    intro s _
    unfold csAbs
    cases hd : s.cur.done with
    | true => simp
    | false =>
      have := unionFrom_length_le (lastOf s.cur.cur s.cur.rest) (csRem s)
      simp only [Bool.false_eq_true, if_false, List.length_append, List.length_cons, csOps, csRem,
        List.map_map, Function.comp_def] at this ⊢
      omega

/-- the iterator `newChunkSeriesIterator` builds for a row of chunks -/
def csIt (c : List Sample) (cs : List (List Sample)) : AnyIt :=
  { σ := CS, ops := csOps,
    st := { cur := XorIt.init c, rest := cs.map XorIt.init, lastVal := false, bad := false } }

/-- chunks as stores send them: non-empty, timestamps ≥ 1 -/
def ChunkOK (c : List Sample) : Prop := c ≠ [] ∧ ∀ x ∈ c, 1 ≤ x.t

theorem cs_goodN (c : List Sample) (cs : List (List Sample)) (hc : ChunkOK c) (hcs : ∀ d ∈ cs, ChunkOK d) :
    GoodN (csIt c cs) (unionFrom 0 (c :: cs)) := by
  obtain ⟨x, r, rfl⟩ : ∃ x r, c = x :: r := by
    cases c with
    | nil => exact absurd rfl hc.1
    | cons x r => exact ⟨x, r, rfl⟩
  have hx1 : 1 ≤ x.t := hc.2 x (by simp)
  have hL : unionFrom 0 ((x :: r) :: cs) = (x :: r) ++ unionFrom (lastOf x r) cs := by
    simp only [unionFrom]
    rw [dropLt_cons_ge (by omega)]
  -- the first Next opens the first chunk
  let s0 : CS := { cur := XorIt.init (x :: r), rest := cs.map XorIt.init, lastVal := false, bad := false }
  have hfuel : csFuel s0 = (csFuel s0 - 1) + 1 := by simp only [csFuel]; omega
  have hnext : csOps.next s0 =
      ({ cur := { rest := r, cur := x, started := true, done := false }, rest := cs.map XorIt.init,
         lastVal := true, bad := false }, true) := by
    rw [csOps_next, hfuel, csRun]
    simp [s0, xorNext, XorIt.init]
  have hrem : ((cs.map XorIt.init).map (·.rest)) = cs := by
    simp [List.map_map, Function.comp_def, XorIt.init]
  refine ⟨csV, csAbs, cs_listLike, ?_⟩
  show InitNext csOps csV csAbs s0 _
  rw [hL]
  refine ⟨?_, ?_, ?_, ?_, ?_⟩
  · intro z hz
    have : 1 ≤ z.t := by
      rcases List.mem_append.mp hz with hz | hz
      · exact hc.2 z hz
      · obtain ⟨d, hd, hzd⟩ := mem_unionFrom hz
        exact (hcs d hd).2 z hzd
    simp only [minT]; omega
  · rw [hnext]
    refine ⟨rfl, rfl, fun h => Bool.noConfusion h, ?_, fun _ => ⟨hx1, fun y hy => hc.2 y (by simp [hy])⟩,
      fun _ => rfl⟩
    intro ci hci
    simp only [List.mem_map] at hci
    obtain ⟨d, hd, rfl⟩ := hci
    exact ⟨rfl, (hcs d hd).1, (hcs d hd).2⟩
  · rw [hnext]
    simp [csAbs, csRem, hrem]
  · rw [hnext]; simp
  · have : (unionFrom (lastOf x r) cs).length ≤ (cs.map fun x => x.length).sum :=
      unionFrom_length_le (lastOf x r) cs
    simp only [List.length_append, List.length_cons, csOps, s0, XorIt.init, List.map_map,
      Function.comp_def]
    omega

/-- **chunkIter_union, read with `Next`.**  The samples `chunkSeriesIterator` yields over a row
    of chunks: the first chunk, then from every later chunk the samples after the last one yielded. -/
theorem cs_drain (c : List Sample) (cs : List (List Sample)) (hc : ChunkOK c) (hcs : ∀ d ∈ cs, ChunkOK d) :
    drain (csIt c cs) = unionFrom 0 (c :: cs) :=
  drain_goodN (cs_goodN c cs hc hcs)

/-- consecutive chunks of the row do not overlap: each starts after the previous one ends -/
def RowDisjoint : List (List Sample) → Prop
  | a :: b :: r => (∀ x ∈ a, ∀ y ∈ b, x.t < y.t) ∧ RowDisjoint (b :: r)
  | _ => True

/-- on a row without overlaps (what `overlapSplit` produces) nothing is skipped: the union is the
    concatenation of the chunks -/
theorem unionFrom_disjoint : ∀ (cs : List (List Sample)) (l : Int),
    (∀ c ∈ cs, c ≠ [] ∧ SSorted c) → RowDisjoint cs → (∀ c, cs.head? = some c → ∀ x ∈ c, l < x.t) →
    unionFrom l cs = cs.flatten := by
  intro cs
  induction cs with
  | nil => intro l _ _ _; rfl
  | cons c cs ih =>
    intro l h hd hl
    obtain ⟨hne, hs⟩ := h c (by simp)
    obtain ⟨x, r, rfl⟩ : ∃ x r, c = x :: r := by
      cases c with
      | nil => exact absurd rfl hne
      | cons x r => exact ⟨x, r, rfl⟩
    have hx := hl _ rfl x (by simp)
    simp only [unionFrom, List.flatten_cons]
    rw [dropLt_cons_ge (by omega)]
    simp only
    congr 1
    apply ih _ (fun c' hc' => h c' (by simp [hc']))
    · cases cs with
      | nil => trivial
      | cons b r' => exact hd.2
    · intro b hb y hy
      cases cs with
      | nil => simp at hb
      | cons b' r' =>
        simp at hb; subst hb
        -- lastOf x r is the timestamp of an element of x :: r, all of which precede b
        have hlast : (x :: r).getLast? = some (r.getLast?.getD x) := getLast?_cons_getD r x
        have := hd.1 _ (List.mem_of_getLast? hlast) y hy
        unfold lastOf
        exact this

/-! ### boundedSeriesIterator over a list-like iterator whose samples all lie in `[mint, maxt]`

  In general the wrapper is NOT list-like (its `Seek` does not enforce `maxt`, so a sample beyond
  `maxt` can be returned); when the query range covers the samples it is transparent. -/

section bounded
variable {σ : Type} {o : Ops σ} {V : σ → Prop} {abs : σ → List Sample} (mint maxt : Int)

def bndAbs (abs : σ → List Sample) (s : Bnd σ) : List Sample := if s.stopped then [] else abs s.inner

def bndV (V : σ → Prop) (abs : σ → List Sample) (mint maxt : Int) (s : Bnd σ) : Prop :=
  V s.inner ∧ s.bad = false ∧ ∀ x ∈ abs s.inner, mint ≤ x.t ∧ x.t ≤ maxt

theorem bnd_not_stopped {s : Bnd σ} (h : bndAbs abs s ≠ []) : s.stopped = false ∧ abs s.inner ≠ [] := by
  unfold bndAbs at h
  cases hs : s.stopped with
  | true => simp [hs] at h
  | false => simp [hs] at h; exact ⟨rfl, h⟩

theorem dropLt_all_ge {t : Int} {l : List Sample} (h : ∀ x ∈ l, t ≤ x.t) : dropLt t l = l := by
  cases l with
  | nil => rfl
  | cons a l => exact dropLt_cons_ge (h a (by simp))

theorem dropLt_all_lt {t : Int} : ∀ {l : List Sample}, (∀ x ∈ l, x.t < t) → dropLt t l = []
  | [], _ => rfl
  | a :: l, h => by
    rw [dropLt_cons_lt (h a (by simp))]
    exact dropLt_all_lt (fun x hx => h x (by simp [hx]))

/-- `bNext` on a positioned inner state all of whose samples are in range is the inner `Next` -/
theorem bNext_inrange (h : ListLike o V abs) {s : σ} (hV : V s) (hne : abs s ≠ [])
    (hin : ∀ x ∈ abs s, mint ≤ x.t ∧ x.t ≤ maxt) :
    bNext o mint maxt s = some ((o.next s).1, !(abs s).tail.isEmpty) := by
  unfold bNext
  simp only [h.nextOk s hV hne]
  cases htl : (abs s).tail with
  | nil => simp
  | cons y r =>
    have hne' : abs (o.next s).1 ≠ [] := by rw [h.nextAbs s hV hne, htl]; simp
    have hy := hin y (List.mem_of_mem_tail (by rw [htl]; simp))
    simp only [List.isEmpty_cons, Bool.not_false, Bool.not_true, Bool.false_eq_true, if_false]
    rw [h.atT _ (h.nextV s hV hne) hne', h.nextAbs s hV hne, htl]
    have h1 : ¬ y.t < mint := by omega
    simp [h1, hy.2]

theorem bnd_listLike (h : ListLike o V abs) :
    ListLike (bndOps o mint maxt) (bndV V abs mint maxt) (bndAbs abs) where
  lower := by
    intro s hV x hx
    unfold bndAbs at hx
    cases hs : s.stopped with
    | true => simp [hs] at hx
    | false => simp [hs] at hx; exact h.lower _ hV.1 x hx
  atS := by
    intro s hV hne
    obtain ⟨hs, hne'⟩ := bnd_not_stopped hne
    simp only [bndOps, bndAbs, hs, Bool.false_eq_true, if_false]
    exact h.atS _ hV.1 hne'
  atT := by
    intro s hV hne
    obtain ⟨hs, hne'⟩ := bnd_not_stopped hne
    simp only [bndOps, bndAbs, hs, Bool.false_eq_true, if_false]
    exact h.atT _ hV.1 hne'
  seekV := by
    intro s t hV hne
    obtain ⟨hs, hne'⟩ := bnd_not_stopped hne
    simp only [bndOps, bSeek]
    by_cases ht : t > maxt
    · simp only [ht, if_true]; exact hV
    · simp only [ht, if_false]
      refine ⟨h.seekV _ _ hV.1 hne', hV.2.1, ?_⟩
      rw [h.seekAbs _ _ hV.1 hne']
      exact fun x hx => hV.2.2 x (mem_of_mem_dropLt hx)
  seekAbs := by
    intro s t hV hne
    obtain ⟨hs, hne'⟩ := bnd_not_stopped hne
    simp only [bndOps, bSeek, bndAbs, hs, Bool.false_or]
    by_cases ht : t > maxt
    · simp only [ht, decide_true, if_true]
      exact (dropLt_all_lt (fun x hx => by have := (hV.2.2 x hx).2; omega)).symm
    · simp only [ht, decide_false, Bool.false_eq_true, if_false]
      rw [h.seekAbs _ _ hV.1 hne']
      by_cases htm : t < mint
      · simp only [htm, if_true]
        rw [dropLt_all_ge (fun x hx => (hV.2.2 x hx).1), dropLt_all_ge (fun x hx => by have := (hV.2.2 x hx).1; omega)]
      · simp only [htm, if_false]
  seekOk := by
    intro s t hV hne
    obtain ⟨hs, hne'⟩ := bnd_not_stopped hne
    simp only [bndOps, bSeek, bndAbs, hs, Bool.false_eq_true, if_false]
    by_cases ht : t > maxt
    · simp only [ht, if_true]
      rw [dropLt_all_lt (fun x hx => by have := (hV.2.2 x hx).2; omega)]; rfl
    · simp only [ht, if_false]
      rw [h.seekOk _ _ hV.1 hne']
      by_cases htm : t < mint
      · simp only [htm, if_true]
        rw [dropLt_all_ge (fun x hx => (hV.2.2 x hx).1), dropLt_all_ge (fun x hx => by have := (hV.2.2 x hx).1; omega)]
      · simp only [htm, if_false]
  nextV := by
    intro s hV hne
    obtain ⟨hs, hne'⟩ := bnd_not_stopped hne
    simp only [bndOps, bNext_inrange mint maxt h hV.1 hne' hV.2.2]
    refine ⟨h.nextV _ hV.1 hne', hV.2.1, ?_⟩
    rw [h.nextAbs _ hV.1 hne']
    exact fun x hx => hV.2.2 x (List.mem_of_mem_tail hx)
  nextAbs := by
    intro s hV hne
    obtain ⟨hs, hne'⟩ := bnd_not_stopped hne
    simp only [bndOps, bNext_inrange mint maxt h hV.1 hne' hV.2.2, bndAbs, hs, Bool.false_eq_true, if_false]
    exact h.nextAbs _ hV.1 hne'
  nextOk := by
    intro s hV hne
    obtain ⟨hs, hne'⟩ := bnd_not_stopped hne
    simp only [bndOps, bNext_inrange mint maxt h hV.1 hne' hV.2.2, bndAbs, hs, Bool.false_eq_true, if_false]
  adjustV := fun s v hV _ => hV
  adjustAbs := fun s v _ _ => rfl
  bad := by
    intro s hV
    simp [bndOps, hV.2.1, h.bad _ hV.1]
  fuel := by
    intro s hV
    unfold bndAbs
    cases s.stopped
    · simpa [bndOps] using h.fuel _ hV.1
    · simp

/-- a fresh bounded iterator over a fresh list-like one whose samples are all in range -/
theorem bnd_initNext (h : ListLike o V abs) {s0 : σ} {L : List Sample} (hi : InitNext o V abs s0 L)
    (hin : ∀ x ∈ L, mint ≤ x.t ∧ x.t ≤ maxt) :
    InitNext (bndOps o mint maxt) (bndV V abs mint maxt) (bndAbs abs)
      { inner := s0, bad := false, stopped := false } L := by
  have hb : bNext o mint maxt s0 = some ((o.next s0).1, !L.isEmpty) := by
    unfold bNext
    simp only [hi.nextOk]
    cases hL : L with
    | nil => simp
    | cons y r =>
      have hne' : abs (o.next s0).1 ≠ [] := by rw [hi.nextAbs, hL]; simp
      have hy := hin y (by rw [hL]; simp)
      simp only [List.isEmpty_cons, Bool.not_false, Bool.not_true, Bool.false_eq_true, if_false]
      rw [h.atT _ hi.nextV hne', hi.nextAbs, hL]
      have h1 : ¬ y.t < mint := by omega
      simp [h1, hy.2]
  refine ⟨hi.lower, ?_, ?_, ?_, ?_⟩
  · simp only [bndOps, hb]
    exact ⟨hi.nextV, rfl, by rw [hi.nextAbs]; exact hin⟩
  · simp only [bndOps, hb, bndAbs, Bool.false_eq_true, if_false]
    exact hi.nextAbs
  · simp only [bndOps, hb]
  · simpa [bndOps] using hi.fuel

end bounded

/-! ### the querier side of `selectDedup` as a pure function -/

theorem drainChecked_go_spec {σ : Type} {o : Ops σ} {V : σ → Prop} {abs : σ → List Sample}
    (h : ListLike o V abs) : ∀ (n : Nat) (s : σ), V s → abs s ≠ [] → (abs s).length ≤ n →
      drainChecked.go o n s = some (abs s).tail := by
  intro n
  induction n with
  | zero =>
    intro s _ hne hl
    exact absurd (List.length_eq_zero_iff.mp (Nat.le_zero.mp hl)) hne
  | succ n ih =>
    intro s hV hne hl
    unfold drainChecked.go
    simp only [h.bad _ (h.nextV s hV hne), Bool.false_eq_true, if_false, h.nextOk s hV hne]
    cases htl : (abs s).tail with
    | nil => simp
    | cons y r =>
      have hne' : abs (o.next s).1 ≠ [] := by rw [h.nextAbs s hV hne, htl]; simp
      simp only [List.isEmpty_cons, Bool.not_false, if_true]
      rw [h.atS _ (h.nextV s hV hne) hne', h.nextAbs s hV hne, htl]
      simp only [List.head?_cons]
      rw [ih _ (h.nextV s hV hne) hne' (by
        rw [h.nextAbs s hV hne, htl]
        have : (abs s).length = (abs s).tail.length + 1 := by
          cases habs : abs s with
          | nil => exact absurd habs hne
          | cons a l => simp
        rw [htl] at this
        simp only [List.length_cons] at this ⊢
        omega)]
      rw [h.nextAbs s hV hne, htl]
      rfl

theorem drainChecked_goodN {i : AnyIt} {L : List Sample} (hg : GoodN i L) : drainChecked i = some L := by
  obtain ⟨V, abs, h, hi⟩ := hg
  unfold drainChecked
  have hf : i.fuel + 2 = (i.fuel + 1) + 1 := rfl
  rw [hf, drainChecked.go]
  simp only [h.bad _ hi.nextV, Bool.false_eq_true, if_false, hi.nextOk]
  cases hL : L with
  | nil => simp
  | cons y r =>
    have hne : abs (i.ops.next i.st).1 ≠ [] := by rw [hi.nextAbs, hL]; simp
    simp only [List.isEmpty_cons, Bool.not_false, if_true]
    rw [h.atS _ hi.nextV hne, hi.nextAbs, hL]
    simp only [List.head?_cons]
    rw [drainChecked_go_spec h _ _ hi.nextV hne (by
      rw [hi.nextAbs]
      have := hi.fuel
      show L.length ≤ i.ops.fuel i.st + 1
      exact this)]
    rw [hi.nextAbs, hL]
    rfl

/-- the pure function `foldIts` computes: the left fold of `pm2` -/
def pmFoldL : List (List Sample) → List Sample
  | [] => []
  | L :: Ls => Ls.foldl (pm2 minT) L

theorem foldIts_good : ∀ (ps : List (AnyIt × List Sample)), ps ≠ [] → (∀ p ∈ ps, GoodN p.1 p.2) →
    ∃ it, foldIts true (ps.map (·.1)) = some it ∧ GoodN it (pmFoldL (ps.map (·.2))) := by
  intro ps hne hg
  cases ps with
  | nil => exact absurd rfl hne
  | cons p ps =>
    refine ⟨_, rfl, ?_⟩
    simp only [List.map_cons, pmFoldL]
    have key : ∀ (ps : List (AnyIt × List Sample)) (acc : AnyIt) (L : List Sample), GoodN acc L →
        (∀ q ∈ ps, GoodN q.1 q.2) →
        GoodN ((ps.map (·.1)).foldl (fun acc b =>
          { σ := Node acc.σ b.σ, ops := nodeOps acc.ops b.ops true,
            st := nodeNew acc.ops b.ops acc.st b.st }) acc) ((ps.map (·.2)).foldl (pm2 minT) L) := by
      intro ps
      induction ps with
      | nil => intro acc L h _; exact h
      | cons q ps ih =>
        intro acc L hacc hq
        simp only [List.map_cons, List.foldl_cons]
        apply ih
        · obtain ⟨Va, absA, ha, ia⟩ := hacc
          obtain ⟨Vb, absB, hb, ib⟩ := hq q (by simp)
          exact ⟨nodeV Va Vb absA absB, nodeAbs absA absB, node_listLike ha hb true,
            (node_initLike ha hb ia ib).toNext⟩
        · exact fun q' hq' => hq q' (by simp [hq'])
    exact key ps p.1 p.2 (hg p (by simp)) (fun q hq => hg q (by simp [hq]))

/-- `chunkSeries.Iterator` for a row whose samples all lie in the query range -/
theorem chunkSeriesIt_good (qmint qmaxt : Int) (c : List Sample) (cs : List (List Sample))
    (hc : ChunkOK c) (hcs : ∀ d ∈ cs, ChunkOK d)
    (hin : ∀ d ∈ c :: cs, ∀ x ∈ d, qmint ≤ x.t ∧ x.t ≤ qmaxt) :
    ∃ it, chunkSeriesIt qmint qmaxt (c :: cs) = some it ∧ GoodN it (unionFrom 0 (c :: cs)) := by
  refine ⟨_, rfl, ?_⟩
  obtain ⟨V, abs, h, hi⟩ := cs_goodN c cs hc hcs
  refine ⟨bndV V abs qmint qmaxt, bndAbs abs, bnd_listLike qmint qmaxt h, ?_⟩
  apply bnd_initNext qmint qmaxt h hi
  intro x hx
  obtain ⟨d, hd, hxd⟩ := mem_unionFrom hx
  exact hin d hd x hxd

/-! ### boundedSeriesIterator read with `Next` only, any range -/

section bnddrain
variable {σ : Type} {o : Ops σ} {V : σ → Prop} {abs : σ → List Sample}

theorem bndOps_next_some (mint maxt : Int) (s : σ) (st : Bool) {r : σ × Bool}
    (hb : bNext o mint maxt s = some r) :
    (bndOps o mint maxt).next { inner := s, bad := false, stopped := st } =
      ({ inner := r.1, bad := false, stopped := st }, r.2) := by
  simp [bndOps, hb]

theorem bndOps_bad_eq (mint maxt : Int) (b : Bnd σ) :
    (bndOps o mint maxt).bad b = (b.bad || o.bad b.inner) := rfl

theorem bndOps_atS_eq (mint maxt : Int) (b : Bnd σ) : (bndOps o mint maxt).atS b = o.atS b.inner := rfl

/-- the `Next` loop of a bounded iterator from a positioned inner state whose later samples are
    all at or after `mint`: the samples up to `maxt` -/
theorem bnd_go_spec (h : ListLike o V abs) (mint maxt : Int) :
    ∀ (n : Nat) (s : σ) (st : Bool) (c : Sample) (rest : List Sample), V s → abs s = c :: rest →
      (∀ y ∈ rest, mint ≤ y.t) → rest.length + 1 ≤ n →
      drainChecked.go (bndOps o mint maxt) n { inner := s, bad := false, stopped := st } =
        some (takeLe maxt rest) := by
  intro n
  induction n with
  | zero => intro s st c rest _ _ _ hn; omega
  | succ n ih =>
    intro s st c rest hV habs hge hn
    have hne : abs s ≠ [] := by rw [habs]; simp
    have hV' := h.nextV _ hV hne
    have habs' : abs (o.next s).1 = rest := by rw [h.nextAbs _ hV hne, habs]; rfl
    have hok : (o.next s).2 = !rest.isEmpty := by rw [h.nextOk _ hV hne, habs]; rfl
    unfold drainChecked.go
    cases hr : rest with
    | nil =>
      rw [hr] at hok
      have hb : bNext o mint maxt s = some ((o.next s).1, false) := by
        unfold bNext; simp [hok]
      rw [bndOps_next_some mint maxt s st hb]
      simp [bndOps_bad_eq, h.bad _ hV', takeLe]
    | cons x tl =>
      rw [hr] at hok habs'
      have hne' : abs (o.next s).1 ≠ [] := by rw [habs']; simp
      have hat : o.atT (o.next s).1 = some x.t := by rw [h.atT _ hV' hne', habs']; rfl
      have hxm : ¬ x.t < mint := by have := hge x (by rw [hr]; simp); omega
      have hb : bNext o mint maxt s = some ((o.next s).1, decide (x.t ≤ maxt)) := by
        unfold bNext; simp [hok, hat, hxm]
      rw [bndOps_next_some mint maxt s st hb]
      simp only [bndOps_bad_eq, h.bad _ hV', Bool.or_self, Bool.false_eq_true, if_false, bndOps_atS_eq]
      by_cases hle : x.t ≤ maxt
      · simp only [hle, decide_true, if_true]
        rw [h.atS _ hV' hne', habs']
        simp only [List.head?_cons]
        rw [ih (o.next s).1 st x tl hV' habs' (fun y hy => hge y (by rw [hr]; simp [hy]))
          (by rw [hr] at hn; simp at hn; omega)]
        simp [takeLe, hle]
      · simp [hle, takeLe]

/-- **A bounded iterator read with `Next`**: the samples of the wrapped (time-sorted) iterator
    inside `[mint, maxt]`, for any range. -/
theorem bnd_drain (h : ListLike o V abs) (mint maxt : Int) {s0 : σ} {L : List Sample}
    (hi : InitNext o V abs s0 L) (hs : SSorted L) :
    drainChecked { σ := Bnd σ, ops := bndOps o mint maxt,
                   st := { inner := s0, bad := false, stopped := false } } =
      some (takeLe maxt (dropLt mint L)) := by
  unfold drainChecked
  show drainChecked.go (bndOps o mint maxt) ((o.fuel s0 + 1) + 1) _ = _
  rw [drainChecked.go]
  have hfuel := hi.fuel
  -- the tail of the loop, once the inner iterator stands on the head of D = dropLt mint L
  have cont : ∀ (s : σ) (d : Sample) (rest : List Sample), V s → abs s = d :: rest →
      SSorted (d :: rest) → mint ≤ d.t → (d :: rest).length ≤ L.length →
      drainChecked.go (bndOps o mint maxt) (o.fuel s0 + 1) { inner := s, bad := false, stopped := false } =
        some (takeLe maxt rest) := by
    intro s d rest hV habs hsd hmd hlen
    apply bnd_go_spec h mint maxt _ s false d rest hV habs
    · intro y hy
      have := (List.pairwise_cons.mp hsd).1 y hy; omega
    · simp only [List.length_cons] at hlen; omega
  cases hL : L with
  | nil =>
    have hb : bNext o mint maxt s0 = some ((o.next s0).1, false) := by
      unfold bNext; simp [hi.nextOk, hL]
    simp [bndOps, hb, h.bad _ hi.nextV, takeLe]
  | cons y rest =>
    have hne : abs (o.next s0).1 ≠ [] := by rw [hi.nextAbs, hL]; simp
    have hat : o.atT (o.next s0).1 = some y.t := by rw [h.atT _ hi.nextV hne, hi.nextAbs, hL]; rfl
    have hok : (o.next s0).2 = true := by rw [hi.nextOk, hL]; rfl
    have hsL : SSorted (y :: rest) := by rw [← hL]; exact hs
    by_cases hym : y.t < mint
    · -- the first sample is before the range: Seek(mint)
      by_cases hmm : mint > maxt
      · have hb : bNext o mint maxt s0 = some ((o.next s0).1, false) := by
          unfold bNext bSeek; simp [hok, hat, hym, hmm]
        have hemp : takeLe maxt (dropLt mint (y :: rest)) = [] := by
          cases hD : dropLt mint (y :: rest) with
          | nil => rfl
          | cons d r =>
            have := head_dropLt_ge (t := mint) (l := y :: rest) (x := d) (by rw [hD]; rfl)
            have hnd : ¬ d.t ≤ maxt := by omega
            simp [takeLe, hnd]
        simp [bndOps, hb, h.bad _ hi.nextV, hemp]
      · have hV2 := h.seekV _ mint hi.nextV hne
        have habs2 : abs (o.seek mint (o.next s0).1).1 = dropLt mint (y :: rest) := by
          rw [h.seekAbs _ mint hi.nextV hne, hi.nextAbs, hL]
        have hok2 : (o.seek mint (o.next s0).1).2 = !(dropLt mint (y :: rest)).isEmpty := by
          rw [h.seekOk _ mint hi.nextV hne, hi.nextAbs, hL]
        cases hD : dropLt mint (y :: rest) with
        | nil =>
          rw [hD] at hok2
          have hb : bNext o mint maxt s0 = some ((o.seek mint (o.next s0).1).1, false) := by
            unfold bNext bSeek; simp [hok, hat, hym, hmm, hok2]
          simp [bndOps, hb, h.bad _ hV2, takeLe]
        | cons d r =>
          rw [hD] at hok2 habs2
          have hne2 : abs (o.seek mint (o.next s0).1).1 ≠ [] := by rw [habs2]; simp
          have hat2 : o.atT (o.seek mint (o.next s0).1).1 = some d.t := by
            rw [h.atT _ hV2 hne2, habs2]; rfl
          have hb : bNext o mint maxt s0 =
              some ((o.seek mint (o.next s0).1).1, decide (d.t ≤ maxt)) := by
            unfold bNext bSeek; simp [hok, hat, hym, hmm, hok2, hat2]
          have hsd : SSorted (d :: r) := by rw [← hD]; exact ssorted_dropLt mint hsL
          have hmd : mint ≤ d.t := head_dropLt_ge (by rw [hD]; rfl)
          have hlen : (d :: r).length ≤ L.length := by
            rw [← hD, hL]; exact dropLt_length_le _ _
          by_cases hle : d.t ≤ maxt
          · simp only [bndOps, hb, hle, decide_true, h.bad _ hV2, Bool.or_self, Bool.false_eq_true,
              if_false, if_true]
            rw [h.atS _ hV2 hne2, habs2]
            simp only [List.head?_cons]
            have := cont _ d r hV2 habs2 hsd hmd hlen
            simp only [bndOps] at this
            rw [this]
            simp [takeLe, hle]
          · simp [bndOps, hb, hle, h.bad _ hV2, takeLe]
    · -- the first sample is already in or after the range
      have hD : dropLt mint (y :: rest) = y :: rest := dropLt_cons_ge (by omega)
      have hb : bNext o mint maxt s0 = some ((o.next s0).1, decide (y.t ≤ maxt)) := by
        unfold bNext; simp [hok, hat, hym]
      rw [hD]
      by_cases hle : y.t ≤ maxt
      · simp only [bndOps, hb, hle, decide_true, h.bad _ hi.nextV, Bool.or_self, Bool.false_eq_true,
          if_false, if_true]
        rw [h.atS _ hi.nextV hne, hi.nextAbs, hL]
        simp only [List.head?_cons]
        have := cont _ y rest hi.nextV (by rw [hi.nextAbs, hL]) hsL (by omega) (by rw [hL]; exact Nat.le_refl _)
        simp only [bndOps] at this
        rw [this]
        simp [takeLe, hle]
      · simp [bndOps, hb, hle, h.bad _ hi.nextV, takeLe]

end bnddrain

end Thanos.Dedup
