import Thanos.Lemmas.Downsample
/-
  Helper lemmas for C37: ApplyCounterResetsSeriesIterator (`crChunk`, `crChunks`, `applyResets`)
  on well-shaped counter chunks.
-/
namespace Thanos.Downsample

theorem popFrames_of_le (t : Int) : ∀ (fr : List Int), (∀ x ∈ fr, x ≤ t) → popFrames t fr = []
  | [], _ => rfl
  | x :: xs, h => by
    have hx : t ≥ x := h x (by simp)
    simp only [popFrames, hx, if_true]
    exact popFrames_of_le t xs (fun y hy => h y (List.mem_cons_of_mem _ hy))

/-- **a monotone stretch**: from a started iterator, samples with strictly increasing timestamps
    beyond `lastT` and non-decreasing values from `lastV` on are all returned, each with the
    running total advanced by its increase (no reset is seen) -/
theorem crChunk_mono : ∀ (mid : List Pt) (s : CR), 0 < s.total →
    (mid.map (·.1)).Pairwise (· < ·) → (∀ p ∈ mid, s.lastT < p.1) →
    (mid.map (·.2)).Pairwise (· ≤ ·) → (∀ p ∈ mid, s.lastV ≤ p.2) →
    (crChunk mid s []).1 = mid.map (fun p => (p.1, s.totalV + (p.2 - s.lastV))) ∧
    (crChunk mid s []).2.2 = [] ∧
    (crChunk mid s []).2.1 = (match mid.getLast? with
      | none => s
      | some l => { total := s.total + mid.length, lastT := l.1, lastV := l.2, totalV := s.totalV + (l.2 - s.lastV) }) := by
  intro mid
  induction mid with
  | nil => intro s _ _ _ _ _; simp [crChunk]
  | cons p rest ih =>
    intro s hs ht hb hv hl
    obtain ⟨t, v⟩ := p
    have htl : s.lastT < t := hb (t, v) (by simp)
    have hvl : s.lastV ≤ v := hl (t, v) (by simp)
    have hne : s.total ≠ 0 := by omega
    simp only [List.map_cons, List.pairwise_cons] at ht hv
    -- the state after this sample
    let s' : CR := { total := s.total + 1, lastT := t, lastV := v, totalV := s.totalV + (v - s.lastV) }
    have hstep : s.step t v = (s', true) := by
      simp only [CR.step, hne, if_false, htl, if_true, s']
      have : v ≥ s.lastV := hvl
      simp [this]
    have := ih s' (by simp [s']) ht.2
      (fun q hq => ht.1 q.1 (List.mem_map.mpr ⟨q, hq, rfl⟩))
      hv.2 (fun q hq => hv.1 q.2 (List.mem_map.mpr ⟨q, hq, rfl⟩))
    obtain ⟨h1, h2, h3⟩ := this
    have hcr : crChunk ((t, v) :: rest) s [] =
        ((t, s.totalV + (v - s.lastV)) :: (crChunk rest s' []).1, (crChunk rest s' []).2.1, (crChunk rest s' []).2.2) := by
      rw [crChunk, hstep]
      simp [popFrames, s']
    rw [hcr]
    refine ⟨?_, h2, ?_⟩
    · simp only [h1, List.map_cons, s']
      congr 1
      apply List.map_congr_left
      intro q _
      congr 1
      omega
    · simp only [h3]
      cases rest with
      | nil => simp [s']
      | cons q qs =>
        simp only [List.getLast?_cons_cons]
        cases hq : (q :: qs).getLast? with
        | none => simp at hq
        | some l =>
          simp only [s', List.length_cons]
          congr 1 <;> omega

/-- running reset-adjusted totals: `acc` is the total so far, `last` the previous value -/
def adjScan : Int → Int → List Pt → List Pt
  | _, _, [] => []
  | acc, last, (t, v) :: rest =>
    (t, if v < last then acc + v else acc + (v - last)) ::
      adjScan (if v < last then acc + v else acc + (v - last)) v rest

/-- **reading raw-like samples** (strictly increasing timestamps, any values): every sample is
    returned with the reset-adjusted running total -/
theorem crChunk_raw : ∀ (l : List Pt) (s : CR), 0 < s.total →
    (l.map (·.1)).Pairwise (· < ·) → (∀ p ∈ l, s.lastT < p.1) →
    (crChunk l s []).1 = adjScan s.totalV s.lastV l ∧ (crChunk l s []).2.2 = [] := by
  intro l
  induction l with
  | nil => intro s _ _ _; simp [crChunk, adjScan]
  | cons p rest ih =>
    intro s hs ht hb
    obtain ⟨t, v⟩ := p
    have htl : s.lastT < t := hb (t, v) (by simp)
    have hne : s.total ≠ 0 := by omega
    simp only [List.map_cons, List.pairwise_cons] at ht
    let s' : CR := { total := s.total + 1, lastT := t, lastV := v,
                     totalV := if v < s.lastV then s.totalV + v else s.totalV + (v - s.lastV) }
    have hstep : s.step t v = (s', true) := by
      simp only [CR.step, hne, if_false, htl, if_true, s']
      by_cases h : v < s.lastV
      · have : ¬ v ≥ s.lastV := by omega
        simp [h, this]
      · have : v ≥ s.lastV := by omega
        simp [h, this]
    obtain ⟨h1, h2⟩ := ih s' (by simp [s']) ht.2 (fun q hq => ht.1 q.1 (List.mem_map.mpr ⟨q, hq, rfl⟩))
    have hcr : crChunk ((t, v) :: rest) s [] =
        ((t, s'.totalV) :: (crChunk rest s' []).1, (crChunk rest s' []).2.1, (crChunk rest s' []).2.2) := by
      rw [crChunk, hstep]
      simp [popFrames, s']
    rw [hcr]
    exact ⟨by simp only [h1, adjScan, s'], h2⟩

/-! ### algebra of `adjusted` -/

/-- the increase the reader (and the aggregator) books for value `y` after value `l` -/
def delta (l y : Int) : Int := if y < l then y else y - l

theorem foldl_adjStep_shift (k : Int) : ∀ (ys : List Int) (a l : Int),
    ys.foldl adjStep (a + k, l) = ((ys.foldl adjStep (a, l)).1 + k, (ys.foldl adjStep (a, l)).2)
  | [], a, l => rfl
  | y :: ys, a, l => by
    simp only [List.foldl_cons, adjStep]
    have : (if y < l then a + k + y else a + k + (y - l)) = (if y < l then a + y else a + (y - l)) + k := by
      split <;> omega
    rw [this]
    exact foldl_adjStep_shift k ys _ y

theorem foldl_adjStep_snd : ∀ (ys : List Int) (a l : Int),
    (ys.foldl adjStep (a, l)).2 = (match ys.getLast? with | some y => y | none => l)
  | [], a, l => rfl
  | [y], a, l => by simp [adjStep]
  | y :: z :: ys, a, l => by
    rw [List.foldl_cons, List.getLast?_cons_cons]
    simp only [adjStep]
    rw [foldl_adjStep_snd (z :: ys)]
    cases h : (z :: ys).getLast? with
    | none => simp at h
    | some w => rfl

/-- last value of a non-empty value list (0 for the empty list, never used there) -/
def lastVal (xs : List Int) : Int := match xs.getLast? with | some y => y | none => 0

/-- **appending to a counter**: the adjusted value after `xs ++ y :: ys` is the adjusted value
    after `xs`, plus the step from the last value of `xs` to `y`, plus what `y :: ys` gains on
    its own -/
theorem adjusted_append (x : Int) (xs : List Int) (y : Int) (ys : List Int) :
    adjusted ((x :: xs) ++ y :: ys) = adjusted (x :: xs) + delta (lastVal (x :: xs)) y + (adjusted (y :: ys) - y) := by
  simp only [adjusted, List.cons_append, List.foldl_append, List.foldl_cons]
  have hstate : xs.foldl adjStep (x, x) = ((xs.foldl adjStep (x, x)).1, lastVal (x :: xs)) := by
    have := foldl_adjStep_snd xs x x
    ext
    · rfl
    · rw [this]
      simp only [lastVal]
      cases xs with
      | nil => rfl
      | cons z zs =>
        rw [List.getLast?_cons_cons]
        cases h : (z :: zs).getLast? with
        | none => simp at h
        | some w => rfl
  rw [hstate]
  simp only [adjStep]
  have := foldl_adjStep_shift ((if y < lastVal (x :: xs) then (xs.foldl adjStep (x, x)).1 + y
      else (xs.foldl adjStep (x, x)).1 + (y - lastVal (x :: xs))) - y) ys y y
  have he : y + ((if y < lastVal (x :: xs) then (xs.foldl adjStep (x, x)).1 + y
      else (xs.foldl adjStep (x, x)).1 + (y - lastVal (x :: xs))) - y) =
      (if y < lastVal (x :: xs) then (xs.foldl adjStep (x, x)).1 + y
      else (xs.foldl adjStep (x, x)).1 + (y - lastVal (x :: xs))) := by omega
  rw [he] at this
  rw [this]
  simp only [delta]
  split <;> omega

theorem adjusted_singleton (y : Int) : adjusted [y] = y := rfl

/-- for non-negative values the adjusted counter never decreases along a prefix chain -/
theorem adjusted_mono_append (x : Int) (xs : List Int) (ys : List Int) (h0 : ∀ v ∈ (x :: xs) ++ ys, 0 ≤ v) :
    adjusted (x :: xs) ≤ adjusted ((x :: xs) ++ ys) := by
  induction ys generalizing x xs with
  | nil => simp
  | cons y ys ih =>
    have : (x :: xs) ++ y :: ys = (x :: (xs ++ [y])) ++ ys := by simp
    rw [this]
    have h1 := ih x (xs ++ [y]) (by rw [← this]; exact h0)
    have h2 : adjusted (x :: xs) ≤ adjusted (x :: (xs ++ [y])) := by
      have := adjusted_append x xs y []
      simp only [List.cons_append] at this
      rw [this, adjusted_singleton]
      have hy : 0 ≤ y := h0 y (by simp)
      have hl : 0 ≤ lastVal (x :: xs) := by
        simp only [lastVal]
        cases hg : (x :: xs).getLast? with
        | none => simp at hg
        | some w => exact h0 w (List.mem_append_left _ (List.mem_of_getLast? hg))
      simp only [delta]
      split <;> omega
    omega

theorem getLast?_append_ne' {α : Type} (l1 l2 : List α) (h : l2 ≠ []) : (l1 ++ l2).getLast? = l2.getLast? := by
  rw [List.getLast?_append]
  cases h' : l2.getLast? with
  | none => simp at h'; exact absurd h' h
  | some x => simp

/-! ### the reader on a well-shaped counter chunk -/

theorem crChunk_append : ∀ (l1 l2 : List Pt) (s : CR) (fr : List Int),
    crChunk (l1 ++ l2) s fr =
      ((crChunk l1 s fr).1 ++ (crChunk l2 (crChunk l1 s fr).2.1 (crChunk l1 s fr).2.2).1,
       (crChunk l2 (crChunk l1 s fr).2.1 (crChunk l1 s fr).2.2).2.1,
       (crChunk l2 (crChunk l1 s fr).2.1 (crChunk l1 s fr).2.2).2.2)
  | [], l2, s, fr => by simp [crChunk]
  | (t, v) :: l1, l2, s, fr => by
    simp only [List.cons_append, crChunk]
    split
    · split
      · simp only [crChunk_append l1 l2, List.cons_append]
      · exact crChunk_append l1 l2 _ _
    · exact crChunk_append l1 l2 _ _

/-- the counter sub-chunk `(t0, v0) :: mid ++ [(lastT, lv)]`: first raw sample, aggregated
    samples (`mid`), and the last timestamp once more with the last raw value -/
structure CtrShape (t0 v0 : Int) (mid : List Pt) (lastT : Int) : Prop where
  midne : mid ≠ []
  ts : (mid.map (·.1)).Pairwise (· < ·)
  first : ∀ p ∈ mid, t0 ≤ p.1
  last : (mid.map (·.1)).getLast? = some lastT
  vals : (mid.map (·.2)).Pairwise (· ≤ ·)
  v0le : ∀ p ∈ mid, v0 ≤ p.2
  headEq : ∀ p ∈ mid, p.1 = t0 → p.2 = v0

/-- the running total right after the first sample of a chunk -/
def enterV (s : CR) (v0 : Int) : Int :=
  if s.total = 0 then v0 else s.totalV + (if v0 ≥ s.lastV then v0 - s.lastV else v0)

theorem crChunk_shape (t0 v0 : Int) (mid : List Pt) (lastT lv : Int) (sh : CtrShape t0 v0 mid lastT)
    (s : CR) (fr : List Int) (hs : s.total = 0 ∨ s.lastT < t0) (hfr : ∀ x ∈ fr, x ≤ t0) :
    ∃ n, 0 < n ∧
      crChunk ((t0, v0) :: mid ++ [(lastT, lv)]) s fr =
        ((t0, enterV s v0) :: (mid.filter fun p => t0 < p.1).map (fun p => (p.1, enterV s v0 + (p.2 - v0))),
         { total := n, lastT := lastT, lastV := lv, totalV := enterV s v0 + (lastVal (mid.map (·.2)) - v0) }, []) := by
  -- 1. the first sample
  let s1 : CR := { total := s.total + 1, lastT := t0, lastV := v0, totalV := enterV s v0 }
  have hstep : s.step t0 v0 = (s1, true) := by
    simp only [CR.step, enterV, s1]
    by_cases h0 : s.total = 0
    · simp [h0]
    · have hlt : t0 > s.lastT := by rcases hs with h | h; exact absurd h h0; exact h
      simp only [h0, if_false, hlt, if_true]
      by_cases hv : v0 ≥ s.lastV <;> simp [hv]
  have hpop : popFrames s1.lastT fr = [] := popFrames_of_le t0 fr hfr
  have h1 : crChunk ((t0, v0) :: mid ++ [(lastT, lv)]) s fr =
      ((t0, enterV s v0) :: (crChunk (mid ++ [(lastT, lv)]) s1 []).1,
       (crChunk (mid ++ [(lastT, lv)]) s1 []).2.1, (crChunk (mid ++ [(lastT, lv)]) s1 []).2.2) := by
    rw [List.cons_append, crChunk, hstep]
    simp only [if_true, hpop]
    rfl
  -- 2. the aggregated samples strictly after t0
  have hMsplit : ∃ pre, mid = pre ++ mid.filter (fun p => t0 < p.1) ∧ (pre = [] ∨ pre = [(t0, v0)]) := by
    cases hm : mid with
    | nil => exact absurd hm sh.midne
    | cons m ms =>
      have hts := sh.ts
      rw [hm] at hts
      simp only [List.map_cons, List.pairwise_cons] at hts
      have hms : ∀ q ∈ ms, t0 < q.1 := by
        intro q hq
        have h1 := hts.1 q.1 (List.mem_map.mpr ⟨q, hq, rfl⟩)
        have h2 := sh.first m (by rw [hm]; simp)
        omega
      have hfms : ms.filter (fun p => decide (t0 < p.1)) = ms :=
        List.filter_eq_self.mpr (fun q hq => by simpa using hms q hq)
      by_cases hm1 : t0 < m.1
      · refine ⟨[], ?_, Or.inl rfl⟩
        simp [List.filter_cons, hm1, hfms]
      · have hme : m.1 = t0 := by have := sh.first m (by rw [hm]; simp); omega
        have hmv : m.2 = v0 := sh.headEq m (by rw [hm]; simp) hme
        refine ⟨[(t0, v0)], ?_, Or.inr rfl⟩
        have : m = (t0, v0) := by ext <;> simp [hme, hmv]
        simp [List.filter_cons, hm1, hfms, this]
  obtain ⟨pre, hsplit, hpre⟩ := hMsplit
  generalize hM : mid.filter (fun p => t0 < p.1) = M at *
  have hMgt : ∀ p ∈ M, s1.lastT < p.1 := by
    intro p hp
    rw [← hM] at hp
    simpa using (List.mem_filter.mp hp).2
  have hMsub : ∀ p ∈ M, p ∈ mid := fun p hp => by rw [hsplit]; exact List.mem_append_right _ hp
  have hMts : (M.map (·.1)).Pairwise (· < ·) := by
    have := sh.ts; rw [hsplit, List.map_append] at this; exact (List.pairwise_append.mp this).2.1
  have hMvals : (M.map (·.2)).Pairwise (· ≤ ·) := by
    have := sh.vals; rw [hsplit, List.map_append] at this; exact (List.pairwise_append.mp this).2.1
  have hMv0 : ∀ p ∈ M, s1.lastV ≤ p.2 := fun p hp => sh.v0le p (hMsub p hp)
  -- the duplicate of (t0, v0), if present, changes nothing
  have hpre_state : crChunk pre s1 [] = ([], s1, []) := by
    rcases hpre with h | h
    · rw [h]; rfl
    · rw [h]
      simp [crChunk, CR.step, s1]
  obtain ⟨m1, m2, m3⟩ := crChunk_mono M s1 (by simp [s1]) hMts hMgt hMvals hMv0
  -- 3. put together
  have hrest : crChunk (mid ++ [(lastT, lv)]) s1 [] =
      (M.map (fun p => (p.1, enterV s v0 + (p.2 - v0))),
       { (crChunk M s1 []).2.1 with lastV := lv }, []) := by
    have hassoc : mid ++ [(lastT, lv)] = pre ++ (M ++ [(lastT, lv)]) := by
      rw [← List.append_assoc, ← hsplit]
    rw [hassoc, crChunk_append, hpre_state]
    simp only [List.nil_append]
    rw [crChunk_append, m2]
    -- the final duplicate timestamp
    have hlastT : (crChunk M s1 []).2.1.lastT = lastT ∧ 0 < (crChunk M s1 []).2.1.total := by
      rw [m3]
      cases hgl : M.getLast? with
      | none =>
        have hMnil : M = [] := List.getLast?_eq_none_iff.mp hgl
        simp only [s1]
        -- then mid = [(t0, v0)] and lastT = t0
        rw [hMnil, List.append_nil] at hsplit
        rcases hpre with h | h
        · rw [h] at hsplit; exact absurd hsplit sh.midne
        · have := sh.last
          rw [hsplit, h] at this
          simp at this
          have hs1t : s1.total = s.total + 1 := rfl
          exact ⟨this, by omega⟩
      | some l =>
        simp only
        have := sh.last
        rw [hsplit, List.map_append, getLast?_append_ne' _ _ (by
          intro hc
          have := List.map_eq_nil_iff.mp hc
          rw [this] at hgl; simp at hgl), List.getLast?_map, hgl] at this
        simp at this
        have hs1t : s1.total = s.total + 1 := rfl
        exact ⟨this, by omega⟩
    have hfin : crChunk [(lastT, lv)] (crChunk M s1 []).2.1 [] = ([], { (crChunk M s1 []).2.1 with lastV := lv }, []) := by
      have hne : (crChunk M s1 []).2.1.total ≠ 0 := by omega
      simp only [crChunk, CR.step, hne, if_false, hlastT.1]
      simp
    rw [hfin, m1]
    simp [s1]
  refine ⟨(crChunk M s1 []).2.1.total, ?_, ?_⟩
  · rw [m3]
    have hs1t : s1.total = s.total + 1 := rfl
    cases M.getLast? with
    | none => simp only; omega
    | some l => simp only; omega
  · rw [h1, hrest]
    simp only
    congr 1
    congr 1
    -- the final state
    rw [m3]
    cases hgl : M.getLast? with
    | none =>
      have hMnil : M = [] := List.getLast?_eq_none_iff.mp hgl
      rw [hMnil, List.append_nil] at hsplit
      rcases hpre with h | h
      · rw [h] at hsplit; exact absurd hsplit sh.midne
      · have hl := sh.last
        rw [hsplit, h] at hl
        simp at hl
        simp only [s1, hsplit, h, lastVal]
        simp [hl]
    | some l =>
      have hl := sh.last
      have hne : M.map (·.1) ≠ [] := by
        intro hc
        have := List.map_eq_nil_iff.mp hc
        rw [this] at hgl; simp at hgl
      rw [hsplit, List.map_append, getLast?_append_ne' _ _ hne, List.getLast?_map, hgl] at hl
      simp at hl
      have hv : lastVal (mid.map (·.2)) = l.2 := by
        have hne2 : M.map (·.2) ≠ [] := by
          intro hc
          have := List.map_eq_nil_iff.mp hc
          rw [this] at hgl; simp at hgl
        simp only [lastVal]
        rw [hsplit, List.map_append, getLast?_append_ne' _ _ hne2, List.getLast?_map, hgl]
        rfl
      simp only [s1, hv, hl]

end Thanos.Downsample
