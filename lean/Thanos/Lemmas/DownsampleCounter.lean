import Thanos.Lemmas.Downsample
/-
  Helper lemmas for C37: ApplyCounterResetsSeriesIterator (`crChunk`, `crChunks`, `applyResets`)
  on well-shaped counter chunks.
-/
namespace Thanos.Downsample

theorem popFrames_of_le (t : Int) : ∀ (fr : List Int), (∀ x ∈ fr, x ≤ t) → popFrames t fr = []
  | [], _ => rfl
  | x :: xs, h => by
    have hx : t ≥ x := h x (by simp)
    simp only [popFrames, hx, if_true]
    exact popFrames_of_le t xs (fun y hy => h y (List.mem_cons_of_mem _ hy))

/-- **a monotone stretch**: from a started iterator, samples with strictly increasing timestamps
    beyond `lastT` and non-decreasing values from `lastV` on are all returned, each with the
    running total advanced by its increase (no reset is seen) -/
theorem crChunk_mono : ∀ (mid : List Pt) (s : CR), 0 < s.total →
    (mid.map (·.1)).Pairwise (· < ·) → (∀ p ∈ mid, s.lastT < p.1) →
    (mid.map (·.2)).Pairwise (· ≤ ·) → (∀ p ∈ mid, s.lastV ≤ p.2) →
    (crChunk mid s []).1 = mid.map (fun p => (p.1, s.totalV + (p.2 - s.lastV))) ∧
    (crChunk mid s []).2.2 = [] ∧
    (crChunk mid s []).2.1 = (match mid.getLast? with
      | none => s
      | some l => { total := s.total + mid.length, lastT := l.1, lastV := l.2, totalV := s.totalV + (l.2 - s.lastV) }) := by
  intro mid
  induction mid with
  | nil => intro s _ _ _ _ _; simp [crChunk]
  | cons p rest ih =>
    intro s hs ht hb hv hl
    obtain ⟨t, v⟩ := p
    have htl : s.lastT < t := hb (t, v) (by simp)
    have hvl : s.lastV ≤ v := hl (t, v) (by simp)
    have hne : s.total ≠ 0 := by omega
    simp only [List.map_cons, List.pairwise_cons] at ht hv
    -- the state after this sample
    let s' : CR := { total := s.total + 1, lastT := t, lastV := v, totalV := s.totalV + (v - s.lastV) }
    have hstep : s.step t v = (s', true) := by
      simp only [CR.step, hne, if_false, htl, if_true, s']
      have : v ≥ s.lastV := hvl
      simp [this]
    have := ih s' (by simp [s']) ht.2
      (fun q hq => ht.1 q.1 (List.mem_map.mpr ⟨q, hq, rfl⟩))
      hv.2 (fun q hq => hv.1 q.2 (List.mem_map.mpr ⟨q, hq, rfl⟩))
    obtain ⟨h1, h2, h3⟩ := this
    have hcr : crChunk ((t, v) :: rest) s [] =
        ((t, s.totalV + (v - s.lastV)) :: (crChunk rest s' []).1, (crChunk rest s' []).2.1, (crChunk rest s' []).2.2) := by
      rw [crChunk, hstep]
      simp [popFrames, s']
    rw [hcr]
    refine ⟨?_, h2, ?_⟩
    · simp only [h1, List.map_cons, s']
      congr 1
      apply List.map_congr_left
      intro q _
      congr 1
      omega
    · simp only [h3]
      cases rest with
      | nil => simp [s']
      | cons q qs =>
        simp only [List.getLast?_cons_cons]
        cases hq : (q :: qs).getLast? with
        | none => simp at hq
        | some l =>
          simp only [s', List.length_cons]
          congr 1 <;> omega

/-- running reset-adjusted totals: `acc` is the total so far, `last` the previous value -/
def adjScan : Int → Int → List Pt → List Pt
  | _, _, [] => []
  | acc, last, (t, v) :: rest =>
    (t, if v < last then acc + v else acc + (v - last)) ::
      adjScan (if v < last then acc + v else acc + (v - last)) v rest

/-- **reading raw-like samples** (strictly increasing timestamps, any values): every sample is
    returned with the reset-adjusted running total -/
theorem crChunk_raw : ∀ (l : List Pt) (s : CR), 0 < s.total →
    (l.map (·.1)).Pairwise (· < ·) → (∀ p ∈ l, s.lastT < p.1) →
    (crChunk l s []).1 = adjScan s.totalV s.lastV l ∧ (crChunk l s []).2.2 = [] := by
  intro l
  induction l with
  | nil => intro s _ _ _; simp [crChunk, adjScan]
  | cons p rest ih =>
    intro s hs ht hb
    obtain ⟨t, v⟩ := p
    have htl : s.lastT < t := hb (t, v) (by simp)
    have hne : s.total ≠ 0 := by omega
    simp only [List.map_cons, List.pairwise_cons] at ht
    let s' : CR := { total := s.total + 1, lastT := t, lastV := v,
                     totalV := if v < s.lastV then s.totalV + v else s.totalV + (v - s.lastV) }
    have hstep : s.step t v = (s', true) := by
      simp only [CR.step, hne, if_false, htl, if_true, s']
      by_cases h : v < s.lastV
      · have : ¬ v ≥ s.lastV := by omega
        simp [h, this]
      · have : v ≥ s.lastV := by omega
        simp [h, this]
    obtain ⟨h1, h2⟩ := ih s' (by simp [s']) ht.2 (fun q hq => ht.1 q.1 (List.mem_map.mpr ⟨q, hq, rfl⟩))
    have hcr : crChunk ((t, v) :: rest) s [] =
        ((t, s'.totalV) :: (crChunk rest s' []).1, (crChunk rest s' []).2.1, (crChunk rest s' []).2.2) := by
      rw [crChunk, hstep]
      simp [popFrames, s']
    rw [hcr]
    exact ⟨by simp only [h1, adjScan, s'], h2⟩

end Thanos.Downsample
