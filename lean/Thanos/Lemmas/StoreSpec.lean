import Thanos.Model.StoreSpec
import Thanos.Lemmas.Labels
import Thanos.Lemmas.BlockSet
/-
  Helper lemmas about the store specification (C07, C10).
-/
namespace Thanos.StoreSpec
open Thanos.Labels

theorem mem_selectSeries (serve : Labels → Labels) (ms : List Matcher) (series : List Series) (mint maxt : Int)
    (e : Entry) :
    e ∈ selectSeries serve ms series mint maxt ↔
      ∃ s ∈ series, matchesAll ms s.lset = true ∧ (chunksForTime s.chunks mint maxt).isEmpty = false ∧
        e = (serve s.lset, chunksForTime s.chunks mint maxt) := by
  unfold selectSeries
  rw [List.mem_filterMap]
  constructor
  · rintro ⟨s, hs, h⟩
    refine ⟨s, hs, ?_⟩
    split at h
    next hm =>
      simp only at h
      split at h
      · simp at h
      next hc =>
        simp at h
        exact ⟨hm, by simpa using hc, h.symm⟩
    · simp at h
  · rintro ⟨s, hs, hm, hc, he⟩
    refine ⟨s, hs, ?_⟩
    simp [hm, hc, he]

theorem groupBlocks_mem (ext : Labels) : ∀ (bs : List Block) (i : Nat) (x : BlockSet.Block), x ∈ groupBlocks ext i bs →
    ∃ b, bs[x.id - i]? = some b ∧ i ≤ x.id ∧ x.mint = b.mint ∧ x.maxt = b.maxt ∧ x.res = b.res
  | [], _, x, h => by simp [groupBlocks] at h
  | b :: bs, i, x, h => by
    simp only [groupBlocks] at h
    split at h
    · rcases List.mem_cons.mp h with rfl | h'
      · exact ⟨b, by simp, Nat.le_refl _, rfl, rfl, rfl⟩
      · obtain ⟨b', h1, h2, h3, h4⟩ := groupBlocks_mem ext bs (i + 1) x h'
        refine ⟨b', ?_, by omega, h3, h4⟩
        have : x.id - i = (x.id - (i + 1)) + 1 := by omega
        rw [this, List.getElem?_cons_succ]
        exact h1
    · obtain ⟨b', h1, h2, h3, h4⟩ := groupBlocks_mem ext bs (i + 1) x h
      refine ⟨b', ?_, by omega, h3, h4⟩
      have : x.id - i = (x.id - (i + 1)) + 1 := by omega
      rw [this, List.getElem?_cons_succ]
      exact h1

/-- what `BucketStore.Series` reads is among the blocks the label calls look at: `getFor` only returns blocks
    that overlap the range (C15) -/
theorem mem_selected (blocks : List Block) (r : Req) (b : Block) (h : b ∈ selected blocks r) :
    b ∈ blocks.filter (blockOverlaps · r.mint r.maxt) := by
  unfold selected at h
  obtain ⟨ext, _, hb⟩ := List.mem_flatMap.mp h
  unfold selectedIn at hb
  simp only at hb
  cases hg : BlockSet.getFor true true (BlockSet.addAll BlockSet.empty (groupBlocks ext 0 blocks)).1 r.mint r.maxt r.maxRes with
  | none => rw [hg] at hb; simp at hb
  | some sel =>
    rw [hg] at hb
    simp only at hb
    obtain ⟨x, hx, hxb⟩ := List.mem_filterMap.mp hb
    obtain ⟨hmem, h1, h2⟩ := BlockSet.getFor_sound hg hx
    have hx' : x ∈ groupBlocks ext 0 blocks := by
      rcases BlockSet.addAll_mem _ _ x hmem with h' | h'
      · exact h'
      · have : BlockSet.empty.blocks.flatten = [] := by decide
        rw [this] at h'
        simp at h'
    obtain ⟨b', hb', _, hm, hM, _⟩ := groupBlocks_mem ext blocks 0 x hx'
    simp only [Nat.sub_zero] at hb'
    rw [hb'] at hxb
    simp at hxb
    subst hxb
    rw [List.mem_filter]
    refine ⟨List.mem_of_getElem? hb', ?_⟩
    unfold blockOverlaps
    simp
    omega

theorem filterMap_congr' {α β : Type} {f g : α → Option β} : ∀ {l : List α}, (∀ a ∈ l, f a = g a) →
    l.filterMap f = l.filterMap g
  | [], _ => rfl
  | a :: l, h => by
    simp only [List.filterMap_cons]
    rw [h a (by simp), filterMap_congr' (fun x hx => h x (List.mem_cons_of_mem _ hx))]

theorem flatMap_congr' {α β : Type} {f g : α → List β} : ∀ {l : List α}, (∀ a ∈ l, f a = g a) →
    l.flatMap f = l.flatMap g
  | [], _ => rfl
  | a :: l, h => by
    simp only [List.flatMap_cons]
    rw [h a (by simp), flatMap_congr' (fun x hx => h x (List.mem_cons_of_mem _ hx))]

theorem mem_insertNat (x : Nat) : ∀ (l : List Nat) (y : Nat), y ∈ insertNat x l ↔ y = x ∨ y ∈ l
  | [], y => by simp [insertNat]
  | z :: zs, y => by
    simp only [insertNat]
    split
    · simp
    · split
      next h => subst h; simp
      · simp only [List.mem_cons, mem_insertNat x zs y]
        constructor
        · rintro (h | h | h)
          · exact Or.inr (Or.inl h)
          · exact Or.inl h
          · exact Or.inr (Or.inr h)
        · rintro (h | h | h)
          · exact Or.inr (Or.inl h)
          · exact Or.inl h
          · exact Or.inr (Or.inr h)

theorem mem_canonNats : ∀ (l : List Nat) (y : Nat), y ∈ canonNats l ↔ y ∈ l
  | [], y => by simp [canonNats]
  | x :: xs, y => by
    have ih := mem_canonNats xs y
    simp only [canonNats, List.foldr] at ih ⊢
    rw [mem_insertNat, ih]
    simp

theorem lookup_some_mem_names (l : Labels) (n v : Nat) (h : lookup l n = some v) : n ∈ l.map (·.1) := by
  apply Decidable.byContradiction
  intro hn
  have := (lookup_none_iff l n).mpr hn
  rw [this] at h
  simp at h

/-- a label of a strictly sorted set is what `lookup` finds under its name -/
theorem mem_lookup : ∀ (l : Labels), StrictSorted l → ∀ x ∈ l, lookup l x.1 = some x.2
  | [], _, x, hx => by simp at hx
  | (m, w) :: ys, hs, x, hx => by
    have hp := List.pairwise_cons.mp hs
    rcases List.mem_cons.mp hx with rfl | hx'
    · simp [lookup]
    · have := hp.1 x hx'
      simp only [lookup]
      have hne' : ¬ m = x.1 := by
        simp only at this
        omega
      simp only [hne', if_false]
      exact mem_lookup ys hp.2 x hx'

theorem lookup_ne_zero : ∀ (l : Labels), NoEmpty l → ∀ k, lookup l k ≠ some 0
  | [], _, k, h => by simp [lookup] at h
  | (m, w) :: ys, hne, k, h => by
    simp only [lookup] at h
    split at h
    · have := hne (m, w) (by simp)
      simp at h
      exact this h
    · exact lookup_ne_zero ys (fun z hz => hne z (List.mem_cons_of_mem _ hz)) k h

theorem get_of_lookup (l : Labels) (n v : Nat) (h : lookup l n = some v) : get l n = v := by
  simp [Labels.get, h]

/-! ### the proxy's merge -/

theorem mem_mergeTwo : ∀ (xs ys : List Nat) (a : Nat), a ∈ mergeTwo xs ys ↔ a ∈ xs ∨ a ∈ ys
  | [], ys, a => by simp [mergeTwo]
  | x :: xs, ys, a => by
    simp only [mergeTwo]
    induction ys with
    | nil => simp [mergeTwo.aux]
    | cons y ys ih =>
      simp only [mergeTwo.aux]
      split
      · simp only [List.mem_cons, mem_mergeTwo xs (y :: ys) a]
        constructor
        · rintro (h | h | h | h)
          · exact Or.inl (Or.inl h)
          · exact Or.inl (Or.inr h)
          · exact Or.inr (Or.inl h)
          · exact Or.inr (Or.inr h)
        · rintro ((h | h) | h | h)
          · exact Or.inl h
          · exact Or.inr (Or.inl h)
          · exact Or.inr (Or.inr (Or.inl h))
          · exact Or.inr (Or.inr (Or.inr h))
      · split
        · simp only [List.mem_cons, ih]
          constructor
          · rintro (h | (h | h) | h)
            · exact Or.inr (Or.inl h)
            · exact Or.inl (Or.inl h)
            · exact Or.inl (Or.inr h)
            · exact Or.inr (Or.inr h)
          · rintro ((h | h) | h | h)
            · exact Or.inr (Or.inl (Or.inl h))
            · exact Or.inr (Or.inl (Or.inr h))
            · exact Or.inl h
            · exact Or.inr (Or.inr h)
        · next h1 h2 =>
          have hxy : x = y := by omega
          subst hxy
          simp only [List.mem_cons, mem_mergeTwo xs ys a]
          constructor
          · rintro (h | h | h)
            · exact Or.inl (Or.inl h)
            · exact Or.inl (Or.inr h)
            · exact Or.inr (Or.inr h)
          · rintro ((h | h) | h | h)
            · exact Or.inl h
            · exact Or.inr (Or.inl h)
            · exact Or.inl h
            · exact Or.inr (Or.inr h)

/-- `MergeSlices` loses no element and invents none, whatever the split -/
theorem mem_mergeSlices : ∀ (fuel : Nat) (as : List (List Nat)) (x : Nat), as.length ≤ fuel →
    (x ∈ mergeSlices fuel as ↔ ∃ a ∈ as, x ∈ a)
  | _, [], x, _ => by simp [mergeSlices]
  | _, [a], x, _ => by simp [mergeSlices]
  | 0, _ :: _ :: _, _, h => by simp at h
  | fuel + 1, a :: b :: rest, x, h => by
    simp only [mergeSlices]
    have hl : (a :: b :: rest).length / 2 ≤ (a :: b :: rest).length := Nat.div_le_self _ _
    have hpos : 1 ≤ (a :: b :: rest).length / 2 := by simp; omega
    have hlt : (a :: b :: rest).length / 2 < (a :: b :: rest).length := by simp; omega
    have h1 : ((a :: b :: rest).take ((a :: b :: rest).length / 2)).length ≤ fuel := by
      rw [List.length_take]; simp at h ⊢; omega
    have h2 : ((a :: b :: rest).drop ((a :: b :: rest).length / 2)).length ≤ fuel := by
      rw [List.length_drop]; simp at h ⊢; omega
    rw [mem_mergeTwo, mem_mergeSlices fuel _ x h1, mem_mergeSlices fuel _ x h2]
    constructor
    · rintro (⟨l, hl', hx⟩ | ⟨l, hl', hx⟩)
      · exact ⟨l, List.mem_of_mem_take hl', hx⟩
      · exact ⟨l, List.mem_of_mem_drop hl', hx⟩
    · rintro ⟨l, hl', hx⟩
      have := List.take_append_drop ((a :: b :: rest).length / 2) (a :: b :: rest)
      rw [← this] at hl'
      rcases List.mem_append.mp hl' with h' | h'
      · exact Or.inl ⟨l, h', hx⟩
      · exact Or.inr ⟨l, h', hx⟩

theorem mem_insertNatDup (x : Nat) : ∀ (l : List Nat) (y : Nat), y ∈ insertNatDup x l ↔ y = x ∨ y ∈ l
  | [], y => by simp [insertNatDup]
  | z :: zs, y => by
    simp only [insertNatDup]
    split
    · simp
    · simp only [List.mem_cons, mem_insertNatDup x zs y]
      constructor
      · rintro (h | h | h)
        · exact Or.inr (Or.inl h)
        · exact Or.inl h
        · exact Or.inr (Or.inr h)
      · rintro (h | h | h)
        · exact Or.inr (Or.inl h)
        · exact Or.inl h
        · exact Or.inr (Or.inr h)

theorem mem_sortNatsDup : ∀ (l : List Nat) (y : Nat), y ∈ sortNatsDup l ↔ y ∈ l
  | [], y => by simp [sortNatsDup]
  | x :: xs, y => by
    have ih := mem_sortNatsDup xs y
    simp only [sortNatsDup, List.foldr] at ih ⊢
    rw [mem_insertNatDup, ih]
    simp

end Thanos.StoreSpec
