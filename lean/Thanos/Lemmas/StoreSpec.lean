import Thanos.Model.StoreSpec
import Thanos.Lemmas.Labels
/-
  Helper lemmas about the store specification (C07, C10).
-/
namespace Thanos.StoreSpec
open Thanos.Labels

theorem mem_selectSeries (serve : Labels → Labels) (ms : List Matcher) (series : List Series) (mint maxt : Int)
    (e : Entry) :
    e ∈ selectSeries serve ms series mint maxt ↔
      ∃ s ∈ series, matchesAll ms s.lset = true ∧ (chunksForTime s.chunks mint maxt).isEmpty = false ∧
        e = (serve s.lset, chunksForTime s.chunks mint maxt) := by
  unfold selectSeries
  rw [List.mem_filterMap]
  constructor
  · rintro ⟨s, hs, h⟩
    refine ⟨s, hs, ?_⟩
    split at h
    next hm =>
      simp only at h
      split at h
      · simp at h
      next hc =>
        simp at h
        exact ⟨hm, by simpa using hc, h.symm⟩
    · simp at h
  · rintro ⟨s, hs, hm, hc, he⟩
    refine ⟨s, hs, ?_⟩
    simp [hm, hc, he]

theorem mem_selected (blocks : List Block) (r : Req) (b : Block) (h : b ∈ selected blocks r) :
    b ∈ blocks.filter (blockOverlaps · r.mint r.maxt) := by
  unfold selected at h
  split at h
  · simp at h
  · exact h

theorem filterMap_congr' {α β : Type} {f g : α → Option β} : ∀ {l : List α}, (∀ a ∈ l, f a = g a) →
    l.filterMap f = l.filterMap g
  | [], _ => rfl
  | a :: l, h => by
    simp only [List.filterMap_cons]
    rw [h a (by simp), filterMap_congr' (fun x hx => h x (List.mem_cons_of_mem _ hx))]

theorem flatMap_congr' {α β : Type} {f g : α → List β} : ∀ {l : List α}, (∀ a ∈ l, f a = g a) →
    l.flatMap f = l.flatMap g
  | [], _ => rfl
  | a :: l, h => by
    simp only [List.flatMap_cons]
    rw [h a (by simp), flatMap_congr' (fun x hx => h x (List.mem_cons_of_mem _ hx))]

theorem mem_insertNat (x : Nat) : ∀ (l : List Nat) (y : Nat), y ∈ insertNat x l ↔ y = x ∨ y ∈ l
  | [], y => by simp [insertNat]
  | z :: zs, y => by
    simp only [insertNat]
    split
    · simp
    · split
      next h => subst h; simp
      · simp only [List.mem_cons, mem_insertNat x zs y]
        constructor
        · rintro (h | h | h)
          · exact Or.inr (Or.inl h)
          · exact Or.inl h
          · exact Or.inr (Or.inr h)
        · rintro (h | h | h)
          · exact Or.inr (Or.inl h)
          · exact Or.inl h
          · exact Or.inr (Or.inr h)

theorem mem_canonNats : ∀ (l : List Nat) (y : Nat), y ∈ canonNats l ↔ y ∈ l
  | [], y => by simp [canonNats]
  | x :: xs, y => by
    have ih := mem_canonNats xs y
    simp only [canonNats, List.foldr] at ih ⊢
    rw [mem_insertNat, ih]
    simp

theorem lookup_some_mem_names (l : Labels) (n v : Nat) (h : lookup l n = some v) : n ∈ l.map (·.1) := by
  apply Decidable.byContradiction
  intro hn
  have := (lookup_none_iff l n).mpr hn
  rw [this] at h
  simp at h

/-- a label of a strictly sorted set is what `lookup` finds under its name -/
theorem mem_lookup : ∀ (l : Labels), StrictSorted l → ∀ x ∈ l, lookup l x.1 = some x.2
  | [], _, x, hx => by simp at hx
  | (m, w) :: ys, hs, x, hx => by
    have hp := List.pairwise_cons.mp hs
    rcases List.mem_cons.mp hx with rfl | hx'
    · simp [lookup]
    · have := hp.1 x hx'
      simp only [lookup]
      have hne' : ¬ m = x.1 := by
        simp only at this
        omega
      simp only [hne', if_false]
      exact mem_lookup ys hp.2 x hx'

theorem lookup_ne_zero : ∀ (l : Labels), NoEmpty l → ∀ k, lookup l k ≠ some 0
  | [], _, k, h => by simp [lookup] at h
  | (m, w) :: ys, hne, k, h => by
    simp only [lookup] at h
    split at h
    · have := hne (m, w) (by simp)
      simp at h
      exact this h
    · exact lookup_ne_zero ys (fun z hz => hne z (List.mem_cons_of_mem _ hz)) k h

theorem get_of_lookup (l : Labels) (n v : Nat) (h : lookup l n = some v) : get l n = v := by
  simp [Labels.get, h]

end Thanos.StoreSpec
