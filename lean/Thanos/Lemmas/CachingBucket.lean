import Thanos.Model.CachingBucket
/-
  Helper lemmas for C14: slices of an object, subrange-aligned offsets, merged ranges, the
  subranges reader, the fetch of missing subranges.
-/
namespace Thanos.CachingBucket

/-! ### slices -/

theorem slice_length (obj : Bytes) (a b : Nat) : (slice obj a b).length = min b obj.length - a := by
  simp only [slice, List.length_take, List.length_drop]
  omega

theorem slice_nil (obj : Bytes) {a b : Nat} (h : b ≤ a) : slice obj a b = [] := by
  have : b - a = 0 := by omega
  simp [slice, this]

/-- a piece of a slice is a slice -/
theorem slice_sub (obj : Bytes) (c e x n : Nat) (h : c + x + n ≤ e) :
    ((slice obj c e).drop x).take n = slice obj (c + x) (c + x + n) := by
  simp only [slice, List.drop_take, List.drop_drop, List.take_take]
  have h1 : min n (e - c - x) = n := by omega
  have h2 : c + x + n - (c + x) = n := by omega
  rw [h1, h2]

/-- consecutive slices concatenate -/
theorem slice_append (obj : Bytes) {r m e : Nat} (h1 : r ≤ m) (h2 : m ≤ e) :
    slice obj r m ++ slice obj m e = slice obj r e := by
  simp only [slice]
  have he : e - r = (m - r) + (e - m) := by omega
  rw [he, List.take_add, List.drop_drop]
  have : r + (m - r) = m := by omega
  rw [this]

theorem bucketGetRange_eq (obj : Bytes) (off len : Nat) :
    bucketGetRange obj off len = slice obj off (min (off + len) obj.length) := rfl

/-! ### alignment -/

/-- two different multiples of `S` are at least `S` apart -/
theorem aligned_step {S a b : Nat} (ha : S ∣ a) (hb : S ∣ b) (h : a < b) : a + S ≤ b := by
  have hd : S ∣ b - a := Nat.dvd_sub hb ha
  have hpos : 0 < b - a := by omega
  have := Nat.le_of_dvd hpos hd
  omega

theorem rounddown_dvd (x S : Nat) : S ∣ x / S * S := Nat.dvd_mul_left S (x / S)

theorem rounddown_le (x S : Nat) : x / S * S ≤ x := Nat.div_mul_le_self x S

theorem lt_rounddown_add {x S : Nat} (hS : 0 < S) : x < x / S * S + S := by
  have := Nat.div_add_mod x S
  have hm := Nat.mod_lt x hS
  rw [Nat.mul_comm] at this
  omega

/-- `(x/S)*S + (S if x%S > 0)` is the least multiple of `S` that is ≥ x -/
theorem roundup_spec {x S : Nat} (hS : 0 < S) :
    let r := x / S * S + (if x % S > 0 then S else 0)
    S ∣ r ∧ x ≤ r ∧ r < x + S := by
  have hdm := Nat.div_add_mod x S
  have hm := Nat.mod_lt x hS
  rw [Nat.mul_comm] at hdm
  by_cases h : x % S > 0
  · simp only [h, if_true]
    refine ⟨Nat.dvd_add (rounddown_dvd x S) (Nat.dvd_refl S), by omega, by omega⟩
  · simp only [h, if_false, Nat.add_zero]
    exact ⟨rounddown_dvd x S, by omega, by omega⟩

/-! ### the offsets of a `for off := lo; off < hi; off += S` loop -/

theorem mem_offsetsFrom {S : Nat} (hS : 0 < S) : ∀ (f lo hi o : Nat), S ∣ lo → hi - lo ≤ f →
    (o ∈ offsetsFrom S f lo hi ↔ lo ≤ o ∧ o < hi ∧ S ∣ o)
  | 0, lo, hi, o, _, hf => by
    simp only [offsetsFrom, List.not_mem_nil, false_iff]
    omega
  | f + 1, lo, hi, o, hlo, hf => by
    simp only [offsetsFrom]
    by_cases h : lo < hi
    · simp only [h, if_true, List.mem_cons]
      rw [mem_offsetsFrom hS f (lo + S) hi o (Nat.dvd_add hlo (Nat.dvd_refl S)) (by omega)]
      constructor
      · rintro (rfl | ⟨h1, h2, h3⟩)
        · exact ⟨Nat.le_refl _, h, hlo⟩
        · exact ⟨by omega, h2, h3⟩
      · rintro ⟨h1, h2, h3⟩
        by_cases he : o = lo
        · exact Or.inl he
        · right
          have := aligned_step hlo h3 (by omega)
          exact ⟨this, h2, h3⟩
    · simp only [h, if_false, List.not_mem_nil, false_iff]
      omega

theorem mem_offsets {S : Nat} (hS : 0 < S) {lo hi o : Nat} (hlo : S ∣ lo) :
    o ∈ offsets S lo hi ↔ lo ≤ o ∧ o < hi ∧ S ∣ o :=
  mem_offsetsFrom hS _ lo hi o hlo (Nat.le_refl _)

/-! ### association lists -/

theorem lookup_mem {α : Type} : ∀ (l : List (Nat × α)) (k : Nat) (v : α), l.lookup k = some v → (k, v) ∈ l
  | [], _, _, h => by simp [List.lookup] at h
  | (k', v') :: l, k, v, h => by
    simp only [List.lookup] at h
    by_cases hk : k = k'
    · subst hk
      simp at h
      subst h
      simp
    · have : (k == k') = false := by simpa using hk
      simp only [this] at h
      exact List.mem_cons_of_mem _ (lookup_mem l k v h)

theorem lookup_isSome_of_mem {α : Type} : ∀ (l : List (Nat × α)) (k : Nat) (v : α), (k, v) ∈ l →
    (l.lookup k).isSome = true
  | [], _, _, h => by simp at h
  | (k', v') :: l, k, v, h => by
    simp only [List.lookup]
    by_cases hk : k = k'
    · subst hk; simp
    · have : (k == k') = false := by simpa using hk
      simp only [this]
      simp only [List.mem_cons, Prod.mk.injEq] at h
      rcases h with ⟨h1, _⟩ | h
      · exact absurd h1 hk
      · exact lookup_isSome_of_mem l k v h

theorem filterMap_length_le {α β : Type} (f : α → Option β) : ∀ (l : List α), (l.filterMap f).length ≤ l.length
  | [] => by simp
  | x :: xs => by
    have := filterMap_length_le f xs
    simp only [List.filterMap_cons]
    cases f x <;> simp <;> omega

/-- if nothing was filtered out, every element was mapped -/
theorem filterMap_full {α β : Type} (f : α → Option β) : ∀ (l : List α),
    l.length ≤ (l.filterMap f).length → ∀ x ∈ l, (f x).isSome = true
  | [], _, x, hx => by simp at hx
  | y :: ys, h, x, hx => by
    simp only [List.filterMap_cons] at h
    have hle := filterMap_length_le f ys
    cases hy : f y with
    | none =>
      simp only [hy, List.length_cons] at h
      omega
    | some b =>
      simp only [hy, List.length_cons] at h
      simp only [List.mem_cons] at hx
      rcases hx with rfl | hx
      · simp [hy]
      · exact filterMap_full f ys (by omega) x hx

/-! ### the subranges reader -/

theorem le_rounddown {S a x : Nat} (hS : 0 < S) (ha : S ∣ a) (h : a ≤ x) : a ≤ x / S * S := by
  rcases Nat.lt_or_ge (x / S * S) a with hlt | hge
  · have := aligned_step (rounddown_dvd x S) ha hlt
    have := @lt_rounddown_add x S hS
    omega
  · exact hge

/-- every aligned offset in `[lo, hi)` has its subrange in `hits`, with the object's bytes -/
def Complete (obj : Bytes) (S lo hi : Nat) (hits : List (Nat × Bytes)) : Prop :=
  ∀ o, lo ≤ o → o < hi → S ∣ o → hits.lookup o = some (slice obj o (min (o + S) obj.length))

/-- Reading from `r` to `e` with buffers of `p ≥ 1` bytes yields `obj[r:e]`, whatever `p` is. -/
theorem readAll_correct (obj : Bytes) {S p : Nat} (hS : 0 < S) (hp : 0 < p) (hits : List (Nat × Bytes))
    {lo hi : Nat} (hlo : S ∣ lo) (hc : Complete obj S lo hi hits) :
    ∀ (fuel r e : Nat), lo ≤ r → r ≤ e → e ≤ hi → e ≤ obj.length → e - r + 1 ≤ fuel →
      readAll S hits p fuel r ((e : Int) - r) = .ok (slice obj r e)
  | 0, r, e, _, _, _, _, hf => by omega
  | fuel + 1, r, e, h1, h2, h3, h4, hf => by
    simp only [readAll, readStep]
    by_cases hre : r = e
    · subst hre
      simp [slice_nil]
    · have hlt : r < e := by omega
      have hrem : ¬ ((e : Int) - r ≤ 0) := by omega
      simp only [hrem, if_false]
      have hcur_lo : lo ≤ r / S * S := le_rounddown hS hlo h1
      have hcur_le : r / S * S ≤ r := rounddown_le r S
      have hcur_lt : r < r / S * S + S := lt_rounddown_add hS
      have hlook := hc (r / S * S) hcur_lo (by omega) (rounddown_dvd r S)
      simp only [hlook]
      generalize hcur : r / S * S = cur at *
      have hlen : (slice obj cur (min (cur + S) obj.length)).length = min (cur + S) obj.length - cur := by
        rw [slice_length]; omega
      have hnot : ¬ ((slice obj cur (min (cur + S) obj.length)).length ≤ r - cur) := by
        rw [hlen]; omega
      simp only [hnot, if_false]
      have htn : ((e : Int) - r).toNat = e - r := by omega
      rw [hlen, htn]
      generalize htc : min (min (min (cur + S) obj.length - cur - (r - cur)) p) (e - r) = tc
      have htc1 : 1 ≤ tc := by omega
      have htc2 : r + tc ≤ e := by omega
      have htc3 : cur + (r - cur) + tc ≤ min (cur + S) obj.length := by omega
      rw [slice_sub obj cur _ (r - cur) tc htc3]
      have hr : cur + (r - cur) = r := by omega
      rw [hr]
      have hcast : (e : Int) - (r : Int) - (tc : Int) = (e : Int) - ((r + tc : Nat) : Int) := by
        push_cast; omega
      rw [hcast, readAll_correct obj hS hp hits hlo hc fuel (r + tc) e (by omega) htc2 h3 h4 (by omega)]
      simp only
      rw [slice_append obj (by omega) htc2]

/-! ### merged ranges -/

/-- a sorted list of non-empty, subrange-aligned, pairwise disjoint ranges inside `[lo, hi]` -/
def Chain (S hi : Nat) : Nat → List Rng → Prop
  | _, [] => True
  | lo, m :: ms => lo ≤ m.start ∧ m.start < m.stop ∧ m.stop ≤ hi ∧ S ∣ m.start ∧ S ∣ m.stop ∧ Chain S hi m.stop ms

def covered (ms : List Rng) (x : Nat) : Prop := ∃ m ∈ ms, m.start ≤ x ∧ x < m.stop

theorem Chain.weaken {S hi : Nat} : ∀ {lo lo' : Nat} {ms : List Rng}, lo' ≤ lo → Chain S hi lo ms → Chain S hi lo' ms
  | _, _, [], _, _ => trivial
  | _, _, _ :: _, h, ⟨h1, rest⟩ => ⟨Nat.le_trans h h1, rest⟩

theorem Chain.mem {S hi : Nat} : ∀ {lo : Nat} {ms : List Rng} {m : Rng}, Chain S hi lo ms → m ∈ ms →
    lo ≤ m.start ∧ m.start < m.stop ∧ m.stop ≤ hi ∧ S ∣ m.start ∧ S ∣ m.stop
  | _, [], _, _, hm => by simp at hm
  | lo, m' :: ms, m, ⟨h1, h2, h3, h4, h5, hrest⟩, hm => by
    simp only [List.mem_cons] at hm
    rcases hm with rfl | hm
    · exact ⟨h1, h2, h3, h4, h5⟩
    · have := Chain.mem hrest hm
      exact ⟨by omega, this.2⟩

theorem mergeGo_chain {S hi limit : Nat} : ∀ (rs : List Rng) (cur : Rng) (lo : Nat),
    Chain S hi lo (cur :: rs) →
    Chain S hi lo (mergeGo limit cur rs) ∧
      ∀ x, covered (cur :: rs) x → covered (mergeGo limit cur rs) x
  | [], cur, lo, h => ⟨by simpa [mergeGo] using h, by intro x hx; simpa [mergeGo] using hx⟩
  | r :: rs, cur, lo, ⟨h1, h2, h3, h4, h5, hr1, hr2, hr3, hr4, hr5, hrest⟩ => by
    simp only [mergeGo]
    split
    · -- merged into one range
      have hch : Chain S hi lo (⟨cur.start, r.stop⟩ :: rs) :=
        ⟨h1, by simp only; omega, hr3, h4, hr5, hrest⟩
      obtain ⟨c1, c2⟩ := mergeGo_chain rs ⟨cur.start, r.stop⟩ lo hch
      refine ⟨c1, ?_⟩
      intro x hx
      apply c2
      obtain ⟨m, hm, hx1, hx2⟩ := hx
      simp only [List.mem_cons] at hm
      rcases hm with rfl | rfl | hm
      · exact ⟨⟨m.start, r.stop⟩, by simp, by simp only; omega, by simp only; omega⟩
      · exact ⟨⟨cur.start, m.stop⟩, by simp, by simp only; omega, by simp only; omega⟩
      · exact ⟨m, by simp [hm], hx1, hx2⟩
    · obtain ⟨c1, c2⟩ := mergeGo_chain rs r cur.stop ⟨hr1, hr2, hr3, hr4, hr5, hrest⟩
      refine ⟨⟨h1, h2, h3, h4, h5, c1⟩, ?_⟩
      intro x hx
      obtain ⟨m, hm, hx1, hx2⟩ := hx
      simp only [List.mem_cons] at hm
      rcases hm with rfl | hm
      · exact ⟨m, by simp, hx1, hx2⟩
      · obtain ⟨m', hm', hx'⟩ := c2 x ⟨m, by simpa using hm, hx1, hx2⟩
        exact ⟨m', by simp [hm'], hx'⟩

theorem mergeRanges_chain {S hi limit lo : Nat} (ms : List Rng) (h : Chain S hi lo ms) :
    Chain S hi lo (mergeRanges limit ms) ∧ ∀ x, covered ms x → covered (mergeRanges limit ms) x := by
  cases ms with
  | nil => exact ⟨trivial, fun x hx => hx⟩
  | cons m ms => exact mergeGo_chain ms m lo h

theorem mergeUntil_chain {S hi lo maxSub : Nat} : ∀ (fuel limit : Nat) (ms : List Rng), Chain S hi lo ms →
    Chain S hi lo (mergeUntil maxSub fuel limit ms) ∧
      ∀ x, covered ms x → covered (mergeUntil maxSub fuel limit ms) x
  | 0, _, ms, h => ⟨h, fun _ hx => hx⟩
  | fuel + 1, limit, ms, h => by
    simp only [mergeUntil]
    split
    · obtain ⟨c1, c2⟩ := mergeRanges_chain (limit := limit) ms h
      obtain ⟨d1, d2⟩ := mergeUntil_chain (maxSub := maxSub) fuel (limit * 2) _ c1
      exact ⟨d1, fun x hx => d2 x (c2 x hx)⟩
    · exact ⟨h, fun _ hx => hx⟩

/-- the missing subranges `[o, o+S)` of a filtered offsets loop form a chain -/
theorem missing_chain {S : Nat} (hS : 0 < S) (keep : Nat → Bool) : ∀ (f lo hi : Nat), S ∣ lo →
    S ∣ hi → Chain S hi lo (((offsetsFrom S f lo hi).filter keep).map fun o => (⟨o, o + S⟩ : Rng))
  | 0, _, _, _, _ => trivial
  | f + 1, lo, hi, hlo, hhi => by
    simp only [offsetsFrom]
    by_cases h : lo < hi
    · simp only [h, if_true, List.filter_cons]
      have ih := missing_chain hS keep f (lo + S) hi (Nat.dvd_add hlo (Nat.dvd_refl S)) hhi
      have hstep := aligned_step hlo hhi h
      cases keep lo with
      | true =>
        simp only [if_true, List.map_cons]
        exact ⟨Nat.le_refl _, by simp only; omega, hstep, hlo, Nat.dvd_add hlo (Nat.dvd_refl S), ih⟩
      | false =>
        simp only [Bool.false_eq_true, if_false]
        exact Chain.weaken (by omega) ih
    · simp only [h, if_false, List.filter_nil, List.map_nil]
      trivial

/-! ### fetching the missing subranges -/

/-- the geometry of one request, as cachedGetRange computes it -/
structure Geom (S size startR endR : Nat) (lastOff : Int) (lastLen : Nat) : Prop where
  hS : 0 < S
  start_dvd : S ∣ startR
  end_dvd : S ∣ endR
  endR_ge : S ≤ endR
  lastOff_eq : lastOff = (endR : Int) - S
  lastEnd : (endR - S) + lastLen = min endR size
  size_gt : endR - S < size

/-- what is stored into the cache: under the key `(start, end)` exactly `obj[start:end]` -/
def StoresHonest (obj : Bytes) (stores : List ((Nat × Nat) × Bytes)) : Prop :=
  ∀ e ∈ stores, e.1.1 < e.1.2 ∧ e.2 = slice obj e.1.1 e.1.2

/-- what `hits` may contain: only true subranges of the object -/
def GoodHits (obj : Bytes) (S : Nat) (hits : List (Nat × Bytes)) : Prop :=
  ∀ o b, (o, b) ∈ hits → b = slice obj o (min (o + S) obj.length)

theorem mapM_ok {α β : Type} (f : α → Except Err β) (g : α → β) : ∀ (l : List α),
    (∀ x ∈ l, f x = .ok (g x)) → l.mapM f = .ok (l.map g)
  | [], _ => rfl
  | x :: xs, h => by
    rw [List.mapM_cons, h x (by simp), mapM_ok f g xs (fun y hy => h y (by simp [hy]))]
    rfl

/-- one merged range: the bucket read is cut into exactly the object's subranges -/
theorem fetchRange_ok (obj : Bytes) {S startR endR : Nat} {lastOff : Int} {lastLen : Nat}
    (G : Geom S obj.length startR endR lastOff lastLen) (m : Rng)
    (h1 : m.start < m.stop) (h2 : m.stop ≤ endR) (d1 : S ∣ m.start) (d2 : S ∣ m.stop) :
    fetchRange obj S lastOff lastLen m =
      .ok ((offsets S m.start m.stop).map fun o => (o, slice obj o (min (o + S) obj.length))) := by
  have hS := G.hS
  have hlast := G.lastEnd
  have hsz := G.size_gt
  have hge := G.endR_ge
  -- what the bucket returns
  have hr : bucketGetRange obj m.start (m.stop - m.start) = slice obj m.start (min m.stop obj.length) := by
    rw [bucketGetRange_eq]
    have : m.start + (m.stop - m.start) = m.stop := by omega
    rw [this]
  have hrlen : (slice obj m.start (min m.stop obj.length)).length = min m.stop obj.length - m.start := by
    rw [slice_length]; omega
  -- m.stop is either the end of the request or at least one subrange before it
  have hstop : m.stop = endR ∨ m.stop + S ≤ endR := by
    rcases Nat.lt_or_ge m.stop endR with h | h
    · right; exact aligned_step d2 G.end_dvd h
    · left; omega
  have hmS : m.start + S ≤ m.stop := aligned_step d1 d2 h1
  unfold fetchRange
  simp only [hr]
  -- the buffer is the whole bucket answer
  have hbuf : ∃ n : Nat, (if lastOff ≥ (m.stop : Int) then (m.stop : Int) - m.start
      else ((m.stop : Int) - m.start) - S + lastLen) = (n : Int) ∧
      n = (slice obj m.start (min m.stop obj.length)).length := by
    refine ⟨min m.stop obj.length - m.start, ?_, hrlen.symm⟩
    rw [G.lastOff_eq]
    rcases hstop with h | h
    · have : ¬ ((endR : Int) - S ≥ (m.stop : Int)) := by omega
      simp only [this, if_false]
      omega
    · have : (endR : Int) - S ≥ (m.stop : Int) := by omega
      simp only [this, if_true]
      omega
  obtain ⟨n, hn1, hn2⟩ := hbuf
  rw [hn1]
  have hneg : ¬ ((n : Int) < 0) := by omega
  have hshort : ¬ (((slice obj m.start (min m.stop obj.length)).length : Int) < (n : Int)) := by omega
  simp only [hneg, hshort, if_false, Int.toNat_natCast]
  rw [List.take_of_length_le (by omega)]
  apply mapM_ok
  intro off hoff
  rw [mem_offsets hS d1] at hoff
  obtain ⟨ho1, ho2, ho3⟩ := hoff
  have hoS : off + S ≤ m.stop := aligned_step ho3 d2 ho2
  rw [G.lastOff_eq]
  by_cases hl : (off : Int) = (endR : Int) - S
  · -- the last subrange of the request
    simp only [hl, if_true]
    have hoff_eq : off = endR - S := by omega
    have hms : m.stop = endR := by omega
    have hb : ¬ (off - m.start + lastLen > (slice obj m.start (min m.stop obj.length)).length) := by
      rw [hrlen]; omega
    simp only [hb, if_false]
    have hsub := slice_sub obj m.start (min m.stop obj.length) (off - m.start) lastLen (by omega)
    have e1 : off - m.start + lastLen - (off - m.start) = lastLen := by omega
    have e2 : m.start + (off - m.start) = off := by omega
    rw [e1, hsub, e2]
    have e3 : off + lastLen = min (off + S) obj.length := by omega
    rw [e3]
  · simp only [hl, if_false]
    have hlt : off + S + S ≤ endR := by
      have h3 : off + S ≤ endR := by omega
      rcases Nat.lt_or_ge (off + S) endR with h | h
      · exact aligned_step (Nat.dvd_add ho3 (Nat.dvd_refl S)) G.end_dvd h
      · omega
    have hb : ¬ (off - m.start + S > (slice obj m.start (min m.stop obj.length)).length) := by
      rw [hrlen]; omega
    simp only [hb, if_false]
    have hsub := slice_sub obj m.start (min m.stop obj.length) (off - m.start) S (by omega)
    have e1 : off - m.start + S - (off - m.start) = S := by omega
    have e2 : m.start + (off - m.start) = off := by omega
    rw [e1, hsub, e2]
    have e3 : off + S = min (off + S) obj.length := by omega
    rw [← e3]

theorem lookup_append_isSome {α : Type} (l1 l2 : List (Nat × α)) (k : Nat)
    (h : (l1.lookup k).isSome = true) : ((l1 ++ l2).lookup k).isSome = true := by
  cases hl : l1.lookup k with
  | none => rw [hl] at h; cases h
  | some v => exact lookup_isSome_of_mem _ k v (List.mem_append_left _ (lookup_mem _ _ _ hl))

/-- all merged ranges: afterwards every subrange of every merged range is in `hits`, nothing
    wrong got in, and nothing that was there got lost -/
theorem fetchAll_ok (obj : Bytes) {S startR endR : Nat} {lastOff : Int} {lastLen : Nat}
    (G : Geom S obj.length startR endR lastOff lastLen) :
    ∀ (ms : List Rng) (acc : Fetched),
      (∀ m ∈ ms, m.start < m.stop ∧ m.stop ≤ endR ∧ S ∣ m.start ∧ S ∣ m.stop) →
      GoodHits obj S acc.hits → StoresHonest obj acc.stores →
      ∃ f, fetchAll obj S lastOff lastLen ms acc = .ok f ∧ GoodHits obj S f.hits ∧ StoresHonest obj f.stores ∧
        (∀ o, (acc.hits.lookup o).isSome = true → (f.hits.lookup o).isSome = true) ∧
        (∀ m ∈ ms, ∀ o ∈ offsets S m.start m.stop, (f.hits.lookup o).isSome = true)
  | [], acc, _, hg, hst => ⟨acc, rfl, hg, hst, fun _ h => h, by intro m hm; simp at hm⟩
  | m :: ms, acc, hv, hg, hst => by
    obtain ⟨v1, v2, v3, v4⟩ := hv m (by simp)
    have hfr := fetchRange_ok obj G m v1 v2 v3 v4
    simp only [fetchAll, hfr]
    -- the accumulator after this range
    generalize hsubs : ((offsets S m.start m.stop).map fun o => (o, slice obj o (min (o + S) obj.length))) = subs
    generalize hfresh : (subs.filter fun x => (acc.hits.lookup x.1).isNone) = fresh
    have hfresh_sub : ∀ e ∈ fresh, e ∈ subs := by
      intro e he; rw [← hfresh] at he; exact (List.mem_filter.mp he).1
    have hsubs_good : ∀ o b, (o, b) ∈ subs → b = slice obj o (min (o + S) obj.length) := by
      intro o b hob
      rw [← hsubs] at hob
      simp only [List.mem_map, Prod.mk.injEq] at hob
      obtain ⟨o', _, rfl, rfl⟩ := hob
      rfl
    have hg' : GoodHits obj S (acc.hits ++ fresh) := by
      intro o b hob
      rcases List.mem_append.mp hob with h | h
      · exact hg o b h
      · exact hsubs_good o b (hfresh_sub _ h)
    have hsubs_lt : ∀ o b, (o, b) ∈ subs → o < min (o + S) obj.length := by
      intro o b hob
      rw [← hsubs] at hob
      simp only [List.mem_map, Prod.mk.injEq] at hob
      obtain ⟨o', ho', rfl, _⟩ := hob
      rw [mem_offsets G.hS v3] at ho'
      obtain ⟨_, ho2, ho3⟩ := ho'
      have h1 : o' + S ≤ m.stop := aligned_step ho3 v4 ho2
      have h2 := G.size_gt
      have h3 := G.hS
      omega
    have hst' : StoresHonest obj (acc.stores ++ fresh.map fun x => ((x.1, min (x.1 + S) obj.length), x.2)) := by
      intro e he
      rcases List.mem_append.mp he with h | h
      · exact hst e h
      · simp only [List.mem_map] at h
        obtain ⟨⟨o, b⟩, hx, rfl⟩ := h
        exact ⟨hsubs_lt o b (hfresh_sub _ hx), hsubs_good o b (hfresh_sub _ hx)⟩
    obtain ⟨f, hf1, hf2, hf5, hf3, hf4⟩ := fetchAll_ok obj G ms
      ⟨acc.hits ++ fresh, acc.reads ++ [(m.start, m.stop - m.start)],
        acc.stores ++ fresh.map fun x => ((x.1, min (x.1 + S) obj.length), x.2)⟩
      (fun m' hm' => hv m' (by simp [hm'])) hg' hst'
    refine ⟨f, ?_, hf2, hf5, ?_, ?_⟩
    · simpa using hf1
    · intro o ho
      exact hf3 o (lookup_append_isSome _ _ _ ho)
    · intro m' hm' o ho
      simp only [List.mem_cons] at hm'
      rcases hm' with rfl | hm'
      · apply hf3
        simp only
        cases hacc : (acc.hits.lookup o).isSome with
        | true => exact lookup_append_isSome _ _ _ hacc
        | false =>
          have hmem : (o, slice obj o (min (o + S) obj.length)) ∈ fresh := by
            rw [← hfresh, List.mem_filter]
            refine ⟨by rw [← hsubs]; exact List.mem_map.mpr ⟨o, ho, rfl⟩, ?_⟩
            simp only
            cases hl : acc.hits.lookup o with
            | none => rfl
            | some v => rw [hl] at hacc; cases hacc
          exact lookup_isSome_of_mem _ o _ (List.mem_append_right _ hmem)
      · exact hf4 m' hm' o ho

end Thanos.CachingBucket
