import Thanos.Model.Merge
/-
  `cmpBytes` (Go string comparison) and `cmpLabels` (`labels.Compare`) are total orders:
  reflexive, `eq` only on equal arguments, antisymmetric under swap, transitive.
-/
namespace Thanos.Merge

theorem cmpBytes_refl : ∀ a : Bytes, cmpBytes a a = .eq
  | [] => rfl
  | x :: r => by simp [cmpBytes, cmpBytes_refl r]

theorem cmpBytes_eq : ∀ {a b : Bytes}, cmpBytes a b = .eq → a = b
  | [], [], _ => rfl
  | [], _ :: _, h => by simp [cmpBytes] at h
  | _ :: _, [], h => by simp [cmpBytes] at h
  | x :: r, y :: s, h => by
    unfold cmpBytes at h
    by_cases h1 : x < y
    · simp [h1] at h
    · by_cases h2 : y < x
      · simp [h1, h2] at h
      · simp only [h1, h2, if_false] at h
        have : x = y := by omega
        rw [this, cmpBytes_eq h]

theorem cmpBytes_swap : ∀ (a b : Bytes), cmpBytes a b = .lt ↔ cmpBytes b a = .gt
  | [], [] => by simp [cmpBytes]
  | [], _ :: _ => by simp [cmpBytes]
  | _ :: _, [] => by simp [cmpBytes]
  | x :: r, y :: s => by
    unfold cmpBytes
    by_cases h1 : x < y
    · have : ¬ y < x := by omega
      simp [h1, this]
    · by_cases h2 : y < x
      · simp [h1, h2]
      · simp only [h1, h2, if_false]
        exact cmpBytes_swap r s

theorem cmpBytes_lt_trans : ∀ {a b c : Bytes}, cmpBytes a b = .lt → cmpBytes b c = .lt → cmpBytes a c = .lt
  | [], [], _, h, _ => by simp [cmpBytes] at h
  | [], _ :: _, [], _, h => by simp [cmpBytes] at h
  | [], _ :: _, _ :: _, _, _ => by simp [cmpBytes]
  | _ :: _, [], _, h, _ => by simp [cmpBytes] at h
  | _ :: _, _ :: _, [], _, h => by simp [cmpBytes] at h
  | x :: r, y :: s, z :: t, h1, h2 => by
    unfold cmpBytes at h1 h2 ⊢
    by_cases hxy : x < y
    · by_cases hyz : y < z
      · have : x < z := by omega
        simp [this]
      · by_cases hzy : z < y
        · simp [hyz, hzy] at h2
        · have : y = z := by omega
          subst this
          simp [hxy]
    · by_cases hyx : y < x
      · simp [hxy, hyx] at h1
      · have hxy' : x = y := by omega
        subst hxy'
        simp only [hxy, if_false] at h1
        by_cases hyz : x < z
        · simp [hyz]
        · by_cases hzy : z < x
          · simp [hyz, hzy] at h2
          · simp only [hyz, hzy, if_false] at h2 ⊢
            exact cmpBytes_lt_trans h1 h2

theorem cmpLabels_refl : ∀ a : Labels, cmpLabels a a = .eq
  | [] => rfl
  | (n, v) :: r => by simp [cmpLabels, cmpBytes_refl, cmpLabels_refl r]

theorem cmpLabels_eq : ∀ {a b : Labels}, cmpLabels a b = .eq → a = b
  | [], [], _ => rfl
  | [], _ :: _, h => by simp [cmpLabels] at h
  | _ :: _, [], h => by simp [cmpLabels] at h
  | (an, av) :: r, (bn, bv) :: s, h => by
    unfold cmpLabels at h
    cases h1 : cmpBytes an bn with
    | lt => simp [h1] at h
    | gt => simp [h1] at h
    | eq =>
      simp only [h1] at h
      cases h2 : cmpBytes av bv with
      | lt => simp [h2] at h
      | gt => simp [h2] at h
      | eq =>
        simp only [h2] at h
        rw [cmpBytes_eq h1, cmpBytes_eq h2, cmpLabels_eq h]

theorem cmpBytes_gt_iff (a b : Bytes) : cmpBytes a b = .gt ↔ cmpBytes b a = .lt :=
  (cmpBytes_swap b a).symm

theorem cmpBytes_eq_symm {a b : Bytes} (h : cmpBytes a b = .eq) : cmpBytes b a = .eq := by
  rw [cmpBytes_eq h]; exact cmpBytes_refl b

theorem cmpLabels_swap : ∀ (a b : Labels), cmpLabels a b = .lt ↔ cmpLabels b a = .gt
  | [], [] => by simp [cmpLabels]
  | [], _ :: _ => by simp [cmpLabels]
  | _ :: _, [] => by simp [cmpLabels]
  | (an, av) :: r, (bn, bv) :: s => by
    unfold cmpLabels
    cases h1 : cmpBytes an bn with
    | lt => simp [(cmpBytes_swap an bn).mp h1]
    | gt => simp [(cmpBytes_gt_iff an bn).mp h1]
    | eq =>
      simp only [cmpBytes_eq_symm h1]
      cases h2 : cmpBytes av bv with
      | lt => simp [(cmpBytes_swap av bv).mp h2]
      | gt => simp [(cmpBytes_gt_iff av bv).mp h2]
      | eq =>
        simp only [cmpBytes_eq_symm h2]
        exact cmpLabels_swap r s

theorem cmpLabels_lt_trans : ∀ {a b c : Labels}, cmpLabels a b = .lt → cmpLabels b c = .lt → cmpLabels a c = .lt
  | [], [], _, h, _ => by simp [cmpLabels] at h
  | [], _ :: _, [], _, h => by simp [cmpLabels] at h
  | [], _ :: _, _ :: _, _, _ => by simp [cmpLabels]
  | _ :: _, [], _, h, _ => by simp [cmpLabels] at h
  | _ :: _, _ :: _, [], _, h => by simp [cmpLabels] at h
  | (an, av) :: r, (bn, bv) :: s, (cn, cv) :: t, h1, h2 => by
    unfold cmpLabels at h1 h2 ⊢
    cases hab : cmpBytes an bn with
    | gt => simp [hab] at h1
    | lt =>
      cases hbc : cmpBytes bn cn with
      | gt => simp [hbc] at h2
      | lt => simp [cmpBytes_lt_trans hab hbc]
      | eq => rw [← cmpBytes_eq hbc]; simp [hab]
    | eq =>
      have hn := cmpBytes_eq hab
      subst hn
      simp only [hab] at h1
      cases hbc : cmpBytes an cn with
      | gt => simp [hbc] at h2
      | lt => simp
      | eq =>
        simp only [hbc] at h2 ⊢
        cases hvab : cmpBytes av bv with
        | gt => simp [hvab] at h1
        | lt =>
          cases hvbc : cmpBytes bv cv with
          | gt => simp [hvbc] at h2
          | lt => simp [cmpBytes_lt_trans hvab hvbc]
          | eq => rw [← cmpBytes_eq hvbc]; simp [hvab]
        | eq =>
          have hv := cmpBytes_eq hvab
          subst hv
          simp only [hvab] at h1
          cases hvbc : cmpBytes av cv with
          | gt => simp [hvbc] at h2
          | lt => simp
          | eq =>
            simp only [hvbc] at h2 ⊢
            exact cmpLabels_lt_trans h1 h2

/-- `a ≤ b` in label order -/
def lblLe (a b : Labels) : Prop := cmpLabels a b ≠ .gt

theorem lblLe_refl (a : Labels) : lblLe a a := by simp [lblLe, cmpLabels_refl]

theorem lblLe_trans {a b c : Labels} (h1 : lblLe a b) (h2 : lblLe b c) : lblLe a c := by
  unfold lblLe at *
  cases hab : cmpLabels a b with
  | gt => exact absurd hab h1
  | eq => rw [cmpLabels_eq hab]; exact h2
  | lt =>
    cases hbc : cmpLabels b c with
    | gt => exact absurd hbc h2
    | eq => rw [← cmpLabels_eq hbc, hab]; simp
    | lt => rw [cmpLabels_lt_trans hab hbc]; simp

theorem lblLe_total (a b : Labels) : lblLe a b ∨ lblLe b a := by
  unfold lblLe
  cases hab : cmpLabels a b with
  | gt => right; rw [(cmpLabels_swap b a).mpr hab]; simp
  | eq => left; simp
  | lt => left; simp

theorem lt_of_le_of_lt {a b c : Labels} (h1 : lblLe a b) (h2 : cmpLabels b c = .lt) : cmpLabels a c = .lt := by
  unfold lblLe at h1
  cases hab : cmpLabels a b with
  | gt => exact absurd hab h1
  | eq => rw [cmpLabels_eq hab]; exact h2
  | lt => exact cmpLabels_lt_trans hab h2

theorem lt_of_lt_of_le {a b c : Labels} (h1 : cmpLabels a b = .lt) (h2 : lblLe b c) : cmpLabels a c = .lt := by
  unfold lblLe at h2
  cases hbc : cmpLabels b c with
  | gt => exact absurd hbc h2
  | eq => rw [← cmpLabels_eq hbc]; exact h1
  | lt => exact cmpLabels_lt_trans h1 hbc

end Thanos.Merge
