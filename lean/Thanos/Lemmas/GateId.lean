import Thanos.Model.GateId
/-
  C24: one gate per loaded configuration.
-/
namespace Thanos.Gate

/-- the gates were built one per configuration epoch, in order: the i-th gate in epoch base+i+1 -/
def WFE : Nat → List GateRec → Prop
  | _, [] => True
  | base, g :: gs => g.epoch = base + 1 ∧ WFE (base + 1) gs

theorem wfe_append {base : Nat} {gs : List GateRec} (h : WFE base gs) (st : St) :
    WFE base (gs ++ [⟨base + gs.length + 1, st⟩]) := by
  induction gs generalizing base with
  | nil => simp [WFE]
  | cons g gs ih =>
    obtain ⟨h1, h2⟩ := h
    refine ⟨h1, ?_⟩
    have := ih h2
    simpa [Nat.add_assoc, Nat.add_comm 1] using this

theorem wfe_set {base : Nat} {gs : List GateRec} (h : WFE base gs) (i : Nat) (r r' : GateRec)
    (hi : gs[i]? = some r) (he : r'.epoch = r.epoch) : WFE base (gs.set i r') := by
  induction gs generalizing base i with
  | nil => simp at hi
  | cons g gs ih =>
    obtain ⟨h1, h2⟩ := h
    cases i with
    | zero =>
      simp only [List.getElem?_cons_zero, Option.some.injEq] at hi
      subst hi
      exact ⟨by rw [he, h1], h2⟩
    | succ i =>
      simp only [List.getElem?_cons_succ] at hi
      exact ⟨h1, ih h2 i hi⟩

/-- with the gates built one per epoch, the requests admitted under one epoch sit in one gate -/
theorem sum_epoch_le {cap : Nat} (ep : Nat) : ∀ (base : Nat) (gs : List GateRec), WFE base gs →
    (∀ r, r ∈ gs → r.st.running ≤ cap) →
    (gs.map fun r => if r.epoch = ep then r.st.running else 0).sum ≤ cap ∧
    (ep ≤ base → (gs.map fun r => if r.epoch = ep then r.st.running else 0).sum = 0)
  | _, [], _, _ => by simp
  | base, g :: gs, h, hr => by
    obtain ⟨h1, h2⟩ := h
    obtain ⟨i1, i2⟩ := sum_epoch_le ep (base + 1) gs h2 (fun r hm => hr r (by simp [hm]))
    simp only [List.map_cons, List.sum_cons]
    by_cases he : g.epoch = ep
    · have hz := i2 (by omega)
      have := hr g (by simp)
      simp only [he, if_true, hz]
      exact ⟨by omega, fun hle => by omega⟩
    · simp only [he, if_false, Nat.zero_add]
      exact ⟨i1, fun hle => i2 (by omega)⟩

theorem step_cap (df : Bool) (s : St) (e : Ev) : (step df s e).cap = s.cap := by
  cases e <;> simp only [step, enter, enterNoop, done] <;> (repeat' split) <;> rfl

end Thanos.Gate
