import Thanos.Model.Split
/-
  Helper lemmas for C41 (split by interval): arithmetic of `nextIntervalBoundary`, the closed-form
  evaluation grid, and the loop invariants of the two split loops.
-/
namespace Thanos.Split

/-- `nextIntervalBoundary` for positive step and interval, any `t` (also negative, where Go's
    truncating division makes "the next boundary" the one after next): the result is at or after
    `t`, a multiple of `step` away from it, strictly before the boundary `B = (t/iv + 1)*iv`, and
    the last such point (`B ≤ e + step`). -/
theorem nib_spec {t step iv e : Int} (hs : 0 < step) (hi : 0 < iv) (h : nib t step iv = some e) :
    t ≤ e ∧ (e - t) % step = 0 ∧ e < (t.tdiv iv + 1) * iv ∧ (t.tdiv iv + 1) * iv ≤ e + step := by
  unfold nib at h
  have h1 : ¬ (iv = 0 ∨ step = 0) := by omega
  simp only [h1, if_false, Option.some.injEq] at h
  have hb : t < (t.tdiv iv + 1) * iv := by
    have := Int.mul_tdiv_add_tmod t iv
    have h2 := Int.tmod_lt_of_pos t hi
    have : (t.tdiv iv + 1) * iv = iv * t.tdiv iv + iv := by rw [Int.add_mul, Int.mul_comm]; simp
    omega
  generalize (t.tdiv iv + 1) * iv = B at *
  have hm : (B - t).tmod step = (B - t) % step := by
    rw [Int.tmod_eq_emod_of_nonneg (by omega)]
  rw [hm] at h
  have hm0 := Int.emod_nonneg (B - t) (by omega : step ≠ 0)
  have hm1 := Int.emod_lt_of_pos (B - t) hs
  have hdm := Int.emod_add_mul_ediv (B - t) step
  have hq0 : 0 ≤ (B - t) / step := Int.ediv_nonneg (by omega) (by omega)
  generalize hq : (B - t) / step = q at *
  generalize hr : (B - t) % step = r at *
  split at h
  · have hr0 : r = 0 := by omega
    subst h
    have hq1 : 1 ≤ q := by
      rcases Int.lt_or_le 0 q with h' | h'
      · omega
      · have : q = 0 := by omega
        subst this; simp at hdm; omega
    have hge : step * 1 ≤ step * q := Int.mul_le_mul_of_nonneg_left hq1 (by omega)
    refine ⟨by omega, ?_, by omega, by omega⟩
    have : B - r - step - t = step * (q - 1) := by
      rw [Int.mul_sub]; omega
    rw [this]; simp
  · subst h
    have hge : 0 ≤ step * q := Int.mul_nonneg (by omega) hq0
    refine ⟨by omega, ?_, by omega, by omega⟩
    have : B - r - t = step * q := by omega
    rw [this]; simp

theorem gridN_add (s step : Int) (m n : Nat) :
    gridN s step (m + n) = gridN s step m ++ gridN (s + step * m) step n := by
  unfold gridN
  rw [List.range_add, List.map_append, List.map_map]
  congr 1
  apply List.map_congr_left
  intro k _
  simp [Int.mul_add, Int.add_assoc]

theorem grid_of_lt {a b step : Int} (h : b < a) : grid a b step = [] := by
  simp [grid, h]

/-- a sub-range that ends on the grid splits the grid in two -/
theorem grid_split {a b e step : Int} (hs : 0 < step) (hab : a ≤ b) (hbe : b ≤ e)
    (hal : step ∣ (b - a)) : grid a e step = grid a b step ++ grid (b + step) e step := by
  obtain ⟨k, hk⟩ := hal
  have hk0 : 0 ≤ k := by
    rcases Int.lt_or_le k 0 with h | h
    · have : step * k < 0 := Int.mul_neg_of_pos_of_neg hs h
      omega
    · exact h
  have hb : b = a + step * k := by omega
  subst hb
  have e1 : ¬ (e < a) := by omega
  have e2 : ¬ (a + step * k < a) := by omega
  have hdiv : (a + step * k - a) / step = k := by
    have : a + step * k - a = step * k := by omega
    rw [this, Int.mul_ediv_cancel_left _ (by omega)]
  have hq : (e - a) / step = (e - (a + step * k)) / step + k := by
    have : e - a = (e - (a + step * k)) + step * k := by omega
    rw [this, Int.add_mul_ediv_left _ _ (by omega)]
  have hq0 : 0 ≤ (e - (a + step * k)) / step := Int.ediv_nonneg (by omega) (by omega)
  simp only [grid, e1, e2, if_false, hdiv, hq]
  generalize hd : (e - (a + step * k)) / step = d at *
  have hn1 : (d + k + 1).toNat = (k + 1).toNat + d.toNat := by omega
  rw [hn1, gridN_add]
  congr 1
  by_cases h3 : e < a + step * k + step
  · simp only [h3, if_true]
    have : d = 0 := by
      rw [← hd]; exact Int.ediv_eq_zero_of_lt (by omega) (by omega)
    subst this; simp [gridN]
  · simp only [h3, if_false]
    have hq' : (e - (a + step * k + step)) / step = d - 1 := by
      have : e - (a + step * k + step) = (e - (a + step * k)) + step * (-1) := by omega
      rw [this, Int.add_mul_ediv_left _ _ (by omega), hd]; omega
    rw [hq']
    have : (d - 1 + 1).toNat = d.toNat := by omega
    rw [this]
    have : ((k + 1).toNat : Int) = k + 1 := by omega
    rw [this]
    have : a + step * (k + 1) = a + step * k + step := by rw [Int.mul_add]; omega
    rw [this]

theorem nib_some {t step iv : Int} (hs : 0 < step) (hi : 0 < iv) : ∃ e, nib t step iv = some e := by
  unfold nib
  have h1 : ¬ (iv = 0 ∨ step = 0) := by omega
  simp [h1]

/-- what one sub-request must satisfy relative to the loop's current `start` -/
def SubOK (start stop step : Int) (q : Int × Int) : Prop :=
  step ∣ (q.1 - start) ∧ start ≤ q.1 ∧ q.1 ≤ q.2 ∧ q.2 ≤ stop ∧ (step ∣ (q.2 - q.1) ∨ q.2 = stop)

theorem splitLoop_spec {stop step iv : Int} (hs : 0 < step) (hi : 0 < iv) :
    ∀ (fuel : Nat) (start : Int), stop - start ≤ fuel →
      ∃ l, splitLoop stop step iv fuel start = .ok l ∧
        l.flatMap (fun q => grid q.1 q.2 step) = (if start < stop then grid start stop step else []) ∧
        ∀ q ∈ l, SubOK start stop step q := by
  intro fuel
  induction fuel with
  | zero =>
    intro start hf
    have : ¬ start < stop := by omega
    exact ⟨[], by simp [splitLoop, this], by simp [this], by simp⟩
  | succ k ih =>
    intro start hf
    by_cases hlt : start < stop
    · obtain ⟨e, he⟩ := nib_some (t := start) hs hi
      obtain ⟨h1, h2, _, _⟩ := nib_spec hs hi he
      have hdvd : step ∣ (e - start) := Int.dvd_of_emod_eq_zero h2
      obtain ⟨l', hl', hg', hq'⟩ := ih (e + step) (by omega)
      by_cases hend : e + step ≥ stop
      · have hnl : ¬ (e + step < stop) := by omega
        have : l' = [] := by
          cases k <;> simp [splitLoop, hnl] at hl' <;> exact hl'
        subst this
        refine ⟨[(start, stop)], ?_, ?_, ?_⟩
        · simp [splitLoop, hlt, he, hl', hend]
        · simp [hlt]
        · intro q hq
          simp at hq; subst hq
          exact ⟨by simp, by simp, by simp; omega, by simp, Or.inr rfl⟩
      · have hnl : e + step < stop := by omega
        refine ⟨(start, e) :: l', ?_, ?_, ?_⟩
        · simp [splitLoop, hlt, he, hl', hend]
        · simp only [List.flatMap_cons, hg', hnl, hlt, if_true]
          exact (grid_split hs h1 (by omega) hdvd).symm
        · intro q hq
          rcases List.mem_cons.mp hq with rfl | hq
          · exact ⟨by simp, by simp, h1, by simp; omega, Or.inl hdvd⟩
          · obtain ⟨a1, a2, a3, a4, a5⟩ := hq' q hq
            refine ⟨?_, by omega, a3, a4, a5⟩
            have : q.1 - start = (q.1 - (e + step)) + ((e - start) + step) := by omega
            rw [this]
            exact Int.dvd_add a1 (Int.dvd_add hdvd (Int.dvd_refl _))
    · exact ⟨[], by cases k <;> simp [splitLoop, hlt], by simp [hlt], by simp⟩

/-- consecutive, non-empty sub-ranges of length ≤ dur that start at `a` and end exactly at `b` -/
def Tiles (dur : Int) : List (Int × Int) → Int → Int → Prop
  | [], _, _ => False
  | [q], a, b => q.1 = a ∧ q.2 = b ∧ a < b ∧ b - a ≤ dur
  | q :: q' :: l, a, b => q.1 = a ∧ a < q.2 ∧ q.2 - a ≤ dur ∧ Tiles dur (q' :: l) q.2 b

theorem labelsLoop_spec {stop dur : Int} (hd : 0 < dur) :
    ∀ (fuel : Nat) (start : Int), stop - start ≤ fuel → start < stop →
      ∃ l, labelsLoop stop dur fuel start = .ok l ∧ Tiles dur l start stop := by
  intro fuel
  induction fuel with
  | zero => intro start hf hlt; omega
  | succ k ih =>
    intro start hf hlt
    by_cases hnext : start + dur < stop
    · obtain ⟨l', hl', ht'⟩ := ih (start + dur) (by omega) hnext
      refine ⟨(start, start + dur) :: l', ?_, ?_⟩
      · have : min (start + dur) stop = start + dur := by omega
        simp [labelsLoop, hlt, hl', this]
      · cases l' with
        | nil => exact absurd ht' (by simp [Tiles])
        | cons q' l'' =>
          refine ⟨rfl, by simp; omega, by simp; omega, ht'⟩
    · have hl' : labelsLoop stop dur k (start + dur) = .ok [] := by
        cases k <;> simp [labelsLoop, hnext]
      refine ⟨[(start, stop)], ?_, ?_⟩
      · have : min (start + dur) stop = stop := by omega
        simp [labelsLoop, hlt, hl', this]
      · exact ⟨rfl, rfl, hlt, by omega⟩

/-- every instant of `[a, b]` lies in some sub-range -/
def Covers (l : List (Int × Int)) (a b : Int) : Prop :=
  ∀ t, a ≤ t → t ≤ b → ∃ q ∈ l, q.1 ≤ t ∧ t ≤ q.2

theorem Tiles.covers {dur : Int} : ∀ {l : List (Int × Int)} {a b : Int}, Tiles dur l a b → Covers l a b
  | [], _, _, h => by simp [Tiles] at h
  | [q], a, b, h => by
    obtain ⟨h1, h2, _, _⟩ := h
    intro t ha hb
    exact ⟨q, by simp, by omega, by omega⟩
  | q :: q' :: l, a, b, h => by
    obtain ⟨h1, h2, h3, h4⟩ := h
    intro t ha hb
    by_cases ht : t ≤ q.2
    · exact ⟨q, by simp, by omega, ht⟩
    · obtain ⟨p, hp, hp1, hp2⟩ := Tiles.covers h4 t (by omega) hb
      exact ⟨p, List.mem_cons_of_mem _ hp, hp1, hp2⟩

theorem Tiles.bounds {dur : Int} : ∀ {l : List (Int × Int)} {a b : Int}, Tiles dur l a b →
    ∀ q ∈ l, a ≤ q.1 ∧ q.1 < q.2 ∧ q.2 ≤ b ∧ q.2 - q.1 ≤ dur
  | [], _, _, h => by simp [Tiles] at h
  | [q], a, b, h => by
    obtain ⟨h1, h2, _, _⟩ := h
    intro p hp
    simp at hp; subst hp
    omega
  | q :: q' :: l, a, b, h => by
    obtain ⟨h1, h2, h3, h4⟩ := h
    intro p hp
    rcases List.mem_cons.mp hp with rfl | hp
    · have := Tiles.bounds h4 q' (by simp)
      omega
    · have := Tiles.bounds h4 p hp
      omega

/-! ### what the evaluation grid is (validates the specification function `grid`) -/

theorem mem_gridN {s step : Int} {n : Nat} {t : Int} :
    t ∈ gridN s step n ↔ ∃ k : Nat, k < n ∧ t = s + step * k := by
  simp [gridN]
  constructor
  · rintro ⟨k, hk, rfl⟩; exact ⟨k, hk, rfl⟩
  · rintro ⟨k, hk, rfl⟩; exact ⟨k, hk, rfl⟩

/-- `grid start stop step` is exactly the set of timestamps `start + k·step ≤ stop`, `k ≥ 0`. -/
theorem mem_grid {start stop step t : Int} (hs : 0 < step) :
    t ∈ grid start stop step ↔ start ≤ t ∧ t ≤ stop ∧ (t - start) % step = 0 := by
  unfold grid
  by_cases h : stop < start
  · simp [h]; intro h1 h2; omega
  · simp only [h, if_false, mem_gridN]
    have hq0 : 0 ≤ (stop - start) / step := Int.ediv_nonneg (by omega) (by omega)
    have hdm := Int.emod_add_mul_ediv (stop - start) step
    have hm0 := Int.emod_nonneg (stop - start) (by omega : step ≠ 0)
    have hm1 := Int.emod_lt_of_pos (stop - start) hs
    constructor
    · rintro ⟨k, hk, rfl⟩
      have hk' : (k : Int) ≤ (stop - start) / step := by omega
      have : step * (k : Int) ≤ step * ((stop - start) / step) :=
        Int.mul_le_mul_of_nonneg_left hk' (by omega)
      have hk0 : 0 ≤ step * (k : Int) := Int.mul_nonneg (by omega) (by omega)
      refine ⟨by omega, by omega, ?_⟩
      have : start + step * (k : Int) - start = step * k := by omega
      rw [this]; simp
    · rintro ⟨h1, h2, h3⟩
      obtain ⟨k, hk⟩ := Int.dvd_of_emod_eq_zero h3
      have hk0 : 0 ≤ k := by
        rcases Int.lt_or_le k 0 with h' | h'
        · have : step * k < 0 := Int.mul_neg_of_pos_of_neg hs h'
          omega
        · exact h'
      refine ⟨k.toNat, ?_, ?_⟩
      · have hle : k ≤ (stop - start) / step := by
          rcases Int.lt_or_le ((stop - start) / step) k with h' | h'
          · have : step * ((stop - start) / step + 1) ≤ step * k :=
              Int.mul_le_mul_of_nonneg_left (by omega) (by omega)
            rw [Int.mul_add] at this
            omega
          · exact h'
        omega
      · have : ((k.toNat : Nat) : Int) = k := by omega
        rw [this]; omega

theorem gridN_nodup {s step : Int} (hs : 0 < step) (n : Nat) : (gridN s step n).Nodup := by
  unfold gridN
  refine List.Pairwise.map _ ?_ (List.nodup_range (n := n))
  intro a b hne hab
  have h : step * (a : Int) = step * (b : Int) := by simpa using hab
  have := Int.eq_of_mul_eq_mul_left (by omega : step ≠ 0) h
  omega

/-- the grid lists every evaluation timestamp once -/
theorem grid_nodup {start stop step : Int} (hs : 0 < step) : (grid start stop step).Nodup := by
  unfold grid; split
  · simp
  · exact gridN_nodup hs _

/-- the grid is strictly ascending -/
theorem grid_pairwise {start stop step : Int} (hs : 0 < step) : (grid start stop step).Pairwise (· < ·) := by
  unfold grid; split
  · exact List.Pairwise.nil
  · unfold gridN
    rw [List.pairwise_map]
    refine List.Pairwise.imp ?_ (List.pairwise_lt_range (n := _))
    intro a b hab
    have : step * (a : Int) < step * (b : Int) := Int.mul_lt_mul_of_pos_left (by omega) hs
    omega

end Thanos.Split

namespace Thanos.Split

/-- `splitQuery` (range case) with the per-sub-request facts the results cache needs: each
    sub-request starts a whole number of steps after `start`, lies inside `[start, stop]`, is
    non-empty, and ends a whole number of steps after its own start unless it ends at `stop` -/
theorem split_spec (start stop step iv : Int) (hs : 0 < step) (hi : 0 < iv) :
    ∃ l, split start stop step iv = .ok l ∧
      l.flatMap (fun q => grid q.1 q.2 step) = grid start stop step ∧
      ∀ q ∈ l, SubOK start stop step q := by
  unfold split
  by_cases heq : start = stop
  · subst heq
    refine ⟨[(start, start)], by simp, by simp, ?_⟩
    intro q hq; simp at hq; subst hq
    exact ⟨by simp, by simp, by simp, by simp, Or.inr rfl⟩
  · obtain ⟨l, hl, hg, hq⟩ := splitLoop_spec (stop := stop) hs hi (stop - start).toNat start (by omega)
    refine ⟨l, by simp [heq, hl], ?_, hq⟩
    rw [hg]
    by_cases hlt : start < stop
    · simp [hlt]
    · simp [hlt, grid_of_lt (show stop < start by omega)]

/-- the tiles' lengths telescope to `b − a`; each is at most `dur` long -/
theorem Tiles.sum_len {dur : Int} : ∀ {l : List (Int × Int)} {a b : Int}, Tiles dur l a b →
    (l.map (fun q => q.2 - q.1)).sum = b - a ∧ b - a ≤ dur * l.length
  | [], _, _, h => by simp [Tiles] at h
  | [q], a, b, h => by
    obtain ⟨h1, h2, _, h4⟩ := h
    simp; omega
  | q :: q' :: l, a, b, h => by
    obtain ⟨h1, h2, h3, h4⟩ := h
    obtain ⟨ih1, ih2⟩ := Tiles.sum_len h4
    simp only [List.map_cons, List.sum_cons, List.length_cons] at ih1 ih2 ⊢
    constructor
    · omega
    · have : dur * ((l.length : Int) + 1 + 1) = dur * ((l.length : Int) + 1) + dur := by
        simp [Int.mul_add]
      push_cast at ih2 ⊢
      omega

end Thanos.Split
