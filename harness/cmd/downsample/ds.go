package main

// Shared part of C36 / C37 / C38: line grammar, running the real downsampler and the real readers,
// decoding aggregate chunks into canonical text.
//
//	samples   = `-` | s,s,…          s = <t>:<v> | <t>:<v>*<n>@<step>  (n samples t, t+step, … with the same v)
//	                                 v = decimal integer | n (NaN) | s (stale NaN)
//	list      = `-` | <t>:<v>,…
//	chunk     = <mint>:<maxt>/<count list>/<sum list>/<min list>/<max list>/<counter list>
//	chunks    = `-` | chunk|chunk|…
//	ds.raw  <mode> <r> <nc> <samples>               -> chunks | panic | nc-mismatch
//	        mode auto: downsample.DownsampleRaw (nc must be what targetChunkCount computes);
//	        mode man:  downsampleRawLoop with numChunks = nc
//	ds.read <r> <nc> <samples>                      -> count;sum;min;max;counter lists read through
//	                                                   query.NewPromSeriesSet(...).At().Iterator()
//	ds.readr <r> <nc> <mint> <maxt> <samples>       -> the same with the series bounded to [mint, maxt]
//	ds.aggr <mode> <r1> <nc1> <r2> <nc2> <samples>  -> chunks | invalid-range | hang | panic | nc-mismatch
//	        level 1 always with downsampleRawLoop(nc1); level 2 auto: downsampleAggr(chks, mint, maxt, r1, r2)
//	        as Downsample() calls it, man: downsampleAggrLoop(numChunks = nc2)
//	ds.ctr  <r1> <nc1> <r2> <nc2> <samples>         -> <level-1 counter read-back>;<level-2 counter read-back | error>
//	ds.apply <list>|<list>|…                        -> <read-back list>     (NewApplyCounterResetsIterator)
//	ds.cs    <list>|<list>|…                        -> <read-back list>     (query chunkSeriesIterator, aggregate COUNT)

import (
	"bytes"
	"fmt"
	"math"
	"math/big"
	"os"
	"os/exec"
	"strconv"
	"strings"
	"time"

	"github.com/prometheus/prometheus/model/labels"
	"github.com/prometheus/prometheus/model/value"
	"github.com/prometheus/prometheus/tsdb/chunkenc"
	"github.com/prometheus/prometheus/tsdb/chunks"

	"github.com/thanos-io/thanos/pkg/compact/downsample"
	"github.com/thanos-io/thanos/pkg/query"
	"github.com/thanos-io/thanos/pkg/store/storepb"
)

type pt struct {
	t int64
	v float64
}

type dchunk struct {
	mint, maxt int64
	lists      [5][]pt // count sum min max counter
}

var staleNaN = math.Float64frombits(value.StaleNaN)

// entryDownsampleRaw counts level-1 calls that went through the exported DownsampleRaw.
var entryDownsampleRaw int

func parseSamples(s string) (ts []int64, vs []float64, ok bool) {
	if s == "-" {
		return nil, nil, true
	}
	for _, x := range strings.Split(s, ",") {
		p := strings.SplitN(x, ":", 2)
		if len(p) != 2 {
			return nil, nil, false
		}
		t, err := strconv.ParseInt(p[0], 10, 64)
		if err != nil {
			return nil, nil, false
		}
		rep, stp := int64(1), int64(0)
		if i := strings.IndexByte(p[1], '*'); i >= 0 {
			q := strings.SplitN(p[1][i+1:], "@", 2)
			if len(q) != 2 {
				return nil, nil, false
			}
			var e1, e2 error
			rep, e1 = strconv.ParseInt(q[0], 10, 64)
			stp, e2 = strconv.ParseInt(q[1], 10, 64)
			if e1 != nil || e2 != nil || rep < 0 || rep > 1<<22 {
				return nil, nil, false
			}
			p[1] = p[1][:i]
		}
		var v float64
		switch p[1] {
		case "n":
			v = math.NaN()
		case "s":
			v = staleNaN
		default:
			i, err := strconv.ParseInt(p[1], 10, 64)
			if err != nil {
				return nil, nil, false
			}
			v = float64(i)
		}
		for k := int64(0); k < rep; k++ {
			ts = append(ts, t+k*stp)
			vs = append(vs, v)
		}
	}
	return ts, vs, true
}

func parseLists(s string) ([][]pt, bool) {
	if s == "-" {
		return nil, true
	}
	var out [][]pt
	for _, l := range strings.Split(s, "|") {
		ts, vs, ok := parseSamples(l)
		if !ok {
			return nil, false
		}
		ps := make([]pt, len(ts))
		for i := range ts {
			if math.IsNaN(vs[i]) {
				return nil, false
			}
			ps[i] = pt{ts[i], vs[i]}
		}
		out = append(out, ps)
	}
	return out, true
}

// fmtV prints an integer-valued float exactly; anything else gets a token the model never prints.
func fmtV(v float64) string {
	switch {
	case math.IsNaN(v):
		return "nan"
	case math.IsInf(v, 0):
		return "inf"
	case v != math.Trunc(v):
		return "frac" + strconv.FormatFloat(v, 'g', -1, 64)
	case math.Abs(v) < 1<<62:
		return strconv.FormatInt(int64(v), 10)
	}
	return new(big.Float).SetFloat64(v).Text('f', 0)
}

func fmtPts(ps []pt) string {
	if len(ps) == 0 {
		return "-"
	}
	var sb strings.Builder
	for i, p := range ps {
		if i > 0 {
			sb.WriteByte(',')
		}
		sb.WriteString(strconv.FormatInt(p.t, 10))
		sb.WriteByte(':')
		sb.WriteString(fmtV(p.v))
	}
	return sb.String()
}

func fmtChunks(cs []dchunk) string {
	if len(cs) == 0 {
		return "-"
	}
	out := make([]string, len(cs))
	for i, c := range cs {
		out[i] = fmt.Sprintf("%d:%d/%s/%s/%s/%s/%s", c.mint, c.maxt, fmtPts(c.lists[0]), fmtPts(c.lists[1]),
			fmtPts(c.lists[2]), fmtPts(c.lists[3]), fmtPts(c.lists[4]))
	}
	return strings.Join(out, "|")
}

func drain(it chunkenc.Iterator) []pt {
	var out []pt
	for it.Next() != chunkenc.ValNone {
		t, v := it.At()
		out = append(out, pt{t, v})
		if len(out) > 1<<22 {
			panic("iterator does not end")
		}
	}
	if it.Err() != nil {
		panic("iterator error: " + it.Err().Error())
	}
	return out
}

// decode turns the chunk metas returned by the downsampler into sample lists (an absent aggregate
// and an aggregate with no samples are both the empty list).
func decode(metas []chunks.Meta) ([]dchunk, []*downsample.AggrChunk) {
	out := make([]dchunk, len(metas))
	acs := make([]*downsample.AggrChunk, len(metas))
	for i, m := range metas {
		ac, ok := m.Chunk.(*downsample.AggrChunk)
		if !ok {
			panic("not an aggregate chunk")
		}
		acs[i] = ac
		out[i].mint, out[i].maxt = m.MinTime, m.MaxTime
		for a := 0; a < 5; a++ {
			x, err := ac.Get(downsample.AggrType(a))
			if err == downsample.ErrAggrNotExist {
				continue
			}
			if err != nil {
				panic("Get: " + err.Error())
			}
			out[i].lists[a] = drain(x.Iterator(nil))
		}
	}
	return out, acs
}

func rawLevel(mode string, r int64, nc int, ts []int64, vs []float64) ([]chunks.Meta, string) {
	data := downsample.VerifSamples(ts, vs)
	// "man" with the numChunks the real entry point would compute itself: go through the real entry
	// point DownsampleRaw (its own wiring of aggregator and batch function), not through the loop hook
	if mode == "man" && len(ts) > 0 && r > 0 && downsample.VerifTargetChunkCount(ts[0], ts[len(ts)-1], 60000, r, len(ts)) == nc {
		entryDownsampleRaw++
		return downsample.DownsampleRaw(data, r), ""
	}
	if mode == "auto" {
		if len(ts) > 0 {
			if want := downsample.VerifTargetChunkCount(ts[0], ts[len(ts)-1], 60000, r, len(ts)); want != nc {
				return nil, "nc-mismatch"
			}
		}
		return downsample.DownsampleRaw(data, r), ""
	}
	return downsample.VerifDownsampleRawLoop(data, r, nc), ""
}

// autoNC2 is the numChunks downsampleAggr computes for these level-1 chunks, with mint/maxt taken
// from the chunk metas as Downsample() does.
func autoNC2(metas []chunks.Meta, acs []*downsample.AggrChunk, r1, r2 int64) (mint, maxt int64, nc int) {
	if len(metas) == 0 {
		return 0, 0, 1
	}
	mint, maxt = metas[0].MinTime, metas[len(metas)-1].MaxTime
	n := 0
	for _, c := range acs {
		n += c.NumSamples()
	}
	return mint, maxt, downsample.VerifTargetChunkCount(mint, maxt, r1, r2, n)
}

// aggrLevel runs level 2 on the real code.  A call that is expected not to make progress
// (numChunks > number of chunks) is made in a child process with a deadline.
func aggrLevel(mode string, metas []chunks.Meta, acs []*downsample.AggrChunk, r1, r2 int64, nc2 int, childOp string) ([]chunks.Meta, string) {
	mint, maxt, want := autoNC2(metas, acs, r1, r2)
	if mode == "auto" && want != nc2 {
		return nil, "nc-mismatch"
	}
	if nc2 > len(acs) && len(acs) > 0 && childOp != "" && os.Getenv("VERIF_DS_CHILD") == "" {
		// first in a child with a deadline; only when the child returned is the call repeated here
		if ans := runChild(childOp); ans == "hang" || strings.HasPrefix(ans, "err:child") {
			return nil, "child:" + ans
		}
	}
	var (
		res []chunks.Meta
		err error
	)
	if mode == "auto" {
		res, err = downsample.VerifDownsampleAggr(acs, mint, maxt, r1, r2)
	} else {
		res, err = downsample.VerifDownsampleAggrLoop(acs, r2, nc2)
	}
	if err != nil {
		if strings.Contains(err.Error(), "invalid range") {
			return nil, "invalid-range"
		}
		return nil, "err:" + strings.ReplaceAll(err.Error(), " ", "_")
	}
	return res, ""
}

// A call that does not return spins: the child is declared hung once it has burnt childCPU of
// CPU time (read from /proc), not after a wall-clock time — the machine is shared and a starved
// child may need many seconds of wall time for a few milliseconds of work.  childWall is only a
// last resort.
var (
	childCPU  = 20 * time.Second
	childWall = 600 * time.Second
)

// cpuTime returns utime+stime of a process from /proc/<pid>/stat.
func cpuTime(pid int) time.Duration {
	b, err := os.ReadFile(fmt.Sprintf("/proc/%d/stat", pid))
	if err != nil {
		return 0
	}
	s := string(b)
	i := strings.LastIndexByte(s, ')')
	if i < 0 {
		return 0
	}
	f := strings.Fields(s[i+1:])
	if len(f) < 13 {
		return 0
	}
	ut, _ := strconv.ParseInt(f[11], 10, 64)
	st, _ := strconv.ParseInt(f[12], 10, 64)
	return time.Duration(ut+st) * time.Second / 100 // USER_HZ = 100
}

// runChild re-executes this binary on one op line; a child that keeps burning CPU without
// answering is killed and the answer is `hang`.
func runChild(op string) string {
	cmd := exec.Command(os.Args[0], "child-op")
	cmd.Env = append(os.Environ(), "VERIF_DS_CHILD=1", "GOMEMLIMIT=2GiB", "GOMAXPROCS=2")
	cmd.Stdin = strings.NewReader(op + "\n")
	var out bytes.Buffer
	cmd.Stdout = &out
	if err := cmd.Start(); err != nil {
		return "err:child-start"
	}
	done := make(chan error, 1)
	go func() { done <- cmd.Wait() }()
	start := time.Now()
	tick := time.NewTicker(100 * time.Millisecond)
	defer tick.Stop()
	for {
		select {
		case <-done:
			return strings.TrimSpace(out.String())
		case <-tick.C:
			if cpuTime(cmd.Process.Pid) >= childCPU || time.Since(start) >= childWall {
				_ = cmd.Process.Kill()
				<-done
				return "hang"
			}
		}
	}
}

// ---------------------------------------------------------------- reading through the querier

type oneSeries struct {
	chks []storepb.AggrChunk
	done bool
}

func (s *oneSeries) Next() bool {
	if s.done {
		return false
	}
	s.done = true
	return true
}
func (s *oneSeries) At() (labels.Labels, []storepb.AggrChunk) {
	return labels.FromStrings("a", "1"), s.chks
}
func (s *oneSeries) Err() error { return nil }

func xorOf(ps []pt) *storepb.Chunk {
	c := chunkenc.NewXORChunk()
	app, _ := c.Appender()
	for _, p := range ps {
		app.Append(p.t, p.v)
	}
	return &storepb.Chunk{Type: storepb.Chunk_XOR, Data: c.Bytes()}
}

func subChunk(ac *downsample.AggrChunk, a downsample.AggrType) *storepb.Chunk {
	x, err := ac.Get(a)
	if err != nil {
		return nil
	}
	return &storepb.Chunk{Type: storepb.Chunk_XOR, Data: x.Bytes()}
}

// toStore is what the store gateway's populateChunk does for all five aggregates.
func toStore(metas []chunks.Meta, acs []*downsample.AggrChunk) []storepb.AggrChunk {
	out := make([]storepb.AggrChunk, len(acs))
	for i, ac := range acs {
		out[i] = storepb.AggrChunk{MinTime: metas[i].MinTime, MaxTime: metas[i].MaxTime,
			Count: subChunk(ac, downsample.AggrCount), Sum: subChunk(ac, downsample.AggrSum),
			Min: subChunk(ac, downsample.AggrMin), Max: subChunk(ac, downsample.AggrMax),
			Counter: subChunk(ac, downsample.AggrCounter)}
	}
	return out
}

var aggrOrder = []storepb.Aggr{storepb.Aggr_COUNT, storepb.Aggr_SUM, storepb.Aggr_MIN, storepb.Aggr_MAX, storepb.Aggr_COUNTER}

// queryRead reads one aggregate of the chunks the way the querier does, over the full range.
func queryRead(chks []storepb.AggrChunk, a storepb.Aggr) []pt {
	return queryReadRange(chks, a, math.MinInt64, math.MaxInt64)
}

// queryReadRange: query.NewPromSeriesSet(…, mint, maxt, [aggr]) -> chunkSeries.Iterator -> boundedSeriesIterator.
func queryReadRange(chks []storepb.AggrChunk, a storepb.Aggr, mint, maxt int64) []pt {
	if len(chks) == 0 {
		return nil
	}
	set := query.NewPromSeriesSet(&oneSeries{chks: chks}, mint, maxt, []storepb.Aggr{a}, nil)
	if !set.Next() {
		panic("no series")
	}
	return drain(set.At().Iterator(nil))
}

// ---------------------------------------------------------------- Exec

func atoi64(s string) (int64, bool) {
	v, err := strconv.ParseInt(s, 10, 64)
	return v, err == nil
}

func atoi(s string) (int, bool) {
	v, err := strconv.Atoi(s)
	return v, err == nil && v >= 0
}

type dsCase struct {
	r1, r2   int64
	nc1, nc2 int
	ts       []int64
	vs       []float64
	// results
	l1metas []chunks.Meta
	l1      []dchunk
	l1acs   []*downsample.AggrChunk
	l2      []dchunk
	l2metas []chunks.Meta
	l2acs   []*downsample.AggrChunk
	l2err   string
	mint    int64
	maxt    int64
}

// inDomain: timestamps ≥ 0 and strictly increasing, resolution > 0 — the domain of the oracles.
func inDomain(ts []int64, r int64) bool {
	if r <= 0 {
		return false
	}
	for i, t := range ts {
		if t < 0 || (i > 0 && ts[i-1] >= t) {
			return false
		}
	}
	return true
}

func execDs(tok []string) (string, *dsCase) {
	if len(tok) == 0 {
		return "bad-op", nil
	}
	switch tok[0] {
	case "ds.raw":
		if len(tok) != 5 || (tok[1] != "auto" && tok[1] != "man") {
			return "bad-op", nil
		}
		r, ok1 := atoi64(tok[2])
		nc, ok2 := atoi(tok[3])
		ts, vs, ok3 := parseSamples(tok[4])
		if !ok1 || !ok2 || !ok3 {
			return "bad-op", nil
		}
		metas, e := rawLevel(tok[1], r, nc, ts, vs)
		if e != "" {
			return e, nil
		}
		d, acs := decode(metas)
		return fmtChunks(d), &dsCase{r1: r, nc1: nc, ts: ts, vs: vs, l1metas: metas, l1: d, l1acs: acs}
	case "ds.read":
		if len(tok) != 4 {
			return "bad-op", nil
		}
		r, ok1 := atoi64(tok[1])
		nc, ok2 := atoi(tok[2])
		ts, vs, ok3 := parseSamples(tok[3])
		if !ok1 || !ok2 || !ok3 {
			return "bad-op", nil
		}
		metas, _ := rawLevel("man", r, nc, ts, vs)
		d, acs := decode(metas)
		st := toStore(metas, acs)
		parts := make([]string, 5)
		for i, a := range aggrOrder {
			parts[i] = fmtPts(queryRead(st, a))
		}
		return strings.Join(parts, ";"), &dsCase{r1: r, nc1: nc, ts: ts, vs: vs, l1metas: metas, l1: d, l1acs: acs}
	case "ds.readr":
		if len(tok) != 6 {
			return "bad-op", nil
		}
		r, ok1 := atoi64(tok[1])
		nc, ok2 := atoi(tok[2])
		mint, ok3 := atoi64(tok[3])
		maxt, ok4 := atoi64(tok[4])
		ts, vs, ok5 := parseSamples(tok[5])
		if !ok1 || !ok2 || !ok3 || !ok4 || !ok5 {
			return "bad-op", nil
		}
		metas, _ := rawLevel("man", r, nc, ts, vs)
		d, acs := decode(metas)
		st := toStore(metas, acs)
		parts := make([]string, 5)
		for i, a := range aggrOrder {
			parts[i] = fmtPts(queryReadRange(st, a, mint, maxt))
		}
		return strings.Join(parts, ";"), &dsCase{r1: r, nc1: nc, ts: ts, vs: vs, l1metas: metas, l1: d, l1acs: acs, mint: mint, maxt: maxt}
	case "ds.aggr", "ds.ctr":
		mode := "man"
		args := tok[1:]
		if tok[0] == "ds.aggr" {
			if len(tok) != 7 || (tok[1] != "auto" && tok[1] != "man") {
				return "bad-op", nil
			}
			mode = tok[1]
			args = tok[2:]
		} else if len(tok) != 6 {
			return "bad-op", nil
		}
		r1, ok1 := atoi64(args[0])
		nc1, ok2 := atoi(args[1])
		r2, ok3 := atoi64(args[2])
		nc2, ok4 := atoi(args[3])
		ts, vs, ok5 := parseSamples(args[4])
		if !ok1 || !ok2 || !ok3 || !ok4 || !ok5 {
			return "bad-op", nil
		}
		cs := &dsCase{r1: r1, r2: r2, nc1: nc1, nc2: nc2, ts: ts, vs: vs}
		cs.l1metas, _ = rawLevel("man", r1, nc1, ts, vs)
		cs.l1, cs.l1acs = decode(cs.l1metas)
		var e string
		cs.l2metas, e = aggrLevel(mode, cs.l1metas, cs.l1acs, r1, r2, nc2, strings.Join(tok, " "))
		if strings.HasPrefix(e, "child:") {
			// the whole op was answered by the child process (or it hung)
			ans := strings.TrimPrefix(e, "child:")
			cs.l2err = ans
			if ans == "hang" && tok[0] == "ds.ctr" {
				st1 := toStore(cs.l1metas, cs.l1acs)
				ans = fmtPts(queryRead(st1, storepb.Aggr_COUNTER)) + ";hang"
			}
			return ans, cs
		}
		cs.l2err = e
		if e == "" {
			cs.l2, cs.l2acs = decode(cs.l2metas)
		}
		if tok[0] == "ds.aggr" {
			if e != "" {
				return e, cs
			}
			return fmtChunks(cs.l2), cs
		}
		st1 := toStore(cs.l1metas, cs.l1acs)
		a1 := fmtPts(queryRead(st1, storepb.Aggr_COUNTER))
		if e != "" {
			return a1 + ";" + e, cs
		}
		st2 := toStore(cs.l2metas, cs.l2acs)
		return a1 + ";" + fmtPts(queryRead(st2, storepb.Aggr_COUNTER)), cs
	case "ds.apply":
		if len(tok) != 2 {
			return "bad-op", nil
		}
		ls, ok := parseLists(tok[1])
		if !ok {
			return "bad-op", nil
		}
		its := make([]chunkenc.Iterator, len(ls))
		for i, l := range ls {
			c, _ := chunkenc.FromData(chunkenc.EncXOR, xorOf(l).Data)
			its[i] = c.Iterator(nil)
		}
		it := downsample.NewApplyCounterResetsIterator(its...)
		return fmtPts(drain(it)), nil
	case "ds.cs":
		if len(tok) != 2 {
			return "bad-op", nil
		}
		ls, ok := parseLists(tok[1])
		if !ok {
			return "bad-op", nil
		}
		st := make([]storepb.AggrChunk, len(ls))
		for i, l := range ls {
			st[i] = storepb.AggrChunk{Count: xorOf(l)}
		}
		return fmtPts(queryRead(st, storepb.Aggr_COUNT)), nil
	}
	return "bad-op", nil
}

// childMain answers one op line read from stdin (used for calls that may not terminate).
func childMain() {
	var b bytes.Buffer
	_, _ = b.ReadFrom(os.Stdin)
	out, _ := func() (s string, c *dsCase) {
		defer func() {
			if r := recover(); r != nil {
				s = "panic"
			}
		}()
		return execDs(strings.Fields(b.String()))
	}()
	fmt.Println(out)
}
