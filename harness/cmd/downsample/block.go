package main

// Block-level entry point: the real downsample.Downsample() on a real TSDB block.
//
//	o.block <seed> <n> <kind>      kind = gauge | counter            (oracle only: not sent to the model)
//	    a raw block with ONE series of n samples drawn from <seed> (scrape interval 5s/15s/60s with jitter,
//	    NaN and stale markers about every 1000 samples, integer values; counter: non-negative with resets about
//	    every 2500 samples) is written with tsdb.CreateBlock (120-sample XOR chunks), then
//	        Downsample(raw block, 5m)  -> 5m block  -> Downsample(5m block, 1h) -> 1h block
//	        Downsample(raw block, 1h)                                              (C36 only)
//	    every produced block is read back from disk (index + chunk files) and checked against the raw data:
//	    window equations and chunk layout (C36), totals of the 1h block vs the 5m block vs raw (C38), the counter
//	    read through the querier's COUNTER selection at both levels (C37).
//	    -> ok l1=<chunks>/<samples> l2=<chunks>/<samples> [d1h=<chunks>/<samples>]

import (
	"context"
	"fmt"
	"io"
	"log/slog"
	"math"
	"os"
	"path/filepath"
	"strconv"

	"github.com/go-kit/log"
	"github.com/oklog/ulid/v2"
	"github.com/prometheus/prometheus/model/histogram"
	"github.com/prometheus/prometheus/model/labels"
	"github.com/prometheus/prometheus/storage"
	"github.com/prometheus/prometheus/tsdb"
	"github.com/prometheus/prometheus/tsdb/chunkenc"
	"github.com/prometheus/prometheus/tsdb/chunks"
	"github.com/prometheus/prometheus/tsdb/index"

	"github.com/thanos-io/thanos/pkg/block"
	"github.com/thanos-io/thanos/pkg/block/metadata"
	"github.com/thanos-io/thanos/pkg/compact/downsample"
	"github.com/thanos-io/thanos/pkg/store/storepb"
	"github.com/thanos-io/thanos/verifharness/hlib"
)

type blkSample struct {
	t int64
	v float64
}

func (s blkSample) T() int64                      { return s.t }
func (s blkSample) F() float64                    { return s.v }
func (s blkSample) H() *histogram.Histogram       { return nil }
func (s blkSample) FH() *histogram.FloatHistogram { return nil }
func (s blkSample) Type() chunkenc.ValueType      { return chunkenc.ValFloat }
func (s blkSample) Copy() chunks.Sample           { return s }

// genBlockSeries is a pure function of (seed, n, kind).
func genBlockSeries(seed uint64, n int, kind string) (ts []int64, vs []float64) {
	r := hlib.NewRand(seed*0x9e3779b97f4a7c15 + 17)
	base := []int64{5000, 15000, 60000}[r.Intn(3)]
	t := int64(1700000000000) + r.I64Range(0, 3600000)
	v := float64(r.Intn(1000))
	nanEvery := 900 + r.Intn(200)
	staleEvery := 950 + r.Intn(200)
	resetEvery := 2000 + r.Intn(1000)
	for i := 0; i < n; i++ {
		t += base - base/5 + r.I64Range(0, 2*base/5)
		var x float64
		switch {
		case i > 0 && i%nanEvery == 0:
			x = math.NaN()
		case i > 0 && i%staleEvery == 0:
			x = staleNaN
		case kind == "counter":
			if i > 0 && (i%resetEvery == 0 || r.Chance(1, 3000)) {
				v = float64(r.Intn(5))
			} else {
				v += float64(r.Intn(50))
			}
			x = v
		default:
			x = float64(r.Intn(2001) - 1000)
		}
		ts = append(ts, t)
		vs = append(vs, x)
	}
	return ts, vs
}

func discard() *slog.Logger { return slog.New(slog.NewTextHandler(io.Discard, nil)) }

// readBlockChunks reads the aggregate chunks of the only series of a downsampled block from disk.
func readBlockChunks(dir string, id ulid.ULID) ([]chunks.Meta, error) {
	bdir := filepath.Join(dir, id.String())
	indexr, err := index.NewFileReader(filepath.Join(bdir, block.IndexFilename), index.DecodePostingsRaw)
	if err != nil {
		return nil, err
	}
	defer indexr.Close()
	chunkr, err := chunks.NewDirReader(filepath.Join(bdir, block.ChunksDirname), downsample.NewPool())
	if err != nil {
		return nil, err
	}
	defer chunkr.Close()
	k, v := index.AllPostingsKey()
	p, err := indexr.Postings(context.Background(), k, v)
	if err != nil {
		return nil, err
	}
	var out []chunks.Meta
	nseries := 0
	for p.Next() {
		nseries++
		var b labels.ScratchBuilder
		var chks []chunks.Meta
		if err := indexr.Series(p.At(), &b, &chks); err != nil {
			return nil, err
		}
		for _, m := range chks {
			chk, _, err := chunkr.ChunkOrIterable(m)
			if err != nil {
				return nil, err
			}
			ac, ok := chk.(*downsample.AggrChunk)
			if !ok {
				return nil, fmt.Errorf("chunk of type %T in a downsampled block", chk)
			}
			// the reader's buffer is reused: copy
			cp := downsample.AggrChunk(append([]byte(nil), ac.Bytes()...))
			m.Chunk = &cp
			out = append(out, m)
		}
	}
	if nseries > 1 {
		return nil, fmt.Errorf("%d series in the block", nseries)
	}
	return out, p.Err()
}

func countSamples(d []dchunk) int {
	n := 0
	for _, c := range d {
		n += len(c.lists[0])
	}
	return n
}

// execBlock runs the chain and the oracles selected by prop ("C36", "C37", "C38").
func execBlock(c *hlib.Ctx, tok []string, prop string) string {
	if len(tok) != 4 {
		return "bad-op"
	}
	seed, err1 := strconv.ParseUint(tok[1], 10, 64)
	n, err2 := strconv.Atoi(tok[2])
	kind := tok[3]
	if err1 != nil || err2 != nil || n < 1 || n > 200000 || (kind != "gauge" && kind != "counter") {
		return "bad-op"
	}
	ts, vs := genBlockSeries(seed, n, kind)
	dir, err := os.MkdirTemp("", "verif-dsblock-")
	if err != nil {
		return "err:tmp"
	}
	defer os.RemoveAll(dir)

	smp := make([]chunks.Sample, len(ts))
	for i := range ts {
		smp[i] = blkSample{ts[i], vs[i]}
	}
	series := []storage.Series{storage.NewListSeries(labels.FromStrings("__name__", "a", "kind", kind), smp)}
	rawPath, err := tsdb.CreateBlock(series, dir, ts[len(ts)-1]-ts[0]+1, discard())
	if err != nil {
		return "err:createblock:" + err.Error()
	}
	rawB, err := tsdb.OpenBlock(discard(), rawPath, nil, nil)
	if err != nil {
		return "err:openblock"
	}
	defer rawB.Close()
	rawMeta := &metadata.Meta{BlockMeta: rawB.Meta()}
	ctx := context.Background()

	down := func(meta *metadata.Meta, b tsdb.BlockReader, res int64) (ulid.ULID, []chunks.Meta, []dchunk, []*downsample.AggrChunk, string) {
		id, err := downsample.Downsample(ctx, log.NewNopLogger(), meta, b, dir, res)
		if err != nil {
			return id, nil, nil, nil, "err:downsample:" + err.Error()
		}
		metas, err := readBlockChunks(dir, id)
		if err != nil {
			return id, nil, nil, nil, "err:read:" + err.Error()
		}
		d, acs := decode(metas)
		return id, metas, d, acs, ""
	}

	// raw -> 5m
	id5, m5, d5, a5, e := down(rawMeta, rawB, downsample.ResLevel1)
	if e != "" {
		c.Violation("block-downsample-error", e)
		return e
	}
	if prop == "C36" {
		var lists [4][]pt
		checkChunkShape(c, d5, &lists)
		checkWindows(c, ts, vs, downsample.ResLevel1, lists)
	}
	rt, adj := adjustedRaw(ts, vs)
	if prop == "C37" && kind == "counter" {
		checkCounter(c, 1, rt, adj, queryRead(toStore(m5, a5), storepb.Aggr_COUNTER))
	}
	// 5m -> 1h
	b5, err := tsdb.OpenBlock(discard(), filepath.Join(dir, id5.String()), downsample.NewPool(), nil)
	if err != nil {
		return "err:open5m"
	}
	defer b5.Close()
	meta5, err := metadata.ReadFromDir(filepath.Join(dir, id5.String()))
	if err != nil {
		return "err:meta5m"
	}
	_, m1h, d1h, a1h, e := down(meta5, b5, downsample.ResLevel2)
	if e != "" {
		c.Violation("block-downsample-error", e)
		return e
	}
	out := fmt.Sprintf("ok l1=%d/%d l2=%d/%d", len(d5), countSamples(d5), len(d1h), countSamples(d1h))
	if prop == "C38" {
		checkTotals(c, ts, vs, d5, d1h)
	}
	if prop == "C37" && kind == "counter" {
		checkCounter(c, 2, rt, adj, queryRead(toStore(m1h, a1h), storepb.Aggr_COUNTER))
	}
	if prop == "C36" {
		// raw -> 1h directly
		_, _, dd, _, e := down(rawMeta, rawB, downsample.ResLevel2)
		if e != "" {
			c.Violation("block-downsample-error", e)
			return e
		}
		var lists [4][]pt
		checkChunkShape(c, dd, &lists)
		checkWindows(c, ts, vs, downsample.ResLevel2, lists)
		out += fmt.Sprintf(" d1h=%d/%d", len(dd), countSamples(dd))
	}
	return out
}
