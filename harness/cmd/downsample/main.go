// Family binary "downsample": C36, C37, C38, C39 (pkg/compact/downsample).
package main

import "github.com/thanos-io/thanos/verifharness/hlib"

var props []*hlib.Prop

func main() { hlib.Main(props) }
