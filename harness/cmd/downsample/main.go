// Family binary "downsample": C36, C37, C38, C39 (pkg/compact/downsample).
package main

import (
	"os"

	"github.com/thanos-io/thanos/verifharness/hlib"
)

var props []*hlib.Prop

func main() {
	// `child-op`: answer one ds.* op line from stdin; used by the parent for calls into the real
	// code that may not terminate (see runChild in ds.go).
	if len(os.Args) == 2 && os.Args[1] == "child-op" {
		childMain()
		return
	}
	hlib.Main(props)
}
