package main

// C36 — raw downsampling aggregates are exact.
//
// ops (grammar in ds.go):
//   ds.raw  <auto|man> <r> <nc> <samples>   -> the aggregate chunks DownsampleRaw / downsampleRawLoop produce
//   ds.read <r> <nc> <samples>              -> the five aggregates read back through the querier
//   ds.readr <r> <nc> <mint> <maxt> <samples> -> the five aggregates read through the querier's series bounded to
//                                              [mint, maxt] (NewPromSeriesSet(…, mint, maxt, aggr)): ranges on every chunk's
//                                              MinTime/MaxTime and ±1, point, single-chunk, empty ranges; oracle: exactly the
//                                              window aggregates with mint ≤ t ≤ maxt (class readback-range-differs)
//   ds.cs   <list>|<list>|…                 -> query.chunkSeriesIterator over arbitrary chunk lists
//                                              (malformed stream: overlapping / unordered chunks; no oracle)
//
// oracle (independent of the model; domain: timestamps strictly increasing — negative ones included since
// the repair of F36 —, r > 0, nc ≥ 1):
//   * the four aggregates of a chunk carry the same, strictly increasing timestamps; the chunk's
//     [MinTime, MaxTime] is [first, last] of them; consecutive chunks do not overlap
//   * every output point (ts, count, sum, min, max): the raw non-NaN samples S of the window
//     [lo, lo + r - 1] with lo = ts - floormod(ts, r) are non-empty, count = |S|, sum = ΣS, min = min S, max = max S,
//     and ts is not before the last sample of S; windows strictly increase
//   * every raw non-NaN sample's window has an output point; Σ count = #S_all, Σ sum = Σ S_all
//   * ds.read: each aggregate read through the querier equals the concatenation of the decoded
//     sub-chunks, and satisfies the same window equations

import (
	"fmt"
	"math"
	"strconv"
	"strings"

	"github.com/thanos-io/thanos/pkg/compact/downsample"
	"github.com/thanos-io/thanos/verifharness/hlib"
)

func init() {
	props = append(props, &hlib.Prop{ID: "C36", Gen: genC36, Exec: execC36})
}

func execC36(c *hlib.Ctx, tok []string) string {
	if len(tok) > 0 && tok[0] == "o.block" {
		return execBlock(c, tok, "C36")
	}
	out, cs := execDs(tok)
	if cs == nil || len(tok) == 0 {
		return out
	}
	switch tok[0] {
	case "ds.raw":
		if negativeOnly(cs.ts, cs.r1) {
			c.Count("oracle:negative-timestamps")
		}
		if !increasing(cs.ts, cs.r1) || cs.nc1 < 1 {
			c.Count("oracle:skipped-out-of-domain")
			return out
		}
		var lists [4][]pt
		checkChunkShape(c, cs.l1, &lists)
		checkWindows(c, cs.ts, cs.vs, cs.r1, lists)
	case "ds.readr":
		if !increasing(cs.ts, cs.r1) || cs.nc1 < 1 {
			c.Count("oracle:skipped-out-of-domain")
			return out
		}
		parts := strings.Split(out, ";")
		if len(parts) != 5 {
			c.Violation("readback-differs", "malformed read-back answer "+out)
			return out
		}
		// exactly the window aggregates (the decoded sub-chunks, checked by ds.raw/ds.read) with mint ≤ t ≤ maxt
		for k := 0; k < 4; k++ {
			var want []pt
			for _, ch := range cs.l1 {
				for _, p := range ch.lists[k] {
					if p.t >= cs.mint && p.t <= cs.maxt {
						want = append(want, p)
					}
				}
			}
			if fmtPts(want) != parts[k] {
				c.Violation("readback-range-differs", fmt.Sprintf("aggregate %d bounded to [%d,%d]: the querier returns %s, the window aggregates in the range are %s", k, cs.mint, cs.maxt, clip(parts[k]), clip(fmtPts(want))))
			}
		}
	case "ds.read":
		if !increasing(cs.ts, cs.r1) || cs.nc1 < 1 {
			c.Count("oracle:skipped-out-of-domain")
			return out
		}
		parts := strings.Split(out, ";")
		if len(parts) != 5 {
			c.Violation("readback-differs", "malformed read-back answer "+out)
			return out
		}
		var lists [4][]pt
		for k := 0; k < 4; k++ {
			var want []pt
			for _, ch := range cs.l1 {
				want = append(want, ch.lists[k]...)
			}
			if fmtPts(want) != parts[k] {
				c.Violation("readback-differs", fmt.Sprintf("aggregate %d read through the querier differs from the chunk contents: %s vs %s", k, parts[k], fmtPts(want)))
			}
			l, _ := parseLists(parts[k])
			if len(l) == 1 {
				lists[k] = l[0]
			}
		}
		checkWindows(c, cs.ts, cs.vs, cs.r1, lists)
	}
	return out
}

// increasing: the domain of the C36 oracle — strictly increasing timestamps (negative ones
// included since the repair of F36) and a positive resolution.
func increasing(ts []int64, r int64) bool {
	if r <= 0 {
		return false
	}
	for i := range ts {
		if i > 0 && ts[i-1] >= ts[i] {
			return false
		}
	}
	return true
}

func clip(s string) string {
	if len(s) > 160 {
		return s[:160] + "…"
	}
	return s
}

// genRanges emits ds.readr ops for one downsampled series: full range, mint / maxt exactly on every
// chunk's MinTime / MaxTime and one off, point ranges, single-chunk ranges, empty ranges.
func genRanges(c *hlib.Ctx, r int64, nc int, ts []int64, field string, budget int) {
	_, vs, _ := parseSamples(field)
	metas, _ := rawLevel("man", r, nc, ts, vs)
	if len(metas) == 0 {
		return
	}
	rr := c.R
	lo, hi := metas[0].MinTime, metas[len(metas)-1].MaxTime
	type rg struct {
		a, b int64
		tag  string
	}
	var all []rg
	all = append(all, rg{lo, hi, "full"}, rg{lo - 5, hi + 5, "wider"}, rg{hi + 1, hi + 9, "after"}, rg{lo - 9, lo - 1, "before"}, rg{hi, lo, "inverted"})
	for i, m := range metas {
		for _, d := range []int64{-1, 0, 1} {
			all = append(all, rg{lo, m.MinTime + d, "maxt=chunk-MinTime"}, rg{lo, m.MaxTime + d, "maxt=chunk-MaxTime"},
				rg{m.MinTime + d, hi, "mint=chunk-MinTime"}, rg{m.MaxTime + d, hi, "mint=chunk-MaxTime"})
		}
		all = append(all, rg{m.MinTime, m.MaxTime, "single-chunk"}, rg{m.MinTime, m.MinTime, "point"}, rg{m.MaxTime, m.MaxTime, "point"})
		if i+1 < len(metas) {
			all = append(all, rg{m.MaxTime + 1, metas[i+1].MinTime - 1, "between-chunks"}, rg{m.MaxTime, metas[i+1].MinTime, "two-ends"})
		}
	}
	for k := 0; k < budget && len(all) > 0; k++ {
		j := k
		if k >= 5 { // the first five always, then a random choice of the boundary ranges
			j = 5 + rr.Intn(len(all)-5+1)
			if j >= len(all) {
				j = len(all) - 1
			}
		}
		if j >= len(all) {
			break
		}
		g := all[j]
		c.Count("range:" + g.tag)
		c.Do(fmt.Sprintf("ds.readr %d %d %d %d %s", r, nc, g.a, g.b, field), true)
	}
}

// negativeOnly: strictly increasing timestamps, resolution > 0, and at least one timestamp < 0.
func negativeOnly(ts []int64, r int64) bool {
	if r <= 0 || len(ts) == 0 {
		return false
	}
	neg := false
	for i, t := range ts {
		if i > 0 && ts[i-1] >= t {
			return false
		}
		if t < 0 {
			neg = true
		}
	}
	return neg
}

// checkChunkShape: alignment of the four aggregates, meta ranges, ordering of the chunks.
func checkChunkShape(c *hlib.Ctx, chks []dchunk, flat *[4][]pt) {
	for k, ch := range chks {
		n := len(ch.lists[0])
		if n == 0 {
			c.Violation("chunk-empty", fmt.Sprintf("chunk %d has no samples", k))
			continue
		}
		for a := 1; a < 4; a++ {
			if len(ch.lists[a]) != n {
				c.Violation("aggregates-misaligned", fmt.Sprintf("chunk %d: aggregate %d has %d samples, count has %d", k, a, len(ch.lists[a]), n))
				return
			}
			for i := range ch.lists[a] {
				if ch.lists[a][i].t != ch.lists[0][i].t {
					c.Violation("aggregates-misaligned", fmt.Sprintf("chunk %d: aggregate %d timestamp %d differs from count's", k, a, i))
					return
				}
			}
		}
		if ch.mint != ch.lists[0][0].t || ch.maxt != ch.lists[0][n-1].t {
			c.Violation("chunk-range-wrong", fmt.Sprintf("chunk %d: meta [%d,%d] but samples span [%d,%d]", k, ch.mint, ch.maxt, ch.lists[0][0].t, ch.lists[0][n-1].t))
		}
		if k > 0 && chks[k-1].maxt >= ch.mint {
			c.Violation("chunks-overlap", fmt.Sprintf("chunk %d [%d,%d] does not start after chunk %d [%d,%d]", k, ch.mint, ch.maxt, k-1, chks[k-1].mint, chks[k-1].maxt))
		}
		for a := 0; a < 4; a++ {
			flat[a] = append(flat[a], ch.lists[a]...)
		}
	}
}

// checkWindows: the window equations of the property, restated over the raw input.
func checkWindows(c *hlib.Ctx, ts []int64, vs []float64, r int64, lists [4][]pt) {
	var rt []int64
	var rv []float64
	total := 0.0
	for i := range ts {
		if !math.IsNaN(vs[i]) {
			rt = append(rt, ts[i])
			rv = append(rv, vs[i])
			total += vs[i]
		}
	}
	n := len(lists[0])
	for a := 1; a < 4; a++ {
		if len(lists[a]) != n {
			c.Violation("aggregates-misaligned", "aggregate lists of different length")
			return
		}
	}
	j := 0
	prevHi := int64(math.MinInt64)
	sumCount, sumSum := 0.0, 0.0
	for i := 0; i < n; i++ {
		t := lists[0][i].t
		lo := t - ((t%r)+r)%r // floored: the window [lo, lo+r-1] that contains t, also for t < 0
		hi := lo + r - 1
		if i > 0 && lo <= prevHi {
			c.Violation("windows-not-increasing", fmt.Sprintf("output %d at %d is not in a later window than output %d", i, t, i-1))
			return
		}
		prevHi = hi
		if j < len(rt) && rt[j] < lo {
			c.Violation("window-missing", fmt.Sprintf("raw sample at %d has no output point in its window", rt[j]))
			return
		}
		cnt, sum, mn, mx := 0, 0.0, math.Inf(1), math.Inf(-1)
		last := int64(0)
		for j < len(rt) && rt[j] <= hi {
			cnt++
			sum += rv[j]
			mn = math.Min(mn, rv[j])
			mx = math.Max(mx, rv[j])
			last = rt[j]
			j++
		}
		if cnt == 0 {
			c.Violation("window-empty-output", fmt.Sprintf("output point at %d but no raw sample in [%d,%d]", t, lo, hi))
			return
		}
		if lists[0][i].v != float64(cnt) || lists[1][i].v != sum || lists[2][i].v != mn || lists[3][i].v != mx {
			c.Violation("window-aggregate-wrong", fmt.Sprintf("window [%d,%d]: got count/sum/min/max %v/%v/%v/%v, raw samples give %d/%v/%v/%v",
				lo, hi, lists[0][i].v, lists[1][i].v, lists[2][i].v, lists[3][i].v, cnt, sum, mn, mx))
			return
		}
		if t < last {
			c.Violation("window-timestamp-before-sample", fmt.Sprintf("output at %d precedes the raw sample at %d of its window", t, last))
		}
		sumCount += lists[0][i].v
		sumSum += lists[1][i].v
	}
	if j < len(rt) {
		c.Violation("window-missing", fmt.Sprintf("raw sample at %d has no output point in its window", rt[j]))
		return
	}
	if sumCount != float64(len(rt)) || sumSum != total {
		c.Violation("totals", fmt.Sprintf("Σcount=%v Σsum=%v, raw has %d samples with sum %v", sumCount, sumSum, len(rt), total))
	}
}

func genC36(c *hlib.Ctx) {
	rr := c.R
	// the block-level entry point Downsample() on real blocks: short, just above 32768 samples, long
	for _, n := range []int{1000, 33500} {
		c.Count("block:" + strconv.Itoa(n))
		c.Do(fmt.Sprintf("o.block %d %d %s", rr.Intn(1<<30), n, []string{"gauge", "counter"}[rr.Intn(2)]), true)
	}
	for i := 0; i < c.N(0, 6); i++ {
		n := []int{70000, 33000 + rr.Intn(3000), 5000 + rr.Intn(60000)}[i%3]
		c.Count("block:thorough")
		c.Do(fmt.Sprintf("o.block %d %d %s", rr.Intn(1<<30), n, []string{"gauge", "counter"}[rr.Intn(2)]), true)
	}
	// the entry point DownsampleRaw on long series: it decides the chunking itself (several chunks)
	for i := 0; i < c.N(40, 1500); i++ {
		r := resolutions[rr.Intn(len(resolutions))]
		ts, vals := genLongSeries(c, r, rr.Chance(1, 3))
		nc := tccRaw(ts, r)
		c.Count("long-auto:chunks:" + bucket(nc))
		field := samplesField(ts, vals)
		c.Do(fmt.Sprintf("ds.raw auto %d %d %s", r, nc, field), true)
		if rr.Chance(1, 4) {
			c.Do(fmt.Sprintf("ds.read %d %d %s", r, nc, field), true)
		}
		if i < c.N(6, 60) {
			genRanges(c, r, nc, ts, field, 14)
		}
	}
	defer func() { c.Dist["entry:DownsampleRaw(ds.read/level 1)"] = entryDownsampleRaw }()
	n := c.N(1200, 30000)
	for i := 0; i < n; i++ {
		r := resolutions[rr.Intn(len(resolutions))]
		c.Count(fmt.Sprintf("res:%d", r))
		ts, vals := genSeries(c, r, genOpt{counter: rr.Chance(1, 4)})
		field := samplesField(ts, vals)
		auto := rr.Chance(1, 3) && len(ts) > 0
		var nc int
		if auto {
			nc = downsample.VerifTargetChunkCount(ts[0], ts[len(ts)-1], 60000, r, len(ts))
			c.Count("mode:auto")
			if nc > 1 {
				c.Count("auto-nc:>1")
			}
			out := c.Do(fmt.Sprintf("ds.raw auto %d %d %s", r, nc, field), len(ts) > 0)
			c.Count(fmt.Sprintf("chunks:%s", bucket(strings.Count(out, "|")+1)))
		} else {
			nc = pickNC(c, len(ts), "nc")
			c.Count("mode:man")
			out := c.Do(fmt.Sprintf("ds.raw man %d %d %s", r, nc, field), len(ts) > 0)
			c.Count(fmt.Sprintf("chunks:%s", bucket(strings.Count(out, "|")+1)))
		}
		if rr.Chance(1, 3) {
			c.Do(fmt.Sprintf("ds.read %d %d %s", r, nc, field), len(ts) > 0)
		}
		if len(ts) > 0 && len(ts) <= 400 && nc >= 1 && rr.Chance(1, c.N(8, 24)) {
			genRanges(c, r, nc, ts, field, 8)
		}
	}
	// malformed stream (correspondence only): negative / unordered / duplicate timestamps, nc = 0, r ≤ 0 is excluded (Go panics on %0 — covered by one corpus line)
	m := c.N(150, 3000)
	for i := 0; i < m; i++ {
		r := resolutions[rr.Intn(len(resolutions))]
		ts, vals := genSeries(c, r, genOpt{})
		if len(ts) > 60 {
			ts, vals = ts[:60], vals[:60]
		}
		for k := range ts {
			switch rr.Intn(12) {
			case 0:
				ts[k] = -ts[k] - int64(rr.Intn(3))
			case 1:
				if k > 0 {
					ts[k] = ts[k-1]
				}
			case 2:
				ts[k] = rr.I64Range(-2*r, 2*r)
			}
		}
		c.Count("malformed:raw")
		nc := rr.Range(0, len(ts)+1)
		c.Do(fmt.Sprintf("ds.raw man %d %d %s", r, nc, samplesField(ts, vals)), true)
	}
	for i := 0; i < m/3; i++ {
		r := resolutions[rr.Intn(len(resolutions))]
		ts, vals := genSeries(c, r, genOpt{})
		if len(ts) > 40 {
			ts, vals = ts[:40], vals[:40]
		}
		if len(ts) == 0 {
			continue
		}
		shift := ts[0] + rr.I64Range(1, 3*r) // strictly increasing, starts before 0
		for k := range ts {
			ts[k] -= shift
		}
		c.Count("negative-timestamps")
		c.Do(fmt.Sprintf("ds.raw man %d %d %s", r, rr.Range(1, len(ts)+1), samplesField(ts, vals)), true)
	}
	for i := 0; i < m; i++ {
		c.Count("malformed:cs")
		c.Do("ds.cs "+genChunkLists(c), true)
	}
}

// genChunkLists: chunk lists for the two readers — mostly ordered, sometimes overlapping, going
// back in time, with duplicate timestamps, empty chunks, negative timestamps.
func genChunkLists(c *hlib.Ctx) string {
	rr := c.R
	k := rr.Range(1, 5)
	var chunksS []string
	t := rr.I64Range(-3, 20)
	for i := 0; i < k; i++ {
		n := rr.Range(0, 6)
		var ps []pt
		for j := 0; j < n; j++ {
			switch rr.Intn(8) {
			case 0:
				// duplicate timestamp
			case 1:
				t -= rr.I64Range(1, 5)
			default:
				t += rr.I64Range(1, 10)
			}
			ps = append(ps, pt{t, float64(rr.I64Range(0, 30))})
		}
		if rr.Chance(1, 4) {
			t -= rr.I64Range(0, 15) // next chunk overlaps
		}
		chunksS = append(chunksS, fmtPts(ps))
	}
	return strings.Join(chunksS, "|")
}

func bucket(n int) string {
	switch {
	case n <= 1:
		return "1"
	case n <= 3:
		return "2-3"
	case n <= 10:
		return "4-10"
	case n <= 50:
		return "11-50"
	}
	return "51+"
}
