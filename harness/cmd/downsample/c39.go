package main

import (
	"fmt"
	"strconv"
	"strings"

	"github.com/prometheus/prometheus/tsdb/chunkenc"
	"github.com/thanos-io/thanos/pkg/compact/downsample"
	"github.com/thanos-io/thanos/verifharness/hlib"
)

// C39 — aggregate chunk encoding round-trips for any set of aggregates.
//
// ops:
//   aggr.enc s0 s1 s2 s3 s4        si = nil | <enc>:<hexdata>     -> hex of EncodeAggrChunk
//   aggr.get <hexbytes> <t>                                       -> ok <enc> <hexdata> | notexist | invalid | badenc
//   aggr.rt  s0 s1 s2 s3 s4 <t>    encode, then Get(t)            -> as aggr.get   (oracle: the round trip)

func init() {
	props = append(props, &hlib.Prop{ID: "C39", Gen: genC39, Exec: execC39})
}

type rawChunk struct {
	enc chunkenc.Encoding
	b   []byte
}

func (r rawChunk) Bytes() []byte                                { return r.b }
func (r rawChunk) Encoding() chunkenc.Encoding                  { return r.enc }
func (r rawChunk) Appender() (chunkenc.Appender, error)         { return nil, fmt.Errorf("raw") }
func (r rawChunk) Iterator(chunkenc.Iterator) chunkenc.Iterator { return chunkenc.NewNopIterator() }
func (r rawChunk) NumSamples() int                              { return 0 }
func (r rawChunk) Compact()                                     {}
func (r rawChunk) Reset([]byte)                                 {}

func parseSubs(toks []string) ([5]chunkenc.Chunk, bool) {
	var chks [5]chunkenc.Chunk
	if len(toks) != 5 {
		return chks, false
	}
	for i, s := range toks {
		if s == "nil" {
			continue
		}
		parts := strings.SplitN(s, ":", 2)
		if len(parts) != 2 {
			return chks, false
		}
		e, err := strconv.Atoi(parts[0])
		if err != nil {
			return chks, false
		}
		d, err := hlib.UnHex(parts[1])
		if err != nil {
			return chks, false
		}
		chks[i] = rawChunk{enc: chunkenc.Encoding(e), b: d}
	}
	return chks, true
}

func showGet(c downsample.AggrChunk, t int) string {
	x, err := c.Get(downsample.AggrType(t))
	if err != nil {
		switch {
		case err == downsample.ErrAggrNotExist:
			return "notexist"
		case strings.Contains(err.Error(), "invalid size"):
			return "invalid"
		case strings.Contains(err.Error(), "invalid chunk encoding"):
			return "badenc"
		}
		return "err:" + err.Error()
	}
	return fmt.Sprintf("ok %d %s", x.Encoding(), hlib.Hex(x.Bytes()))
}

func execC39(c *hlib.Ctx, tok []string) string {
	if len(tok) == 0 {
		return "bad-op"
	}
	switch tok[0] {
	case "aggr.enc":
		chks, ok := parseSubs(tok[1:])
		if !ok {
			return "bad-op"
		}
		return hlib.Hex(downsample.EncodeAggrChunk(chks).Bytes())
	case "aggr.get":
		if len(tok) != 3 {
			return "bad-op"
		}
		b, err := hlib.UnHex(tok[1])
		t, err2 := strconv.Atoi(tok[2])
		if err != nil || err2 != nil {
			return "bad-op"
		}
		return showGet(downsample.AggrChunk(b), t)
	case "aggr.rt":
		if len(tok) != 7 {
			return "bad-op"
		}
		chks, ok := parseSubs(tok[1:6])
		t, err := strconv.Atoi(tok[6])
		if !ok || err != nil || t < 0 || t > 4 {
			return "bad-op"
		}
		got := showGet(*downsample.EncodeAggrChunk(chks), t)
		// oracle: present aggregate comes back unchanged, absent one is "does not exist"
		want := "notexist"
		if chks[t] != nil {
			e := chks[t].Encoding()
			if e == chunkenc.EncXOR || e == chunkenc.EncHistogram || e == chunkenc.EncFloatHistogram {
				want = fmt.Sprintf("ok %d %s", e, hlib.Hex(chks[t].Bytes()))
			} else {
				want = "badenc"
			}
		}
		if got != want {
			class := "roundtrip"
			if chks[t] == nil && got == "invalid" {
				class = "absent-reported-invalid"
			}
			c.Violation(class, fmt.Sprintf("Get(%d) after EncodeAggrChunk: got %q, want %q", t, got, want))
		}
		return got
	}
	return "bad-op"
}

func xorChunk(r *hlib.Rand, n int) []byte {
	ch := chunkenc.NewXORChunk()
	app, _ := ch.Appender()
	t := r.I64Range(0, 1<<40)
	for i := 0; i < n; i++ {
		t += r.I64Range(1, 60000)
		app.Append(t, float64(r.Intn(1000)))
	}
	return ch.Bytes()
}

func genSub(c *hlib.Ctx) string {
	r := c.R
	switch r.Intn(11) {
	case 10: // lengths around the varint size boundaries (1→2 bytes at 128, 2→3 bytes at 16384)
		c.Count("sub:varint-boundary-length")
		n := []int{127, 128, 129, 16383, 16384, 16385}[r.Intn(6)]
		return fmt.Sprintf("%d:%s", r.Range(1, 3), hlib.Hex(r.Bytes(n)))
	case 0, 1, 2, 3: // real XOR chunk
		c.Count("sub:xor-real")
		return "1:" + hlib.Hex(xorChunk(r, r.Range(0, 40)))
	case 4: // long real chunk: length needs a 2-byte varint
		c.Count("sub:xor-long")
		return "1:" + hlib.Hex(xorChunk(r, r.Range(100, 300)))
	case 5, 6:
		c.Count("sub:random-bytes")
		return fmt.Sprintf("%d:%s", r.Range(1, 3), hlib.Hex(r.Bytes(r.Range(1, 200))))
	case 7:
		c.Count("sub:single-byte")
		return fmt.Sprintf("%d:%s", r.Range(1, 3), hlib.Hex(r.Bytes(1)))
	case 8:
		c.Count("sub:zero-bytes-data") // data made of zero bytes (looks like length markers)
		return "1:" + hlib.Hex(make([]byte, r.Range(1, 5)))
	default:
		c.Count("sub:unknown-encoding")
		return fmt.Sprintf("%d:%s", r.Pick([]string{"0", "4", "200", "255"}), hlib.Hex(r.Bytes(r.Range(1, 20))))
	}
}

func genC39(c *hlib.Ctx) {
	r := c.R
	rounds := c.N(40, 2000)
	for round := 0; round < rounds; round++ {
		// every one of the 32 presence patterns, each round with fresh contents
		for pat := 0; pat < 32; pat++ {
			subs := make([]string, 5)
			for i := range subs {
				if pat&(1<<i) != 0 {
					subs[i] = genSub(c)
				} else {
					subs[i] = "nil"
				}
			}
			c.Count(fmt.Sprintf("present:%d", popcount(pat)))
			line := strings.Join(subs, " ")
			enc := c.Do("aggr.enc "+line, pat != 0)
			for t := 0; t < 5; t++ {
				c.Do(fmt.Sprintf("aggr.rt %s %d", line, t), true)
			}
			// malformed stream: truncations and byte flips of a valid encoding, read at every t
			if r.Chance(1, 4) && enc != "-" {
				b, _ := hlib.UnHex(enc)
				switch r.Intn(3) {
				case 0:
					b = b[:r.Intn(len(b))]
					c.Count("malformed:truncated")
				case 1:
					b[r.Intn(len(b))] ^= byte(1 << r.Intn(7)) // never sets the top bit of a length beyond 2^31
					c.Count("malformed:bitflip")
				default:
					b = append(b, r.Bytes(r.Range(1, 3))...)
					c.Count("malformed:trailing")
				}
				if !hugeLen(b) {
					c.Do(fmt.Sprintf("aggr.get %s %d", hlib.Hex(b), r.Intn(5)), true)
				}
			}
		}
	}
}

// hugeLen reports whether some varint in the malformed buffer could decode to a length that does
// not fit an int32 (the model uses unbounded naturals; Go would wrap int(l)+1) — excluded domain.
func hugeLen(b []byte) bool {
	run := 0
	for _, x := range b {
		if x >= 0x80 {
			run++
			if run >= 4 {
				return true
			}
		} else {
			run = 0
		}
	}
	return false
}

func popcount(x int) int {
	n := 0
	for ; x != 0; x &= x - 1 {
		n++
	}
	return n
}
