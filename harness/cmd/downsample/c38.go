package main

// C38 — re-downsampling aggregates conserves totals.
//
// ops (grammar in ds.go):
//   ds.aggr <auto|man> <r1> <nc1> <r2> <nc2> <samples>
//       level 1 = downsampleRawLoop(samples, r1, nc1) (the real raw downsampler), level 2 =
//       downsampleAggr(level-1 chunks, mint, maxt, r1, r2) as Downsample() calls it (auto; nc2 must
//       be what targetChunkCount computes) or downsampleAggrLoop(…, r2, nc2) (man)
//       -> level-2 chunks | invalid-range | hang | panic
//
// oracle (domain: timestamps ≥ 0 strictly increasing, 0 < r1, r1 | r2, nc1 ≥ 1, nc2 ≥ 1):
//   * level 2 must produce chunks (an error or a call that does not return is a violation)
//   * Σ count₂ = Σ count₁ = #non-NaN raw samples, Σ sum₂ = Σ sum₁ = Σ raw, min min₂ = min min₁ =
//     min raw, max max₂ = max max₁ = max raw
//   * the four aggregates of a level-2 chunk carry the same timestamps; over the whole series they
//     strictly increase and lie within [first, last] level-1 timestamp; chunks do not overlap and
//     their [MinTime, MaxTime] is [first, last] timestamp of the chunk

import (
	"fmt"
	"math"
	"strconv"

	"github.com/thanos-io/thanos/verifharness/hlib"
)

func init() {
	props = append(props, &hlib.Prop{ID: "C38", Gen: genC38, Exec: execC38})
}

type totals struct {
	count, sum, min, max float64
	n                    int
	first, last          int64
}

func totalsOf(chks []dchunk) totals {
	t := totals{min: math.Inf(1), max: math.Inf(-1)}
	for _, ch := range chks {
		for _, p := range ch.lists[0] {
			t.count += p.v
			if t.n == 0 {
				t.first = p.t
			}
			t.last = p.t
			t.n++
		}
		for _, p := range ch.lists[1] {
			t.sum += p.v
		}
		for _, p := range ch.lists[2] {
			t.min = math.Min(t.min, p.v)
		}
		for _, p := range ch.lists[3] {
			t.max = math.Max(t.max, p.v)
		}
	}
	return t
}

func execC38(c *hlib.Ctx, tok []string) string {
	if len(tok) > 0 && tok[0] == "o.block" {
		return execBlock(c, tok, "C38")
	}
	out, cs := execDs(tok)
	if cs == nil || len(tok) == 0 || tok[0] != "ds.aggr" {
		return out
	}
	if !inDomain(cs.ts, cs.r1) || cs.r2 <= 0 || cs.r2%cs.r1 != 0 || cs.nc1 < 1 || cs.nc2 < 1 {
		c.Count("oracle:skipped-out-of-domain")
		return out
	}
	if out == "nc-mismatch" {
		c.Violation("harness-nc-mismatch", "generator and Exec disagree on targetChunkCount")
		return out
	}
	if cs.l2err != "" {
		class := "aggr-error"
		if cs.l2err == "hang" {
			class = "aggr-loop-no-progress"
		}
		c.Violation(class, fmt.Sprintf("re-downsampling %d level-1 chunk(s) with numChunks=%d: %s", len(cs.l1), cs.nc2, cs.l2err))
		return out
	}
	checkTotals(c, cs.ts, cs.vs, cs.l1, cs.l2)
	if (len(cs.l1) == 0) != (len(cs.l2) == 0) {
		c.Violation("aggr-error", "level 2 is empty but level 1 is not (or the converse)")
	}
	return out
}

// checkTotals: Σcount, Σsum, min, max of level 2 = those of level 1 = those of the raw data.
func checkTotals(c *hlib.Ctx, ts []int64, vs []float64, l1, l2 []dchunk) {
	raw := totals{min: math.Inf(1), max: math.Inf(-1)}
	for i := range ts {
		if v := vs[i]; !math.IsNaN(v) {
			raw.count++
			raw.sum += v
			raw.min = math.Min(raw.min, v)
			raw.max = math.Max(raw.max, v)
		}
	}
	t1, t2 := totalsOf(l1), totalsOf(l2)
	if t2.count != t1.count || t2.count != raw.count {
		c.Violation("total-count", fmt.Sprintf("Σcount: raw %v, level 1 %v, level 2 %v", raw.count, t1.count, t2.count))
	}
	if t2.sum != t1.sum || t2.sum != raw.sum {
		c.Violation("total-sum", fmt.Sprintf("Σsum: raw %v, level 1 %v, level 2 %v", raw.sum, t1.sum, t2.sum))
	}
	if t2.min != t1.min || t2.min != raw.min {
		c.Violation("total-min", fmt.Sprintf("min: raw %v, level 1 %v, level 2 %v", raw.min, t1.min, t2.min))
	}
	if t2.max != t1.max || t2.max != raw.max {
		c.Violation("total-max", fmt.Sprintf("max: raw %v, level 1 %v, level 2 %v", raw.max, t1.max, t2.max))
	}
	var flat [4][]pt
	checkChunkShape(c, l2, &flat)
	for i, p := range flat[0] {
		if i > 0 && flat[0][i-1].t >= p.t {
			c.Violation("timestamps-not-increasing", fmt.Sprintf("level-2 timestamp %d after %d", p.t, flat[0][i-1].t))
			break
		}
		if p.t < t1.first || p.t > t1.last {
			c.Violation("timestamp-outside-span", fmt.Sprintf("level-2 timestamp %d outside the input span [%d,%d]", p.t, t1.first, t1.last))
			break
		}
	}
}

func genC38(c *hlib.Ctx) {
	rr := c.R
	// block level: Downsample() raw -> 5m -> 1h on real blocks
	for _, n := range []int{2000, 33500} {
		c.Count("block:" + strconv.Itoa(n))
		c.Do(fmt.Sprintf("o.block %d %d %s", rr.Intn(1<<30), n, []string{"gauge", "counter"}[rr.Intn(2)]), true)
	}
	for i := 0; i < c.N(0, 6); i++ {
		n := []int{70000, 33000 + rr.Intn(3000), 5000 + rr.Intn(60000)}[i%3]
		c.Count("block:thorough")
		c.Do(fmt.Sprintf("o.block %d %d %s", rr.Intn(1<<30), n, []string{"gauge", "counter"}[rr.Intn(2)]), true)
	}
	// both levels through the real entry points DownsampleRaw and downsampleAggr with their own heuristics
	lpairs := [][2]int64{{300000, 3600000}, {50, 100}, {1000, 5000}, {10, 120}}
	for i := 0; i < c.N(40, 600); i++ {
		p := lpairs[rr.Intn(len(lpairs))]
		ts, vals := genLongSeries(c, p[0], rr.Chance(1, 3))
		nc1 := tccRaw(ts, p[0])
		c.Count("long-auto:l1chunks:" + bucket(nc1))
		field := samplesField(ts, vals)
		_, vs, _ := parseSamples(field)
		metas, _ := rawLevel("man", p[0], nc1, ts, vs)
		_, acs := decode(metas)
		_, _, nc2 := autoNC2(metas, acs, p[0], p[1])
		if nc2 > len(acs) {
			continue
		}
		c.Do(fmt.Sprintf("ds.aggr auto %d %d %d %d %s", p[0], nc1, p[1], nc2, field), true)
	}
	defer func() { c.Dist["entry:DownsampleRaw(level 1)"] = entryDownsampleRaw }()
	n := c.N(1200, 12000)
	pairs := [][2]int64{{300000, 3600000}, {300000, 3600000}, {300000, 3600000}, {50, 100}, {10, 120}, {1000, 5000}, {7, 21}, {50, 50}}
	hangs := 0 // calls that did not return cost a full deadline each: stop provoking them after two
	childCases, maxChild := 0, c.N(12, 60) // numChunks > len runs in a child process first: bounded
	for i := 0; i < n; i++ {
		p := pairs[rr.Intn(len(pairs))]
		r1, r2 := p[0], p[1]
		c.Count(fmt.Sprintf("res:%d->%d", r1, r2))
		ts, vals := genSeries(c, r1, genOpt{counter: rr.Chance(1, 4)})
		field := samplesField(ts, vals)
		// level 1: the real heuristic when it gives several chunks, else a manual numChunks
		nc1 := 1
		if len(ts) > 0 {
			_, vs, _ := parseSamples(field)
			nc1 = tccRaw(ts, r1)
			if nc1 == 1 || rr.Chance(1, 2) {
				nc1 = pickNC(c, len(ts), "nc1")
			} else {
				c.Count("nc1:auto>1")
			}
			metas, _ := rawLevel("man", r1, nc1, ts, vs)
			_, acs := decode(metas)
			c.Count("l1chunks:" + bucket(len(acs)))
			_, _, auto2 := autoNC2(metas, acs, r1, r2)
			if rr.Chance(1, 3) && (auto2 <= len(acs) || (hangs < 2 && childCases < maxChild)) {
				if auto2 > len(acs) {
					childCases++
				}
				c.Count("mode2:auto")
				if auto2 > 1 {
					c.Count("auto-nc2:>1")
				}
				if auto2 > len(acs) {
					c.Count("auto-nc2:>len")
				}
				if c.Do(fmt.Sprintf("ds.aggr auto %d %d %d %d %s", r1, nc1, r2, auto2, field), true) == "hang" {
					hangs++
				}
				continue
			}
			c.Count("mode2:man")
			nc2 := pickNCw(c, len(acs), "nc2", 40)
			if nc2 > len(acs) && (hangs >= 2 || childCases >= maxChild) {
				c.Count("gen:nc2>len-avoided")
				nc2 = max(1, len(acs))
			} else if nc2 > len(acs) {
				childCases++
			}
			if c.Do(fmt.Sprintf("ds.aggr man %d %d %d %d %s", r1, nc1, r2, nc2, field), true) == "hang" {
				hangs++
			}
			continue
		}
		c.Do(fmt.Sprintf("ds.aggr man %d %d %d %d %s", r1, nc1, r2, 1, field), false)
	}
}
