package main

// C37 — downsampled counters preserve the raw counter's increase.
//
// ops (grammar in ds.go):
//   ds.ctr <r1> <nc1> <r2> <nc2> <samples>
//       level 1 = downsampleRawLoop(samples, r1, nc1), level 2 = downsampleAggrLoop(level 1, r2, nc2);
//       both are read with the querier's COUNTER selection (NewApplyCounterResetsIterator)
//       -> <level-1 read-back>;<level-2 read-back | invalid-range | hang>
//   ds.apply <list>|<list>|…
//       NewApplyCounterResetsIterator over arbitrary chunks (overlapping, going back in time,
//       duplicate timestamps, empty chunks) -> read-back list       (correspondence only)
//
// oracle (domain: timestamps ≥ 0 strictly increasing, values ≥ 0, 0 < r1, r1 | r2, nc ≥ 1):
//   adj(i) = v_0 + Σ_{0<j≤i} (v_j ≥ v_{j-1} ? v_j − v_{j-1} : v_j) over the non-NaN raw samples.
//   At both levels: emitted timestamps strictly increase; every emitted (t, x) has x = adj(i) for
//   the last raw sample i with t_i ≤ t (and there is one); the last emitted timestamp is the last
//   raw timestamp (so the total increase is preserved); a level that returns an error / does not
//   return is a violation.

import (
	"fmt"
	"math"
	"strconv"
	"strings"

	"github.com/thanos-io/thanos/verifharness/hlib"
)

func init() {
	props = append(props, &hlib.Prop{ID: "C37", Gen: genC37, Exec: execC37})
}

func execC37(c *hlib.Ctx, tok []string) string {
	if len(tok) > 0 && tok[0] == "o.block" {
		return execBlock(c, tok, "C37")
	}
	out, cs := execDs(tok)
	if cs == nil || len(tok) == 0 || tok[0] != "ds.ctr" {
		return out
	}
	ok := inDomain(cs.ts, cs.r1) && cs.r2 > 0 && cs.r2%cs.r1 == 0 && cs.nc1 >= 1 && cs.nc2 >= 1
	for _, v := range cs.vs {
		if !math.IsNaN(v) && v < 0 {
			ok = false
		}
	}
	if !ok {
		c.Count("oracle:skipped-out-of-domain")
		return out
	}
	rt, adj := adjustedRaw(cs.ts, cs.vs)
	parts := strings.Split(out, ";")
	if len(parts) != 2 {
		c.Violation("counter-answer", "malformed answer "+out)
		return out
	}
	for lvl, p := range parts {
		if p == "hang" || p == "invalid-range" || strings.HasPrefix(p, "err:") {
			class := "aggr-error"
			if p == "hang" {
				class = "aggr-loop-no-progress"
			}
			c.Violation(class, fmt.Sprintf("level %d could not be produced: %s", lvl+1, p))
			continue
		}
		ls, okp := parseLists(p)
		if !okp {
			c.Violation("counter-answer", "unparsable read-back "+p)
			continue
		}
		var got []pt
		if len(ls) == 1 {
			got = ls[0]
		}
		checkCounter(c, lvl+1, rt, adj, got)
	}
	return out
}

// adjustedRaw: the non-NaN raw timestamps and the reset-adjusted counter after each of them.
func adjustedRaw(ts []int64, vs []float64) (rt []int64, adj []float64) {
	last := 0.0
	for i := range ts {
		v := vs[i]
		if math.IsNaN(v) {
			continue
		}
		switch {
		case len(rt) == 0:
			adj = append(adj, v)
		case v >= last:
			adj = append(adj, adj[len(adj)-1]+v-last)
		default:
			adj = append(adj, adj[len(adj)-1]+v)
		}
		last = v
		rt = append(rt, ts[i])
	}
	return rt, adj
}

// checkCounter: the counter equation of C37 for one level's read-back.
func checkCounter(c *hlib.Ctx, lvl int, rt []int64, adj []float64, got []pt) {
	j := -1
	for i, g := range got {
		if i > 0 && got[i-1].t >= g.t {
			c.Violation("counter-ts-order", fmt.Sprintf("level %d: timestamp %d after %d", lvl, g.t, got[i-1].t))
			break
		}
		for j+1 < len(rt) && rt[j+1] <= g.t {
			j++
		}
		if j < 0 {
			c.Violation("counter-value-wrong", fmt.Sprintf("level %d: sample at %d precedes every raw sample", lvl, g.t))
			break
		}
		if g.v != adj[j] {
			c.Violation("counter-value-wrong", fmt.Sprintf("level %d: at %d got %v, the reset-adjusted raw counter at the last raw sample ≤ %d (t=%d) is %v", lvl, g.t, g.v, g.t, rt[j], adj[j]))
			break
		}
	}
	switch {
	case len(rt) == 0 && len(got) != 0:
		c.Violation("counter-value-wrong", fmt.Sprintf("level %d: samples although the raw series has none", lvl))
	case len(rt) > 0 && (len(got) == 0 || got[len(got)-1].t != rt[len(rt)-1]):
		c.Violation("counter-last-missing", fmt.Sprintf("level %d: the read-back does not end at the last raw sample %d", lvl, rt[len(rt)-1]))
	case len(rt) > 0 && got[0].t != rt[0]:
		c.Violation("counter-first-missing", fmt.Sprintf("level %d: the read-back does not start at the first raw sample %d", lvl, rt[0]))
	}
}

func genC37(c *hlib.Ctx) {
	rr := c.R
	// block level: Downsample() raw -> 5m -> 1h on real blocks, counters with resets
	for _, n := range []int{3000, 33500} {
		c.Count("block:" + strconv.Itoa(n))
		c.Do(fmt.Sprintf("o.block %d %d counter", rr.Intn(1<<30), n), true)
	}
	for i := 0; i < c.N(0, 6); i++ {
		n := []int{70000, 33000 + rr.Intn(3000), 5000 + rr.Intn(60000)}[i%3]
		c.Count("block:thorough")
		c.Do(fmt.Sprintf("o.block %d %d counter", rr.Intn(1<<30), n), true)
	}
	// the entry point DownsampleRaw decides the level-1 chunking itself (several chunks, resets between them)
	lpairs := [][2]int64{{300000, 3600000}, {50, 100}, {1000, 5000}, {10, 120}}
	for i := 0; i < c.N(40, 1500); i++ {
		p := lpairs[rr.Intn(len(lpairs))]
		ts, vals := genLongSeries(c, p[0], true)
		nc1 := tccRaw(ts, p[0])
		c.Count("long-auto:l1chunks:" + bucket(nc1))
		field := samplesField(ts, vals)
		_, vs, _ := parseSamples(field)
		metas, _ := rawLevel("man", p[0], nc1, ts, vs)
		_, acs := decode(metas)
		_, _, nc2 := autoNC2(metas, acs, p[0], p[1])
		if nc2 > len(acs) {
			nc2 = max(1, len(acs))
		}
		c.Do(fmt.Sprintf("ds.ctr %d %d %d %d %s", p[0], nc1, p[1], nc2, field), true)
	}
	defer func() { c.Dist["entry:DownsampleRaw(level 1)"] = entryDownsampleRaw }()
	n := c.N(1200, 20000)
	pairs := [][2]int64{{300000, 3600000}, {300000, 3600000}, {300000, 3600000}, {50, 100}, {10, 120}, {1000, 5000}, {7, 21}, {50, 50}}
	hangs := 0 // calls that did not return cost a full deadline each: stop provoking them after two
	childCases, maxChild := 0, c.N(12, 150) // numChunks > len runs in a child process first: bounded
	for i := 0; i < n; i++ {
		p := pairs[rr.Intn(len(pairs))]
		r1, r2 := p[0], p[1]
		c.Count(fmt.Sprintf("res:%d->%d", r1, r2))
		ts, vals := genSeries(c, r1, genOpt{counter: true})
		field := samplesField(ts, vals)
		if len(ts) == 0 {
			c.Do(fmt.Sprintf("ds.ctr %d 1 %d 1 -", r1, r2), false)
			continue
		}
		_, vs, _ := parseSamples(field)
		nc1 := tccRaw(ts, r1)
		if nc1 == 1 || rr.Chance(1, 2) {
			nc1 = pickNC(c, len(ts), "nc1")
		} else {
			c.Count("nc1:auto>1")
		}
		metas, _ := rawLevel("man", r1, nc1, ts, vs)
		d, acs := decode(metas)
		c.Count("l1chunks:" + bucket(len(acs)))
		single := 0
		for _, ch := range d {
			if len(ch.lists[0]) == 1 {
				single++
			}
		}
		if single > 0 {
			c.Count("l1:has-single-sample-chunk")
		}
		// resets between chunks: the first raw value of a chunk is below the last of the previous one
		for k := 1; k < len(d); k++ {
			a, b := d[k-1].lists[4], d[k].lists[4]
			if len(a) > 0 && len(b) > 0 && b[0].v < a[len(a)-1].v {
				c.Count("l1:reset-between-chunks")
				break
			}
		}
		_, _, auto2 := autoNC2(metas, acs, r1, r2)
		nc2 := auto2
		if auto2 > len(acs) || rr.Chance(2, 3) {
			nc2 = pickNCw(c, len(acs), "nc2", 40)
		} else {
			c.Count("nc2:auto")
		}
		if nc2 > len(acs) && (hangs >= 2 || childCases >= maxChild) {
			c.Count("gen:nc2>len-avoided")
			nc2 = max(1, len(acs))
		} else if nc2 > len(acs) {
			childCases++
		}
		if strings.HasSuffix(c.Do(fmt.Sprintf("ds.ctr %d %d %d %d %s", r1, nc1, r2, nc2, field), true), ";hang") {
			hangs++
		}
	}
	m := c.N(400, 8000)
	for i := 0; i < m; i++ {
		c.Count("malformed:apply")
		c.Do("ds.apply "+genChunkLists(c), true)
	}
}
