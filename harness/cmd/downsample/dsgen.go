package main

// Series generator shared by C36 / C37 / C38.

import (
	"strconv"
	"strings"

	"github.com/thanos-io/thanos/pkg/compact/downsample"
	"github.com/thanos-io/thanos/verifharness/hlib"
)

type genOpt struct {
	counter bool // non-negative values with resets instead of a gauge
	noNaN   bool
}

var resolutions = []int64{300000, 3600000, 300000, 3600000, 50, 1000, 10, 7}

// genSeries draws a raw series for resolution r: strictly increasing timestamps ≥ 0, values are
// integers (|v| < 2^38, so that every float sum over < 2^13 samples is exact), NaN / stale markers.
// The returned tokens are the `samples` field of an op line.
func genSeries(c *hlib.Ctx, r int64, o genOpt) (ts []int64, vals []string) {
	rr := c.R
	// length
	var n int
	switch k := rr.Intn(100); {
	case k < 4:
		n = rr.Range(0, 1)
		c.Count("len:0-1")
	case k < 55:
		n = rr.Range(2, 40)
		c.Count("len:2-40")
	case k < 92:
		n = rr.Range(41, 400)
		c.Count("len:41-400")
	default:
		n = rr.Range(1000, c.N(3000, 6000))
		c.Count("len:1000+")
	}
	// start
	var t int64
	switch rr.Intn(6) {
	case 0:
		t = 0
		c.Count("start:0")
	case 1:
		t = rr.I64Range(0, r)
		c.Count("start:first-window")
	case 2:
		t = 1600000000000 + rr.I64Range(0, 1<<30)
		c.Count("start:epoch")
	case 3:
		t = (1600000000000/r + rr.I64Range(0, 1000)) * r
		c.Count("start:window-start")
	case 4:
		t = (rr.I64Range(0, 1000))*r + r - 1
		c.Count("start:window-end")
	default:
		t = rr.I64Range(0, 100*r)
		c.Count("start:small")
	}
	// interval style; "mixed" switches style along the series
	styles := []string{"r/20", "r/5", "irregular", "dense", "exact-r", "sparse", "15s", "60s"}
	style := rr.Pick(append(styles, "mixed", "mixed"))
	c.Count("interval:" + style)
	cur := style
	step := func() int64 {
		switch cur {
		case "r/20":
			return max64(1, r/20)
		case "r/5":
			return max64(1, r/5+rr.I64Range(-r/50, r/50))
		case "irregular":
			return rr.I64Range(1, 3*r/2+1)
		case "dense":
			return rr.I64Range(1, r/50+1)
		case "exact-r":
			return r
		case "sparse":
			return rr.I64Range(r, 5*r)
		case "15s":
			return 15000
		default:
			return 60000
		}
	}
	// values
	nanP := []int{0, 0, 0, 5, 30, 100}[rr.Intn(6)]
	if o.noNaN {
		nanP = 0
	}
	if nanP == 100 && rr.Chance(3, 4) {
		nanP = 50
	}
	c.Count("nan%:" + strconv.Itoa(nanP))
	big := rr.Chance(1, 5)
	resetP := []int{0, 3, 10, 40}[rr.Intn(4)]
	if o.counter {
		c.Count("reset%:" + strconv.Itoa(resetP))
	}
	var v int64
	if o.counter {
		v = rr.I64Range(0, 1000)
	}
	for i := 0; i < n; i++ {
		if i > 0 {
			if style == "mixed" && (i == 1 || rr.Chance(1, 25)) {
				cur = rr.Pick(styles)
			}
			t += step()
			if rr.Chance(1, 40) { // a gap of whole windows
				t += r * rr.I64Range(1, 30)
			}
			if rr.Chance(1, 30) { // land exactly on a window end / start
				t = t - t%r + r - 1 + int64(rr.Intn(2))
				if t <= ts[len(ts)-1] {
					t = ts[len(ts)-1] + 1
				}
			}
		} else if style == "mixed" {
			cur = rr.Pick(styles)
		}
		ts = append(ts, t)
		switch {
		case rr.Intn(100) < nanP:
			if rr.Bool() {
				vals = append(vals, "n")
			} else {
				vals = append(vals, "s")
			}
		case o.counter:
			if rr.Intn(100) < resetP {
				if v > 0 && rr.Chance(3, 4) {
					v = rr.I64Range(0, v-1) // a reset: strictly below the last value
				} else {
					v = 0
				}
			} else if big {
				v += rr.I64Range(0, 1<<26)
			} else {
				v += rr.I64Range(0, 100)
			}
			vals = append(vals, strconv.FormatInt(v, 10))
		case big && n <= 400:
			vals = append(vals, strconv.FormatInt(rr.I64Range(-(1<<38), 1<<38), 10))
		case big: // long series: keep the reset-adjusted counter of a gauge below 2^53
			vals = append(vals, strconv.FormatInt(rr.I64Range(-(1<<30), 1<<30), 10))
		default:
			vals = append(vals, strconv.FormatInt(rr.I64Range(-50, 50), 10))
		}
	}
	return ts, vals
}

// genLongSeries: 1500–4000 samples spread over many windows, so that the real targetChunkCount asks
// for several chunks (the entry point DownsampleRaw decides the chunking itself).
func genLongSeries(c *hlib.Ctx, r int64, counter bool) (ts []int64, vals []string) {
	rr := c.R
	n := rr.Range(1500, 4000)
	t := []int64{0, 1600000000000 + rr.I64Range(0, 1<<30), rr.I64Range(0, 100*r)}[rr.Intn(3)]
	v := rr.I64Range(0, 1000)
	resetP := []int{1, 3, 10}[rr.Intn(3)]
	nanP := []int{0, 0, 2, 10}[rr.Intn(4)]
	for i := 0; i < n; i++ {
		t += rr.I64Range(max64(1, r/3), 3*r/2+1)
		ts = append(ts, t)
		switch {
		case rr.Intn(100) < nanP:
			vals = append(vals, []string{"n", "s"}[rr.Intn(2)])
		case counter:
			if rr.Intn(100) < resetP {
				v = rr.I64Range(0, 5)
			} else {
				v += rr.I64Range(0, 100)
			}
			vals = append(vals, strconv.FormatInt(v, 10))
		default:
			vals = append(vals, strconv.FormatInt(rr.I64Range(-1000, 1000), 10))
		}
	}
	return ts, vals
}

func samplesField(ts []int64, vals []string) string {
	if len(ts) == 0 {
		return "-"
	}
	var sb strings.Builder
	for i := range ts {
		if i > 0 {
			sb.WriteByte(',')
		}
		sb.WriteString(strconv.FormatInt(ts[i], 10))
		sb.WriteByte(':')
		sb.WriteString(vals[i])
	}
	return sb.String()
}

// pickNC draws a manual numChunks for n items.
func pickNC(c *hlib.Ctx, n int, tag string) int { return pickNCw(c, n, tag, 7) }

// pickNCw: `w` ≥ 7 lowers the share of draws above n (each such level-2 call runs in a child process).
func pickNCw(c *hlib.Ctx, n int, tag string, w int) int {
	rr := c.R
	var nc int
	switch rr.Intn(w) {
	case 0:
		nc = 1
	case 1:
		nc = 2
	case 2:
		nc = n/3 + 1
	case 3:
		nc = n + 1
	case 4:
		nc = max(1, n)
	case 5, 6:
		nc = rr.Range(1, n+2)
	default:
		nc = rr.Range(1, max(1, n))
	}
	switch {
	case nc == 1:
		c.Count(tag + ":1")
	case nc > n:
		c.Count(tag + ":>len")
	default:
		c.Count(tag + ":2..len")
	}
	return nc
}

func max64(a, b int64) int64 {
	if a > b {
		return a
	}
	return b
}

// tccRaw is the numChunks DownsampleRaw computes for these timestamps.
func tccRaw(ts []int64, r int64) int {
	if len(ts) == 0 {
		return 1
	}
	return downsample.VerifTargetChunkCount(ts[0], ts[len(ts)-1], 60000, r, len(ts))
}
