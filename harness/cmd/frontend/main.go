// Family binary "frontend": C41 C42 C43 C44.
package main

import "github.com/thanos-io/thanos/verifharness/hlib"

var props []*hlib.Prop

func main() { hlib.Main(props) }
