package main

import (
	"context"
	"fmt"
	"net/http"
	"net/url"
	"runtime"
	"strconv"
	"sort"
	"strings"
	"sync"
	"sync/atomic"
	"time"

	"github.com/prometheus/prometheus/model/labels"
	"github.com/prometheus/prometheus/promql/parser"
	"github.com/weaveworks/common/user"

	"github.com/thanos-io/thanos/internal/cortex/querier/queryrange"
	"github.com/thanos-io/thanos/internal/cortex/tenant"
	"github.com/thanos-io/thanos/pkg/queryfrontend"
	"github.com/thanos-io/thanos/pkg/store/storepb"
	"github.com/thanos-io/thanos/verifharness/hlib"
)

// C43 — results-cache keys separate tenants and result-changing parameters.
//
// Request encodings (strings hex, "-" = empty; booleans 0/1):
//
//	RANGE  = <tenant> <query> <start> <step> <splitMs> <maxSourceResolution> <shard> <lookback> <engine> <partial> <replicas> <analyze>
//	         shard = - | <total>/<index>/<by>/<labels>   labels = hex;hex | -        replicas = hex,hex | -     (list element _ = empty string)
//	LABELS = <tenant> <label> <selectors> <text> <sets> <start> <splitMs> <partial>
//	         selectors = hex;hex | -  (PromQL selectors, one per match[]);  text = fmt.Sprintf("%s", [][]*labels.Matcher) of them
//	         (the rendering of the Prometheus library, which the key is specified to contain);
//	         sets = set;set | -   set = m,m   m = <hexname>.<op 0 = | 1 != | 2 =~ | 3 !~>.<hexvalue>   the matchers as data
//	         label "" = a label-names request
//	SERIES = <tenant> <selectors> <text> <sets> <start> <splitMs> <partial> <replicas>
//
// key.labels / key.series (and their pairs) build the request DIRECTLY from <sets> (labels.NewMatcher); key.url.labels /
// key.url.series / key.pair.url.* build it with the real codec: NewThanosLabelsCodec.DecodeRequest of
// /api/v1/labels | /api/v1/label/<label>/values | /api/v1/series ? match[]=<selector>… & start & end & partial_response
// (& dedup & replicaLabels[]), then WithSplitInterval as the split middleware does; the decoded request must carry
// exactly <sets> (else the answer is codec-mismatch).  The model checks on every request that <text> reads back as
// <sets> (answer render-mismatch) — the hypothesis its injectivity theorem needs of the rendering.
//
// Every request is cacheable (Dedup = true, no store matchers, caching not disabled).
//
//	key.range RANGE | key.labels LABELS | key.series SERIES      -> <hex key> | panic | invalid (tenant rejected by the resolver)
//	key.pair.range RANGE | RANGE      (same for labels, series; key.pair.cross LABELS | SERIES)   -> <hex key A> <hex key B> | panic | invalid
//	key.tenant <tenant>                                          -> ok | invalid
//	key.should <r|l|s> <dedup> <#storeMatchers> <disabled>       -> 0 | 1                      shouldCache
//
//	o.key.conc <r|s> <ms> REQ | REQ | …   (oracle only)  -> ok <#keys> | mixup | invalid
//	       the key is a function of the request, also under concurrency: ONE generator (as a frontend has: the value
//	       returned by newThanosCacheKeyGenerator is shared by all in-flight requests) keys every request once
//	       sequentially; then one goroutine per request (GOMAXPROCS >= 2) keys its own request over and over for <ms>
//	       milliseconds and compares.  Classes:
//	concurrent-key-mixup               a goroutine got, byte for byte, the sequential key of ANOTHER goroutine's request
//	key-not-a-function-of-the-request  a key differs from the sequential key of the same request in any other way
//	                                   (also: the shared generator and a fresh one disagree sequentially)
//
// Oracle on pairs (independent of the model): two requests that differ in tenant or in a result-changing parameter
// (range: query, step, resolution bucket, shard info, lookback, engine, partial response, replica label set, analyze;
// labels: label, matchers, partial response; series: matchers, partial response, replica label set) and have equal
// keys are a violation; matchers are compared AS DATA (<sets>: names, operators, values), never as text; the class
// names the reason:
//
//	range-tenant-colon                 some tenant id contains ':'
//	range-field-separator              tenants colon-free; an engine contains ':' or a replica label contains ':' or ','
//	range-shard-labels-not-in-key      the requests differ only in ShardInfo.By / ShardInfo.Labels
//	labels-partial-response-not-in-key the requests differ only in PartialResponse
//	labels-tenant-or-label-colon       a tenant id or label name contains ':'
//	series-params-not-in-key           the requests differ only in PartialResponse / ReplicaLabels (repaired in 3dc503b62: must not occur)
//	series-field-separator             a replica label of a series request contains ':' or ','
//	series-tenant-colon                a tenant id contains ':'
//	cross-type-tenant-colon            labels key == series key, a tenant id contains ':' (impossible since 3dc503b62)
//	matchers-not-separated             same tenant (and label), the matcher sets differ as data: the rendering of the matchers in
//	                                   the key is not injective (must not occur)
//	*-key-collision                    anything else

func init() {
	props = append(props, &hlib.Prop{ID: "C43", Gen: genC43, Exec: execC43})
}

type c43Range struct {
	tenant string
	req    *queryfrontend.ThanosQueryRangeRequest
}

func boolTok(s string) (bool, bool) {
	switch s {
	case "0":
		return false, true
	case "1":
		return true, true
	}
	return false, false
}

func hexList(s, sep string) ([]string, bool) {
	var out []string
	for _, t := range hlib.Split(s, sep) {
		if t == "_" {
			out = append(out, "")
			continue
		}
		b, err := hlib.UnHex(t)
		if err != nil {
			return nil, false
		}
		out = append(out, string(b))
	}
	return out, true
}

func unhexTok(s string) (string, bool) {
	b, err := hlib.UnHex(s)
	return string(b), err == nil
}

func parseC43Range(tok []string) (*c43Range, bool) {
	if len(tok) != 12 {
		return nil, false
	}
	tn, ok1 := unhexTok(tok[0])
	q, ok2 := unhexTok(tok[1])
	nums, ok3 := ints([]string{tok[2], tok[3], tok[4], tok[5], tok[7]})
	eng, ok4 := unhexTok(tok[8])
	partial, ok5 := boolTok(tok[9])
	repl, ok6 := hexList(tok[10], ",")
	analyze, ok7 := boolTok(tok[11])
	if !(ok1 && ok2 && ok3 && ok4 && ok5 && ok6 && ok7) {
		return nil, false
	}
	r := &queryfrontend.ThanosQueryRangeRequest{Path: "/api/v1/query_range", Query: q, Start: nums[0], End: nums[0], Step: nums[1],
		SplitInterval: time.Duration(nums[2]) * time.Millisecond, MaxSourceResolution: nums[3], LookbackDelta: nums[4],
		Engine: eng, PartialResponse: partial, ReplicaLabels: repl, Analyze: analyze, Dedup: true}
	if tok[6] != "-" {
		p := strings.Split(tok[6], "/")
		if len(p) != 4 {
			return nil, false
		}
		ti, ok := ints(p[:2])
		by, okb := boolTok(p[2])
		ls, okl := hexList(p[3], ";")
		if !ok || !okb || !okl {
			return nil, false
		}
		r.ShardInfo = &storepb.ShardInfo{TotalShards: ti[0], ShardIndex: ti[1], By: by, Labels: ls}
	}
	return &c43Range{tenant: tn, req: r}, true
}

type c43M struct {
	name  string
	op    int
	value string
}

var c43MatchTypes = []labels.MatchType{labels.MatchEqual, labels.MatchNotEqual, labels.MatchRegexp, labels.MatchNotRegexp}

type c43Meta struct {
	tenant string
	req    queryrange.Request
	text   string
	sets   [][]c43M
}

func parseSets(tok string) ([][]c43M, bool) {
	var out [][]c43M
	for _, st := range hlib.Split(tok, ";") {
		var set []c43M
		for _, mt := range strings.Split(st, ",") {
			p := strings.Split(mt, ".")
			if len(p) != 3 || len(p[1]) != 1 || p[1][0] < '0' || p[1][0] > '3' {
				return nil, false
			}
			n, ok1 := unhexTok(p[0])
			v, ok2 := unhexTok(p[2])
			if !ok1 || !ok2 {
				return nil, false
			}
			set = append(set, c43M{n, int(p[1][0] - '0'), v})
		}
		out = append(out, set)
	}
	return out, true
}

func setsOf(ms [][]*labels.Matcher) [][]c43M {
	var out [][]c43M
	for _, set := range ms {
		var o []c43M
		for _, m := range set {
			o = append(o, c43M{m.Name, int(m.Type), m.Value})
		}
		out = append(out, o)
	}
	return out
}

func eqSets(a, b [][]c43M) bool {
	if len(a) != len(b) {
		return false
	}
	for i := range a {
		if len(a[i]) != len(b[i]) {
			return false
		}
		for j := range a[i] {
			if a[i][j] != b[i][j] {
				return false
			}
		}
	}
	return true
}

func buildMatchers(sets [][]c43M) ([][]*labels.Matcher, bool) {
	var ms [][]*labels.Matcher
	for _, set := range sets {
		var o []*labels.Matcher
		for _, m := range set {
			lm, err := labels.NewMatcher(c43MatchTypes[m.op], m.name, m.value)
			if err != nil {
				return nil, false
			}
			o = append(o, lm)
		}
		ms = append(ms, o)
	}
	return ms, true
}

func parseSelectors(tok string) ([][]*labels.Matcher, bool) {
	sels, ok := hexList(tok, ";")
	if !ok {
		return nil, false
	}
	var ms [][]*labels.Matcher
	for _, s := range sels {
		m, err := parser.ParseMetricSelector(s)
		if err != nil {
			return nil, false
		}
		ms = append(ms, m)
	}
	return ms, true
}

var c43LabelsCodec = queryfrontend.NewThanosLabelsCodec(false, 0)

func msToSec(ms int64) string { return fmt.Sprintf("%d.%03d", ms/1000, ms%1000) }

// decodeMeta builds the request with the real codec from a URL and sets the split interval like the split middleware.
func decodeMeta(path string, sels []string, start int64, split time.Duration, partial bool, series bool, replicas []string) (queryrange.Request, bool) {
	q := url.Values{}
	for _, sl := range sels {
		q.Add("match[]", sl)
	}
	q.Set("start", msToSec(start))
	q.Set("end", msToSec(start))
	q.Set("partial_response", strconv.FormatBool(partial))
	if series {
		q.Set("dedup", "true")
		for _, rl := range replicas {
			q.Add("replicaLabels[]", rl)
		}
	}
	hr := &http.Request{Method: http.MethodGet, URL: &url.URL{Path: path, RawQuery: q.Encode()}, Header: http.Header{}}
	req, err := c43LabelsCodec.DecodeRequest(context.Background(), hr, nil)
	if err != nil || req == nil {
		return nil, false
	}
	sr, ok := req.(queryfrontend.SplitRequest)
	if !ok {
		return nil, false
	}
	return sr.WithSplitInterval(split), true
}

// parseC43Labels: viaURL = through the codec; the answer string is non-empty when the op is unusable.
func parseC43LabelsVia(tok []string, viaURL bool) (*c43Meta, string) {
	if len(tok) != 8 {
		return nil, "bad-op"
	}
	tn, ok1 := unhexTok(tok[0])
	lb, ok2 := unhexTok(tok[1])
	sels, ok3 := hexList(tok[2], ";")
	text, ok4 := unhexTok(tok[3])
	sets, ok7 := parseSets(tok[4])
	nums, ok5 := ints(tok[5:7])
	partial, ok6 := boolTok(tok[7])
	if !(ok1 && ok2 && ok3 && ok4 && ok5 && ok6 && ok7) {
		return nil, "bad-op"
	}
	ms, ok := buildMatchers(sets)
	if !ok || fmt.Sprintf("%s", ms) != text {
		return nil, "bad-op"
	}
	split := time.Duration(nums[1]) * time.Millisecond
	var req queryrange.Request = &queryfrontend.ThanosLabelsRequest{Path: "/api/v1/label/" + lb + "/values", Label: lb, Matchers: ms,
		Start: nums[0], End: nums[0], SplitInterval: split, PartialResponse: partial}
	if viaURL {
		path := "/api/v1/labels"
		if lb != "" {
			path = "/api/v1/label/" + lb + "/values"
		}
		dr, ok := decodeMeta(path, sels, nums[0], split, partial, false, nil)
		if !ok {
			return nil, "codec-error"
		}
		lr, ok := dr.(*queryfrontend.ThanosLabelsRequest)
		if !ok || !eqSets(setsOf(lr.Matchers), sets) || lr.Label != lb || lr.Start != nums[0] || lr.PartialResponse != partial || len(lr.StoreMatchers) != 0 {
			return nil, "codec-mismatch"
		}
		req = dr
	}
	return &c43Meta{tenant: tn, text: text, sets: sets, req: req}, ""
}

func parseC43SeriesVia(tok []string, viaURL bool) (*c43Meta, string) {
	if len(tok) != 8 {
		return nil, "bad-op"
	}
	tn, ok1 := unhexTok(tok[0])
	sels, ok3 := hexList(tok[1], ";")
	text, ok4 := unhexTok(tok[2])
	sets, ok8 := parseSets(tok[3])
	nums, ok5 := ints(tok[4:6])
	partial, ok6 := boolTok(tok[6])
	repl, ok7 := hexList(tok[7], ",")
	if !(ok1 && ok3 && ok4 && ok5 && ok6 && ok7 && ok8) {
		return nil, "bad-op"
	}
	ms, ok := buildMatchers(sets)
	if !ok || fmt.Sprintf("%s", ms) != text {
		return nil, "bad-op"
	}
	split := time.Duration(nums[1]) * time.Millisecond
	var req queryrange.Request = &queryfrontend.ThanosSeriesRequest{Path: "/api/v1/series", Matchers: ms, Dedup: true,
		Start: nums[0], End: nums[0], SplitInterval: split, PartialResponse: partial, ReplicaLabels: repl}
	if viaURL {
		dr, ok := decodeMeta("/api/v1/series", sels, nums[0], split, partial, true, repl)
		if !ok {
			return nil, "codec-error"
		}
		sr, ok := dr.(*queryfrontend.ThanosSeriesRequest)
		if !ok || !eqSets(setsOf(sr.Matchers), sets) || sr.Start != nums[0] || sr.PartialResponse != partial || !sr.Dedup || !eqStrs(sr.ReplicaLabels, repl) {
			return nil, "codec-mismatch"
		}
		req = dr
	}
	return &c43Meta{tenant: tn, text: text, sets: sets, req: req}, ""
}

func parseC43Labels(tok []string) (*c43Meta, bool) {
	m, bad := parseC43LabelsVia(tok, false)
	return m, bad == ""
}

func parseC43Series(tok []string) (*c43Meta, bool) {
	m, bad := parseC43SeriesVia(tok, false)
	return m, bad == ""
}

// c43Key goes the way resultsCache.Do goes: resolver, JoinTenantIDs, GenerateCacheKey.
func c43Key(tn string, r queryrange.Request) string {
	ids, err := tenant.TenantIDs(user.InjectOrgID(context.Background(), tn))
	if err != nil {
		return "invalid"
	}
	if !queryfrontend.VerifShouldCache(r) {
		return "notcached"
	}
	return hlib.HexS(queryfrontend.VerifCacheKeyGenerator().GenerateCacheKey(tenant.JoinTenantIDs(ids), r))
}

// sortedCopy is the replica label set as the querier sees it: order is irrelevant and an empty label
// name selects nothing, so [""] and [] are the same parameter.
func sortedCopy(xs []string) []string {
	var c []string
	for _, x := range xs {
		if x != "" {
			c = append(c, x)
		}
	}
	sort.Strings(c)
	return c
}

func eqStrs(a, b []string) bool {
	if len(a) != len(b) {
		return false
	}
	for i := range a {
		if a[i] != b[i] {
			return false
		}
	}
	return true
}

// resolutionClass: which downsampling levels {raw, 5m, 1h} a max source resolution admits.
func resolutionClass(msr int64) int {
	n := 0
	for _, lvl := range []int64{0, 300000, 3600000} {
		if lvl <= msr {
			n++
		}
	}
	return n
}

func shardEq(a, b *storepb.ShardInfo) (all, totIdx bool) {
	if a == nil || b == nil {
		return a == b, a == b
	}
	totIdx = a.TotalShards == b.TotalShards && a.ShardIndex == b.ShardIndex
	return totIdx && a.By == b.By && eqStrs(a.Labels, b.Labels), totIdx
}

func badLabel(xs []string) bool {
	for _, x := range xs {
		if strings.ContainsAny(x, ":,") {
			return true
		}
	}
	return false
}

func oracleRangePair(c *hlib.Ctx, a, b *c43Range, ka, kb string) {
	if ka != kb || len(ka) < 8 {
		return
	}
	x, y := a.req, b.req
	shAll, shTI := shardEq(x.ShardInfo, y.ShardInfo)
	restSame := a.tenant == b.tenant && x.Query == y.Query && x.Step == y.Step &&
		resolutionClass(x.MaxSourceResolution) == resolutionClass(y.MaxSourceResolution) && x.LookbackDelta == y.LookbackDelta &&
		x.Engine == y.Engine && x.PartialResponse == y.PartialResponse && x.Analyze == y.Analyze &&
		eqStrs(sortedCopy(x.ReplicaLabels), sortedCopy(y.ReplicaLabels))
	if restSame && shAll {
		return
	}
	what := fmt.Sprintf("tenant %q query %q and tenant %q query %q share the key %s", a.tenant, x.Query, b.tenant, y.Query, hlib.UnHexS(ka))
	switch {
	case restSame && shTI:
		c43Viol(c, "range-shard-labels-not-in-key", what)
	case a.tenant != b.tenant && (strings.Contains(a.tenant, ":") || strings.Contains(b.tenant, ":")):
		c43Viol(c, "range-tenant-colon", what)
	case strings.Contains(x.Engine, ":") || strings.Contains(y.Engine, ":") || badLabel(x.ReplicaLabels) || badLabel(y.ReplicaLabels):
		c43Viol(c, "range-field-separator", what)
	default:
		c43Viol(c, "range-key-collision", what)
	}
}

func oracleLabelsPair(c *hlib.Ctx, a, b *c43Meta, ka, kb string) {
	if ka != kb || len(ka) < 8 {
		return
	}
	x, y := a.req.(*queryfrontend.ThanosLabelsRequest), b.req.(*queryfrontend.ThanosLabelsRequest)
	keyed := a.tenant == b.tenant && x.Label == y.Label && eqSets(a.sets, b.sets)
	if keyed && x.PartialResponse == y.PartialResponse {
		return
	}
	what := fmt.Sprintf("labels requests (tenant %q label %q partial %v) and (tenant %q label %q partial %v) share the key %s",
		a.tenant, x.Label, x.PartialResponse, b.tenant, y.Label, y.PartialResponse, hlib.UnHexS(ka))
	if !eqSets(a.sets, b.sets) && a.tenant == b.tenant && x.Label == y.Label {
		c43Viol(c, "matchers-not-separated", fmt.Sprintf("labels requests with the matchers %s and %s (as the library prints them) share the key %s", a.text, b.text, hlib.UnHexS(ka)))
		return
	}
	switch {
	case keyed:
		c43Viol(c, "labels-partial-response-not-in-key", what)
	case strings.Contains(a.tenant+x.Label+b.tenant+y.Label, ":"):
		c43Viol(c, "labels-tenant-or-label-colon", what)
	default:
		c43Viol(c, "labels-key-collision", what)
	}
}

func oracleSeriesPair(c *hlib.Ctx, a, b *c43Meta, ka, kb string) {
	if ka != kb || len(ka) < 8 {
		return
	}
	x, y := a.req.(*queryfrontend.ThanosSeriesRequest), b.req.(*queryfrontend.ThanosSeriesRequest)
	keyed := a.tenant == b.tenant && eqSets(a.sets, b.sets)
	if keyed && x.PartialResponse == y.PartialResponse && eqStrs(sortedCopy(x.ReplicaLabels), sortedCopy(y.ReplicaLabels)) {
		return
	}
	what := fmt.Sprintf("series requests (tenant %q partial %v replicas %q) and (tenant %q partial %v replicas %q) share the key %s",
		a.tenant, x.PartialResponse, x.ReplicaLabels, b.tenant, y.PartialResponse, y.ReplicaLabels, hlib.UnHexS(ka))
	if !eqSets(a.sets, b.sets) && a.tenant == b.tenant && !badLabel(x.ReplicaLabels) && !badLabel(y.ReplicaLabels) {
		c43Viol(c, "matchers-not-separated", fmt.Sprintf("series requests with the matchers %s and %s (as the library prints them) share the key %s", a.text, b.text, hlib.UnHexS(ka)))
		return
	}
	switch {
	case keyed && !badLabel(x.ReplicaLabels) && !badLabel(y.ReplicaLabels):
		c43Viol(c, "series-params-not-in-key", what)
	case badLabel(x.ReplicaLabels) || badLabel(y.ReplicaLabels):
		c43Viol(c, "series-field-separator", what)
	case a.tenant != b.tenant && strings.Contains(a.tenant+b.tenant, ":"):
		c43Viol(c, "series-tenant-colon", what)
	default:
		c43Viol(c, "series-key-collision", what)
	}
}

// c43Viol reports an oracle violation.  hlib keeps at most 200 violations per run; the separator and
// omitted-parameter classes are hit hundreds of times by the adversarial generator, so each of those narrow
// classes is reported at most 12 times per run (all hits are still counted in the distribution) to leave room
// for any other class.  The catch-all "*-key-collision" classes are never capped.
var c43Reported = map[string]int{}

func c43Viol(c *hlib.Ctx, class, what string) {
	c.Count("collision:" + class)
	if !strings.HasSuffix(class, "-key-collision") {
		c43Reported[class]++
		if c43Reported[class] > 12 {
			return
		}
	}
	c.Violation(class, what)
}

func splitBar(tok []string) ([]string, []string, bool) {
	for i, t := range tok {
		if t == "|" {
			return tok[:i], tok[i+1:], true
		}
	}
	return nil, nil, false
}

func pairAnswer(ka, kb string) string {
	for _, k := range []string{ka, kb} {
		if k == "invalid" || k == "notcached" {
			return k
		}
	}
	return ka + " " + kb
}

// execC43Conc: see o.key.conc in the header.
func execC43Conc(c *hlib.Ctx, tok []string) string {
	if len(tok) < 4 || (tok[1] != "r" && tok[1] != "s") {
		return "bad-op"
	}
	ms, ok := atoi64(tok[2])
	if !ok || ms <= 0 || ms > 5000 {
		return "bad-op"
	}
	type job struct {
		user string
		req  queryrange.Request
		want string
	}
	var jobs []job
	rest := tok[3:]
	for len(rest) > 0 {
		one := rest
		if a, b, ok := splitBar(rest); ok {
			one, rest = a, b
		} else {
			rest = nil
		}
		var tn string
		var req queryrange.Request
		if tok[1] == "r" {
			r, ok := parseC43Range(one)
			if !ok {
				return "bad-op"
			}
			tn, req = r.tenant, r.req
		} else {
			m, ok := parseC43Series(one)
			if !ok {
				return "bad-op"
			}
			tn, req = m.tenant, m.req
		}
		ids, err := tenant.TenantIDs(user.InjectOrgID(context.Background(), tn))
		if err != nil || !queryfrontend.VerifShouldCache(req) {
			return "invalid"
		}
		jobs = append(jobs, job{user: tenant.JoinTenantIDs(ids), req: req})
	}
	if len(jobs) < 2 || len(jobs) > 64 {
		return "bad-op"
	}
	if runtime.GOMAXPROCS(0) < 2 {
		defer runtime.GOMAXPROCS(runtime.GOMAXPROCS(2))
		c.Count("conc:gomaxprocs-raised")
	}
	shared := queryfrontend.VerifCacheKeyGenerator() // the one generator of a frontend
	owner := map[string]int{}
	for i := range jobs {
		jobs[i].want = shared.GenerateCacheKey(jobs[i].user, jobs[i].req)
		if fresh := queryfrontend.VerifCacheKeyGenerator().GenerateCacheKey(jobs[i].user, jobs[i].req); fresh != jobs[i].want {
			c.Violation("key-not-a-function-of-the-request", fmt.Sprintf("request %d: shared generator %q, fresh generator %q", i, clip(jobs[i].want), clip(fresh)))
		}
		if _, dup := owner[jobs[i].want]; !dup {
			owner[jobs[i].want] = i
		}
	}
	type bad struct {
		i    int
		got  string
		iter int64
	}
	var (
		wg    sync.WaitGroup
		stop  atomic.Bool
		total atomic.Int64
		mu    sync.Mutex
		bads  []bad
	)
	start := make(chan struct{})
	for i := range jobs {
		wg.Add(1)
		go func(i int) {
			defer wg.Done()
			j := jobs[i]
			<-start
			var n int64
			for !stop.Load() {
				got := shared.GenerateCacheKey(j.user, j.req)
				n++
				if got != j.want {
					mu.Lock()
					if len(bads) < 64 {
						bads = append(bads, bad{i, got, n})
					}
					mu.Unlock()
				}
			}
			total.Add(n)
		}(i)
	}
	close(start)
	time.Sleep(time.Duration(ms) * time.Millisecond)
	stop.Store(true)
	wg.Wait()
	c.Count("conc:keys:" + bucket(int(total.Load())))
	c.Count(fmt.Sprintf("conc:goroutines:%s", bucket(len(jobs))))
	if len(bads) == 0 {
		return "ok"
	}
	seen := map[string]bool{}
	for _, b := range bads {
		class := "key-not-a-function-of-the-request"
		what := fmt.Sprintf("goroutine %d, call %d: got %q, sequentially %q", b.i, b.iter, clip(b.got), clip(jobs[b.i].want))
		if o, ok := owner[b.got]; ok && o != b.i {
			class = "concurrent-key-mixup"
			what = fmt.Sprintf("goroutine %d, call %d: got the key of goroutine %d's request %q instead of %q (one generator shared by %d goroutines)",
				b.i, b.iter, o, clip(b.got), clip(jobs[b.i].want), len(jobs))
		}
		if seen[class] {
			continue
		}
		seen[class] = true
		c.Violation(class, what)
	}
	return "mixup"
}

func execC43(c *hlib.Ctx, tok []string) string {
	if len(tok) == 0 {
		return "bad-op"
	}
	switch tok[0] {
	case "o.key.conc":
		return execC43Conc(c, tok)
	case "key.range":
		r, ok := parseC43Range(tok[1:])
		if !ok {
			return "bad-op"
		}
		return c43Key(r.tenant, r.req)
	case "key.labels", "key.url.labels":
		r, bad := parseC43LabelsVia(tok[1:], tok[0] == "key.url.labels")
		if bad != "" {
			return bad
		}
		return c43Key(r.tenant, r.req)
	case "key.series", "key.url.series":
		r, bad := parseC43SeriesVia(tok[1:], tok[0] == "key.url.series")
		if bad != "" {
			return bad
		}
		return c43Key(r.tenant, r.req)
	case "key.pair.range":
		ta, tb, ok := splitBar(tok[1:])
		if !ok {
			return "bad-op"
		}
		a, ok1 := parseC43Range(ta)
		b, ok2 := parseC43Range(tb)
		if !ok1 || !ok2 {
			return "bad-op"
		}
		ka, kb := c43Key(a.tenant, a.req), c43Key(b.tenant, b.req)
		oracleRangePair(c, a, b, ka, kb)
		return pairAnswer(ka, kb)
	case "key.pair.labels", "key.pair.series", "key.pair.cross", "key.pair.url.labels", "key.pair.url.series":
		ta, tb, ok := splitBar(tok[1:])
		if !ok {
			return "bad-op"
		}
		viaURL := strings.HasPrefix(tok[0], "key.pair.url.")
		tok[0] = strings.Replace(tok[0], ".url.", ".", 1)
		pa, pb := parseC43LabelsVia, parseC43LabelsVia
		if tok[0] == "key.pair.series" {
			pa, pb = parseC43SeriesVia, parseC43SeriesVia
		} else if tok[0] == "key.pair.cross" {
			pb = parseC43SeriesVia
		}
		a, bad1 := pa(ta, viaURL)
		b, bad2 := pb(tb, viaURL)
		if bad1 != "" {
			return bad1
		}
		if bad2 != "" {
			return bad2
		}
		ka, kb := c43Key(a.tenant, a.req), c43Key(b.tenant, b.req)
		switch tok[0] {
		case "key.pair.labels":
			oracleLabelsPair(c, a, b, ka, kb)
		case "key.pair.series":
			oracleSeriesPair(c, a, b, ka, kb)
		default:
			if ka == kb && len(ka) >= 8 {
				what := fmt.Sprintf("a labels request of tenant %q and a series request of tenant %q share the key %s", a.tenant, b.tenant, hlib.UnHexS(ka))
				if sr := b.req.(*queryfrontend.ThanosSeriesRequest); badLabel(sr.ReplicaLabels) {
					c43Viol(c, "series-field-separator", what)
				} else if strings.Contains(a.tenant+b.tenant, ":") {
					c43Viol(c, "cross-type-tenant-colon", what)
				} else {
					c43Viol(c, "cross-key-collision", what)
				}
			}
		}
		return pairAnswer(ka, kb)
	case "key.tenant":
		if len(tok) != 2 {
			return "bad-op"
		}
		tn, ok := unhexTok(tok[1])
		if !ok {
			return "bad-op"
		}
		id, err := tenant.TenantID(user.InjectOrgID(context.Background(), tn))
		if err != nil {
			return "invalid"
		}
		if id != tn {
			c.Violation("tenant-changed", "resolver changed the tenant id")
		}
		return "ok"
	case "key.should":
		if len(tok) != 5 {
			return "bad-op"
		}
		dedup, ok1 := boolTok(tok[2])
		n, ok2 := atoi64(tok[3])
		dis, ok3 := boolTok(tok[4])
		if !ok1 || !ok2 || !ok3 || n < 0 || n > 8 {
			return "bad-op"
		}
		var sm [][]*labels.Matcher
		for i := int64(0); i < n; i++ {
			sm = append(sm, []*labels.Matcher{labels.MustNewMatcher(labels.MatchEqual, "a", "b")})
		}
		co := queryrange.CachingOptions{Disabled: dis}
		var r queryrange.Request
		switch tok[1] {
		case "r":
			r = &queryfrontend.ThanosQueryRangeRequest{Dedup: dedup, StoreMatchers: sm, CachingOptions: co}
		case "l":
			r = &queryfrontend.ThanosLabelsRequest{StoreMatchers: sm, CachingOptions: co}
		case "s":
			r = &queryfrontend.ThanosSeriesRequest{Dedup: dedup, StoreMatchers: sm, CachingOptions: co}
		default:
			return "bad-op"
		}
		if queryfrontend.VerifShouldCache(r) {
			return "1"
		}
		return "0"
	}
	return "bad-op"
}

// ---------------------------------------------------------------- generator

type gRange struct {
	tenant, query                     string
	start, step, split, msr, lookback int64
	shard                             *storepb.ShardInfo
	engine                            string
	partial, analyze                  bool
	replicas                          []string
}

func b01(b bool) string {
	if b {
		return "1"
	}
	return "0"
}

func hexJoin(xs []string, sep string) string {
	if len(xs) == 0 {
		return "-"
	}
	hs := make([]string, len(xs))
	for i, x := range xs {
		hs[i] = hlib.HexS(x)
		if hs[i] == "-" {
			hs[i] = "_" // the empty string as an element of a non-empty list
		}
	}
	return strings.Join(hs, sep)
}

func (g gRange) enc() string {
	sh := "-"
	if g.shard != nil {
		sh = fmt.Sprintf("%d/%d/%s/%s", g.shard.TotalShards, g.shard.ShardIndex, b01(g.shard.By), hexJoin(g.shard.Labels, ";"))
	}
	return fmt.Sprintf("%s %s %d %d %d %d %s %d %s %s %s %s", hlib.HexS(g.tenant), hlib.HexS(g.query), g.start, g.step, g.split, g.msr,
		sh, g.lookback, hlib.HexS(g.engine), b01(g.partial), hexJoin(g.replicas, ","), b01(g.analyze))
}

var (
	c43Tenants  = []string{"", "a", "team-a", "a:b", "a:", ":a", "t1", "org|x", "ü", "a:b:c", "fe", "1", "team:prod", "0:true"}
	c43Queries  = []string{"up", "b:c", "c", "job:http_requests:rate5m", "rate(x[5m])", "sum by (a) (x)", "x:1", "up:60000", `{a=":"}`, "a:b:c", ":", "", "up:60000:3600000:0:2:-:0::false::false"}
	c43Engines  = []string{"", "thanos", "prometheus", "x:y", "5:x", ":"}
	c43Replicas = []string{"replica", "pod", "prometheus", "a", "b", "a,b", "r:1", "", "rep,lica"}
	c43Steps    = []int64{1000, 15000, 30000, 60000, 300000, 3600000, 7, 60001}
	c43Splits   = []int64{3600000, 86400000, 43200000, 60000, 7}
	c43Msr      = []int64{0, 1, 60000, 299999, 300000, 1800000, 3599999, 3600000, 86400000}
	c43Labels   = []string{"job", "instance", "a", "b:c", "c", "", "a:b", "x"}
	c43Sels     = []string{`up`, `{a="1"}`, `{a="1",b=~"x.*"}`, `{instance="h:9090"}`, `{__name__=~"a|b"}`, `foo{bar!="b:c"}`, `{a=":"}`, `{"utf8.name"="v"}`}
)

func randStr(r *hlib.Rand, alphabet string, n int) string {
	rs := []rune(alphabet)
	var b strings.Builder
	for i := 0; i < n; i++ {
		b.WriteRune(rs[r.Intn(len(rs))])
	}
	return b.String()
}

func genStr(r *hlib.Rand, pool []string, alphabet string) string {
	if r.Chance(3, 4) {
		return r.Pick(pool)
	}
	return randStr(r, alphabet, r.Range(0, 6))
}

func genTenant(r *hlib.Rand) string {
	for {
		t := genStr(r, c43Tenants, "ab:-1,|.é")
		if t != "." && t != ".." { // the resolver rejects these two; key.tenant covers them
			return t
		}
	}
}

func genShard(r *hlib.Rand) *storepb.ShardInfo {
	if r.Chance(1, 2) {
		return nil
	}
	tot := int64(r.Range(1, 5))
	var ls []string
	for i := r.Intn(3); i > 0; i-- {
		ls = append(ls, r.Pick([]string{"a", "b", "le", "pod"}))
	}
	return &storepb.ShardInfo{TotalShards: tot, ShardIndex: int64(r.Intn(int(tot))), By: r.Bool(), Labels: ls}
}

func genReplicas(r *hlib.Rand) []string {
	var out []string
	for i := r.Intn(4); i > 0; i-- {
		out = append(out, genStr(r, c43Replicas, "ab,:"))
	}
	return out
}

func genRange(r *hlib.Rand) gRange {
	split := c43Splits[r.Intn(len(c43Splits))]
	return gRange{tenant: genTenant(r), query: genStr(r, c43Queries, "ab:(){}1"), start: r.I64Range(0, 5*split), step: c43Steps[r.Intn(len(c43Steps))],
		split: split, msr: c43Msr[r.Intn(len(c43Msr))], lookback: []int64{0, 0, 1000, 300000, 5}[r.Intn(5)], shard: genShard(r),
		engine: genStr(r, c43Engines, "ab:1"), partial: r.Bool(), analyze: r.Chance(1, 4), replicas: genReplicas(r)}
}

// resplit moves the boundary between two ':'-joined fields to another ':' of their concatenation.
func resplit(r *hlib.Rand, a, b string) (string, string, bool) {
	s := a + ":" + b
	var pos []int
	for i := 0; i < len(s); i++ {
		if s[i] == ':' && i != len(a) {
			pos = append(pos, i)
		}
	}
	if len(pos) == 0 {
		return a, b, false
	}
	p := pos[r.Intn(len(pos))]
	return s[:p], s[p+1:], true
}

func mutateRange(c *hlib.Ctx, g gRange) gRange {
	r := c.R
	h := g
	h.replicas = append([]string(nil), g.replicas...)
	switch k := r.Intn(16); k {
	case 0:
		h.tenant = genTenant(r)
		c.Count("mut:tenant")
	case 1:
		h.query = genStr(r, c43Queries, "ab:(){}1")
		c.Count("mut:query")
	case 2, 3: // adversarial: same bytes, other tenant/query boundary
		if t, q, ok := resplit(r, g.tenant, g.query); ok && !strings.ContainsAny(t, "/\\") && t != "." && t != ".." {
			h.tenant, h.query = t, q
			c.Count("mut:tenant-query-resplit")
		} else {
			h.query = g.query + ":x"
			c.Count("mut:query")
		}
	case 4:
		h.step = c43Steps[r.Intn(len(c43Steps))]
		c.Count("mut:step")
	case 5:
		h.msr = c43Msr[r.Intn(len(c43Msr))]
		c.Count("mut:resolution")
	case 6:
		h.shard = genShard(r)
		c.Count("mut:shard")
	case 7: // only By / Labels of the shard info
		if g.shard != nil {
			s := *g.shard
			if r.Bool() {
				s.By = !s.By
			} else {
				s.Labels = append(append([]string(nil), s.Labels...), "zz")
			}
			h.shard = &s
			c.Count("mut:shard-labels-only")
		} else {
			h.shard = &storepb.ShardInfo{TotalShards: 2, ShardIndex: 1, By: true, Labels: []string{"a"}}
			c.Count("mut:shard")
		}
	case 8:
		h.lookback = g.lookback + int64(r.Range(1, 5000))
		c.Count("mut:lookback")
	case 9:
		h.engine = genStr(r, c43Engines, "ab:1")
		c.Count("mut:engine")
	case 10:
		h.partial = !g.partial
		c.Count("mut:partial")
	case 11:
		h.analyze = !g.analyze
		c.Count("mut:analyze")
	case 12:
		h.replicas = genReplicas(r)
		c.Count("mut:replicas")
	case 13: // same multiset, other order: must give the same key (not a difference)
		p := r.Perm(len(g.replicas))
		for i, j := range p {
			h.replicas[i] = g.replicas[j]
		}
		c.Count("mut:replicas-permuted")
	case 14: // adversarial: merge two labels into one containing ',' or split one
		if len(g.replicas) >= 2 {
			s := append([]string(nil), g.replicas...)
			sort.Strings(s)
			h.replicas = append([]string{s[0] + "," + s[1]}, s[2:]...)
			c.Count("mut:replicas-comma-merge")
		} else {
			h.replicas = append(h.replicas, "x")
			c.Count("mut:replicas")
		}
	default:
		h.start = g.start + g.split*int64(r.Range(1, 3)) // another interval: keys must differ only in the interval
		c.Count("mut:interval")
	}
	return h
}

type gMeta struct {
	tenant, label string
	sets          [][]c43M
	start, split  int64
	partial       bool
	replicas      []string
}

var c43OpText = []string{"=", "!=", "=~", "!~"}

func legacyName(n string) bool {
	for i, ch := range n {
		if ch == '_' || (ch >= 'a' && ch <= 'z') || (ch >= 'A' && ch <= 'Z') || (i > 0 && ch >= '0' && ch <= '9') {
			continue
		}
		return false
	}
	return n != ""
}

// selOf writes a matcher set as the PromQL selector a client would send in match[].
func selOf(set []c43M) string {
	var ps []string
	for _, m := range set {
		n := m.name
		if !legacyName(n) {
			n = strconv.Quote(n)
		}
		ps = append(ps, n+c43OpText[m.op]+strconv.Quote(m.value))
	}
	return "{" + strings.Join(ps, ", ") + "}"
}

func setsTok(sets [][]c43M) string {
	if len(sets) == 0 {
		return "-"
	}
	var ss []string
	for _, set := range sets {
		var ms []string
		for _, m := range set {
			ms = append(ms, fmt.Sprintf("%s.%d.%s", hlib.HexS(m.name), m.op, hlib.HexS(m.value)))
		}
		ss = append(ss, strings.Join(ms, ","))
	}
	return strings.Join(ss, ";")
}

func (g gMeta) sels() []string {
	var out []string
	for _, set := range g.sets {
		out = append(out, selOf(set))
	}
	return out
}

// libText is the rendering of the Prometheus library: fmt's %s on [][]*labels.Matcher.
func libText(sets [][]c43M) string {
	ms, ok := buildMatchers(sets)
	if !ok {
		panic("verif: generator made an invalid matcher")
	}
	return fmt.Sprintf("%s", ms)
}

// urlOK: the selectors parse and give back exactly the sets (a selector needs one matcher that does not match "").
func (g gMeta) urlOK() bool {
	if strings.Contains(g.label, "/") {
		return false
	}
	var ms [][]*labels.Matcher
	for _, sl := range g.sels() {
		m, err := parser.ParseMetricSelector(sl)
		if err != nil {
			return false
		}
		ms = append(ms, m)
	}
	return eqSets(setsOf(ms), g.sets)
}

func (g gMeta) encLabels() string {
	return fmt.Sprintf("%s %s %s %s %s %d %d %s", hlib.HexS(g.tenant), hlib.HexS(g.label), hexJoin(g.sels(), ";"), hlib.HexS(libText(g.sets)), setsTok(g.sets), g.start, g.split, b01(g.partial))
}

func (g gMeta) encSeries() string {
	return fmt.Sprintf("%s %s %s %s %d %d %s %s", hlib.HexS(g.tenant), hexJoin(g.sels(), ";"), hlib.HexS(libText(g.sets)), setsTok(g.sets), g.start, g.split, b01(g.partial), hexJoin(g.replicas, ","))
}

var (
	c43MNames  = []string{"foo", "b", "job", "a", "__name__", "instance", "utf8.name", "x y", "we\"ird", "[a]", "a=b", "é", "le"}
	c43MValues = []string{"a", "c", "up", "", "x.*", "a|b", "h:9090", "a\" b=\"c", "a\"] [b=\"c", "\"", "\\", "\\\"", "a\\", "a,b", "a b", "[a]", "{a}", "a\nb", "]", "[", "} {", "a\\\" b=\\\"c", "\t", "\x01", "ü\u00a0", ":"}
)

func genMatcher(r *hlib.Rand, eqOnly bool) c43M {
	m := c43M{name: genStr(r, c43MNames, "ab_\" ]"), value: genStr(r, c43MValues, "ab\"\\,][{} \n=")}
	if m.name == "" {
		m.name = "n"
	}
	m.op = r.Intn(2)
	if !eqOnly && r.Chance(1, 3) {
		m.op = 2 + r.Intn(2)
		if _, err := labels.NewMatcher(c43MatchTypes[m.op], m.name, m.value); err != nil {
			if r.Bool() {
				m.value = regexpQuote(m.value)
			} else {
				m.op -= 2
			}
		}
	}
	return m
}

func regexpQuote(v string) string {
	var b strings.Builder
	for _, ch := range v {
		if strings.ContainsRune(`\.+*?()|[]{}^$`, ch) {
			b.WriteByte('\\')
		}
		b.WriteRune(ch)
	}
	return b.String()
}

// genSet: 1-3 matchers; the first one is an equality with a non-empty value so that the selector is valid PromQL.
func genSet(r *hlib.Rand, eqOnly bool) []c43M {
	var set []c43M
	for k := r.Range(1, 3); k > 0; k-- {
		set = append(set, genMatcher(r, eqOnly))
	}
	if set[0].value == "" || set[0].op != 0 {
		set[0].op = 0
		if set[0].value == "" {
			set[0].value = "v"
		}
	}
	return set
}

func genSets(r *hlib.Rand, eqOnly bool) [][]c43M {
	var sets [][]c43M
	for i := r.Intn(3); i > 0; i-- {
		if r.Chance(1, 3) {
			m, err := parser.ParseMetricSelector(r.Pick(c43Sels))
			if err != nil {
				panic(err)
			}
			sets = append(sets, setsOf([][]*labels.Matcher{m})[0])
			continue
		}
		sets = append(sets, genSet(r, eqOnly))
	}
	return sets
}

func rawMatcher(m c43M, esc bool) string {
	n := m.name
	if !legacyName(n) {
		n = strconv.Quote(n)
	}
	q := `"`
	if esc {
		q = `\"`
	}
	return n + c43OpText[m.op] + q + m.value
}

// twinSets: the "spelled-out twin" of sets: two neighbouring matchers (or two neighbouring selectors) become ONE matcher
// whose value spells the text between them as a renderer without escaping would write it (esc: as a renderer that
// escapes the quote but not the backslash would).  ok = false when there is nothing to merge.
func twinSets(r *hlib.Rand, sets [][]c43M, esc bool) ([][]c43M, bool) {
	cp := make([][]c43M, len(sets))
	for i := range sets {
		cp[i] = append([]c43M(nil), sets[i]...)
	}
	q := `"`
	if esc {
		q = `\"`
	}
	var cands [][2]int
	for i, set := range cp {
		for j := 0; j+1 < len(set); j++ {
			cands = append(cands, [2]int{i, j})
		}
		if i+1 < len(cp) && len(set) > 0 && len(cp[i+1]) > 0 {
			cands = append(cands, [2]int{i, -1})
		}
	}
	if len(cands) == 0 {
		return nil, false
	}
	pick := cands[r.Intn(len(cands))]
	i, j := pick[0], pick[1]
	if j >= 0 { // two matchers of one selector
		m := cp[i][j]
		if m.op >= 2 {
			return nil, false
		}
		m.value = m.value + q + " " + rawMatcher(cp[i][j+1], esc)
		cp[i] = append(append(append([]c43M(nil), cp[i][:j]...), m), cp[i][j+2:]...)
		return cp, true
	}
	last := len(cp[i]) - 1
	m := cp[i][last]
	if m.op >= 2 {
		return nil, false
	}
	var rest []string
	for k, n := range cp[i+1] {
		t := rawMatcher(n, esc)
		if k+1 < len(cp[i+1]) {
			t += q
		}
		rest = append(rest, t)
	}
	m.value = m.value + q + "] [" + strings.Join(rest, " ")
	merged := append(append([]c43M(nil), cp[i][:last]...), m)
	out := append(append(append([][]c43M(nil), cp[:i]...), merged), cp[i+2:]...)
	return out, true
}

func genMeta(r *hlib.Rand) gMeta {
	split := c43Splits[r.Intn(len(c43Splits))]
	return gMeta{tenant: genTenant(r), label: genStr(r, c43Labels, "ab:_"), sets: genSets(r, false), start: r.I64Range(0, 5*split), split: split,
		partial: r.Bool(), replicas: genReplicas(r)}
}

func mutateMeta(c *hlib.Ctx, g gMeta, series bool) gMeta {
	r := c.R
	h := g
	h.sets = append([][]c43M(nil), g.sets...)
	h.replicas = append([]string(nil), g.replicas...)
	k := r.Intn(11)
	if k >= 8 {
		k = 2 // matchers
	}
	switch k {
	case 0:
		h.tenant = genTenant(r)
		c.Count("mut:tenant")
	case 1:
		h.partial = !g.partial
		c.Count("mut:partial")
	case 2:
		switch r.Intn(4) {
		case 0:
			h.sets = append(h.sets, genSet(r, false))
			c.Count("mut:matchers:add-selector")
		case 1:
			if t, ok := twinSets(r, g.sets, r.Chance(1, 3)); ok {
				h.sets = t
				c.Count("mut:matchers:spelled-out-twin")
			} else {
				h.sets = append(h.sets, genSet(r, true))
				c.Count("mut:matchers:add-selector")
			}
		case 2:
			if len(g.sets) > 0 {
				i := r.Intn(len(g.sets))
				set := append([]c43M(nil), g.sets[i]...)
				k := r.Intn(len(set))
				if set[k].op < 2 {
					set[k].value += r.Pick([]string{`"`, `\\`, " ", ",", "]", "\n", `\\"`})
				} else {
					set[k].value += "a"
				}
				if k == 0 && set[k].op == 0 && set[k].value == "" {
					set[k].value = "v"
				}
				h.sets[i] = set
				c.Count("mut:matchers:value-char")
			} else {
				h.sets = append(h.sets, genSet(r, false))
				c.Count("mut:matchers:add-selector")
			}
		default:
			if len(g.sets) > 0 { // split one selector into two / move the boundary
				i := r.Intn(len(g.sets))
				if len(g.sets[i]) > 1 {
					a, b := g.sets[i][:1], g.sets[i][1:]
					h.sets = append(append(append([][]c43M(nil), g.sets[:i]...), a, b), g.sets[i+1:]...)
					c.Count("mut:matchers:split-selector")
					break
				}
			}
			h.sets = append(h.sets, genSet(r, true))
			c.Count("mut:matchers:add-selector")
		}
	case 3:
		if series {
			h.replicas = genReplicas(r)
			c.Count("mut:replicas")
		} else {
			h.label = genStr(r, c43Labels, "ab:_")
			c.Count("mut:label")
		}
	case 4, 5: // adversarial: same bytes, other tenant/label boundary (labels) or tenant/matchers (series)
		if !series {
			if t, l, ok := resplit(r, g.tenant, g.label); ok && !strings.ContainsAny(t+l, "/\\") && t != "." && t != ".." {
				h.tenant, h.label = t, l
				c.Count("mut:tenant-label-resplit")
				break
			}
		}
		h.tenant = g.tenant + "x"
		c.Count("mut:tenant")
	case 6:
		h.start = g.start + g.split*int64(r.Range(1, 3))
		c.Count("mut:interval")
	default:
		if series {
			h.replicas = append(h.replicas, "x")
			c.Count("mut:replicas")
		} else {
			h.partial = !g.partial
			c.Count("mut:partial")
		}
	}
	return h
}

func genC43(c *hlib.Ctx) {
	r := c.R
	n := c.N(2500, 100000)
	for i := 0; i < n; i++ {
		a := genRange(r)
		b := mutateRange(c, a)
		c.Do("key.range "+a.enc(), true)
		c.Do("key.pair.range "+a.enc()+" | "+b.enc(), true)
		if i%5 == 0 { // two independent requests
			c.Count("pair:independent")
			c.Do("key.pair.range "+a.enc()+" | "+genRange(r).enc(), true)
		}
	}
	n = c.N(1200, 40000)
	for i := 0; i < n; i++ {
		a := genMeta(r)
		b := mutateMeta(c, a, false)
		c.Do("key.labels "+a.encLabels(), true)
		c.Do("key.pair.labels "+a.encLabels()+" | "+b.encLabels(), true)
		s := genMeta(r)
		t := mutateMeta(c, s, true)
		c.Do("key.series "+s.encSeries(), true)
		c.Do("key.pair.series "+s.encSeries()+" | "+t.encSeries(), true)
		// the same requests through the real codec (URL -> DecodeRequest -> WithSplitInterval)
		if a.urlOK() {
			c.Count("url:labels")
			c.Do("key.url.labels "+a.encLabels(), true)
			if b.urlOK() {
				c.Do("key.pair.url.labels "+a.encLabels()+" | "+b.encLabels(), true)
			}
		}
		if s.urlOK() {
			c.Count("url:series")
			c.Do("key.url.series "+s.encSeries(), true)
			if t.urlOK() {
				c.Do("key.pair.url.series "+s.encSeries()+" | "+t.encSeries(), true)
			}
		}
		// labels vs series of the same or a ':'-shifted tenant
		x := a
		x.sets, x.start, x.split = s.sets, s.start, s.split
		if r.Bool() {
			x.label = ""
			if strings.HasSuffix(s.tenant, ":") {
				x.tenant = strings.TrimSuffix(s.tenant, ":")
			} else {
				x.tenant = s.tenant
			}
		}
		c.Count("pair:cross")
		c.Do("key.pair.cross "+x.encLabels()+" | "+s.encSeries(), true)
	}
	// spelled-out twins: one request whose single matcher value spells the text of two matchers / two selectors of the
	// other (as a renderer without escaping — or one escaping the quote only — would write them); label names, label
	// values and series requests, built directly and through the codec
	n = c.N(250, 8000)
	for i := 0; i < n; i++ {
		a := genMeta(r)
		a.tenant = c43Tenants[1+r.Intn(2)]
		a.sets = nil
		for k := r.Range(1, 2); k > 0; k-- {
			set := genSet(r, true)
			if len(set) < 2 && r.Bool() {
				set = append(set, genMatcher(r, true))
			}
			a.sets = append(a.sets, set)
		}
		esc := r.Chance(1, 3)
		ts, ok := twinSets(r, a.sets, esc)
		if !ok {
			continue
		}
		b := a
		b.sets = ts
		switch r.Intn(3) {
		case 0:
			a.label, b.label = "", "" // label names
		case 1:
			a.label = c43Labels[r.Intn(3)]
			b.label = a.label
		}
		kind := "labels"
		ea, eb := a.encLabels(), b.encLabels()
		if r.Chance(1, 3) {
			kind = "series"
			a.replicas = sortedCopy(a.replicas)
			for badLabel(a.replicas) {
				a.replicas = nil
			}
			b.replicas = a.replicas
			ea, eb = a.encSeries(), b.encSeries()
		}
		c.Count(fmt.Sprintf("twin:%s:esc=%v", kind, esc))
		c.Do("key.pair."+kind+" "+ea+" | "+eb, true)
		if a.urlOK() && b.urlOK() {
			c.Count("twin:url")
			c.Do("key.pair.url."+kind+" "+ea+" | "+eb, true)
		}
	}
	for _, t := range append(append([]string(nil), c43Tenants...), ".", "..", "a/b", `a\b`, "./x", "...", "a.b") {
		c.Count("tenant")
		c.Do("key.tenant "+hlib.HexS(t), true)
	}
	for _, k := range []string{"r", "l", "s"} {
		for d := 0; d < 2; d++ {
			for ns := 0; ns < 3; ns++ {
				for dis := 0; dis < 2; dis++ {
					c.Count("should")
					c.Do(fmt.Sprintf("key.should %s %d %d %d", k, d, ns, dis), true)
				}
			}
		}
	}
	// concurrency: one shared generator, G goroutines with their own requests (replica label sets of 0..8 labels, other
	// fields shared or not); a few hundred ms in the quick tier, ~10 s in the thorough one
	nconc, ms := 6, 60
	if c.Tier != "quick" {
		nconc, ms = 40, 250
	}
	for i := 0; i < nconc; i++ {
		G := r.Range(2, 8)
		series := r.Chance(1, 4)
		base := genRange(r)
		base.tenant = c43Tenants[1+r.Intn(4)]
		bm := genMeta(r)
		bm.tenant = base.tenant
		var parts []string
		for g := 0; g < G; g++ {
			var repl []string
			for k := r.Range(1, 8); k > 0; k-- {
				repl = append(repl, fmt.Sprintf("%s%d", []string{"replica", "pod", "r", "prometheus_replica"}[r.Intn(4)], r.Intn(6)+10*g))
			}
			if r.Chance(1, 10) {
				repl = nil
			}
			if series {
				m := bm
				m.replicas = repl
				parts = append(parts, m.encSeries())
			} else {
				x := base
				if r.Chance(1, 3) {
					x = genRange(r)
					x.tenant = base.tenant
				}
				x.replicas = repl
				parts = append(parts, x.enc())
			}
		}
		kind := "r"
		if series {
			kind = "s"
		}
		c.Count("conc:stream:" + kind)
		c.Do(fmt.Sprintf("o.key.conc %s %d %s", kind, ms, strings.Join(parts, " | ")), true)
	}
	// malformed: zero split interval (a request that never passed the split middleware) divides by zero
	for i := 0; i < c.N(20, 200); i++ {
		g := genRange(r)
		g.split = 0
		c.Count("malformed:split=0")
		c.Do("key.range "+g.enc(), true)
	}
}
