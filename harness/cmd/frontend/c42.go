package main

import (
	"context"
	"fmt"
	"io"
	"net/http"
	"net/url"
	"sort"
	"strconv"
	"strings"
	"sync"
	"time"

	"github.com/go-kit/log"
	"github.com/prometheus/common/model"
	"github.com/weaveworks/common/user"

	cortexcache "github.com/thanos-io/thanos/internal/cortex/chunk/cache"
	"github.com/thanos-io/thanos/internal/cortex/cortexpb"
	"github.com/thanos-io/thanos/internal/cortex/frontend/transport"
	"github.com/thanos-io/thanos/internal/cortex/querier/queryrange"
	cortexvalidation "github.com/thanos-io/thanos/internal/cortex/util/validation"
	"github.com/thanos-io/thanos/pkg/queryfrontend"
	"github.com/thanos-io/thanos/verifharness/hlib"
)

// C42 — the results cache never changes query results.
//
// One op is a whole history of range queries answered by ONE fresh query-range tripperware
// (queryfrontend.NewTripperware: limits, [step align], split by interval, results cache with the
// Thanos key generator incl. lower-step alternatives, codec) over an in-memory cache and a
// deterministic downstream:
//
//	cache.hist <align 0|1> <splitMs> <data> <reqs>     -> <resp>|<resp>|…        (one <resp> per request, in order)
//	   data = <id>:<lo>-<hi>+<lo>-<hi>;…    series <id> (0..9) has a sample at evaluation time t iff lo <= t <= hi for one of
//	                                        its intervals; its value there is v(id,t) = ((t/1000)*(id+1) + id) mod 997
//	   reqs = <start>:<end>:<step>,…        milliseconds, multiples of 1000, start <= end, step > 0
//	   resp = <matrix>#<calls>
//	          matrix = <id>:<t>=<v>,<t>=<v>;<id>:…   series in label order; "-" = empty matrix; "err" = the tripperware failed
//	          calls  = <start>-<end>-<step>,…        the requests the downstream received for this request, sorted ("-" = none):
//	                                                 ties the caching decisions (bypass, partition, reuse), not only the answers
//
//	cache.fresh <B> <splitMs> <poison|-> <data> <reqs>   -> <resp>|<resp>|…   the run-time rules, step align on:
//	   B      = multiple of 60000 in the past; the tripperware runs with MaxCacheFreshness = now - (B + 30000), i.e.
//	            maxCacheTime = B + 30 s for the whole (short) history: requests starting after it bypass the cache,
//	            extents are truncated to it by filterRecentExtents
//	   poison = the downstream answers every (sub-)request whose range contains this timestamp with
//	            "Cache-Control: no-store" (shouldCacheResponse is false for it); "-" = none
//	   reqs   = <start>:<end>:<step>:<loss 0|1|2|3>,…   steps multiples of 60000; before the request the cache loses
//	            nothing / everything / the keys with an even / odd split-interval index
//	   (skipped:slow when the history took more than 20 s of wall clock: the cut-off would have moved)
//
// Oracle: every response equals the direct evaluation of the (step-aligned, when align = 1) request against the
// downstream.  Classes:
//
//	merge-order-drops-samples   samples of the direct answer are missing, nothing is extra or off-grid
//	lower-step-phase-shift      a response has samples at timestamps that are not on the request's grid, and the history
//	                            contains an earlier request with a smaller step dividing this one's (alternative key reuse)
//	align-off-unaligned-requests  align = 0 (query-range.align-range-with-step switched off) and this or an earlier
//	                            request of the history has a start or end that is not a multiple of its step
//	cache-changes-result        anything else
func init() {
	props = append(props, &hlib.Prop{ID: "C42", Gen: genC42, Exec: execC42})
}

type c42Series struct {
	id  int
	ivs [][2]int64
}

func (s c42Series) at(t int64) (float64, bool) {
	for _, iv := range s.ivs {
		if iv[0] <= t && t <= iv[1] {
			return float64(((t/1000)*int64(s.id+1) + int64(s.id)) % 997), true
		}
	}
	return 0, false
}

type c42Req struct{ start, end, step int64 }

func parseC42Data(s string) ([]c42Series, bool) {
	var out []c42Series
	seen := map[int]bool{}
	for _, e := range hlib.Split(s, ";") {
		p := strings.SplitN(e, ":", 2)
		if len(p) != 2 {
			return nil, false
		}
		id, err := strconv.Atoi(p[0])
		if err != nil || id < 0 || id > 9 || seen[id] {
			return nil, false
		}
		seen[id] = true
		sr := c42Series{id: id}
		for _, iv := range hlib.Split(p[1], "+") {
			// lo-hi with non-negative numbers
			q := strings.SplitN(iv, "-", 2)
			if len(q) != 2 {
				return nil, false
			}
			lo, ok1 := atoi64(q[0])
			hi, ok2 := atoi64(q[1])
			if !ok1 || !ok2 || lo < 0 || hi < 0 {
				return nil, false
			}
			sr.ivs = append(sr.ivs, [2]int64{lo, hi})
		}
		out = append(out, sr)
	}
	sort.Slice(out, func(i, j int) bool { return out[i].id < out[j].id })
	return out, true
}

func parseC42Reqs(s string) ([]c42Req, bool) {
	var out []c42Req
	for _, e := range hlib.Split(s, ",") {
		v, ok := ints(strings.Split(e, ":"))
		if !ok || len(v) != 3 || v[0] < 0 || v[1] < v[0] || v[2] <= 0 || v[0]%1000 != 0 || v[1]%1000 != 0 || v[2]%1000 != 0 {
			return nil, false
		}
		out = append(out, c42Req{v[0], v[1], v[2]})
	}
	return out, len(out) > 0
}

// direct evaluates a range query against the data: the matrix in label order.
func c42Direct(data []c42Series, start, end, step int64) []queryrange.SampleStream {
	var res []queryrange.SampleStream
	for _, s := range data {
		var smp []cortexpb.Sample
		for t := start; t <= end; t += step {
			if v, ok := s.at(t); ok {
				smp = append(smp, cortexpb.Sample{TimestampMs: t, Value: v})
			}
		}
		if len(smp) > 0 {
			res = append(res, queryrange.SampleStream{
				Labels:  []cortexpb.LabelAdapter{{Name: "__name__", Value: "m"}, {Name: "s", Value: strconv.Itoa(s.id)}},
				Samples: smp,
			})
		}
	}
	return res
}

func showMatrix(m []queryrange.SampleStream) string {
	var ss []string
	for _, st := range m {
		id := "?"
		for _, l := range st.Labels {
			if l.Name == "s" {
				id = l.Value
			}
		}
		pts := make([]string, len(st.Samples))
		for i, p := range st.Samples {
			pts[i] = fmt.Sprintf("%d=%d", p.TimestampMs, int64(p.Value))
		}
		ss = append(ss, id+":"+hlib.Join(pts, ","))
	}
	return hlib.Join(ss, ";")
}

// c42Downstream is the querier: an http.RoundTripper answering /api/v1/query_range from the data.
type c42Downstream struct {
	data   []c42Series
	mu     sync.Mutex
	calls  int
	poison int64 // -1 = none
	log    []c42Req
}

// takeCalls returns the downstream calls since the last take, sorted (sub-requests run in parallel).
func (d *c42Downstream) takeCalls() string {
	d.mu.Lock()
	l := d.log
	d.log = nil
	d.mu.Unlock()
	sort.Slice(l, func(i, j int) bool {
		if l[i].start != l[j].start {
			return l[i].start < l[j].start
		}
		if l[i].end != l[j].end {
			return l[i].end < l[j].end
		}
		return l[i].step < l[j].step
	})
	ss := make([]string, len(l))
	for i, q := range l {
		ss[i] = fmt.Sprintf("%d-%d-%d", q.start, q.end, q.step)
	}
	return hlib.Join(ss, ",")
}

func (d *c42Downstream) RoundTrip(r *http.Request) (*http.Response, error) {
	body, _ := io.ReadAll(r.Body)
	form, err := url.ParseQuery(string(body))
	if err != nil {
		return nil, err
	}
	sec := func(k string) int64 {
		f, _ := strconv.ParseFloat(form.Get(k), 64)
		return int64(f*1000 + 0.5)
	}
	d.mu.Lock()
	d.calls++
	d.log = append(d.log, c42Req{sec("start"), sec("end"), sec("step")})
	d.mu.Unlock()
	res := &queryrange.PrometheusResponse{Status: "success", Data: queryrange.PrometheusData{
		ResultType: model.ValMatrix.String(), Result: c42Direct(d.data, sec("start"), sec("end"), sec("step"))}}
	if res.Data.Result == nil {
		res.Data.Result = []queryrange.SampleStream{}
	}
	hr, err := queryrange.PrometheusCodec.EncodeResponse(r.Context(), res)
	if err == nil && d.poison >= 0 && sec("start") <= d.poison && d.poison <= sec("end") {
		hr.Header.Set("Cache-Control", "no-store")
	}
	return hr, err
}

// mapCache is an in-memory cortex cache that loses entries only when told to (clear, evictParity).
type mapCache struct {
	mu sync.Mutex
	m  map[string][]byte
}

func (c *mapCache) Store(_ context.Context, keys []string, bufs [][]byte) {
	c.mu.Lock()
	defer c.mu.Unlock()
	for i, k := range keys {
		c.m[k] = append([]byte(nil), bufs[i]...)
	}
}

func (c *mapCache) Fetch(_ context.Context, keys []string) (found []string, bufs [][]byte, missing []string) {
	c.mu.Lock()
	defer c.mu.Unlock()
	for _, k := range keys {
		if b, ok := c.m[k]; ok {
			found = append(found, k)
			bufs = append(bufs, b)
		} else {
			missing = append(missing, k)
		}
	}
	return
}

func (c *mapCache) Stop() {}

func (c *mapCache) clear() {
	c.mu.Lock()
	defer c.mu.Unlock()
	c.m = map[string][]byte{}
}

// evictParity drops the entries whose split-interval index (the bucket of the cache key
// "fe:t:m:<step>:<split>:<bucket>:…" recorded inside the cached value) has the given parity.
func (c *mapCache) evictParity(p int64) (evicted int) {
	c.mu.Lock()
	defer c.mu.Unlock()
	for k, b := range c.m {
		var cr queryrange.CachedResponse
		if err := cr.Unmarshal(b); err != nil {
			panic("verif: cached value does not decode: " + err.Error())
		}
		f := strings.Split(cr.Key, ":")
		if len(f) < 6 {
			panic("verif: unexpected cache key " + cr.Key)
		}
		idx, ok := atoi64(f[5])
		if !ok {
			panic("verif: unexpected cache key " + cr.Key)
		}
		if idx%2 == p {
			delete(c.m, k)
			evicted++
		}
	}
	return
}

func c42Tripper(align bool, splitMs int64, down http.RoundTripper) (http.RoundTripper, error) {
	return c42TripperF(align, splitMs, down, time.Minute, &mapCache{m: map[string][]byte{}})
}

func c42TripperF(align bool, splitMs int64, down http.RoundTripper, fresh time.Duration, mc *mapCache) (http.RoundTripper, error) {
	tpw, err := queryfrontend.NewTripperware(queryfrontend.Config{
		CortexHandlerConfig: &transport.HandlerConfig{},
		QueryRangeConfig: queryfrontend.QueryRangeConfig{
			Limits: &cortexvalidation.Limits{MaxQueryLength: model.Duration(100000 * 24 * time.Hour), MaxQueryParallelism: 14,
				MaxCacheFreshness: model.Duration(fresh)},
			ResultsCacheConfig:     &queryrange.ResultsCacheConfig{CacheConfig: cortexcache.Config{Cache: mc}},
			SplitQueriesByInterval: time.Duration(splitMs) * time.Millisecond,
			AlignRangeWithStep:     align,
		},
	}, nil, log.NewNopLogger())
	if err != nil {
		return nil, err
	}
	return tpw(down), nil
}

func c42Ask(rt http.RoundTripper, codec queryrange.Codec, q c42Req) ([]queryrange.SampleStream, error) {
	ctx := user.InjectOrgID(context.Background(), "t")
	req := &queryfrontend.ThanosQueryRangeRequest{Path: "/api/v1/query_range", Start: q.start, End: q.end, Step: q.step, Query: "m", Dedup: true}
	hr, err := codec.EncodeRequest(ctx, req)
	if err != nil {
		return nil, err
	}
	resp, err := rt.RoundTrip(hr)
	if err != nil {
		return nil, err
	}
	dec, err := codec.DecodeResponse(ctx, resp, req)
	if err != nil {
		return nil, err
	}
	return dec.(*queryrange.PrometheusResponse).Data.Result, nil
}

func execC42Fresh(c *hlib.Ctx, tok []string) string {
	if len(tok) != 6 {
		return "bad-op"
	}
	B, ok1 := atoi64(tok[1])
	splitMs, ok2 := atoi64(tok[2])
	poison := int64(-1)
	ok5 := true
	if tok[3] != "-" {
		poison, ok5 = atoi64(tok[3])
	}
	data, ok3 := parseC42Data(tok[4])
	if !ok1 || !ok2 || !ok3 || !ok5 || B <= 0 || B%60000 != 0 || splitMs <= 0 || splitMs%1000 != 0 || (tok[3] != "-" && poison < 0) {
		return "bad-op"
	}
	var reqs []c42Req
	var flush []int64
	for _, e := range hlib.Split(tok[5], ",") {
		p := strings.Split(e, ":")
		if len(p) != 4 {
			return "bad-op"
		}
		v, ok := ints(p[:3])
		fl, okf := atoi64(p[3])
		if !ok || !okf || fl < 0 || fl > 3 || len(p[3]) != 1 || v[0] < 0 || v[1] < v[0] || v[2] <= 0 || v[0]%1000 != 0 || v[1]%1000 != 0 || v[2]%60000 != 0 {
			return "bad-op"
		}
		reqs = append(reqs, c42Req{v[0], v[1], v[2]})
		flush = append(flush, fl)
	}
	if len(reqs) == 0 {
		return "bad-op"
	}
	t0 := time.Now()
	fresh := t0.Sub(time.UnixMilli(B + 30000))
	if fresh <= 0 {
		return "bad-op" // B must lie in the past
	}
	down := &c42Downstream{data: data, poison: poison}
	mc := &mapCache{m: map[string][]byte{}}
	rt, err := c42TripperF(true, splitMs, down, fresh, mc)
	if err != nil {
		return "err:" + err.Error()
	}
	codec := queryfrontend.NewThanosQueryRangeCodec(false)
	var outs []string
	type bad struct {
		i         int
		got, want string
	}
	var bads []bad
	for i, q := range reqs {
		switch flush[i] {
		case 1:
			mc.clear()
		case 2, 3:
			if mc.evictParity(flush[i]-2) > 0 {
				c.Count("fresh:evicted-some")
			}
		}
		got, err := c42Ask(rt, codec, q)
		calls := down.takeCalls()
		if err != nil {
			outs = append(outs, "err")
			bads = append(bads, bad{i, "error: " + err.Error(), ""})
			continue
		}
		s, e := q.start/q.step*q.step, q.end/q.step*q.step
		gs, ws := showMatrix(got), showMatrix(c42Direct(data, s, e, q.step))
		outs = append(outs, gs+"#"+calls)
		if gs != ws {
			bads = append(bads, bad{i, gs, ws})
		}
	}
	if time.Since(t0) > 20*time.Second {
		c.Count("fresh:skipped-slow")
		return "skipped:slow"
	}
	for _, b := range bads {
		q := reqs[b.i]
		c.Violation("cache-changes-result", fmt.Sprintf("request %d (%d,%d,%d) with maxCacheTime %d: got %s, direct %s", b.i, q.start, q.end, q.step, B+30000, clip(b.got), clip(b.want)))
	}
	c.Count(fmt.Sprintf("fresh:downstream-calls:%s", bucket(down.calls)))
	return strings.Join(outs, "|")
}

func execC42(c *hlib.Ctx, tok []string) string {
	if len(tok) > 0 && tok[0] == "cache.fresh" {
		return execC42Fresh(c, tok)
	}
	if len(tok) != 5 || tok[0] != "cache.hist" {
		return "bad-op"
	}
	align, ok1 := boolTok(tok[1])
	splitMs, ok2 := atoi64(tok[2])
	data, ok3 := parseC42Data(tok[3])
	reqs, ok4 := parseC42Reqs(tok[4])
	if !ok1 || !ok2 || !ok3 || !ok4 || splitMs <= 0 || splitMs%1000 != 0 {
		return "bad-op"
	}
	down := &c42Downstream{data: data, poison: -1}
	rt, err := c42Tripper(align, splitMs, down)
	if err != nil {
		return "err:" + err.Error()
	}
	codec := queryfrontend.NewThanosQueryRangeCodec(false)
	var outs []string
	for i, q := range reqs {
		got, err := c42Ask(rt, codec, q)
		calls := down.takeCalls()
		if err != nil {
			outs = append(outs, "err")
			c.Violation("cache-changes-result", fmt.Sprintf("request %d failed: %v", i, err))
			continue
		}
		s, e := q.start, q.end
		if align {
			s, e = q.start/q.step*q.step, q.end/q.step*q.step
		}
		want := c42Direct(data, s, e, q.step)
		gs, ws := showMatrix(got), showMatrix(want)
		outs = append(outs, gs+"#"+calls)
		if gs != ws {
			class := c42Class(align, reqs, i, s, got, want)
			c.Count("mismatch:align=" + tok[1] + ":" + class)
			// hlib keeps 200 violations per run: the align-off class is hit thousands of times in the thorough
			// tier, so it is reported 15 times per run (every hit is counted above) to leave room for any other class
			if class == "align-off-unaligned-requests" {
				c42AlignOff++
				if c42AlignOff > 15 {
					continue
				}
			}
			c.Violation(class, fmt.Sprintf("request %d (%d,%d,%d): got %s, direct %s", i, q.start, q.end, q.step, clip(gs), clip(ws)))
		}
	}
	c.Count(fmt.Sprintf("downstream-calls:%s", bucket(down.calls)))
	return strings.Join(outs, "|")
}

var c42AlignOff int

func clip(s string) string {
	if len(s) > 300 {
		return s[:300] + "…"
	}
	return s
}

// c42Class names the way a response differs from the direct answer.
func c42Class(align bool, reqs []c42Req, i int, start int64, got, want []queryrange.SampleStream) string {
	q := reqs[i]
	wantSet := map[string]bool{}
	for _, st := range want {
		for _, p := range st.Samples {
			wantSet[fmt.Sprintf("%s/%d=%d", showLabels(st), p.TimestampMs, int64(p.Value))] = true
		}
	}
	extra, offGrid, dup := false, false, false
	seen := map[string]bool{}
	for _, st := range got {
		for _, p := range st.Samples {
			k := fmt.Sprintf("%s/%d=%d", showLabels(st), p.TimestampMs, int64(p.Value))
			if !wantSet[k] {
				extra = true
			}
			if seen[k] {
				dup = true
			}
			seen[k] = true
			if (p.TimestampMs-start)%q.step != 0 {
				offGrid = true
			}
		}
	}
	if !align {
		for _, p := range reqs[:i+1] {
			if p.start%p.step != 0 || p.end%p.step != 0 {
				return "align-off-unaligned-requests"
			}
		}
	}
	switch {
	case offGrid:
		for _, p := range reqs[:i] {
			if p.step < q.step && q.step%p.step == 0 {
				return "lower-step-phase-shift"
			}
		}
		return "cache-changes-result"
	case !extra && !dup:
		return "merge-order-drops-samples"
	}
	return "cache-changes-result"
}

func showLabels(st queryrange.SampleStream) string {
	for _, l := range st.Labels {
		if l.Name == "s" {
			return l.Value
		}
	}
	return "?"
}

// ---------------------------------------------------------------- generator

func genC42(c *hlib.Ctx) {
	r := c.R
	n := c.N(700, 20000)
	for i := 0; i < n; i++ {
		c.Do(genC42Hist(c, r), true)
	}
	n = c.N(300, 8000)
	for i := 0; i < n; i++ {
		c.Do(genC42Fresh(c, r), true)
	}
}

// genC42Fresh: histories around the freshness cut-off B + 30 s (B a few minutes to two hours ago), with an optional
// no-store timestamp, cache flushes and evictions of single keys.
func genC42Fresh(c *hlib.Ctx, r *hlib.Rand) string {
	now := time.Now().UnixMilli()
	B := (now - int64(r.Range(3, 120))*60000) / 60000 * 60000
	split := int64(3600000)
	if r.Chance(1, 5) {
		split = 86400000
	}
	steps := []int64{60000, 120000, 300000, 600000, 900000, 1800000}
	mainStep := steps[r.Intn(len(steps))]
	multi := r.Chance(1, 3)
	span := int64(r.Range(1, 4)) * 3600000
	poison := "-"
	if r.Chance(1, 2) {
		poison = fmt.Sprint(B - r.I64Range(0, span/60000)*60000)
		c.Count("fresh:poison")
	}
	var ds []string
	for _, id := range r.Perm(4)[:r.Range(1, 2)] {
		lo := int64(0)
		if r.Chance(1, 3) {
			lo = B - r.I64Range(0, span/60000)*60000
		}
		ds = append(ds, fmt.Sprintf("%d:%d-%d", id, lo, B+100*3600000))
	}
	sort.Strings(ds)
	var rs []string
	nreq := r.Range(1, 8)
	for k := 0; k < nreq; k++ {
		step := mainStep
		if multi {
			step = steps[r.Intn(len(steps))]
		}
		var s, e int64
		switch r.Intn(5) {
		case 0: // entirely old
			s = B - span + r.I64Range(0, span/step/2)*step
			e = s + r.I64Range(0, span/step/2)*step
			c.Count("fresh:req-old")
		case 1: // straddles the cut-off
			s = B - r.I64Range(0, span/step)*step
			e = B + r.I64Range(0, 20)*step
			c.Count("fresh:req-straddles")
		case 2: // starts inside the fresh zone: bypasses the cache
			s = B + r.I64Range(1, 10)*60000
			e = s + r.I64Range(0, 10)*step
			c.Count("fresh:req-fresh")
		case 3: // ends exactly around the cut-off
			e = B + r.I64Range(-2, 2)*step
			s = e - r.I64Range(0, span/step)*step
			c.Count("fresh:req-ends-at-cutoff")
		default:
			s = B - span + r.I64Range(0, 2*span/step)*step
			e = s + r.I64Range(0, span/step)*step
			c.Count("fresh:req-random")
		}
		if s < 0 {
			s = 0
		}
		if e < s {
			e = s
		}
		if (e-s)/step > 250 {
			e = s + 250*step
		}
		fl := 0
		if r.Chance(1, 8) {
			fl = 1
			c.Count("fresh:flush")
		} else if r.Chance(1, 5) {
			fl = 2 + r.Intn(2)
			c.Count("fresh:evict-parity")
		}
		rs = append(rs, fmt.Sprintf("%d:%d:%d:%d", s, e, step, fl))
	}
	return fmt.Sprintf("cache.fresh %d %d %s %s %s", B, split, poison, strings.Join(ds, ";"), strings.Join(rs, ","))
}

var c42CommonSteps = []int64{60000, 120000, 300000, 600000, 900000, 1800000, 3600000}
var c42OtherSteps = []int64{420000, 1000000, 45000 * 4, 7000 * 60}

func genC42Hist(c *hlib.Ctx, r *hlib.Rand) string {
	align := !r.Chance(1, 8)
	split := int64(3600000)
	if r.Chance(1, 4) {
		split = 86400000
	}
	// window of interest: a few split intervals, far in the past
	base := int64(1600000000000) / split * split
	span := split * int64(r.Range(1, 4))
	if split == 86400000 {
		span = split * int64(r.Range(1, 2))
	}
	// steps of the history: one main step, sometimes others (common steps enable lower-step reuse)
	stepPool := c42CommonSteps
	if split == 86400000 {
		stepPool = []int64{1800000, 3600000, 7200000, 10800000, 21600000, 43200000}
	}
	mainStep := stepPool[r.Intn(len(stepPool))]
	multi := r.Chance(1, 3)
	pickStep := func() int64 {
		if !multi {
			return mainStep
		}
		if r.Chance(1, 6) {
			return c42OtherSteps[r.Intn(len(c42OtherSteps))]
		}
		return stepPool[r.Intn(len(stepPool))]
	}
	if multi {
		c.Count("hist:several-steps")
	} else {
		c.Count("hist:one-step")
	}
	if align {
		c.Count("hist:align")
	} else {
		c.Count("hist:no-align")
	}
	c.Count(fmt.Sprintf("hist:split=%dh", split/3600000))
	// data: 1–3 series with 1–2 presence intervals each, edges on or off the grid
	ns := r.Range(1, 3)
	ids := r.Perm(4)[:ns]
	sort.Ints(ids)
	var ds []string
	for _, id := range ids {
		var ivs []string
		for k := r.Range(1, 2); k > 0; k-- {
			var lo, hi int64
			switch r.Intn(4) {
			case 0: // whole window
				lo, hi = 0, base+10*span
			case 1: // appears inside the window, on a multiple of the main step
				lo = base + r.I64Range(0, span/mainStep)*mainStep
				hi = base + 10*span
			case 2: // disappears inside the window
				lo = 0
				hi = base + r.I64Range(0, span/mainStep)*mainStep
			default:
				lo = base + r.I64Range(0, span/1000)*1000
				hi = lo + r.I64Range(0, span/1000)*1000
			}
			ivs = append(ivs, fmt.Sprintf("%d-%d", lo, hi))
		}
		ds = append(ds, fmt.Sprintf("%d:%s", id, strings.Join(ivs, "+")))
	}
	nreq := r.Range(1, 8)
	c.Count(fmt.Sprintf("hist:len=%d", nreq))
	var rs []string
	var prevS, prevE int64
	for k := 0; k < nreq; k++ {
		step := pickStep()
		var s, e int64
		switch {
		case k > 0 && r.Chance(1, 5): // adjacent / extending the previous request
			s = prevE - int64(r.Intn(3))*step
			if s < base {
				s = base
			}
			e = s + r.I64Range(0, span/step)*step
			c.Count("req:extends-previous")
		case k > 0 && r.Chance(1, 5): // before the previous one (front piece missing)
			e = prevS + int64(r.Intn(3))*step
			s = e - r.I64Range(0, span/step)*step
			if s < base {
				s = base
			}
			if e < s {
				e = s
			}
			c.Count("req:before-previous")
		case r.Chance(1, 10): // tiny
			s = base + r.I64Range(0, span/step)*step
			e = s + int64(r.Intn(3))*step
			c.Count("req:tiny")
		case r.Chance(1, 12):
			s = base + r.I64Range(0, span/step)*step
			e = s
			c.Count("req:start==end")
		default:
			s = base + r.I64Range(0, span/step)*step
			e = s + r.I64Range(0, span/step)*step
			c.Count("req:random")
		}
		if !align || r.Chance(1, 6) { // unaligned as typed by a user (StepAlign fixes it when on)
			s += r.I64Range(0, step/1000-1) * 1000
			e += r.I64Range(0, step/1000-1) * 1000
			if e < s {
				e = s
			}
		}
		if (e-s)/step > 200 {
			e = s + 200*step
		}
		rs = append(rs, fmt.Sprintf("%d:%d:%d", s, e, step))
		prevS, prevE = s, e
	}
	return fmt.Sprintf("cache.hist %s %d %s %s", b01(align), split, strings.Join(ds, ";"), strings.Join(rs, ","))
}
