package main

import (
	"context"
	"fmt"
	"strconv"
	"strings"
	"time"

	"github.com/thanos-io/thanos/internal/cortex/querier/queryrange"
	"github.com/thanos-io/thanos/pkg/queryfrontend"
	"github.com/thanos-io/thanos/verifharness/hlib"
)

// C41 — splitting a query by interval evaluates every step exactly once.
//
// ops (integers are decimal milliseconds; domain: step >= 0, interval >= 0 for split.range and
// interval > 0 for split.labels/split.series — outside of it the Go loops do not terminate and
// both sides answer bad-op):
//
//	split.range  <start> <end> <step> <intervalMs>   -> ok s:e,s:e,… | ok - | panic        splitQuery on a *ThanosQueryRangeRequest
//	split.labels <start> <end> <intervalMs>          -> ok s:e,…     | ok -                splitQuery on a *ThanosLabelsRequest
//	split.series <start> <end> <intervalMs>          -> ok s:e,…     | ok -                splitQuery on a *ThanosSeriesRequest
//	split.nib    <t> <step> <intervalMs>             -> <int> | panic                      nextIntervalBoundary
//	split.align  <start> <end> <step>                -> <start'> <end'> | panic            StepAlignMiddleware
//
// Oracle (independent of the model), for step > 0, interval > 0:
//	range:  the concatenation of the sub-requests' evaluation grids is exactly the grid of the original request
//	        (class steps-mismatch), every sub-request starts a multiple of step away from the original start
//	        (unaligned-subquery), start <= end in every sub-request (empty-subquery), step/query/split interval are
//	        carried over (field-changed);
//	labels/series, start <= end: consecutive sub-ranges, first starts at start, last ends at end, none longer than the
//	        interval (labels-gap / labels-too-long); a point range start == end must still be covered by a sub-request
//	        (labels-point-range-uncovered).

func init() {
	props = append(props, &hlib.Prop{ID: "C41", Gen: genC41, Exec: execC41})
}

func atoi64(s string) (int64, bool) {
	v, err := strconv.ParseInt(s, 10, 64)
	return v, err == nil
}

func ints(tok []string) ([]int64, bool) {
	out := make([]int64, len(tok))
	for i, t := range tok {
		v, ok := atoi64(t)
		if !ok {
			return nil, false
		}
		out[i] = v
	}
	return out, true
}

func showReqs(reqs []queryrange.Request) string {
	ss := make([]string, len(reqs))
	for i, r := range reqs {
		ss[i] = fmt.Sprintf("%d:%d", r.GetStart(), r.GetEnd())
	}
	return "ok " + hlib.Join(ss, ",")
}

func gridOf(start, end, step int64) []int64 {
	var g []int64
	for t := start; t <= end; t += step {
		g = append(g, t)
	}
	return g
}

// Watchdog for every call of splitQuery.  The model proves that the split terminates (C41 theorems), so its answer is
// always a normal split; the real code gets two guards, and a call that trips one is answered `hang` and raises the
// oracle class split-does-not-terminate with the op as failing input:
//  1. a pre-flight that follows splitQuery's loop header with the REAL nextIntervalBoundary (hook) and counts the
//     sub-requests it would produce; more than c41MaxSubs (no generated or corpus op comes near) = does not terminate,
//     and splitQuery is not called (its loop would spin on CPU and allocate without bound);
//  2. the call itself runs in a goroutine with a deadline of c41Deadline; a call that is still running then cannot be
//     stopped, so after reporting it the generator stops issuing ops (c41Runaway) and the run ends with the violation.
const (
	c41MaxSubs  = 1000000
	c41Deadline = 2 * time.Second
)

var c41Runaway bool

func c41RangeSubs(start, end, step int64, interval time.Duration) (n int) {
	defer func() {
		if recover() != nil { // e.g. a zero step or interval: the real call shows the panic
			n = 0
		}
	}()
	if start == end {
		return 1
	}
	for s := start; s < end; s = queryfrontend.VerifNextIntervalBoundary(s, step, interval) + step {
		n++
		if n > c41MaxSubs {
			return n
		}
	}
	return n
}

type c41SplitRes struct {
	reqs  []queryrange.Request
	err   error
	panic any
}

// c41Split is VerifSplitQuery under the watchdog; hang = true when a guard tripped (already reported).
func c41Split(c *hlib.Ctx, orig queryrange.Request, interval time.Duration) (reqs []queryrange.Request, err error, hang bool) {
	if tr, ok := orig.(*queryfrontend.ThanosQueryRangeRequest); ok {
		n := c41RangeSubs(tr.Start, tr.End, tr.Step, interval)
		c.Count("split:subrequests:" + bucket(n))
		if n > c41MaxSubs {
			c.Violation("split-does-not-terminate", fmt.Sprintf("splitQuery(start %d, end %d, step %d, interval %s): following its loop with the real nextIntervalBoundary yields more than %d sub-requests (the start of the next sub-request does not advance)",
				tr.Start, tr.End, tr.Step, interval, c41MaxSubs))
			return nil, nil, true
		}
	}
	done := make(chan c41SplitRes, 1)
	go func() {
		var r c41SplitRes
		defer func() {
			if p := recover(); p != nil {
				r.panic = p
			}
			done <- r
		}()
		r.reqs, r.err = queryfrontend.VerifSplitQuery(orig, interval)
	}()
	select {
	case r := <-done:
		if r.panic != nil {
			panic(r.panic)
		}
		return r.reqs, r.err, false
	case <-time.After(c41Deadline):
		c41Runaway = true
		c.Violation("split-does-not-terminate", fmt.Sprintf("splitQuery(start %d, end %d, step %d, interval %s) has not returned after %s", orig.GetStart(), orig.GetEnd(), orig.GetStep(), interval, c41Deadline))
		return nil, nil, true
	}
}

func execC41(c *hlib.Ctx, tok []string) string {
	if len(tok) == 0 {
		return "bad-op"
	}
	switch tok[0] {
	case "split.range":
		if len(tok) != 5 {
			return "bad-op"
		}
		v, ok := ints(tok[1:])
		if !ok || v[2] < 0 || v[3] < 0 {
			return "bad-op"
		}
		start, end, step, iv := v[0], v[1], v[2], v[3]
		interval := time.Duration(iv) * time.Millisecond
		orig := &queryfrontend.ThanosQueryRangeRequest{Path: "/api/v1/query_range", Start: start, End: end, Step: step,
			Query: "up", Dedup: true, MaxSourceResolution: 1234, LookbackDelta: 77}
		reqs, err, hang := c41Split(c, orig, interval)
		if hang {
			return "hang"
		}
		if err != nil {
			return "err:" + err.Error()
		}
		if step > 0 && iv > 0 {
			var got []int64
			for i, r := range reqs {
				tr, isT := r.(*queryfrontend.ThanosQueryRangeRequest)
				if !isT || tr.Step != step || tr.Query != "up" || tr.SplitInterval != interval || !tr.Dedup ||
					tr.MaxSourceResolution != 1234 || tr.LookbackDelta != 77 || tr.Path != orig.Path {
					c.Violation("field-changed", fmt.Sprintf("sub-request %d does not carry over the original's fields", i))
					continue
				}
				if (tr.Start-start)%step != 0 {
					c.Violation("unaligned-subquery", fmt.Sprintf("sub-request %d starts at %d, not a multiple of step %d away from %d", i, tr.Start, step, start))
				}
				if tr.Start > tr.End {
					c.Violation("empty-subquery", fmt.Sprintf("sub-request %d has start %d > end %d", i, tr.Start, tr.End))
				}
				got = append(got, gridOf(tr.Start, tr.End, step)...)
			}
			want := gridOf(start, end, step)
			same := len(got) == len(want)
			for i := 0; same && i < len(want); i++ {
				same = got[i] == want[i]
			}
			if !same {
				c.Violation("steps-mismatch", fmt.Sprintf("sub-requests evaluate %d timestamps, the original %d (or different ones)", len(got), len(want)))
			}
		}
		return showReqs(reqs)
	case "split.labels", "split.series":
		if len(tok) != 4 {
			return "bad-op"
		}
		v, ok := ints(tok[1:])
		if !ok || v[2] <= 0 {
			return "bad-op"
		}
		start, end, iv := v[0], v[1], v[2]
		interval := time.Duration(iv) * time.Millisecond
		var orig queryrange.Request
		if tok[0] == "split.labels" {
			orig = &queryfrontend.ThanosLabelsRequest{Path: "/api/v1/labels", Start: start, End: end, Label: "x"}
		} else {
			orig = &queryfrontend.ThanosSeriesRequest{Path: "/api/v1/series", Start: start, End: end, Dedup: true}
		}
		reqs, err, hang := c41Split(c, orig, interval)
		if hang {
			return "hang"
		}
		if err != nil {
			return "err:" + err.Error()
		}
		if start <= end {
			if len(reqs) == 0 {
				if start == end {
					c.Violation("labels-point-range-uncovered", fmt.Sprintf("request [%d,%d] is split into no sub-request at all: downstream is never asked", start, end))
				} else {
					c.Violation("labels-gap", "no sub-request for a non-empty range")
				}
			} else {
				if reqs[0].GetStart() != start || reqs[len(reqs)-1].GetEnd() != end {
					c.Violation("labels-gap", "first sub-range does not start at start or last does not end at end")
				}
				for i, r := range reqs {
					if i > 0 && r.GetStart() != reqs[i-1].GetEnd() {
						c.Violation("labels-gap", fmt.Sprintf("sub-range %d starts at %d, previous ends at %d", i, r.GetStart(), reqs[i-1].GetEnd()))
					}
					if r.GetEnd()-r.GetStart() > iv || r.GetEnd() < r.GetStart() {
						c.Violation("labels-too-long", fmt.Sprintf("sub-range %d is [%d,%d], interval %d", i, r.GetStart(), r.GetEnd(), iv))
					}
					if sr, isS := r.(queryfrontend.SplitRequest); !isS || sr.GetSplitInterval() != interval {
						c.Violation("field-changed", "split interval not recorded in the sub-request")
					}
				}
			}
		}
		return showReqs(reqs)
	case "split.nib":
		if len(tok) != 4 {
			return "bad-op"
		}
		v, ok := ints(tok[1:])
		if !ok {
			return "bad-op"
		}
		e := queryfrontend.VerifNextIntervalBoundary(v[0], v[1], time.Duration(v[2])*time.Millisecond)
		if v[1] > 0 && v[2] > 0 {
			if e < v[0] || (e-v[0])%v[1] != 0 {
				c.Violation("nib-not-aligned", fmt.Sprintf("nextIntervalBoundary(%d,%d,%d)=%d is before t or not a multiple of step away", v[0], v[1], v[2], e))
			}
		}
		return fmt.Sprint(e)
	case "split.align":
		if len(tok) != 4 {
			return "bad-op"
		}
		v, ok := ints(tok[1:])
		if !ok {
			return "bad-op"
		}
		var seen queryrange.Request
		h := queryrange.StepAlignMiddleware.Wrap(queryrange.HandlerFunc(func(_ context.Context, r queryrange.Request) (queryrange.Response, error) {
			seen = r
			return nil, nil
		}))
		_, _ = h.Do(context.Background(), &queryfrontend.ThanosQueryRangeRequest{Start: v[0], End: v[1], Step: v[2], Query: "up"})
		if v[2] > 0 && v[0] >= 0 && v[1] >= 0 {
			s, e := seen.GetStart(), seen.GetEnd()
			if s%v[2] != 0 || e%v[2] != 0 || s > v[0] || v[0]-s >= v[2] || e > v[1] || v[1]-e >= v[2] {
				c.Violation("align-wrong", fmt.Sprintf("stepAlign(%d,%d,%d) = (%d,%d)", v[0], v[1], v[2], s, e))
			}
		}
		return fmt.Sprintf("%d %d", seen.GetStart(), seen.GetEnd())
	}
	return "bad-op"
}

const (
	msSecond = int64(1000)
	msMinute = 60 * msSecond
	msHour   = 60 * msMinute
	msDay    = 24 * msHour
)

func genC41(c *hlib.Ctx) {
	r := c.R
	// --- small scope, dense: every branch of the loop with tiny numbers
	n := c.N(1500, 60000)
	for i := 0; i < n && !c41Runaway; i++ {
		start := r.I64Range(-12, 30)
		span := r.I64Range(0, 45)
		step := r.I64Range(1, 8)
		iv := r.I64Range(1, 11)
		if r.Chance(1, 12) {
			span = 0
		}
		doRange(c, start, start+span, step, iv)
	}
	// --- realistic sizes
	steps := []int64{1, 999, msSecond, 15 * msSecond, 30 * msSecond, msMinute, 5 * msMinute, msHour, 2 * msHour, 13 * msHour, 25 * msHour, 7919, 86400001}
	ivs := []int64{msHour, 12 * msHour, msDay, 7 * msDay, 90 * msMinute, 3600001, 30 * msSecond}
	n = c.N(1500, 60000)
	for i := 0; i < n && !c41Runaway; i++ {
		step := steps[r.Intn(len(steps))]
		iv := ivs[r.Intn(len(ivs))]
		var start int64
		switch r.Intn(5) {
		case 0:
			start = 0
		case 1:
			start = r.I64Range(0, 3*msDay)
		case 2:
			start = -r.I64Range(1, 3*msDay)
		default:
			start = 1700000000000 + r.I64Range(0, 30*msDay)
		}
		if r.Bool() { // what StepAlign produces
			start = start / step * step
		}
		var span int64
		switch r.Intn(6) {
		case 0:
			span = 0
		case 1:
			span = r.I64Range(1, step)
		case 2:
			span = step * r.I64Range(1, 40)
		case 3:
			span = iv*r.I64Range(1, 6) + r.I64Range(0, iv)
		case 4:
			span = iv * r.I64Range(1, 4)
		default:
			span = r.I64Range(0, 10*msDay)
		}
		// the codec admits at most 11000 points per series; the harness stays below 12000 evaluations
		// and below 3000 sub-requests per op
		if span/step > 12000 {
			span = step * r.I64Range(0, 11000)
		}
		if span/iv > 3000 {
			span = iv * r.I64Range(0, 3000)
			if span/step > 12000 {
				span = step * r.I64Range(0, 11000)
			}
		}
		doRange(c, start, start+span, step, iv)
	}
	// --- labels / series
	n = c.N(1200, 40000)
	for i := 0; i < n && !c41Runaway; i++ {
		op := "split.labels"
		if r.Bool() {
			op = "split.series"
		}
		var start, span, iv int64
		if r.Bool() {
			start, span, iv = r.I64Range(-10, 30), r.I64Range(0, 40), r.I64Range(1, 12)
		} else {
			iv = ivs[r.Intn(len(ivs))]
			start = 1700000000000 + r.I64Range(0, 30*msDay)
			span = r.I64Range(0, 40*iv)
			if r.Chance(1, 4) {
				span = iv * r.I64Range(0, 9)
			}
		}
		if r.Chance(1, 10) {
			span = 0
		}
		switch {
		case span == 0:
			c.Count("labels:start==end")
		case span%iv == 0:
			c.Count("labels:whole-intervals")
		case span < iv:
			c.Count("labels:shorter-than-interval")
		default:
			c.Count("labels:ragged")
		}
		out := c.Do(fmt.Sprintf("%s %d %d %d", op, start, start+span, iv), true)
		c.Count("labels:subreqs:" + bucket(strings.Count(out, ":")))
	}
	// --- nextIntervalBoundary and stepAlign on their own, plus the malformed stream
	n = c.N(1500, 50000)
	for i := 0; i < n && !c41Runaway; i++ {
		if r.Bool() {
			c.Do(fmt.Sprintf("split.nib %d %d %d", r.I64Range(-40, 60), r.I64Range(1, 9), r.I64Range(1, 12)), true)
		} else {
			c.Do(fmt.Sprintf("split.nib %d %d %d", 1700000000000+r.I64Range(-40*msDay, 40*msDay), steps[r.Intn(len(steps))], ivs[r.Intn(len(ivs))]), true)
		}
		c.Count("nib")
		if r.Bool() {
			c.Do(fmt.Sprintf("split.align %d %d %d", r.I64Range(-30, 60), r.I64Range(-30, 90), r.I64Range(1, 9)), true)
		} else {
			s := 1700000000000 + r.I64Range(0, 40*msDay)
			c.Do(fmt.Sprintf("split.align %d %d %d", s, s+r.I64Range(0, 9*msDay), steps[r.Intn(len(steps))]), true)
		}
		c.Count("align")
	}
	n = c.N(300, 5000)
	for i := 0; i < n && !c41Runaway; i++ {
		switch r.Intn(6) {
		case 0: // end before start: no sub-request, nothing evaluated
			s := r.I64Range(-20, 50)
			c.Count("malformed:end<start")
			c.Do(fmt.Sprintf("split.range %d %d %d %d", s, s-r.I64Range(1, 30), r.I64Range(1, 6), r.I64Range(1, 9)), true)
		case 1: // step 0: integer divide by zero unless start == end
			s := r.I64Range(-20, 50)
			c.Count("malformed:step=0")
			c.Do(fmt.Sprintf("split.range %d %d 0 %d", s, s+r.I64Range(0, 3), r.I64Range(1, 9)), true)
		case 2: // interval 0
			s := r.I64Range(-20, 50)
			c.Count("malformed:interval=0")
			c.Do(fmt.Sprintf("split.range %d %d %d 0", s, s+r.I64Range(0, 3), r.I64Range(1, 6)), true)
		case 3:
			c.Count("malformed:nib-zero")
			c.Do(fmt.Sprintf("split.nib %d %d %d", r.I64Range(-5, 5), r.I64Range(0, 1), r.I64Range(0, 1)), true)
		case 4:
			c.Count("malformed:align-step-0")
			c.Do(fmt.Sprintf("split.align %d %d 0", r.I64Range(-5, 5), r.I64Range(0, 9)), true)
		default:
			s := r.I64Range(-20, 50)
			c.Count("malformed:labels-end<start")
			c.Do(fmt.Sprintf("split.labels %d %d %d", s, s-r.I64Range(1, 30), r.I64Range(1, 9)), true)
		}
	}
}

func bucket(n int) string {
	switch {
	case n == 0:
		return "0"
	case n == 1:
		return "1"
	case n <= 5:
		return "2-5"
	case n <= 50:
		return "6-50"
	}
	return ">50"
}

func doRange(c *hlib.Ctx, start, end, step, iv int64) {
	switch {
	case start == end:
		c.Count("range:start==end")
	case end-start < step:
		c.Count("range:single-step")
	}
	if step > iv {
		c.Count("range:step>interval")
	} else if iv%step != 0 {
		c.Count("range:step-does-not-divide-interval")
	}
	if start%step != 0 {
		c.Count("range:unaligned-start")
	}
	if start < 0 {
		c.Count("range:negative-start")
	}
	if (end-start)%step != 0 {
		c.Count("range:end-off-grid")
	}
	out := c.Do(fmt.Sprintf("split.range %d %d %d %d", start, end, step, iv), true)
	c.Count("range:subreqs:" + bucket(strings.Count(out, ":")))
}
