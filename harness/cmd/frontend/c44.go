package main

import (
	"context"
	"fmt"
	"math"
	"sort"
	"strconv"
	"strings"
	"sync"
	"time"

	"github.com/cespare/xxhash/v2"
	"github.com/prometheus/prometheus/model/histogram"
	"github.com/prometheus/prometheus/model/labels"
	"github.com/prometheus/prometheus/promql"
	"github.com/prometheus/prometheus/storage"
	"github.com/prometheus/prometheus/tsdb/chunkenc"
	"github.com/prometheus/prometheus/tsdb/chunks"
	"github.com/prometheus/prometheus/util/annotations"
	"github.com/weaveworks/common/user"

	"github.com/thanos-io/thanos/internal/cortex/cortexpb"
	"github.com/thanos-io/thanos/internal/cortex/querier/queryrange"
	cortexvalidation "github.com/thanos-io/thanos/internal/cortex/util/validation"
	"github.com/thanos-io/thanos/pkg/extpromql"
	"github.com/thanos-io/thanos/pkg/queryfrontend"
	"github.com/thanos-io/thanos/pkg/querysharding"
	"github.com/thanos-io/thanos/pkg/store/storepb"
	"github.com/thanos-io/thanos/verifharness/hlib"
)

// C44 — sharded query execution returns the unsharded result.
//
// Expression trees are written in prefix form, one token per field (strings hex, lists hex,hex or -):
//
//	E = sel <selectorText>                                   vector selector (matchers do not matter to the analyzer)
//	  | mat <selectorText> <rangeText>                       matrix selector  m[5m]
//	  | num <integer>                                        number literal
//	  | str <text>                                           string literal
//	  | par E                                                ( E )
//	  | sub E <rangeText>                                    subquery  E[1m:15s]
//	  | agg <op> <by|without|none> <labels> <hasParam 0|1> [E] E        sum by (a) (E), topk by (a) (E, E) …
//	  | bin <op> <on|ignoring|none> <labels> <none|left|right> <include labels> <bool 0|1> E E
//	  | call <name> <nargs> E…
//
//	shard.analyze E                      -> none | by:<l,l> | without:<l,l> | err      QueryAnalyzer.Analyze on the rendered text;
//	                                        labels hex, sorted; "none" = not shardable (IsShardable() == false)
//	shard.match <total> <by 0|1> <shardLabels> <series l=v,l=v (hex=hex)> <hash>
//	                                     -> <indices of the shards whose ShardMatcher accepts the series, comma separated>
//	                                        hash = xxhash of the projection buffer name 0xff value 0xff … (third-party: an input)
//	o.shard.eval <numShards> <query> <series;series…  labels(l=v,l=v):base:slope>
//	                                     -> same | differs | notsharded | skipped:<why>
//	                                        the real PromQLShardingMiddleware (Analyze, shardQuery, MergeResponse) in front of a
//	                                        promql.Engine over in-memory series filtered by the real ShardMatcher, against the
//	                                        same engine unsharded
//
// Oracle: shard.match: exactly one shard accepts a series.  o.shard.eval: when the analyzer shards the query the merged
// result must equal the unsharded one (floats up to 1e-9 relative).  Classes:
//
//	metric-name-not-tracked              sharded result differs, the analyzer's labels are not name-safe (__name__ among "by"
//	                                     labels, or missing from "without" labels, although the engine drops the metric name
//	                                     in without-aggregations, histogram_quantile and most functions), and sharding by the
//	                                     name-safe variant of the same labels is exact or disables sharding
//	(results that depend on the ORDER of the input series — topk/bottomk ties — are skipped: the unsharded answer is not a
//	function of the series set there)
//	sharded-result-differs               anything else
//	shard-not-partition                  a series accepted by no shard or by several
func init() {
	props = append(props, &hlib.Prop{ID: "C44", Gen: genC44, Exec: execC44})
}

// ---------------------------------------------------------------- expression trees

type xnode struct {
	kind    string // sel mat num str par sub agg bin call
	text    string // selector text, number, string, op / function name
	rng     string
	mode    string   // agg: by|without|none   bin: on|ignoring|none
	labels  []string // grouping / matching labels
	card    string   // bin: none|left|right
	include []string
	boolMod bool
	kids    []*xnode
}

func (n *xnode) render() string {
	switch n.kind {
	case "sel":
		return n.text
	case "mat":
		return n.text + "[" + n.rng + "]"
	case "num":
		return n.text
	case "str":
		return strconv.Quote(n.text)
	case "par":
		return "(" + n.kids[0].render() + ")"
	case "sub":
		return "(" + n.kids[0].render() + ")[" + n.rng + "]"
	case "agg":
		g := ""
		if n.mode != "none" {
			g = " " + n.mode + " (" + strings.Join(n.labels, ", ") + ")"
		}
		args := make([]string, len(n.kids))
		for i, k := range n.kids {
			args[i] = k.render()
		}
		return n.text + g + " (" + strings.Join(args, ", ") + ")"
	case "bin":
		m := ""
		if n.boolMod {
			m += " bool"
		}
		if n.mode != "none" {
			m += " " + n.mode + " (" + strings.Join(n.labels, ", ") + ")"
		}
		if n.card != "none" {
			m += " group_" + n.card + " (" + strings.Join(n.include, ", ") + ")"
		}
		return "(" + n.kids[0].render() + ") " + n.text + m + " (" + n.kids[1].render() + ")"
	case "call":
		args := make([]string, len(n.kids))
		for i, k := range n.kids {
			args[i] = k.render()
		}
		return n.text + "(" + strings.Join(args, ", ") + ")"
	}
	return "?"
}

func (n *xnode) encode() string {
	switch n.kind {
	case "sel", "num", "str":
		return n.kind + " " + hlib.HexS(n.text)
	case "mat":
		return "mat " + hlib.HexS(n.text) + " " + hlib.HexS(n.rng)
	case "par":
		return "par " + n.kids[0].encode()
	case "sub":
		return "sub " + n.kids[0].encode() + " " + hlib.HexS(n.rng)
	case "agg":
		s := fmt.Sprintf("agg %s %s %s %d", hlib.HexS(n.text), n.mode, hexJoin(n.labels, ","), len(n.kids)-1)
		for _, k := range n.kids {
			s += " " + k.encode()
		}
		return s
	case "bin":
		return fmt.Sprintf("bin %s %s %s %s %s %s %s %s", hlib.HexS(n.text), n.mode, hexJoin(n.labels, ","), n.card, hexJoin(n.include, ","),
			b01(n.boolMod), n.kids[0].encode(), n.kids[1].encode())
	case "call":
		s := fmt.Sprintf("call %s %d", hlib.HexS(n.text), len(n.kids))
		for _, k := range n.kids {
			s += " " + k.encode()
		}
		return s
	}
	return "?"
}

// parseX parses a prefix-form tree; returns the node and the remaining tokens.
func parseX(tok []string) (*xnode, []string, bool) {
	if len(tok) == 0 {
		return nil, nil, false
	}
	k, rest := tok[0], tok[1:]
	need := func(n int) bool { return len(rest) >= n }
	switch k {
	case "sel", "num", "str":
		if !need(1) {
			return nil, nil, false
		}
		t, ok := unhexTok(rest[0])
		return &xnode{kind: k, text: t}, rest[1:], ok
	case "mat":
		if !need(2) {
			return nil, nil, false
		}
		t, ok1 := unhexTok(rest[0])
		r, ok2 := unhexTok(rest[1])
		return &xnode{kind: k, text: t, rng: r}, rest[2:], ok1 && ok2
	case "par":
		c, r, ok := parseX(rest)
		return &xnode{kind: k, kids: []*xnode{c}}, r, ok
	case "sub":
		c, r, ok := parseX(rest)
		if !ok || len(r) < 1 {
			return nil, nil, false
		}
		g, ok2 := unhexTok(r[0])
		return &xnode{kind: k, kids: []*xnode{c}, rng: g}, r[1:], ok2
	case "agg":
		if !need(4) {
			return nil, nil, false
		}
		op, ok1 := unhexTok(rest[0])
		ls, ok2 := hexList(rest[2], ",")
		np, err := strconv.Atoi(rest[3])
		if !ok1 || !ok2 || err != nil || np < 0 || np > 1 || (rest[1] != "by" && rest[1] != "without" && rest[1] != "none") {
			return nil, nil, false
		}
		n := &xnode{kind: k, text: op, mode: rest[1], labels: ls}
		r := rest[4:]
		for i := 0; i < np+1; i++ {
			c, r2, ok := parseX(r)
			if !ok {
				return nil, nil, false
			}
			n.kids = append(n.kids, c)
			r = r2
		}
		return n, r, true
	case "bin":
		if !need(6) {
			return nil, nil, false
		}
		op, ok1 := unhexTok(rest[0])
		ls, ok2 := hexList(rest[2], ",")
		inc, ok3 := hexList(rest[4], ",")
		bm, ok4 := boolTok(rest[5])
		if !ok1 || !ok2 || !ok3 || !ok4 || (rest[1] != "on" && rest[1] != "ignoring" && rest[1] != "none") ||
			(rest[3] != "none" && rest[3] != "left" && rest[3] != "right") {
			return nil, nil, false
		}
		n := &xnode{kind: k, text: op, mode: rest[1], labels: ls, card: rest[3], include: inc, boolMod: bm}
		l, r1, okl := parseX(rest[6:])
		if !okl {
			return nil, nil, false
		}
		rr, r2, okr := parseX(r1)
		if !okr {
			return nil, nil, false
		}
		n.kids = []*xnode{l, rr}
		return n, r2, true
	case "call":
		if !need(2) {
			return nil, nil, false
		}
		name, ok1 := unhexTok(rest[0])
		na, err := strconv.Atoi(rest[1])
		if !ok1 || err != nil || na < 0 || na > 6 {
			return nil, nil, false
		}
		n := &xnode{kind: k, text: name}
		r := rest[2:]
		for i := 0; i < na; i++ {
			c, r2, ok := parseX(r)
			if !ok {
				return nil, nil, false
			}
			n.kids = append(n.kids, c)
			r = r2
		}
		return n, r, true
	}
	return nil, nil, false
}

func (n *xnode) walk(f func(*xnode)) {
	f(n)
	for _, k := range n.kids {
		k.walk(f)
	}
}

// ---------------------------------------------------------------- in-memory storage + engine

type fsample struct {
	t int64
	f float64
}

func (s fsample) T() int64                      { return s.t }
func (s fsample) F() float64                    { return s.f }
func (s fsample) H() *histogram.Histogram       { return nil }
func (s fsample) FH() *histogram.FloatHistogram { return nil }
func (s fsample) Type() chunkenc.ValueType      { return chunkenc.ValFloat }
func (s fsample) Copy() chunks.Sample           { return s }

type memSeries struct {
	lset    labels.Labels
	samples []chunks.Sample
}

type memStore struct {
	series []memSeries
	shard  *storepb.ShardInfo
	pool   *sync.Pool
	seen   map[string]bool // metric names of the series selected (unsharded run)
	mu     sync.Mutex
}

func (m *memStore) Querier(mint, maxt int64) (storage.Querier, error) { return memQuerier{m}, nil }

type memQuerier struct{ m *memStore }

func (q memQuerier) Close() error { return nil }
func (q memQuerier) LabelValues(context.Context, string, *storage.LabelHints, ...*labels.Matcher) ([]string, annotations.Annotations, error) {
	return nil, nil, nil
}
func (q memQuerier) LabelNames(context.Context, *storage.LabelHints, ...*labels.Matcher) ([]string, annotations.Annotations, error) {
	return nil, nil, nil
}

func (q memQuerier) Select(_ context.Context, _ bool, _ *storage.SelectHints, ms ...*labels.Matcher) storage.SeriesSet {
	var out []storage.Series
	sm := q.m.shard.Matcher(q.m.pool)
	defer sm.Close()
	for _, s := range q.m.series {
		ok := true
		for _, m := range ms {
			if !m.Matches(s.lset.Get(m.Name)) {
				ok = false
				break
			}
		}
		if !ok || !sm.MatchesLabels(s.lset) {
			continue
		}
		if q.m.seen != nil {
			q.m.mu.Lock()
			q.m.seen[s.lset.Get(labels.MetricName)] = true
			q.m.mu.Unlock()
		}
		out = append(out, storage.NewListSeries(s.lset, s.samples))
	}
	return &listSeriesSet{s: out, i: -1}
}

type listSeriesSet struct {
	s []storage.Series
	i int
}

func (l *listSeriesSet) Next() bool                        { l.i++; return l.i < len(l.s) }
func (l *listSeriesSet) At() storage.Series                { return l.s[l.i] }
func (l *listSeriesSet) Err() error                        { return nil }
func (l *listSeriesSet) Warnings() annotations.Annotations { return nil }

var c44Engine = promql.NewEngine(promql.EngineOpts{MaxSamples: 5_000_000, Timeout: 20 * time.Second, LookbackDelta: 5 * time.Minute,
	EnableAtModifier: true, EnableNegativeOffset: true})

var c44Pool = &sync.Pool{New: func() any { b := make([]byte, 0, 128); return &b }}

const (
	c44Start = int64(120_000)
	c44End   = int64(240_000)
	c44Step  = int64(60_000)
)

func c44Eval(series []memSeries, shard *storepb.ShardInfo, query string, seen map[string]bool) ([]queryrange.SampleStream, error) {
	st := &memStore{series: series, shard: shard, pool: c44Pool, seen: seen}
	q, err := c44Engine.NewRangeQuery(context.Background(), st, nil, query, time.UnixMilli(c44Start), time.UnixMilli(c44End), time.Duration(c44Step)*time.Millisecond)
	if err != nil {
		return nil, err
	}
	defer q.Close()
	res := q.Exec(context.Background())
	if res.Err != nil {
		return nil, res.Err
	}
	m, err := res.Matrix()
	if err != nil {
		return nil, err
	}
	out := make([]queryrange.SampleStream, 0, len(m))
	for _, s := range m {
		ss := queryrange.SampleStream{Labels: cortexpb.FromLabelsToLabelAdapters(s.Metric)}
		for _, p := range s.Floats {
			ss.Samples = append(ss.Samples, cortexpb.Sample{TimestampMs: p.T, Value: p.F})
		}
		out = append(out, ss)
	}
	return out, nil
}

func canonMatrix(m []queryrange.SampleStream) map[string][]cortexpb.Sample {
	out := map[string][]cortexpb.Sample{}
	for _, s := range m {
		k := cortexpb.FromLabelAdaptersToLabels(s.Labels).String()
		out[k] = append(out[k], s.Samples...)
	}
	return out
}

func sameMatrix(a, b []queryrange.SampleStream) (bool, string) {
	ca, cb := canonMatrix(a), canonMatrix(b)
	for k, sa := range ca {
		sb, ok := cb[k]
		if !ok {
			return false, "series " + k + " only in the unsharded result"
		}
		if len(sa) != len(sb) {
			return false, fmt.Sprintf("series %s: %d samples unsharded, %d sharded", k, len(sa), len(sb))
		}
		for i := range sa {
			x, y := sa[i].Value, sb[i].Value
			if sa[i].TimestampMs != sb[i].TimestampMs || !(x == y || (math.IsNaN(x) && math.IsNaN(y)) || math.Abs(x-y) <= 1e-9*math.Max(math.Abs(x), math.Abs(y))) {
				return false, fmt.Sprintf("series %s at %d: unsharded %v, sharded %v", k, sa[i].TimestampMs, x, y)
			}
		}
	}
	for k := range cb {
		if _, ok := ca[k]; !ok {
			return false, "series " + k + " only in the sharded result"
		}
	}
	return true, ""
}

// parseC44Series: labels(l=v,l=v hex=hex):base:slope ; …   value at t = base + slope*(t/15000), samples every 15 s in [0, 300 s]
func parseC44Series(tok string) ([]memSeries, bool) {
	var out []memSeries
	for _, e := range hlib.Split(tok, ";") {
		p := strings.Split(e, ":")
		if len(p) != 3 {
			return nil, false
		}
		lset, ok := parseLset(p[0])
		bs, ok2 := ints(p[1:])
		if !ok || !ok2 {
			return nil, false
		}
		var smp []chunks.Sample
		for t := int64(0); t <= 300_000; t += 15_000 {
			smp = append(smp, fsample{t: t, f: float64(bs[0] + bs[1]*(t/15_000))})
		}
		out = append(out, memSeries{lset: lset, samples: smp})
	}
	sort.Slice(out, func(i, j int) bool { return labels.Compare(out[i].lset, out[j].lset) < 0 })
	return out, true
}

func parseLset(tok string) (labels.Labels, bool) {
	b := labels.NewBuilder(labels.EmptyLabels())
	for _, kv := range hlib.Split(tok, ",") {
		p := strings.Split(kv, "=")
		if len(p) != 2 {
			return labels.EmptyLabels(), false
		}
		k, ok1 := unhexTok(p[0])
		v, ok2 := unhexTok(p[1])
		if !ok1 || !ok2 {
			return labels.EmptyLabels(), false
		}
		b.Set(k, v)
	}
	return b.Labels(), true
}

var c44Limits, _ = cortexvalidation.NewOverrides(cortexvalidation.Limits{MaxQueryParallelism: 8}, nil)

func showAnalysis(a querysharding.QueryAnalysis) string {
	if !a.IsShardable() {
		return "none"
	}
	var ls []string
	seen := map[string]bool{}
	for _, l := range a.ShardingLabels() {
		if !seen[l] {
			seen[l] = true
			ls = append(ls, l)
		}
	}
	sort.Strings(ls)
	m := "without"
	if a.ShardBy() {
		m = "by"
	}
	return m + ":" + hexJoin(ls, ",")
}

func execC44(c *hlib.Ctx, tok []string) string {
	if len(tok) == 0 {
		return "bad-op"
	}
	switch tok[0] {
	case "shard.analyze":
		n, rest, ok := parseX(tok[1:])
		if !ok || len(rest) != 0 {
			return "bad-op"
		}
		a, err := (&querysharding.QueryAnalyzer{}).Analyze(n.render())
		if err != nil {
			return "err"
		}
		return showAnalysis(a)
	case "shard.match":
		if len(tok) != 6 {
			return "bad-op"
		}
		total, ok1 := atoi64(tok[1])
		by, ok2 := boolTok(tok[2])
		sl, ok3 := hexList(tok[3], ",")
		lset, ok4 := parseLset(tok[4])
		h, err := strconv.ParseUint(tok[5], 10, 64)
		if !ok1 || !ok2 || !ok3 || !ok4 || err != nil || total < 1 || total > 64 {
			return "bad-op"
		}
		// the hash in the line must be the hash of the projection (it is an input of the model)
		if h != xxhash.Sum64(projection(lset, sl, by)) {
			return "bad-op"
		}
		var hit []string
		for i := int64(0); i < total; i++ {
			si := &storepb.ShardInfo{TotalShards: total, ShardIndex: i, By: by, Labels: sl}
			m := si.Matcher(c44Pool)
			if m.MatchesLabels(lset) {
				hit = append(hit, fmt.Sprint(i))
			}
			m.Close()
		}
		if len(hit) != 1 {
			c.Violation("shard-not-partition", fmt.Sprintf("series %s is accepted by %d of %d shards", lset, len(hit), total))
		}
		return hlib.Join(hit, ",")
	case "o.shard.eval":
		if len(tok) != 4 {
			return "bad-op"
		}
		ns, ok1 := atoi64(tok[1])
		query, ok2 := unhexTok(tok[2])
		series, ok3 := parseC44Series(tok[3])
		if !ok1 || !ok2 || !ok3 || ns < 1 || ns > 16 {
			return "bad-op"
		}
		return c44E2E(c, int(ns), query, series)
	}
	return "bad-op"
}

func projection(lset labels.Labels, shardLabels []string, by bool) []byte {
	set := map[string]bool{}
	for _, l := range shardLabels {
		set[l] = true
	}
	var buf []byte
	lset.Range(func(l labels.Label) {
		if set[l.Name] == by {
			buf = append(buf, l.Name...)
			buf = append(buf, 0xff)
			buf = append(buf, l.Value...)
			buf = append(buf, 0xff)
		}
	})
	return buf
}

func c44E2E(c *hlib.Ctx, ns int, query string, series []memSeries) string {
	if _, err := extpromql.ParseExpr(query); err != nil {
		c.Count("e2e:parse-error")
		return "skipped:parse"
	}
	seen := map[string]bool{}
	want, err := c44Eval(series, nil, query, seen)
	if err != nil {
		c.Count("e2e:unsharded-eval-error")
		return "skipped:eval"
	}
	analyzer := querysharding.NewQueryAnalyzer()
	an, aerr := analyzer.Analyze(query)
	sharded := aerr == nil && an.IsShardable()
	var shardErr error
	var mu sync.Mutex
	calls := 0
	next := queryrange.HandlerFunc(func(_ context.Context, r queryrange.Request) (queryrange.Response, error) {
		tr := r.(*queryfrontend.ThanosQueryRangeRequest)
		mu.Lock()
		calls++
		mu.Unlock()
		m, err := c44Eval(series, tr.ShardInfo, tr.Query, nil)
		if err != nil {
			mu.Lock()
			shardErr = err
			mu.Unlock()
			return nil, err
		}
		return &queryrange.PrometheusResponse{Status: "success", Data: queryrange.PrometheusData{ResultType: "matrix", Result: m}}, nil
	})
	codec := queryfrontend.NewThanosQueryRangeCodec(false)
	h := queryfrontend.PromQLShardingMiddleware(analyzer, ns, c44Limits, codec, nil).Wrap(next)
	ctx := user.InjectOrgID(context.Background(), "t")
	resp, err := h.Do(ctx, &queryfrontend.ThanosQueryRangeRequest{Path: "/api/v1/query_range", Query: query, Start: c44Start, End: c44End, Step: c44Step, Dedup: true})
	if !sharded {
		c.Count("e2e:not-sharded")
		if calls != 1 {
			c.Violation("sharded-result-differs", fmt.Sprintf("query %q is not shardable but %d downstream requests were made", query, calls))
		}
		return "notsharded"
	}
	if calls != ns {
		c.Violation("sharded-result-differs", fmt.Sprintf("query %q: %d downstream requests for %d shards", query, calls, ns))
	}
	mode := "without"
	if an.ShardBy() {
		mode = "by"
	}
	c.Count("e2e:sharded-" + mode)
	if len(want) > 0 {
		c.Count("e2e:sharded-nonempty-result")
	}
	got := []queryrange.SampleStream(nil)
	if err == nil {
		got = resp.(*queryrange.PrometheusResponse).Data.Result
		if ok, _ := sameMatrix(want, got); ok {
			return "same"
		}
	}
	// The results differ.  First make sure the unsharded answer is a function of the series SET: topk/bottomk and
	// friends break ties by input order, which differs between a shard and the whole.
	// (ties are also broken differently from run to run, so several orders are tried, unsharded and sharded.)
	qh := xxhash.Sum64String(query)
	for k := 0; k < 5; k++ {
		perm := hlib.NewRand(qh + uint64(k)).Perm(len(series))
		sh := make([]memSeries, len(series))
		for i, j := range perm {
			sh[i] = series[j]
			if k == 0 {
				sh[i] = series[len(series)-1-i]
			}
		}
		want2, err2 := c44Eval(sh, nil, query, nil)
		if err2 == nil {
			if ok, _ := sameMatrix(want, want2); ok {
				if !strings.Contains(query, "topk") && !strings.Contains(query, "bottomk") {
					continue // only topk/bottomk break ties arbitrarily; elsewhere an unstable sharded result is a finding
				}
				if got2, err3 := c44Manual(sh, query, ns, an.ShardBy(), an.ShardingLabels()); err3 == nil && err == nil {
					if ok2, _ := sameMatrix(got, got2); ok2 {
						continue
					}
				} else if (err3 != nil) == (err != nil) {
					continue
				}
			}
		}
		c.Count("e2e:order-dependent")
		return "skipped:order-dependent"
	}
	why := ""
	if err != nil {
		why = fmt.Sprintf("fails sharded: %v (%v)", err, shardErr)
	} else {
		_, why = sameMatrix(want, got)
	}
	class := c44Diagnose(series, want, ns, query, an)
	c.Count("differs:" + class)
	// hlib keeps 200 violations per run; the known class is hit hundreds of times in the thorough tier, so it is reported
	// 40 times per run (all hits are counted above) to leave room for any other class
	if class == "metric-name-not-tracked" {
		c44NameHits++
		if c44NameHits > 40 {
			return "differs"
		}
	}
	c.Violation(class, fmt.Sprintf("query %q sharded %d ways (%s %v): %s", query, ns, mode, an.ShardingLabels(), why))
	return "differs"
}

var c44NameHits int

// c44Manual shards by the given labels and merges with the real MergeResponse.
func c44Manual(series []memSeries, query string, ns int, by bool, ls []string) ([]queryrange.SampleStream, error) {
	var resps []queryrange.Response
	for i := 0; i < ns; i++ {
		m, err := c44Eval(series, &storepb.ShardInfo{TotalShards: int64(ns), ShardIndex: int64(i), By: by, Labels: ls}, query, nil)
		if err != nil {
			return nil, err
		}
		resps = append(resps, &queryrange.PrometheusResponse{Status: "success", Data: queryrange.PrometheusData{ResultType: "matrix", Result: m}})
	}
	r, err := queryfrontend.NewThanosQueryRangeCodec(false).MergeResponse(nil, resps...)
	if err != nil {
		return nil, err
	}
	return r.(*queryrange.PrometheusResponse).Data.Result, nil
}

// c44Diagnose names the cause of a wrong sharded result.  The analyzer does not track where the engine drops the metric
// name ("without" aggregations, histogram_quantile, most functions and arithmetic): a sharding is name-safe when __name__ is
// not among "by" labels and is among "without" labels (the hypothesis NameSafe of the Lean theorem C44_sound).  If the
// analysis of this query is not name-safe and the name-safe variant of its labels shards exactly (or not at all), the class
// is metric-name-not-tracked.
func c44Diagnose(series []memSeries, want []queryrange.SampleStream, ns int, query string, an querysharding.QueryAnalysis) string {
	ls, by := an.ShardingLabels(), an.ShardBy()
	hasName := false
	var safe []string
	for _, l := range ls {
		if l == labels.MetricName {
			hasName = true
			if by {
				continue
			}
		}
		safe = append(safe, l)
	}
	if by == hasName { // by ∧ name ∈ K, or without ∧ name ∉ K: not name-safe
		if !by {
			safe = append(safe, labels.MetricName)
		}
		if len(safe) == 0 {
			return "metric-name-not-tracked" // name-safe labels are empty: the query would not be sharded
		}
		if got, err := c44Manual(series, query, ns, by, safe); err == nil {
			if ok, _ := sameMatrix(want, got); ok {
				return "metric-name-not-tracked"
			}
		}
	}
	return "sharded-result-differs"
}

// ---------------------------------------------------------------- generator

var (
	c44LabelPool = []string{"a", "b", "pod", "le", "dst"}
	c44Selectors = []string{"m0", "m1", "m0", `m0{a="1"}`, `m1{b=~"x|y"}`, `{__name__=~"m0|m1"}`, `{__name__=~"m.+", a!="3"}`, "h_bucket", `h_bucket{a="1"}`}
)

func pickLabels(r *hlib.Rand, pool []string, max int) []string {
	n := r.Intn(max + 1)
	p := r.Perm(len(pool))
	var out []string
	for i := 0; i < n && i < len(p); i++ {
		out = append(out, pool[p[i]])
	}
	return out
}

func sel(t string) *xnode               { return &xnode{kind: "sel", text: t} }
func num(v int) *xnode                  { return &xnode{kind: "num", text: strconv.Itoa(v)} }
func str(s string) *xnode               { return &xnode{kind: "str", text: s} }
func call(f string, a ...*xnode) *xnode { return &xnode{kind: "call", text: f, kids: a} }

func genVec(c *hlib.Ctx, depth int) *xnode {
	r := c.R
	if depth <= 0 || r.Chance(1, 5) {
		c.Count("node:selector")
		return sel(r.Pick(c44Selectors))
	}
	switch k := r.Intn(20); {
	case k < 7: // aggregation
		ops := []string{"sum", "sum", "sum", "min", "max", "count", "avg", "group", "stddev", "topk", "bottomk", "quantile", "count_values"}
		op := ops[r.Intn(len(ops))]
		n := &xnode{kind: "agg", text: op, mode: []string{"by", "by", "without", "none"}[r.Intn(4)]}
		if n.mode != "none" {
			pool := c44LabelPool
			if r.Chance(1, 6) {
				pool = append(append([]string(nil), c44LabelPool...), "__name__")
			}
			n.labels = pickLabels(r, pool, 3)
		}
		switch op {
		case "topk", "bottomk":
			n.kids = append(n.kids, num(r.Range(1, 2)))
		case "quantile":
			n.kids = append(n.kids, &xnode{kind: "num", text: "0.5"})
		case "count_values":
			n.kids = append(n.kids, str(r.Pick([]string{"dst", "a", "v"})))
		}
		n.kids = append(n.kids, genVec(c, depth-1))
		c.Count("node:agg-" + n.mode)
		return n
	case k < 12: // vector/vector binary
		ops := []string{"+", "-", "*", "/", ">", "<", "==", "!=", "and", "or", "unless"}
		op := ops[r.Intn(len(ops))]
		n := &xnode{kind: "bin", text: op, mode: []string{"none", "on", "on", "ignoring"}[r.Intn(4)], card: "none"}
		if n.mode != "none" {
			n.labels = pickLabels(r, c44LabelPool, 2)
		}
		set := op == "and" || op == "or" || op == "unless"
		if !set && n.mode != "none" && r.Chance(1, 3) {
			n.card = r.Pick([]string{"left", "right"})
			n.include = pickLabels(r, []string{"pod", "b"}, 1)
		}
		if !set && (op == ">" || op == "<" || op == "==" || op == "!=") && r.Chance(1, 3) {
			n.boolMod = true
		}
		n.kids = []*xnode{genVec(c, depth-1), genVec(c, depth-1)}
		c.Count("node:bin-" + n.mode + "-" + n.card)
		return n
	case k < 14: // vector/scalar
		n := &xnode{kind: "bin", text: r.Pick([]string{"+", "*", ">", "/"}), mode: "none", card: "none"}
		n.kids = []*xnode{genVec(c, depth-1), num(r.Range(1, 5))}
		c.Count("node:bin-scalar")
		return n
	case k < 15:
		c.Count("node:label_replace")
		return call("label_replace", genVec(c, depth-1), str(r.Pick([]string{"dst", "a", "b"})), str("$1"), str(r.Pick([]string{"a", "pod"})), str("(.*)"))
	case k < 16:
		c.Count("node:label_join")
		return call("label_join", genVec(c, depth-1), str(r.Pick([]string{"dst", "a"})), str("-"), str("a"), str("b"))
	case k < 17:
		c.Count("node:histogram_quantile")
		inner := genVec(c, depth-1)
		if r.Bool() {
			inner = &xnode{kind: "agg", text: "sum", mode: r.Pick([]string{"by", "without"}), labels: nil, kids: []*xnode{sel("h_bucket")}}
			if inner.mode == "by" {
				inner.labels = append([]string{"le"}, pickLabels(r, []string{"a", "b"}, 2)...)
			} else {
				inner.labels = pickLabels(r, []string{"a", "b", "pod"}, 2)
			}
		}
		return call("histogram_quantile", &xnode{kind: "num", text: "0.9"}, inner)
	case k < 18:
		f := r.Pick([]string{"abs", "ceil", "sort", "timestamp", "absent", "vector-scalar", "clamp_min"})
		c.Count("node:call-" + f)
		switch f {
		case "vector-scalar":
			return call("vector", call("scalar", genVec(c, depth-1)))
		case "clamp_min":
			return call("clamp_min", genVec(c, depth-1), num(1))
		}
		return call(f, genVec(c, depth-1))
	case k < 19:
		c.Count("node:range-function")
		if r.Bool() {
			return call(r.Pick([]string{"rate", "increase", "max_over_time", "sum_over_time"}), &xnode{kind: "mat", text: r.Pick(c44Selectors), rng: "1m"})
		}
		return call(r.Pick([]string{"max_over_time", "avg_over_time"}), &xnode{kind: "sub", rng: "1m:15s", kids: []*xnode{genVec(c, depth-1)}})
	default:
		c.Count("node:paren")
		return &xnode{kind: "par", kids: []*xnode{genVec(c, depth-1)}}
	}
}

type gSeries struct {
	lset        [][2]string
	base, slope int64
}

func genC44Data(r *hlib.Rand) string {
	var ss []string
	add := func(kv [][2]string, base, slope int64) {
		p := make([]string, len(kv))
		for i, x := range kv {
			p[i] = hlib.HexS(x[0]) + "=" + hlib.HexS(x[1])
		}
		ss = append(ss, fmt.Sprintf("%s:%d:%d", strings.Join(p, ","), base, slope))
	}
	nser := 0
	for _, name := range []string{"m0", "m1"} {
		for _, a := range []string{"1", "2", "3"} {
			for _, b := range []string{"x", "y"} {
				for _, pod := range []string{"p1", "p2"} {
					if r.Chance(1, 3) {
						continue
					}
					kv := [][2]string{{"__name__", name}, {"a", a}, {"b", b}}
					if r.Chance(3, 4) {
						kv = append(kv, [2]string{"pod", pod})
					} else if pod == "p2" {
						continue
					}
					nser++
					add(kv, int64(100*nser+r.Range(0, 9)), int64(r.Range(0, 4))) // values of different series never tie
				}
			}
		}
	}
	for _, a := range []string{"1", "2"} {
		for _, b := range []string{"x", "y"} {
			if r.Chance(1, 4) {
				continue
			}
			cum := int64(0)
			sl := int64(0)
			for _, le := range []string{"0.1", "1", "+Inf"} {
				cum += int64(r.Range(0, 20))
				sl += int64(r.Range(0, 3))
				add([][2]string{{"__name__", "h_bucket"}, {"a", a}, {"b", b}, {"le", le}}, cum, sl)
			}
		}
	}
	return strings.Join(ss, ";")
}

func genC44(c *hlib.Ctx) {
	r := c.R
	n := c.N(4000, 60000)
	for i := 0; i < n; i++ {
		e := genVec(c, r.Range(1, 3))
		if _, err := extpromql.ParseExpr(e.render()); err != nil {
			c.Count("gen:unparsable-skipped") // the model has no parser: only well-formed queries are compared
			continue
		}
		c.Do("shard.analyze "+e.encode(), true)
		if i%4 != 3 {
			c.Do(fmt.Sprintf("o.shard.eval %d %s %s", r.Range(1, 5), hlib.HexS(e.render()), genC44Data(r)), true)
		}
	}
	// the shard function on its own
	n = c.N(1500, 40000)
	for i := 0; i < n; i++ {
		kv := [][2]string{{"__name__", r.Pick([]string{"m0", "m1", "h_bucket"})}}
		for _, l := range []string{"a", "b", "le", "pod"} {
			if r.Bool() {
				kv = append(kv, [2]string{l, r.Pick([]string{"1", "2", "x", "+Inf", ""})})
			}
		}
		p := make([]string, len(kv))
		b := labels.NewBuilder(labels.EmptyLabels())
		for j, x := range kv {
			p[j] = hlib.HexS(x[0]) + "=" + hlib.HexS(x[1])
			b.Set(x[0], x[1])
		}
		sl := pickLabels(r, []string{"a", "b", "le", "pod", "__name__", "zz"}, 3)
		by := r.Bool()
		c.Count(fmt.Sprintf("match:by=%v", by))
		c.Do(fmt.Sprintf("shard.match %d %s %s %s %d", r.Range(1, 7), b01(by), hexJoin(sl, ","), strings.Join(p, ","), xxhash.Sum64(projection(b.Labels(), sl, by))), true)
	}
}
