// C01, the series-SET level: dedup.NewSeriesSet over SEVERAL input series.  Which input series are
// grouped as replicas of which output series is decided by dedupSeriesSet.Next/next.
//
//	ds.run <f> <replicaLabels> <series>
//	   replicaLabels = name,name,… | -    removed from every input series by the harness, as the
//	                                      stores / the proxy do before the set sees the series
//	   series = S|S|…    S = <labels>@<samples>     labels = k=v,k=v,… (any order, names distinct) | -
//	   answer = O|O|…    O = <labels>@<trace of Next until ValNone>, in output order; - = no series
//
// Label names [A-Za-z_][A-Za-z0-9_]*, values [A-Za-z0-9_]+.
package main

import (
	"fmt"
	"sort"
	"strings"

	"github.com/prometheus/prometheus/model/labels"
	"github.com/prometheus/prometheus/storage"
	"github.com/prometheus/prometheus/tsdb/chunks"

	"github.com/thanos-io/thanos/pkg/dedup"
	"github.com/thanos-io/thanos/verifharness/hlib"
)

type inSeries struct {
	ls []tLbl // as written in the op
	s  []smp
}

func okWide(s string) bool {
	if s == "" {
		return false
	}
	for _, ch := range s {
		if (ch >= 'a' && ch <= 'z') || (ch >= 'A' && ch <= 'Z') || (ch >= '0' && ch <= '9') || ch == '_' {
			continue
		}
		return false
	}
	return true
}

func parseInSeries(s string) ([]inSeries, bool) {
	var out []inSeries
	for _, x := range strings.Split(s, "|") {
		q := strings.Split(x, "@")
		if len(q) != 2 {
			return nil, false
		}
		var in inSeries
		if q[0] != "-" {
			names := map[string]bool{}
			for _, y := range strings.Split(q[0], ",") {
				p := strings.Split(y, "=")
				if len(p) != 2 || !okWide(p[0]) || !okWide(p[1]) || names[p[0]] || (p[0][0] >= '0' && p[0][0] <= '9') {
					return nil, false
				}
				names[p[0]] = true
				in.ls = append(in.ls, tLbl{p[0], p[1]})
			}
		}
		sm, ok := parseReplica(q[1])
		if !ok {
			return nil, false
		}
		in.s = sm
		out = append(out, in)
	}
	return out, true
}

func fmtInSeries(ss []inSeries) string {
	p := make([]string, len(ss))
	for i, s := range ss {
		p[i] = fmtLbls(s.ls) + "@" + fmtReplica(s.s)
	}
	return strings.Join(p, "|")
}

// stripped is the label set under which an input series reaches the set: without the replica
// labels, sorted by name; key is its rendering (the oracle compares label sets as these strings).
func stripped(ls []tLbl, rl map[string]bool) (labels.Labels, string) {
	var keep []tLbl
	for _, l := range ls {
		if !rl[l.k] {
			keep = append(keep, l)
		}
	}
	sort.Slice(keep, func(i, j int) bool { return keep[i].k < keep[j].k })
	var kv []string
	for _, l := range keep {
		kv = append(kv, l.k, l.v)
	}
	return labels.FromStrings(kv...), fmtLbls(keep)
}

type setOut struct {
	key string
	tr  []obs
}

func runSet(f string, rl map[string]bool, in []inSeries) (out []setOut, mm bool, panicked bool) {
	defer func() {
		if r := recover(); r != nil {
			out, panicked = nil, true
		}
	}()
	var series []storage.Series
	total := 0
	for _, s := range in {
		lset, _ := stripped(s.ls, rl)
		ss := make([]chunks.Sample, len(s.s))
		for i, x := range s.s {
			ss[i] = fsample{t: x.t, f: float64(x.v)}
		}
		total += len(s.s)
		series = append(series, storage.NewListSeries(lset, ss))
	}
	set := dedup.NewSeriesSet(&sliceSeriesSet{series: series}, f, dedup.AlgorithmPenalty)
	for set.Next() {
		s := set.At()
		var ls []tLbl
		s.Labels().Range(func(l labels.Label) { ls = append(ls, tLbl{l.Name, l.Value}) })
		tr, m := runCalls(s.Iterator(nil), []call{{kind: 'd'}}, total+2)
		mm = mm || m
		out = append(out, setOut{key: fmtLbls(ls), tr: tr})
	}
	return out, mm, false
}

func execC01Set(c *hlib.Ctx, tok []string) string {
	if len(tok) != 4 {
		return "bad-op"
	}
	in, ok := parseInSeries(tok[3])
	if !ok {
		return "bad-op"
	}
	rl := map[string]bool{}
	if tok[2] != "-" {
		for _, n := range strings.Split(tok[2], ",") {
			if !okWide(n) {
				return "bad-op"
			}
			rl[n] = true
		}
	}
	f := fnArg(tok[1])
	out, mm, panicked := runSet(f, rl, in)
	if panicked {
		c.Violation("panic", "the series set panics")
		return "panic"
	}
	if mm {
		c.Violation("att-mismatch", "AtT() differs from the timestamp of At()")
	}
	oracleSet(c, f, rl, in, out)
	if len(out) == 0 {
		return "-"
	}
	p := make([]string, len(out))
	for i, o := range out {
		p[i] = o.key + "@" + fmtTrace(o.tr)
	}
	return strings.Join(p, "|")
}

// oracleSet: one output series per run of adjacent input series with equal label sets (replica
// labels removed), each being the merge of exactly its own replicas.
func oracleSet(c *hlib.Ctx, f string, rl map[string]bool, in []inSeries, out []setOut) {
	type grp struct {
		key  string
		reps [][]smp
	}
	var want []grp
	for _, s := range in {
		_, k := stripped(s.ls, rl)
		if n := len(want); n > 0 && want[n-1].key == k {
			want[n-1].reps = append(want[n-1].reps, s.s)
		} else {
			want = append(want, grp{key: k, reps: [][]smp{s.s}})
		}
	}
	if len(out) != len(want) {
		c.Violation("set-grouping", fmt.Sprintf("%d output series, the input has %d runs of adjacent series with equal label sets", len(out), len(want)))
		return
	}
	// contiguous input (what sorted input guarantees) ⇒ pairwise different output label sets
	seenIn, contiguous := map[string]bool{}, true
	for _, g := range want {
		if seenIn[g.key] {
			contiguous = false
		}
		seenIn[g.key] = true
	}
	seenOut := map[string]bool{}
	for i, o := range out {
		g := want[i]
		if o.key != g.key {
			c.Violation("set-grouping", fmt.Sprintf("output series %d is {%s}, run %d of the input is {%s}", i, o.key, i, g.key))
			return
		}
		if contiguous && seenOut[o.key] {
			c.Violation("set-duplicate-labelset", fmt.Sprintf("the label set {%s} is returned twice", o.key))
		}
		seenOut[o.key] = true
		if !sortedReplicas(g.reps) || isCounterFn(f) {
			continue
		}
		var d []smp
		for _, ob := range o.tr {
			switch ob.kind {
			case 's':
				d = append(d, ob.s)
			case 'p':
				c.Violation("panic", fmt.Sprintf("series {%s}: reading with Next panics", o.key))
			}
		}
		have := map[smp]bool{}
		for _, r := range g.reps {
			for _, x := range r {
				have[x] = true
			}
		}
		for k, x := range d {
			if !have[x] {
				c.Violation("set-provenance", fmt.Sprintf("series {%s}: sample %s is held by none of ITS replicas", o.key, fmtSmp(x)))
				break
			}
			if k > 0 && d[k].t <= d[k-1].t {
				c.Violation("order", fmt.Sprintf("series {%s}: %d after %d", o.key, d[k].t, d[k-1].t))
				break
			}
		}
		if len(g.reps) == 1 && !sameSamples(d, g.reps[0]) {
			c.Violation("set-single-changed", fmt.Sprintf("series {%s} has a single replica and does not come out unchanged", o.key))
		}
	}
}

// ---------------------------------------------------------------- generator

// known pairs of DIFFERENT label sets with the same labels.Labels.Hash() (Prometheus TSDB tests,
// github.com/pstibrany/labels_hash_collisions): the first pair collides with -tags slicelabels
// (what the harness is built with), the second with the default labels implementation
var collidingPairs = [][2][]tLbl{
	{{{"__name__", "metric"}, {"lbl1", "value"}, {"lbl2", "l6CQ5y"}}, {{"__name__", "metric"}, {"lbl1", "value"}, {"lbl2", "v7uDlF"}}},
	{{{"__name__", "metric"}, {"lbl", "HFnEaGl"}}, {{"__name__", "metric"}, {"lbl", "RqcXatm"}}},
}

func genC01Set(c *hlib.Ctx) {
	r := c.R
	n := budget(c, 1200, 12000)
	for i := 0; i < n; i++ {
		nlog := r.Range(1, 6)
		// distinct logical label sets
		var sets [][]tLbl
		seen := map[string]bool{}
		add := func(ls []tLbl) {
			cp := append([]tLbl(nil), ls...)
			sort.Slice(cp, func(a, b int) bool { return cp[a].k < cp[b].k })
			if k := fmtLbls(cp); !seen[k] {
				seen[k] = true
				sets = append(sets, cp)
			}
		}
		collide := r.Chance(1, 3)
		if collide {
			p := collidingPairs[pickInt(r, 0, 0, 0, 1)]
			add(p[0])
			add(p[1])
			c.Count("set:label-sets:hash-colliding-pair")
		}
		for len(sets) < nlog {
			base := []tLbl{{"__name__", "metric"}, {"job", fmt.Sprintf("j%d", r.Intn(3))}}
			switch r.Intn(5) {
			case 0: // one label value differs
				base[1].v = fmt.Sprintf("j%d", r.Intn(6))
				c.Count("set:label-sets:one-value-differs")
			case 1: // one more label
				base = append(base, tLbl{"instance", fmt.Sprintf("i%d", r.Intn(3))})
				c.Count("set:label-sets:one-more-label")
			case 2: // a different label name with the same value
				base[1].k = []string{"job", "jobs", "Job", "jo"}[r.Intn(4)]
				c.Count("set:label-sets:one-name-differs")
			case 3: // near the colliding sets
				base = []tLbl{{"__name__", "metric"}, {"lbl1", "value"}, {"lbl2", []string{"l6CQ5y", "l6CQ5z", "v7uDlF", "v7uDlG", "m"}[r.Intn(5)]}}
				c.Count("set:label-sets:near-colliding")
			default:
				base = []tLbl{{"__name__", []string{"metric", "metrics", "up"}[r.Intn(3)]}}
				c.Count("set:label-sets:name-only")
			}
			add(base)
		}
		// input order: sorted by label set (what the set expects) — replicas adjacent
		sort.Slice(sets, func(a, b int) bool {
			la, _ := stripped(sets[a], nil)
			lb, _ := stripped(sets[b], nil)
			return labels.Compare(la, lb) < 0
		})
		repLabel := []string{"replica", "prometheus_replica", "a_replica"}[r.Intn(3)]
		withRep := !r.Chance(1, 6)
		var in []inSeries
		interval := []int64{1000, 15000, 30000}[r.Intn(3)]
		start := r.I64Range(1, 1_000_000)
		for li, ls := range sets {
			nrep := r.Range(1, 4)
			if !withRep {
				nrep = 1 // without a replica label two copies would be the same input series
			}
			c.Count(fmt.Sprintf("set:replicas:%d", nrep))
			for ri := 0; ri < nrep; ri++ {
				var s []smp
				t := start + r.I64Range(0, interval-1)
				for k, m := 0, r.Range(0, 12); k < m; k++ {
					s = append(s, smp{t, int64(li*100000 + ri*1000 + k)})
					t += interval + r.I64Range(0, interval/20)
					if r.Chance(1, 10) {
						t += interval * r.I64Range(1, 4)
					}
				}
				full := append([]tLbl(nil), ls...)
				if withRep {
					full = append(full, tLbl{repLabel, fmt.Sprintf("r%d", ri)})
				}
				if r.Chance(1, 4) { // the order in which labels are written does not matter
					sh := make([]tLbl, len(full))
					for a, b := range r.Perm(len(full)) {
						sh[a] = full[b]
					}
					full = sh
					c.Count("set:labels-written-in-another-order")
				}
				in = append(in, inSeries{ls: full, s: s})
			}
		}
		if r.Chance(1, 12) && len(in) > 2 { // unsorted input: adjacent runs are still the groups
			a, b := r.Intn(len(in)), r.Intn(len(in))
			in[a], in[b] = in[b], in[a]
			c.Count("set:input:two-series-swapped")
		} else {
			c.Count("set:input:sorted")
		}
		c.Count(fmt.Sprintf("set:logical-series:%d", len(sets)))
		rls := "-"
		if withRep {
			rls = repLabel
			if r.Chance(1, 4) {
				rls += ",ghost"
			}
		}
		f := pickNonCounter(c)
		if r.Chance(1, 8) {
			f = counterNames()[r.Intn(4)]
		}
		out := c.Do(fmt.Sprintf("ds.run %s %s %s", f, rls, fmtInSeries(in)), true)
		if strings.Count(out, "|")+1 < len(in) {
			c.Count("set:answer:some-replicas-grouped")
		}
	}
}
