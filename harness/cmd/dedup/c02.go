package main

// C02 — counter deduplication never fabricates counter resets.
//
// ops:
//   dd.run <f> <replicas> <calls>        f ∈ {rate, irate, increase, resets}   (see common.go)
//   o.ddf.run <f> <replicas> <calls>     oracle-only: values are arbitrary decimal float64 (t:v with
//                                        v like 12.625); the Int model cannot represent them
//
// Oracle (on the real iterator, independent of the model), for replicas whose values never
// decrease:
//   counter-decrease        the values of a Next-only read decrease somewhere
//   counter-decrease-seek   the values observed by the script (Seek/Next mix) decrease somewhere
//   counter-time-order      the timestamps observed by the script go back
//   panic                   the code panicked before the iterator was exhausted
// Fractional stream: a decrease of at most 2 ulp of the larger value is the rounding of
// `v + (last - v)` (counted as fractional:ulp-decrease, not a violation); anything larger is
// counter-decrease-fractional.

import (
	"fmt"
	"math"
	"strconv"
	"strings"

	"github.com/prometheus/prometheus/model/labels"
	"github.com/prometheus/prometheus/storage"
	"github.com/prometheus/prometheus/tsdb/chunkenc"
	"github.com/prometheus/prometheus/tsdb/chunks"

	"github.com/thanos-io/thanos/pkg/dedup"
	"github.com/thanos-io/thanos/verifharness/hlib"
)

func init() {
	props = append(props, &hlib.Prop{ID: "C02", Gen: genC02, Exec: execC02})
}

var c02Funcs = counterNames() // rate, irate, increase, resets: every name of the universe the specification calls a counter function

func monotoneReplicas(reps [][]smp) bool {
	for _, r := range reps {
		for i := 1; i < len(r); i++ {
			if r[i].v < r[i-1].v {
				return false
			}
		}
	}
	return true
}

func execC02(c *hlib.Ctx, tok []string) string {
	return guarded(c, func() string { return execC02Body(c, tok) })
}

func execC02Body(c *hlib.Ctx, tok []string) string {
	if len(tok) != 4 {
		return "bad-op"
	}
	if tok[0] == "o.ddf.run" {
		return execC02Frac(c, tok)
	}
	if tok[0] != "dd.run" {
		return "bad-op"
	}
	reps, ok1 := parseReplicas(tok[2])
	calls, ok2 := parseCalls(tok[3])
	if !ok1 || !ok2 {
		return "bad-op"
	}
	f := fnArg(tok[1])
	tr, mm := runCalls(newDedupIter(f, reps), calls, totalLen(reps)+2)
	if mm {
		c.Violation("att-mismatch", "AtT() differs from the timestamp of At()")
	}
	if sortedReplicas(reps) && !isCounterFn(f) {
		// the other side of the classification: no counter function, no adjustment — every observed
		// sample is held (timestamp and value) by a replica
		have := map[smp]bool{}
		for _, rp := range reps {
			for _, x := range rp {
				have[x] = true
			}
		}
		for _, o := range tr {
			if o.kind == 's' && (o.raw != "" || !have[o.s]) {
				c.Violation("non-counter-adjusted", fmt.Sprintf("function %q is no counter function, but the returned sample %s is held by no replica (counter adjustment applied)", f, fmtSmp(o.s)))
				break
			}
		}
	}
	if !sortedReplicas(reps) || !monotoneReplicas(reps) || !isCounterFn(f) {
		return fmtTrace(tr) // outside the domain of the C02 monotonicity oracle (recorded only)
	}
	// Next-only read of a fresh iterator
	d, dp := reference(f, reps)
	if dp {
		c.Violation("panic", "reading the series with Next only panics")
	}
	for i := 1; i < len(d); i++ {
		if d[i].v < d[i-1].v {
			c.Violation("counter-decrease", fmt.Sprintf("Next-only read decreases from %s to %s although every replica is monotone", fmtSmp(d[i-1]), fmtSmp(d[i])))
			break
		}
	}
	// the script's own observations
	var prev *smp
	exhausted := false
	for i, o := range tr {
		switch o.kind {
		case 'x':
			exhausted = true
		case 'p':
			if !exhausted {
				c.Violation("panic", fmt.Sprintf("call %d panics before the iterator is exhausted", i+1))
			}
		case 's':
			if prev != nil && !exhausted {
				s := o.s
				if s.v < prev.v {
					c.Violation("counter-decrease-seek", fmt.Sprintf("observation %d: value decreases from %s to %s", i+1, fmtSmp(*prev), fmtSmp(s)))
				}
				if s.t < prev.t { // a Seek to a time ≤ the current sample legitimately stays where it is
					c.Violation("counter-time-order", fmt.Sprintf("observation %d: time goes back from %d to %d", i+1, prev.t, s.t))
				}
			}
			s := o.s
			prev = &s
		}
	}
	return fmtTrace(tr)
}

// ---------------------------------------------------------------- fractional stream (oracle only)

type fsmp struct {
	t int64
	v float64
}

func execC02Frac(c *hlib.Ctx, tok []string) string {
	var reps [][]fsmp
	for _, rs := range strings.Split(tok[2], ";") {
		var r []fsmp
		if rs != "e" {
			for _, x := range strings.Split(rs, ",") {
				p := strings.Split(x, ":")
				if len(p) != 2 {
					return "bad-op"
				}
				t, err1 := strconv.ParseInt(p[0], 10, 64)
				v, err2 := strconv.ParseFloat(p[1], 64)
				if err1 != nil || err2 != nil {
					return "bad-op"
				}
				r = append(r, fsmp{t, v})
			}
		}
		reps = append(reps, r)
	}
	calls, ok := parseCalls(tok[3])
	if !ok {
		return "bad-op"
	}
	lset := labels.FromStrings("a", "1")
	var series []storage.Series
	n := 0
	for _, r := range reps {
		ss := make([]chunks.Sample, len(r))
		for i, s := range r {
			ss[i] = fsample{t: s.t, f: s.v}
		}
		n += len(r)
		series = append(series, storage.NewListSeries(lset, ss))
	}
	set := dedup.NewSeriesSet(&sliceSeriesSet{series: series}, fnArg(tok[1]), dedup.AlgorithmPenalty)
	if !set.Next() {
		return "bad-op"
	}
	it := set.At().Iterator(nil)
	var out []string
	have := false
	var last float64
	emit := func(vt chunkenc.ValueType) bool {
		if vt == chunkenc.ValNone {
			out = append(out, "x")
			return false
		}
		t, v := it.At()
		out = append(out, fmt.Sprintf("%d:%s", t, strconv.FormatFloat(v, 'g', -1, 64)))
		if have && v < last {
			ulp := math.Nextafter(last, math.Inf(1)) - last
			if last-v <= 2*ulp {
				c.Count("fractional:ulp-decrease")
			} else {
				c.Violation("counter-decrease-fractional", fmt.Sprintf("value decreases from %v to %v (more than 2 ulp)", last, v))
			}
		}
		have, last = true, v
		return true
	}
	for _, cl := range calls {
		switch cl.kind {
		case 'n':
			if !emit(it.Next()) {
				return strings.Join(out, ",")
			}
		case 's':
			if !emit(it.Seek(cl.t)) {
				return strings.Join(out, ",")
			}
		case 'd':
			for i := 0; i <= n+1; i++ {
				if !emit(it.Next()) {
					break
				}
			}
			return strings.Join(out, ",")
		}
	}
	return strings.Join(out, ",")
}

// ---------------------------------------------------------------- generator

func genC02(c *hlib.Ctx) {
	r := c.R
	n := budget(c, 6000, 60000)
	for i := 0; i < n; i++ {
		l := genLayout(c, true)
		c.Count(fmt.Sprintf("replicas:%d", len(l.reps)))
		f := c02Funcs[r.Intn(len(c02Funcs))]
		c.Count("func:" + f)
		// independent start values: a replica that restarted later counts from a lower base
		for ri := range l.reps {
			if r.Chance(1, 3) {
				d := r.I64Range(0, 5000)
				for si := range l.reps[ri] {
					l.reps[ri][si].v += d
				}
			}
		}
		scripts := 1 + r.Intn(2)
		for k := 0; k < scripts; k++ {
			var cs []call
			if r.Chance(1, 2) {
				c.Count("script:drain")
				cs = []call{{kind: 'd'}}
			} else {
				cs = genScript(c, l.reps)
			}
			out := c.Do(fmt.Sprintf("dd.run %s %s %s", f, fmtReplicas(l.reps), fmtCalls(cs)), nontrivialLayout(l.reps))
			if nontrivialLayout(l.reps) && adjusted(l.reps, out) {
				c.Count("answer:some-value-adjusted")
			}
		}
	}
	// the other side of the classification boundary (recorded and compared with the model, judged by
	// C02's second clause below): counter-shaped replicas read under a NON-counter function name
	// must come out unadjusted — every observed sample is held by a replica
	for i := 0; i < budget(c, 600, 6000); i++ {
		l := genLayout(c, true)
		for ri := range l.reps {
			if r.Chance(1, 2) {
				d := r.I64Range(0, 5000)
				for si := range l.reps[ri] {
					l.reps[ri][si].v += d
				}
			}
		}
		all := nonCounterNames()
		f := all[r.Intn(len(all))]
		if r.Chance(1, 2) {
			f = []string{"xrate", "xincrease", "xdelta", "delta", "idelta", "deriv", "none"}[r.Intn(7)]
		}
		c.Count("boundary:non-counter-name:" + funcClass(f))
		line := fmt.Sprintf("dd.run %s %s d", f, fmtReplicas(l.reps))
		c.Do(line, nontrivialLayout(l.reps))
	}
	// fractional stream (oracle only)
	for i := 0; i < budget(c, 1500, 20000); i++ {
		l := genLayout(c, true)
		var reps []string
		for _, rep := range l.reps {
			if len(rep) == 0 {
				reps = append(reps, "e")
				continue
			}
			scale := []float64{0.1, 1.0 / 3, 0.7, 1e-3, 12345.678}[r.Intn(5)]
			var ss []string
			for _, s := range rep {
				ss = append(ss, fmt.Sprintf("%d:%s", s.t, strconv.FormatFloat(float64(s.v)*scale, 'g', -1, 64)))
			}
			reps = append(reps, strings.Join(ss, ","))
		}
		c.Count("fractional:cases")
		c.Do(fmt.Sprintf("o.ddf.run %s %s d", c02Funcs[r.Intn(len(c02Funcs))], strings.Join(reps, ";")), false)
	}
}

// adjusted reports whether some observed sample is held by no replica, i.e. errAdjust was
// applied (the interesting branch of C02).
func adjusted(reps [][]smp, out string) bool {
	have := map[string]bool{}
	for _, r := range reps {
		for _, s := range r {
			have[fmtSmp(s)] = true
		}
	}
	for _, o := range strings.Split(out, ",") {
		if o != "x" && o != "panic" && o != "-" && !have[o] {
			return true
		}
	}
	return false
}
