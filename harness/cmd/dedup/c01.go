package main

// C01 — penalty replica deduplication yields a well-formed merge of replica samples.
//
// op: dd.run (see common.go), here with non-counter functions only.
//
// Oracle (independent of the Lean model; all on the real iterator):
//   D := samples of a fresh iterator read with Next only
//   order              D's timestamps strictly increase
//   provenance         every sample of D is a sample (same t and v) of some replica
//   single-changed     one replica        ⇒ D = that replica
//   identical-changed  identical replicas ⇒ D = that replica
//   seek-before-next   the script starts with Seek and its trace is not the position semantics over D
//                      (Next = one step in D; Seek t = stay if the current sample has t' ≥ t, else
//                      first later sample of D with t' ≥ t) — the F01 class
//   seek-suffix        same, for scripts that start with Next
//   att-mismatch       AtT() differs from At()'s timestamp after a successful call
//   panic              the code panicked although the iterator had not been exhausted
// Calls issued after the iterator returned ValNone are outside the contract and not judged.

import (
	"fmt"
	"sort"
	"strings"

	"github.com/thanos-io/thanos/verifharness/hlib"
)

func init() {
	props = append(props, &hlib.Prop{ID: "C01", Gen: genC01, Exec: execC01})
}

func execC01(c *hlib.Ctx, tok []string) string {
	return guarded(c, func() string { return execC01Body(c, tok) })
}

func execC01Body(c *hlib.Ctx, tok []string) string {
	if len(tok) > 0 && tok[0] == "ds.run" {
		return execC01Set(c, tok) // the series-set level, see c01set.go
	}
	if len(tok) != 4 || tok[0] != "dd.run" {
		return "bad-op"
	}
	reps, ok1 := parseReplicas(tok[2])
	calls, ok2 := parseCalls(tok[3])
	if !ok1 || !ok2 {
		return "bad-op"
	}
	f := fnArg(tok[1])
	maxDrain := totalLen(reps) + 2
	tr, mm := runCalls(newDedupIter(f, reps), calls, maxDrain)
	if mm {
		c.Violation("att-mismatch", "AtT() differs from the timestamp of At()")
	}
	if !sortedReplicas(reps) || isCounterFn(f) {
		return fmtTrace(tr) // outside the domain of the C01 oracle (recorded only)
	}
	oracleC01(c, reps, calls, tr, f)
	return fmtTrace(tr)
}

func sortedReplicas(reps [][]smp) bool {
	for _, r := range reps {
		for i := 1; i < len(r); i++ {
			if r[i].t <= r[i-1].t {
				return false
			}
		}
	}
	return true
}

func sameSamples(a, b []smp) bool {
	if len(a) != len(b) {
		return false
	}
	for i := range a {
		if a[i] != b[i] {
			return false
		}
	}
	return true
}

// reference reads the whole series of a fresh iterator with Next only.
func reference(f string, reps [][]smp) (d []smp, panicked bool) {
	tr, _ := runCalls(newDedupIter(f, reps), []call{{kind: 'd'}}, totalLen(reps)+2)
	for _, o := range tr {
		switch o.kind {
		case 's':
			d = append(d, o.s)
		case 'p':
			return d, true
		}
	}
	return d, false
}

// expectedTrace is the position semantics of a script over the reference series d; it stops
// after the first ValNone (later calls are outside the iterator contract).
func expectedTrace(d []smp, calls []call) []obs {
	var out []obs
	p := -1
	emit := func() bool {
		if p >= len(d) {
			out = append(out, obs{kind: 'x'})
			return false
		}
		out = append(out, obs{kind: 's', s: d[p]})
		return true
	}
	for _, c := range calls {
		switch c.kind {
		case 'n':
			p++
			if !emit() {
				return out
			}
		case 's':
			if p < 0 {
				p = 0
			}
			for p < len(d) && d[p].t < c.t {
				p++
			}
			if !emit() {
				return out
			}
		case 'd':
			for {
				p++
				if !emit() {
					break
				}
			}
			return out
		}
	}
	return out
}

func oracleC01(c *hlib.Ctx, reps [][]smp, calls []call, tr []obs, f string) {
	d, dp := reference(f, reps)
	if dp {
		c.Violation("panic", "reading the series with Next only panics")
		return
	}
	for i := 1; i < len(d); i++ {
		if d[i].t <= d[i-1].t {
			c.Violation("order", fmt.Sprintf("Next-only read is not strictly increasing: %d after %d", d[i].t, d[i-1].t))
			break
		}
	}
	have := map[smp]bool{}
	for _, r := range reps {
		for _, s := range r {
			have[s] = true
		}
	}
	for _, s := range d {
		if !have[s] {
			c.Violation("provenance", fmt.Sprintf("sample %s is held by no replica", fmtSmp(s)))
			break
		}
	}
	if len(reps) == 1 && !sameSamples(d, reps[0]) {
		c.Violation("single-changed", "a single replica does not come out unchanged")
	}
	if len(reps) > 1 {
		same := true
		for _, r := range reps[1:] {
			same = same && sameSamples(r, reps[0])
		}
		if same && !sameSamples(d, reps[0]) {
			c.Violation("identical-changed", fmt.Sprintf("%d identical replicas do not come out unchanged: got %d of %d samples", len(reps), len(d), len(reps[0])))
		}
	}
	// the script's own trace against the position semantics over d
	want := expectedTrace(d, calls)
	class := "seek-suffix"
	if len(calls) > 0 && calls[0].kind == 's' {
		class = "seek-before-next"
	}
	for i, w := range want {
		if i >= len(tr) {
			c.Violation(class, fmt.Sprintf("trace ends after %d observations, expected %d", len(tr), len(want)))
			return
		}
		g := tr[i]
		if g.kind == 'p' {
			if class == "seek-before-next" {
				c.Violation(class, fmt.Sprintf("call %d panics; a reader iterating from the start sees %s there", i+1, w))
			} else {
				c.Violation("panic", fmt.Sprintf("call %d panics before the iterator is exhausted", i+1))
			}
			return
		}
		if g.String() != w.String() {
			c.Violation(class, fmt.Sprintf("observation %d is %s, but the reader iterating from the start sees %s at that position (Next-only read: %s)", i+1, g, w, fmtReplica(d)))
			return
		}
	}
}

// ---------------------------------------------------------------- generator

// pickNonCounter draws a function name outside the counter set: half of the time uniformly from
// every name an engine can send, otherwise from the names closest to the classification boundary.
func pickNonCounter(c *hlib.Ctx) string {
	r := c.R
	all := nonCounterNames()
	f := all[r.Intn(len(all))]
	if r.Chance(1, 2) {
		near := []string{"none", "delta", "idelta", "deriv", "changes", "xdelta", "xrate", "xincrease", "sum", "max_over_time", "avg_over_time", "rates", "Rate", "increases", "reset"}
		f = near[r.Intn(len(near))]
	}
	c.Count("func:" + funcClass(f))
	return f
}

type layout struct {
	reps  [][]smp
	shape string
}

// genLayout draws replica layouts of one series.  counter ⇒ values never decrease inside a replica.
func genLayout(c *hlib.Ctx, counter bool) layout {
	r := c.R
	n := 1 + r.Intn(6)
	if r.Chance(1, 10) {
		n = 1
	}
	interval := []int64{1000, 15000, 30000}[r.Intn(3)]
	base := r.I64Range(1, 1_000_000)
	mkValues := func(rep int, ts []int64) []smp {
		out := make([]smp, len(ts))
		var acc int64 = r.I64Range(0, 1000)
		for i, t := range ts {
			if counter {
				acc += r.I64Range(0, 50)
				if r.Chance(1, 8) {
					acc += 0 // a plateau
				}
				out[i] = smp{t, acc}
			} else {
				out[i] = smp{t, int64(rep)*1_000_000 + int64(i)*7 - 300 + r.I64Range(0, 5)}
			}
		}
		return out
	}
	scrape := func(k int, off int64, jit int64, gapP int) []int64 {
		var ts []int64
		t := base + off
		for i := 0; i < k; i++ {
			j := int64(0)
			if jit > 0 {
				j = r.I64Range(-jit, jit)
			}
			x := t + j
			if len(ts) == 0 || x > ts[len(ts)-1] {
				ts = append(ts, x)
			}
			t += interval
			if gapP > 0 && r.Chance(gapP, 100) {
				t += interval * r.I64Range(1, 5)
			}
		}
		return ts
	}
	var reps [][]smp
	shape := ""
	switch r.Intn(10) {
	case 0, 1, 2, 3: // independent scrapers of one target: offsets, jitter, gaps
		shape = "jitter"
		for i := 0; i < n; i++ {
			k := r.Range(0, 60)
			if r.Chance(1, 12) {
				k = 0
			}
			off := r.I64Range(0, interval-1)
			if r.Chance(1, 5) {
				off += interval * r.I64Range(1, 20) // late starter
			}
			reps = append(reps, mkValues(i, scrape(k, off, interval/20, pickInt(r, 0, 5, 25))))
		}
	case 4: // identical replicas
		shape = "identical"
		ts := scrape(r.Range(0, 60), 0, interval/20, pickInt(r, 0, 5, 25))
		one := mkValues(0, ts)
		for i := 0; i < n; i++ {
			reps = append(reps, append([]smp(nil), one...))
		}
	case 5: // disjoint time ranges
		shape = "disjoint"
		off := int64(0)
		order := r.Perm(n)
		tmp := make([][]smp, n)
		for _, i := range order {
			k := r.Range(0, 25)
			ts := scrape(k, off, 0, 0)
			tmp[i] = mkValues(i, ts)
			off += interval * int64(k+r.Range(0, 3))
		}
		reps = tmp
	case 6: // prefixes / suffixes of one sequence (same timestamps, replica-specific or equal values)
		shape = "prefix"
		ts := scrape(r.Range(1, 60), 0, 0, pickInt(r, 0, 5, 25))
		one := mkValues(0, ts)
		for i := 0; i < n; i++ {
			lo, hi := 0, len(one)
			if i > 0 {
				if r.Bool() {
					hi = r.Intn(len(one) + 1)
				} else {
					lo = r.Intn(len(one) + 1)
				}
			}
			reps = append(reps, append([]smp(nil), one[lo:hi]...))
		}
	case 7: // same timestamps, one replica misses samples
		shape = "holes"
		ts := scrape(r.Range(1, 60), 0, 0, 0)
		for i := 0; i < n; i++ {
			var sub []int64
			for _, t := range ts {
				if !r.Chance(1, 4) {
					sub = append(sub, t)
				}
			}
			reps = append(reps, mkValues(i, sub))
		}
	default: // tiny layouts on a coarse grid (ties, penalty window edges)
		shape = "tiny"
		if n > 4 {
			n = 2 + r.Intn(3)
		}
		step := []int64{1000, 2000, 2500, 5000, 5001}[r.Intn(5)]
		for i := 0; i < n; i++ {
			var ts []int64
			for g := int64(1); g <= 10; g++ {
				if r.Chance(1, 2) {
					ts = append(ts, g*step+r.I64Range(0, 1))
				}
			}
			reps = append(reps, mkValues(i, ts))
		}
	}
	c.Count("shape:" + shape)
	return layout{reps: reps, shape: shape}
}

func tsOf(reps [][]smp) []int64 {
	var ts []int64
	for _, r := range reps {
		for _, s := range r {
			ts = append(ts, s.t)
		}
	}
	sort.Slice(ts, func(i, j int) bool { return ts[i] < ts[j] })
	return ts
}

// pickTarget draws a seek target relative to the samples: below all, on a sample, just
// before / after a sample, between, above all.
func pickTarget(r *hlib.Rand, ts []int64, atLeast int64) int64 {
	if len(ts) == 0 {
		return r.I64Range(0, 100)
	}
	var t int64
	switch r.Intn(7) {
	case 0:
		t = ts[0] - r.I64Range(1, 100000)
	case 1:
		t = ts[len(ts)-1] + r.I64Range(1, 100000)
	case 2, 3:
		t = ts[r.Intn(len(ts))]
	case 4:
		t = ts[r.Intn(len(ts))] + 1
	case 5:
		t = ts[r.Intn(len(ts))] - 1
	default:
		t = r.I64Range(ts[0], ts[len(ts)-1])
	}
	if t < atLeast {
		t = atLeast
	}
	return t
}

func genScript(c *hlib.Ctx, reps [][]smp) []call {
	r := c.R
	ts := tsOf(reps)
	switch r.Intn(10) {
	case 0, 1:
		c.Count("script:drain")
		return []call{{kind: 'd'}}
	case 2, 3, 4, 5:
		c.Count("script:seek-first")
		return []call{{kind: 's', t: pickTarget(r, ts, -1<<62)}, {kind: 'd'}}
	case 6:
		c.Count("script:next-then-seek")
		var cs []call
		for i := r.Range(1, 4); i > 0; i-- {
			cs = append(cs, call{kind: 'n'})
		}
		cs = append(cs, call{kind: 's', t: pickTarget(r, ts, -1<<62)}, call{kind: 'd'})
		return cs
	default:
		var cs []call
		lo := int64(-1 << 62)
		back := r.Chance(1, 6)
		if back {
			c.Count("script:mixed-with-backward-seeks")
		} else {
			c.Count("script:mixed")
		}
		for i := r.Range(2, 12); i > 0; i-- {
			if r.Chance(2, 5) {
				t := pickTarget(r, ts, lo)
				if !back {
					lo = t
				}
				cs = append(cs, call{kind: 's', t: t})
			} else {
				cs = append(cs, call{kind: 'n'})
			}
		}
		if r.Chance(2, 3) {
			cs = append(cs, call{kind: 'd'})
		}
		return cs
	}
}

func nontrivialLayout(reps [][]smp) bool {
	k := 0
	for _, r := range reps {
		if len(r) > 0 {
			k++
		}
	}
	return k >= 2
}

func genC01(c *hlib.Ctx) {
	r := c.R
	n := budget(c, 6000, 60000)
	for i := 0; i < n; i++ {
		l := genLayout(c, false)
		c.Count(fmt.Sprintf("replicas:%d", len(l.reps)))
		f := pickNonCounter(c)
		scripts := 1 + r.Intn(3)
		for k := 0; k < scripts; k++ {
			cs := genScript(c, l.reps)
			out := c.Do(fmt.Sprintf("dd.run %s %s %s", f, fmtReplicas(l.reps), fmtCalls(cs)), nontrivialLayout(l.reps))
			if strings.Contains(out, "panic") {
				c.Count("answer:panic")
			}
		}
	}
	// malformed stream (recorded, never judged): huge timestamps, unsorted replicas
	for i := 0; i < budget(c, 50, 2000); i++ {
		l := genLayout(c, false)
		for ri := range l.reps {
			for si := range l.reps[ri] {
				l.reps[ri][si].t += 1 << 59
			}
		}
		c.Count("malformed:huge-timestamps")
		c.Do(fmt.Sprintf("dd.run none %s d", fmtReplicas(l.reps)), false)
	}
	genC01Set(c)
	if c.Tier == "thorough" {
		exhaustiveC01(c)
	}
}

// exhaustiveC01 enumerates every layout of 2 replicas with ≤ 4 samples on a 6-point grid and of
// 3 replicas with ≤ 2 samples on a 5-point grid, each read with Next only and after every
// distinct first Seek.
func exhaustiveC01(c *hlib.Ctx) {
	subsets := func(points, maxk int) [][]int64 {
		var out [][]int64
		for m := 0; m < 1<<points; m++ {
			var s []int64
			for b := 0; b < points; b++ {
				if m&(1<<b) != 0 {
					s = append(s, int64(b+1)*2000)
				}
			}
			if len(s) <= maxk {
				out = append(out, s)
			}
		}
		return out
	}
	mk := func(rep int, ts []int64) []smp {
		out := make([]smp, len(ts))
		for i, t := range ts {
			out[i] = smp{t, int64(rep*100 + i)}
		}
		return out
	}
	run := func(reps [][]smp, points int) {
		c.Count("exhaustive:layouts")
		line := fmtReplicas(reps)
		c.Do("dd.run none "+line+" d", nontrivialLayout(reps))
		for g := 0; g <= points+1; g++ {
			c.Do(fmt.Sprintf("dd.run none %s s%d,d", line, int64(g)*2000+1000), nontrivialLayout(reps))
		}
	}
	s2 := subsets(6, 4)
	for _, a := range s2 {
		for _, b := range s2 {
			run([][]smp{mk(0, a), mk(1, b)}, 6)
		}
	}
	s3 := subsets(5, 2)
	for _, a := range s3 {
		for _, b := range s3 {
			for _, d := range s3 {
				run([][]smp{mk(0, a), mk(1, b), mk(2, d)}, 5)
			}
		}
	}
}
