package main

// C04 — deduplicated queries return each logical series once with replica data.
//
// op:
//   rp.select <dedup> <wrl> <repFirst> <qmint> <qmaxt> <series>
//      dedup    = 1 | 0       query with / without deduplication (replica label = the one below)
//      wrl      = 1 | 0       the fake stores implement SeriesRequest.WithoutReplicaLabels themselves
//                             (remove + re-sort) / leave it to the proxy
//      repFirst = 1 | 0       the replica label is named "a" (sorts before the series label "s") / "z"
//      series   = L|L|…       L = <key>=<rep>;<rep>;…          key = two digits (label s="<key>")
//                 rep   = <rid>@<chunk>+<chunk>+…              rid = one digit (replica label value)
//                 chunk = <store>~<rank>~t:v,t:v,…             store = index of the store holding it,
//                         rank = position of the chunk's XOR bytes in the DEscending bytes order of all
//                         chunks of the line (the proxy sorts chunks by MinTime, MaxTime, then bytes, larger
//                         first; the bytes order is third-party semantics and therefore an input of the model)
//      answer   = S|S|…       S = <key>=<samples>  (dedup)  or  <key>.<rid>=<samples>  (no dedup);
//                 samples = t:v,… | e ;   - = no series;   err = Select reported an error
//
// The real path: fake StoreAPI servers (series sorted by labels, chunks filtered by the request's time
// range) → store.NewProxyStore (eager retrieval) → query.NewQueryableCreator(...).Querier(qmint,qmaxt)
// .Select(hints{Start,End}) → every series drained with Next.
//
// Oracle (independent of the model):
//   series-set            dedup: not exactly one series per logical series with samples in range /
//                         no dedup: not exactly one series per (logical series, replica)
//   identical-lost-samples-overlapping-chunks
//                         dedup, all replicas of the series hold the same samples S, some replica has
//                         chunks that overlap in time, and the returned series (inside the query range) is a
//                         proper subsequence of S ∩ [qmint,qmaxt]: samples are lost (the F04 class)
//   identical-changed     dedup, identical replicas: the series differs from S ∩ [qmint,qmaxt] in any other
//                         way (samples lost without overlapping chunks, foreign or reordered samples)
//   nodedup-changed       no dedup: a replica's series is not the union of its chunks' samples in range
//   order                 timestamps of a returned series do not strictly increase
//   provenance            dedup: a returned sample is held by no replica of that series

import (
	"context"
	"fmt"
	"go.uber.org/atomic"
	"math"
	"sort"
	"strconv"
	"strings"
	"time"

	"github.com/prometheus/prometheus/model/labels"
	"github.com/prometheus/prometheus/storage"
	"github.com/prometheus/prometheus/tsdb/chunkenc"

	"github.com/thanos-io/thanos/pkg/component"
	"github.com/thanos-io/thanos/pkg/dedup"
	"github.com/thanos-io/thanos/pkg/query"
	"github.com/thanos-io/thanos/pkg/store"
	"github.com/thanos-io/thanos/pkg/store/labelpb"
	"github.com/thanos-io/thanos/pkg/store/storepb"
	storetestutil "github.com/thanos-io/thanos/pkg/store/storepb/testutil"
	"github.com/thanos-io/thanos/verifharness/hlib"
)

func init() {
	props = append(props, &hlib.Prop{ID: "C04", Gen: genC04, Exec: execC04})
}

type rpChunk struct {
	store int
	rank  int
	s     []smp
}

type rpReplica struct {
	rid    int
	chunks []rpChunk
}

type rpSeries struct {
	key  string
	reps []rpReplica
}

func fmtRpSeries(ss []rpSeries) string {
	var out []string
	for _, l := range ss {
		var reps []string
		for _, r := range l.reps {
			var cs []string
			for _, c := range r.chunks {
				cs = append(cs, fmt.Sprintf("%d~%d~%s", c.store, c.rank, fmtReplica(c.s)))
			}
			reps = append(reps, fmt.Sprintf("%d@%s", r.rid, strings.Join(cs, "+")))
		}
		out = append(out, l.key+"="+strings.Join(reps, ";"))
	}
	return strings.Join(out, "|")
}

func parseRpSeries(s string) ([]rpSeries, bool) {
	var out []rpSeries
	for _, ls := range strings.Split(s, "|") {
		kv := strings.SplitN(ls, "=", 2)
		if len(kv) != 2 || len(kv[0]) != 2 {
			return nil, false
		}
		l := rpSeries{key: kv[0]}
		for _, rs := range strings.Split(kv[1], ";") {
			p := strings.SplitN(rs, "@", 2)
			if len(p) != 2 {
				return nil, false
			}
			rid, err := strconv.Atoi(p[0])
			if err != nil || rid < 0 || rid > 9 {
				return nil, false
			}
			r := rpReplica{rid: rid}
			for _, cs := range strings.Split(p[1], "+") {
				f := strings.Split(cs, "~")
				if len(f) != 3 {
					return nil, false
				}
				st, err1 := strconv.Atoi(f[0])
				rk, err2 := strconv.Atoi(f[1])
				sm, ok := parseReplica(f[2])
				if err1 != nil || err2 != nil || !ok || len(sm) == 0 || st < 0 || st > 15 {
					return nil, false
				}
				r.chunks = append(r.chunks, rpChunk{store: st, rank: rk, s: sm})
			}
			l.reps = append(l.reps, r)
		}
		out = append(out, l)
	}
	return out, true
}

func xorBytes(s []smp) []byte {
	return xorOf(s).Bytes()
}

// assignRanks sets the rank of every chunk to the position of its XOR bytes in the sorted set
// of all distinct chunk bytes of the line.
func assignRanks(ss []rpSeries) {
	var all []string
	seen := map[string]bool{}
	for _, l := range ss {
		for _, r := range l.reps {
			for _, c := range r.chunks {
				b := string(xorBytes(c.s))
				if !seen[b] {
					seen[b] = true
					all = append(all, b)
				}
			}
		}
	}
	// AggrChunk.Compare ends with bytes.Compare(m.Data, b.Data) whose sign is the opposite of its
	// own convention, so chunks with equal time range are sorted by DEscending bytes
	sort.Sort(sort.Reverse(sort.StringSlice(all)))
	pos := map[string]int{}
	for i, b := range all {
		pos[b] = i
	}
	for li := range ss {
		for ri := range ss[li].reps {
			for ci := range ss[li].reps[ri].chunks {
				c := &ss[li].reps[ri].chunks[ci]
				c.rank = pos[string(xorBytes(c.s))]
			}
		}
	}
}

// ranksConsistent: for chunks with equal time range and different bytes (the only place where the
// proxy's chunk order depends on the bytes) the given ranks order them as their bytes do.
func ranksConsistent(ss []rpSeries) bool {
	type rb struct {
		rank       int
		b          string
		mint, maxt int64
	}
	var all []rb
	for _, l := range ss {
		for _, r := range l.reps {
			for _, c := range r.chunks {
				all = append(all, rb{c.rank, string(xorBytes(c.s)), c.s[0].t, c.s[len(c.s)-1].t})
			}
		}
	}
	for i := range all {
		for j := range all {
			if all[i].mint != all[j].mint || all[i].maxt != all[j].maxt || all[i].b == all[j].b {
				continue
			}
			if (all[i].b > all[j].b) != (all[i].rank < all[j].rank) {
				return false
			}
		}
	}
	return true
}

// ---------------------------------------------------------------- fake store

type fakeSeries struct {
	lset   labels.Labels
	chunks []storepb.AggrChunk
}

type fakeStore struct {
	storepb.StoreServer
	series []fakeSeries // sorted by labels
	wrl    bool
}

func (s *fakeStore) Series(r *storepb.SeriesRequest, srv storepb.Store_SeriesServer) error {
	type outSeries struct {
		lset   labels.Labels
		chunks []storepb.AggrChunk
	}
	var out []outSeries
	for _, fs := range s.series {
		var cs []storepb.AggrChunk
		for _, c := range fs.chunks {
			if c.MaxTime >= r.MinTime && c.MinTime <= r.MaxTime {
				cs = append(cs, c)
			}
		}
		if len(cs) == 0 {
			continue
		}
		lset := fs.lset
		if s.wrl && len(r.WithoutReplicaLabels) > 0 {
			b := labels.NewBuilder(lset)
			for _, n := range r.WithoutReplicaLabels {
				b.Del(n)
			}
			lset = b.Labels()
		}
		out = append(out, outSeries{lset, cs})
	}
	if s.wrl {
		sort.SliceStable(out, func(i, j int) bool { return labels.Compare(out[i].lset, out[j].lset) < 0 })
	}
	for _, o := range out {
		if err := srv.Send(storepb.NewSeriesResponse(&storepb.Series{
			Labels: labelpb.ZLabelsFromPromLabels(o.lset),
			Chunks: o.chunks,
		})); err != nil {
			return err
		}
	}
	return nil
}

func repLabelName(repFirst bool) string {
	if repFirst {
		return "a"
	}
	return "z"
}

func buildStores(ss []rpSeries, wrl, repFirst bool) []store.Client {
	nstores := 1
	for _, l := range ss {
		for _, r := range l.reps {
			for _, c := range r.chunks {
				if c.store+1 > nstores {
					nstores = c.store + 1
				}
			}
		}
	}
	stores := make([]*fakeStore, nstores)
	for i := range stores {
		stores[i] = &fakeStore{wrl: wrl}
	}
	for _, l := range ss {
		for _, r := range l.reps {
			lset := labels.FromStrings("__name__", "m", "s", l.key, repLabelName(repFirst), strconv.Itoa(r.rid))
			per := map[int][]storepb.AggrChunk{}
			for _, c := range r.chunks {
				per[c.store] = append(per[c.store], storepb.AggrChunk{
					MinTime: c.s[0].t, MaxTime: c.s[len(c.s)-1].t,
					Raw: &storepb.Chunk{Type: storepb.Chunk_XOR, Data: xorBytes(c.s)},
				})
			}
			for st, cs := range per {
				sort.SliceStable(cs, func(i, j int) bool { return cs[i].MinTime < cs[j].MinTime })
				stores[st].series = append(stores[st].series, fakeSeries{lset: lset, chunks: cs})
			}
		}
	}
	cls := make([]store.Client, nstores)
	for i, s := range stores {
		sort.SliceStable(s.series, func(a, b int) bool { return labels.Compare(s.series[a].lset, s.series[b].lset) < 0 })
		cls[i] = &storetestutil.TestClient{
			Name:        strconv.Itoa(i),
			StoreClient: storepb.ServerAsClient(s, atomic.Bool{}),
			MinTime:     math.MinInt64, MaxTime: math.MaxInt64,
			WithoutReplicaLabelsEnabled: wrl,
		}
	}
	return cls
}

type rpOut struct {
	key string
	rid int // -1 when the replica label is absent
	s   []smp
}

func runSelect(ss []rpSeries, dedupOn, wrl, repFirst bool, qmint, qmaxt int64) (out []rpOut, status string) {
	defer func() {
		if r := recover(); r != nil {
			out, status = nil, "panic"
		}
	}()
	cls := buildStores(ss, wrl, repFirst)
	proxy := store.NewProxyStore(nil, nil, func() []store.Client { return cls }, component.Query, labels.EmptyLabels(), 0, store.EagerRetrieval)
	qc := query.NewQueryableCreator(nil, nil, proxy, 2, time.Minute, dedup.AlgorithmPenalty, 0)
	q, err := qc(dedupOn, []string{repLabelName(repFirst)}, nil, 0, false, false, nil, query.NoopSeriesStatsReporter).Querier(qmint, qmaxt)
	if err != nil {
		return nil, "err"
	}
	defer q.Close()
	set := q.Select(context.Background(), false, &storage.SelectHints{Start: qmint, End: qmaxt},
		labels.MustNewMatcher(labels.MatchEqual, "__name__", "m"))
	for set.Next() {
		s := set.At()
		o := rpOut{key: s.Labels().Get("s"), rid: -1}
		if v := s.Labels().Get(repLabelName(repFirst)); v != "" {
			o.rid, _ = strconv.Atoi(v)
		}
		it := s.Iterator(nil)
		for it.Next() != chunkenc.ValNone {
			t, v := it.At()
			o.s = append(o.s, smp{t, int64(v)})
		}
		if it.Err() != nil {
			return nil, "err"
		}
		out = append(out, o)
	}
	if set.Err() != nil {
		return nil, "err"
	}
	return out, "ok"
}

func fmtRpOut(out []rpOut) string {
	if len(out) == 0 {
		return "-"
	}
	ss := make([]string, len(out))
	for i, o := range out {
		k := o.key
		if o.rid >= 0 {
			k += "." + strconv.Itoa(o.rid)
		}
		ss[i] = k + "=" + fmtReplica(o.s)
	}
	return strings.Join(ss, "|")
}

// ---------------------------------------------------------------- oracle

// unionSamples: the samples of a set of chunks as a time-ordered set (first value wins).
func unionSamples(chunks []rpChunk, qmint, qmaxt int64) []smp {
	m := map[int64]int64{}
	for _, c := range chunks {
		for _, s := range c.s {
			if _, ok := m[s.t]; !ok {
				m[s.t] = s.v
			}
		}
	}
	var out []smp
	for t, v := range m {
		if t >= qmint && t <= qmaxt {
			out = append(out, smp{t, v})
		}
	}
	sort.Slice(out, func(i, j int) bool { return out[i].t < out[j].t })
	return out
}

func hasOverlappingChunks(r rpReplica) bool {
	for i := range r.chunks {
		for j := range r.chunks {
			a, b := r.chunks[i].s, r.chunks[j].s
			if i < j && !sameSamples(a, b) && a[0].t <= b[len(b)-1].t && b[0].t <= a[len(a)-1].t {
				return true
			}
		}
	}
	return false
}

func strictlyIncreasing(s []smp) bool {
	for i := 1; i < len(s); i++ {
		if s[i].t <= s[i-1].t {
			return false
		}
	}
	return true
}

// consistentReplica: the chunks of a replica agree on the value at every timestamp and hold every
// sample of their union inside their own time range (they are cuts of one sample sequence).
func consistentReplica(r rpReplica) bool {
	u := unionSamples(r.chunks, math.MinInt64, math.MaxInt64)
	at := map[int64]int64{}
	for _, s := range u {
		at[s.t] = s.v
	}
	for _, c := range r.chunks {
		if !strictlyIncreasing(c.s) {
			return false
		}
		var want []smp
		for _, s := range u {
			if s.t >= c.s[0].t && s.t <= c.s[len(c.s)-1].t {
				want = append(want, s)
			}
		}
		if !sameSamples(want, c.s) {
			return false
		}
	}
	return true
}

func execC04(c *hlib.Ctx, tok []string) string {
	return guarded(c, func() string { return execC04Body(c, tok) })
}

func execC04Body(c *hlib.Ctx, tok []string) string {
	if len(tok) > 0 && tok[0] == "rp.tsdb" {
		return execC04TSDB(c, tok) // real TSDB stores, see c04tsdb.go
	}
	if len(tok) != 7 || tok[0] != "rp.select" {
		return "bad-op"
	}
	qmint, err1 := strconv.ParseInt(tok[4], 10, 64)
	qmaxt, err2 := strconv.ParseInt(tok[5], 10, 64)
	ss, ok := parseRpSeries(tok[6])
	if !ok || err1 != nil || err2 != nil || (tok[1] != "0" && tok[1] != "1") || (tok[2] != "0" && tok[2] != "1") || (tok[3] != "0" && tok[3] != "1") {
		return "bad-op"
	}
	if !ranksConsistent(ss) {
		return "bad-rank"
	}
	dedupOn, wrl, repFirst := tok[1] == "1", tok[2] == "1", tok[3] == "1"
	out, status := runSelect(ss, dedupOn, wrl, repFirst, qmint, qmaxt)
	if status != "ok" {
		c.Violation(status, "Select answers "+status)
		return status
	}
	for _, l := range ss {
		for _, r := range l.reps {
			if !consistentReplica(r) {
				return fmtRpOut(out) // outside the oracle's domain
			}
		}
	}
	for _, o := range out {
		if !strictlyIncreasing(o.s) {
			c.Violation("order", fmt.Sprintf("series %s: timestamps do not strictly increase", o.key))
		}
	}
	if dedupOn {
		oracleDedupOn(c, ss, out, qmint, qmaxt)
	} else {
		oracleDedupOff(c, ss, out, qmint, qmaxt)
	}
	return fmtRpOut(out)
}

func oracleDedupOn(c *hlib.Ctx, ss []rpSeries, out []rpOut, qmint, qmaxt int64) {
	got := map[string][]rpOut{}
	for _, o := range out {
		got[o.key] = append(got[o.key], o)
		if o.rid >= 0 {
			c.Violation("series-set", fmt.Sprintf("series %s still carries the replica label", o.key))
		}
	}
	for _, l := range ss {
		var all []rpChunk
		for _, r := range l.reps {
			all = append(all, r.chunks...)
		}
		inRange := false
		for _, ch := range all {
			if ch.s[len(ch.s)-1].t >= qmint && ch.s[0].t <= qmaxt {
				inRange = true
			}
		}
		g := got[l.key]
		if !inRange {
			if len(g) != 0 {
				c.Violation("series-set", fmt.Sprintf("series %s has no chunk in range but is returned", l.key))
			}
			continue
		}
		if len(g) != 1 {
			c.Violation("series-set", fmt.Sprintf("logical series %s is returned %d times", l.key, len(g)))
			continue
		}
		// provenance
		have := map[smp]bool{}
		for _, ch := range all {
			for _, s := range ch.s {
				have[s] = true
			}
		}
		for _, s := range g[0].s {
			if !have[s] {
				c.Violation("provenance", fmt.Sprintf("series %s: sample %s is held by no replica", l.key, fmtSmp(s)))
				break
			}
		}
		// identical replicas
		want := unionSamples(l.reps[0].chunks, qmint, qmaxt)
		identical := true
		overlap := false
		for _, r := range l.reps {
			identical = identical && sameSamples(unionSamples(r.chunks, qmint, qmaxt), want) &&
				sameSamples(unionSamples(r.chunks, math.MinInt64, math.MaxInt64), unionSamples(l.reps[0].chunks, math.MinInt64, math.MaxInt64))
			overlap = overlap || hasOverlappingChunks(r)
		}
		// SelectHints are hints: samples outside [qmint,qmaxt] may be returned (boundedSeriesIterator.Seek
		// does not enforce maxt, so with ≥ 2 virtual replicas one sample beyond maxt can come out);
		// they are counted, the comparison is made inside the range.
		var gotIn []smp
		for _, s := range g[0].s {
			if s.t >= qmint && s.t <= qmaxt {
				gotIn = append(gotIn, s)
			}
		}
		if len(gotIn) != len(g[0].s) {
			c.Count("note:sample-outside-query-range-returned")
		}
		if identical && !sameSamples(gotIn, want) {
			class := "identical-changed"
			if overlap && isSubsequence(gotIn, want) {
				class = "identical-lost-samples-overlapping-chunks"
			}
			c.Violation(class, fmt.Sprintf("series %s: %d identical replicas hold %d samples in range, the query returns %d of them (%s)",
				l.key, len(l.reps), len(want), len(gotIn), fmtReplica(gotIn)))
		}
	}
}

func isSubsequence(a, b []smp) bool {
	j := 0
	for _, x := range a {
		for j < len(b) && b[j] != x {
			j++
		}
		if j == len(b) {
			return false
		}
		j++
	}
	return true
}

func oracleDedupOff(c *hlib.Ctx, ss []rpSeries, out []rpOut, qmint, qmaxt int64) {
	type k struct {
		key string
		rid int
	}
	got := map[k][]rpOut{}
	for _, o := range out {
		got[k{o.key, o.rid}] = append(got[k{o.key, o.rid}], o)
	}
	n := 0
	for _, l := range ss {
		for _, r := range l.reps {
			inRange := false
			for _, ch := range r.chunks {
				if ch.s[len(ch.s)-1].t >= qmint && ch.s[0].t <= qmaxt {
					inRange = true
				}
			}
			g := got[k{l.key, r.rid}]
			if !inRange {
				if len(g) != 0 {
					c.Violation("series-set", fmt.Sprintf("replica %s.%d has no chunk in range but is returned", l.key, r.rid))
				}
				continue
			}
			n++
			if len(g) != 1 {
				c.Violation("series-set", fmt.Sprintf("replica %s.%d is returned %d times", l.key, r.rid, len(g)))
				continue
			}
			want := unionSamples(r.chunks, qmint, qmaxt)
			if !sameSamples(g[0].s, want) {
				c.Violation("nodedup-changed", fmt.Sprintf("replica %s.%d: union of its chunks has %d samples in range, the query returns %d", l.key, r.rid, len(want), len(g[0].s)))
			}
		}
	}
	if n != len(out) {
		c.Violation("series-set", fmt.Sprintf("%d series returned, %d (series, replica) pairs have data in range", len(out), n))
	}
}

// ---------------------------------------------------------------- generator

func genC04(c *hlib.Ctx) {
	// filled in below (see genC04Case); kept separate so that the F04 witness can be replayed first
	n := budget(c, 1500, 30000)
	for i := 0; i < n; i++ {
		genC04Case(c)
	}
	genC04TSDB(c)
}

// cutChunks cuts a sample sequence into consecutive chunks at random points; with overlap > 0 some
// adjacent chunks share samples; extra > 0 adds chunks that re-cover a random sub-range (vertical
// compaction / sidecar + store gateway shapes).
func cutChunks(r *hlib.Rand, s []smp, maxChunk int, overlapP, extra int) [][]smp {
	var out [][]smp
	for lo := 0; lo < len(s); {
		k := r.Range(1, maxChunk)
		hi := lo + k
		if hi > len(s) {
			hi = len(s)
		}
		from := lo
		if overlapP > 0 && lo > 0 && r.Chance(overlapP, 100) {
			from = lo - r.Range(1, minI(lo, 3))
		}
		out = append(out, append([]smp(nil), s[from:hi]...))
		lo = hi
	}
	for i := 0; i < extra; i++ {
		lo := r.Intn(len(s))
		hi := lo + r.Range(1, maxChunk)
		if hi > len(s) {
			hi = len(s)
		}
		out = append(out, append([]smp(nil), s[lo:hi]...))
	}
	return out
}

func genC04Case(c *hlib.Ctx) {
	r := c.R
	nseries := r.Range(1, 4)
	nstores := r.Range(1, 4)
	dedupOn := !r.Chance(1, 4)
	wrl := r.Bool()
	repFirst := r.Bool()
	shape := r.Intn(5)
	shapeName := []string{"identical-disjoint-cuts", "identical-overlapping-cuts", "jitter-replicas", "identical-duplicated-on-stores", "partial-replicas"}[shape]
	c.Count("shape:" + shapeName)
	var ss []rpSeries
	var allT []int64
	for li := 0; li < nseries; li++ {
		nrep := r.Range(1, 4)
		interval := []int64{1000, 15000, 30000}[r.Intn(3)]
		base := r.I64Range(1, 1_000_000)
		n := r.Range(1, 40)
		var seq []smp
		t := base
		for i := 0; i < n; i++ {
			seq = append(seq, smp{t + r.I64Range(0, interval/10), int64(li*1000 + i)})
			t += interval
			if r.Chance(1, 12) {
				t += interval * r.I64Range(1, 4)
			}
		}
		l := rpSeries{key: fmt.Sprintf("%02d", li)}
		for ri := 0; ri < nrep; ri++ {
			rep := rpReplica{rid: ri}
			s := seq
			switch shape {
			case 2: // every replica scrapes on its own: offsets and own values
				s = nil
				off := r.I64Range(0, interval-1)
				for i, x := range seq {
					if !r.Chance(1, 10) {
						s = append(s, smp{x.t + off, int64(ri*100000 + li*1000 + i)})
					}
				}
				if len(s) == 0 {
					s = []smp{{seq[0].t + off, int64(ri * 100000)}}
				}
			case 4: // a replica holds only a sub-range
				if ri > 0 {
					lo := r.Intn(len(seq))
					hi := lo + r.Range(1, len(seq)-lo)
					s = seq[lo:hi]
				}
			}
			var cuts [][]smp
			switch shape {
			case 1:
				cuts = cutChunks(r, s, r.Range(1, 12), 40, r.Intn(3))
			default:
				cuts = cutChunks(r, s, r.Range(1, 12), 0, 0)
			}
			for _, cs := range cuts {
				st := r.Intn(nstores)
				rep.chunks = append(rep.chunks, rpChunk{store: st, s: cs})
				if shape == 3 && r.Chance(1, 2) { // the same chunk on a second store
					rep.chunks = append(rep.chunks, rpChunk{store: r.Intn(nstores), s: cs})
				}
			}
			for _, x := range s {
				allT = append(allT, x.t)
			}
			l.reps = append(l.reps, rep)
		}
		ss = append(ss, l)
	}
	assignRanks(ss)
	sort.Slice(allT, func(i, j int) bool { return allT[i] < allT[j] })
	qmint, qmaxt := allT[0]-10, allT[len(allT)-1]+10
	if r.Chance(1, 3) {
		qmint = allT[r.Intn(len(allT))] - r.I64Range(0, 1)
		qmaxt = qmint + r.I64Range(0, allT[len(allT)-1]-qmint+5)
		c.Count("range:partial")
	} else {
		c.Count("range:all")
	}
	if qmint < 1 {
		qmint = 1
	}
	c.Count(fmt.Sprintf("dedup:%v", dedupOn))
	c.Count(fmt.Sprintf("stores:%d", nstores))
	b2i := func(b bool) int {
		if b {
			return 1
		}
		return 0
	}
	out := c.Do(fmt.Sprintf("rp.select %d %d %d %d %d %s", b2i(dedupOn), b2i(wrl), b2i(repFirst), qmint, qmaxt, fmtRpSeries(ss)), true)
	// how often the answer carries samples outside the query range (SelectHints are hints: chunks are
	// returned whole, and boundedSeriesIterator.Seek does not enforce maxt)
	before, beyond := false, false
	for _, ser := range strings.Split(out, "|") {
		i := strings.IndexByte(ser, '=')
		if i < 0 {
			continue
		}
		for _, x := range strings.Split(ser[i+1:], ",") {
			j := strings.IndexByte(x, ':')
			if j < 0 {
				continue
			}
			if t, err := strconv.ParseInt(x[:j], 10, 64); err == nil {
				if t < qmint {
					before = true
				}
				if t > qmaxt {
					beyond = true
				}
			}
		}
	}
	if before {
		c.Count("answer:sample-before-mint-returned")
	}
	if beyond {
		c.Count("answer:sample-beyond-maxt-returned")
	}
}
