// C04, full read path over REAL stores: 1–3 store.NewTSDBStore over real tsdb.DB instances (temp
// directories under os.TempDir(), removed when the op ends), each with its own external labels,
// behind the real ProxyStore and query.NewQueryableCreator, with several replica labels that are
// external labels of the stores, labels stored with the series, or neither; series of 1–20 head
// chunks that the store sends in one or many frames.
//
//	rp.tsdb <dedup> <wrl> <replicaLabels> <qmint> <qmaxt> <stores> [<frame> <chunkRange>]
//	   replicaLabels = name,name,… | -
//	   stores = ST|ST|…    ST = <ext>#<ser>#<ser>…     ext = labels | -
//	            ser = <labels>@<chunk>+<chunk>+…       labels = k=v,k=v,… (sorted by name)
//	            chunk = t:v,t:v,…
//	   frame      = maxBytesPerFrame of every TSDBStore (0 = the default of 1 MiB): a frame is sent
//	                as soon as its chunks exceed it, so 1 = one chunk per frame
//	   chunkRange = block duration of the TSDBs = width of the windows at which the head cuts chunks
//	                (default 7200000)
//	   answer = S|S|…      S = <labels>@<samples>, ordered by the rendered label set; - = no series
//
// Domain (else "bad-op"): every series has a __name__ label; timestamps >= 1 and strictly
// increasing along a series; the chunks of the op are exactly the head's chunks: all samples of a
// chunk lie in one window [k*chunkRange, (k+1)*chunkRange), consecutive chunks in different
// windows, at most 29 samples per chunk (below the head's 30-sample re-planning of the chunk end);
// series and external label names are disjoint; label names [a-z_]+, values [a-z0-9]+.
// The op is run only if the real TSDB cut the chunks as the op says (checked, class
// "harness-chunk-cut" otherwise).
package main

import (
	"context"
	"fmt"
	"math"
	"os"
	"sort"
	"strconv"
	"strings"
	"time"

	"github.com/prometheus/prometheus/model/labels"
	"github.com/prometheus/prometheus/storage"
	"github.com/prometheus/prometheus/tsdb"
	"github.com/prometheus/prometheus/tsdb/chunkenc"
	"go.uber.org/atomic"

	"github.com/thanos-io/thanos/pkg/component"
	"github.com/thanos-io/thanos/pkg/dedup"
	"github.com/thanos-io/thanos/pkg/query"
	"github.com/thanos-io/thanos/pkg/store"
	"github.com/thanos-io/thanos/pkg/store/storepb"
	storetestutil "github.com/thanos-io/thanos/pkg/store/storepb/testutil"
	"github.com/thanos-io/thanos/verifharness/hlib"
)

type tLbl struct{ k, v string }

type tSeries struct {
	ls     []tLbl
	chunks [][]smp
	s      []smp // all samples
}

type tStore struct {
	ext    []tLbl
	series []tSeries
}

func fmtLbls(ls []tLbl) string {
	if len(ls) == 0 {
		return "-"
	}
	p := make([]string, len(ls))
	for i, l := range ls {
		p[i] = l.k + "=" + l.v
	}
	return strings.Join(p, ",")
}

func okName(s string, digits bool) bool {
	if s == "" {
		return false
	}
	for _, ch := range s {
		if (ch >= 'a' && ch <= 'z') || (!digits && ch == '_') || (digits && ch >= '0' && ch <= '9') {
			continue
		}
		return false
	}
	return true
}

func parseLbls(s string) ([]tLbl, bool) {
	if s == "-" {
		return nil, true
	}
	var out []tLbl
	for _, x := range strings.Split(s, ",") {
		p := strings.Split(x, "=")
		if len(p) != 2 || !okName(p[0], false) || !okName(p[1], true) {
			return nil, false
		}
		if len(out) > 0 && out[len(out)-1].k >= p[0] {
			return nil, false
		}
		out = append(out, tLbl{p[0], p[1]})
	}
	return out, true
}

func parseTStores(s string) ([]tStore, bool) {
	var out []tStore
	for _, x := range strings.Split(s, "|") {
		p := strings.Split(x, "#")
		ext, ok := parseLbls(p[0])
		if !ok {
			return nil, false
		}
		st := tStore{ext: ext}
		for _, y := range p[1:] {
			q := strings.Split(y, "@")
			if len(q) != 2 {
				return nil, false
			}
			ls, ok1 := parseLbls(q[0])
			if !ok1 {
				return nil, false
			}
			ser := tSeries{ls: ls}
			for _, z := range strings.Split(q[1], "+") {
				sm, ok2 := parseReplica(z)
				if !ok2 || len(sm) == 0 {
					return nil, false
				}
				ser.chunks = append(ser.chunks, sm)
				ser.s = append(ser.s, sm...)
			}
			st.series = append(st.series, ser)
		}
		out = append(out, st)
	}
	return out, true
}

func fmtTStores(sts []tStore) string {
	p := make([]string, len(sts))
	for i, st := range sts {
		q := []string{fmtLbls(st.ext)}
		for _, s := range st.series {
			cs := make([]string, len(s.chunks))
			for k, ch := range s.chunks {
				cs[k] = fmtReplica(ch)
			}
			q = append(q, fmtLbls(s.ls)+"@"+strings.Join(cs, "+"))
		}
		p[i] = strings.Join(q, "#")
	}
	return strings.Join(p, "|")
}

// tsdbDomain checks the restrictions listed in the file comment.
func tsdbDomain(sts []tStore, cr int64) bool {
	if cr < 1 {
		return false
	}
	for _, st := range sts {
		extNames := map[string]bool{}
		for _, l := range st.ext {
			extNames[l.k] = true
		}
		seen := map[string]bool{}
		for _, s := range st.series {
			hasName := false
			for _, l := range s.ls {
				if extNames[l.k] {
					return false
				}
				if l.k == "__name__" {
					hasName = true
				}
			}
			if !hasName || len(s.s) == 0 || s.s[0].t < 1 || !strictlyIncreasing(s.s) || seen[fmtLbls(s.ls)] {
				return false
			}
			seen[fmtLbls(s.ls)] = true
			prevWin := int64(-1)
			for _, ch := range s.chunks {
				w := ch[0].t / cr
				if len(ch) > 29 || ch[len(ch)-1].t/cr != w || w == prevWin {
					return false
				}
				prevWin = w
			}
		}
	}
	return true
}

type tOut struct {
	ls []tLbl
	s  []smp
}

// runTSDB builds the stores and runs one Select through the real proxy and querier.
func runTSDB(sts []tStore, dedupOn, wrl bool, rl []string, qmint, qmaxt int64, frame int, cr int64) (out []tOut, status string) {
	root, err := os.MkdirTemp("", "verif-dedup-c04-")
	if err != nil {
		return nil, "err-tempdir"
	}
	var dbs []*tsdb.DB
	defer func() {
		for _, db := range dbs {
			_ = db.Close()
		}
		_ = os.RemoveAll(root)
	}()
	defer func() {
		if r := recover(); r != nil {
			out, status = nil, "panic"
		}
	}()
	var cls []store.Client
	for i, st := range sts {
		opts := tsdb.DefaultOptions()
		opts.RetentionDuration = math.MaxInt64
		opts.WALSegmentSize = -1 // no WAL: nothing is ever reopened
		opts.MinBlockDuration, opts.MaxBlockDuration = cr, cr
		db, err := tsdb.Open(fmt.Sprintf("%s/%d", root, i), nil, nil, opts, nil)
		if err != nil {
			return nil, "err-open"
		}
		dbs = append(dbs, db)
		db.DisableCompactions() // the head keeps every chunk as it was cut
		// one appender, all samples of the store in time order (the head rejects samples older than
		// half a chunk range before its newest one only for later appenders; within the first one
		// the bound is the first sample)
		type ent struct {
			ser int
			x   smp
		}
		var all []ent
		lsets := make([]labels.Labels, len(st.series))
		for k, s := range st.series {
			var kv []string
			for _, l := range s.ls {
				kv = append(kv, l.k, l.v)
			}
			lsets[k] = labels.FromStrings(kv...)
			for _, x := range s.s {
				all = append(all, ent{k, x})
			}
		}
		sort.SliceStable(all, func(a, b int) bool { return all[a].x.t < all[b].x.t })
		refs := make([]storage.SeriesRef, len(st.series))
		app := db.Appender(context.Background())
		for _, e := range all {
			if refs[e.ser], err = app.Append(refs[e.ser], lsets[e.ser], e.x.t, float64(e.x.v)); err != nil {
				return nil, "err-append"
			}
		}
		if err := app.Commit(); err != nil {
			return nil, "err-commit"
		}
		if !headCutAsGiven(db, st, lsets) {
			return nil, "harness-chunk-cut"
		}
		var kv []string
		for _, l := range st.ext {
			kv = append(kv, l.k, l.v)
		}
		ext := labels.FromStrings(kv...)
		ts := store.NewTSDBStore(nil, db, component.Receive, ext)
		if frame > 0 {
			store.VerifStoresSetMaxBytesPerFrame(ts, frame) // hook of the stores family (pkg/store/verif_stores.go)
		}
		cls = append(cls, &storetestutil.TestClient{
			Name:        strconv.Itoa(i),
			StoreClient: storepb.ServerAsClient(ts, atomic.Bool{}),
			ExtLset:     []labels.Labels{ext},
			MinTime:     math.MinInt64, MaxTime: math.MaxInt64,
			WithoutReplicaLabelsEnabled: wrl,
		})
	}
	proxy := store.NewProxyStore(nil, nil, func() []store.Client { return cls }, component.Query, labels.EmptyLabels(), 0, store.EagerRetrieval)
	qc := query.NewQueryableCreator(nil, nil, proxy, 2, time.Minute, dedup.AlgorithmPenalty, 0)
	q, err := qc(dedupOn, rl, nil, 0, false, false, nil, query.NoopSeriesStatsReporter).Querier(qmint, qmaxt)
	if err != nil {
		return nil, "err"
	}
	defer q.Close()
	set := q.Select(context.Background(), false, &storage.SelectHints{Start: qmint, End: qmaxt},
		labels.MustNewMatcher(labels.MatchRegexp, "__name__", ".+"))
	for set.Next() {
		s := set.At()
		var o tOut
		s.Labels().Range(func(l labels.Label) { o.ls = append(o.ls, tLbl{l.Name, l.Value}) })
		it := s.Iterator(nil)
		for it.Next() != chunkenc.ValNone {
			t, v := it.At()
			o.s = append(o.s, smp{t, int64(v)})
		}
		if it.Err() != nil {
			return nil, "err"
		}
		out = append(out, o)
	}
	if set.Err() != nil {
		return nil, "err"
	}
	return out, "ok"
}

// headCutAsGiven reads the chunks back from the TSDB and compares their bounds with the op's chunks.
func headCutAsGiven(db *tsdb.DB, st tStore, lsets []labels.Labels) bool {
	q, err := db.ChunkQuerier(math.MinInt64, math.MaxInt64)
	if err != nil {
		return false
	}
	defer q.Close()
	for k, s := range st.series {
		var ms []*labels.Matcher
		lsets[k].Range(func(l labels.Label) { ms = append(ms, labels.MustNewMatcher(labels.MatchEqual, l.Name, l.Value)) })
		set := q.Select(context.Background(), true, nil, ms...)
		n := 0
		for set.Next() {
			if set.At().Labels().Len() != lsets[k].Len() {
				continue // a series with more labels
			}
			it := set.At().Iterator(nil)
			for it.Next() {
				m := it.At()
				if n >= len(s.chunks) || m.MinTime != s.chunks[n][0].t || m.MaxTime != s.chunks[n][len(s.chunks[n])-1].t ||
					m.Chunk.NumSamples() != len(s.chunks[n]) {
					return false
				}
				n++
			}
		}
		if n != len(s.chunks) {
			return false
		}
	}
	return true
}

func fmtTOut(out []tOut) string {
	if len(out) == 0 {
		return "-"
	}
	o2 := append([]tOut(nil), out...)
	sort.SliceStable(o2, func(i, j int) bool { return fmtLbls(o2[i].ls) < fmtLbls(o2[j].ls) }) // by the rendered label set
	p := make([]string, len(o2))
	for i, o := range o2 {
		p[i] = fmtLbls(o.ls) + "@" + fmtReplica(o.s)
	}
	return strings.Join(p, "|")
}

// withoutLabels renders ls without the labels named in rl.
func withoutLabels(ls []tLbl, rl map[string]bool) string {
	var keep []tLbl
	for _, l := range ls {
		if !rl[l.k] {
			keep = append(keep, l)
		}
	}
	return fmtLbls(keep)
}

func fullLabels(ext, ser []tLbl) []tLbl {
	all := append(append([]tLbl(nil), ser...), ext...) // names are disjoint in the domain
	sort.Slice(all, func(i, j int) bool { return all[i].k < all[j].k })
	return all
}

func inRangeSamples(s []smp, qmint, qmaxt int64) []smp {
	var out []smp
	for _, x := range s {
		if x.t >= qmint && x.t <= qmaxt {
			out = append(out, x)
		}
	}
	return out
}

func execC04TSDB(c *hlib.Ctx, tok []string) string {
	if len(tok) != 7 && len(tok) != 9 {
		return "bad-op"
	}
	frame, cr := 0, int64(7200000)
	if len(tok) == 9 {
		f, err1 := strconv.Atoi(tok[7])
		r, err2 := strconv.ParseInt(tok[8], 10, 64)
		if err1 != nil || err2 != nil || f < 0 {
			return "bad-op"
		}
		frame, cr = f, r
	}
	qmint, err1 := strconv.ParseInt(tok[4], 10, 64)
	qmaxt, err2 := strconv.ParseInt(tok[5], 10, 64)
	sts, ok := parseTStores(tok[6])
	if !ok || err1 != nil || err2 != nil || (tok[1] != "0" && tok[1] != "1") || (tok[2] != "0" && tok[2] != "1") || !tsdbDomain(sts, cr) {
		return "bad-op"
	}
	var rl []string
	if tok[3] != "-" {
		rl = strings.Split(tok[3], ",")
		for _, n := range rl {
			if !okName(n, false) {
				return "bad-op"
			}
		}
	}
	dedupOn, wrl := tok[1] == "1", tok[2] == "1"
	out, status := runTSDB(sts, dedupOn, wrl, rl, qmint, qmaxt, frame, cr)
	if status != "ok" {
		c.Violation(status, "Select over TSDB stores answers "+status)
		return status
	}
	oracleTSDB(c, sts, out, dedupOn, rl, qmint, qmaxt)
	return fmtTOut(out)
}

// oracleTSDB is C04's statement on label sets and samples, computed from the op alone.
func oracleTSDB(c *hlib.Ctx, sts []tStore, out []tOut, dedupOn bool, rl []string, qmint, qmaxt int64) {
	rlSet := map[string]bool{}
	if dedupOn {
		for _, n := range rl {
			rlSet[n] = true
		}
	}
	// the copies of every logical series: label set after removing the replica labels -> copies
	type group struct{ copies [][]smp }
	want := map[string]*group{}
	for _, st := range sts {
		for _, s := range st.series {
			inRange := false
			for _, ch := range s.chunks {
				if ch[len(ch)-1].t >= qmint && ch[0].t <= qmaxt {
					inRange = true
				}
			}
			if !inRange {
				continue // the store has no chunk of it in the range: it sends nothing for the series
			}
			k := withoutLabels(fullLabels(st.ext, s.ls), rlSet)
			if want[k] == nil {
				want[k] = &group{}
			}
			want[k].copies = append(want[k].copies, s.s)
		}
	}
	got := map[string]int{}
	for _, o := range out {
		if !strictlyIncreasing(o.s) {
			c.Violation("order", fmt.Sprintf("series {%s}: timestamps do not strictly increase", fmtLbls(o.ls)))
		}
		for _, l := range o.ls {
			if rlSet[l.k] {
				c.Violation("replica-label-left", fmt.Sprintf("deduplication on over %v, but the returned series {%s} carries %s", rl, fmtLbls(o.ls), l.k))
				break
			}
		}
		k := withoutLabels(o.ls, rlSet)
		got[k]++
		if got[k] == 2 {
			what := "several-series-per-label-set"
			if !dedupOn {
				what = "duplicate-series"
			}
			c.Violation(what, fmt.Sprintf("more than one returned series for the label set {%s}", k))
		}
		g := want[k]
		if g == nil {
			c.Violation("series-set", fmt.Sprintf("returned series {%s} is no stored series (replica labels removed)", k))
			continue
		}
		identical := true
		for _, cp := range g.copies[1:] {
			if !sameSamples(cp, g.copies[0]) {
				identical = false
			}
		}
		if identical {
			if w, h := inRangeSamples(g.copies[0], qmint, qmaxt), inRangeSamples(o.s, qmint, qmaxt); !sameSamples(w, h) {
				cls := "identical-wrong-samples"
				if !dedupOn {
					cls = "raw-wrong-samples"
				}
				c.Violation(cls, fmt.Sprintf("series {%s}: %d samples in range returned, every copy holds %d", k, len(h), len(w)))
			}
		}
		// provenance: nothing is invented
		have := map[smp]bool{}
		for _, cp := range g.copies {
			for _, x := range cp {
				have[x] = true
			}
		}
		for _, x := range o.s {
			if !have[x] {
				c.Violation("provenance", fmt.Sprintf("series {%s}: sample %d:%d is in no copy", k, x.t, x.v))
				break
			}
		}
	}
	for k := range want {
		if got[k] == 0 {
			c.Violation("series-set", fmt.Sprintf("stored series {%s} with data in range is not returned", k))
		}
	}
}

// ---------------------------------------------------------------- generator

func genC04TSDB(c *hlib.Ctx) {
	r := c.R
	n := budget(c, 150, 3000)
	serRep := []string{"prometheus_replica", "replica"}
	for i := 0; i < n; i++ {
		nstores := r.Range(1, 3)
		// requested replica labels: 1..3 of external / in-series / neither
		var rl []string
		kinds := map[string]bool{}
		for _, cand := range []struct {
			name, kind string
			p          int
		}{{"receive_replica", "ext", 70}, {"prometheus_replica", "ser", 70}, {"rule_replica", "ext", 25}, {"replica", "ser", 25}, {"ghost", "neither", 25}} {
			if len(rl) < 3 && r.Chance(cand.p, 100) {
				rl = append(rl, cand.name)
				kinds[cand.kind] = true
			}
		}
		if r.Chance(1, 2) { // the order of the flag values is arbitrary
			for a, b := 0, len(rl)-1; a < b; a, b = a+1, b-1 {
				rl[a], rl[b] = rl[b], rl[a]
			}
		}
		var ks []string
		for _, k := range []string{"ext", "ser", "neither"} {
			if kinds[k] {
				ks = append(ks, k)
			}
		}
		if len(rl) == 0 {
			ks = []string{"none"}
		}
		c.Count("tsdb:replica-labels:" + strings.Join(ks, "+"))
		c.Count(fmt.Sprintf("tsdb:replica-label-count:%d", len(rl)))
		// logical series: one head chunk, or 2..20 head chunks cut at the windows of a small chunk range
		multi := r.Chance(1, 2)
		cr := int64(7200000)
		frame := 0
		if multi {
			cr = []int64{60000, 600000}[r.Intn(2)]
			frame = pickInt(r, 1, 64, 512, 0)
			c.Count("tsdb:chunks:2..20-per-series")
		} else {
			frame = pickInt(r, 0, 0, 1, 64)
			c.Count("tsdb:chunks:1-per-series")
		}
		c.Count(fmt.Sprintf("tsdb:frame-limit:%d", frame))
		base := cr * r.I64Range(1, 200)
		step := []int64{1000, 15000, 30000}[r.Intn(3)]
		nlog := r.Range(1, 3)
		type logical struct {
			ls     []tLbl
			chunks [][]smp
			s      []smp
		}
		var logs []logical
		for li := 0; li < nlog; li++ {
			l := logical{ls: []tLbl{{"__name__", "up"}, {"job", fmt.Sprintf("j%d", li)}}}
			if !multi {
				var s []smp
				t := base + r.I64Range(1, step)
				for k, m := 0, r.Range(1, 29); k < m; k++ {
					s = append(s, smp{t, int64(li*1000 + k)})
					t += step + r.I64Range(0, step/10)
				}
				l.chunks = [][]smp{s}
			} else {
				w := base/cr + r.I64Range(0, 3)
				v := int64(li * 10000)
				for k, m := 0, r.Range(2, 20); k < m; k++ {
					cnt := r.Range(1, 8)
					if r.Chance(1, 10) {
						cnt = r.Range(20, 29)
					}
					stepc := cr / int64(cnt+1)
					var ch []smp
					for q := 0; q < cnt; q++ {
						ch = append(ch, smp{w*cr + int64(q)*stepc + r.I64Range(0, stepc/2), v})
						v++
					}
					l.chunks = append(l.chunks, ch)
					w++
					if r.Chance(1, 8) {
						w += r.I64Range(1, 3) // a scrape gap
					}
				}
			}
			for _, ch := range l.chunks {
				l.s = append(l.s, ch...)
			}
			logs = append(logs, l)
		}
		region := []string{"eu", "us"}
		var sts []tStore
		for si := 0; si < nstores; si++ {
			st := tStore{}
			// every store has its own receive_replica value, so external label sets are unique
			st.ext = append(st.ext, tLbl{"receive_replica", fmt.Sprintf("r%d", si)})
			if r.Chance(2, 3) {
				st.ext = append(st.ext, tLbl{"region", region[pickInt(r, 0, 0, 0, 1)]})
			}
			if r.Chance(1, 3) {
				st.ext = append(st.ext, tLbl{"rule_replica", fmt.Sprintf("q%d", r.Intn(2))})
			}
			sort.Slice(st.ext, func(a, b int) bool { return st.ext[a].k < st.ext[b].k })
			for _, l := range logs {
				if nstores > 1 && r.Chance(1, 5) {
					continue // this store does not hold the series
				}
				switch r.Intn(4) {
				case 0: // no replica label stored with the series
					st.series = append(st.series, tSeries{ls: l.ls, chunks: l.chunks, s: l.s})
				default:
					name := serRep[pickInt(r, 0, 0, 0, 1)]
					for _, v := range []string{"p1", "p2"}[:r.Range(1, 2)] {
						ls := append(append([]tLbl(nil), l.ls...), tLbl{name, v})
						sort.Slice(ls, func(a, b int) bool { return ls[a].k < ls[b].k })
						st.series = append(st.series, tSeries{ls: ls, chunks: l.chunks, s: l.s})
					}
				}
			}
			sts = append(sts, st)
		}
		dedupOn := !r.Chance(1, 4)
		wrl := !r.Chance(1, 4)
		lo, hi := int64(math.MaxInt64), int64(0)
		for _, l := range logs {
			if l.s[0].t < lo {
				lo = l.s[0].t
			}
			if l.s[len(l.s)-1].t > hi {
				hi = l.s[len(l.s)-1].t
			}
		}
		qmint, qmaxt := lo-10, hi+10
		if r.Chance(1, 3) {
			s := logs[r.Intn(len(logs))].s
			qmint = s[r.Intn(len(s))].t - r.I64Range(0, 1)
			qmaxt = qmint + r.I64Range(0, s[len(s)-1].t-qmint+5)
			c.Count("tsdb:range:partial")
		} else {
			c.Count("tsdb:range:all")
		}
		if qmint < 1 {
			qmint = 1
		}
		c.Count(fmt.Sprintf("tsdb:dedup:%v", dedupOn))
		c.Count(fmt.Sprintf("tsdb:stores:%d", nstores))
		c.Count(fmt.Sprintf("tsdb:stores-strip-replica-labels:%v", wrl))
		b2i := func(b bool) int {
			if b {
				return 1
			}
			return 0
		}
		rls := "-"
		if len(rl) > 0 {
			rls = strings.Join(rl, ",")
		}
		ncopies := 0
		for _, st := range sts {
			ncopies += len(st.series)
		}
		line := fmt.Sprintf("rp.tsdb %d %d %s %d %d %s", b2i(dedupOn), b2i(wrl), rls, qmint, qmaxt, fmtTStores(sts))
		if frame != 0 || cr != 7200000 {
			line += fmt.Sprintf(" %d %d", frame, cr)
		}
		out := c.Do(line, true)
		if multi && frame > 0 && frame <= 64 {
			c.Count("tsdb:shape:series-spans-several-frames")
		}
		if out != "-" && dedupOn && strings.Count(out, "|")+1 < ncopies {
			c.Count("tsdb:answer:copies-merged")
		}
		// the seeded shape: one requested replica label is external, another is stored with the series
		if dedupOn && wrl && kinds["ext"] && kinds["ser"] {
			c.Count("tsdb:shape:external-and-in-series-replica-label,stores-strip")
		}
	}
}
