// C04, full read path over REAL stores: 1–3 store.NewTSDBStore over real tsdb.DB instances (temp
// directories under os.TempDir(), removed when the op ends), each with its own external labels,
// behind the real ProxyStore and query.NewQueryableCreator, with several replica labels that are
// external labels of the stores, labels stored with the series, or neither.
//
//	rp.tsdb <dedup> <wrl> <replicaLabels> <qmint> <qmaxt> <stores>
//	   replicaLabels = name,name,… | -
//	   stores = ST|ST|…    ST = <ext>#<ser>#<ser>…     ext = labels | -
//	            ser = <labels>@<samples>               labels = k=v,k=v,… (sorted by name)
//	   answer = S|S|…      S = <labels>@<samples>, ordered by the rendered label set; - = no series
//
// Domain (else "bad-op"): every series has a __name__ label and 1..29 samples with strictly
// increasing timestamps >= 1, all samples of the op inside one hour that does not cross a
// two-hour boundary (every series is ONE head chunk: below the head's 30-sample re-planning of
// the chunk end, inside one chunk range, no out-of-bound appends); series and external label
// names are disjoint; label names [a-z_]+, values [a-z0-9]+.
package main

import (
	"context"
	"fmt"
	"math"
	"os"
	"sort"
	"strconv"
	"strings"
	"time"

	"github.com/prometheus/prometheus/model/labels"
	"github.com/prometheus/prometheus/storage"
	"github.com/prometheus/prometheus/tsdb"
	"github.com/prometheus/prometheus/tsdb/chunkenc"
	"go.uber.org/atomic"

	"github.com/thanos-io/thanos/pkg/component"
	"github.com/thanos-io/thanos/pkg/dedup"
	"github.com/thanos-io/thanos/pkg/query"
	"github.com/thanos-io/thanos/pkg/store"
	"github.com/thanos-io/thanos/pkg/store/storepb"
	storetestutil "github.com/thanos-io/thanos/pkg/store/storepb/testutil"
	"github.com/thanos-io/thanos/verifharness/hlib"
)

type tLbl struct{ k, v string }

type tSeries struct {
	ls []tLbl
	s  []smp
}

type tStore struct {
	ext    []tLbl
	series []tSeries
}

func fmtLbls(ls []tLbl) string {
	if len(ls) == 0 {
		return "-"
	}
	p := make([]string, len(ls))
	for i, l := range ls {
		p[i] = l.k + "=" + l.v
	}
	return strings.Join(p, ",")
}

func okName(s string, digits bool) bool {
	if s == "" {
		return false
	}
	for _, ch := range s {
		if (ch >= 'a' && ch <= 'z') || (!digits && ch == '_') || (digits && ch >= '0' && ch <= '9') {
			continue
		}
		return false
	}
	return true
}

func parseLbls(s string) ([]tLbl, bool) {
	if s == "-" {
		return nil, true
	}
	var out []tLbl
	for _, x := range strings.Split(s, ",") {
		p := strings.Split(x, "=")
		if len(p) != 2 || !okName(p[0], false) || !okName(p[1], true) {
			return nil, false
		}
		if len(out) > 0 && out[len(out)-1].k >= p[0] {
			return nil, false
		}
		out = append(out, tLbl{p[0], p[1]})
	}
	return out, true
}

func parseTStores(s string) ([]tStore, bool) {
	var out []tStore
	for _, x := range strings.Split(s, "|") {
		p := strings.Split(x, "#")
		ext, ok := parseLbls(p[0])
		if !ok {
			return nil, false
		}
		st := tStore{ext: ext}
		for _, y := range p[1:] {
			q := strings.Split(y, "@")
			if len(q) != 2 {
				return nil, false
			}
			ls, ok1 := parseLbls(q[0])
			sm, ok2 := parseReplica(q[1])
			if !ok1 || !ok2 {
				return nil, false
			}
			st.series = append(st.series, tSeries{ls: ls, s: sm})
		}
		out = append(out, st)
	}
	return out, true
}

func fmtTStores(sts []tStore) string {
	p := make([]string, len(sts))
	for i, st := range sts {
		q := []string{fmtLbls(st.ext)}
		for _, s := range st.series {
			q = append(q, fmtLbls(s.ls)+"@"+fmtReplica(s.s))
		}
		p[i] = strings.Join(q, "#")
	}
	return strings.Join(p, "|")
}

// tsdbDomain checks the restrictions listed in the file comment.
func tsdbDomain(sts []tStore) bool {
	lo, hi := int64(math.MaxInt64), int64(math.MinInt64)
	for _, st := range sts {
		extNames := map[string]bool{}
		for _, l := range st.ext {
			extNames[l.k] = true
		}
		seen := map[string]bool{}
		for _, s := range st.series {
			hasName := false
			for _, l := range s.ls {
				if extNames[l.k] {
					return false
				}
				if l.k == "__name__" {
					hasName = true
				}
			}
			if !hasName || len(s.s) == 0 || len(s.s) > 29 || !strictlyIncreasing(s.s) || seen[fmtLbls(s.ls)] {
				return false
			}
			seen[fmtLbls(s.ls)] = true
			if s.s[0].t < lo {
				lo = s.s[0].t
			}
			if s.s[len(s.s)-1].t > hi {
				hi = s.s[len(s.s)-1].t
			}
		}
	}
	if lo > hi {
		return true // no series at all
	}
	const twoH = int64(7200000)
	return lo >= 1 && hi-lo < twoH/2 && lo/twoH == hi/twoH
}

type tOut struct {
	ls []tLbl
	s  []smp
}

// runTSDB builds the stores and runs one Select through the real proxy and querier.
func runTSDB(sts []tStore, dedupOn, wrl bool, rl []string, qmint, qmaxt int64) (out []tOut, status string) {
	root, err := os.MkdirTemp("", "verif-dedup-c04-")
	if err != nil {
		return nil, "err-tempdir"
	}
	var dbs []*tsdb.DB
	defer func() {
		for _, db := range dbs {
			_ = db.Close()
		}
		_ = os.RemoveAll(root)
	}()
	defer func() {
		if r := recover(); r != nil {
			out, status = nil, "panic"
		}
	}()
	var cls []store.Client
	for i, st := range sts {
		opts := tsdb.DefaultOptions()
		opts.RetentionDuration = math.MaxInt64
		opts.WALSegmentSize = -1 // no WAL: nothing is ever reopened
		db, err := tsdb.Open(fmt.Sprintf("%s/%d", root, i), nil, nil, opts, nil)
		if err != nil {
			return nil, "err-open"
		}
		dbs = append(dbs, db)
		app := db.Appender(context.Background())
		for _, s := range st.series {
			var kv []string
			for _, l := range s.ls {
				kv = append(kv, l.k, l.v)
			}
			lset := labels.FromStrings(kv...)
			var ref storage.SeriesRef
			for _, x := range s.s {
				if ref, err = app.Append(ref, lset, x.t, float64(x.v)); err != nil {
					return nil, "err-append"
				}
			}
		}
		if err := app.Commit(); err != nil {
			return nil, "err-commit"
		}
		var kv []string
		for _, l := range st.ext {
			kv = append(kv, l.k, l.v)
		}
		ext := labels.FromStrings(kv...)
		cls = append(cls, &storetestutil.TestClient{
			Name:        strconv.Itoa(i),
			StoreClient: storepb.ServerAsClient(store.NewTSDBStore(nil, db, component.Receive, ext), atomic.Bool{}),
			ExtLset:     []labels.Labels{ext},
			MinTime:     math.MinInt64, MaxTime: math.MaxInt64,
			WithoutReplicaLabelsEnabled: wrl,
		})
	}
	proxy := store.NewProxyStore(nil, nil, func() []store.Client { return cls }, component.Query, labels.EmptyLabels(), 0, store.EagerRetrieval)
	qc := query.NewQueryableCreator(nil, nil, proxy, 2, time.Minute, dedup.AlgorithmPenalty, 0)
	q, err := qc(dedupOn, rl, nil, 0, false, false, nil, query.NoopSeriesStatsReporter).Querier(qmint, qmaxt)
	if err != nil {
		return nil, "err"
	}
	defer q.Close()
	set := q.Select(context.Background(), false, &storage.SelectHints{Start: qmint, End: qmaxt},
		labels.MustNewMatcher(labels.MatchRegexp, "__name__", ".+"))
	for set.Next() {
		s := set.At()
		var o tOut
		s.Labels().Range(func(l labels.Label) { o.ls = append(o.ls, tLbl{l.Name, l.Value}) })
		it := s.Iterator(nil)
		for it.Next() != chunkenc.ValNone {
			t, v := it.At()
			o.s = append(o.s, smp{t, int64(v)})
		}
		if it.Err() != nil {
			return nil, "err"
		}
		out = append(out, o)
	}
	if set.Err() != nil {
		return nil, "err"
	}
	return out, "ok"
}

func fmtTOut(out []tOut) string {
	if len(out) == 0 {
		return "-"
	}
	o2 := append([]tOut(nil), out...)
	sort.SliceStable(o2, func(i, j int) bool { return fmtLbls(o2[i].ls) < fmtLbls(o2[j].ls) }) // by the rendered label set
	p := make([]string, len(o2))
	for i, o := range o2 {
		p[i] = fmtLbls(o.ls) + "@" + fmtReplica(o.s)
	}
	return strings.Join(p, "|")
}

// withoutLabels renders ls without the labels named in rl.
func withoutLabels(ls []tLbl, rl map[string]bool) string {
	var keep []tLbl
	for _, l := range ls {
		if !rl[l.k] {
			keep = append(keep, l)
		}
	}
	return fmtLbls(keep)
}

func fullLabels(ext, ser []tLbl) []tLbl {
	all := append(append([]tLbl(nil), ser...), ext...) // names are disjoint in the domain
	sort.Slice(all, func(i, j int) bool { return all[i].k < all[j].k })
	return all
}

func inRangeSamples(s []smp, qmint, qmaxt int64) []smp {
	var out []smp
	for _, x := range s {
		if x.t >= qmint && x.t <= qmaxt {
			out = append(out, x)
		}
	}
	return out
}

func execC04TSDB(c *hlib.Ctx, tok []string) string {
	if len(tok) != 7 {
		return "bad-op"
	}
	qmint, err1 := strconv.ParseInt(tok[4], 10, 64)
	qmaxt, err2 := strconv.ParseInt(tok[5], 10, 64)
	sts, ok := parseTStores(tok[6])
	if !ok || err1 != nil || err2 != nil || (tok[1] != "0" && tok[1] != "1") || (tok[2] != "0" && tok[2] != "1") || !tsdbDomain(sts) {
		return "bad-op"
	}
	var rl []string
	if tok[3] != "-" {
		rl = strings.Split(tok[3], ",")
		for _, n := range rl {
			if !okName(n, false) {
				return "bad-op"
			}
		}
	}
	dedupOn, wrl := tok[1] == "1", tok[2] == "1"
	out, status := runTSDB(sts, dedupOn, wrl, rl, qmint, qmaxt)
	if status != "ok" {
		c.Violation(status, "Select over TSDB stores answers "+status)
		return status
	}
	oracleTSDB(c, sts, out, dedupOn, rl, qmint, qmaxt)
	return fmtTOut(out)
}

// oracleTSDB is C04's statement on label sets and samples, computed from the op alone.
func oracleTSDB(c *hlib.Ctx, sts []tStore, out []tOut, dedupOn bool, rl []string, qmint, qmaxt int64) {
	rlSet := map[string]bool{}
	if dedupOn {
		for _, n := range rl {
			rlSet[n] = true
		}
	}
	// the copies of every logical series: label set after removing the replica labels -> copies
	type group struct{ copies [][]smp }
	want := map[string]*group{}
	for _, st := range sts {
		for _, s := range st.series {
			if s.s[len(s.s)-1].t < qmint || s.s[0].t > qmaxt {
				continue // the store has no chunk of it in the range
			}
			k := withoutLabels(fullLabels(st.ext, s.ls), rlSet)
			if want[k] == nil {
				want[k] = &group{}
			}
			want[k].copies = append(want[k].copies, s.s)
		}
	}
	got := map[string]int{}
	for _, o := range out {
		if !strictlyIncreasing(o.s) {
			c.Violation("order", fmt.Sprintf("series {%s}: timestamps do not strictly increase", fmtLbls(o.ls)))
		}
		for _, l := range o.ls {
			if rlSet[l.k] {
				c.Violation("replica-label-left", fmt.Sprintf("deduplication on over %v, but the returned series {%s} carries %s", rl, fmtLbls(o.ls), l.k))
				break
			}
		}
		k := withoutLabels(o.ls, rlSet)
		got[k]++
		if got[k] == 2 {
			what := "several-series-per-label-set"
			if !dedupOn {
				what = "duplicate-series"
			}
			c.Violation(what, fmt.Sprintf("more than one returned series for the label set {%s}", k))
		}
		g := want[k]
		if g == nil {
			c.Violation("series-set", fmt.Sprintf("returned series {%s} is no stored series (replica labels removed)", k))
			continue
		}
		identical := true
		for _, cp := range g.copies[1:] {
			if !sameSamples(cp, g.copies[0]) {
				identical = false
			}
		}
		if identical {
			if w, h := inRangeSamples(g.copies[0], qmint, qmaxt), inRangeSamples(o.s, qmint, qmaxt); !sameSamples(w, h) {
				cls := "identical-wrong-samples"
				if !dedupOn {
					cls = "raw-wrong-samples"
				}
				c.Violation(cls, fmt.Sprintf("series {%s}: %d samples in range returned, every copy holds %d", k, len(h), len(w)))
			}
		}
		// provenance: nothing is invented
		have := map[smp]bool{}
		for _, cp := range g.copies {
			for _, x := range cp {
				have[x] = true
			}
		}
		for _, x := range o.s {
			if !have[x] {
				c.Violation("provenance", fmt.Sprintf("series {%s}: sample %d:%d is in no copy", k, x.t, x.v))
				break
			}
		}
	}
	for k := range want {
		if got[k] == 0 {
			c.Violation("series-set", fmt.Sprintf("stored series {%s} with data in range is not returned", k))
		}
	}
}

// ---------------------------------------------------------------- generator

func genC04TSDB(c *hlib.Ctx) {
	r := c.R
	n := budget(c, 150, 3000)
	serRep := []string{"prometheus_replica", "replica"}
	for i := 0; i < n; i++ {
		nstores := r.Range(1, 3)
		// requested replica labels: 1..3 of external / in-series / neither
		var rl []string
		kinds := map[string]bool{}
		for _, cand := range []struct {
			name, kind string
			p          int
		}{{"receive_replica", "ext", 70}, {"prometheus_replica", "ser", 70}, {"rule_replica", "ext", 25}, {"replica", "ser", 25}, {"ghost", "neither", 25}} {
			if len(rl) < 3 && r.Chance(cand.p, 100) {
				rl = append(rl, cand.name)
				kinds[cand.kind] = true
			}
		}
		if r.Chance(1, 2) { // the order of the flag values is arbitrary
			for a, b := 0, len(rl)-1; a < b; a, b = a+1, b-1 {
				rl[a], rl[b] = rl[b], rl[a]
			}
		}
		var ks []string
		for _, k := range []string{"ext", "ser", "neither"} {
			if kinds[k] {
				ks = append(ks, k)
			}
		}
		if len(rl) == 0 {
			ks = []string{"none"}
		}
		c.Count("tsdb:replica-labels:" + strings.Join(ks, "+"))
		c.Count(fmt.Sprintf("tsdb:replica-label-count:%d", len(rl)))
		// logical series
		base := int64(7200000) * r.I64Range(1, 200)
		step := []int64{1000, 15000, 30000}[r.Intn(3)]
		nlog := r.Range(1, 3)
		type logical struct {
			ls []tLbl
			s  []smp
		}
		var logs []logical
		for li := 0; li < nlog; li++ {
			var s []smp
			t := base + r.I64Range(1, step)
			for k, m := 0, r.Range(1, 29); k < m; k++ {
				s = append(s, smp{t, int64(li*1000 + k)})
				t += step + r.I64Range(0, step/10)
			}
			logs = append(logs, logical{ls: []tLbl{{"__name__", "up"}, {"job", fmt.Sprintf("j%d", li)}}, s: s})
		}
		region := []string{"eu", "us"}
		var sts []tStore
		for si := 0; si < nstores; si++ {
			st := tStore{}
			// every store has its own receive_replica value, so external label sets are unique
			st.ext = append(st.ext, tLbl{"receive_replica", fmt.Sprintf("r%d", si)})
			if r.Chance(2, 3) {
				st.ext = append(st.ext, tLbl{"region", region[pickInt(r, 0, 0, 0, 1)]})
			}
			if r.Chance(1, 3) {
				st.ext = append(st.ext, tLbl{"rule_replica", fmt.Sprintf("q%d", r.Intn(2))})
			}
			sort.Slice(st.ext, func(a, b int) bool { return st.ext[a].k < st.ext[b].k })
			for _, l := range logs {
				if nstores > 1 && r.Chance(1, 5) {
					continue // this store does not hold the series
				}
				switch r.Intn(4) {
				case 0: // no replica label stored with the series
					st.series = append(st.series, tSeries{ls: l.ls, s: l.s})
				default:
					name := serRep[pickInt(r, 0, 0, 0, 1)]
					for _, v := range []string{"p1", "p2"}[:r.Range(1, 2)] {
						ls := append(append([]tLbl(nil), l.ls...), tLbl{name, v})
						sort.Slice(ls, func(a, b int) bool { return ls[a].k < ls[b].k })
						st.series = append(st.series, tSeries{ls: ls, s: l.s})
					}
				}
			}
			sts = append(sts, st)
		}
		dedupOn := !r.Chance(1, 4)
		wrl := !r.Chance(1, 4)
		qmint, qmaxt := base-10, base+3600000
		if r.Chance(1, 3) {
			s := logs[r.Intn(len(logs))].s
			qmint = s[r.Intn(len(s))].t - r.I64Range(0, 1)
			qmaxt = qmint + r.I64Range(0, s[len(s)-1].t-qmint+5)
			c.Count("tsdb:range:partial")
		} else {
			c.Count("tsdb:range:all")
		}
		c.Count(fmt.Sprintf("tsdb:dedup:%v", dedupOn))
		c.Count(fmt.Sprintf("tsdb:stores:%d", nstores))
		c.Count(fmt.Sprintf("tsdb:stores-strip-replica-labels:%v", wrl))
		b2i := func(b bool) int {
			if b {
				return 1
			}
			return 0
		}
		rls := "-"
		if len(rl) > 0 {
			rls = strings.Join(rl, ",")
		}
		ncopies := 0
		for _, st := range sts {
			ncopies += len(st.series)
		}
		out := c.Do(fmt.Sprintf("rp.tsdb %d %d %s %d %d %s", b2i(dedupOn), b2i(wrl), rls, qmint, qmaxt, fmtTStores(sts)), true)
		if out != "-" && dedupOn && strings.Count(out, "|")+1 < ncopies {
			c.Count("tsdb:answer:copies-merged")
		}
		// the seeded shape: one requested replica label is external, another is stored with the series
		if dedupOn && wrl && kinds["ext"] && kinds["ser"] {
			c.Count("tsdb:shape:external-and-in-series-replica-label,stores-strip")
		}
	}
}
