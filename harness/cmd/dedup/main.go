// Family binary "dedup": C01 C02 C04 C40.
package main

import "github.com/thanos-io/thanos/verifharness/hlib"

var props []*hlib.Prop

func main() { hlib.Main(props) }
