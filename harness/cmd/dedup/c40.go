package main

// C40 — offline deduplication of downsampled chunks keeps every aggregate sample.
//
// op:
//   cm.merge <series>          NewChunkSeriesMerger()(series...).Iterator(nil), drained
//      series   = S|S|…        S = chunk;chunk;…
//      chunk    = mint/maxt/A0/A1/A2/A3/A4      Ai = n (aggregate absent) | e (no samples) | t:v,t:v,…
//                 (A0..A4 = count, sum, min, max, counter; real XOR chunks inside a real AggrChunk)
//      answer   = chunk;chunk;… of the merged series | - (no chunk) | panic | err
//
// Oracle (independent of the model), for well-formed downsampled input (every chunk carries all five
// aggregates, sum/min/max have exactly the count's timestamps, the counter has them plus its last
// sample once more; timestamps ≥ 1; chunks of a series ordered and disjoint):
//   window-first-sample-missing   an aggregate of an output chunk has exactly the count's timestamps
//                                 without the first one (the F40 class)
//   aggr-timestamps-differ        any other difference between an aggregate's and the count's timestamps
//   chunk-bounds                  MinTime/MaxTime of an output chunk are not its first/last count timestamp
//   chunk-order                   output chunks are not ordered by time
//   count-order                   count timestamps inside a chunk do not strictly increase
//   panic / err                   the merger panicked or reported an error

import (
	"fmt"
	"strconv"
	"strings"

	"github.com/prometheus/prometheus/model/labels"
	"github.com/prometheus/prometheus/storage"
	"github.com/prometheus/prometheus/tsdb/chunkenc"
	"github.com/prometheus/prometheus/tsdb/chunks"

	"github.com/thanos-io/thanos/pkg/compact/downsample"
	"github.com/thanos-io/thanos/pkg/dedup"
	"github.com/thanos-io/thanos/verifharness/hlib"
)

func init() {
	props = append(props, &hlib.Prop{ID: "C40", Gen: genC40, Exec: execC40})
}

type aggrChk struct {
	mint, maxt int64
	present    [5]bool
	a          [5][]smp
}

func fmtAggr(present bool, s []smp) string {
	if !present {
		return "n"
	}
	return fmtReplica(s) // "e" for no samples
}

func fmtChunk(c aggrChk) string {
	p := []string{strconv.FormatInt(c.mint, 10), strconv.FormatInt(c.maxt, 10)}
	for i := 0; i < 5; i++ {
		p = append(p, fmtAggr(c.present[i], c.a[i]))
	}
	return strings.Join(p, "/")
}

func fmtChunks(cs []aggrChk) string {
	if len(cs) == 0 {
		return "-"
	}
	ss := make([]string, len(cs))
	for i, c := range cs {
		ss[i] = fmtChunk(c)
	}
	return strings.Join(ss, ";")
}

func fmtSeriesList(ss [][]aggrChk) string {
	out := make([]string, len(ss))
	for i, s := range ss {
		out[i] = fmtChunks(s)
	}
	return strings.Join(out, "|")
}

func parseChunk(s string) (aggrChk, bool) {
	var c aggrChk
	p := strings.Split(s, "/")
	if len(p) != 7 {
		return c, false
	}
	var err1, err2 error
	c.mint, err1 = strconv.ParseInt(p[0], 10, 64)
	c.maxt, err2 = strconv.ParseInt(p[1], 10, 64)
	if err1 != nil || err2 != nil {
		return c, false
	}
	for i := 0; i < 5; i++ {
		if p[2+i] == "n" {
			continue
		}
		r, ok := parseReplica(p[2+i])
		if !ok {
			return c, false
		}
		c.present[i], c.a[i] = true, r
	}
	return c, true
}

func parseSeriesList(s string) ([][]aggrChk, bool) {
	var out [][]aggrChk
	for _, x := range strings.Split(s, "|") {
		var cs []aggrChk
		for _, y := range strings.Split(x, ";") {
			c, ok := parseChunk(y)
			if !ok {
				return nil, false
			}
			cs = append(cs, c)
		}
		out = append(out, cs)
	}
	return out, true
}

func xorOf(s []smp) chunkenc.Chunk {
	c := chunkenc.NewXORChunk()
	app, err := c.Appender()
	if err != nil {
		panic(err)
	}
	for _, x := range s {
		app.Append(x.t, float64(x.v))
	}
	return c
}

func toMeta(c aggrChk) chunks.Meta {
	var chks [5]chunkenc.Chunk
	for i := 0; i < 5; i++ {
		if c.present[i] {
			chks[i] = xorOf(c.a[i])
		}
	}
	return chunks.Meta{MinTime: c.mint, MaxTime: c.maxt, Chunk: downsample.EncodeAggrChunk(chks)}
}

func fromMeta(m chunks.Meta) (aggrChk, error) {
	c := aggrChk{mint: m.MinTime, maxt: m.MaxTime}
	ac, ok := m.Chunk.(*downsample.AggrChunk)
	if !ok {
		return c, fmt.Errorf("output chunk is a %T", m.Chunk)
	}
	for i := 0; i < 5; i++ {
		x, err := ac.Get(downsample.AggrType(i))
		if err == downsample.ErrAggrNotExist {
			continue
		}
		if err != nil {
			return c, err
		}
		c.present[i] = true
		it := x.Iterator(nil)
		for it.Next() != chunkenc.ValNone {
			t, v := it.At()
			c.a[i] = append(c.a[i], smp{t, int64(v)})
		}
		if it.Err() != nil {
			return c, it.Err()
		}
	}
	return c, nil
}

func runMerge(in [][]aggrChk) (out []aggrChk, status string) {
	defer func() {
		if r := recover(); r != nil {
			out, status = nil, "panic"
		}
	}()
	lset := labels.FromStrings("a", "1")
	var series []storage.ChunkSeries
	for _, s := range in {
		metas := make([]chunks.Meta, len(s))
		for i, c := range s {
			metas[i] = toMeta(c)
		}
		series = append(series, &storage.ChunkSeriesEntry{Lset: lset, ChunkIteratorFn: func(chunks.Iterator) chunks.Iterator {
			return storage.NewListChunkSeriesIterator(metas...)
		}})
	}
	it := dedup.NewChunkSeriesMerger()(series...).Iterator(nil)
	for it.Next() {
		c, err := fromMeta(it.At())
		if err != nil {
			return nil, "err"
		}
		out = append(out, c)
	}
	if it.Err() != nil {
		return nil, "err"
	}
	return out, "ok"
}

func tsList(s []smp) []int64 {
	out := make([]int64, len(s))
	for i, x := range s {
		out[i] = x.t
	}
	return out
}

func eqTs(a, b []int64) bool {
	if len(a) != len(b) {
		return false
	}
	for i := range a {
		if a[i] != b[i] {
			return false
		}
	}
	return true
}

// wellFormedDownsampled: the input precondition of the C40 oracle.
func wellFormedDownsampled(in [][]aggrChk) bool {
	for _, s := range in {
		last := int64(0)
		for _, c := range s {
			for i := 0; i < 5; i++ {
				if !c.present[i] {
					return false
				}
			}
			ct := tsList(c.a[0])
			if len(ct) == 0 || ct[0] < 1 || ct[0] <= last {
				return false
			}
			for i := 1; i < len(ct); i++ {
				if ct[i] <= ct[i-1] {
					return false
				}
			}
			last = ct[len(ct)-1]
			if c.mint != ct[0] || c.maxt != last {
				return false
			}
			for i := 1; i <= 3; i++ {
				if !eqTs(tsList(c.a[i]), ct) {
					return false
				}
			}
			if !eqTs(tsList(c.a[4]), append(append([]int64(nil), ct...), last)) {
				return false
			}
		}
	}
	return true
}

var aggrNames = [5]string{"count", "sum", "min", "max", "counter"}

func execC40(c *hlib.Ctx, tok []string) string {
	return guarded(c, func() string { return execC40Body(c, tok) })
}

func execC40Body(c *hlib.Ctx, tok []string) string {
	if len(tok) != 2 || tok[0] != "cm.merge" {
		return "bad-op"
	}
	in, ok := parseSeriesList(tok[1])
	if !ok {
		return "bad-op"
	}
	out, status := runMerge(in)
	judged := wellFormedDownsampled(in)
	if status != "ok" {
		if judged {
			c.Violation(status, "the merger answers "+status+" on well-formed downsampled chunks")
		}
		return status
	}
	if !judged {
		return fmtChunks(out)
	}
	prevMax := int64(0)
	for k, oc := range out {
		ct := tsList(oc.a[0])
		if !oc.present[0] || len(ct) == 0 {
			c.Violation("aggr-timestamps-differ", fmt.Sprintf("output chunk %d has no count samples", k))
			continue
		}
		for i := 1; i < len(ct); i++ {
			if ct[i] <= ct[i-1] {
				c.Violation("count-order", fmt.Sprintf("output chunk %d: count timestamps %d, %d", k, ct[i-1], ct[i]))
				break
			}
		}
		if oc.mint != ct[0] || oc.maxt != ct[len(ct)-1] {
			c.Violation("chunk-bounds", fmt.Sprintf("output chunk %d: [%d,%d] but count samples span [%d,%d]", k, oc.mint, oc.maxt, ct[0], ct[len(ct)-1]))
		}
		if k > 0 && oc.mint <= prevMax {
			c.Violation("chunk-order", fmt.Sprintf("output chunk %d starts at %d, the previous one ends at %d", k, oc.mint, prevMax))
		}
		prevMax = oc.maxt
		for i := 1; i < 5; i++ {
			want := ct
			if i == 4 {
				want = append(append([]int64(nil), ct...), ct[len(ct)-1])
			}
			got := tsList(oc.a[i])
			if oc.present[i] && eqTs(got, want) {
				continue
			}
			class := "aggr-timestamps-differ"
			if eqTs(got, want[1:]) || (!oc.present[i] && len(want) == 1) {
				class = "window-first-sample-missing"
			}
			c.Violation(class, fmt.Sprintf("output chunk %d [%d,%d]: %s has %d samples (first %s), count has %d (first %d)",
				k, oc.mint, oc.maxt, aggrNames[i], len(got), firstTs(got), len(ct), ct[0]))
		}
	}
	return fmtChunks(out)
}

func firstTs(ts []int64) string {
	if len(ts) == 0 {
		return "none"
	}
	return strconv.FormatInt(ts[0], 10)
}

// ---------------------------------------------------------------- generator

// genAggrSeries builds a downsampled series: n aggregated samples starting at t0 with the given
// step (and optional holes), cut into chunks of at most cut samples.
func genAggrSeries(r *hlib.Rand, n int, t0, step int64, holeP int, cut int, valBase int64) []aggrChk {
	var ts []int64
	t := t0
	for i := 0; i < n; i++ {
		ts = append(ts, t)
		t += step
		if holeP > 0 && r.Chance(holeP, 100) {
			t += step * r.I64Range(1, 4)
		}
	}
	var out []aggrChk
	counter := valBase + r.I64Range(0, 100)
	for lo := 0; lo < len(ts); {
		k := cut
		if r.Chance(1, 3) {
			k = r.Range(1, cut)
		}
		hi := lo + k
		if hi > len(ts) {
			hi = len(ts)
		}
		c := aggrChk{mint: ts[lo], maxt: ts[hi-1]}
		for i := 0; i < 5; i++ {
			c.present[i] = true
		}
		for _, t := range ts[lo:hi] {
			cnt := r.I64Range(1, 20)
			mn := valBase + r.I64Range(-50, 50)
			mx := mn + r.I64Range(0, 100)
			counter += r.I64Range(0, 30)
			c.a[0] = append(c.a[0], smp{t, cnt})
			c.a[1] = append(c.a[1], smp{t, cnt * (mn + mx) / 2})
			c.a[2] = append(c.a[2], smp{t, mn})
			c.a[3] = append(c.a[3], smp{t, mx})
			c.a[4] = append(c.a[4], smp{t, counter})
		}
		c.a[4] = append(c.a[4], smp{ts[hi-1], counter - r.I64Range(0, 5)}) // the raw last value, same timestamp
		out = append(out, c)
		lo = hi
	}
	return out
}

func genC40(c *hlib.Ctx) {
	r := c.R
	n := budget(c, 160, 2500)
	for i := 0; i < n; i++ {
		step := []int64{300000, 3600000, 60000}[r.Intn(3)]
		t0 := r.I64Range(1, 10_000_000)
		nser := 2
		if r.Chance(1, 5) {
			nser = 3
		}
		var lens []int
		switch r.Intn(4) {
		case 0:
			lens = []int{r.Range(1, 40), r.Range(1, 40), r.Range(1, 40)}
			c.Count("size:small(<=40)")
		case 1:
			lens = []int{r.Range(100, 140), r.Range(100, 140), r.Range(1, 140)}
			c.Count("size:around-120")
		default:
			lens = []int{r.Range(1, 400), r.Range(1, 400), r.Range(1, 400)}
			c.Count("size:1..400")
		}
		var in [][]aggrChk
		shape := r.Intn(6)
		for s := 0; s < nser; s++ {
			var off int64
			switch shape {
			case 0: // same grid
				off = 0
			case 1: // small jitter
				off = r.I64Range(0, step/50)
			case 2: // half a step apart
				off = step/2 + r.I64Range(-5, 5)
			case 3: // later start, same grid
				off = step * r.I64Range(0, int64(lens[0]))
			default:
				off = r.I64Range(0, step*int64(lens[0]+1))
			}
			holes := pickInt(r, 0, 0, 3, 10)
			cut := pickInt(r, 120, 140, 30, 7)
			in = append(in, genAggrSeries(r, lens[s], t0+off*int64(minI(s, 1)), step, holes, cut, int64(s)*1000))
		}
		c.Count(fmt.Sprintf("shape:%s", []string{"same-grid", "jitter", "half-step", "later-start", "random-offset", "random-offset"}[shape]))
		if shape == 0 && r.Chance(1, 3) {
			in[1] = in[0] // 1:1 duplicate chunks
			c.Count("shape:identical-series")
		}
		c.Count(fmt.Sprintf("series:%d", nser))
		line := "cm.merge " + fmtSeriesList(in)
		out := c.Do(line, true)
		nout := strings.Count(out, ";") + 1
		if nout > 1 {
			c.Count("answer:several-output-chunks")
		}
		if merged(in, out) {
			c.Count("answer:some-chunks-merged")
		}
	}
	// not judged (recorded, compared with the model): aggregates absent in some chunks
	for i := 0; i < budget(c, 40, 500); i++ {
		step := int64(300000)
		a := genAggrSeries(r, r.Range(1, 200), r.I64Range(1, 1000000), step, 0, pickInt(r, 120, 30), 0)
		b := genAggrSeries(r, r.Range(1, 200), r.I64Range(1, 1000000), step, 0, pickInt(r, 120, 30), 500)
		for _, s := range [][]aggrChk{a, b} {
			for k := range s {
				if r.Chance(1, 3) {
					j := r.Range(1, 4)
					s[k].present[j], s[k].a[j] = false, nil
				}
			}
		}
		c.Count("malformed:aggregate-absent-in-some-chunks")
		c.Do("cm.merge "+fmtSeriesList([][]aggrChk{a, b}), false)
	}
	// not judged: one aggregate is absent over a whole stretch of time in EVERY series, so that a
	// whole 120-sample window has no sample of it and toChunk's Seek(minTime) lands beyond the
	// window (boundedSeriesIterator.Seek does not enforce maxt; the `AtT() <= maxTime` test does)
	for i := 0; i < budget(c, 40, 500); i++ {
		step := int64(300000)
		t0 := r.I64Range(1, 1000000)
		cut := pickInt(r, 60, 30, 120, 45)
		n := r.Range(130, 330)
		a := genAggrSeries(r, n, t0, step, 0, cut, 0)
		b := genAggrSeries(r, n, t0+step/2, step, 0, cut, 500)
		j := r.Range(1, 4)
		// absent stretch: chunk indices [lo,hi) of both series
		nch := len(a)
		if len(b) < nch {
			nch = len(b)
		}
		lo, hi := 0, nch
		switch r.Intn(3) {
		case 0: // a prefix
			hi = r.Range(1, nch)
			c.Count("absent-stretch:prefix")
		case 1: // a suffix
			lo = r.Range(0, nch-1)
			c.Count("absent-stretch:suffix")
		default:
			lo = r.Range(0, nch-1)
			hi = r.Range(lo+1, nch)
			c.Count("absent-stretch:middle")
		}
		for _, s := range [][]aggrChk{a, b} {
			for k := lo; k < hi && k < len(s); k++ {
				s[k].present[j], s[k].a[j] = false, nil
			}
		}
		c.Count("malformed:aggregate-absent-over-whole-windows")
		out := c.Do("cm.merge "+fmtSeriesList([][]aggrChk{a, b}), false)
		// how often an output chunk really lacks the aggregate while a later one has it
		var lacks, later bool
		for _, o := range strings.Split(out, ";") {
			if oc, ok := parseChunk(o); ok {
				if !oc.present[j] {
					lacks = true
				} else if lacks {
					later = true
				}
			}
		}
		if later {
			c.Count("answer:window-without-the-aggregate-then-one-with-it")
		}
	}
}

func minI(a, b int) int {
	if a < b {
		return a
	}
	return b
}

// merged reports whether the output differs from a plain concatenation of input chunks, i.e. the
// overlappingMerger ran.
func merged(in [][]aggrChk, out string) bool {
	have := map[string]bool{}
	for _, s := range in {
		for _, c := range s {
			have[fmtChunk(c)] = true
		}
	}
	for _, o := range strings.Split(out, ";") {
		if !have[o] {
			return true
		}
	}
	return false
}
