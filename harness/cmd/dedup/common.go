package main

// Shared helpers of the dedup family: list series, the `dd.run` op (C01, C02) and its parsing.
//
// dd.run <f> <replicas> <calls>
//    f        = function name of the select hints (SelectHints.Func), any name; `none` = the empty string
//    replicas = r;r;…      r = e (no samples) | t:v,t:v,…     (integers)
//    calls    = c,c,…      c = n (Next) | s<t> (Seek t) | d (Next until ValNone)
//    answer   = o,o,…      o = t:v (At() after a successful call) | x (ValNone) | panic (trace ends)

import (
	"fmt"
	"math"
	"sort"
	"strconv"
	"strings"
	"sync/atomic"
	"time"

	"github.com/prometheus/prometheus/model/histogram"
	"github.com/prometheus/prometheus/model/labels"
	"github.com/prometheus/prometheus/promql/parser"
	"github.com/prometheus/prometheus/storage"
	"github.com/prometheus/prometheus/tsdb/chunkenc"
	"github.com/prometheus/prometheus/tsdb/chunks"
	"github.com/prometheus/prometheus/util/annotations"

	"github.com/thanos-io/thanos/pkg/dedup"
	"github.com/thanos-io/thanos/verifharness/hlib"
)

type smp struct {
	t int64
	v int64
}

type fsample struct {
	t int64
	f float64
}

func (s fsample) T() int64                      { return s.t }
func (s fsample) F() float64                    { return s.f }
func (s fsample) H() *histogram.Histogram       { return nil }
func (s fsample) FH() *histogram.FloatHistogram { return nil }
func (s fsample) Type() chunkenc.ValueType      { return chunkenc.ValFloat }
func (s fsample) Copy() chunks.Sample           { return s }

type sliceSeriesSet struct {
	series []storage.Series
	i      int
}

func (s *sliceSeriesSet) Next() bool                        { s.i++; return s.i <= len(s.series) }
func (s *sliceSeriesSet) At() storage.Series                { return s.series[s.i-1] }
func (s *sliceSeriesSet) Err() error                        { return nil }
func (s *sliceSeriesSet) Warnings() annotations.Annotations { return nil }

func fmtSmp(s smp) string { return fmt.Sprintf("%d:%d", s.t, s.v) }

func fmtReplica(r []smp) string {
	if len(r) == 0 {
		return "e"
	}
	ss := make([]string, len(r))
	for i, s := range r {
		ss[i] = fmtSmp(s)
	}
	return strings.Join(ss, ",")
}

func fmtReplicas(rs [][]smp) string {
	ss := make([]string, len(rs))
	for i, r := range rs {
		ss[i] = fmtReplica(r)
	}
	return strings.Join(ss, ";")
}

func parseSmp(s string) (smp, bool) {
	p := strings.Split(s, ":")
	if len(p) != 2 {
		return smp{}, false
	}
	t, err1 := strconv.ParseInt(p[0], 10, 64)
	v, err2 := strconv.ParseInt(p[1], 10, 64)
	return smp{t, v}, err1 == nil && err2 == nil
}

func parseReplica(s string) ([]smp, bool) {
	if s == "e" {
		return nil, true
	}
	var out []smp
	for _, x := range strings.Split(s, ",") {
		v, ok := parseSmp(x)
		if !ok {
			return nil, false
		}
		out = append(out, v)
	}
	return out, true
}

func parseReplicas(s string) ([][]smp, bool) {
	var out [][]smp
	for _, x := range strings.Split(s, ";") {
		r, ok := parseReplica(x)
		if !ok {
			return nil, false
		}
		out = append(out, r)
	}
	return out, len(out) > 0
}

type call struct {
	kind byte // 'n', 's', 'd'
	t    int64
}

func parseCalls(s string) ([]call, bool) {
	var out []call
	if s == "-" || s == "" {
		return nil, true
	}
	for _, x := range strings.Split(s, ",") {
		switch {
		case x == "n":
			out = append(out, call{kind: 'n'})
		case x == "d":
			out = append(out, call{kind: 'd'})
		case strings.HasPrefix(x, "s"):
			t, err := strconv.ParseInt(x[1:], 10, 64)
			if err != nil {
				return nil, false
			}
			out = append(out, call{kind: 's', t: t})
		default:
			return nil, false
		}
	}
	return out, true
}

func fmtCalls(cs []call) string {
	if len(cs) == 0 {
		return "-"
	}
	ss := make([]string, len(cs))
	for i, c := range cs {
		switch c.kind {
		case 's':
			ss[i] = fmt.Sprintf("s%d", c.t)
		default:
			ss[i] = string(c.kind)
		}
	}
	return strings.Join(ss, ",")
}

// newDedupIter builds the iterator of the single deduplicated series that
// dedup.NewSeriesSet(…, f, "penalty") yields for the given replicas of one series.
func newDedupIter(f string, reps [][]smp) chunkenc.Iterator {
	lset := labels.FromStrings("a", "1")
	var series []storage.Series
	for _, r := range reps {
		ss := make([]chunks.Sample, len(r))
		for i, s := range r {
			ss[i] = fsample{t: s.t, f: float64(s.v)}
		}
		series = append(series, storage.NewListSeries(lset, ss))
	}
	set := dedup.NewSeriesSet(&sliceSeriesSet{series: series}, f, dedup.AlgorithmPenalty)
	if !set.Next() {
		panic("harness: dedup series set is empty")
	}
	it := set.At().Iterator(nil)
	if set.Next() {
		panic("harness: replicas with equal labels were not grouped into one series")
	}
	return it
}

// obs is one observation of a trace: a sample, ValNone, or a panic.
type obs struct {
	kind byte // 's', 'x', 'p'
	s    smp
	raw  string // non-canonical value (not integer-valued), if any
}

func (o obs) String() string {
	switch o.kind {
	case 's':
		if o.raw != "" {
			return o.raw
		}
		return fmtSmp(o.s)
	case 'x':
		return "x"
	}
	return "panic"
}

func fmtTrace(tr []obs) string {
	if len(tr) == 0 {
		return "-"
	}
	ss := make([]string, len(tr))
	for i, o := range tr {
		ss[i] = o.String()
	}
	return strings.Join(ss, ",")
}

// step runs one iterator call, recovering a panic of the code under test.
func step(it chunkenc.Iterator, c call) (o obs, attMismatch bool) {
	defer func() {
		if r := recover(); r != nil {
			o = obs{kind: 'p'}
		}
	}()
	var vt chunkenc.ValueType
	if c.kind == 's' {
		vt = it.Seek(c.t)
	} else {
		vt = it.Next()
	}
	if vt == chunkenc.ValNone {
		return obs{kind: 'x'}, false
	}
	t, v := it.At()
	o = obs{kind: 's', s: smp{t, int64(v)}}
	if v != math.Trunc(v) || math.Abs(v) >= 1<<53 {
		o.raw = fmt.Sprintf("%d:%v", t, v)
	}
	return o, it.AtT() != t
}

// runCalls drives the iterator; the trace ends at the first panic.  maxDrain bounds a `d` call.
func runCalls(it chunkenc.Iterator, cs []call, maxDrain int) (tr []obs, attMismatch bool) {
	for _, c := range cs {
		if c.kind == 'd' {
			for i := 0; ; i++ {
				if i > maxDrain {
					tr = append(tr, obs{kind: 'p'})
					return tr, attMismatch
				}
				o, mm := step(it, call{kind: 'n'})
				attMismatch = attMismatch || mm
				tr = append(tr, o)
				if o.kind == 'p' {
					return tr, attMismatch
				}
				if o.kind == 'x' {
					break
				}
			}
			continue
		}
		o, mm := step(it, c)
		attMismatch = attMismatch || mm
		tr = append(tr, o)
		if o.kind == 'p' {
			return tr, attMismatch
		}
	}
	return tr, attMismatch
}

func totalLen(reps [][]smp) int {
	n := 0
	for _, r := range reps {
		n += len(r)
	}
	return n
}

// isCounterFn is the SPECIFICATION of the classification (C01/C02), written down independently of
// the code: exactly the four PromQL functions that are defined on counters and need the values of
// a series stitched across replicas.  Everything else — gauge functions, *_over_time,
// aggregations, the Thanos x-functions, unknown names, no name — is a non-counter name.
func isCounterFn(f string) bool {
	return f == "increase" || f == "rate" || f == "irate" || f == "resets"
}

// hintFuncNames is every name the engines can put into SelectHints.Func: all functions of the
// vendored PromQL parser (parser.Functions), all aggregation operators, the extended range
// functions of the Thanos engine, plus names no engine knows (near misses of the counter names,
// other spellings, arbitrary words).  "none" stands for the empty name.  Sorted, deterministic.
var hintFuncNames = func() (all []string) {
	seen := map[string]bool{}
	add := func(xs ...string) {
		for _, x := range xs {
			if !seen[x] {
				seen[x] = true
				all = append(all, x)
			}
		}
	}
	var fs []string
	for name := range parser.Functions {
		fs = append(fs, name)
	}
	sort.Strings(fs)
	add("none")
	add(fs...)
	add("sum", "avg", "count", "min", "max", "group", "stddev", "stdvar", "topk", "bottomk", "count_values", "quantile", "limitk", "limit_ratio")
	add("xrate", "xincrease", "xdelta") // Thanos engine, --query.enable-x-functions
	add("holt_winters", "double_exponential_smoothing")
	add("rates", "rat", "Rate", "RATE", "irates", "increases", "increase_", "reset", "xresets", "xirate", "xidelta", "x", "counter", "foo", "bar_over_time", "rate2", "irate.", "resets_over_time", "delta_rate")
	return all
}()

// nonCounterNames / counterNames split hintFuncNames by the specification.
func nonCounterNames() (out []string) {
	for _, f := range hintFuncNames {
		if !isCounterFn(f) {
			out = append(out, f)
		}
	}
	return out
}

func counterNames() (out []string) {
	for _, f := range hintFuncNames {
		if isCounterFn(f) {
			out = append(out, f)
		}
	}
	return out
}

// funcClass names the kind of a function name for the measured distribution.
func funcClass(f string) string {
	switch {
	case isCounterFn(f):
		return "counter"
	case f == "none":
		return "empty"
	case f == "xrate" || f == "xincrease" || f == "xdelta":
		return "thanos-x-function"
	case f == "sum" || f == "avg" || f == "count" || f == "min" || f == "max" || f == "group" || f == "stddev" || f == "stdvar" || f == "topk" || f == "bottomk" || f == "count_values" || f == "quantile" || f == "limitk" || f == "limit_ratio":
		return "aggregation"
	}
	if _, ok := parser.Functions[f]; ok {
		if strings.HasSuffix(f, "_over_time") {
			return "promql-over-time"
		}
		return "promql-function"
	}
	return "unknown-name"
}

func fnArg(f string) string {
	if f == "none" {
		return ""
	}
	return f
}

func pickInt(r *hlib.Rand, xs ...int) int { return xs[r.Intn(len(xs))] }

// guarded runs one Exec body with a deadline: the code under test loops on its own iterators
// (Seek iterates Next), so a broken seek target spins forever.  The first op that exceeds the
// deadline is reported as a violation of class "hang"; the spinning goroutine cannot be stopped,
// so every later op of the run is answered "hang-skipped" without being executed.
var hungOnce atomic.Bool

func guarded(c *hlib.Ctx, f func() string) string {
	if hungOnce.Load() {
		return "hang-skipped"
	}
	res := make(chan string, 1)
	pan := make(chan any, 1)
	go func() {
		defer func() {
			if r := recover(); r != nil {
				pan <- r
			}
		}()
		res <- f()
	}()
	select {
	case s := <-res:
		return s
	case r := <-pan:
		panic(r)
	case <-time.After(20 * time.Second):
		hungOnce.Store(true)
		c.Violation("hang", "the call sequence did not return within 20 s")
		return "hang"
	}
}

// budget is c.N with a bounded search tier: the search budget of ./check (spent when a proof or
// the correspondence is broken and no failing input is known yet) is three times the quick one.
func budget(c *hlib.Ctx, quick, thorough int) int {
	if c.Tier == "search" {
		return 3 * quick
	}
	return c.N(quick, thorough)
}
