package main

import (
	"fmt"
	"strings"

	"github.com/thanos-io/thanos/verifharness/hlib"
)

// C22 — an acknowledged remote write reached quorum for every series.
//
// Same op as C23 (`fan`, grammar in c23.go).  Oracle (judgeFan): the request is acknowledged
// (HTTP 200 / gRPC OK) only if every series was recorded as stored by at least a quorum of the
// fake peers (class ack-without-quorum, from the peers' own records) and never when the outcomes
// of the op line leave some series below quorum (ack-though-quorum-impossible); a request whose
// every series has a quorum of successful answers is acknowledged
// (quorum-reached-not-acknowledged).  Outcomes here include "other" errors (x, X).

func init() {
	props = append(props, &hlib.Prop{ID: "C22", Gen: genC22, Exec: func(c *hlib.Ctx, tok []string) string { return execFan(c, tok, "C22") }})
}

// genTwoSeries: two series, rf replicas each, the second series shifted by `shift` nodes (so 0 =
// same nodes, same writes; rf = disjoint nodes); every outcome vector over the alphabet for the
// distinct writes would be too many for rf 5, so vectors are enumerated up to `limit` per shape and
// sampled beyond; a few arrival orders per vector.
func genTwoSeries(c *hlib.Ctx, alphabet string, maxRF int, perShape int) {
	r := c.R
	for rf := 1; rf <= maxRF; rf++ {
		for shift := 0; shift <= rf && shift+rf <= numEndpoints; shift++ {
			row0 := make([]int, rf)
			row1 := make([]int, rf)
			for i := range row0 {
				row0[i] = i
				row1[i] = i + shift
			}
			pl := [][]int{row0, row1}
			ws := expectedWrites(rf, 0, pl)
			keys := sortedKeys(ws)
			total := 1
			for range keys {
				total *= len(alphabet)
				if total > 1<<20 {
					break
				}
			}
			n := perShape
			exhaustive := total <= perShape
			if exhaustive {
				n = total
			}
			for v := 0; v < n; v++ {
				base := make([]scriptEntry, len(keys))
				x := v
				for i, k := range keys {
					var o byte
					if exhaustive {
						o = alphabet[x%len(alphabet)]
						x /= len(alphabet)
					} else if r.Chance(1, 2) {
						o = 'k'
					} else {
						o = alphabet[r.Intn(len(alphabet))]
					}
					base[i] = scriptEntry{k, o}
				}
				var ss []string
				for o := 0; o < 3; o++ {
					p := r.Perm(len(base))
					sc := make([]scriptEntry, len(base))
					for i, j := range p {
						sc[i] = base[j]
					}
					ss = append(ss, showScript(sc))
				}
				entry := "h"
				if r.Chance(1, 3) {
					entry = "g"
				}
				c.Count(fmt.Sprintf("two:rf%d", rf))
				c.Count(fmt.Sprintf("two:shift%d", shift))
				c.Do(fmt.Sprintf("fan %s %d 0 %s %s", entry, rf, showPlacement(pl), strings.Join(ss, "/")), true)
			}
		}
	}
}

func genReplicated(c *hlib.Ctx, alphabet string) {
	for rf := 1; rf <= 6; rf++ {
		for rep := 1; rep <= rf+1; rep++ {
			row := make([]int, rf)
			for i := range row {
				row[i] = i
			}
			for _, o := range alphabet {
				script := fmt.Sprintf("%d:%d:%c", rep-1, rep-1, o)
				for _, entry := range []string{"h", "g"} {
					c.Count("replicated")
					c.Do(fmt.Sprintf("fan %s %d %d %s %s", entry, rf, rep, showPlacement([][]int{row}), script), true)
				}
			}
		}
	}
}

func genC22(c *hlib.Ctx) {
	// one series, rf 1..5, every vector over {ok, conflict, unavailable, other}, every arrival order
	genSingleSeries(c, "h", "kcux", 5, 0)
	genSingleSeries(c, "g", "kcux", 5, c.N(8, 0))
	genSingleSeries(c, "h", "kCUX", 6, c.N(4, 40))
	// already replicated requests (threshold 1 on the addressed replica) and bad replica numbers
	genReplicated(c, "kcCuUnxX")
	// two series sharing 0..rf nodes
	genTwoSeries(c, "kcux", 5, c.N(60, 1500))
	// several series spread over several nodes, a third of the requests over 2-4 tenants
	genMulti(c, "cCouUnNxX", c.N(2500, 40000))
	// the peers reached over Cap'n Proto (real client, server, writer; scripted tenant storage)
	genSingleSeries(c, "c", "koNx", 4, c.N(3, 12))
	genMultiT(c, "oNxX", c.N(300, 5000), "c")
}
