package main

import (
	"bytes"
	"context"
	"fmt"
	"math"
	"net/http/httptest"
	"strconv"
	"strings"

	"github.com/gogo/protobuf/proto"
	"github.com/golang/snappy"

	"github.com/thanos-io/thanos/pkg/receive"
	"github.com/thanos-io/thanos/pkg/store/storepb/prompb"
	writev2 "github.com/thanos-io/thanos/pkg/store/storepb/prompb/io/prometheus/write/v2"
	"github.com/thanos-io/thanos/pkg/tenancy"
	"github.com/thanos-io/thanos/pkg/tracing"
	"github.com/thanos-io/thanos/verifharness/hlib"
)

// C26 — remote-write v2 requests are translated faithfully and safely.
//
// ops (grammar also at the top of lean/Thanos/Driver/Receive.lean):
//
//   v2.tr <syms> <ts>*          translateV2ToV1 (hook)      -> ok <ts1>* | panic | invalid
//   v2.http <syms> <ts>*        POST /api/v1/receive (remote write 2.0 headers) on the real Handler,
//                               rf 1, one peer that stores whatever it is sent
//                                                           -> <status> <samples>/<histograms>/<exemplars> <ts1 as received by the peer>* | panic
//
//   syms  `_` | sym(,sym)*   sym = `x`+hex        ts = refs|samples|exemplars|hists|meta
//   refs `_`|n(.n)*   samples `_`|bits:ts:startTs(,…)   exemplars `_`|refs:bits:ts(,…)
//   hists `_`|cnt:sum:schema:zth:zcnt:nspans:ndeltas:ncounts:pspans:pdeltas:pcounts:hint:ts:custom:startTs(,…)
//   cnt n|i<nat>|f<bits>   spans `_`|<int>x<nat>(.…)   meta type:helpRef:unitRef
//   ts1 = labels|samples|exemplars|hists   labels `_`|sym~sym(,…)  (exemplar labels joined by `.`)

func init() {
	props = append(props, &hlib.Prop{ID: "C26", Gen: genC26, Exec: execC26})
}

func listU(s, sep string) []string {
	if s == "_" {
		return nil
	}
	return strings.Split(s, sep)
}

func joinU(xs []string, sep string) string {
	if len(xs) == 0 {
		return "_"
	}
	return strings.Join(xs, sep)
}

type parseErr struct{}

func must(ok bool) {
	if !ok {
		panic(parseErr{})
	}
}

func atoiU64(s string) uint64 {
	v, err := strconv.ParseUint(s, 10, 64)
	must(err == nil)
	return v
}

func atoiI64(s string) int64 {
	v, err := strconv.ParseInt(s, 10, 64)
	must(err == nil)
	return v
}

func parseRefs(s string) []uint32 {
	var out []uint32
	for _, t := range listU(s, ".") {
		v := atoiU64(t)
		must(v <= math.MaxUint32)
		out = append(out, uint32(v))
	}
	return out
}

func parseFloats(s string) []float64 {
	var out []float64
	for _, t := range listU(s, ".") {
		out = append(out, math.Float64frombits(atoiU64(t)))
	}
	return out
}

func parseInt64s(s string) []int64 {
	var out []int64
	for _, t := range listU(s, ".") {
		out = append(out, atoiI64(t))
	}
	return out
}

func parseSpans(s string) []writev2.BucketSpan {
	var out []writev2.BucketSpan
	for _, t := range listU(s, ".") {
		p := strings.Split(t, "x")
		must(len(p) == 2)
		o, l := atoiI64(p[0]), atoiU64(p[1])
		must(o >= math.MinInt32 && o <= math.MaxInt32 && l <= math.MaxUint32)
		out = append(out, writev2.BucketSpan{Offset: int32(o), Length: uint32(l)})
	}
	return out
}

func parseHistV2(s string) writev2.Histogram {
	f := strings.Split(s, ":")
	must(len(f) == 15)
	h := writev2.Histogram{}
	switch {
	case f[0] == "n":
	case f[0][0] == 'i':
		h.Count = &writev2.Histogram_CountInt{CountInt: atoiU64(f[0][1:])}
	case f[0][0] == 'f':
		h.Count = &writev2.Histogram_CountFloat{CountFloat: math.Float64frombits(atoiU64(f[0][1:]))}
	default:
		must(false)
	}
	h.Sum = math.Float64frombits(atoiU64(f[1]))
	sc := atoiI64(f[2])
	must(sc >= math.MinInt32 && sc <= math.MaxInt32)
	h.Schema = int32(sc)
	h.ZeroThreshold = math.Float64frombits(atoiU64(f[3]))
	switch {
	case f[4] == "n":
	case f[4][0] == 'i':
		h.ZeroCount = &writev2.Histogram_ZeroCountInt{ZeroCountInt: atoiU64(f[4][1:])}
	case f[4][0] == 'f':
		h.ZeroCount = &writev2.Histogram_ZeroCountFloat{ZeroCountFloat: math.Float64frombits(atoiU64(f[4][1:]))}
	default:
		must(false)
	}
	h.NegativeSpans = parseSpans(f[5])
	h.NegativeDeltas = parseInt64s(f[6])
	h.NegativeCounts = parseFloats(f[7])
	h.PositiveSpans = parseSpans(f[8])
	h.PositiveDeltas = parseInt64s(f[9])
	h.PositiveCounts = parseFloats(f[10])
	rh := atoiI64(f[11])
	must(rh >= 0 && rh <= math.MaxInt32)
	h.ResetHint = writev2.Histogram_ResetHint(rh)
	h.Timestamp = atoiI64(f[12])
	h.CustomValues = parseFloats(f[13])
	h.StartTimestamp = atoiI64(f[14])
	return h
}

func parseV2(tok []string) (req writev2.Request, symToks []string, ok bool) {
	defer func() {
		if r := recover(); r != nil {
			if _, isParse := r.(parseErr); isParse {
				ok = false
				return
			}
			panic(r)
		}
	}()
	must(len(tok) >= 1)
	for _, s := range listU(tok[0], ",") {
		must(strings.HasPrefix(s, "x"))
		b, err := hlib.UnHex(strings.TrimPrefix(s, "x") + "")
		if s == "x" {
			b, err = nil, nil
		}
		must(err == nil)
		req.Symbols = append(req.Symbols, string(b))
		symToks = append(symToks, s)
	}
	for _, t := range tok[1:] {
		sec := strings.Split(t, "|")
		must(len(sec) == 5)
		ts := writev2.TimeSeries{LabelsRefs: parseRefs(sec[0])}
		for _, s := range listU(sec[1], ",") {
			f := strings.Split(s, ":")
			must(len(f) == 3)
			ts.Samples = append(ts.Samples, writev2.Sample{Value: math.Float64frombits(atoiU64(f[0])), Timestamp: atoiI64(f[1]), StartTimestamp: atoiI64(f[2])})
		}
		for _, s := range listU(sec[2], ",") {
			f := strings.Split(s, ":")
			must(len(f) == 3)
			ts.Exemplars = append(ts.Exemplars, writev2.Exemplar{LabelsRefs: parseRefs(f[0]), Value: math.Float64frombits(atoiU64(f[1])), Timestamp: atoiI64(f[2])})
		}
		for _, s := range listU(sec[3], ",") {
			ts.Histograms = append(ts.Histograms, parseHistV2(s))
		}
		m := strings.Split(sec[4], ":")
		must(len(m) == 3)
		mt, hr, ur := atoiU64(m[0]), atoiU64(m[1]), atoiU64(m[2])
		must(mt <= math.MaxInt32 && hr <= math.MaxUint32 && ur <= math.MaxUint32)
		ts.Metadata = writev2.Metadata{Type: writev2.Metadata_MetricType(mt), HelpRef: uint32(hr), UnitRef: uint32(ur)}
		req.Timeseries = append(req.Timeseries, ts)
	}
	return req, symToks, true
}

// ---------------------------------------------------------------- canonical form of the v1 side

func symTok(s string) string {
	if s == "" {
		return "x"
	}
	return "x" + hlib.HexS(s)
}

func u64s(xs []float64) string {
	p := make([]string, len(xs))
	for i, x := range xs {
		p[i] = strconv.FormatUint(math.Float64bits(x), 10)
	}
	return joinU(p, ".")
}

func i64s(xs []int64) string {
	p := make([]string, len(xs))
	for i, x := range xs {
		p[i] = strconv.FormatInt(x, 10)
	}
	return joinU(p, ".")
}

func showSpansV1(xs []prompb.BucketSpan) string {
	p := make([]string, len(xs))
	for i, x := range xs {
		p[i] = fmt.Sprintf("%dx%d", x.Offset, x.Length)
	}
	return joinU(p, ".")
}

func showHistV1(h prompb.Histogram) string {
	cnt := "n"
	switch c := h.Count.(type) {
	case *prompb.Histogram_CountInt:
		cnt = fmt.Sprintf("i%d", c.CountInt)
	case *prompb.Histogram_CountFloat:
		cnt = fmt.Sprintf("f%d", math.Float64bits(c.CountFloat))
	}
	zc := "n"
	switch c := h.ZeroCount.(type) {
	case *prompb.Histogram_ZeroCountInt:
		zc = fmt.Sprintf("i%d", c.ZeroCountInt)
	case *prompb.Histogram_ZeroCountFloat:
		zc = fmt.Sprintf("f%d", math.Float64bits(c.ZeroCountFloat))
	}
	return strings.Join([]string{cnt, strconv.FormatUint(math.Float64bits(h.Sum), 10), strconv.Itoa(int(h.Schema)),
		strconv.FormatUint(math.Float64bits(h.ZeroThreshold), 10), zc,
		showSpansV1(h.NegativeSpans), i64s(h.NegativeDeltas), u64s(h.NegativeCounts),
		showSpansV1(h.PositiveSpans), i64s(h.PositiveDeltas), u64s(h.PositiveCounts),
		strconv.Itoa(int(h.ResetHint)), strconv.FormatInt(h.Timestamp, 10), u64s(h.CustomValues)}, ":")
}

func showTS1(ts *prompb.TimeSeries) string {
	ls := make([]string, len(ts.Labels))
	for i, l := range ts.Labels {
		ls[i] = symTok(l.Name) + "~" + symTok(l.Value)
	}
	ss := make([]string, len(ts.Samples))
	for i, s := range ts.Samples {
		ss[i] = fmt.Sprintf("%d:%d", math.Float64bits(s.Value), s.Timestamp)
	}
	es := make([]string, len(ts.Exemplars))
	for i, e := range ts.Exemplars {
		el := make([]string, len(e.Labels))
		for j, l := range e.Labels {
			el[j] = symTok(l.Name) + "~" + symTok(l.Value)
		}
		es[i] = fmt.Sprintf("%s:%d:%d", joinU(el, "."), math.Float64bits(e.Value), e.Timestamp)
	}
	hs := make([]string, len(ts.Histograms))
	for i, h := range ts.Histograms {
		hs[i] = showHistV1(h)
	}
	return strings.Join([]string{joinU(ls, ","), joinU(ss, ","), joinU(es, ","), joinU(hs, ",")}, "|")
}

// ---------------------------------------------------------------- the oracle: expected v1 text, from the op text alone

// expectedTS rewrites one <ts> token of the op line into the <ts1> token the property demands;
// bad = a dereferenced label reference lies outside the symbol table.
func expectedTS(symToks []string, tsTok string) (out string, bad bool) {
	sec := strings.Split(tsTok, "|")
	resolve := func(refs string, sep string) string {
		r := listU(refs, ".")
		var ls []string
		for i := 0; i+1 < len(r); i += 2 {
			a, _ := strconv.Atoi(r[i])
			b, _ := strconv.Atoi(r[i+1])
			if a >= len(symToks) || b >= len(symToks) {
				bad = true
				return "_"
			}
			ls = append(ls, symToks[a]+"~"+symToks[b])
		}
		return joinU(ls, sep)
	}
	labels := resolve(sec[0], ",")
	var ss, es, hs []string
	for _, s := range listU(sec[1], ",") {
		f := strings.Split(s, ":")
		ss = append(ss, f[0]+":"+f[1])
	}
	for _, s := range listU(sec[2], ",") {
		f := strings.Split(s, ":")
		es = append(es, resolve(f[0], ".")+":"+f[1]+":"+f[2])
	}
	for _, s := range listU(sec[3], ",") {
		f := strings.Split(s, ":")
		hs = append(hs, strings.Join(f[:14], ":"))
	}
	return strings.Join([]string{labels, joinU(ss, ","), joinU(es, ","), joinU(hs, ",")}, "|"), bad
}

func execC26(c *hlib.Ctx, tok []string) string {
	if len(tok) < 2 || (tok[0] != "v2.tr" && tok[0] != "v2.http") {
		return "bad-op"
	}
	req, symToks, ok := parseV2(tok[1:])
	if !ok {
		return "bad-op"
	}
	// what the property demands
	var want []string
	bad := false
	ns, nh, ne := 0, 0, 0
	for i, t := range tok[2:] {
		w, b := expectedTS(symToks, t)
		bad = bad || b
		want = append(want, w)
		ns += len(req.Timeseries[i].Samples)
		nh += len(req.Timeseries[i].Histograms)
		ne += len(req.Timeseries[i].Exemplars)
	}
	var got, pmsg string
	if tok[0] == "v2.tr" {
		got, pmsg = runTranslate(req)
		c.LastPanic = pmsg
		if bad {
			judgeBadRef(c, got, "invalid", "translateV2ToV1")
		} else if exp := strings.Join(append([]string{"ok"}, want...), " "); got != exp {
			c.Violation("translation-differs", fmt.Sprintf("translateV2ToV1 gave %q, the request describes %q", got, exp))
		}
		return got
	}
	// gogo's proto3 marshaller drops scalar float fields equal to zero, so −0.0 cannot be sent in
	// Sample.value, Exemplar.value, Histogram.sum, Histogram.zero_threshold: outside the op's domain
	for _, ts := range req.Timeseries {
		for _, s := range ts.Samples {
			if math.Float64bits(s.Value) == 1<<63 {
				return "bad-op"
			}
		}
		for _, e := range ts.Exemplars {
			if math.Float64bits(e.Value) == 1<<63 {
				return "bad-op"
			}
		}
		for _, h := range ts.Histograms {
			if math.Float64bits(h.Sum) == 1<<63 || math.Float64bits(h.ZeroThreshold) == 1<<63 {
				return "bad-op"
			}
		}
	}
	got, pmsg = runV2HTTP(req)
	c.LastPanic = pmsg
	if bad {
		judgeBadRef(c, got, "400", "the handler")
	} else if exp := strings.Join(append([]string{"200", fmt.Sprintf("%d/%d/%d", ns, nh, ne)}, want...), " "); got != exp {
		c.Violation("ingested-differs", fmt.Sprintf("the peer was sent / the client was told %q, the request describes %q", got, exp))
	}
	return got
}

func judgeBadRef(c *hlib.Ctx, got, reject, who string) {
	switch {
	case got == reject:
	case got == "panic":
		c.Violation("bad-ref-panics", fmt.Sprintf("a symbol reference outside the table makes %s panic (%s) instead of a client error", who, c.LastPanic))
	default:
		c.Violation("bad-ref-accepted", fmt.Sprintf("a symbol reference outside the table is answered %q by %s", got, who))
	}
}

func runV2HTTP(req writev2.Request) (out string, pmsg string) {
	env := theFanEnv()
	env.opts.ReplicationFactor = 1
	env.ring.mu.Lock()
	env.ring.placement = map[string][]int{}
	env.ring.fallback = true
	env.ring.mu.Unlock()
	defer func() {
		env.ring.mu.Lock()
		env.ring.fallback = false
		env.ring.mu.Unlock()
	}()
	f := newFanRun()
	k := wkey{0, 0}
	f.outcome[k] = 'k'
	f.release[k] = make(chan struct{})
	close(f.release[k])
	f.capture = true
	setRun(f)
	defer setRun(nil)

	buf, err := proto.Marshal(&req)
	if err != nil {
		return "marshal-error", ""
	}
	ctx := tracing.ContextWithTracer(context.Background(), env.tr)
	hreq := httptest.NewRequest("POST", "/api/v1/receive", bytes.NewReader(snappy.Encode(nil, buf))).WithContext(ctx)
	hreq.Header.Set(tenancy.DefaultTenantHeader, "t")
	hreq.Header.Set("Content-Type", "application/x-protobuf;proto=io.prometheus.write.v2.Request")
	hreq.Header.Set("X-Prometheus-Remote-Write-Version", "2.0.0")
	rec := httptest.NewRecorder()
	func() {
		defer func() {
			if r := recover(); r != nil {
				out = "panic"
				pmsg = fmt.Sprint(r)
			}
		}()
		receive.VerifRouter(env.h).ServeHTTP(rec, hreq)
	}()
	f.waitFor(func() bool { return !f.entered[k] || f.finished[k] })
	if out == "panic" {
		return out, pmsg
	}
	parts := []string{strconv.Itoa(rec.Code)}
	if rec.Code == 200 {
		parts = append(parts, fmt.Sprintf("%s/%s/%s",
			orZero(rec.Header().Get("X-Prometheus-Remote-Write-Samples-Written")),
			orZero(rec.Header().Get("X-Prometheus-Remote-Write-Histograms-Written")),
			orZero(rec.Header().Get("X-Prometheus-Remote-Write-Exemplars-Written"))))
		f.mu.Lock()
		parts = append(parts, f.captured...)
		f.mu.Unlock()
	}
	return strings.Join(parts, " "), ""
}

// runTranslate calls translateV2ToV1 through the hook.
func runTranslate(req writev2.Request) (out string, pmsg string) {
	defer func() {
		if r := recover(); r != nil {
			out, pmsg = "panic", fmt.Sprint(r)
		}
	}()
	v1, err := receive.VerifTranslateV2ToV1(req)
	if err != nil {
		return "invalid", ""
	}
	parts := []string{"ok"}
	for i := range v1.Timeseries {
		parts = append(parts, showTS1(&v1.Timeseries[i]))
	}
	return strings.Join(parts, " "), ""
}

func orZero(s string) string {
	if s == "" {
		return "none"
	}
	return s
}

// ---------------------------------------------------------------- generator

func genFloatBits(r *hlib.Rand) uint64 {
	switch r.Intn(6) {
	case 0:
		return 0
	case 1:
		return math.Float64bits(float64(r.Intn(1000)))
	case 2:
		return math.Float64bits(-1.5 * float64(r.Intn(100)))
	case 3:
		return 0x7ff8000000000002 // NaN with payload (stale marker family)
	case 4:
		return math.Float64bits(math.Inf(1))
	}
	return r.U64()
}

func genI64(r *hlib.Rand) int64 {
	switch r.Intn(5) {
	case 0:
		return 0
	case 1:
		return int64(r.Intn(100000))
	case 2:
		return -int64(r.Intn(100000))
	case 3:
		return math.MaxInt64 - int64(r.Intn(3))
	}
	return int64(r.U64())
}

func genFloatList(r *hlib.Rand, max int) string {
	n := r.Intn(max + 1)
	p := make([]string, n)
	for i := range p {
		p[i] = strconv.FormatUint(genFloatBits(r), 10)
	}
	return joinU(p, ".")
}

func genIntList(r *hlib.Rand, max int) string {
	n := r.Intn(max + 1)
	p := make([]string, n)
	for i := range p {
		p[i] = strconv.FormatInt(genI64(r), 10)
	}
	return joinU(p, ".")
}

func genSpans(r *hlib.Rand, max int) string {
	n := r.Intn(max + 1)
	p := make([]string, n)
	for i := range p {
		p[i] = fmt.Sprintf("%dx%d", int32(r.U64()>>uint(r.Intn(33))), uint32(r.U64()>>uint(32+r.Intn(32))))
	}
	return joinU(p, ".")
}

func genCnt(r *hlib.Rand) string {
	switch r.Intn(4) {
	case 0:
		return "n"
	case 1:
		return fmt.Sprintf("f%d", genFloatBits(r))
	}
	return fmt.Sprintf("i%d", r.U64()>>uint(r.Intn(64)))
}

func genRefs(c *hlib.Ctx, nsym int, pairs int, badChance int, kind string) string {
	r := c.R
	n := 2 * pairs
	if r.Chance(1, 12) {
		n++ // unpaired trailing reference
		c.Count(kind + ":odd-refs")
	}
	p := make([]string, n)
	for i := range p {
		v := 0
		if nsym > 0 {
			v = r.Intn(nsym)
		}
		if nsym == 0 || r.Chance(badChance, 100) {
			switch r.Intn(3) {
			case 0:
				v = nsym // first index outside
			case 1:
				v = nsym + 1 + r.Intn(5)
			default:
				v = math.MaxUint32 - r.Intn(2)
			}
			if i == n-1 && n%2 == 1 {
				c.Count(kind + ":bad-ref-unpaired")
			} else {
				c.Count(kind + ":bad-ref")
			}
		}
		p[i] = strconv.Itoa(v)
	}
	return joinU(p, ".")
}

func genC26(c *hlib.Ctx) {
	r := c.R
	rounds := c.N(2500, 60000)
	for it := 0; it < rounds; it++ {
		// symbol table: starts with "" most of the time, short strings, some empty/long/binary
		nsym := r.Range(0, 8)
		if r.Chance(1, 20) {
			nsym = 0
		}
		syms := make([]string, nsym)
		for i := range syms {
			switch {
			case i == 0 && r.Chance(9, 10):
				syms[i] = "x"
			case r.Chance(1, 10):
				syms[i] = "x" + hlib.Hex(r.Bytes(r.Range(1, 40)))
			case r.Chance(1, 10):
				syms[i] = "x"
			default:
				syms[i] = "x" + hlib.HexS(r.Pick([]string{"__name__", "job", "instance", "le", "up", "a", "b", "trace_id", "http_requests_total", "é✓"}))
			}
		}
		// a request is either clean or has a small chance of a bad reference per position
		badChance := 0
		if r.Chance(1, 4) {
			badChance = []int{3, 15, 40}[r.Intn(3)]
		}
		nts := r.Range(0, 4)
		tss := make([]string, nts)
		for j := range tss {
			refs := genRefs(c, nsym, r.Range(0, 4), badChance, "labels")
			var ss, es, hs []string
			for i := r.Intn(4); i > 0; i-- {
				ss = append(ss, fmt.Sprintf("%d:%d:%d", genFloatBits(r), genI64(r), genI64(r)))
			}
			for i := r.Intn(3); i > 0; i-- {
				es = append(es, fmt.Sprintf("%s:%d:%d", genRefs(c, nsym, r.Range(0, 2), badChance, "exemplar"), genFloatBits(r), genI64(r)))
			}
			for i := r.Intn(3); i > 0; i-- {
				hs = append(hs, strings.Join([]string{genCnt(r), strconv.FormatUint(genFloatBits(r), 10), strconv.Itoa(int(int32(r.Range(-60, 10)))),
					strconv.FormatUint(genFloatBits(r), 10), genCnt(r),
					genSpans(r, 3), genIntList(r, 4), genFloatList(r, 4), genSpans(r, 3), genIntList(r, 4), genFloatList(r, 4),
					strconv.Itoa(r.Intn(4)), strconv.FormatInt(genI64(r), 10), genFloatList(r, 3), strconv.FormatInt(genI64(r), 10)}, ":"))
			}
			// metadata references are not dereferenced by the translation: any value
			meta := fmt.Sprintf("%d:%d:%d", r.Intn(8), r.Intn(nsym+3), r.Intn(nsym+3))
			tss[j] = strings.Join([]string{refs, joinU(ss, ","), joinU(es, ","), joinU(hs, ","), meta}, "|")
			c.Count(fmt.Sprintf("hists:%d", len(hs)))
			c.Count(fmt.Sprintf("exemplars:%d", len(es)))
		}
		c.Count(fmt.Sprintf("series:%d", nts))
		c.Count(fmt.Sprintf("symbols:%d", nsym))
		line := joinU(syms, ",")
		if nts > 0 {
			line += " " + strings.Join(tss, " ")
		}
		out := c.Do("v2.tr "+line, true)
		c.Count("tr:" + strings.SplitN(out, " ", 2)[0])
		if it%3 == 0 {
			out = c.Do("v2.http "+line, out != "bad-op")
			c.Count("http:" + strings.SplitN(out, " ", 2)[0])
		}
	}
}
