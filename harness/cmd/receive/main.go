// Family binary "receive": C22 C23 C24 C25 C26.
package main

import "github.com/thanos-io/thanos/verifharness/hlib"

var props []*hlib.Prop

func main() { hlib.Main(props) }
