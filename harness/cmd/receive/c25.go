package main

import (
	"fmt"
	"math"
	"strconv"
	"strings"

	"capnproto.org/go/capnp/v3"
	"github.com/prometheus/prometheus/model/histogram"
	"github.com/prometheus/prometheus/model/labels"

	"github.com/thanos-io/thanos/pkg/receive/writecapnp"
	"github.com/thanos-io/thanos/pkg/store/labelpb"
	"github.com/thanos-io/thanos/pkg/store/storepb/prompb"
	"github.com/thanos-io/thanos/pkg/symboltable"
	"github.com/thanos-io/thanos/verifharness/hlib"
)

// C25 — Cap'n Proto replication encoding is lossless.
//
// op (grammar also at the top of lean/Thanos/Driver/Receive.lean):
//
//   capnp.rt (t<hex> <series>*)+
//       a multi-tenant write request: tenant tokens `t`+hex of the tenant name, each followed by its series
//       series  labels|samples|exemplars|hists    labels `_`|x<hex>~x<hex>(,…)   samples `_`|bits:ts(,…)
//               exemplars `_`|labels(`.`):bits:ts(,…)
//               hists `_`|cnt:sum:schema:zth:zcnt:nspans:ndeltas:ncounts:pspans:pdeltas:pcounts:hint:ts:custom(,…)
//   The request is encoded with the real marshal code (one tenant: writecapnp.Marshal; several:
//   BuildInto per tenant over one symboltable.Builder + marshalSymbols, as RemoteWriteClient does),
//   serialised, deserialised (capnp.Unmarshal), and read back with NewRequest / Next / At.
//   answer: <symbol offsets> <symbol data hex> then per tenant `t<hex>` and its decoded series
//           labels|samples|exemplars|dhists   dhist = I|F:hint:count:sum:schema:zth:zeroCount:pspans:nspans:pbuckets:nbuckets:custom:ts
//           | panic
//   Oracle: the decoded series equal what the protobuf path hands to the appender for the same
//   request (prompb.HistogramProtoToHistogram / FloatHistogramProtoToFloatHistogram, labels,
//   samples, exemplars as they are).

func init() {
	props = append(props, &hlib.Prop{ID: "C25", Gen: genC25, Exec: execC25})
}

type tenantReq struct {
	name string
	ts   []prompb.TimeSeries
}

func parseSym(t string) string {
	must(strings.HasPrefix(t, "x"))
	if t == "x" {
		return ""
	}
	b, err := hlib.UnHex(t[1:])
	must(err == nil)
	return string(b)
}

func parseZLabels(s, sep string) []labelpb.ZLabel {
	var out []labelpb.ZLabel
	for _, t := range listU(s, sep) {
		p := strings.Split(t, "~")
		must(len(p) == 2)
		out = append(out, labelpb.ZLabel{Name: parseSym(p[0]), Value: parseSym(p[1])})
	}
	return out
}

func parseSpansV1(s string) []prompb.BucketSpan {
	var out []prompb.BucketSpan
	for _, t := range listU(s, ".") {
		p := strings.Split(t, "x")
		must(len(p) == 2)
		o, l := atoiI64(p[0]), atoiU64(p[1])
		must(o >= math.MinInt32 && o <= math.MaxInt32 && l <= math.MaxUint32)
		out = append(out, prompb.BucketSpan{Offset: int32(o), Length: uint32(l)})
	}
	return out
}

func parseHistV1(s string) prompb.Histogram {
	f := strings.Split(s, ":")
	must(len(f) == 14)
	h := prompb.Histogram{}
	switch {
	case f[0] == "n":
	case f[0][0] == 'i':
		h.Count = &prompb.Histogram_CountInt{CountInt: atoiU64(f[0][1:])}
	case f[0][0] == 'f':
		h.Count = &prompb.Histogram_CountFloat{CountFloat: math.Float64frombits(atoiU64(f[0][1:]))}
	default:
		must(false)
	}
	h.Sum = math.Float64frombits(atoiU64(f[1]))
	sc := atoiI64(f[2])
	must(sc >= math.MinInt32 && sc <= math.MaxInt32)
	h.Schema = int32(sc)
	h.ZeroThreshold = math.Float64frombits(atoiU64(f[3]))
	switch {
	case f[4] == "n":
	case f[4][0] == 'i':
		h.ZeroCount = &prompb.Histogram_ZeroCountInt{ZeroCountInt: atoiU64(f[4][1:])}
	case f[4][0] == 'f':
		h.ZeroCount = &prompb.Histogram_ZeroCountFloat{ZeroCountFloat: math.Float64frombits(atoiU64(f[4][1:]))}
	default:
		must(false)
	}
	h.NegativeSpans = parseSpansV1(f[5])
	h.NegativeDeltas = parseInt64s(f[6])
	h.NegativeCounts = parseFloats(f[7])
	h.PositiveSpans = parseSpansV1(f[8])
	h.PositiveDeltas = parseInt64s(f[9])
	h.PositiveCounts = parseFloats(f[10])
	rh := atoiU64(f[11])
	must(rh <= 3) // the capnp enum has four members
	h.ResetHint = prompb.Histogram_ResetHint(rh)
	h.Timestamp = atoiI64(f[12])
	h.CustomValues = parseFloats(f[13])
	return h
}

func parseCapnpOp(tok []string) (req []tenantReq, ok bool) {
	defer func() {
		if r := recover(); r != nil {
			if _, isParse := r.(parseErr); isParse {
				ok = false
				return
			}
			panic(r)
		}
	}()
	for _, t := range tok {
		if strings.HasPrefix(t, "t") {
			name := ""
			if t != "t" {
				b, err := hlib.UnHex(t[1:])
				must(err == nil)
				name = string(b)
			}
			req = append(req, tenantReq{name: name})
			continue
		}
		must(len(req) > 0)
		sec := strings.Split(t, "|")
		must(len(sec) == 4)
		ts := prompb.TimeSeries{Labels: parseZLabels(sec[0], ",")}
		for _, s := range listU(sec[1], ",") {
			f := strings.Split(s, ":")
			must(len(f) == 2)
			ts.Samples = append(ts.Samples, prompb.Sample{Value: math.Float64frombits(atoiU64(f[0])), Timestamp: atoiI64(f[1])})
		}
		for _, s := range listU(sec[2], ",") {
			f := strings.Split(s, ":")
			must(len(f) == 3)
			ts.Exemplars = append(ts.Exemplars, prompb.Exemplar{Labels: parseZLabels(f[0], "."), Value: math.Float64frombits(atoiU64(f[1])), Timestamp: atoiI64(f[2])})
		}
		for _, s := range listU(sec[3], ",") {
			ts.Histograms = append(ts.Histograms, parseHistV1(s))
		}
		req[len(req)-1].ts = append(req[len(req)-1].ts, ts)
	}
	return req, len(req) > 0
}

// ---------------------------------------------------------------- real encode / decode

func encodeCapnp(req []tenantReq) ([]byte, error) {
	if len(req) == 1 {
		return writecapnp.Marshal(req[0].name, req[0].ts)
	}
	// as RemoteWriteClient.writeWithReconnect builds a multi-tenant request
	_, seg, err := capnp.NewMessage(capnp.SingleSegment(nil))
	if err != nil {
		return nil, err
	}
	wr, err := writecapnp.NewRootWriteRequest(seg)
	if err != nil {
		return nil, err
	}
	sym, err := wr.NewSymbols()
	if err != nil {
		return nil, err
	}
	tl, err := writecapnp.NewTimeSeriesTenantTuple_List(wr.Segment(), int32(len(req)))
	if err != nil {
		return nil, err
	}
	builder := symboltable.NewBuilder()
	for i, d := range req {
		ttl := tl.At(i)
		if err := writecapnp.BuildInto(&ttl, d.name, d.ts, builder); err != nil {
			return nil, err
		}
	}
	if err := writecapnp.VerifMarshalSymbols(builder, sym); err != nil {
		return nil, err
	}
	if err := wr.SetData(tl); err != nil {
		return nil, err
	}
	return wr.Message().Marshal()
}

func showSpansH(xs []histogram.Span) string {
	p := make([]string, len(xs))
	for i, x := range xs {
		p[i] = fmt.Sprintf("%dx%d", x.Offset, x.Length)
	}
	return joinU(p, ".")
}

func showIntHist(h *histogram.Histogram, ts int64) string {
	return strings.Join([]string{"I", strconv.Itoa(int(h.CounterResetHint)), strconv.FormatUint(h.Count, 10),
		strconv.FormatUint(math.Float64bits(h.Sum), 10), strconv.Itoa(int(h.Schema)), strconv.FormatUint(math.Float64bits(h.ZeroThreshold), 10),
		strconv.FormatUint(h.ZeroCount, 10), showSpansH(h.PositiveSpans), showSpansH(h.NegativeSpans),
		i64s(h.PositiveBuckets), i64s(h.NegativeBuckets), u64s(h.CustomValues), strconv.FormatInt(ts, 10)}, ":")
}

func showFloatHist(h *histogram.FloatHistogram, ts int64) string {
	return strings.Join([]string{"F", strconv.Itoa(int(h.CounterResetHint)), strconv.FormatUint(math.Float64bits(h.Count), 10),
		strconv.FormatUint(math.Float64bits(h.Sum), 10), strconv.Itoa(int(h.Schema)), strconv.FormatUint(math.Float64bits(h.ZeroThreshold), 10),
		strconv.FormatUint(math.Float64bits(h.ZeroCount), 10), showSpansH(h.PositiveSpans), showSpansH(h.NegativeSpans),
		u64s(h.PositiveBuckets), u64s(h.NegativeBuckets), u64s(h.CustomValues), strconv.FormatInt(ts, 10)}, ":")
}

func showDecodedSeries(s *writecapnp.Series) string {
	var ls, ss, es, hs []string
	s.Labels.Range(func(l labels.Label) { ls = append(ls, symTok(l.Name)+"~"+symTok(l.Value)) })
	for _, x := range s.Samples {
		ss = append(ss, fmt.Sprintf("%d:%d", math.Float64bits(x.Value), x.Timestamp))
	}
	for _, e := range s.Exemplars {
		var el []string
		e.Labels.Range(func(l labels.Label) { el = append(el, symTok(l.Name)+"~"+symTok(l.Value)) })
		es = append(es, fmt.Sprintf("%s:%d:%d", joinU(el, "."), math.Float64bits(e.Value), e.Ts))
	}
	for _, h := range s.Histograms {
		if h.Histogram != nil {
			hs = append(hs, showIntHist(h.Histogram, h.Timestamp))
		} else if h.FloatHistogram != nil {
			hs = append(hs, showFloatHist(h.FloatHistogram, h.Timestamp))
		} else {
			hs = append(hs, "nil")
		}
	}
	return strings.Join([]string{joinU(ls, ","), joinU(ss, ","), joinU(es, ","), joinU(hs, ",")}, "|")
}

func tenantTok(name string) string {
	if name == "" {
		return "t"
	}
	return "t" + hlib.HexS(name)
}

// decodeCapnp reads the message as the peer does; returns the canonical answer tokens.
func decodeCapnp(raw []byte) (out []string, err error) {
	msg, err := capnp.Unmarshal(raw)
	if err != nil {
		return nil, err
	}
	wr, err := writecapnp.ReadRootWriteRequest(msg)
	if err != nil {
		return nil, err
	}
	symTable, err := wr.Symbols()
	if err != nil {
		return nil, err
	}
	data, err := symTable.Data()
	if err != nil {
		return nil, err
	}
	offs, err := symTable.Offsets()
	if err != nil {
		return nil, err
	}
	os := make([]string, offs.Len())
	for i := range os {
		os[i] = strconv.FormatUint(uint64(offs.At(i)), 10)
	}
	out = append(out, joinU(os, "."), hlib.Hex(data))
	tuples, err := wr.Data()
	if err != nil {
		return nil, err
	}
	for i := 0; i < tuples.Len(); i++ {
		d := tuples.At(i)
		tenant, err := d.Tenant()
		if err != nil {
			return nil, err
		}
		req, err := writecapnp.NewRequest(d, symTable, tenant)
		if err != nil {
			return nil, err
		}
		out = append(out, tenantTok(req.Tenant))
		var s writecapnp.Series
		for req.Next() {
			if err := req.At(&s); err != nil {
				return nil, err
			}
			out = append(out, showDecodedSeries(&s))
		}
		_ = req.Close()
	}
	return out, nil
}

// expectedTokens: what the protobuf replication path hands to the appender for the same request.
func expectedTokens(req []tenantReq) (out []string, mixed bool, custom bool) {
	for _, t := range req {
		out = append(out, tenantTok(t.name))
		for _, ts := range t.ts {
			var ls, ss, es, hs []string
			for _, l := range ts.Labels {
				ls = append(ls, symTok(l.Name)+"~"+symTok(l.Value))
			}
			for _, x := range ts.Samples {
				ss = append(ss, fmt.Sprintf("%d:%d", math.Float64bits(x.Value), x.Timestamp))
			}
			for _, e := range ts.Exemplars {
				var el []string
				for _, l := range e.Labels {
					el = append(el, symTok(l.Name)+"~"+symTok(l.Value))
				}
				es = append(es, fmt.Sprintf("%s:%d:%d", joinU(el, "."), math.Float64bits(e.Value), e.Timestamp))
			}
			for _, hp := range ts.Histograms {
				if len(hp.CustomValues) > 0 {
					custom = true
				}
				_, zcFloat := hp.ZeroCount.(*prompb.Histogram_ZeroCountFloat)
				_, zcInt := hp.ZeroCount.(*prompb.Histogram_ZeroCountInt)
				if hp.IsFloatHistogram() {
					if !zcFloat {
						mixed = true
					}
					hs = append(hs, showFloatHist(prompb.FloatHistogramProtoToFloatHistogram(hp), hp.Timestamp))
				} else {
					if zcFloat {
						mixed = true
					}
					_ = zcInt
					hs = append(hs, showIntHist(prompb.HistogramProtoToHistogram(hp), hp.Timestamp))
				}
			}
			out = append(out, strings.Join([]string{joinU(ls, ","), joinU(ss, ","), joinU(es, ","), joinU(hs, ",")}, "|"))
		}
	}
	return out, mixed, custom
}

// stripCustom removes the custom-values field of every decoded histogram token.
func stripCustom(tokens []string) []string {
	out := make([]string, len(tokens))
	for i, t := range tokens {
		sec := strings.Split(t, "|")
		if len(sec) != 4 {
			out[i] = t
			continue
		}
		hs := listU(sec[3], ",")
		for j, h := range hs {
			f := strings.Split(h, ":")
			if len(f) == 13 {
				f[11] = "_"
				hs[j] = strings.Join(f, ":")
			}
		}
		sec[3] = joinU(hs, ",")
		out[i] = strings.Join(sec, "|")
	}
	return out
}

func execC25(c *hlib.Ctx, tok []string) string {
	if len(tok) < 2 || tok[0] != "capnp.rt" {
		return "bad-op"
	}
	req, ok := parseCapnpOp(tok[1:])
	if !ok {
		return "bad-op"
	}
	want, mixed, custom := expectedTokens(req)
	var raw []byte
	var err error
	pmsg := ""
	func() {
		defer func() {
			if r := recover(); r != nil {
				pmsg = fmt.Sprint(r)
			}
		}()
		raw, err = encodeCapnp(req)
	}()
	if pmsg != "" {
		c.Violation("encode-panics", "encoding the request panics: "+pmsg)
		return "panic"
	}
	if err != nil {
		c.Violation("encode-error", "encoding the request fails: "+err.Error())
		return "encode-error:" + err.Error()
	}
	var got []string
	func() {
		defer func() {
			if r := recover(); r != nil {
				got, pmsg = nil, fmt.Sprint(r)
			}
		}()
		got, err = decodeCapnp(raw)
	}()
	if pmsg != "" {
		if mixed && strings.Contains(pmsg, "Which() !=") {
			c.Violation("mixed-oneof-decode-panics", "a histogram whose count and zero count are of different kinds makes the peer's readHistogram panic: "+pmsg)
		} else {
			c.Violation("decode-panics", "decoding the encoded request panics: "+pmsg)
		}
		return "panic"
	}
	if err != nil {
		c.Violation("decode-error", err.Error())
		return "decode-error:" + err.Error()
	}
	// got[0], got[1] are the symbol table; the rest is compared with the protobuf path
	if strings.Join(got[2:], " ") != strings.Join(want, " ") {
		if custom && strings.Join(stripCustom(got[2:]), " ") == strings.Join(stripCustom(want), " ") {
			c.Violation("custom-values-dropped", "a native histogram with custom bucket values loses them in the capnp encoding (the schema has no field): decoded "+firstDiff(got[2:], want))
		} else {
			c.Violation("roundtrip-differs", "decoded request differs from the protobuf path: "+firstDiff(got[2:], want))
		}
	}
	return strings.Join(got, " ")
}

func firstDiff(got, want []string) string {
	for i := range got {
		if i >= len(want) || got[i] != want[i] {
			w := "<nothing>"
			if i < len(want) {
				w = want[i]
			}
			return fmt.Sprintf("token %d: got %q want %q", i, got[i], w)
		}
	}
	return fmt.Sprintf("got %d tokens, want %d", len(got), len(want))
}

// ---------------------------------------------------------------- generator

func genSymC25(r *hlib.Rand, pool []string) string {
	switch r.Intn(10) {
	case 0:
		return "x" // empty string
	case 1:
		return "x" + hlib.Hex(r.Bytes(r.Range(1, 30))) // binary, not valid UTF-8
	case 2:
		return "x" + hlib.HexS(strings.Repeat("long", r.Range(10, 80)))
	case 3:
		return "x" + hlib.HexS(r.Pick([]string{"é", "✓✓", "日本語", "a\x00b"}))
	}
	return pool[r.Intn(len(pool))]
}

func genLabelsC25(r *hlib.Rand, pool []string, max int, sep string) string {
	n := r.Intn(max + 1)
	if r.Chance(1, 6) {
		n = 0 // empty label set
	}
	p := make([]string, n)
	for i := range p {
		p[i] = genSymC25(r, pool) + "~" + genSymC25(r, pool)
	}
	return joinU(p, sep)
}

func genHistC25(c *hlib.Ctx, allowCustom, allowMixed bool) string {
	r := c.R
	isFloat := r.Bool()
	cnt, zc := "", ""
	if isFloat {
		cnt = fmt.Sprintf("f%d", genFloatBits(r))
		zc = fmt.Sprintf("f%d", genFloatBits(r))
		c.Count("hist:float")
	} else {
		cnt = fmt.Sprintf("i%d", r.U64()>>uint(r.Intn(64)))
		zc = fmt.Sprintf("i%d", r.U64()>>uint(r.Intn(64)))
		if r.Chance(1, 8) {
			cnt = "n" // unset count: an integer histogram with count 0
			c.Count("hist:count-unset")
		}
		if r.Chance(1, 8) {
			zc = "n"
			c.Count("hist:zerocount-unset")
		}
		c.Count("hist:int")
	}
	if allowMixed && r.Chance(1, 2) {
		if isFloat {
			zc = r.Pick([]string{"n", "i7"})
		} else {
			zc = "f4607182418800017408"
		}
		c.Count("hist:mixed-oneof")
	}
	custom := "_"
	schema := int32(r.Range(-4, 8))
	if allowCustom && r.Chance(1, 2) {
		custom = genFloatList(r, 4)
		if custom == "_" {
			custom = "4607182418800017408"
		}
		schema = -53
		c.Count("hist:custom-values")
	}
	return strings.Join([]string{cnt, strconv.FormatUint(genFloatBits(r), 10), strconv.Itoa(int(schema)),
		strconv.FormatUint(genFloatBits(r), 10), zc,
		genSpans(r, 3), genIntList(r, 4), genFloatList(r, 4), genSpans(r, 3), genIntList(r, 4), genFloatList(r, 4),
		strconv.Itoa(r.Intn(4)), strconv.FormatInt(genI64(r), 10), custom}, ":")
}

func genC25(c *hlib.Ctx) {
	r := c.R
	pool := []string{}
	for _, s := range []string{"__name__", "job", "instance", "le", "up", "a", "b", "trace_id", "http_requests_total", "x", "ab", "abc"} {
		pool = append(pool, "x"+hlib.HexS(s))
	}
	rounds := c.N(2500, 60000)
	for it := 0; it < rounds; it++ {
		// streams: 0 = plain (the domain where the round trip must hold), 1 = with custom bucket values (F25),
		// 2 = count / zero count of different kinds
		stream := 0
		switch x := r.Intn(20); {
		case x == 0:
			stream = 1
		case x == 1:
			stream = 2
		}
		nten := 1
		if r.Chance(1, 3) {
			nten = r.Range(2, 3)
		}
		var toks []string
		for t := 0; t < nten; t++ {
			name := r.Pick([]string{"t", "t" + hlib.HexS("tenant-a"), "t" + hlib.HexS("b"), "t" + hlib.Hex(r.Bytes(3))})
			for _, prev := range toks {
				if prev == name {
					c.Count("tenants:same-tenant-twice")
					break
				}
			}
			toks = append(toks, name)
			for s := r.Intn(4); s > 0; s-- {
				var ss, es, hs []string
				for i := r.Intn(4); i > 0; i-- {
					ss = append(ss, fmt.Sprintf("%d:%d", genFloatBits(r), genI64(r)))
				}
				for i := r.Intn(3); i > 0; i-- {
					el := genLabelsC25(r, pool, 2, ".")
					if el == "_" {
						c.Count("exemplar-labels:empty")
					}
					es = append(es, fmt.Sprintf("%s:%d:%d", el, genFloatBits(r), genI64(r)))
				}
				for i := r.Intn(3); i > 0; i-- {
					hs = append(hs, genHistC25(c, stream == 1, stream == 2))
				}
				sl := genLabelsC25(r, pool, 5, ",")
				if sl == "_" {
					c.Count("series-labels:empty")
					if len(hs) > 0 {
						c.Count("series-labels:empty-with-histograms")
					}
				}
				toks = append(toks, strings.Join([]string{sl, joinU(ss, ","), joinU(es, ","), joinU(hs, ",")}, "|"))
				c.Count(fmt.Sprintf("samples:%d", len(ss)))
				c.Count(fmt.Sprintf("exemplars:%d", len(es)))
				c.Count(fmt.Sprintf("hists:%d", len(hs)))
			}
		}
		c.Count(fmt.Sprintf("tenants:%d", nten))
		c.Count(fmt.Sprintf("stream:%d", stream))
		out := c.Do("capnp.rt "+strings.Join(toks, " "), true)
		if out == "panic" {
			c.Count("answer:panic")
		} else {
			c.Count("answer:decoded")
		}
	}
}
