package main

// Shared machinery of C22 / C23 (and the handler set-up used by C24 / C26): a real receive.Handler
// whose hashring and peers are scripted by the harness.
//
//   * hashring: scriptRing — series `s<i>` replica r goes to the endpoint the op line says;
//   * peers:    every endpoint is served by the REAL peerWorker (worker pool, buildWork) around a
//               fakePeer client; a fakePeer call blocks until the harness releases it and then
//               returns the scripted error, so the harness chooses the order in which the
//               responses reach fanoutForward's channel;
//   * a response is known to be in the channel when the `receive_forward` span of that write
//               finishes (the span is finished by peerWorker after `responseWriter <- …` and the
//               callback); the spans are observed through an opentracing.Tracer in the context.

import (
	"bytes"
	"context"
	"fmt"
	"net/http"
	"net/http/httptest"
	"sort"
	"strconv"
	"strings"
	"sync"
	"time"

	"github.com/go-kit/log"
	"github.com/gogo/protobuf/proto"
	"github.com/golang/snappy"
	"github.com/opentracing/opentracing-go"
	"github.com/pkg/errors"
	"github.com/prometheus/prometheus/model/exemplar"
	"github.com/prometheus/prometheus/model/histogram"
	"github.com/prometheus/prometheus/model/labels"
	"github.com/prometheus/prometheus/storage"
	"github.com/prometheus/prometheus/tsdb"
	"google.golang.org/grpc"
	"google.golang.org/grpc/test/bufconn"
	"google.golang.org/grpc/codes"
	"google.golang.org/grpc/status"

	"github.com/thanos-io/thanos/pkg/receive"
	"github.com/thanos-io/thanos/pkg/receive/writecapnp"
	"github.com/thanos-io/thanos/pkg/store/labelpb"
	"github.com/thanos-io/thanos/pkg/store/storepb"
	"github.com/thanos-io/thanos/pkg/store/storepb/prompb"
	"github.com/thanos-io/thanos/pkg/tenancy"
	"github.com/thanos-io/thanos/pkg/tracing"
	"github.com/thanos-io/thanos/verifharness/hlib"
)

const (
	numEndpoints = 8
	stepTimeout  = 5 * time.Second
)

func endpointOf(i int) receive.Endpoint {
	a := fmt.Sprintf("e%d", i)
	return receive.Endpoint{Address: a, CapNProtoAddress: a}
}

func endpointIndex(e receive.Endpoint) int {
	i, err := strconv.Atoi(strings.TrimPrefix(e.Address, "e"))
	if err != nil {
		return -1
	}
	return i
}

// ---------------------------------------------------------------- scripted hashring

type scriptRing struct {
	mu        sync.Mutex
	placement map[string][]int // series name -> endpoint of replica 0,1,…
	fallback  bool             // series without an entry go to endpoint 0 (C26: arbitrary label sets)
}

func seriesName(ts *prompb.TimeSeries) string {
	for _, l := range ts.Labels {
		if l.Name == "__name__" {
			return l.Value
		}
	}
	return ""
}

func (r *scriptRing) GetN(_ string, ts *prompb.TimeSeries, n uint64) (receive.Endpoint, error) {
	r.mu.Lock()
	defer r.mu.Unlock()
	pl, ok := r.placement[seriesName(ts)]
	if !ok && r.fallback {
		return endpointOf(0), nil
	}
	if !ok || n >= uint64(len(pl)) {
		return receive.Endpoint{}, fmt.Errorf("scripted hashring: no node %d for series %q", n, seriesName(ts))
	}
	return endpointOf(pl[n]), nil
}

func (r *scriptRing) Nodes() []receive.Endpoint {
	var es []receive.Endpoint
	for i := 0; i < numEndpoints; i++ {
		es = append(es, endpointOf(i))
	}
	return es
}

func (r *scriptRing) Close() {}

// ---------------------------------------------------------------- one scripted run

type wkey struct{ e, r int }

type fanRun struct {
	mu       sync.Mutex
	outcome  map[wkey]byte
	release  map[wkey]chan struct{}
	entered  map[wkey]bool
	finished map[wkey]bool
	recv     map[wkey][]string // series names received by the fake peer
	tenantOf map[string]string // series name -> tenant under which a peer received it ("a|b" if it differs between peers)
	codes    map[wkey]string   // capnp transport: outcome letter and the gRPC code the client reported for the write
	stored   map[wkey]bool     // the fake peer answered ok after having been released
	unknown  []string          // calls that match no scripted write
	capture  bool              // record the canonical form of every series received (C26)
	captured []string
	wake     chan struct{}     // pulsed on every state change
}

func newFanRun() *fanRun {
	return &fanRun{outcome: map[wkey]byte{}, release: map[wkey]chan struct{}{}, entered: map[wkey]bool{},
		finished: map[wkey]bool{}, recv: map[wkey][]string{}, stored: map[wkey]bool{}, tenantOf: map[string]string{}, codes: map[wkey]string{}, wake: make(chan struct{}, 1)}
}

func (f *fanRun) pulse() {
	select {
	case f.wake <- struct{}{}:
	default:
	}
}

// waitFor blocks until cond() holds (evaluated under the lock) or the deadline passes.
func (f *fanRun) waitFor(cond func() bool) bool {
	deadline := time.NewTimer(stepTimeout)
	defer deadline.Stop()
	for {
		f.mu.Lock()
		ok := cond()
		f.mu.Unlock()
		if ok {
			return true
		}
		select {
		case <-f.wake:
		case <-time.After(2 * time.Millisecond):
		case <-deadline.C:
			return false
		}
	}
}

var (
	curMu  sync.Mutex
	curRun *fanRun
)

func setRun(f *fanRun) {
	curMu.Lock()
	curRun = f
	curMu.Unlock()
}

func getRun() *fanRun {
	curMu.Lock()
	defer curMu.Unlock()
	return curRun
}

// outcomeError maps an outcome letter to the error a peer returns.
func outcomeError(o byte) error {
	switch o {
	case 'k':
		return nil
	case 'c':
		return status.Error(codes.AlreadyExists, "scripted: already exists")
	case 'C':
		return errors.Wrap(receive.VerifErrConflict, "scripted")
	case 'o':
		return errors.Wrap(storage.ErrOutOfOrderSample, "scripted: add 1 samples")
	case 'u':
		return status.Error(codes.Unavailable, "scripted: unavailable")
	case 'U':
		return errors.Wrapf(receive.VerifErrUnavailable, "scripted: backing off forward request")
	case 'n':
		return errors.Wrap(receive.VerifErrNotReady, "scripted")
	case 'N':
		return errors.Wrap(tsdb.ErrNotReady, "scripted")
	case 'x':
		return status.Error(codes.Internal, "scripted: internal")
	}
	return fmt.Errorf("scripted: plain error")
}

// ---------------------------------------------------------------- fake peer (one per endpoint)

type fakePeer struct{ e int }

func (p *fakePeer) Close() error { return nil }

// enterWrite registers the call of a scripted write and blocks until the harness releases it or
// the context ends; it returns the scripted outcome letter.
func enterWrite(ctx context.Context, e int, in *storepb.WriteRequest) (f *fanRun, k wkey, o byte, err error) {
	f = getRun()
	if f == nil {
		return nil, k, 0, fmt.Errorf("no scripted run")
	}
	k = wkey{e, int(in.Replica) - 1}
	var names, full []string
	tenants := map[string]string{}
	for _, tt := range in.TimeseriesTenantData {
		for i := range tt.Timeseries {
			n := seriesName(&tt.Timeseries[i])
			names = append(names, n)
			tenants[n] = tt.Tenant
			if f.capture {
				full = append(full, showTS1(&tt.Timeseries[i]))
			}
		}
	}
	f.mu.Lock()
	f.captured = append(f.captured, full...)
	for n, t := range tenants {
		if old, ok := f.tenantOf[n]; ok && old != t {
			f.tenantOf[n] = old + "|" + t
		} else {
			f.tenantOf[n] = t
		}
	}
	rel, ok := f.release[k]
	if !ok || f.entered[k] {
		f.unknown = append(f.unknown, fmt.Sprintf("%d:%d:%s", k.e, k.r, strings.Join(names, ".")))
		f.mu.Unlock()
		f.pulse()
		return f, k, 0, status.Error(codes.Internal, "unscripted write")
	}
	f.entered[k] = true
	f.recv[k] = names
	o = f.outcome[k]
	f.mu.Unlock()
	f.pulse()
	select {
	case <-rel:
	case <-ctx.Done():
		return f, k, o, ctx.Err()
	}
	return f, k, o, nil
}

func (p *fakePeer) RemoteWrite(ctx context.Context, in *storepb.WriteRequest, _ ...grpc.CallOption) (*storepb.WriteResponse, error) {
	f, k, o, err := enterWrite(ctx, p.e, in)
	if err != nil {
		return nil, err
	}
	err = outcomeError(o)
	if err == nil {
		f.mu.Lock()
		f.stored[k] = true
		f.mu.Unlock()
		return &storepb.WriteResponse{}, nil
	}
	return nil, err
}

// ---------------------------------------------------------------- peers reached over Cap'n Proto
//
// Transport "c": every endpoint is a real writecapnp.RemoteWriteClient talking over an in-memory
// connection to a real CapNProtoServer / CapNProtoHandler / CapNProtoWriter whose tenant storage is
// scripted: the outcome letter decides what the storage does (k stores; o: the appender rejects
// the sample as out of order; N: the appender is not ready; x: the appender cannot be created;
// X: the tenant storage fails).  The error travels back through the server's and the client's
// own error mapping.  The harness releases one write at a time, so a single "current outcome"
// per endpoint is enough.

type scriptStorage struct {
	mu      sync.Mutex
	outcome byte
	commits int
}

func (s *scriptStorage) get() byte {
	s.mu.Lock()
	defer s.mu.Unlock()
	return s.outcome
}

func (s *scriptStorage) TenantAppendable(string) (receive.Appendable, error) {
	if s.get() == 'X' {
		return nil, fmt.Errorf("scripted: tenant storage failure")
	}
	return s, nil
}

func (s *scriptStorage) Appender(context.Context) (storage.Appender, error) {
	switch s.get() {
	case 'N':
		return nil, tsdb.ErrNotReady
	case 'x':
		return nil, fmt.Errorf("scripted: appender failure")
	}
	return &scriptAppender{st: s}, nil
}

// scriptAppender implements the part of storage.Appender the receive writers use.
type scriptAppender struct {
	storage.Appender
	st *scriptStorage
}

func (a *scriptAppender) GetRef(labels.Labels, uint64) (storage.SeriesRef, labels.Labels) {
	return 0, labels.EmptyLabels()
}
func (a *scriptAppender) SetOptions(*storage.AppendOptions) {}
func (a *scriptAppender) Append(storage.SeriesRef, labels.Labels, int64, float64) (storage.SeriesRef, error) {
	if a.st.get() == 'o' {
		return 0, storage.ErrOutOfOrderSample
	}
	return 1, nil
}
func (a *scriptAppender) AppendExemplar(storage.SeriesRef, labels.Labels, exemplar.Exemplar) (storage.SeriesRef, error) {
	return 1, nil
}
func (a *scriptAppender) AppendHistogram(storage.SeriesRef, labels.Labels, int64, *histogram.Histogram, *histogram.FloatHistogram) (storage.SeriesRef, error) {
	return 1, nil
}
func (a *scriptAppender) Commit() error {
	a.st.mu.Lock()
	a.st.commits++
	a.st.mu.Unlock()
	return nil
}
func (a *scriptAppender) Rollback() error { return nil }

type capnpPeer struct {
	e  int
	st *scriptStorage
	cl *writecapnp.RemoteWriteClient
}

var capnpSerial sync.Mutex

func newCapnpPeer(e int) *capnpPeer {
	st := &scriptStorage{outcome: 'k'}
	lis := bufconn.Listen(1 << 20)
	w := receive.NewCapNProtoWriter(log.NewNopLogger(), st, nil)
	srv := receive.NewCapNProtoServer(lis, receive.NewCapNProtoHandler(nil, log.NewNopLogger(), w), log.NewNopLogger())
	go func() { _ = srv.ListenAndServe() }()
	return &capnpPeer{e: e, st: st, cl: writecapnp.NewRemoteWriteClient(lis, log.NewNopLogger())}
}

func (p *capnpPeer) Close() error { return nil }

func (p *capnpPeer) RemoteWrite(ctx context.Context, in *storepb.WriteRequest, _ ...grpc.CallOption) (*storepb.WriteResponse, error) {
	f, k, o, err := enterWrite(ctx, p.e, in)
	if err != nil {
		return nil, err
	}
	capnpSerial.Lock()
	defer capnpSerial.Unlock()
	p.st.mu.Lock()
	p.st.outcome = o
	before := p.st.commits
	p.st.mu.Unlock()
	resp, err := p.cl.RemoteWrite(ctx, in)
	p.st.mu.Lock()
	committed := p.st.commits > before
	p.st.mu.Unlock()
	f.mu.Lock()
	f.codes[k] = string(o) + ":" + status.Code(err).String()
	if err == nil && committed && o == 'k' {
		f.stored[k] = true
	}
	f.mu.Unlock()
	return resp, err
}

// ---------------------------------------------------------------- tracer that reports finished forward spans

type sigTracer struct{ opentracing.NoopTracer }

type sigSpan struct {
	opentracing.Span
	tr  *sigTracer
	key *wkey
	run *fanRun // the scripted run that was current when the span started
}

func (t *sigTracer) StartSpan(name string, opts ...opentracing.StartSpanOption) opentracing.Span {
	sp := &sigSpan{Span: opentracing.NoopTracer{}.StartSpan(name), tr: t}
	if name == "receive_forward" {
		var so opentracing.StartSpanOptions
		for _, o := range opts {
			o.Apply(&so)
		}
		ep, ok1 := so.Tags["endpoint"].(receive.Endpoint)
		rp, ok2 := so.Tags["replica"].(uint64)
		if ok1 && ok2 {
			sp.key = &wkey{endpointIndex(ep), int(rp)}
			sp.run = getRun()
		}
	}
	return sp
}

func (s *sigSpan) Tracer() opentracing.Tracer { return s.tr }
func (s *sigSpan) Finish() {
	if s.key != nil {
		if f := s.run; f != nil {
			f.mu.Lock()
			f.finished[*s.key] = true
			f.mu.Unlock()
			f.pulse()
		}
	}
}
func (s *sigSpan) FinishWithOptions(opentracing.FinishOptions) { s.Finish() }

// ---------------------------------------------------------------- the handler under test

type fanEnv struct {
	h    *receive.Handler
	opts *receive.Options
	ring *scriptRing
	tr   *sigTracer
}

func newFanEnv(limiter *receive.Limiter, capnp bool) *fanEnv {
	if limiter == nil {
		var err error
		limiter, err = receive.NewLimiter(nil, nil, receive.RouterIngestor, log.NewNopLogger(), time.Second)
		if err != nil {
			panic(err)
		}
	}
	opts := &receive.Options{
		TenantHeader:            tenancy.DefaultTenantHeader,
		DefaultTenantID:         tenancy.DefaultTenant,
		ReplicaHeader:           receive.DefaultReplicaHeader,
		ReplicationFactor:       3,
		ReceiverMode:            receive.RouterIngestor,
		ForwardTimeout:          2 * time.Minute,
		Endpoint:                "local-endpoint-not-in-the-ring",
		Writer:                  receive.NewWriter(log.NewNopLogger(), nil, nil),
		Limiter:                 limiter,
		AsyncForwardWorkerCount: 16,
		SplitTenantLabelName:    splitTenantLabel,
	}
	h := receive.NewHandler(log.NewNopLogger(), opts)
	env := &fanEnv{h: h, opts: opts, ring: &scriptRing{placement: map[string][]int{}}, tr: &sigTracer{}}
	receive.VerifSetPeers(h, 16, func(e receive.Endpoint) (receive.VerifPeerClient, error) {
		i := endpointIndex(e)
		if i < 0 {
			return nil, fmt.Errorf("unknown endpoint %v", e)
		}
		if capnp {
			return newCapnpPeer(i), nil
		}
		return &fakePeer{e: i}, nil
	})
	h.Hashring(env.ring)
	return env
}

var (
	fanOnce sync.Once
	fanE    *fanEnv
)

func theFanEnv() *fanEnv {
	fanOnce.Do(func() { fanE = newFanEnv(nil, false) })
	return fanE
}

var (
	fanCapnpOnce sync.Once
	fanCapnpE    *fanEnv
)

// theCapnpFanEnv: the same handler, its peers reached over Cap'n Proto.
func theCapnpFanEnv() *fanEnv {
	fanCapnpOnce.Do(func() { fanCapnpE = newFanEnv(nil, true) })
	return fanCapnpE
}

// splitTenantLabel is the handler's SplitTenantLabelName: a series carrying it is written under
// the tenant the label names (and loses the label).
const splitTenantLabel = "tenant_split"

type scriptEntry struct {
	k wkey
	o byte
}

// parsePlacement: series separated by `,`; a series is `[T@]e.e.e` — tenant index T (default 0)
// and the endpoint of replica 0,1,…; tenant indices must not decrease along the request.
func parsePlacement(s string) ([][]int, []int, bool) {
	var pl [][]int
	var tenants []int
	for _, ser := range hlib.Split(s, ",") {
		t := 0
		if i := strings.IndexByte(ser, '@'); i >= 0 {
			v, err := strconv.Atoi(ser[:i])
			if err != nil || v < 0 || v > 9 {
				return nil, nil, false
			}
			t, ser = v, ser[i+1:]
		}
		if len(tenants) > 0 && t < tenants[len(tenants)-1] {
			return nil, nil, false
		}
		var row []int
		for _, x := range hlib.Split(ser, ".") {
			v, err := strconv.Atoi(x)
			if err != nil || v < 0 || v >= numEndpoints {
				return nil, nil, false
			}
			row = append(row, v)
		}
		pl = append(pl, row)
		tenants = append(tenants, t)
	}
	return pl, tenants, len(pl) > 0
}

func parseScripts(s string) ([][]scriptEntry, bool) {
	var out [][]scriptEntry
	for _, sc := range strings.Split(s, "/") {
		var es []scriptEntry
		for _, t := range hlib.Split(sc, ",") {
			p := strings.Split(t, ":")
			if len(p) != 3 || len(p[2]) != 1 || !strings.Contains("kcCouUnNxX", p[2]) {
				return nil, false
			}
			e, err1 := strconv.Atoi(p[0])
			r, err2 := strconv.Atoi(p[1])
			if err1 != nil || err2 != nil {
				return nil, false
			}
			es = append(es, scriptEntry{wkey{e, r}, p[2][0]})
		}
		out = append(out, es)
	}
	return out, len(out) > 0
}

// expectedWrites groups the series by (endpoint, replica) as the op line's placement says — the
// harness's own bookkeeping of which fake-peer calls to wait for.
func expectedWrites(rf, rep int, pl [][]int) map[wkey][]int {
	ws := map[wkey][]int{}
	for i, row := range pl {
		if rep == 0 {
			for r := 0; r < rf && r < len(row); r++ {
				ws[wkey{row[r], r}] = append(ws[wkey{row[r], r}], i)
			}
		} else if rep-1 < len(row) {
			ws[wkey{row[rep-1], rep - 1}] = append(ws[wkey{row[rep-1], rep - 1}], i)
		}
	}
	return ws
}

// makeSeries builds the series s0 … s(n-1); with split = true a series of tenant T > 0 carries the
// split-tenant label naming tenant tT.
func makeSeries(n int, tenants []int, split bool) []prompb.TimeSeries {
	ts := make([]prompb.TimeSeries, n)
	for i := range ts {
		ls := []labelpb.ZLabel{{Name: "__name__", Value: fmt.Sprintf("s%d", i)}, {Name: "job", Value: "verif"}}
		if split && i < len(tenants) && tenants[i] > 0 {
			ls = append(ls, labelpb.ZLabel{Name: splitTenantLabel, Value: fmt.Sprintf("t%d", tenants[i])})
		}
		ts[i] = prompb.TimeSeries{Labels: ls, Samples: []prompb.Sample{{Timestamp: 1000 + int64(i), Value: float64(i)}}}
	}
	return ts
}

// expectedTenant is the tenant under which series i must reach the peers.
func expectedTenant(http1 bool, tenants []int, i int) string {
	t := 0
	if i < len(tenants) {
		t = tenants[i]
	}
	if http1 && t == 0 {
		return "t" // the tenant of the HTTP header
	}
	return fmt.Sprintf("t%d", t)
}

type fanResult struct {
	status  string           // HTTP status code or gRPC code name; "stuck:<what>" when a step timed out
	recv    map[wkey][]string // what the fake peers received
	stored  map[wkey]bool
	unknown []string
	tenants map[string]string // series name -> tenant it arrived under
	codes   map[wkey]string   // capnp transport: "<outcome letter>:<code the client reported>"
}

// runFan executes one request with one arrival order on the real handler.
func (env *fanEnv) runFan(http1 bool, rf, rep int, pl [][]int, tenants []int, script []scriptEntry) fanResult {
	env.opts.ReplicationFactor = uint64(rf)
	env.ring.mu.Lock()
	env.ring.placement = map[string][]int{}
	for i, row := range pl {
		env.ring.placement[fmt.Sprintf("s%d", i)] = row
	}
	env.ring.mu.Unlock()

	f := newFanRun()
	for _, e := range script {
		f.outcome[e.k] = e.o
		f.release[e.k] = make(chan struct{})
	}
	setRun(f)
	defer setRun(nil)

	ctx := tracing.ContextWithTracer(context.Background(), env.tr)
	series := makeSeries(len(pl), tenants, http1)
	done := make(chan string, 1)
	go func() {
		defer func() {
			if r := recover(); r != nil {
				done <- "panic"
			}
		}()
		if http1 {
			buf, err := proto.Marshal(&prompb.WriteRequest{Timeseries: series})
			if err != nil {
				done <- "marshal-error"
				return
			}
			req := httptest.NewRequest("POST", "/api/v1/receive", bytes.NewReader(snappy.Encode(nil, buf))).WithContext(ctx)
			req.Header.Set(tenancy.DefaultTenantHeader, "t")
			if rep != 0 {
				req.Header.Set(receive.DefaultReplicaHeader, strconv.Itoa(rep))
			}
			rec := httptest.NewRecorder()
			receive.VerifRouter(env.h).ServeHTTP(rec, req)
			done <- strconv.Itoa(rec.Code)
			return
		}
		// gRPC: one tuple per tenant (tenant indices are non-decreasing along the request)
		wr := &storepb.WriteRequest{Replica: int64(rep)}
		for i := range series {
			name := expectedTenant(false, tenants, i)
			if n := len(wr.TimeseriesTenantData); n == 0 || wr.TimeseriesTenantData[n-1].Tenant != name {
				wr.TimeseriesTenantData = append(wr.TimeseriesTenantData, storepb.TimeSeriesTenantTuple{Tenant: name})
			}
			last := &wr.TimeseriesTenantData[len(wr.TimeseriesTenantData)-1]
			last.Timeseries = append(last.Timeseries, series[i])
		}
		_, err := env.h.RemoteWrite(ctx, wr)
		done <- grpcName(err)
	}()

	res := fanResult{}
	stuck := ""
	// a request that fails before any write is sent (bad replica, hashring error) answers at once
	early := ""
	if len(script) == 0 {
		select {
		case early = <-done:
		case <-time.After(stepTimeout):
			stuck = "stuck:no-answer"
		}
	}
	for _, e := range script {
		k := e.k
		if !f.waitFor(func() bool { return f.entered[k] || f.finished[k] || len(f.unknown) > 0 }) {
			stuck = fmt.Sprintf("stuck:write-%d:%d-never-sent", k.e, k.r)
			break
		}
		close(f.release[k])
		if !f.waitFor(func() bool { return f.finished[k] || len(f.unknown) > 0 }) {
			stuck = fmt.Sprintf("stuck:response-%d:%d-never-delivered", k.e, k.r)
			break
		}
	}
	if stuck == "" && early == "" {
		select {
		case early = <-done:
		case <-time.After(stepTimeout):
			stuck = "stuck:no-answer"
		}
	}
	if stuck != "" {
		// let everything go so that the handler can terminate before the next op
		f.mu.Lock()
		for k, ch := range f.release {
			select {
			case <-ch:
			default:
				close(ch)
			}
			_ = k
		}
		f.mu.Unlock()
		select {
		case <-done:
		case <-time.After(stepTimeout):
		}
		res.status = stuck
	} else {
		res.status = early
	}
	// quiesce: every scripted write has either finished or never started
	f.waitFor(func() bool {
		for k := range f.release {
			if f.entered[k] && !f.finished[k] {
				return false
			}
		}
		return true
	})
	f.mu.Lock()
	res.recv, res.stored, res.unknown, res.tenants, res.codes = f.recv, f.stored, f.unknown, f.tenantOf, f.codes
	f.mu.Unlock()
	return res
}

func grpcName(err error) string {
	if err == nil {
		return "ok"
	}
	switch status.Code(err) {
	case codes.Unavailable:
		return "unavail"
	case codes.AlreadyExists:
		return "exists"
	case codes.InvalidArgument:
		return "invalid"
	case codes.Internal:
		return "internal"
	}
	return "code-" + status.Code(err).String()
}

func showRecv(recv map[wkey][]string, unknown []string) string {
	var parts []string
	keys := make([]wkey, 0, len(recv))
	for k := range recv {
		keys = append(keys, k)
	}
	sort.Slice(keys, func(i, j int) bool {
		if keys[i].e != keys[j].e {
			return keys[i].e < keys[j].e
		}
		return keys[i].r < keys[j].r
	})
	for _, k := range keys {
		nums := make([]int, len(recv[k]))
		for i, n := range recv[k] {
			nums[i], _ = strconv.Atoi(strings.TrimPrefix(n, "s"))
		}
		sort.Ints(nums)
		ids := make([]string, len(nums))
		for i, n := range nums {
			ids[i] = strconv.Itoa(n)
		}
		parts = append(parts, fmt.Sprintf("%d:%d:%s", k.e, k.r, hlib.Join(ids, ".")))
	}
	for _, u := range unknown {
		parts = append(parts, "unscripted-"+u)
	}
	return hlib.Join(parts, ",")
}

var _ http.Handler
