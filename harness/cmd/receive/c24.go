package main

import (
	"bytes"
	"context"
	"fmt"
	"net/http/httptest"
	"runtime"
	"sort"
	"strconv"
	"strings"
	"sync"
	"time"

	"github.com/go-kit/log"
	"github.com/gogo/protobuf/proto"
	"github.com/golang/snappy"
	"github.com/prometheus/client_golang/prometheus"
	"go.opentelemetry.io/collector/pdata/pcommon"
	"go.opentelemetry.io/collector/pdata/pmetric"
	"go.opentelemetry.io/collector/pdata/pmetric/pmetricotlp"
	"google.golang.org/grpc"

	"github.com/thanos-io/thanos/pkg/receive"
	"github.com/thanos-io/thanos/pkg/store/labelpb"
	"github.com/thanos-io/thanos/pkg/store/storepb"
	"github.com/thanos-io/thanos/pkg/store/storepb/prompb"
	"github.com/thanos-io/thanos/pkg/tenancy"
	"github.com/thanos-io/thanos/verifharness/hlib"
)

// C24 — the remote-write concurrency gate is never exceeded.
//
// op (grammar also at the top of lean/Thanos/Driver/Receive.lean):
//
//   gate <entry> <cap> <steps>
//       entry  h = POST /api/v1/receive, o = POST /api/v1/otlp   (through the real Handler's router)
//       cap    write.global.max_concurrency of the limits configuration (the real Limiter builds the gate)
//       steps  a | x | c | f joined by `,` — executed one after the other against the real handler:
//              a  a request arrives (live context); it either passes the gate and blocks inside the
//                 scripted peer (= inside the write path) or blocks in gate.Start
//              x  a request arrives with an already cancelled context; executed only while the gate is
//                 full (in-flight gauge >= cap: then Start fails deterministically), otherwise skipped
//              c  the context of the oldest request blocked in gate.Start is cancelled
//              k  the context of the oldest request inside the write path is cancelled (the client went
//                 away / the server gave up on it): it keeps its slot until the handler returns
//              f  the oldest request inside the write path is released and completes
//              r  the limits are reloaded: Limiter.loadConfig runs (as the reloader does when the limits
//                 file changes; same max_concurrency) while the requests above are queued or in flight
//       cap 0: the limits configuration sets no max_concurrency: the limiter keeps gate.NewNoop()
//   answer: per step `running.waiting.gauge.total` at quiescence (gauge / total = the gate's in-flight gauge and total counter), `,`-joined, then ` p=<handler panics> max=<max requests inside the write path>`
//
// Quiescence is established without timing assumptions: every launched request must be accounted
// for as returned, blocked inside the scripted peer, or parked in the select of
// prometheus/util/gate.(*Gate).Start according to a goroutine dump (a request that was handed a
// freed slot is runnable, not parked), with the counters unchanged across the dump.

func init() {
	props = append(props, &hlib.Prop{ID: "C24", Gen: genC24, Exec: execC24})
}

type limitsFile struct {
	mu      sync.Mutex
	content []byte
}

func (f *limitsFile) Content() ([]byte, error) {
	f.mu.Lock()
	defer f.mu.Unlock()
	return f.content, nil
}
func (f *limitsFile) Path() string { return "" }
func (f *limitsFile) set(capacity int) {
	f.mu.Lock()
	f.content = []byte(fmt.Sprintf("write:\n  global:\n    max_concurrency: %d\n", capacity))
	f.mu.Unlock()
}

type gateReq struct {
	id       int
	cancel   context.CancelFunc
	entered  bool
	released bool
	killed   bool
	epoch    int // number of limits reloads before the request arrived
	returned bool
	status   string
	release  chan struct{}
}

type gateEnv struct {
	mu      sync.Mutex
	h       *receive.Handler
	reg     *prometheus.Registry
	limiter *receive.Limiter
	limits  *limitsFile
	cap     int
	otlp    bool
	reqs    []*gateReq
	inPeer  int
	maxPeer int
	epoch   int         // limits reloads so far
	inEpoch map[int]int // requests inside the write path, per epoch of arrival
	maxEp   int         // most requests of one epoch inside the write path at once
	panics  []string
	wake    chan struct{}
}

func (g *gateEnv) pulse() {
	select {
	case g.wake <- struct{}{}:
	default:
	}
}

type gatePeer struct{ g *gateEnv }

func (p *gatePeer) Close() error { return nil }

func (p *gatePeer) RemoteWrite(ctx context.Context, in *storepb.WriteRequest, _ ...grpc.CallOption) (*storepb.WriteResponse, error) {
	g := p.g
	id := -1
	for _, tt := range in.TimeseriesTenantData {
		for i := range tt.Timeseries {
			if n := seriesName(&tt.Timeseries[i]); strings.HasPrefix(n, "g") {
				if v, err := strconv.Atoi(strings.TrimPrefix(n, "g")); err == nil {
					id = v
				}
			}
		}
	}
	g.mu.Lock()
	if id < 0 || id >= len(g.reqs) {
		g.mu.Unlock()
		return nil, fmt.Errorf("gate peer: unknown request")
	}
	r := g.reqs[id]
	r.entered = true
	g.inPeer++
	if g.inPeer > g.maxPeer {
		g.maxPeer = g.inPeer
	}
	if g.inEpoch == nil {
		g.inEpoch = map[int]int{}
	}
	g.inEpoch[r.epoch]++
	if g.inEpoch[r.epoch] > g.maxEp {
		g.maxEp = g.inEpoch[r.epoch]
	}
	g.mu.Unlock()
	g.pulse()
	<-r.release
	g.mu.Lock()
	g.inPeer--
	g.inEpoch[r.epoch]--
	g.mu.Unlock()
	return &storepb.WriteResponse{}, nil
}

func newGateEnv(capacity int, otlp bool) (*gateEnv, error) {
	reg := prometheus.NewRegistry()
	lf := &limitsFile{}
	lf.set(capacity)
	limiter, err := receive.NewLimiter(lf, reg, receive.RouterIngestor, log.NewNopLogger(), time.Hour)
	if err != nil {
		return nil, err
	}
	g := &gateEnv{reg: reg, limiter: limiter, limits: lf, cap: capacity, otlp: otlp, wake: make(chan struct{}, 1)}
	opts := &receive.Options{
		TenantHeader:            tenancy.DefaultTenantHeader,
		DefaultTenantID:         tenancy.DefaultTenant,
		ReplicaHeader:           receive.DefaultReplicaHeader,
		ReplicationFactor:       1,
		ReceiverMode:            receive.RouterIngestor,
		ForwardTimeout:          2 * time.Minute,
		Endpoint:                "local-endpoint-not-in-the-ring",
		Writer:                  receive.NewWriter(log.NewNopLogger(), nil, nil),
		Limiter:                 limiter,
		AsyncForwardWorkerCount: 64,
	}
	g.h = receive.NewHandler(log.NewNopLogger(), opts)
	receive.VerifSetPeers(g.h, 64, func(receive.Endpoint) (receive.VerifPeerClient, error) { return &gatePeer{g}, nil })
	g.h.Hashring(&scriptRing{placement: map[string][]int{}, fallback: true})
	return g, nil
}

// gauge / total read the gate's metrics; a limiter without a gate registers none (reported as 0).
func (g *gateEnv) gauge() int { return g.metric("gate_write_requests_in_flight") }
func (g *gateEnv) total() int { return g.metric("gate_write_requests_total") }

func (g *gateEnv) metric(suffix string) int {
	mfs, err := g.reg.Gather()
	if err != nil {
		return -999
	}
	for _, mf := range mfs {
		if strings.HasSuffix(mf.GetName(), suffix) && len(mf.Metric) == 1 {
			if mf.Metric[0].Gauge != nil {
				return int(mf.Metric[0].GetGauge().GetValue())
			}
			return int(mf.Metric[0].GetCounter().GetValue())
		}
	}
	return 0
}

func otlpBody(id int) []byte {
	d := pmetric.NewMetrics()
	rm := d.ResourceMetrics().AppendEmpty()
	rm.Resource().Attributes().PutStr("service.name", "verif")
	m := rm.ScopeMetrics().AppendEmpty().Metrics().AppendEmpty()
	m.SetName(fmt.Sprintf("g%d", id))
	m.SetEmptyGauge()
	dp := m.Gauge().DataPoints().AppendEmpty()
	dp.SetTimestamp(pcommon.NewTimestampFromTime(time.Unix(1700000000, 0)))
	dp.SetDoubleValue(1)
	buf, err := pmetricotlp.NewExportRequestFromMetrics(d).MarshalProto()
	if err != nil {
		panic(err)
	}
	return buf
}

func (g *gateEnv) launch(cancelled bool) *gateReq { return g.launchOn(cancelled, g.otlp, nil) }

// launchOn starts a request on the given endpoint; with a barrier the request goroutine waits for
// it before it enters the handler (so that several requests arrive together).
func (g *gateEnv) launchOn(cancelled, otlp bool, barrier <-chan struct{}) *gateReq {
	ctx, cancel := context.WithCancel(context.Background())
	g.mu.Lock()
	r := &gateReq{id: len(g.reqs), cancel: cancel, release: make(chan struct{}), epoch: g.epoch}
	g.reqs = append(g.reqs, r)
	g.mu.Unlock()
	if cancelled {
		cancel()
	}
	go func() {
		status := ""
		defer func() {
			if p := recover(); p != nil {
				status = "panic"
				g.mu.Lock()
				g.panics = append(g.panics, fmt.Sprint(p))
				g.mu.Unlock()
			}
			g.mu.Lock()
			r.returned, r.status = true, status
			g.mu.Unlock()
			g.pulse()
		}()
		rec := httptest.NewRecorder()
		if barrier != nil {
			<-barrier
		}
		if otlp {
			req := httptest.NewRequest("POST", "/api/v1/otlp", bytes.NewReader(otlpBody(r.id))).WithContext(ctx)
			req.Header.Set("Content-Type", "application/x-protobuf")
			req.Header.Set(tenancy.DefaultTenantHeader, "t")
			receive.VerifRouter(g.h).ServeHTTP(rec, req)
		} else {
			ts := []prompb.TimeSeries{{
				Labels:  []labelpb.ZLabel{{Name: "__name__", Value: fmt.Sprintf("g%d", r.id)}},
				Samples: []prompb.Sample{{Timestamp: 1000, Value: 1}},
			}}
			buf, _ := proto.Marshal(&prompb.WriteRequest{Timeseries: ts})
			req := httptest.NewRequest("POST", "/api/v1/receive", bytes.NewReader(snappy.Encode(nil, buf))).WithContext(ctx)
			req.Header.Set(tenancy.DefaultTenantHeader, "t")
			receive.VerifRouter(g.h).ServeHTTP(rec, req)
		}
		status = strconv.Itoa(rec.Code)
	}()
	return r
}

// parkedInGate counts the goroutines parked in the select of the Prometheus gate's Start.
func parkedInGate() int {
	buf := make([]byte, 1<<20)
	for {
		n := runtime.Stack(buf, true)
		if n < len(buf) {
			buf = buf[:n]
			break
		}
		buf = make([]byte, 2*len(buf))
	}
	cnt := 0
	for _, blk := range strings.Split(string(buf), "\n\n") {
		if !strings.Contains(blk, "prometheus/util/gate.(*Gate).Start") {
			continue
		}
		nl := strings.IndexByte(blk, '\n')
		if nl < 0 {
			continue
		}
		hdr := blk[:nl]
		if i := strings.IndexByte(hdr, '['); i >= 0 && strings.HasPrefix(hdr[i+1:], "select") {
			cnt++
		}
	}
	return cnt
}

type gateCounts struct{ launched, returned, inPeer int }

func (g *gateEnv) counts() gateCounts {
	g.mu.Lock()
	defer g.mu.Unlock()
	c := gateCounts{launched: len(g.reqs)}
	for _, r := range g.reqs {
		switch {
		case r.returned:
			c.returned++
		case r.entered && !r.released:
			c.inPeer++
		}
	}
	return c
}

// quiesce waits until every request is accounted for; it returns (running, waiting, ok).
func (g *gateEnv) quiesce() (int, int, bool) {
	deadline := time.Now().Add(stepTimeout)
	for {
		before := g.counts()
		parked := parkedInGate()
		after := g.counts()
		if before == after && after.returned+after.inPeer+parked == after.launched {
			return after.inPeer, parked, true
		}
		if time.Now().After(deadline) {
			return after.inPeer, parked, false
		}
		select {
		case <-g.wake:
		case <-time.After(200 * time.Microsecond):
		}
	}
}

// cleanup lets every request go and closes the handler.
func (g *gateEnv) cleanup() {
	// clean up: let every request go (not part of the answer); a request that is handed a freed slot
	// while the others leave shows up inside the peer a little later, so keep scanning
	cleanupDeadline := time.Now().Add(stepTimeout)
	for {
		all := true
		var toRelease []*gateReq
		g.mu.Lock()
		for _, r := range g.reqs {
			if r.returned {
				continue
			}
			all = false
			if r.entered && !r.released {
				r.released = true
				toRelease = append(toRelease, r)
			}
		}
		reqs := append([]*gateReq(nil), g.reqs...)
		g.mu.Unlock()
		for _, r := range toRelease {
			close(r.release)
		}
		for _, r := range reqs {
			r.cancel()
		}
		if all || time.Now().After(cleanupDeadline) {
			break
		}
		select {
		case <-g.wake:
		case <-time.After(200 * time.Microsecond):
		}
	}
	g.h.Close()
}

func (g *gateEnv) waitReturned(r *gateReq) bool {
	deadline := time.Now().Add(stepTimeout)
	for {
		g.mu.Lock()
		ok := r.returned
		g.mu.Unlock()
		if ok {
			return true
		}
		if time.Now().After(deadline) {
			return false
		}
		select {
		case <-g.wake:
		case <-time.After(200 * time.Microsecond):
		}
	}
}

func (g *gateEnv) oldest(pred func(*gateReq) bool) *gateReq {
	g.mu.Lock()
	defer g.mu.Unlock()
	for _, r := range g.reqs {
		if pred(r) {
			return r
		}
	}
	return nil
}

// execGateFirst: K requests reach a freshly configured limiter together (optionally right after a
// limits reload), repeated `gateFirstReps` times on fresh limiters; the answer is what every
// repetition must show.
const gateFirstReps = 40

func execGateFirst(c *hlib.Ctx, tok []string) string {
	if len(tok) != 5 {
		return "bad-op"
	}
	capacity, err1 := strconv.Atoi(tok[2])
	k, err2 := strconv.Atoi(tok[3])
	reload, err3 := strconv.Atoi(tok[4])
	if err1 != nil || err2 != nil || err3 != nil || capacity < 1 || capacity > 8 || k < 1 || k > 8 || reload < 0 || reload > 8 || tok[1] == "" {
		return "bad-op"
	}
	for _, ch := range tok[1] {
		if ch != 'h' && ch != 'o' {
			return "bad-op"
		}
	}
	if runtime.GOMAXPROCS(0) < 2 {
		runtime.GOMAXPROCS(2)
	}
	inForce := capacity
	if reload > 0 {
		inForce = reload
	}
	answers := map[string]int{}
	worst := 0
	for rep := 0; rep < gateFirstReps; rep++ {
		g, err := newGateEnv(capacity, false)
		if err != nil {
			return "limiter-error:" + err.Error()
		}
		if reload > 0 {
			// the limits file changes and the reloader calls loadConfig
			g.limits.set(reload)
			if err := receive.VerifLoadLimits(g.limiter); err != nil {
				return "reload-error:" + err.Error()
			}
		}
		barrier := make(chan struct{})
		for i := 0; i < k; i++ {
			g.launchOn(false, tok[1][i%len(tok[1])] == 'o', barrier)
		}
		runtime.Gosched()
		close(barrier)
		running, waiting, ok := g.quiesce()
		g.mu.Lock()
		maxPeer, panics := g.maxPeer, len(g.panics)
		g.mu.Unlock()
		if maxPeer > worst {
			worst = maxPeer
		}
		a := fmt.Sprintf("%d.%d max=%d", running, waiting, maxPeer)
		if !ok {
			a += " stuck"
		}
		if panics > 0 {
			a += fmt.Sprintf(" p=%d", panics)
		}
		answers[a]++
		g.cleanup()
	}
	if worst > inForce {
		c.Violation("gate-exceeded-first-arrivals", fmt.Sprintf("max_concurrency %d but %d of %d simultaneous first arrivals were inside the write path at the same time (requests were handed different gates)", inForce, worst, k))
	}
	if len(answers) == 1 {
		for a := range answers {
			return a
		}
	}
	var parts []string
	for a, n := range answers {
		parts = append(parts, fmt.Sprintf("%dx[%s]", n, a))
	}
	sort.Strings(parts)
	return "varies:" + strings.Join(parts, ",")
}

func execC24(c *hlib.Ctx, tok []string) string {
	if len(tok) > 0 && tok[0] == "gate.first" {
		return execGateFirst(c, tok)
	}
	if len(tok) != 4 || tok[0] != "gate" || (tok[1] != "h" && tok[1] != "o") {
		return "bad-op"
	}
	capacity, err := strconv.Atoi(tok[2])
	steps := hlib.Split(tok[3], ",")
	if err != nil || capacity < 0 || capacity > 8 || len(steps) == 0 || len(steps) > 40 {
		return "bad-op"
	}
	for _, s := range steps {
		if s != "a" && s != "x" && s != "c" && s != "f" && s != "k" && s != "r" {
			return "bad-op"
		}
	}
	g, err := newGateEnv(capacity, tok[1] == "o")
	if err != nil {
		return "limiter-error:" + err.Error()
	}
	var out []string
	stuck := false
	for _, s := range steps {
		switch s {
		case "a":
			g.launch(false)
		case "x":
			if g.gauge() >= capacity {
				// with a gate it fails at once; without one (cap 0) Start does not look at the context
				// and the request enters the write path: the quiescence check below covers both
				g.launch(true)
			}
		case "c":
			if r := g.oldest(func(r *gateReq) bool { return !r.entered && !r.returned }); r != nil {
				r.cancel()
				stuck = stuck || !g.waitReturned(r)
			}
		case "r":
			if err := receive.VerifLoadLimits(g.limiter); err != nil {
				return "reload-error:" + err.Error()
			}
			g.mu.Lock()
			g.epoch++
			g.mu.Unlock()
		case "k":
			if r := g.oldest(func(r *gateReq) bool { return r.entered && !r.released && !r.killed }); r != nil {
				g.mu.Lock()
				r.killed = true
				g.mu.Unlock()
				r.cancel()
			}
		case "f":
			if r := g.oldest(func(r *gateReq) bool { return r.entered && !r.released }); r != nil {
				g.mu.Lock()
				r.released = true
				g.mu.Unlock()
				close(r.release)
				stuck = stuck || !g.waitReturned(r)
			}
		}
		running, waiting, ok := g.quiesce()
		stuck = stuck || !ok
		out = append(out, fmt.Sprintf("%d.%d.%d.%d", running, waiting, g.gauge(), g.total()))
		if stuck {
			break
		}
	}
	g.mu.Lock()
	panics, maxPeer := len(g.panics), g.maxEp
	pmsg := strings.Join(g.panics, "; ")
	statuses := map[string]int{}
	for _, r := range g.reqs {
		if r.returned {
			statuses[r.status]++
		}
	}
	g.mu.Unlock()
	for k, v := range statuses {
		for i := 0; i < v; i++ {
			c.Count("status:" + k)
		}
	}
	g.cleanup()
	if stuck {
		c.Violation("gate-stuck", "a step did not reach quiescence within the deadline: "+strings.Join(out, ","))
		return strings.Join(out, ",") + " stuck"
	}
	if capacity >= 1 && maxPeer > capacity {
		c.Violation("gate-exceeded", fmt.Sprintf("max_concurrency %d but %d requests admitted under one configuration were inside the write path at the same time", capacity, maxPeer))
	}
	if panics > 0 {
		c.Violation("gate-done-panic", fmt.Sprintf("%d request handler(s) panicked: %s", panics, pmsg))
	}
	return fmt.Sprintf("%s p=%d max=%d", strings.Join(out, ","), panics, maxPeer)
}

// ---------------------------------------------------------------- generator

func genC24(c *hlib.Ctx) {
	r := c.R
	// every schedule of length <= L over {a, c, f} (+ x) for small caps, both endpoints
	var rec func(prefix []string, n int, emit func([]string))
	rec = func(prefix []string, n int, emit func([]string)) {
		if len(prefix) > 0 {
			emit(prefix)
		}
		if len(prefix) == n {
			return
		}
		for _, s := range []string{"a", "c", "f", "x", "k", "r"} {
			rec(append(append([]string(nil), prefix...), s), n, emit)
		}
	}
	useful := func(p []string) bool {
		// starts with an arrival; no step on an obviously empty system
		return p[0] == "a"
	}
	L := c.N(5, 6)
	for _, entry := range []string{"h", "o"} {
		for capacity := 1; capacity <= 2; capacity++ {
			rec(nil, L, func(p []string) {
				if !useful(p) || len(p) < L-1 {
					return
				}
				// keep the quick tier small: sample the exhaustive set
				if c.Tier == "quick" && !r.Chance(1, 24) {
					return
				}
				if c.Tier != "quick" && !r.Chance(1, 5) {
					return
				}
				c.Count(fmt.Sprintf("exhaustive:%s:cap%d:len%d", entry, capacity, len(p)))
				c.Do(fmt.Sprintf("gate %s %d %s", entry, capacity, strings.Join(p, ",")), true)
			})
		}
	}
	// K simultaneous first arrivals at a fresh limiter / right after a limits reload (40 fresh limiters per op)
	for it := 0; it < c.N(16, 120); it++ {
		capacity := r.Range(1, 3)
		k := r.Range(2, 8)
		reload := 0
		if r.Chance(1, 2) {
			reload = r.Range(1, 3)
		}
		entries := r.Pick([]string{"h", "o", "ho", "oh", "hho"})
		c.Count(fmt.Sprintf("first:%s:k%d:reload%v", entries, k, reload > 0))
		c.Do(fmt.Sprintf("gate.first %s %d %d %d", entries, capacity, k, reload), true)
	}
	// longer random schedules, caps 1..4, biased towards full gates with waiters
	for it := 0; it < c.N(100, 2000); it++ {
		capacity := r.Range(1, 4)
		if r.Chance(1, 10) {
			capacity = 0 // no gate configured
		}
		n := r.Range(6, 16)
		p := make([]string, n)
		for i := range p {
			switch x := r.Intn(13); {
			case x < 5:
				p[i] = "a"
			case x < 7:
				p[i] = "c"
			case x < 9:
				p[i] = "f"
			case x < 10:
				p[i] = "x"
			case x < 11:
				p[i] = "k"
			default:
				p[i] = "r" // limits reload while requests are queued / in flight
			}
		}
		p[0] = "a"
		entry := "h"
		if r.Chance(1, 3) {
			entry = "o"
		}
		c.Count(fmt.Sprintf("random:%s:cap%d", entry, capacity))
		c.Do(fmt.Sprintf("gate %s %d %s", entry, capacity, strings.Join(p, ",")), true)
	}
}
