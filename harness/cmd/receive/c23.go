package main

import (
	"fmt"
	"sort"
	"strconv"
	"strings"

	"github.com/thanos-io/thanos/verifharness/hlib"
)

// C23 — failed replicated writes report retryable and permanent failures correctly.
// C22 — an acknowledged remote write reached quorum for every series (c22.go: generator + oracle).
//
// op (shared by C22 and C23; grammar also at the top of lean/Thanos/Driver/Receive.lean):
//
//   fan <entry> <rf> <rep> <placement> <scripts>
//       entry      h = HTTP POST /api/v1/receive through the handler's router (answer: status code)
//                  g = gRPC Handler.RemoteWrite (answer: ok | exists | unavail | invalid | internal)
//                  c = as h, but every peer is reached by the real Cap'n Proto client / server / writer
//                      over an in-memory connection and the outcome is produced by a scripted tenant
//                      storage on the peer (outcomes k o N x X only): the error mapping of
//                      CapNProtoHandler and of writecapnp.RemoteWriteClient is part of the run
//       rf         replication factor
//       rep        0 = not yet replicated; k>0 = request already replicated as replica k
//       placement  per series (`,`) `[T@]e.e.e`: the endpoint index of replica 0,1,… — the scripted
//                  hashring — optionally prefixed by a tenant index T (non-decreasing): h/c: a series
//                  of tenant T>0 carries the split-tenant label, g: one TimeseriesTenantData tuple per tenant
//       scripts    arrival orders separated by `/`; an order = `e:r:o` entries (`,`): the write to
//                  endpoint e as replica r answers with outcome o, in this order; every order must
//                  name every write exactly once
//                  o: k ok | c gRPC AlreadyExists | C errConflict | o out-of-order sample |
//                     u gRPC Unavailable | U errUnavailable | n errNotReady | N tsdb.ErrNotReady |
//                     x gRPC Internal | X plain error
//   answer: <writes received by the peers: e:r:id.id sorted, `,`> <status>/<status>/…  (one per order)

func init() {
	props = append(props, &hlib.Prop{ID: "C23", Gen: genC23, Exec: func(c *hlib.Ctx, tok []string) string { return execFan(c, tok, "C23") }})
}

// specQuorum is the write quorum of the specification for rf = 1..6 (DESIGN C22 quorum_table);
// beyond that the majority.
func specQuorum(rf int) int {
	tab := []int{0, 1, 1, 2, 3, 3, 4}
	if rf < len(tab) {
		return tab[rf]
	}
	return rf/2 + 1
}

func statusCode(entryHTTP bool, st string) int {
	if entryHTTP {
		v, err := strconv.Atoi(st)
		if err != nil {
			return -1
		}
		return v
	}
	switch st {
	case "ok":
		return 200
	case "exists":
		return 409
	case "unavail":
		return 503
	case "invalid":
		return 400
	case "internal":
		return 500
	}
	return -1
}

type seriesTally struct{ ok, conflict, unavail, other int }

func tally(rf, rep int, pl [][]int, script []scriptEntry) []seriesTally {
	ws := expectedWrites(rf, rep, pl)
	t := make([]seriesTally, len(pl))
	for _, e := range script {
		for _, id := range ws[e.k] {
			switch e.o {
			case 'k':
				t[id].ok++
			case 'c', 'C', 'o':
				t[id].conflict++
			case 'u', 'U', 'n', 'N':
				t[id].unavail++
			default:
				t[id].other++
			}
		}
	}
	return t
}

func execFan(c *hlib.Ctx, tok []string, prop string) string {
	if len(tok) != 6 || tok[0] != "fan" || (tok[1] != "h" && tok[1] != "g" && tok[1] != "c") {
		return "bad-op"
	}
	httpEntry := tok[1] != "g"
	rf, err1 := strconv.Atoi(tok[2])
	rep, err2 := strconv.Atoi(tok[3])
	pl, tenants, ok1 := parsePlacement(tok[4])
	scripts, ok2 := parseScripts(tok[5])
	if ok2 && tok[1] == "c" {
		for _, sc := range scripts {
			for _, e := range sc {
				if !strings.ContainsRune("koNxX", rune(e.o)) {
					return "bad-op"
				}
			}
		}
	}
	if err1 != nil || err2 != nil || !ok1 || !ok2 || rf < 1 || rf > numEndpoints || rep < 0 {
		return "bad-op"
	}
	// requests that fail before any write is sent
	preFail := rep > rf
	if !preFail {
		need := rf
		if rep != 0 {
			need = rep
		}
		for _, row := range pl {
			if len(row) < need {
				preFail = true
			}
		}
	}
	ws := expectedWrites(rf, rep, pl)
	if !preFail {
		for _, sc := range scripts {
			if len(sc) != len(ws) {
				return "bad-op"
			}
			seen := map[wkey]bool{}
			for _, e := range sc {
				if _, ok := ws[e.k]; !ok || seen[e.k] {
					return "bad-op"
				}
				seen[e.k] = true
			}
		}
	}
	env := theFanEnv()
	if tok[1] == "c" {
		env = theCapnpFanEnv()
	}
	var sts []string
	recv := ""
	for i, sc := range scripts {
		if preFail {
			sc = nil
		}
		r := env.runFan(httpEntry, rf, rep, pl, tenants, sc)
		sts = append(sts, r.status)
		c.Count("status:" + r.status)
		rv := showRecv(r.recv, r.unknown)
		if i == 0 {
			recv = rv
		} else if rv != recv {
			recv += "|differs:" + rv
		}
		if strings.HasPrefix(r.status, "stuck") {
			c.Violation("handler-stuck", fmt.Sprintf("order %d: %s", i, r.status))
		}
		if !preFail {
			judgeFan(c, prop, httpEntry, rf, rep, pl, sc, r, i)
			// capnp transport: what the client made of the peer's answer (a cancelled write is not judged)
			for k, lc := range r.codes {
				want := map[byte]string{'k': "OK", 'o': "AlreadyExists", 'N': "Unavailable", 'x': "Unavailable", 'X': "Unavailable"}[lc[0]]
				c.Count("capnp-code:" + lc)
				if got := lc[2:]; got != want && got != "Canceled" {
					c.Violation("capnp-code-unexpected", fmt.Sprintf("write %d:%d with peer outcome %c reached the handler as gRPC code %s, expected %s", k.e, k.r, lc[0], got, want))
				}
			}
			for name, got := range r.tenants {
				id, err := strconv.Atoi(strings.TrimPrefix(name, "s"))
				if err != nil {
					continue
				}
				if want := expectedTenant(httpEntry, tenants, id); got != want {
					c.Violation("tenant-mixup", fmt.Sprintf("series %s reached the peers under tenant %q, the request puts it under %q", name, got, want))
				}
			}
		}
	}
	if !preFail && len(sts) > 1 {
		for _, s := range sts[1:] {
			if s != sts[0] {
				c.Violation("order-dependent-status", fmt.Sprintf("the same outcomes in different arrival orders give %s", strings.Join(sts, "/")))
				break
			}
		}
	}
	return recv + " " + strings.Join(sts, "/")
}

// judgeFan is the property oracle on one executed order; it looks only at the op line (placement,
// outcomes) and at what was observed (status, writes recorded by the fake peers).
func judgeFan(c *hlib.Ctx, prop string, httpEntry bool, rf, rep int, pl [][]int, sc []scriptEntry, r fanResult, order int) {
	code := statusCode(httpEntry, r.status)
	q, nrep := specQuorum(rf), rf
	if rep != 0 {
		q, nrep = 1, 1
	}
	failThr := nrep - q + 1
	t := tally(rf, rep, pl, sc)
	failed, permanent, onlyCU := false, false, true
	for _, s := range t {
		if s.ok < q {
			failed = true
		}
		if s.conflict >= failThr {
			permanent = true
		}
		if s.other > 0 {
			onlyCU = false
		}
	}
	where := fmt.Sprintf("rf %d rep %d order %d: status %s", rf, rep, order, r.status)
	// ---- C22: acknowledged ⇒ every series stored on a quorum (recorded by the peers); not acknowledged when some series cannot
	if code == 200 {
		stored := make([]int, len(pl))
		for k, names := range r.recv {
			if r.stored[k] {
				for _, n := range names {
					if id, err := strconv.Atoi(strings.TrimPrefix(n, "s")); err == nil && id < len(stored) {
						stored[id]++
					}
				}
			}
		}
		for id, n := range stored {
			if n < q {
				c.Violation("ack-without-quorum", fmt.Sprintf("%s but series %d was stored on %d < %d replicas", where, id, n, q))
				break
			}
		}
	}
	if code == 200 && failed {
		c.Violation("ack-though-quorum-impossible", fmt.Sprintf("%s although some series has fewer than %d successful answers", where, q))
	}
	if !failed && code != 200 {
		c.Violation("quorum-reached-not-acknowledged", fmt.Sprintf("%s although every series has %d successful writes", where, q))
	}
	if prop != "C23" || !onlyCU {
		return
	}
	// ---- C23 (failures made only of conflicts and unavailable replicas)
	if code == 500 {
		c.Violation("500-from-conflict-unavailable", where+" for outcomes made only of success/conflict/unavailable")
	}
	if code == 409 && !permanent {
		c.Violation("409-but-retryable", fmt.Sprintf("%s but no series has %d conflicts", where, failThr))
	}
	if failed && !permanent && code != 503 && code != 500 && code != 409 {
		c.Violation("retryable-not-503", fmt.Sprintf("%s but the failure is retryable (no series has %d conflicts)", where, failThr))
	}
}

// ---------------------------------------------------------------- generator

// permutations emits the distinct permutations of a word (multiset), in lexicographic order.
func permutations(word string, emit func(string)) {
	a := []byte(word)
	sort.Slice(a, func(i, j int) bool { return a[i] < a[j] })
	for {
		emit(string(a))
		i := len(a) - 2
		for i >= 0 && a[i] >= a[i+1] {
			i--
		}
		if i < 0 {
			return
		}
		j := len(a) - 1
		for a[i] >= a[j] {
			j--
		}
		a[i], a[j] = a[j], a[i]
		for l, r := i+1, len(a)-1; l < r; l, r = l+1, r-1 {
			a[l], a[r] = a[r], a[l]
		}
	}
}

func sortedKeys(ws map[wkey][]int) []wkey {
	keys := make([]wkey, 0, len(ws))
	for k := range ws {
		keys = append(keys, k)
	}
	sort.Slice(keys, func(i, j int) bool {
		if keys[i].e != keys[j].e {
			return keys[i].e < keys[j].e
		}
		return keys[i].r < keys[j].r
	})
	return keys
}

func showScript(sc []scriptEntry) string {
	p := make([]string, len(sc))
	for i, e := range sc {
		p[i] = fmt.Sprintf("%d:%d:%c", e.k.e, e.k.r, e.o)
	}
	return hlib.Join(p, ",")
}

func showPlacement(pl [][]int) string { return showPlacementT(pl, nil) }

// showPlacementT prints the placement with the tenant index of every series (nil = all tenant 0).
func showPlacementT(pl [][]int, tenants []int) string {
	rows := make([]string, len(pl))
	for i, row := range pl {
		xs := make([]string, len(row))
		for j, v := range row {
			xs[j] = strconv.Itoa(v)
		}
		rows[i] = hlib.Join(xs, ".")
		if tenants != nil && tenants[i] > 0 {
			rows[i] = fmt.Sprintf("%d@%s", tenants[i], rows[i])
		}
	}
	return strings.Join(rows, ",")
}

// multisets enumerates the non-decreasing words of length n over alphabet.
func multisets(alphabet string, n int, emit func(string)) {
	var rec func(prefix string, from int)
	rec = func(prefix string, from int) {
		if len(prefix) == n {
			emit(prefix)
			return
		}
		for i := from; i < len(alphabet); i++ {
			rec(prefix+string(alphabet[i]), i)
		}
	}
	rec("", 0)
}

// genSingleSeries: one series on endpoints 0..rf-1, every multiset of outcomes over the alphabet,
// every arrival order (or a sample of maxOrders orders).
func genSingleSeries(c *hlib.Ctx, entry string, alphabet string, maxRF int, maxOrders int) {
	for rf := 1; rf <= maxRF; rf++ {
		row := make([]int, rf)
		for i := range row {
			row[i] = i
		}
		pl := showPlacement([][]int{row})
		multisets(alphabet, rf, func(word string) {
			// arrival orders: the j-th response comes from endpoint j (replica j) and carries the
			// j-th letter of a permutation of the word
			var orders [][]scriptEntry
			permutations(word, func(w string) {
				sc := make([]scriptEntry, rf)
				for j := range sc {
					sc[j] = scriptEntry{wkey{j, j}, w[j]}
				}
				orders = append(orders, sc)
			})
			if maxOrders > 0 && len(orders) > maxOrders {
				keep := [][]scriptEntry{orders[0], orders[len(orders)-1]}
				for len(keep) < maxOrders {
					keep = append(keep, orders[c.R.Intn(len(orders))])
				}
				orders = keep
			}
			ss := make([]string, len(orders))
			for i, o := range orders {
				ss[i] = showScript(o)
			}
			c.Count(fmt.Sprintf("single:rf%d", rf))
			c.Count(fmt.Sprintf("orders:%d", len(orders)))
			// keep lines below ~60 orders: split into chunks that all start with the first order
			for i := 0; i < len(ss); i += 60 {
				j := i + 60
				if j > len(ss) {
					j = len(ss)
				}
				chunk := ss[i:j]
				if i > 0 {
					chunk = append([]string{ss[0]}, chunk...)
				}
				c.Do(fmt.Sprintf("fan %s %d 0 %s %s", entry, rf, pl, strings.Join(chunk, "/")), true)
			}
		})
	}
}

// genMulti: several series spread over the endpoints, random outcomes per write, a few orders.
func genMulti(c *hlib.Ctx, alphabet string, rounds int) { genMultiT(c, alphabet, rounds, "") }

// genMultiT: entry "" = h or g at random, otherwise the given entry; a third of the requests
// spreads its series over 2-3 tenants.
func genMultiT(c *hlib.Ctx, alphabet string, rounds int, fixedEntry string) {
	r := c.R
	for it := 0; it < rounds; it++ {
		rf := r.Range(1, 6)
		n := r.Range(2, 5)
		pl := make([][]int, n)
		for i := range pl {
			p := r.Perm(numEndpoints)
			if r.Chance(1, 3) { // few nodes: many series share writes
				p = r.Perm(rf + r.Intn(2))
				for len(p) < rf {
					p = append(p, p[0])
				}
			}
			pl[i] = p[:rf]
		}
		rep := 0
		if r.Chance(1, 8) {
			rep = r.Range(1, rf)
		}
		ws := expectedWrites(rf, rep, pl)
		keys := sortedKeys(ws)
		base := make([]scriptEntry, len(keys))
		// bias: mostly ok with a failing minority, or conflict/unavailable heavy
		okNum := r.Range(1, 9)
		for i, k := range keys {
			o := byte('k')
			if !r.Chance(okNum, 10) {
				o = alphabet[r.Intn(len(alphabet))]
			}
			base[i] = scriptEntry{k, o}
		}
		var ss []string
		for o := 0; o < r.Range(2, 5); o++ {
			p := r.Perm(len(base))
			sc := make([]scriptEntry, len(base))
			for i, j := range p {
				sc[i] = base[j]
			}
			ss = append(ss, showScript(sc))
		}
		entry := "h"
		if r.Chance(1, 4) {
			entry = "g"
		}
		if fixedEntry != "" {
			entry = fixedEntry
		}
		var tenants []int
		if r.Chance(1, 3) {
			tenants = make([]int, n)
			t := 0
			for i := range tenants {
				if i > 0 && r.Chance(1, 2) && t < 3 {
					t++
				}
				tenants[i] = t
			}
			c.Count(fmt.Sprintf("multi:tenants%d", tenants[n-1]+1))
		}
		c.Count("multi:entry-" + entry)
		c.Count(fmt.Sprintf("multi:rf%d", rf))
		c.Count(fmt.Sprintf("multi:series%d", n))
		c.Count(fmt.Sprintf("multi:writes%d", len(keys)))
		if rep != 0 {
			c.Count("multi:replicated")
		}
		c.Do(fmt.Sprintf("fan %s %d %d %s %s", entry, rf, rep, showPlacementT(pl, tenants), strings.Join(ss, "/")), true)
	}
}

func genC23(c *hlib.Ctx) {
	// every multiset over {ok, conflict, unavailable} for rf 1..6, every arrival order
	genSingleSeries(c, "h", "kcu", 6, 0)
	// the other members of the conflict / unavailable classes, sampled orders
	genSingleSeries(c, "h", "kCU", 6, c.N(6, 0))
	genSingleSeries(c, "h", "konN", 5, c.N(4, 30))
	genSingleSeries(c, "g", "kcu", 6, c.N(6, 0))
	// the peers reached over Cap'n Proto: conflict (o), not ready (N) — and internal errors, which
	// that transport reports as unavailable (x, X; outside C23's outcome domain, judged by C22 only)
	genSingleSeries(c, "c", "koN", 5, c.N(3, 12))
	genMulti(c, "cCouUnN", c.N(3000, 45000))
	genMultiT(c, "oN", c.N(300, 5000), "c")
}
