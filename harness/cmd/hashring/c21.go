package main

import (
	"fmt"
	"math/rand"
	"path/filepath"
	"sort"
	"strconv"
	"strings"

	"github.com/prometheus/client_golang/prometheus"
	"github.com/thanos-io/thanos/pkg/receive"
	"github.com/thanos-io/thanos/verifharness/hlib"
)

// C21 — shuffle-sharded tenants get stable, correctly sized sub-rings.
//
// op (grammar: lean/Thanos/Driver/Hashring.lean)
//   shard <za> <rf> <cap> <eps> <dflt> <ovs> <reqs>
//       real base ring (newKetamaHashring via hook, sections per node = hashes per endpoint) wrapped by
//       the real newShuffleShardHashring (hook) with cache size <cap>; the tenants of <reqs> are asked in
//       order through getTenantShardCached; answer per request: the sorted positions of the nodes of the
//       tenant's sub-ring | toobig | toofew | stuck
//   shardr <za> <rf> <cap> <epsA> <dfltA> <ovsA> <reqsA> <epsB> <dfltB> <ovsB> <reqsB1> <reqsB2>
//       a configuration update: requests on ring A, ring B (overrides / default size / nodes / nothing changed)
//       built with the same registerer and name while A is open, requests on B, A closed, requests on B;
//       every answer of B must be what B built on its own answers (stale-after-reload)
//   shardg <za> <rf> <eps> <big> <dflt> <ovs> <req> <series>
//       one tenant end to end: selection on the base ring, the REAL sub-ring (1000 sections per selected node;
//       <big> carries their hashes for the model) and GetN(0..rf-1) of the shuffle shard ring for series of
//       that tenant; answered in positions of eps
//   o.shardcfg <json hex> <rf> <tenant>    oracle-only, malformed stream: shuffle sharding configured through
//       JSON + receive.NewMultiHashring with zero / negative / oversized shard sizes; what happens is recorded
//
// The random positions and glob tables in the op line are computed by the generator
// (rand.New(rand.NewSource(receive.ShuffleShardSeed(tenant, zone))).Uint64(), filepath.Match);
// Exec recomputes them and rejects a line that disagrees (harness-rand-input / harness-glob-input).
//
// oracle (independent of the model), per request that got a sub-ring:
//   * size: with zone awareness every zone has exactly ceil(S/#zones) of the nodes, without it there are S
//     nodes, S = size of the first override naming the tenant (exact — also when the matcher type is
//     omitted — or by glob), else the default   (override-ignored-empty-matcher / shard-size-wrong)
//   * stable: the uncached getTenantShard, the cached one again at the end (after evictions), a fresh wrapper
//     and a wrapper over the base ring built from the permuted endpoint list give the same nodes (unstable-shard)
//   * inside: GetN(n < rf) of the shuffle shard ring for 12 series answers pairwise distinct nodes of
//     the sub-ring   (replica-outside-shard / replica-duplicate-getn)
//   errors: toobig iff some zone has fewer nodes than are taken from it (toobig-wrong); toofew iff the
//   sub-ring has fewer nodes than rf (toofew-wrong); stuck only without zone awareness
//   (zone-unaware-shard-unbalanceable, else stuck-zone-aware).

func init() { register("C21", genC21, execC21) }

type shardOv struct {
	typ     string // e x g o
	size    int
	tenants []string
}

func (o shardOv) matcher() string { return routeCfg{typ: o.typ}.matcher() }

func parseShardOvs(s string) ([]shardOv, bool) {
	var out []shardOv
	for _, t := range hlib.Split(s, "|") {
		p := strings.Split(t, ":")
		if len(p) != 3 || len(p[0]) != 1 || !strings.Contains("exgo", p[0]) {
			return nil, false
		}
		n, err := strconv.Atoi(p[1])
		if err != nil {
			return nil, false
		}
		o := shardOv{typ: p[0], size: n}
		if p[2] != "~" {
			for _, h := range strings.Split(p[2], ",") {
				b, err := hlib.UnHex(h)
				if err != nil {
					return nil, false
				}
				o.tenants = append(o.tenants, string(b))
			}
		}
		out = append(out, o)
	}
	return out, true
}

func showShardOvs(ovs []shardOv) string {
	ss := make([]string, len(ovs))
	for i, o := range ovs {
		ts := make([]string, len(o.tenants))
		for j, t := range o.tenants {
			ts[j] = hlib.HexS(t)
		}
		tl := "~"
		if len(ts) > 0 {
			tl = strings.Join(ts, ",")
		}
		ss[i] = fmt.Sprintf("%s:%d:%s", o.typ, o.size, tl)
	}
	return hlib.Join(ss, "|")
}

const shardDraws = 12

// shardReqToken computes, for one tenant, the glob tables of the overrides and the random
// positions of every zone, as the op line carries them.
func shardReqToken(za bool, eps []epSpec, ovs []shardOv, tenant string) string {
	tabs := make([]string, len(ovs))
	for i, o := range ovs {
		var b strings.Builder
		for _, p := range o.tenants {
			m, err := filepath.Match(p, tenant)
			switch {
			case err != nil:
				b.WriteByte('b')
			case m:
				b.WriteByte('y')
			default:
				b.WriteByte('n')
			}
		}
		tabs[i] = b.String()
		if tabs[i] == "" {
			tabs[i] = "-"
		}
	}
	tab := "-"
	if len(tabs) > 0 {
		tab = strings.Join(tabs, "/")
	}
	var zones []string
	if za {
		seen := map[string]bool{}
		for _, e := range eps {
			if !seen[e.az] {
				seen[e.az] = true
				zones = append(zones, e.az)
			}
		}
	} else {
		zones = []string{""}
	}
	ps := make([]string, len(zones))
	for i, z := range zones {
		r := rand.New(rand.NewSource(receive.ShuffleShardSeed(tenant, z)))
		xs := make([]string, shardDraws)
		for k := range xs {
			xs[k] = strconv.FormatUint(r.Uint64(), 10)
		}
		ps[i] = hlib.HexS(z) + "=" + strings.Join(xs, ".")
	}
	return hlib.HexS(tenant) + ":" + tab + ":" + strings.Join(ps, "/")
}

// expectedShardSize is the property's reading of the configuration: first override naming the
// tenant, the omitted matcher type being exact (config.go: "This is also the default one").
func expectedShardSize(dflt int, ovs []shardOv, tenant string, emptyIsExact bool) int {
	for _, o := range ovs {
		switch {
		case o.typ == "e" || (o.typ == "x" && emptyIsExact):
			for _, t := range o.tenants {
				if t == tenant {
					return o.size
				}
			}
		case o.typ == "g":
			for _, p := range o.tenants {
				if m, err := filepath.Match(p, tenant); err == nil && m {
					return o.size
				}
			}
		}
	}
	return dflt
}

func ceilDiv(a, b int) int { return (a + b - 1) / b }

type shardSetup struct {
	za       bool
	rf, capa int
	eps      []epSpec
	dflt     int
	ovs      []shardOv
}

func (s shardSetup) wrap(eps []epSpec) (receive.VerifShuffleShard, error) {
	return s.wrapWith(eps, prometheus.NewRegistry(), "verif")
}

// wrapWith builds the shuffle shard ring with a given registerer and hashring name (a replacement
// ring of a configuration update uses the registerer and name of the ring it replaces).
func (s shardSetup) wrapWith(eps []epSpec, reg prometheus.Registerer, name string) (receive.VerifShuffleShard, error) {
	spn := 0
	if len(eps) > 0 {
		spn = len(eps[0].hashes)
	}
	base, _, err := receive.VerifNewKetama(endpointsOf(eps), spn, uint64(s.rf))
	if err != nil {
		return receive.VerifShuffleShard{}, err
	}
	cfg := receive.ShuffleShardingConfig{ShardSize: s.dflt, CacheSize: s.capa, ZoneAwarenessDisabled: !s.za}
	for _, o := range s.ovs {
		cfg.Overrides = append(cfg.Overrides, receive.ShuffleShardingOverrideConfig{
			ShardSize: o.size, Tenants: o.tenants, TenantMatcherType: receive.VerifTenantMatcher(o.matcher())})
	}
	return receive.VerifNewShuffleShard(base, cfg, uint64(s.rf), reg, name)
}

// nodesOf answers the sorted positions (in eps) of the nodes of a sub-ring, or the error class.
func nodesOf(h receive.Hashring, err error, idx map[string]int) (string, []int) {
	if err != nil {
		c := classifyBuildErr(err)
		if c == "shardtoobig" {
			c = "toobig"
		}
		return c, nil
	}
	sub, _ := receive.VerifKetamaSections(h)
	var ps []int
	for _, e := range sub {
		i, ok := idx[e.Address]
		if !ok {
			return "unknown-node", nil
		}
		ps = append(ps, i)
	}
	sort.Ints(ps)
	ss := make([]string, len(ps))
	for i, p := range ps {
		ss[i] = strconv.Itoa(p)
	}
	return hlib.Join(ss, "."), ps
}

func execC21(v *vctx, tok []string) string {
	if len(tok) == 0 {
		return "bad-op"
	}
	if tok[0] == "o.shardcfg" {
		return execShardCfg(v, tok)
	}
	if tok[0] == "shardg" {
		return execShardG(v, tok)
	}
	if tok[0] == "shardr" {
		return execShardR(v, tok)
	}
	if tok[0] != "shard" || len(tok) != 8 {
		return "bad-op"
	}
	rf, err1 := strconv.Atoi(tok[2])
	capa, err2 := strconv.Atoi(tok[3])
	eps, ok1 := parseEps(tok[4])
	dflt, err3 := strconv.Atoi(tok[5])
	ovs, ok2 := parseShardOvs(tok[6])
	if err1 != nil || err2 != nil || err3 != nil || !ok1 || !ok2 || (tok[1] != "0" && tok[1] != "1") || capa < 1 || len(eps) == 0 {
		return "bad-op"
	}
	s := shardSetup{za: tok[1] == "1", rf: rf, capa: capa, eps: eps, dflt: dflt, ovs: ovs}
	var tenants []string
	for _, r := range hlib.Split(tok[7], ";") {
		p := strings.Split(r, ":")
		if len(p) != 3 {
			return "bad-op"
		}
		b, err := hlib.UnHex(p[0])
		if err != nil {
			return "bad-op"
		}
		if want := shardReqToken(s.za, eps, ovs, string(b)); want != r {
			v.Violation("harness-rand-input", fmt.Sprintf("tenant %q: glob tables / random positions of the op line differ from filepath.Match / math/rand", string(b)))
			return "bad-input"
		}
		tenants = append(tenants, string(b))
	}
	idx := map[string]int{}
	zoneCount := map[string]int{}
	for i, e := range eps {
		idx[e.addr] = i
		if s.za {
			zoneCount[e.az]++
		} else {
			zoneCount[""]++
		}
	}
	ring, err := s.wrap(eps)
	if err != nil {
		return classifyBuildErr(err)
	}
	fresh, err := s.wrap(eps)
	if err != nil {
		return classifyBuildErr(err)
	}
	perm := make([]epSpec, len(eps))
	for i := range eps {
		perm[i] = eps[(i*7+3)%len(eps)]
		if len(eps)%7 == 0 {
			perm[i] = eps[len(eps)-1-i]
		}
	}
	permuted, err := s.wrap(perm)
	if err != nil {
		return classifyBuildErr(err)
	}
	answers := make([]string, len(tenants))
	for k, t := range tenants {
		h, err := ring.TenantShardCached(t)
		a, nodes := nodesOf(h, err, idx)
		answers[k] = a
		v.Count("shard:" + map[bool]string{true: "nodes", false: a}[nodes != nil])
		// ---- expected size and error conditions, from the configuration alone
		want := expectedShardSize(dflt, ovs, t, true)
		take := want
		if s.za {
			take = ceilDiv(want, len(zoneCount))
		}
		tooBig := false
		for _, c := range zoneCount {
			if take > c {
				tooBig = true
			}
		}
		total := take * len(zoneCount)
		switch {
		case nodes != nil:
			for q := 1; q < len(nodes); q++ {
				if nodes[q] == nodes[q-1] { // nodes are sorted positions
					v.Violation("shard-duplicate-node", fmt.Sprintf("tenant %q: node %d (%s) is in the sub-ring twice: %s — fewer distinct nodes than configured", t, nodes[q], eps[nodes[q]].addr, a))
					break
				}
			}
			inZone := map[string]int{}
			for _, p := range nodes {
				if s.za {
					inZone[eps[p].az]++
				} else {
					inZone[""]++
				}
			}
			okSize := len(inZone) == len(zoneCount) || take == 0
			for _, c := range inZone {
				if c != take {
					okSize = false
				}
			}
			if !okSize {
				class := "shard-size-wrong"
				if got := expectedShardSize(dflt, ovs, t, false); got != want {
					gt := got
					if s.za {
						gt = ceilDiv(got, len(zoneCount))
					}
					if len(nodes) == gt*len(zoneCount) {
						class = "override-ignored-empty-matcher"
					}
				}
				v.Violation(class, fmt.Sprintf("tenant %q: configured shard size %d (%d per zone in %d zones), sub-ring has %v per zone", t, want, take, len(zoneCount), inZone))
			}
			// stability (for the 100+ tenants of a large ring: every 8th tenant — each check builds a sub-ring
			// of 1000 sections per node)
			large := len(eps) > 60
			if !large || k%8 == 0 {
				h2, err2 := ring.TenantShard(t)
				a2, _ := nodesOf(h2, err2, idx)
				h3, err3 := fresh.TenantShardCached(t)
				a3, _ := nodesOf(h3, err3, idx)
				h4, err4 := permuted.TenantShardCached(t)
				a4, _ := nodesOf(h4, err4, idx)
				if a2 != a || a3 != a || a4 != a {
					v.Violation("unstable-shard", fmt.Sprintf("tenant %q: cached %s, uncached %s, fresh instance %s, permuted endpoint list %s", t, a, a2, a3, a4))
				}
			}
			// inside
			in := map[int]bool{}
			for _, p := range nodes {
				in[p] = true
			}
			r := hlib.NewRand(uint64(k)*977 + 13)
			nser := 12
			if large {
				nser = 3
			}
			for q := 0; q < nser; q++ {
				ser := genSeries(r)
				ser.tenant = t
				seen := map[string]bool{}
				for n := 0; n < rf; n++ {
					g := getIdx(ring.Ring(), idx, ser, n)
					p, err := strconv.Atoi(g)
					if err != nil || !in[p] {
						v.Violation("replica-outside-shard", fmt.Sprintf("tenant %q: GetN(%d) answered %s, sub-ring nodes %s", t, n, g, a))
						break
					}
					if seen[g] {
						v.Violation("replica-duplicate-getn", fmt.Sprintf("tenant %q: node %s twice among the replicas of one series", t, g))
						break
					}
					seen[g] = true
				}
			}
			if tooBig && expectedShardSize(dflt, ovs, t, false) == want {
				v.Violation("toobig-wrong", fmt.Sprintf("tenant %q: a zone has fewer than %d nodes but a sub-ring was built", t, take))
			}
		case a == "toobig":
			if !tooBig && expectedShardSize(dflt, ovs, t, false) == want {
				v.Violation("toobig-wrong", fmt.Sprintf("tenant %q: every zone has at least %d nodes but the shard was refused", t, take))
			}
		case a == "toofew":
			if total >= rf && expectedShardSize(dflt, ovs, t, false) == want {
				v.Violation("toofew-wrong", fmt.Sprintf("tenant %q: the shard has %d nodes, rf %d, refused as too few", t, total, rf))
			}
		case a == "stuck":
			if s.za {
				v.Violation("stuck-zone-aware", fmt.Sprintf("tenant %q: zone aware shard of %d per zone cannot be balanced for rf %d", t, take, rf))
			} else {
				v.Violation("zone-unaware-shard-unbalanceable", fmt.Sprintf("tenant %q: zone awareness disabled, shard size %d ≥ rf %d, but the selected nodes' zones cannot be balanced: every request of the tenant fails", t, want, rf))
			}
		default:
			v.Violation("unexpected-error", fmt.Sprintf("tenant %q: %s", t, a))
		}
	}
	// again at the end: cached entries, evicted entries and recomputed ones agree with the first answers
	for k, t := range tenants {
		h, err := ring.TenantShardCached(t)
		a, _ := nodesOf(h, err, idx)
		if a != answers[k] {
			v.Violation("unstable-shard", fmt.Sprintf("tenant %q: first %s, at the end of the history %s", t, answers[k], a))
		}
	}
	if ring.CacheLen() > capa {
		v.Violation("cache-over-capacity", fmt.Sprintf("%d cached sub-rings, capacity %d", ring.CacheLen(), capa))
	}
	return hlib.Join(answers, ";")
}

// shardr <za> <rf> <cap> <epsA> <dfltA> <ovsA> <reqsA> <epsB> <dfltB> <ovsB> <reqsB1> <reqsB2>
// A configuration update as cmd/thanos/receive.go performs it: requests on ring A; ring B is built with
// the SAME registerer and hashring name while A is still open; requests B1 on B; A is closed; requests B2
// on B.  Oracle: every answer of B is what a B built on its own (fresh registerer) answers
// (stale-after-reload) and has the size B's configuration asks for (shard-size-wrong).
func execShardR(v *vctx, tok []string) string {
	if len(tok) != 13 {
		return "bad-op"
	}
	rf, err1 := strconv.Atoi(tok[2])
	capa, err2 := strconv.Atoi(tok[3])
	if err1 != nil || err2 != nil || (tok[1] != "0" && tok[1] != "1") || capa < 1 {
		return "bad-op"
	}
	za := tok[1] == "1"
	parseSide := func(epsTok, dfltTok, ovsTok string) (shardSetup, bool) {
		eps, ok1 := parseEps(epsTok)
		dflt, err := strconv.Atoi(dfltTok)
		ovs, ok2 := parseShardOvs(ovsTok)
		if !ok1 || !ok2 || err != nil || len(eps) == 0 {
			return shardSetup{}, false
		}
		return shardSetup{za: za, rf: rf, capa: capa, eps: eps, dflt: dflt, ovs: ovs}, true
	}
	sa, okA := parseSide(tok[4], tok[5], tok[6])
	sb, okB := parseSide(tok[8], tok[9], tok[10])
	if !okA || !okB {
		return "bad-op"
	}
	tenantsOf := func(s shardSetup, reqs string) ([]string, bool) {
		var out []string
		for _, r := range hlib.Split(reqs, ";") {
			p := strings.Split(r, ":")
			if len(p) != 3 {
				return nil, false
			}
			b, err := hlib.UnHex(p[0])
			if err != nil {
				return nil, false
			}
			if shardReqToken(s.za, s.eps, s.ovs, string(b)) != r {
				v.Violation("harness-rand-input", fmt.Sprintf("tenant %q: glob tables / random positions of the op line differ from filepath.Match / math/rand", string(b)))
				return nil, false
			}
			out = append(out, string(b))
		}
		return out, true
	}
	ta, ok1 := tenantsOf(sa, tok[7])
	tb1, ok2 := tenantsOf(sb, tok[11])
	tb2, ok3 := tenantsOf(sb, tok[12])
	if !ok1 || !ok2 || !ok3 {
		return "bad-input"
	}
	idxOf := func(eps []epSpec) map[string]int {
		m := map[string]int{}
		for i, e := range eps {
			m[e.addr] = i
		}
		return m
	}
	idxA, idxB := idxOf(sa.eps), idxOf(sb.eps)
	reg := prometheus.NewRegistry()
	ringA, err := sa.wrapWith(sa.eps, reg, "h")
	if err != nil {
		return classifyBuildErr(err)
	}
	ask := func(r receive.VerifShuffleShard, idx map[string]int, ts []string) []string {
		out := make([]string, len(ts))
		for i, t := range ts {
			h, err := r.TenantShardCached(t)
			out[i], _ = nodesOf(h, err, idx)
		}
		return out
	}
	ansA := ask(ringA, idxA, ta)
	ringB, err := sb.wrapWith(sb.eps, reg, "h") // A is still open
	if err != nil {
		ringA.Ring().Close()
		return classifyBuildErr(err)
	}
	ansB1 := ask(ringB, idxB, tb1)
	ringA.Ring().Close()
	ansB2 := ask(ringB, idxB, tb2)
	// what B answers on its own
	fresh, err := sb.wrap(sb.eps)
	if err == nil {
		zoneCount := map[string]int{}
		for _, e := range sb.eps {
			if za {
				zoneCount[e.az]++
			} else {
				zoneCount[""]++
			}
		}
		check := func(ts, got []string, when string) {
			for i, t := range ts {
				h, err := fresh.TenantShard(t)
				want, nodes := nodesOf(h, err, idxB)
				if want != got[i] {
					v.Violation("stale-after-reload", fmt.Sprintf("tenant %q %s: the replacement ring answers %s, the same configuration built on its own answers %s", t, when, got[i], want))
					return
				}
				if nodes != nil {
					size := expectedShardSize(sb.dflt, sb.ovs, t, true)
					total := size
					if za {
						total = ceilDiv(size, len(zoneCount)) * len(zoneCount)
					}
					if len(nodes) != total {
						v.Violation("shard-size-wrong", fmt.Sprintf("tenant %q %s: %d nodes, the new configuration asks for %d", t, when, len(nodes), total))
						return
					}
				}
			}
		}
		check(tb1, ansB1, "while the old ring is open")
		check(tb2, ansB2, "after the old ring was closed")
		fresh.Ring().Close()
	}
	ringB.Ring().Close()
	v.Count("shardr:ok")
	return hlib.Join(ansA, ";") + " " + hlib.Join(ansB1, ";") + " " + hlib.Join(ansB2, ";")
}

// shardg <za> <rf> <eps> <big> <dflt> <ovs> <req> <series>: one tenant end to end through the real
// shuffle shard ring: selection, sub-ring with the production section count, GetN for series of
// that tenant; answered in positions of eps.
func execShardG(v *vctx, tok []string) string {
	if len(tok) != 9 {
		return "bad-op"
	}
	rf, err1 := strconv.Atoi(tok[2])
	eps, ok1 := parseEps(tok[3])
	dflt, err3 := strconv.Atoi(tok[5])
	ovs, ok2 := parseShardOvs(tok[6])
	series, ok3 := parseSeries(tok[8])
	if err1 != nil || err3 != nil || !ok1 || !ok2 || !ok3 || (tok[1] != "0" && tok[1] != "1") || len(eps) == 0 {
		return "bad-op"
	}
	bigTok := hlib.Split(tok[4], ",")
	if len(bigTok) != len(eps) {
		return "bad-op"
	}
	p := strings.Split(tok[7], ":")
	if len(p) != 3 {
		return "bad-op"
	}
	tb, err := hlib.UnHex(p[0])
	if err != nil {
		return "bad-op"
	}
	tenant := string(tb)
	s := shardSetup{za: tok[1] == "1", rf: rf, capa: 10, eps: eps, dflt: dflt, ovs: ovs}
	if want := shardReqToken(s.za, eps, ovs, tenant); want != tok[7] {
		v.Violation("harness-rand-input", "glob tables / random positions of the op line differ from filepath.Match / math/rand")
		return "bad-input"
	}
	for _, ser := range series {
		if ser.tenant != tenant || labelpbHash(ser) != ser.v {
			v.Violation("harness-hash-input", "series of a shardg op must belong to its tenant and carry their HashWithPrefix")
			return "bad-input"
		}
	}
	idx := map[string]int{}
	for i, e := range eps {
		idx[e.addr] = i
	}
	ring, err := s.wrap(eps)
	if err != nil {
		return classifyBuildErr(err)
	}
	h, err := ring.TenantShardCached(tenant)
	a, nodes := nodesOf(h, err, idx)
	if nodes == nil {
		return a
	}
	// the production sections of the selected nodes are the hashes the op line gives the model
	subEps, subSecs := receive.VerifKetamaSections(h)
	got := map[int][]string{}
	for _, sec := range subSecs {
		i := idx[subEps[sec.EndpointIndex].Address]
		got[i] = append(got[i], strconv.FormatUint(sec.Hash, 10))
	}
	for i, hs := range got {
		want := hlib.Split(bigTok[i], ".")
		sort.Strings(want)
		sort.Strings(hs)
		if strings.Join(want, ".") != strings.Join(hs, ".") {
			v.Violation("harness-hash-input", fmt.Sprintf("production section hashes of endpoint %d differ from the op line", i))
			return "hash-mismatch"
		}
	}
	rows := rowsOf(ring.Ring(), eps, series, rf)
	in := map[string]bool{}
	for _, n := range nodes {
		in[strconv.Itoa(n)] = true
	}
	for si, row := range rows {
		seen := map[string]bool{}
		for _, g := range row {
			if !in[g] {
				v.Violation("replica-outside-shard", fmt.Sprintf("series %d: GetN answered %s, sub-ring nodes %s", si, g, a))
				break
			}
			if seen[g] {
				v.Violation("replica-duplicate-getn", fmt.Sprintf("series %d: node %s twice: %v", si, g, row))
				break
			}
			seen[g] = true
		}
	}
	v.Count("shardg:ok")
	return showRows(rows)
}

func execShardCfg(v *vctx, tok []string) string {
	if len(tok) != 4 {
		return "bad-op"
	}
	raw, err := hlib.UnHex(tok[1])
	rf, err2 := strconv.Atoi(tok[2])
	tn, err3 := hlib.UnHex(tok[3])
	if err != nil || err2 != nil || err3 != nil {
		return "bad-op"
	}
	cfg, err := receive.ParseConfig(raw)
	if err != nil {
		return "parse-error"
	}
	h, err := receive.NewMultiHashring(receive.AlgorithmKetama, uint64(rf), cfg, prometheus.NewRegistry())
	if err != nil {
		c := classifyBuildErr(err)
		v.Count("shardcfg:build:" + strings.SplitN(c, ":", 2)[0])
		return c
	}
	defer h.Close()
	out := func() (res string) {
		defer func() {
			if r := recover(); r != nil {
				res = "panic"
			}
		}()
		s := seriesSpec{tenant: string(tn)}
		_, err := h.GetN(s.tenant, s.ts(), 0)
		if err != nil {
			return strings.SplitN(classifyBuildErr(err), ":", 2)[0]
		}
		return "ok"
	}()
	v.Count("shardcfg:getn:" + out)
	return out
}

var shardTenants = []string{"tenant-1", "tenant-2", "special-tenant", "prefix-tenant", "prefix-a", "a", "", "team/x", "t\x00z", "big", "x*"}

func epsSpecOf(addr, az string, spn int) epSpec {
	return epSpec{addr: addr, az: az, hashes: sectionHashes(addr, spn)}
}

func genC21(c *hlib.Ctx) {
	r := c.R
	ls := allLayouts(12, 3)
	for i := 0; i < c.N(170, 1800) && !gaveUp(); i++ {
		l := pickLayout(r, ls, 12)
		for l.total() < 2 {
			l = pickLayout(r, ls, 12)
		}
		n := l.total()
		za := r.Chance(2, 3)
		eps := materialise(r, l, []int{1, 2, 3, 5}[r.Intn(4)])
		minZone := n
		for _, x := range l {
			if x < minZone {
				minZone = x
			}
		}
		// default shard size: mostly satisfiable
		dflt := r.Range(1, n)
		if za && r.Chance(3, 4) {
			dflt = r.Range(1, minZone*len(l))
		}
		rf := r.Range(1, 3)
		if r.Chance(1, 5) {
			rf = r.Range(1, min(5, n))
		}
		if !za && len(l) > 1 && r.Chance(1, 2) {
			// zone awareness disabled, several real zones, rf 4..5 and a shard of at least rf nodes:
			// the selected nodes' zones may be impossible to balance
			rf = r.Range(4, 5)
			if rf > n {
				rf = n
			}
			dflt = r.Range(min(rf, n), n)
			c.Count("gen:zone-unaware-rf>=4")
		}
		// the base ring must exist
		for !l.canBalance(rf) {
			rf--
		}
		var ovs []shardOv
		for k := r.Intn(4); k > 0; k-- {
			o := shardOv{typ: r.Pick([]string{"e", "e", "g", "g", "x", "o"}), size: r.Range(1, n)}
			if r.Chance(1, 10) {
				o.size = n + r.Range(1, 3)
			}
			for m := r.Range(1, 3); m > 0; m-- {
				if o.typ == "g" {
					o.tenants = append(o.tenants, r.Pick([]string{"prefix-*", "tenant-?", "*", "[a-c]", "t*z", "special-*", "["}))
				} else {
					o.tenants = append(o.tenants, r.Pick(shardTenants))
				}
			}
			ovs = append(ovs, o)
		}
		capa := r.Range(1, 3)
		if r.Chance(1, 5) {
			capa = 100
		}
		nreq := r.Range(3, 14)
		pool := make([]string, r.Range(2, 7))
		for k := range pool {
			pool[k] = r.Pick(shardTenants)
			if r.Chance(1, 3) {
				pool[k] = fmt.Sprintf("tenant-%d", r.Intn(50))
			}
		}
		reqs := make([]string, nreq)
		for k := range reqs {
			reqs[k] = shardReqToken(za, eps, ovs, r.Pick(pool))
		}
		c.Count(fmt.Sprintf("gen:zones:%d", len(l)))
		c.Count(fmt.Sprintf("gen:zone-aware:%v", za))
		c.Count(fmt.Sprintf("gen:overrides:%d", len(ovs)))
		c.Count(fmt.Sprintf("gen:cache:%d", capa))
		zaTok := "0"
		if za {
			zaTok = "1"
		}
		c.Do(fmt.Sprintf("shard %s %d %d %s %d %s %s", zaTok, rf, capa, showEps(eps), dflt, showShardOvs(ovs), strings.Join(reqs, ";")), true)
	}
	// large rings: 65..130 endpoints in 2..4 zones (at most 64 per zone, or one zone above 64), 2..6 nodes
	// taken per zone, 100+ tenants per ring; one section per node in the base ring keeps the op small
	for i := 0; i < c.N(2, 14) && !gaveUp(); i++ {
		l := largeLayout(r, i%2 == 1)
		if i%2 == 1 {
			c.Count("gen:large:zone>64")
		} else {
			c.Count("gen:large:zones<=64")
		}
		eps := materialise(r, l, 1)
		za := r.Chance(5, 6)
		take := r.Range(2, c.N(3, 4))
		dflt := take * len(l)
		if !za {
			dflt = r.Range(4, 12)
		}
		rf := r.Range(1, 3)
		var ovs []shardOv
		if r.Bool() {
			sz := r.Range(2, c.N(3, 4)) * len(l)
			if !za {
				sz = r.Range(4, shardDraws) // the op line carries shardDraws positions per zone
			}
			ovs = append(ovs, shardOv{typ: "g", size: sz, tenants: []string{"tenant-1*"}})
		}
		// 100+ tenants per ring, asked in ops of 25 (every sub-ring has 1000 sections per selected node)
		nt := r.Range(100, 125)
		base := r.Intn(1000)
		zaTok := "0"
		if za {
			zaTok = "1"
		}
		c.Count(fmt.Sprintf("gen:large:endpoints:%d0s", l.total()/10))
		for from := 0; from < nt && !gaveUp(); from += 25 {
			var reqs []string
			for k := from; k < from+25 && k < nt; k++ {
				reqs = append(reqs, shardReqToken(za, eps, ovs, fmt.Sprintf("tenant-%d", base+k)))
			}
			reqs = append(reqs, reqs[r.Intn(len(reqs))], reqs[r.Intn(len(reqs))]) // repeats: cache hits
			c.Count("gen:large:tenants-25")
			c.Do(fmt.Sprintf("shard %s %d %d %s %d %s %s", zaTok, rf, 200, showEps(eps), dflt, showShardOvs(ovs), strings.Join(reqs, ";")), true)
		}
	}
	// configuration updates: ring A, then ring B with the same registerer and name and a changed configuration
	for i := 0; i < c.N(60, 400) && !gaveUp(); i++ {
		l := pickLayout(r, ls, 9)
		for l.total() < 3 {
			l = pickLayout(r, ls, 9)
		}
		n := l.total()
		za := r.Chance(2, 3)
		epsA := materialise(r, l, []int{1, 2, 3}[r.Intn(3)])
		minZone := n
		for _, x := range l {
			if x < minZone {
				minZone = x
			}
		}
		maxS := n
		if za {
			maxS = minZone * len(l)
		}
		dfltA := r.Range(1, maxS)
		rf := r.Range(1, 2)
		for !l.canBalance(rf) {
			rf--
		}
		pool := make([]string, r.Range(2, 5))
		for k := range pool {
			pool[k] = r.Pick([]string{"tenant-1", "tenant-2", "big-tenant", "big-2", "special", "a", "prefix-a"})
		}
		var ovsA []shardOv
		for k := r.Intn(3); k > 0; k-- {
			o := shardOv{typ: r.Pick([]string{"e", "g", "x"}), size: r.Range(1, maxS)}
			if o.typ == "g" {
				o.tenants = []string{r.Pick([]string{"big-*", "tenant-?", "*", "prefix-*"})}
			} else {
				o.tenants = []string{r.Pick(pool)}
			}
			ovsA = append(ovsA, o)
		}
		epsB, dfltB := epsA, dfltA
		ovsB := append([]shardOv(nil), ovsA...)
		kind := r.Pick([]string{"overrides", "overrides", "default", "nodes", "none"})
		switch kind {
		case "overrides":
			switch {
			case len(ovsB) > 0 && r.Bool():
				ovsB = ovsB[1:] // an override is removed
			case len(ovsB) > 0 && r.Bool():
				ovsB[0].size = 1 + ovsB[0].size%maxS // the size of an override changes
			default: // an override is added in front, by glob or by name
				o := shardOv{typ: "g", size: r.Range(1, maxS), tenants: []string{r.Pick([]string{"big-*", "tenant-?", "*"})}}
				if r.Bool() {
					o = shardOv{typ: "e", size: r.Range(1, maxS), tenants: []string{r.Pick(pool)}}
				}
				ovsB = append([]shardOv{o}, ovsB...)
			}
		case "default":
			dfltB = 1 + dfltA%maxS
		case "nodes":
			epsB = append([]epSpec(nil), epsA...)
			k := r.Intn(n)
			a := fmt.Sprintf("replacement-%d:10901", r.Intn(1000))
			epsB[k] = epsSpecOf(a, epsA[k].az, len(epsA[k].hashes))
		}
		capa := r.Range(1, 4)
		if r.Chance(1, 3) {
			capa = 100
		}
		mk := func(eps []epSpec, ovs []shardOv, k int) string {
			reqs := make([]string, k)
			for j := range reqs {
				reqs[j] = shardReqToken(za, eps, ovs, r.Pick(pool))
			}
			return hlib.Join(reqs, ";")
		}
		zaTok := "0"
		if za {
			zaTok = "1"
		}
		c.Count("shardr-gen:" + kind)
		c.Do(fmt.Sprintf("shardr %s %d %d %s %d %s %s %s %d %s %s %s", zaTok, rf, capa,
			showEps(epsA), dfltA, showShardOvs(ovsA), mk(epsA, ovsA, r.Range(2, 8)),
			showEps(epsB), dfltB, showShardOvs(ovsB), mk(epsB, ovsB, r.Range(1, 6)), mk(epsB, ovsB, r.Range(0, 6))), true)
	}
	// end to end with the production section count of the sub-ring: selection, sub-ring, GetN
	for i := 0; i < c.N(12, 80) && !gaveUp(); i++ {
		l := pickLayout(r, allLayouts(6, 3), 6)
		for l.total() < 2 {
			l = pickLayout(r, allLayouts(6, 3), 6)
		}
		n := l.total()
		za := r.Chance(2, 3)
		eps := materialise(r, l, []int{1, 2, 3}[r.Intn(3)])
		minZone := n
		for _, x := range l {
			if x < minZone {
				minZone = x
			}
		}
		dflt := r.Range(1, n)
		if za {
			dflt = r.Range(1, minZone*len(l))
		}
		rf := r.Range(1, 3)
		for !l.canBalance(rf) {
			rf--
		}
		big := make([]string, n)
		for k, e := range eps {
			hs := sectionHashes(e.addr, receive.SectionsPerNode)
			ss := make([]string, len(hs))
			for j, h := range hs {
				ss[j] = strconv.FormatUint(h, 10)
			}
			big[k] = strings.Join(ss, ".")
		}
		tenant := r.Pick(shardTenants)
		if r.Bool() {
			tenant = fmt.Sprintf("tenant-%d", r.Intn(100))
		}
		series := genSeriesList(r, r.Range(5, 20))
		for k := range series {
			series[k].tenant = tenant
			series[k].v = labelpbHash(series[k])
		}
		zaTok := "0"
		if za {
			zaTok = "1"
		}
		c.Count("shardg-gen")
		c.Do(fmt.Sprintf("shardg %s %d %s %s %d - %s %s", zaTok, rf, showEps(eps), strings.Join(big, ","), dflt,
			shardReqToken(za, eps, nil, tenant), showSeries(series)), true)
	}
	// malformed stream through the JSON loader: zero / negative / oversized shard sizes
	for i := 0; i < c.N(30, 300) && !gaveUp(); i++ {
		n := r.Range(2, 6)
		var es []string
		for k := 0; k < n; k++ {
			es = append(es, fmt.Sprintf(`{"address":"n%d","az":"%s"}`, k, r.Pick([]string{"a", "b"})))
		}
		js := fmt.Sprintf(`[{"hashring":"h","endpoints":[%s],"shuffle_sharding_config":{"shard_size":%d,"zone_awareness_disabled":%v,"overrides":[{"shard_size":%s,"tenants":["t"],"tenant_matcher_type":"exact"}]}}]`,
			strings.Join(es, ","), r.Range(1, n), r.Bool(), r.Pick([]string{"0", "-1", "-5", "1", "99"}))
		c.Count("shardcfg-gen")
		c.Do(fmt.Sprintf("o.shardcfg %s %d %s", hlib.HexS(js), 1, hlib.HexS("t")), true)
	}
}
