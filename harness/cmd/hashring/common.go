package main

import (
	"bufio"
	"encoding/json"
	"fmt"
	"io"
	"os"
	"os/exec"
	"runtime/debug"
	"sort"
	"strconv"
	"strings"
	"time"

	"github.com/thanos-io/thanos/pkg/receive"
	"github.com/thanos-io/thanos/pkg/store/labelpb"
	"github.com/thanos-io/thanos/pkg/store/storepb/prompb"
	"github.com/thanos-io/thanos/verifharness/hlib"
)

// ---------------------------------------------------------------- worker (child process with a deadline)

// vctx is what an Exec of this family may report; in the worker it is collected and shipped
// back to the parent, which replays it into the hlib context.
type vctx struct {
	V [][2]string `json:"v"` // oracle violations: class, what
	C []string    `json:"c"` // distribution keys
}

func (v *vctx) Violation(class, what string) { v.V = append(v.V, [2]string{class, what}) }
func (v *vctx) Count(key string)             { v.C = append(v.C, key) }

type execFn func(v *vctx, tok []string) string

var execs = map[string]execFn{}

// register adds a property whose Exec runs in the worker process.
func register(id string, gen func(c *hlib.Ctx), ex execFn) {
	execs[id] = ex
	props = append(props, &hlib.Prop{ID: id, Gen: gen, Exec: func(c *hlib.Ctx, tok []string) string {
		return viaWorker(c, id, tok)
	}})
}

type reply struct {
	A string `json:"a"`
	vctx
}

func safeExec(id string, v *vctx, tok []string) (out string) {
	defer func() {
		if r := recover(); r != nil {
			v.Count("impl-panic")
			if os.Getenv("VERIF_DEBUG") != "" {
				fmt.Fprintf(os.Stderr, "panic on %v: %v\n%s\n", tok, r, debug.Stack())
			}
			out = "panic"
		}
	}()
	ex, ok := execs[id]
	if !ok {
		return "bad-op"
	}
	return ex(v, tok)
}

func workerMain() {
	in := bufio.NewReaderSize(os.Stdin, 1<<20)
	out := bufio.NewWriterSize(os.Stdout, 1<<20)
	for {
		line, err := in.ReadString('\n')
		if line != "" {
			tok := strings.Fields(line)
			var r reply
			if len(tok) >= 1 {
				r.A = safeExec(tok[0], &r.vctx, tok[1:])
			} else {
				r.A = "bad-op"
			}
			b, _ := json.Marshal(r)
			out.Write(b)
			out.WriteByte('\n')
			out.Flush()
		}
		if err != nil {
			return
		}
	}
}

type worker struct {
	cmd   *exec.Cmd
	in    io.WriteCloser
	lines chan string
}

var (
	theWorker *worker
	hangs     int
)

// after this many missed deadlines no further op is executed (generators stop early)
const maxHangs = 3

func gaveUp() bool { return hangs >= maxHangs }

func startWorker() *worker {
	cmd := exec.Command(os.Args[0], "worker")
	cmd.Stderr = os.Stderr
	in, err := cmd.StdinPipe()
	if err != nil {
		panic(err)
	}
	outp, err := cmd.StdoutPipe()
	if err != nil {
		panic(err)
	}
	if err := cmd.Start(); err != nil {
		panic(err)
	}
	w := &worker{cmd: cmd, in: in, lines: make(chan string, 1)}
	go func() {
		rd := bufio.NewReaderSize(outp, 1<<20)
		for {
			l, err := rd.ReadString('\n')
			if l != "" {
				w.lines <- l
			}
			if err != nil {
				close(w.lines)
				return
			}
		}
	}()
	return w
}

func stopWorker() {
	if theWorker != nil {
		theWorker.in.Close()
		theWorker.cmd.Process.Kill()
		theWorker.cmd.Wait()
		theWorker = nil
	}
}

func deadline() time.Duration {
	if s := os.Getenv("VERIF_DEADLINE_MS"); s != "" {
		if n, err := strconv.Atoi(s); err == nil && n > 0 {
			return time.Duration(n) * time.Millisecond
		}
	}
	if hangs > 0 {
		// one hang has been seen already (and reported): do not spend 10 s on each further one
		return 3 * time.Second
	}
	return 10 * time.Second
}

func viaWorker(c *hlib.Ctx, id string, tok []string) string {
	if os.Getenv("VERIF_INPROC") != "" {
		var v vctx
		a := safeExec(id, &v, tok)
		replay(c, &v)
		return a
	}
	if hangs >= maxHangs {
		// the run is a violation already; do not spend a deadline on every further op
		c.Count("not-run-after-hangs")
		return "not-run"
	}
	if theWorker == nil {
		theWorker = startWorker()
	}
	w := theWorker
	d := deadline()
	if _, err := io.WriteString(w.in, id+" "+strings.Join(tok, " ")+"\n"); err != nil {
		stopWorker()
		c.Violation("worker-died", "worker process died: "+err.Error())
		return "worker-died"
	}
	select {
	case l, ok := <-w.lines:
		if !ok {
			stopWorker()
			c.Count("worker-died")
			c.Violation("worker-died", "worker process died while executing the op (fatal error / os.Exit in the code under test)")
			return "worker-died"
		}
		var r reply
		if err := json.Unmarshal([]byte(l), &r); err != nil {
			return "bad-reply"
		}
		replay(c, &r.vctx)
		return r.A
	case <-time.After(d):
		hangs++
		stopWorker()
		c.Count("hang")
		c.Violation("hang", fmt.Sprintf("no answer within %v: the call does not return (worker killed)", d))
		return "hang"
	}
}

func replay(c *hlib.Ctx, v *vctx) {
	for _, k := range v.C {
		c.Count(k)
	}
	for _, x := range v.V {
		c.Violation(x[0], x[1])
	}
}

// ---------------------------------------------------------------- op-line pieces

type epSpec struct {
	addr, az string
	hashes   []uint64
}

// <addrhex>/<azhex>/<h1.h2.….hk>
func parseEps(s string) ([]epSpec, bool) {
	var out []epSpec
	for _, t := range hlib.Split(s, ",") {
		p := strings.Split(t, "/")
		if len(p) != 3 {
			return nil, false
		}
		a, err1 := hlib.UnHex(p[0])
		z, err2 := hlib.UnHex(p[1])
		if err1 != nil || err2 != nil {
			return nil, false
		}
		e := epSpec{addr: string(a), az: string(z)}
		for _, h := range hlib.Split(p[2], ".") {
			x, err := strconv.ParseUint(h, 10, 64)
			if err != nil {
				return nil, false
			}
			e.hashes = append(e.hashes, x)
		}
		out = append(out, e)
	}
	return out, true
}

func showEps(eps []epSpec) string {
	ss := make([]string, len(eps))
	for i, e := range eps {
		hs := make([]string, len(e.hashes))
		for j, h := range e.hashes {
			hs[j] = strconv.FormatUint(h, 10)
		}
		ss[i] = hlib.HexS(e.addr) + "/" + hlib.HexS(e.az) + "/" + hlib.Join(hs, ".")
	}
	return hlib.Join(ss, ",")
}

func endpointsOf(eps []epSpec) []receive.Endpoint {
	out := make([]receive.Endpoint, len(eps))
	for i, e := range eps {
		out[i] = receive.Endpoint{Address: e.addr, CapNProtoAddress: e.addr, AZ: e.az}
	}
	return out
}

type seriesSpec struct {
	tenant string
	labels []labelpb.ZLabel
	v      uint64
}

// <tenanthex>:<labels>:<v>     labels = `;`-list of <namehex>=<valuehex>
func parseSeries(s string) ([]seriesSpec, bool) {
	var out []seriesSpec
	for _, t := range hlib.Split(s, ",") {
		p := strings.Split(t, ":")
		if len(p) != 3 {
			return nil, false
		}
		tn, err := hlib.UnHex(p[0])
		if err != nil {
			return nil, false
		}
		sp := seriesSpec{tenant: string(tn)}
		for _, l := range hlib.Split(p[1], ";") {
			nv := strings.Split(l, "=")
			if len(nv) != 2 {
				return nil, false
			}
			n, err1 := hlib.UnHex(nv[0])
			v, err2 := hlib.UnHex(nv[1])
			if err1 != nil || err2 != nil {
				return nil, false
			}
			sp.labels = append(sp.labels, labelpb.ZLabel{Name: string(n), Value: string(v)})
		}
		x, err := strconv.ParseUint(p[2], 10, 64)
		if err != nil {
			return nil, false
		}
		sp.v = x
		out = append(out, sp)
	}
	return out, true
}

func showSeries(ss []seriesSpec) string {
	out := make([]string, len(ss))
	for i, s := range ss {
		ls := make([]string, len(s.labels))
		for j, l := range s.labels {
			ls[j] = hlib.HexS(l.Name) + "=" + hlib.HexS(l.Value)
		}
		out[i] = hlib.HexS(s.tenant) + ":" + hlib.Join(ls, ";") + ":" + strconv.FormatUint(s.v, 10)
	}
	return hlib.Join(out, ",")
}

func (s seriesSpec) ts() *prompb.TimeSeries { return &prompb.TimeSeries{Labels: s.labels} }

func labelpbHash(s seriesSpec) uint64 { return labelpb.HashWithPrefix(s.tenant, s.labels) }

// ---------------------------------------------------------------- generators of inputs

var tenantPool = []string{"", "a", "b", "tenant-a", "tenant-b", "team/x", "default-tenant", "t\x00z", "ünï", "a:b", "x*"}
var lnamePool = []string{"__name__", "job", "instance", "pod", "a", "b", "zone", "le"}
var lvalPool = []string{"up", "node", "api", "0", "1", "x", "", "\xff", "a\xffb", "prometheus", "10.0.0.1:9090"}

// genSeries draws a tenant and a sorted label set and computes its hash with the code's own
// labelpb.HashWithPrefix (the model takes the hash as an input).
func genSeries(r *hlib.Rand) seriesSpec {
	s := seriesSpec{tenant: r.Pick(tenantPool)}
	if r.Chance(1, 4) {
		s.tenant = fmt.Sprintf("tenant-%d", r.Intn(1000))
	}
	n := r.Range(0, 5)
	names := map[string]bool{}
	for i := 0; i < n; i++ {
		nm := r.Pick(lnamePool)
		if names[nm] {
			continue
		}
		names[nm] = true
		val := r.Pick(lvalPool)
		if r.Chance(1, 3) {
			val = fmt.Sprintf("v%d", r.Intn(100000))
		}
		if r.Chance(1, 60) {
			val = strings.Repeat("long-value-", r.Range(90, 120)) // > 1 KiB: the streaming branch of HashWithPrefix
		}
		s.labels = append(s.labels, labelpb.ZLabel{Name: nm, Value: val})
	}
	sort.Slice(s.labels, func(i, j int) bool { return s.labels[i].Name < s.labels[j].Name })
	s.v = labelpb.HashWithPrefix(s.tenant, s.labels)
	return s
}

func genSeriesList(r *hlib.Rand, n int) []seriesSpec {
	out := make([]seriesSpec, n)
	for i := range out {
		out[i] = genSeries(r)
	}
	return out
}
