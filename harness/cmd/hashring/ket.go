package main

import (
	"fmt"
	"sort"
	"strconv"
	"strings"

	"github.com/cespare/xxhash/v2"
	"github.com/thanos-io/thanos/pkg/receive"
	"github.com/thanos-io/thanos/verifharness/hlib"
)

// The shared ketama op (grammar: see lean/Thanos/Driver/Hashring.lean)
//
//   ket <mode> <rf> <nq> <eps> <series>
//     -> toofew | stuck | hang | panic | tie | hash-mismatch | err:<msg> | ok <T> <G>
//
// executed on the REAL ring: receive.VerifNewKetama (hook: newKetamaHashring with the number of
// sections per node = number of hashes given per endpoint) and Hashring.GetN.

type ketRun struct {
	answer string
	status string // ok | toofew | stuck | tie | hash-mismatch | err | bad-op
	rf, nq int
	eps    []epSpec
	series []seriesSpec
	ring   receive.Hashring
	secs   []receive.VerifSection
	gets   [][]string // per series, per n: endpoint index | I | P | E
}

// sectionHashes computes what newKetamaHashring hashes for an endpoint: xxhash("addr:i"), i = 1..spn.
// Used by generators only (Exec verifies it against the real ring's sections).
func sectionHashes(addr string, spn int) []uint64 {
	out := make([]uint64, spn)
	for i := 1; i <= spn; i++ {
		out[i-1] = xxhash.Sum64String(addr + ":" + strconv.Itoa(i))
	}
	return out
}

func classifyBuildErr(err error) string {
	msg := err.Error()
	switch {
	case strings.Contains(msg, "needs to be larger than replication factor"):
		return "toofew"
	case strings.Contains(msg, "cannot be balanced") || strings.Contains(msg, "cannot be spread"):
		return "stuck"
	case strings.Contains(msg, "does not support AZ"):
		return "azunsupported"
	case strings.Contains(msg, "shard size") && strings.Contains(msg, "larger than number of nodes"):
		return "shardtoobig"
	case strings.Contains(msg, "does not support shuffle sharding"):
		return "shardunsupported"
	}
	return "err:" + strings.ReplaceAll(msg, " ", "_")
}

func digestStep(h, x uint64) uint64 {
	// (h*1000003 + x + 1) mod 2^61-1 without overflow: h < 2^61, so use 128-bit via big steps
	const m = 2305843009213693951
	hi, lo := mul64(h, 1000003)
	r := mod128(hi, lo, m)
	return (r + (x+1)%m) % m
}

func mul64(a, b uint64) (hi, lo uint64) {
	const mask = 1<<32 - 1
	a0, a1 := a&mask, a>>32
	b0, b1 := b&mask, b>>32
	w0 := a0 * b0
	t := a1*b0 + w0>>32
	w1 := t & mask
	w2 := t >> 32
	w1 += a0 * b1
	hi = a1*b1 + w2 + w1>>32
	lo = a * b
	return
}

func mod128(hi, lo, m uint64) uint64 {
	// hi < m is guaranteed here (h < 2^61, factor < 2^20)
	var r uint64 = hi % m
	for i := 63; i >= 0; i-- {
		r = (r << 1) | ((lo >> uint(i)) & 1)
		if r >= m {
			r -= m
		}
	}
	return r
}

func showTable(mode string, secs []receive.VerifSection) string {
	if mode == "d" {
		h := uint64(7)
		for _, s := range secs {
			h = digestStep(h, s.EndpointIndex)
			for _, r := range s.Replicas {
				h = digestStep(h, r)
			}
			h = digestStep(h, 1000000)
		}
		return "d" + strconv.FormatUint(h, 10)
	}
	ss := make([]string, len(secs))
	for i, s := range secs {
		rs := make([]string, len(s.Replicas))
		for j, r := range s.Replicas {
			rs[j] = strconv.FormatUint(r, 10)
		}
		ss[i] = strconv.FormatUint(s.EndpointIndex, 10) + ":" + hlib.Join(rs, ".")
	}
	return hlib.Join(ss, ";")
}

// getIdx calls the real GetN and canonicalises the answer to an endpoint index of the op line.
func getIdx(ring receive.Hashring, idx map[string]int, s seriesSpec, n int) (out string) {
	defer func() {
		if r := recover(); r != nil {
			out = "P"
		}
	}()
	e, err := ring.GetN(s.tenant, s.ts(), uint64(n))
	if err != nil {
		if strings.Contains(err.Error(), "insufficient nodes") {
			return "I"
		}
		return "E"
	}
	i, ok := idx[e.Address]
	if !ok {
		return "?"
	}
	return strconv.Itoa(i)
}

// reportTie reports two sections of the REAL ring with the same hash: sort.Sort is not stable and
// GetN takes the first section with hash >= v, so the placement would not be a function of the
// configuration (class hash-tie).  Different addresses never collide on the unchanged code.
func reportTie(v *vctx, eps []epSpec, secs []receive.VerifSection) bool {
	for i := 1; i < len(secs); i++ {
		if secs[i-1].Hash == secs[i].Hash {
			a, b := secs[i-1].EndpointIndex, secs[i].EndpointIndex
			an, bn := "?", "?"
			if int(a) < len(eps) && int(b) < len(eps) {
				an, bn = eps[a].addr, eps[b].addr
			}
			v.Violation("hash-tie", fmt.Sprintf("sections of endpoints %q and %q have the same hash %d: the order of equal hashes is up to the unstable sort, placement is not determined by the configuration", an, bn, secs[i].Hash))
			return true
		}
	}
	return false
}

// checkSectionHashes compares the hashes of the real ring's sections with the op line's.
func checkSectionHashes(v *vctx, eps []epSpec, secs []receive.VerifSection) bool {
	got := make([][]uint64, len(eps))
	for _, s := range secs {
		if int(s.EndpointIndex) >= len(eps) {
			v.Count("section-hash-differs-from-op-line")
			return false
		}
		got[s.EndpointIndex] = append(got[s.EndpointIndex], s.Hash)
	}
	for i, e := range eps {
		want := append([]uint64(nil), e.hashes...)
		sort.Slice(want, func(a, b int) bool { return want[a] < want[b] })
		g := got[i]
		sort.Slice(g, func(a, b int) bool { return g[a] < g[b] })
		if fmt.Sprint(want) != fmt.Sprint(g) {
			// not a property violation by itself: the model was given xxhash(address:i) and cannot follow
			// a ring hashed differently (the correspondence and the section-hash fact report that)
			v.Count("section-hash-differs-from-op-line")
			return false
		}
	}
	return true
}

func runKet(v *vctx, tok []string) *ketRun {
	k := &ketRun{status: "bad-op", answer: "bad-op"}
	if len(tok) != 6 || tok[0] != "ket" {
		return k
	}
	mode := tok[1]
	rf, err1 := strconv.Atoi(tok[2])
	nq, err2 := strconv.Atoi(tok[3])
	eps, ok1 := parseEps(tok[4])
	series, ok2 := parseSeries(tok[5])
	if err1 != nil || err2 != nil || !ok1 || !ok2 || rf < 0 || nq < 0 || (mode != "t" && mode != "d") {
		return k
	}
	k.rf, k.nq, k.eps, k.series = rf, nq, eps, series
	spn := 0
	if len(eps) > 0 {
		spn = len(eps[0].hashes)
	}
	for _, e := range eps {
		if len(e.hashes) != spn {
			return k
		}
	}
	for _, s := range series {
		if labelpbHash(s) != s.v {
			k.status, k.answer = "hash-mismatch", "hash-mismatch"
			v.Violation("harness-hash-input", "series hash in the op line is not labelpb.HashWithPrefix of the series")
			return k
		}
	}
	ring, secs, err := receive.VerifNewKetama(endpointsOf(eps), spn, uint64(rf))
	if err != nil {
		k.status = classifyBuildErr(err)
		k.answer = k.status
		return k
	}
	k.ring, k.secs = ring, secs
	if reportTie(v, eps, secs) {
		k.status, k.answer = "tie", "tie"
		return k
	}
	// the hashes the model was given must be the hashes of the real sections
	for _, sec := range secs {
		if int(sec.EndpointIndex) < len(eps) && sec.AZ != eps[sec.EndpointIndex].az {
			v.Violation("section-az", fmt.Sprintf("section of endpoint %d carries zone %q, endpoint has %q", sec.EndpointIndex, sec.AZ, eps[sec.EndpointIndex].az))
		}
	}
	if !checkSectionHashes(v, eps, secs) {
		k.status, k.answer = "hash-mismatch", "hash-mismatch"
		return k
	}
	idx := map[string]int{}
	for i, e := range eps {
		if _, dup := idx[e.addr]; !dup {
			idx[e.addr] = i
		}
	}
	gs := make([]string, len(series))
	for i, s := range series {
		row := make([]string, nq)
		for n := 0; n < nq; n++ {
			row[n] = getIdx(ring, idx, s, n)
		}
		k.gets = append(k.gets, row)
		gs[i] = hlib.Join(row, ".")
	}
	k.status = "ok"
	k.answer = "ok " + showTable(mode, secs) + " " + hlib.Join(gs, ";")
	return k
}

// ---------------------------------------------------------------- layouts

// layout is a list of zone sizes; zone names and addresses are drawn separately.
type layout []int

func (l layout) total() int {
	t := 0
	for _, x := range l {
		t += x
	}
	return t
}

// canBalance is the arithmetic prediction proved in Lean (Thanos.Hashring.CanBalance): with at
// least two zones the loop can place rf replicas iff rf ≤ Σ_z min(size_z, m+1), m the smallest zone.
func (l layout) canBalance(rf int) bool {
	if len(l) <= 1 {
		return rf <= l.total()
	}
	m := l[0]
	for _, x := range l {
		if x < m {
			m = x
		}
	}
	s := 0
	for _, x := range l {
		if x < m+1 {
			s += x
		} else {
			s += m + 1
		}
	}
	return rf <= s
}

var zoneNames = []string{"", "a", "b", "eu-west-1a", "z\x00", "zone-3", "A", "ü"}

func pickZoneNames(r *hlib.Rand, n int) []string {
	p := r.Perm(len(zoneNames))
	out := make([]string, n)
	for i := range out {
		out[i] = zoneNames[p[i]]
	}
	return out
}

var addrStyles = 10

// genAddr draws the address of endpoint number i of a ring.  Styles 4..9 are the forms real
// configurations use — host:port with several endpoints on one host, URLs, IPv4 / IPv6 literals,
// bare names — and deliberately let endpoints share a host and differ only in the port.
func genAddr(r *hlib.Rand, style, i int) string {
	switch style {
	case 0:
		return fmt.Sprintf("node-%d", i)
	case 1:
		return fmt.Sprintf("10.%d.%d.%d:10901", r.Intn(256), r.Intn(256), i)
	case 2:
		return fmt.Sprintf("thanos-receive-%d.thanos-receive.ns.svc.cluster.local:10901", i)
	case 3:
		return fmt.Sprintf("%c%x", 'a'+rune(i%26), r.Intn(1<<20)) + strconv.Itoa(i)
	case 4: // up to three endpoints per host, different ports
		return fmt.Sprintf("receive-%d.example.org:%d", i/3, 10901+i%3)
	case 5: // URLs, two endpoints per host
		return fmt.Sprintf("http://rcv-%d.internal:%d", i/2, 19291+i%2)
	case 6: // IPv4 literals, four ports per address
		return fmt.Sprintf("192.168.7.%d:%d", 10+i/4, 10900+i%4)
	case 7: // IPv6 literals, two ports per address
		return fmt.Sprintf("[fd00::%x]:%d", 1+i/2, 10901+i%2)
	case 8: // everything on one host
		return fmt.Sprintf("localhost:%d", 10901+i)
	default: // a mixture: bare names, host:port on a shared host, IPv6 without brackets
		switch i % 3 {
		case 0:
			return fmt.Sprintf("ingest-%d", i)
		case 1:
			return fmt.Sprintf("shared-host:%d", 10901+i)
		}
		return fmt.Sprintf("2001:db8::%x", i+1)
	}
}

// materialise turns a layout into endpoint specs (shuffled over the zones), with distinct addresses.
// The op line's hypothesis "no two sections have the same hash" is checked for every generated
// ring (a violation would be an xxhash collision between different "address:i" strings).
func materialise(r *hlib.Rand, l layout, spn int) []epSpec {
	for {
		eps := materialiseOnce(r, l, spn)
		seen := map[uint64]bool{}
		tie := false
		for _, e := range eps {
			for _, h := range e.hashes {
				if seen[h] {
					tie = true
				}
				seen[h] = true
			}
		}
		if !tie {
			return eps
		}
	}
}

func materialiseOnce(r *hlib.Rand, l layout, spn int) []epSpec {
	names := pickZoneNames(r, len(l))
	style := r.Intn(addrStyles)
	var eps []epSpec
	i := 0
	for z, sz := range l {
		for k := 0; k < sz; k++ {
			a := genAddr(r, style, i)
			eps = append(eps, epSpec{addr: a, az: names[z], hashes: sectionHashes(a, spn)})
			i++
		}
	}
	p := r.Perm(len(eps))
	out := make([]epSpec, len(eps))
	for i, j := range p {
		out[i] = eps[j]
	}
	return out
}

// largeLayout draws 65..130 endpoints in 2..4 zones: every zone at most 64 (bigZone = false) or one
// zone above 64 (bigZone = true).
func largeLayout(r *hlib.Rand, bigZone bool) layout {
	nz := r.Range(2, 4)
	total := r.Range(65, 130)
	var l layout
	if bigZone && nz <= 3 {
		big := r.Range(65, total-2*(nz-1))
		if big > 100 {
			big = 100
		}
		l = append(l, big)
		rest := total - big
		for z := 1; z < nz; z++ {
			x := rest / (nz - z)
			if x < 2 {
				x = 2
			}
			l = append(l, x)
			rest -= x
		}
		return l
	}
	for total > 64*nz {
		total--
	}
	rest := total
	for z := 0; z < nz; z++ {
		x := rest / (nz - z)
		if z+1 < nz {
			x += r.Range(-3, 3)
		}
		if x > 64 {
			x = 64
		}
		l = append(l, x)
		rest -= x
	}
	return l
}

func layoutKey(l layout) string {
	s := append([]int(nil), l...)
	sort.Ints(s)
	ss := make([]string, len(s))
	for i, x := range s {
		ss[i] = strconv.Itoa(x)
	}
	return strings.Join(ss, "+")
}

// allLayouts enumerates the zone-size multisets with total ≤ maxN endpoints in ≤ maxZ zones
// (sizes non-increasing).
func allLayouts(maxN, maxZ int) []layout {
	var out []layout
	var rec func(cur layout, left, maxPart int)
	rec = func(cur layout, left, maxPart int) {
		if len(cur) > 0 {
			out = append(out, append(layout(nil), cur...))
		}
		if len(cur) == maxZ {
			return
		}
		for p := 1; p <= maxPart && p <= left; p++ {
			rec(append(cur, p), left-p, p)
		}
	}
	rec(nil, maxN, maxN)
	return out
}
