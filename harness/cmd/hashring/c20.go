package main

import (
	"fmt"
	"strconv"
	"strings"

	"github.com/prometheus/client_golang/prometheus"
	"github.com/thanos-io/thanos/pkg/receive"
	"github.com/thanos-io/thanos/verifharness/hlib"
)

// C20 — adding a node to a ketama ring only moves series onto the new node.
//
// ops
//   keta <rf> <eps> <pos> <series>     real newKetamaHashring (hook) for eps without its endpoint
//                                      number pos ("before") and for eps ("after");
//                                      -> <A_before> <A_after>, GetN(0..rf-1) in positions of eps
//   o.add <rf> <eps> <pos> <series>    oracle-only: the same through receive.NewMultiHashring
//                                      (1000 sections per node) -> ok | <error class>
//
// oracle, per series (only when no availability zones are configured): every node after the
// addition is the new node or was a node of the series before (moved-between-old-nodes); the
// old nodes that remain keep their order and are a prefix of the nodes before (order-changed);
// without the new node among them nothing changes (changed-without-new-node).
// With zones configured the property is not claimed; movements are only counted.

func init() { register("C20", genC20, execC20) }

func checkAdd(v *vctx, zoneless bool, pos int, before, after [][]string) {
	newNode := strconv.Itoa(pos)
	for si := range after {
		b, a := before[si], after[si]
		inB := map[string]bool{}
		for _, x := range b {
			inB[x] = true
		}
		hasNew := false
		var rest []string
		bad := ""
		for _, x := range a {
			if x == newNode {
				hasNew = true
				continue
			}
			rest = append(rest, x)
			if !inB[x] {
				bad = x
			}
		}
		if !zoneless {
			if bad != "" {
				v.Count("zones:moved-between-old-nodes")
			}
			continue
		}
		if bad != "" {
			v.Violation("moved-between-old-nodes", fmt.Sprintf("series %d: node %s serves the series after the addition of node %s but did not before: %v -> %v", si, bad, newNode, b, a))
			return
		}
		if len(rest) > len(b) || strings.Join(rest, ".") != strings.Join(b[:len(rest)], ".") {
			v.Violation("order-changed", fmt.Sprintf("series %d: the remaining old nodes are not a prefix of the nodes before: %v -> %v", si, b, a))
			return
		}
		if !hasNew && strings.Join(a, ".") != strings.Join(b, ".") {
			v.Violation("changed-without-new-node", fmt.Sprintf("series %d: %v -> %v", si, b, a))
			return
		}
		if hasNew {
			v.Count("series:moved-onto-new")
		} else {
			v.Count("series:unchanged")
		}
	}
}

func execC20(v *vctx, tok []string) string {
	if len(tok) != 5 || (tok[0] != "keta" && tok[0] != "o.add") {
		return "bad-op"
	}
	rf, err1 := strconv.Atoi(tok[1])
	eps, ok1 := parseEps(tok[2])
	pos, err2 := strconv.Atoi(tok[3])
	series, ok2 := parseSeries(tok[4])
	if err1 != nil || err2 != nil || !ok1 || !ok2 || rf < 0 || pos < 0 || pos >= len(eps) {
		return "bad-op"
	}
	beforeEps := append(append([]epSpec(nil), eps[:pos]...), eps[pos+1:]...)
	zoneless := true
	for _, e := range eps {
		if e.az != eps[0].az {
			zoneless = false
		}
	}
	if tok[0] == "keta" {
		a1, r1 := ketG(v, beforeEps, eps, rf, rf, series)
		a2, r2 := ketG(v, eps, eps, rf, rf, series)
		if r1 != nil && r2 != nil {
			checkAdd(v, zoneless, pos, r1, r2)
			checkRows(v, eps, rf, r2)
			v.Count(fmt.Sprintf("keta:ok:nodes-before:%02d", len(beforeEps)))
		} else {
			v.Count("keta:" + a1 + "/" + a2)
		}
		return a1 + " " + a2
	}
	mk := func(l []epSpec) (receive.Hashring, error) {
		return receive.NewMultiHashring(receive.AlgorithmKetama, uint64(rf), []receive.HashringConfig{{Endpoints: endpointsOf(l)}}, prometheus.NewRegistry())
	}
	h1, err := mk(beforeEps)
	if err != nil {
		return classifyBuildErr(err)
	}
	h2, err := mk(eps)
	if err != nil {
		return classifyBuildErr(err)
	}
	checkAdd(v, zoneless, pos, rowsOf(h1, eps, series, rf), rowsOf(h2, eps, series, rf))
	v.Count("o.add:ok")
	return "ok"
}

func genC20(c *hlib.Ctx) {
	r := c.R
	gen := func(op string, spnChoices []int, nseries int) {
		n := r.Range(1, 12) // nodes before the addition
		rf := r.Range(1, n)
		if r.Chance(2, 3) {
			rf = r.Range(1, min(5, n))
		}
		l := layout{n + 1}
		if r.Chance(1, 8) && n >= 3 {
			// with zones: not claimed, recorded
			ls := allLayouts(n+1, 3)
			l = ls[r.Intn(len(ls))]
			for l.total() != n+1 {
				l = ls[r.Intn(len(ls))]
			}
			c.Count("gen:with-zones")
		}
		eps := materialise(r, l, spnChoices[r.Intn(len(spnChoices))])
		pos := r.Intn(len(eps))
		// the added node's name: anywhere in the sort order of the addresses
		switch r.Intn(4) {
		case 0:
			eps[pos].addr = "0-first-" + eps[pos].addr
		case 1:
			eps[pos].addr = "zzz-last-" + eps[pos].addr
		case 2:
			eps[pos].addr = fmt.Sprintf("new-%d", r.Intn(1<<30))
		}
		eps[pos].hashes = sectionHashes(eps[pos].addr, len(eps[pos].hashes))
		c.Count(fmt.Sprintf("gen:rf:%d", rf))
		c.Do(fmt.Sprintf("%s %d %s %d %s", op, rf, showEps(eps), pos, showSeries(genSeriesList(r, nseries))), true)
	}
	for i := 0; i < c.N(400, 8000) && !gaveUp(); i++ {
		gen("keta", []int{1, 2, 3, 5, 8, 16}, r.Range(5, 40))
	}
	for i := 0; i < c.N(25, 300) && !gaveUp(); i++ {
		gen("o.add", []int{0}, 200)
	}
}
