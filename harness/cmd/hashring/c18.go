package main

import (
	"fmt"
	"strconv"
	"strings"

	"github.com/cespare/xxhash/v2"
	"github.com/prometheus/client_golang/prometheus"
	"github.com/thanos-io/thanos/pkg/receive"
	"github.com/thanos-io/thanos/pkg/store/labelpb"
	"github.com/thanos-io/thanos/verifharness/hlib"
)

// C18 — hashring places each series on distinct, deterministic, zone-balanced nodes.
//
// ops (grammar of the compared ones: lean/Thanos/Driver/Hashring.lean)
//
//   ket  <mode> <rf> <nq> <eps> <series>        real newKetamaHashring (hook) + GetN, table and answers compared
//   ketp <rf> <nq> <eps> <perm> <series>        the same ring from the endpoint list in two orders
//   mod  <nq> <addrs> <series>                  real newSimpleHashring + GetN
//   modp <nq> <addrs> <perm> <series>           … in two orders
//   o.ring <algo> <rf> <eps> <perm> <series>    oracle-only: receive.NewMultiHashring (1000 sections per
//                                               node) from the list in two orders -> ok | <error class>
//   o.hash <tenanthex> <labels>                 oracle-only: labelpb.HashWithPrefix equals xxhash of
//                                               tenant 0xff (name 0xff value 0xff)* on both of its branches
//
// oracle, per series: the nodes for n = 0..rf-1 are pairwise distinct endpoints of the list
// (replica-duplicate-getn, unknown-endpoint); with ≥ 2 zones the per-zone counts of every prefix
// differ by at most one over all configured zones (zone-imbalance); asking again gives the same
// (nondeterministic); the permuted list gives the same nodes (order-dependent).

func init() { register("C18", genC18, execC18) }

// checkRows evaluates distinctness and zone balance of GetN answers given as endpoint positions.
func checkRows(v *vctx, eps []epSpec, rf int, rows [][]string) {
	zones := map[string]bool{}
	for _, e := range eps {
		zones[e.az] = true
	}
	for si, row := range rows {
		seen := map[string]bool{}
		cnt := map[string]int{}
		for z := range zones {
			cnt[z] = 0
		}
		for n, g := range row {
			if n >= rf {
				break
			}
			i, err := strconv.Atoi(g)
			if err != nil || i < 0 || i >= len(eps) {
				v.Violation("unknown-endpoint", fmt.Sprintf("series %d: GetN(%d) answered %q", si, n, g))
				return
			}
			if seen[eps[i].addr] {
				v.Violation("replica-duplicate-getn", fmt.Sprintf("series %d: node %q is replica %d and an earlier one: %v", si, eps[i].addr, n, row))
				return
			}
			seen[eps[i].addr] = true
			cnt[eps[i].az]++
			if len(zones) > 1 {
				lo, hi := 1<<30, 0
				for _, c := range cnt {
					if c < lo {
						lo = c
					}
					if c > hi {
						hi = c
					}
				}
				if hi-lo > 1 {
					v.Violation("zone-imbalance", fmt.Sprintf("series %d: after %d replicas the zone counts are %v", si, n+1, cnt))
					return
				}
			}
		}
	}
}

func rowsOf(ring receive.Hashring, eps []epSpec, series []seriesSpec, nq int) [][]string {
	idx := map[string]int{}
	for i, e := range eps {
		if _, dup := idx[e.addr]; !dup {
			idx[e.addr] = i
		}
	}
	var rows [][]string
	for _, s := range series {
		row := make([]string, nq)
		for n := 0; n < nq; n++ {
			row[n] = getIdx(ring, idx, s, n)
		}
		rows = append(rows, row)
	}
	return rows
}

func showRows(rows [][]string) string {
	gs := make([]string, len(rows))
	for i, r := range rows {
		gs[i] = hlib.Join(r, ".")
	}
	return hlib.Join(gs, ";")
}

func parsePerm(s string, n int) ([]int, bool) {
	var p []int
	seen := map[int]bool{}
	for _, t := range hlib.Split(s, ".") {
		i, err := strconv.Atoi(t)
		if err != nil || i < 0 || i >= n || seen[i] {
			return nil, false
		}
		seen[i] = true
		p = append(p, i)
	}
	return p, len(p) == n
}

func permuteEps(eps []epSpec, p []int) []epSpec {
	out := make([]epSpec, len(p))
	for i, j := range p {
		out[i] = eps[j]
	}
	return out
}

// ketG builds the real ketama ring and answers the GetN part in positions of `orig`.
func ketG(v *vctx, eps, orig []epSpec, rf, nq int, series []seriesSpec) (string, [][]string) {
	spn := 0
	if len(eps) > 0 {
		spn = len(eps[0].hashes)
	}
	ring, secs, err := receive.VerifNewKetama(endpointsOf(eps), spn, uint64(rf))
	if err != nil {
		return classifyBuildErr(err), nil
	}
	tie := reportTie(v, eps, secs)
	rows := rowsOf(ring, orig, series, nq)
	if tie {
		// the rows are still handed to the oracles (they show what the tie does); the answer is "tie"
		return "tie", rows
	}
	if !checkSectionHashes(v, eps, secs) {
		return "hash-mismatch", rows
	}
	return showRows(rows), rows
}

func simpleRows(v *vctx, addrs, orig []string, series []seriesSpec, nq int) (string, [][]string) {
	eps := make([]receive.Endpoint, len(addrs))
	for i, a := range addrs {
		eps[i] = receive.Endpoint{Address: a, CapNProtoAddress: a}
	}
	ring, err := receive.VerifNewSimple(eps)
	if err != nil {
		return classifyBuildErr(err), nil
	}
	idx := map[string]int{}
	for i, a := range orig {
		if _, dup := idx[a]; !dup {
			idx[a] = i
		}
	}
	var rows [][]string
	for _, s := range series {
		row := make([]string, nq)
		for n := 0; n < nq; n++ {
			row[n] = getIdx(ring, idx, s, n)
		}
		rows = append(rows, row)
	}
	return showRows(rows), rows
}

func parseAddrs(s string) ([]string, bool) {
	var out []string
	for _, t := range hlib.Split(s, ",") {
		b, err := hlib.UnHex(t)
		if err != nil {
			return nil, false
		}
		out = append(out, string(b))
	}
	return out, true
}

func checkSimpleRows(v *vctx, addrs []string, series []seriesSpec, nq int, rows [][]string) {
	distinct := map[string]bool{}
	for _, a := range addrs {
		distinct[a] = true
	}
	if len(distinct) != len(addrs) {
		return // duplicate addresses: two positions are the same node by configuration
	}
	for si, row := range rows {
		seen := map[string]bool{}
		for n, g := range row {
			if n >= len(addrs) {
				if g != "I" {
					v.Violation("hashmod-insufficient", fmt.Sprintf("series %d: GetN(%d) on %d nodes answered %s", si, n, len(addrs), g))
				}
				continue
			}
			if seen[g] {
				class := "replica-duplicate-getn"
				if series[si].v+uint64(nq) < series[si].v { // the uint64 sum hash+n wraps
					class = "hashmod-wrap-duplicate"
				}
				v.Violation(class, fmt.Sprintf("series %d (hash %d): node %s twice in %v", si, series[si].v, g, row))
				return
			}
			seen[g] = true
		}
	}
}

func execC18(v *vctx, tok []string) string {
	if len(tok) == 0 {
		return "bad-op"
	}
	switch tok[0] {
	case "ket":
		k := runKet(v, tok)
		if k.status == "ok" {
			checkUsable(v, k)
			checkRows(v, k.eps, k.rf, k.gets)
			again := rowsOf(k.ring, k.eps, k.series, k.nq)
			if showRows(again) != showRows(k.gets) {
				v.Violation("nondeterministic", "asking GetN again gave different nodes")
			}
		}
		v.Count("ket:" + strings.SplitN(k.status, ":", 2)[0])
		return k.answer
	case "ketp":
		if len(tok) != 6 {
			return "bad-op"
		}
		rf, err1 := strconv.Atoi(tok[1])
		nq, err2 := strconv.Atoi(tok[2])
		eps, ok1 := parseEps(tok[3])
		series, ok2 := parseSeries(tok[5])
		if err1 != nil || err2 != nil || !ok1 || !ok2 || rf < 0 || nq < 0 {
			return "bad-op"
		}
		perm, ok := parsePerm(tok[4], len(eps))
		if !ok {
			return "bad-op"
		}
		a1, rows1 := ketG(v, eps, eps, rf, nq, series)
		a2, _ := ketG(v, permuteEps(eps, perm), eps, rf, nq, series)
		if a1 != a2 {
			v.Violation("order-dependent", fmt.Sprintf("endpoint order %v changes the answers: %s vs %s", perm, a1, a2))
		}
		if rows1 != nil {
			checkRows(v, eps, rf, rows1)
			v.Count("ketp:ok")
		} else {
			v.Count("ketp:" + a1)
		}
		return a1 + " " + a2
	case "mod", "modp":
		isP := tok[0] == "modp"
		if (!isP && len(tok) != 4) || (isP && len(tok) != 5) {
			return "bad-op"
		}
		nq, err := strconv.Atoi(tok[1])
		addrs, ok1 := parseAddrs(tok[2])
		series, ok2 := parseSeries(tok[len(tok)-1])
		if err != nil || !ok1 || !ok2 || nq < 0 {
			return "bad-op"
		}
		a1, rows := simpleRows(v, append([]string(nil), addrs...), addrs, series, nq)
		if rows != nil {
			checkSimpleRows(v, addrs, series, nq, rows)
		}
		v.Count("mod:nodes:" + strconv.Itoa(len(addrs)))
		if !isP {
			return a1
		}
		perm, ok := parsePerm(tok[3], len(addrs))
		if !ok {
			return "bad-op"
		}
		pa := make([]string, len(perm))
		for i, j := range perm {
			pa[i] = addrs[j]
		}
		a2, _ := simpleRows(v, pa, addrs, series, nq)
		if a1 != a2 {
			v.Violation("order-dependent", fmt.Sprintf("hashmod: endpoint order %v changes the answers: %s vs %s", perm, a1, a2))
		}
		return a1 + " " + a2
	case "o.ring":
		if len(tok) != 6 {
			return "bad-op"
		}
		rf, err := strconv.Atoi(tok[2])
		eps, ok1 := parseEps(tok[3])
		series, ok2 := parseSeries(tok[5])
		if err != nil || !ok1 || !ok2 {
			return "bad-op"
		}
		perm, ok := parsePerm(tok[4], len(eps))
		if !ok {
			return "bad-op"
		}
		mk := func(l []epSpec) (receive.Hashring, error) {
			return receive.NewMultiHashring(receive.HashringAlgorithm(tok[1]), uint64(rf), []receive.HashringConfig{{Endpoints: endpointsOf(l)}}, prometheus.NewRegistry())
		}
		h1, err := mk(eps)
		if err != nil {
			c := classifyBuildErr(err)
			v.Count("o.ring:" + strings.SplitN(c, ":", 2)[0])
			return c
		}
		h2, err := mk(permuteEps(eps, perm))
		if err != nil {
			v.Violation("order-dependent", "the permuted endpoint list is rejected: "+err.Error())
			return "ok"
		}
		r1 := rowsOf(h1, eps, series, rf)
		r2 := rowsOf(h2, eps, series, rf)
		if showRows(r1) != showRows(r2) {
			v.Violation("order-dependent", fmt.Sprintf("NewMultiHashring(%s): endpoint order %v changes the answers", tok[1], perm))
		}
		if tok[1] == "ketama" {
			checkRows(v, eps, rf, r1)
		} else {
			addrs := make([]string, len(eps))
			for i, e := range eps {
				addrs[i] = e.addr
			}
			checkSimpleRows(v, addrs, series, rf, r1)
		}
		v.Count("o.ring:ok:" + tok[1])
		return "ok"
	case "o.hash":
		if len(tok) != 3 {
			return "bad-op"
		}
		ss, ok := parseSeries(tok[1] + ":" + tok[2] + ":0")
		if !ok || len(ss) != 1 {
			return "bad-op"
		}
		s := ss[0]
		b := []byte(s.tenant)
		b = append(b, 0xff)
		for _, l := range s.labels {
			b = append(b, l.Name...)
			b = append(b, 0xff)
			b = append(b, l.Value...)
			b = append(b, 0xff)
		}
		want := xxhash.Sum64(b)
		got := labelpb.HashWithPrefix(s.tenant, s.labels)
		if len(b) >= 1024 {
			v.Count("o.hash:streaming-branch")
		} else {
			v.Count("o.hash:fast-branch")
		}
		if got != want {
			v.Violation("hash-not-function-of-input", fmt.Sprintf("HashWithPrefix = %d, xxhash of tenant/labels bytes = %d (%d bytes)", got, want, len(b)))
		}
		return strconv.FormatUint(got, 10)
	}
	return "bad-op"
}

func showPerm(p []int) string {
	ss := make([]string, len(p))
	for i, x := range p {
		ss[i] = strconv.Itoa(x)
	}
	return hlib.Join(ss, ".")
}

func pickLayout(r *hlib.Rand, ls []layout, maxN int) layout {
	for {
		l := ls[r.Intn(len(ls))]
		if l.total() <= maxN {
			return l
		}
	}
}

func genC18(c *hlib.Ctx) {
	r := c.R
	ls := allLayouts(12, 4)
	// ketama, table + GetN compared with the model
	for i := 0; i < c.N(300, 6000) && !gaveUp(); i++ {
		l := pickLayout(r, ls, 12)
		n := l.total()
		rf := r.Range(1, min(5, n))
		if r.Chance(1, 12) {
			rf = r.Range(1, n+1) // beyond the quantifier: large rf, too few endpoints
		}
		spn := []int{1, 2, 3, 5, 8}[r.Intn(5)]
		mode := "t"
		if r.Chance(1, 60) {
			spn, mode = 1000, "d" // production section count, digest of the table
			c.Count("ket-gen:spn1000")
		}
		eps := materialise(r, l, spn)
		nq := rf
		if r.Chance(1, 15) {
			nq = rf + r.Range(1, 2) // GetN beyond rf: insufficient nodes or an index panic
			c.Count("ket-gen:nq>rf")
		}
		c.Count(fmt.Sprintf("ket-gen:zones:%d", len(l)))
		c.Count(fmt.Sprintf("ket-gen:rf:%d", rf))
		if !l.canBalance(rf) || rf > n {
			c.Count("ket-gen:unbuildable")
		}
		c.Do(ketLine(mode, rf, nq, eps, genSeriesList(r, r.Range(1, 20))), true)
	}
	// ketama, large rings: 65..130 endpoints in 2..4 zones, one or two sections per node
	for i := 0; i < c.N(6, 60) && !gaveUp(); i++ {
		l := largeLayout(r, i%2 == 1)
		n := l.total()
		rf := r.Range(1, 6)
		for !l.canBalance(rf) {
			rf--
		}
		eps := materialise(r, l, r.Range(1, 2))
		c.Count("ket-gen:large:zones:" + strconv.Itoa(len(l)))
		if i%3 == 2 {
			c.Do(fmt.Sprintf("ketp %d %d %s %s %s", rf, rf, showEps(eps), showPerm(r.Perm(n)), showSeries(genSeriesList(r, 20))), true)
		} else {
			c.Do(ketLine("t", rf, rf, eps, genSeriesList(r, 20)), true)
		}
	}
	// ketama, two orders of the endpoint list
	for i := 0; i < c.N(150, 3000) && !gaveUp(); i++ {
		l := pickLayout(r, ls, 12)
		n := l.total()
		rf := r.Range(1, min(5, n))
		for !l.canBalance(rf) {
			rf--
		}
		eps := materialise(r, l, []int{1, 2, 3, 5}[r.Intn(4)])
		c.Count(fmt.Sprintf("ketp-gen:zones:%d", len(l)))
		c.Do(fmt.Sprintf("ketp %d %d %s %s %s", rf, rf, showEps(eps), showPerm(r.Perm(n)), showSeries(genSeriesList(r, r.Range(1, 20)))), true)
	}
	// hashmod
	for i := 0; i < c.N(250, 5000) && !gaveUp(); i++ {
		n := r.Range(1, 12)
		style := r.Intn(addrStyles)
		addrs := make([]string, n)
		for k := range addrs {
			addrs[k] = hlib.HexS(genAddr(r, style, k))
		}
		if r.Chance(1, 10) && n > 1 {
			addrs[r.Intn(n)] = addrs[r.Intn(n)] // duplicate address
			c.Count("mod-gen:duplicate-address")
		}
		p := r.Perm(n)
		sh := make([]string, n)
		for k, j := range r.Perm(n) {
			sh[k] = addrs[j]
		}
		nq := r.Range(1, min(5, n))
		if r.Chance(1, 10) {
			nq = n + 1
		}
		series := showSeries(genSeriesList(r, r.Range(1, 20)))
		if r.Bool() {
			c.Do(fmt.Sprintf("mod %d %s %s", nq, strings.Join(sh, ","), series), true)
		} else {
			c.Do(fmt.Sprintf("modp %d %s %s %s", nq, strings.Join(sh, ","), showPerm(p), series), true)
		}
	}
	// the exported constructor with the production section count, two orders
	for i := 0; i < c.N(40, 400) && !gaveUp(); i++ {
		algo := "ketama"
		l := pickLayout(r, ls, 12)
		if r.Chance(1, 4) {
			algo = "hashmod"
			l = layout{r.Range(1, 12)}
		}
		n := l.total()
		rf := r.Range(1, min(5, n))
		eps := materialise(r, l, 0)
		if algo == "hashmod" {
			for k := range eps {
				eps[k].az = ""
			}
		}
		c.Count("o.ring-gen:" + algo)
		c.Do(fmt.Sprintf("o.ring %s %d %s %s %s", algo, rf, showEps(eps), showPerm(r.Perm(n)), showSeries(genSeriesList(r, 10))), true)
	}
	// the series hash is a function of tenant and labels (both branches of HashWithPrefix)
	for i := 0; i < c.N(60, 600) && !gaveUp(); i++ {
		s := genSeries(r)
		if r.Chance(1, 3) {
			s.labels = append(s.labels, labelpb.ZLabel{Name: "zz", Value: strings.Repeat("x", r.Range(900, 1100))})
		}
		line := showSeries([]seriesSpec{s})
		p := strings.Split(line, ":")
		c.Do("o.hash "+p[0]+" "+p[1], true)
	}
}
