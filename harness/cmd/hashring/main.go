// Family binary "hashring": C18 C19 C20 C21 C27.
//
// Every Exec of this family runs in a child process ("worker" mode of the same binary) with a
// deadline per op, because ring construction is hang-prone (F19: the replica loop of
// calculateSectionReplicas spins forever on zone layouts that cannot be balanced).  A missed
// deadline kills the worker, answers "hang" and is reported as oracle violation class "hang".
package main

import (
	"fmt"
	"os"
	"strconv"
	"strings"

	"github.com/thanos-io/thanos/pkg/store/labelpb"

	"github.com/thanos-io/thanos/verifharness/hlib"
)

var props []*hlib.Prop

func main() {
	if len(os.Args) >= 2 && os.Args[1] == "worker" {
		workerMain()
		return
	}
	if len(os.Args) >= 2 && os.Args[1] == "mk" {
		mkMain(os.Args[2:])
		return
	}
	hlib.Main(props)
	stopWorker()
}

// mk ket <mode> <rf> <nq> <spn> <addr>@<az>,... [tenant/name=value/...]...   prints a ket op line
// (helper for writing corpus files by hand; hashes are computed as the generators do)
func mkMain(a []string) {
	if len(a) >= 8 && a[0] == "shard" {
		// mk shard <za> <rf> <cap> <spn> <addr>@<az>,... <dflt> <ovs> tenant...
		spn, _ := strconv.Atoi(a[4])
		var eps []epSpec
		for _, t := range strings.Split(a[5], ",") {
			p := strings.SplitN(t, "@", 2)
			az := ""
			if len(p) == 2 {
				az = p[1]
			}
			eps = append(eps, epSpec{addr: p[0], az: az, hashes: sectionHashes(p[0], spn)})
		}
		ovs, ok := parseShardOvs(a[7])
		if !ok {
			fmt.Fprintln(os.Stderr, "bad overrides")
			os.Exit(2)
		}
		reqs := make([]string, 0, len(a)-8)
		for _, t := range a[8:] {
			reqs = append(reqs, shardReqToken(a[1] == "1", eps, ovs, t))
		}
		fmt.Printf("shard %s %s %s %s %s %s %s\n", a[1], a[2], a[3], showEps(eps), a[6], showShardOvs(ovs), strings.Join(reqs, ";"))
		return
	}
	if len(a) < 6 || a[0] != "ket" {
		fmt.Fprintln(os.Stderr, "usage: mk ket <mode> <rf> <nq> <spn> <addr>@<az>,... [tenant/name=value/...]...")
		os.Exit(2)
	}
	rf, _ := strconv.Atoi(a[2])
	nq, _ := strconv.Atoi(a[3])
	spn, _ := strconv.Atoi(a[4])
	var eps []epSpec
	for _, t := range strings.Split(a[5], ",") {
		p := strings.SplitN(t, "@", 2)
		az := ""
		if len(p) == 2 {
			az = p[1]
		}
		eps = append(eps, epSpec{addr: p[0], az: az, hashes: sectionHashes(p[0], spn)})
	}
	var series []seriesSpec
	for _, t := range a[6:] {
		p := strings.Split(t, "/")
		s := seriesSpec{tenant: p[0]}
		for _, l := range p[1:] {
			nv := strings.SplitN(l, "=", 2)
			s.labels = append(s.labels, labelpb.ZLabel{Name: nv[0], Value: nv[1]})
		}
		s.v = labelpbHash(s)
		series = append(series, s)
	}
	fmt.Println(ketLine(a[1], rf, nq, eps, series))
}
