// Family binary "hashring": C18 C19 C20 C21 C27.
package main

import "github.com/thanos-io/thanos/verifharness/hlib"

var props []*hlib.Prop

func main() { hlib.Main(props) }
