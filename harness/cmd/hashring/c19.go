package main

import (
	"encoding/json"
	"fmt"
	"sort"
	"strconv"
	"strings"

	"github.com/prometheus/client_golang/prometheus"
	"github.com/thanos-io/thanos/pkg/receive"
	"github.com/thanos-io/thanos/verifharness/hlib"
)

// C19 — building a hashring from any configuration terminates.
//
// ops (all executed in the worker process with a deadline; a missed deadline is answered
// "hang" and reported by the parent as violation class "hang"):
//
//   ket t <rf> <nq> <eps> <series>     the shared ketama op (ket.go); compared with the model
//   o.reload <rf> <configA hex> <configB hex> <tenants>   oracle-only: a hashring file update that changes the
//                                      overrides / the default shard size / a node / nothing, through the loader;
//                                      every sub-ring the reloaded hashring hands out equals the one of the new
//                                      configuration loaded on its own (stale-after-reload)
//   o.load2 <algo> <rf> <confighex>    oracle-only: o.load, then the same configuration again with the same
//                                      registerer (the sequence of a hashring file update)
//   o.load <algo> <rf> <confighex>     oracle-only: receive.ParseConfig + receive.NewMultiHashring
//                                      on a JSON configuration (SectionsPerNode = 1000, shuffle
//                                      sharding, several hashrings) -> ok:<nodes> | <error class>
//
// oracle (independent of the model):
//   * the call returns (parent deadline) and does not panic;
//   * a returned ring is usable: every section has exactly rf pairwise distinct replicas inside
//     the endpoint list, GetN(n < rf) answers without error;
//   * the outcome is the one predicted from the zone sizes alone: toofew iff rf > #endpoints,
//     otherwise ok iff layout.canBalance(rf) (classes balanceable-rejected / unbalanceable-accepted);
//   * o.load2: after the second load and the Close of the first hashring the cache metrics of every
//     shuffle sharded hashring are still registered (metrics-lost-after-reload), and none is left when
//     both are closed (metrics-leaked).

func init() { register("C19", genC19, execC19) }

func zoneSizes(eps []epSpec) layout {
	m := map[string]int{}
	var order []string
	for _, e := range eps {
		if _, ok := m[e.az]; !ok {
			order = append(order, e.az)
		}
		m[e.az]++
	}
	var l layout
	for _, z := range order {
		l = append(l, m[z])
	}
	return l
}

func checkUsable(v *vctx, k *ketRun) {
	n := len(k.eps)
	for i, s := range k.secs {
		if len(s.Replicas) != k.rf {
			v.Violation("replica-count", fmt.Sprintf("section %d has %d replicas, rf %d", i, len(s.Replicas), k.rf))
			return
		}
		seen := map[uint64]bool{}
		for _, r := range s.Replicas {
			if int(r) >= n {
				v.Violation("replica-range", fmt.Sprintf("section %d: replica index %d outside %d endpoints", i, r, n))
				return
			}
			if seen[r] {
				v.Violation("replica-duplicate", fmt.Sprintf("section %d: endpoint %d chosen twice: %v", i, r, s.Replicas))
				return
			}
			seen[r] = true
		}
	}
	for i, row := range k.gets {
		for q, g := range row {
			if q < k.rf && (g == "P" || g == "E" || g == "I" || g == "?") {
				v.Violation("getn-unusable", fmt.Sprintf("series %d: GetN(%d) answered %s on a ring built with rf %d", i, q, g, k.rf))
				return
			}
		}
	}
}

func execC19(v *vctx, tok []string) string {
	if len(tok) == 0 {
		return "bad-op"
	}
	switch tok[0] {
	case "ket":
		k := runKet(v, tok)
		if k.status == "bad-op" {
			return k.answer
		}
		l := zoneSizes(k.eps)
		n := len(k.eps)
		v.Count("outcome:" + strings.SplitN(k.status, ":", 2)[0])
		switch {
		case k.status == "ok":
			checkUsable(v, k)
			if k.rf > n {
				v.Violation("toofew-accepted", fmt.Sprintf("rf %d > %d endpoints accepted", k.rf, n))
			} else if !l.canBalance(k.rf) {
				v.Violation("unbalanceable-accepted", fmt.Sprintf("zones %v rf %d: a ring was built although the zones cannot be balanced", l, k.rf))
			}
		case k.status == "toofew":
			if k.rf <= n {
				v.Violation("toofew-wrong", fmt.Sprintf("rf %d ≤ %d endpoints rejected as too few", k.rf, n))
			}
		case k.status == "stuck":
			if k.rf <= n && l.canBalance(k.rf) {
				v.Violation("balanceable-rejected", fmt.Sprintf("zones %v rf %d can be balanced but construction reported an error", l, k.rf))
			}
		case k.status == "tie" || k.status == "hash-mismatch":
		default:
			v.Violation("unexpected-error", "ring construction failed with "+k.status)
		}
		return k.answer
	case "o.reload":
		// o.reload <rf> <configA hex> <configB hex> <tenants `,` hex>: a hashring file update through the
		// exported loader — A loaded and asked, B loaded with the same registerer while A is in use and asked,
		// A closed, B asked again; every shuffle shard sub-ring B hands out must be the one B loaded on its own
		// (fresh registerer) hands out.
		if len(tok) != 5 {
			return "bad-op"
		}
		rf, err := strconv.Atoi(tok[1])
		rawA, err1 := hlib.UnHex(tok[2])
		rawB, err2 := hlib.UnHex(tok[3])
		if err != nil || err1 != nil || err2 != nil {
			return "bad-op"
		}
		var tenants []string
		for _, t := range hlib.Split(tok[4], ",") {
			b, err := hlib.UnHex(t)
			if err != nil {
				return "bad-op"
			}
			tenants = append(tenants, string(b))
		}
		cfgA, errA := receive.ParseConfig(rawA)
		cfgB, errB := receive.ParseConfig(rawB)
		if errA != nil || errB != nil {
			return "parse-error"
		}
		shards := func(h receive.Hashring, t string) string {
			var out []string
			for _, sub := range receive.VerifMultiParts(h) {
				ss, ok := receive.VerifAsShuffleShard(sub)
				if !ok {
					continue
				}
				k, err := ss.TenantShardCached(t)
				if err != nil {
					out = append(out, strings.SplitN(classifyBuildErr(err), ":", 2)[0])
					continue
				}
				es, _ := receive.VerifKetamaSections(k)
				as := make([]string, len(es))
				for i, e := range es {
					as[i] = e.Address
				}
				sort.Strings(as)
				out = append(out, strings.Join(as, ","))
			}
			return strings.Join(out, "|")
		}
		reg := prometheus.NewRegistry()
		load := func(cfg []receive.HashringConfig, reg prometheus.Registerer) (h receive.Hashring, class string) {
			defer func() {
				if r := recover(); r != nil {
					h, class = nil, "panic:"+fmt.Sprint(r)
				}
			}()
			h, err := receive.NewMultiHashring(receive.AlgorithmKetama, uint64(rf), cfg, reg)
			if err != nil {
				return nil, classifyBuildErr(err)
			}
			return h, "ok"
		}
		hA, cl := load(cfgA, reg)
		if hA == nil {
			v.Count("reload:first-load:" + strings.SplitN(cl, ":", 2)[0])
			return "first:" + strings.SplitN(cl, ":", 2)[0]
		}
		for _, t := range tenants {
			shards(hA, t)
		}
		hB, cl := load(cfgB, reg)
		if hB == nil {
			hA.Close()
			if strings.HasPrefix(cl, "panic") {
				v.Violation("load-panic", "the second NewMultiHashring of a configuration update panics: "+cl)
				return "reload-panic"
			}
			v.Count("reload:second-load:" + strings.SplitN(cl, ":", 2)[0])
			return "second:" + strings.SplitN(cl, ":", 2)[0]
		}
		fresh, _ := load(cfgB, prometheus.NewRegistry())
		check := func(when string) {
			if fresh == nil {
				return
			}
			for _, t := range tenants {
				if got, want := shards(hB, t), shards(fresh, t); got != want {
					v.Violation("stale-after-reload", fmt.Sprintf("tenant %q %s: the reloaded hashring hands out %s, the new configuration loaded on its own %s", t, when, got, want))
					return
				}
			}
		}
		check("while the old hashring is in use")
		hA.Close()
		check("after the old hashring was closed")
		hB.Close()
		if fresh != nil {
			fresh.Close()
		}
		if got := shardMetricNames(reg); len(got) != 0 {
			v.Violation("metrics-leaked", fmt.Sprintf("everything closed, shuffle shard metrics still registered for %v", got))
		}
		v.Count("reload:history-ok")
		return "ok"
	case "o.load", "o.load2":
		if len(tok) != 4 {
			return "bad-op"
		}
		rf, err := strconv.Atoi(tok[2])
		raw, err2 := hlib.UnHex(tok[3])
		if err != nil || err2 != nil || rf < 0 {
			return "bad-op"
		}
		cfg, err := receive.ParseConfig(raw)
		if err != nil {
			v.Count("load:parse-error")
			return "parse-error"
		}
		// shuffle sharded hashrings, and whether two of them share a name
		sharded, sameName := 0, false
		names := map[string]bool{}
		for _, c := range cfg {
			algo := tok[1]
			if c.Algorithm != "" {
				algo = string(c.Algorithm)
			}
			if c.ShuffleShardingConfig.ShardSize > 0 && algo == "ketama" {
				sharded++
				if names[c.Hashring] {
					sameName = true
				}
				names[c.Hashring] = true
			}
		}
		reg := prometheus.NewRegistry()
		load := func() (h receive.Hashring, class string, pmsg string) {
			defer func() {
				if r := recover(); r != nil {
					h, class, pmsg = nil, "panic", fmt.Sprint(r)
				}
			}()
			h, err := receive.NewMultiHashring(receive.HashringAlgorithm(tok[1]), uint64(rf), cfg, reg)
			if err != nil {
				return nil, classifyBuildErr(err), ""
			}
			return h, "ok", ""
		}
		h, class, pmsg := load()
		if class == "panic" {
			v.Count("load:panic")
			if strings.Contains(pmsg, "duplicate metrics collector registration") && sameName {
				v.Violation("load-panic-duplicate-metrics", "NewMultiHashring panics (duplicate metrics collector registration): two shuffle sharded hashrings of the configuration have the same (or no) name")
			} else {
				v.Violation("load-panic", "NewMultiHashring panics: "+pmsg)
			}
			return "panic"
		}
		if class != "ok" {
			v.Count("load:" + strings.SplitN(class, ":", 2)[0])
			return class
		}
		v.Count("load:ok")
		// usable: every tenant-less lookup on the returned ring answers (error or endpoint) for n < rf
		for i := 0; i < 3; i++ {
			s := seriesSpec{tenant: fmt.Sprintf("t%d", i)}
			for n := 0; n < rf; n++ {
				if _, err := h.GetN(s.tenant, s.ts(), uint64(n)); err != nil {
					v.Count("load:getn-error")
				}
			}
		}
		if tok[0] == "o.load2" {
			// a configuration update: cmd/thanos/receive.go builds the new hashring with the same
			// registerer while the old one is still in use, and closes the old one afterwards
			h2, class2, pmsg2 := load()
			if class2 == "panic" {
				v.Count("reload:panic")
				if strings.Contains(pmsg2, "duplicate metrics collector registration") && sharded > 0 {
					v.Violation("reload-panic-duplicate-metrics", "loading a configuration with a shuffle sharded hashring a second time with the same registerer (what every hashring file update does) panics: duplicate metrics collector registration")
				} else {
					v.Violation("load-panic", "second NewMultiHashring panics: "+pmsg2)
				}
				h.Close()
				return "reload-panic"
			}
			v.Count("reload:" + strings.SplitN(class2, ":", 2)[0])
			// Handler.Hashring closes the old hashring once the new one is installed: the metrics of
			// the shuffle sharded hashrings must survive that, and disappear when everything is closed
			h.Close()
			if h2 != nil {
				if got := shardMetricNames(reg); len(got) != len(names) {
					v.Violation("metrics-lost-after-reload", fmt.Sprintf("after the update and closing the old hashring the registry has shuffle shard metrics for %v, the configuration has %d shuffle sharded hashring name(s)", got, len(names)))
				}
				h2.Close()
			}
			if got := shardMetricNames(reg); len(got) != 0 {
				v.Violation("metrics-leaked", fmt.Sprintf("everything closed, shuffle shard metrics still registered for %v", got))
			}
			return fmt.Sprintf("ok:%d", len(h.Nodes()))
		}
		defer h.Close()
		return fmt.Sprintf("ok:%d", len(h.Nodes()))
	}
	return "bad-op"
}

// shardMetricNames lists the hashring label values for which shuffle shard cache metrics are registered.
func shardMetricNames(reg *prometheus.Registry) []string {
	mfs, err := reg.Gather()
	if err != nil {
		return []string{"gather-error:" + err.Error()}
	}
	seen := map[string]bool{}
	for _, mf := range mfs {
		if mf.GetName() != "thanos_shuffle_shard_cache_max_items" {
			continue
		}
		for _, m := range mf.Metric {
			for _, l := range m.Label {
				if l.GetName() == "hashring" {
					seen[l.GetValue()] = true
				}
			}
		}
	}
	return hlib.SortedKeys(seen)
}

type cfgEndpoint struct {
	Address string `json:"address"`
	AZ      string `json:"az,omitempty"`
}

type cfgOverride struct {
	ShardSize int      `json:"shard_size"`
	Tenants   []string `json:"tenants"`
	Matcher   string   `json:"tenant_matcher_type,omitempty"`
}

type cfgShard struct {
	ShardSize             int           `json:"shard_size"`
	CacheSize             int           `json:"cache_size,omitempty"`
	ZoneAwarenessDisabled bool          `json:"zone_awareness_disabled,omitempty"`
	Overrides             []cfgOverride `json:"overrides,omitempty"`
}

type cfgRing struct {
	Hashring  string        `json:"hashring,omitempty"`
	Tenants   []string      `json:"tenants,omitempty"`
	Matcher   string        `json:"tenant_matcher_type,omitempty"`
	Endpoints []cfgEndpoint `json:"endpoints"`
	Algorithm string        `json:"algorithm,omitempty"`
	Shard     *cfgShard     `json:"shuffle_sharding_config,omitempty"`
}

func ketLine(mode string, rf, nq int, eps []epSpec, series []seriesSpec) string {
	return fmt.Sprintf("ket %s %d %d %s %s", mode, rf, nq, showEps(eps), showSeries(series))
}

func genC19(c *hlib.Ctx) {
	r := c.R
	// 1. every zone layout with ≤ 12 endpoints in ≤ 4 zones (≤ 6 zones in the thorough tier),
	//    every rf in 1..n+1; fresh addresses and section counts per round
	maxZ := c.N(4, 6)
	rounds := c.N(1, 6)
	ls := allLayouts(12, maxZ)
	for round := 0; round < rounds; round++ {
		for _, l := range ls {
			n := l.total()
			for rf := 1; rf <= n+1 && !gaveUp(); rf++ {
				spn := []int{1, 2, 3, 5}[r.Intn(4)]
				eps := materialise(r, l, spn)
				var series []seriesSpec
				nq := 0
				if r.Chance(1, 3) {
					series = genSeriesList(r, 2)
					nq = rf
				}
				c.Count(fmt.Sprintf("zones:%d", len(l)))
				c.Count(fmt.Sprintf("endpoints:%02d", n))
				if rf > n {
					c.Count("expect:toofew")
				} else if l.canBalance(rf) {
					c.Count("expect:ok")
				} else {
					c.Count("expect:unbalanceable")
				}
				c.Do(ketLine("t", rf, nq, eps, series), true)
			}
		}
	}
	// 1b. large rings: 65..130 endpoints in 2..4 zones, one section per node, rf up to 8
	for i := 0; i < c.N(8, 80) && !gaveUp(); i++ {
		l := largeLayout(r, i%2 == 1)
		eps := materialise(r, l, 1)
		rf := r.Range(1, 8)
		if r.Chance(1, 6) {
			rf = l.total() + r.Range(-1, 1) // around the endpoint count: too few / unbalanceable
		}
		c.Count("large:zones:" + strconv.Itoa(len(l)))
		if rf <= l.total() && !l.canBalance(rf) {
			c.Count("large:expect:unbalanceable")
		}
		nq := 0
		var series []seriesSpec
		if rf <= 8 {
			nq, series = rf, genSeriesList(r, 3)
		}
		c.Do(ketLine("t", rf, nq, eps, series), true)
	}
	// 2. the same through the exported API with the production section count (1000 per node)
	nload := c.N(60, 600)
	for i := 0; i < nload && !gaveUp(); i++ {
		nr := r.Range(1, 3)
		var cfg []cfgRing
		minN := 99
		for j := 0; j < nr; j++ {
			l := ls[r.Intn(len(ls))]
			for l.total() > 8 {
				l = ls[r.Intn(len(ls))]
			}
			eps := materialise(r, l, 0)
			cr := cfgRing{Hashring: fmt.Sprintf("ring%d", j)}
			for _, e := range eps {
				cr.Endpoints = append(cr.Endpoints, cfgEndpoint{Address: e.addr + fmt.Sprintf("-%d", j), AZ: e.az})
			}
			if j+1 < nr {
				cr.Tenants = []string{fmt.Sprintf("t%d", j)}
			}
			if r.Chance(1, 4) {
				cr.Shard = &cfgShard{ShardSize: r.Range(1, l.total()), ZoneAwarenessDisabled: r.Bool()}
				c.Count("load-gen:shuffle-shard")
			}
			if l.total() < minN {
				minN = l.total()
			}
			cfg = append(cfg, cr)
		}
		algo := "ketama"
		if r.Chance(1, 6) {
			algo = "hashmod"
		}
		rf := r.Range(1, minN+1)
		b, _ := json.Marshal(cfg)
		c.Count("load-gen:" + algo)
		c.Do(fmt.Sprintf("o.load %s %d %s", algo, rf, hlib.Hex(b)), true)
	}
	// 2b. configuration updates: the same configuration loaded twice with one registerer
	for i := 0; i < c.N(30, 300) && !gaveUp(); i++ {
		l := ls[r.Intn(len(ls))]
		for l.total() > 6 {
			l = ls[r.Intn(len(ls))]
		}
		eps := materialise(r, l, 0)
		cr := cfgRing{Hashring: r.Pick([]string{"", "default", "h1"})}
		for _, e := range eps {
			cr.Endpoints = append(cr.Endpoints, cfgEndpoint{Address: e.addr, AZ: e.az})
		}
		if r.Chance(1, 2) {
			cr.Shard = &cfgShard{ShardSize: r.Range(1, l.total()), ZoneAwarenessDisabled: r.Bool()}
			c.Count("reload-gen:shuffle-shard")
		}
		cfg := []cfgRing{cr}
		if r.Chance(1, 3) { // a second hashring, sometimes with the same name
			cr2 := cr
			cr2.Tenants = []string{"t"}
			if r.Bool() {
				cr2.Hashring = cr.Hashring + "-2"
			}
			cfg = []cfgRing{cr2, cr}
			c.Count("reload-gen:two-rings")
		}
		b, _ := json.Marshal(cfg)
		op := "o.load2"
		if r.Chance(1, 3) {
			op = "o.load"
		}
		c.Do(fmt.Sprintf("%s ketama 1 %s", op, hlib.Hex(b)), true)
	}
	// 2c. configuration updates that change something: overrides only / default shard size / a node / nothing
	for i := 0; i < c.N(25, 250) && !gaveUp(); i++ {
		l := ls[r.Intn(len(ls))]
		for l.total() > 6 || l.total() < 2 {
			l = ls[r.Intn(len(ls))]
		}
		eps := materialise(r, l, 0)
		minZone := l.total()
		for _, x := range l {
			if x < minZone {
				minZone = x
			}
		}
		crA := cfgRing{Hashring: r.Pick([]string{"", "default"})}
		for _, e := range eps {
			crA.Endpoints = append(crA.Endpoints, cfgEndpoint{Address: e.addr, AZ: e.az})
		}
		maxS := minZone * len(l)
		crA.Shard = &cfgShard{ShardSize: r.Range(1, maxS), CacheSize: []int{0, 1, 2, 50}[r.Intn(4)]}
		tenants := []string{"tenant-1", "big-tenant", "special", "a"}
		if r.Bool() {
			crA.Shard.Overrides = append(crA.Shard.Overrides, cfgOverride{ShardSize: r.Range(1, maxS), Tenants: []string{r.Pick(tenants)}, Matcher: r.Pick([]string{"exact", ""})})
		}
		crB := crA
		shB := *crA.Shard
		shB.Overrides = append([]cfgOverride(nil), crA.Shard.Overrides...)
		crB.Shard = &shB
		kind := r.Pick([]string{"overrides", "overrides", "default", "nodes", "none"})
		switch kind {
		case "overrides":
			if len(shB.Overrides) > 0 && r.Bool() {
				shB.Overrides = nil
			} else {
				shB.Overrides = append([]cfgOverride{{ShardSize: r.Range(1, maxS), Tenants: []string{r.Pick([]string{"big-*", "tenant-?", "*"})}, Matcher: "glob"}}, shB.Overrides...)
			}
		case "default":
			shB.ShardSize = 1 + shB.ShardSize%maxS
		case "nodes":
			crB.Endpoints = append([]cfgEndpoint(nil), crA.Endpoints...)
			crB.Endpoints[r.Intn(len(crB.Endpoints))].Address = fmt.Sprintf("replacement-%d:10901", r.Intn(1000))
		}
		ba, _ := json.Marshal([]cfgRing{crA})
		bb, _ := json.Marshal([]cfgRing{crB})
		ts := make([]string, len(tenants))
		for k, t := range tenants {
			ts[k] = hlib.HexS(t)
		}
		c.Count("reload-gen:update:" + kind)
		c.Do(fmt.Sprintf("o.reload 1 %s %s %s", hlib.Hex(ba), hlib.Hex(bb), strings.Join(ts, ",")), true)
	}
	// 3. malformed stream: duplicate addresses (hash ties), rf 0, no endpoints, junk JSON
	for i := 0; i < c.N(20, 200) && !gaveUp(); i++ {
		var cfg []cfgRing
		cr := cfgRing{}
		n := r.Range(0, 5)
		for k := 0; k < n; k++ {
			cr.Endpoints = append(cr.Endpoints, cfgEndpoint{Address: fmt.Sprintf("dup-%d", r.Intn(3)), AZ: r.Pick([]string{"", "a", "b"})})
		}
		cfg = append(cfg, cr)
		b, _ := json.Marshal(cfg)
		if r.Chance(1, 5) && len(b) > 2 {
			b = b[:r.Intn(len(b))]
		}
		c.Count("load-gen:malformed")
		c.Do(fmt.Sprintf("o.load ketama %d %s", r.Range(0, n+1), hlib.Hex(b)), true)
	}
}
