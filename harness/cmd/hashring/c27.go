package main

import (
	"fmt"
	"path/filepath"
	"sort"
	"strconv"
	"strings"
	"sync"

	"github.com/prometheus/client_golang/prometheus"
	"github.com/thanos-io/thanos/pkg/receive"
	"github.com/thanos-io/thanos/verifharness/hlib"
)

// C27 — tenants are routed to the hashring their configuration selects.
//
// ops (grammar: lean/Thanos/Driver/Hashring.lean)
//   route  <cfgs> <reqs>    one real receive.NewMultiHashring; every configuration is a hashmod ring of 1..3
//                           nodes whose addresses identify the hashring; the requests (tenant, replica index
//                           n in 0..3) are made in order on that instance (cache in play)
//                           -> `;`-list of ring index | <i>!<size> (the "insufficient nodes" error of hashring
//                              i, i = the ring the multi hashring holds for the tenant) | none | err
//   routem <cfgs> <req>     malformed-pattern stream: one request on 300 fresh instances, the
//                           set of outcomes -> i | none | err | i?err
//
// The glob tables in the op line are filepath.Match results computed by the generator; Exec
// recomputes them and rejects a line that disagrees (class harness-glob-input).
//
// oracle (independent of the model), for lines without malformed patterns:
//   * every answer is the first configuration, in order, that has no tenant list, or lists the
//     tenant (type exact / empty), or has a glob pattern matching it (type glob)   (wrong-ring)
//   * an out-of-range replica index gets the error of that configuration's hashring, never a node of a
//     later accepting hashring (error-falls-through), and the cache holds the selected hashring (cache-wrong)
//   * repeating a request gives the same ring                                       (unstable)
//   * 8 goroutines doing all requests concurrently on a fresh instance get, for every request,
//     the sequential answer                                                          (concurrent-differs)
//   * after the run the cache holds, for every routed tenant, the ring that was answered (cache-wrong)

func init() { register("C27", genC27, execC27) }

type routeCfg struct {
	typ     string // e x g o
	tenants []string
	size    int // nodes of the (hashmod) sub-hashring, 1..3
}

func (c routeCfg) matcher() string {
	switch c.typ {
	case "e":
		return "exact"
	case "x":
		return ""
	case "g":
		return "glob"
	}
	return "regex"
}

func parseRouteCfgs(s string) ([]routeCfg, bool) {
	var out []routeCfg
	for _, t := range hlib.Split(s, "|") {
		p := strings.Split(t, ":")
		if (len(p) != 2 && len(p) != 3) || !strings.Contains("exgo", p[0]) || len(p[0]) != 1 {
			return nil, false
		}
		c := routeCfg{typ: p[0], size: 1}
		if len(p) == 3 {
			n, err := strconv.Atoi(p[2])
			if err != nil || n < 1 || n > 9 {
				return nil, false
			}
			c.size = n
		}
		if p[1] == "~" { // no tenant list
			out = append(out, c)
			continue
		}
		for _, h := range strings.Split(p[1], ",") {
			b, err := hlib.UnHex(h)
			if err != nil {
				return nil, false
			}
			c.tenants = append(c.tenants, string(b))
		}
		out = append(out, c)
	}
	return out, true
}

func showRouteCfgs(cs []routeCfg) string {
	ss := make([]string, len(cs))
	for i, c := range cs {
		ts := make([]string, len(c.tenants))
		for j, t := range c.tenants {
			ts[j] = hlib.HexS(t)
		}
		if len(ts) == 0 {
			ss[i] = c.typ + ":~"
		} else {
			ss[i] = c.typ + ":" + strings.Join(ts, ",")
		}
		if c.size > 1 {
			ss[i] += ":" + strconv.Itoa(c.size)
		}
	}
	return hlib.Join(ss, "|")
}

// globTable is filepath.Match of every pattern of every configuration against the tenant.
func globTable(cs []routeCfg, tenant string) (string, bool) {
	bad := false
	tabs := make([]string, len(cs))
	for i, c := range cs {
		var b strings.Builder
		for _, p := range c.tenants {
			m, err := filepath.Match(p, tenant)
			switch {
			case err != nil:
				b.WriteByte('b')
				if c.typ == "g" {
					bad = true
				}
			case m:
				b.WriteByte('y')
			default:
				b.WriteByte('n')
			}
		}
		tabs[i] = b.String()
		if tabs[i] == "" {
			tabs[i] = "-"
		}
	}
	return strings.Join(tabs, "/"), bad
}

type routeReq struct {
	tenant, tab string
	n           int // replica index
}

func (r routeReq) token() string {
	t := hlib.HexS(r.tenant) + ":" + r.tab
	if r.n > 0 {
		t += ":" + strconv.Itoa(r.n)
	}
	return t
}

func parseReqs(s string) ([]routeReq, bool) {
	var out []routeReq
	for _, t := range hlib.Split(s, ";") {
		p := strings.Split(t, ":")
		if len(p) != 2 && len(p) != 3 {
			return nil, false
		}
		b, err := hlib.UnHex(p[0])
		if err != nil {
			return nil, false
		}
		rq := routeReq{tenant: string(b), tab: p[1]}
		if len(p) == 3 {
			if rq.n, err = strconv.Atoi(p[2]); err != nil || rq.n < 0 {
				return nil, false
			}
		}
		out = append(out, rq)
	}
	return out, true
}

// ringAddr is the single endpoint of hashring i: realistic address forms, several hashrings on
// one host differing in the port only.
func ringAddr(i int) string {
	switch i % 5 {
	case 0:
		return fmt.Sprintf("receive.example.org:%d", 10901+i)
	case 1:
		return fmt.Sprintf("http://receive.example.org:%d", 19291+i)
	case 2:
		return fmt.Sprintf("[fd00::1]:%d", 10901+i)
	case 3:
		return fmt.Sprintf("ring-%d", i)
	}
	return fmt.Sprintf("10.0.0.1:%d", 10901+i)
}

// ringNodeAddr is node k of hashring i (node 0 is ringAddr(i)).
func ringNodeAddr(i, k int) string {
	if k == 0 {
		return ringAddr(i)
	}
	return fmt.Sprintf("%s-node%d", ringAddr(i), k)
}

func newMulti(cs []routeCfg) (receive.Hashring, error) {
	cfg := make([]receive.HashringConfig, len(cs))
	for i, c := range cs {
		eps := make([]receive.Endpoint, max(c.size, 1))
		for k := range eps {
			eps[k] = receive.Endpoint{Address: ringNodeAddr(i, k)}
		}
		cfg[i] = receive.HashringConfig{
			Hashring:          fmt.Sprintf("ring-%d", i),
			Tenants:           c.tenants,
			TenantMatcherType: receive.VerifTenantMatcher(c.matcher()),
			Endpoints:         eps,
		}
	}
	return receive.NewMultiHashring(receive.AlgorithmHashmod, 1, cfg, prometheus.NewRegistry())
}

func askRoute(h receive.Hashring, tenant string) string { return askRouteN(h, tenant, 0) }

// askRouteN asks for replica n.  A node answers with the index of its hashring; the "insufficient
// nodes" error of a sub-hashring is answered <cached ring>!<have>: the ring the multi hashring has
// stored for the tenant at that moment (hook) and the size the error reports.
func askRouteN(h receive.Hashring, tenant string, n int) string {
	s := seriesSpec{tenant: tenant}
	e, err := h.GetN(tenant, s.ts(), uint64(n))
	if err != nil {
		switch {
		case strings.Contains(err.Error(), "no matching hashring"):
			return "none"
		case strings.Contains(err.Error(), "error matching tenant pattern"):
			return "err"
		case strings.Contains(err.Error(), "insufficient nodes"):
			have := "?"
			if f := strings.Fields(strings.ReplaceAll(err.Error(), ",", " ")); len(f) >= 4 {
				have = f[3]
			}
			c := receive.VerifMultiCached(h, tenant)
			if c < 0 {
				return "uncached!" + have
			}
			return strconv.Itoa(c) + "!" + have
		}
		return "E:" + strings.ReplaceAll(err.Error(), " ", "_")
	}
	for i := 0; i < 16; i++ {
		for k := 0; k < 4; k++ {
			if ringNodeAddr(i, k) == e.Address {
				return strconv.Itoa(i)
			}
		}
	}
	return "?" + e.Address
}

// expectedAnswer is the property restated with replica indices: the first accepting configuration
// answers — with a node, or with its own error when it has no replica n.
func expectedAnswer(cs []routeCfg, tenant string, n int) string {
	w := firstMatch(cs, tenant)
	i, err := strconv.Atoi(w)
	if err != nil {
		return w
	}
	if n >= max(cs[i].size, 1) {
		return fmt.Sprintf("%d!%d", i, max(cs[i].size, 1))
	}
	return w
}

// firstMatch is the property restated: first configuration that accepts the tenant.
func firstMatch(cs []routeCfg, tenant string) string {
	for i, c := range cs {
		if len(c.tenants) == 0 {
			return strconv.Itoa(i)
		}
		switch c.typ {
		case "e", "x":
			for _, t := range c.tenants {
				if t == tenant {
					return strconv.Itoa(i)
				}
			}
		case "g":
			for _, p := range c.tenants {
				if m, err := filepath.Match(p, tenant); err == nil && m {
					return strconv.Itoa(i)
				}
			}
		}
	}
	return "none"
}

func execC27(v *vctx, tok []string) string {
	if len(tok) != 3 || (tok[0] != "route" && tok[0] != "routem") {
		return "bad-op"
	}
	cs, ok1 := parseRouteCfgs(tok[1])
	reqs, ok2 := parseReqs(tok[2])
	if !ok1 || !ok2 {
		return "bad-op"
	}
	anyBad := false
	for _, r := range reqs {
		tab, bad := globTable(cs, r.tenant)
		if tab != r.tab {
			v.Violation("harness-glob-input", fmt.Sprintf("glob table of tenant %q in the op line is %s, filepath.Match says %s", r.tenant, r.tab, tab))
			return "bad-table"
		}
		anyBad = anyBad || bad
	}
	if tok[0] == "routem" {
		if len(reqs) != 1 {
			return "bad-op"
		}
		seen := map[string]bool{}
		for i := 0; i < 300; i++ {
			h, err := newMulti(cs)
			if err != nil {
				return classifyBuildErr(err)
			}
			seen[askRoute(h, reqs[0].tenant)] = true
		}
		var ks []string
		for k := range seen {
			ks = append(ks, k)
		}
		sort.Slice(ks, func(i, j int) bool { // ring index before err
			if (ks[i] == "err") != (ks[j] == "err") {
				return ks[j] == "err"
			}
			return ks[i] < ks[j]
		})
		v.Count("routem:outcomes:" + strconv.Itoa(len(ks)))
		return strings.Join(ks, "?")
	}
	h, err := newMulti(cs)
	if err != nil {
		return classifyBuildErr(err)
	}
	answers := make([]string, len(reqs))
	first := map[string]string{} // tenant -> hashring that answered first (index, none, err)
	ringOf := func(a string) string { return strings.SplitN(a, "!", 2)[0] }
	for i, r := range reqs {
		a := askRouteN(h, r.tenant, r.n)
		answers[i] = a
		if prev, ok := first[r.tenant]; ok {
			v.Count("route:repeated-request")
			if prev != ringOf(a) {
				v.Violation("unstable", fmt.Sprintf("tenant %q: first hashring %s, later %s", r.tenant, prev, a))
			}
		} else {
			first[r.tenant] = ringOf(a)
		}
		if !anyBad {
			want := expectedAnswer(cs, r.tenant, r.n)
			if want != a {
				class := "wrong-ring"
				if strings.Contains(want, "!") && !strings.Contains(a, "!") {
					class = "error-falls-through"
				}
				v.Violation(class, fmt.Sprintf("tenant %q replica %d is answered %s; the first accepting configuration is %s and must answer %s", r.tenant, r.n, a, ringOf(want), want))
			}
			// the hashring stored for the tenant is the selected one, whether or not it could serve n
			if sel := firstMatch(cs, r.tenant); sel != "none" {
				if c := receive.VerifMultiCached(h, r.tenant); strconv.Itoa(c) != sel {
					v.Violation("cache-wrong", fmt.Sprintf("tenant %q (replica %d asked): selected hashring %s, cache holds %d", r.tenant, r.n, sel, c))
				}
			}
		}
		switch {
		case strings.Contains(a, "!"):
			v.Count("route:answer:insufficient")
		case a == "none" || a == "err":
			v.Count("route:answer:" + a)
		default:
			v.Count("route:answer:ring")
		}
	}
	// the cache holds exactly the selected rings
	for t, a := range first {
		c := receive.VerifMultiCached(h, t)
		if i, err := strconv.Atoi(a); err == nil {
			if c != i {
				v.Violation("cache-wrong", fmt.Sprintf("tenant %q answered by ring %d, cache holds %d", t, i, c))
			}
		} else if c != -1 {
			v.Violation("cache-wrong", fmt.Sprintf("tenant %q answered %s but the cache holds ring %d", t, a, c))
		}
	}
	// concurrent requests on a fresh instance
	if !anyBad {
		h2, err := newMulti(cs)
		if err == nil {
			var wg sync.WaitGroup
			var mu sync.Mutex
			diff := ""
			for g := 0; g < 8; g++ {
				wg.Add(1)
				go func(g int) {
					defer wg.Done()
					for round := 0; round < 3; round++ {
						for k := range reqs {
							i := (k*7 + g*3 + round) % len(reqs)
							if a := askRouteN(h2, reqs[i].tenant, reqs[i].n); a != answers[i] {
								mu.Lock()
								diff = fmt.Sprintf("tenant %q: sequential %s, concurrent %s", reqs[i].tenant, answers[i], a)
								mu.Unlock()
							}
						}
					}
				}(g)
			}
			wg.Wait()
			if diff != "" {
				v.Violation("concurrent-differs", diff)
			}
		}
	}
	return hlib.Join(answers, ";")
}

var routeTenants = []string{"", "a", "b", "team-a", "team-b", "team-a-prod", "tenant-1", "tenant-7", "tenant-12", "t1", "t2",
	"team/x", "x*", "[a]", "default-tenant", "A", "ab", "axb", "a-prod", "ü", "team-", "\\*"}
var routePatterns = []string{"team-*", "*", "t?", "[a-c]*", "tenant-[0-9]", "a*b", "*-prod", "team-a", "tenant-1", "\\*", "x\\*",
	"team-[ab]", "[^t]*", "??", "*a*", "tenant-1[0-9]", "team/*", "", "ü"}
var badPatterns = []string{"[", "a[", "[a-", "\\", "team-[", "[]", "[^", "a[b-]x["}

func genRouteCfgs(r *hlib.Rand, malformed bool) []routeCfg {
	n := r.Range(1, 5)
	cs := make([]routeCfg, n)
	for i := range cs {
		switch k := r.Intn(20); {
		case k < 7:
			cs[i].typ = "e"
		case k < 9:
			cs[i].typ = "x"
		case k < 16:
			cs[i].typ = "g"
		case k < 17:
			cs[i].typ = "o"
		default:
			cs[i].typ = r.Pick([]string{"e", "x", "g"}) // default hashring: no tenant list
			continue
		}
		m := r.Range(1, 4)
		for j := 0; j < m; j++ {
			if cs[i].typ == "g" {
				cs[i].tenants = append(cs[i].tenants, r.Pick(routePatterns))
			} else {
				cs[i].tenants = append(cs[i].tenants, r.Pick(routeTenants))
			}
		}
	}
	if r.Chance(1, 2) {
		cs[n-1].tenants = nil // a default hashring at the end, as configurations usually have
	}
	if malformed {
		i := r.Intn(n)
		cs[i].typ = "g"
		cs[i].tenants = append(cs[i].tenants, r.Pick(badPatterns))
		if r.Bool() {
			cs[i].tenants = append(cs[i].tenants, r.Pick([]string{"*", "team-*", "t?"}))
		}
		p := r.Perm(len(cs[i].tenants))
		sh := make([]string, len(p))
		for a, b := range p {
			sh[a] = cs[i].tenants[b]
		}
		cs[i].tenants = sh
	}
	return cs
}

func genC27(c *hlib.Ctx) {
	r := c.R
	for i := 0; i < c.N(250, 5000) && !gaveUp(); i++ {
		cs := genRouteCfgs(r, false)
		nreq := r.Range(5, 30)
		pool := make([]string, r.Range(2, 10))
		for k := range pool {
			pool[k] = r.Pick(routeTenants)
			if r.Chance(1, 4) { // a tenant named in the configuration
				cfg := cs[r.Intn(len(cs))]
				if len(cfg.tenants) > 0 {
					pool[k] = r.Pick(cfg.tenants)
				}
			}
		}
		// hashmod sub-hashrings of 1..3 nodes, replica indices 0..3: an index the selected hashring does not
		// have comes first / in the middle / last for a tenant
		for k := range cs {
			cs[k].size = r.Range(1, 3)
		}
		reqs := make([]string, nreq)
		seenT := map[string]bool{}
		for k := range reqs {
			t := r.Pick(pool)
			tab, _ := globTable(cs, t)
			n := []int{0, 0, 0, 1, 1, 2, 3}[r.Intn(7)]
			if !seenT[t] && r.Chance(1, 3) {
				n = r.Range(1, 3) // the first request of the tenant is for a later replica
			}
			if w, err := strconv.Atoi(firstMatch(cs, t)); err == nil && n >= cs[w].size {
				if !seenT[t] {
					c.Count("route-gen:out-of-range-first")
				} else {
					c.Count("route-gen:out-of-range-later")
				}
			}
			seenT[t] = true
			reqs[k] = routeReq{tenant: t, tab: tab, n: n}.token()
		}
		c.Count(fmt.Sprintf("route-gen:cfgs:%d", len(cs)))
		for _, cf := range cs {
			if len(cf.tenants) == 0 {
				c.Count("route-gen:cfg:default")
			} else {
				c.Count("route-gen:cfg:" + cf.typ)
			}
		}
		c.Do("route "+showRouteCfgs(cs)+" "+strings.Join(reqs, ";"), true)
	}
	// malformed stream: what happens is recorded and compared with the model, nothing is claimed
	for i := 0; i < c.N(60, 600) && !gaveUp(); i++ {
		cs := genRouteCfgs(r, true)
		t := r.Pick(routeTenants)
		tab, _ := globTable(cs, t)
		c.Count("routem-gen")
		c.Do("routem "+showRouteCfgs(cs)+" "+hlib.HexS(t)+":"+tab, true)
	}
}
