package main

import (
	"fmt"
	"path/filepath"
	"sort"
	"strconv"
	"strings"
	"sync"

	"github.com/prometheus/client_golang/prometheus"
	"github.com/thanos-io/thanos/pkg/receive"
	"github.com/thanos-io/thanos/verifharness/hlib"
)

// C27 — tenants are routed to the hashring their configuration selects.
//
// ops (grammar: lean/Thanos/Driver/Hashring.lean)
//   route  <cfgs> <reqs>    one real receive.NewMultiHashring (every configuration a one-node hashmod
//                           ring "ring-<i>", so the answering node identifies the chosen hashring);
//                           the requests are made in order on that instance (cache in play)
//                           -> `;`-list of ring index | none | err
//   routem <cfgs> <req>     malformed-pattern stream: one request on 300 fresh instances, the
//                           set of outcomes -> i | none | err | i?err
//
// The glob tables in the op line are filepath.Match results computed by the generator; Exec
// recomputes them and rejects a line that disagrees (class harness-glob-input).
//
// oracle (independent of the model), for lines without malformed patterns:
//   * every answer is the first configuration, in order, that has no tenant list, or lists the
//     tenant (type exact / empty), or has a glob pattern matching it (type glob)   (wrong-ring)
//   * repeating a request gives the same ring                                       (unstable)
//   * 8 goroutines doing all requests concurrently on a fresh instance get, for every request,
//     the sequential answer                                                          (concurrent-differs)
//   * after the run the cache holds, for every routed tenant, the ring that was answered (cache-wrong)

func init() { register("C27", genC27, execC27) }

type routeCfg struct {
	typ     string // e x g o
	tenants []string
}

func (c routeCfg) matcher() string {
	switch c.typ {
	case "e":
		return "exact"
	case "x":
		return ""
	case "g":
		return "glob"
	}
	return "regex"
}

func parseRouteCfgs(s string) ([]routeCfg, bool) {
	var out []routeCfg
	for _, t := range hlib.Split(s, "|") {
		p := strings.Split(t, ":")
		if len(p) != 2 || !strings.Contains("exgo", p[0]) || len(p[0]) != 1 {
			return nil, false
		}
		c := routeCfg{typ: p[0]}
		if p[1] == "~" { // no tenant list
			out = append(out, c)
			continue
		}
		for _, h := range strings.Split(p[1], ",") {
			b, err := hlib.UnHex(h)
			if err != nil {
				return nil, false
			}
			c.tenants = append(c.tenants, string(b))
		}
		out = append(out, c)
	}
	return out, true
}

func showRouteCfgs(cs []routeCfg) string {
	ss := make([]string, len(cs))
	for i, c := range cs {
		ts := make([]string, len(c.tenants))
		for j, t := range c.tenants {
			ts[j] = hlib.HexS(t)
		}
		if len(ts) == 0 {
			ss[i] = c.typ + ":~"
		} else {
			ss[i] = c.typ + ":" + strings.Join(ts, ",")
		}
	}
	return hlib.Join(ss, "|")
}

// globTable is filepath.Match of every pattern of every configuration against the tenant.
func globTable(cs []routeCfg, tenant string) (string, bool) {
	bad := false
	tabs := make([]string, len(cs))
	for i, c := range cs {
		var b strings.Builder
		for _, p := range c.tenants {
			m, err := filepath.Match(p, tenant)
			switch {
			case err != nil:
				b.WriteByte('b')
				if c.typ == "g" {
					bad = true
				}
			case m:
				b.WriteByte('y')
			default:
				b.WriteByte('n')
			}
		}
		tabs[i] = b.String()
		if tabs[i] == "" {
			tabs[i] = "-"
		}
	}
	return strings.Join(tabs, "/"), bad
}

type routeReq struct {
	tenant, tab string
}

func parseReqs(s string) ([]routeReq, bool) {
	var out []routeReq
	for _, t := range hlib.Split(s, ";") {
		p := strings.Split(t, ":")
		if len(p) != 2 {
			return nil, false
		}
		b, err := hlib.UnHex(p[0])
		if err != nil {
			return nil, false
		}
		out = append(out, routeReq{string(b), p[1]})
	}
	return out, true
}

// ringAddr is the single endpoint of hashring i: realistic address forms, several hashrings on
// one host differing in the port only.
func ringAddr(i int) string {
	switch i % 5 {
	case 0:
		return fmt.Sprintf("receive.example.org:%d", 10901+i)
	case 1:
		return fmt.Sprintf("http://receive.example.org:%d", 19291+i)
	case 2:
		return fmt.Sprintf("[fd00::1]:%d", 10901+i)
	case 3:
		return fmt.Sprintf("ring-%d", i)
	}
	return fmt.Sprintf("10.0.0.1:%d", 10901+i)
}

func newMulti(cs []routeCfg) (receive.Hashring, error) {
	cfg := make([]receive.HashringConfig, len(cs))
	for i, c := range cs {
		cfg[i] = receive.HashringConfig{
			Hashring:          fmt.Sprintf("ring-%d", i),
			Tenants:           c.tenants,
			TenantMatcherType: receive.VerifTenantMatcher(c.matcher()),
			Endpoints:         []receive.Endpoint{{Address: ringAddr(i)}},
		}
	}
	return receive.NewMultiHashring(receive.AlgorithmHashmod, 1, cfg, prometheus.NewRegistry())
}

func askRoute(h receive.Hashring, tenant string) string {
	s := seriesSpec{tenant: tenant}
	e, err := h.GetN(tenant, s.ts(), 0)
	if err != nil {
		switch {
		case strings.Contains(err.Error(), "no matching hashring"):
			return "none"
		case strings.Contains(err.Error(), "error matching tenant pattern"):
			return "err"
		}
		return "E:" + strings.ReplaceAll(err.Error(), " ", "_")
	}
	for i := 0; i < 16; i++ {
		if ringAddr(i) == e.Address {
			return strconv.Itoa(i)
		}
	}
	return "?" + e.Address
}

// firstMatch is the property restated: first configuration that accepts the tenant.
func firstMatch(cs []routeCfg, tenant string) string {
	for i, c := range cs {
		if len(c.tenants) == 0 {
			return strconv.Itoa(i)
		}
		switch c.typ {
		case "e", "x":
			for _, t := range c.tenants {
				if t == tenant {
					return strconv.Itoa(i)
				}
			}
		case "g":
			for _, p := range c.tenants {
				if m, err := filepath.Match(p, tenant); err == nil && m {
					return strconv.Itoa(i)
				}
			}
		}
	}
	return "none"
}

func execC27(v *vctx, tok []string) string {
	if len(tok) != 3 || (tok[0] != "route" && tok[0] != "routem") {
		return "bad-op"
	}
	cs, ok1 := parseRouteCfgs(tok[1])
	reqs, ok2 := parseReqs(tok[2])
	if !ok1 || !ok2 {
		return "bad-op"
	}
	anyBad := false
	for _, r := range reqs {
		tab, bad := globTable(cs, r.tenant)
		if tab != r.tab {
			v.Violation("harness-glob-input", fmt.Sprintf("glob table of tenant %q in the op line is %s, filepath.Match says %s", r.tenant, r.tab, tab))
			return "bad-table"
		}
		anyBad = anyBad || bad
	}
	if tok[0] == "routem" {
		if len(reqs) != 1 {
			return "bad-op"
		}
		seen := map[string]bool{}
		for i := 0; i < 300; i++ {
			h, err := newMulti(cs)
			if err != nil {
				return classifyBuildErr(err)
			}
			seen[askRoute(h, reqs[0].tenant)] = true
		}
		var ks []string
		for k := range seen {
			ks = append(ks, k)
		}
		sort.Slice(ks, func(i, j int) bool { // ring index before err
			if (ks[i] == "err") != (ks[j] == "err") {
				return ks[j] == "err"
			}
			return ks[i] < ks[j]
		})
		v.Count("routem:outcomes:" + strconv.Itoa(len(ks)))
		return strings.Join(ks, "?")
	}
	h, err := newMulti(cs)
	if err != nil {
		return classifyBuildErr(err)
	}
	answers := make([]string, len(reqs))
	first := map[string]string{}
	for i, r := range reqs {
		a := askRoute(h, r.tenant)
		answers[i] = a
		if prev, ok := first[r.tenant]; ok {
			v.Count("route:repeated-request")
			if prev != a {
				v.Violation("unstable", fmt.Sprintf("tenant %q: first %s, later %s", r.tenant, prev, a))
			}
		} else {
			first[r.tenant] = a
		}
		if !anyBad {
			if want := firstMatch(cs, r.tenant); want != a {
				v.Violation("wrong-ring", fmt.Sprintf("tenant %q is served by %s, the first accepting configuration is %s", r.tenant, a, want))
			}
		}
		v.Count("route:answer:" + map[bool]string{true: "ring", false: a}[a != "none" && a != "err"])
	}
	// the cache now holds exactly the answered rings
	for t, a := range first {
		c := receive.VerifMultiCached(h, t)
		if i, err := strconv.Atoi(a); err == nil {
			if c != i {
				v.Violation("cache-wrong", fmt.Sprintf("tenant %q answered by ring %d, cache holds %d", t, i, c))
			}
		} else if c != -1 {
			v.Violation("cache-wrong", fmt.Sprintf("tenant %q answered %s but the cache holds ring %d", t, a, c))
		}
	}
	// concurrent requests on a fresh instance
	if !anyBad {
		h2, err := newMulti(cs)
		if err == nil {
			var wg sync.WaitGroup
			var mu sync.Mutex
			diff := ""
			for g := 0; g < 8; g++ {
				wg.Add(1)
				go func(g int) {
					defer wg.Done()
					for round := 0; round < 3; round++ {
						for k := range reqs {
							i := (k*7 + g*3 + round) % len(reqs)
							if a := askRoute(h2, reqs[i].tenant); a != answers[i] {
								mu.Lock()
								diff = fmt.Sprintf("tenant %q: sequential %s, concurrent %s", reqs[i].tenant, answers[i], a)
								mu.Unlock()
							}
						}
					}
				}(g)
			}
			wg.Wait()
			if diff != "" {
				v.Violation("concurrent-differs", diff)
			}
		}
	}
	return hlib.Join(answers, ";")
}

var routeTenants = []string{"", "a", "b", "team-a", "team-b", "team-a-prod", "tenant-1", "tenant-7", "tenant-12", "t1", "t2",
	"team/x", "x*", "[a]", "default-tenant", "A", "ab", "axb", "a-prod", "ü", "team-", "\\*"}
var routePatterns = []string{"team-*", "*", "t?", "[a-c]*", "tenant-[0-9]", "a*b", "*-prod", "team-a", "tenant-1", "\\*", "x\\*",
	"team-[ab]", "[^t]*", "??", "*a*", "tenant-1[0-9]", "team/*", "", "ü"}
var badPatterns = []string{"[", "a[", "[a-", "\\", "team-[", "[]", "[^", "a[b-]x["}

func genRouteCfgs(r *hlib.Rand, malformed bool) []routeCfg {
	n := r.Range(1, 5)
	cs := make([]routeCfg, n)
	for i := range cs {
		switch k := r.Intn(20); {
		case k < 7:
			cs[i].typ = "e"
		case k < 9:
			cs[i].typ = "x"
		case k < 16:
			cs[i].typ = "g"
		case k < 17:
			cs[i].typ = "o"
		default:
			cs[i].typ = r.Pick([]string{"e", "x", "g"}) // default hashring: no tenant list
			continue
		}
		m := r.Range(1, 4)
		for j := 0; j < m; j++ {
			if cs[i].typ == "g" {
				cs[i].tenants = append(cs[i].tenants, r.Pick(routePatterns))
			} else {
				cs[i].tenants = append(cs[i].tenants, r.Pick(routeTenants))
			}
		}
	}
	if r.Chance(1, 2) {
		cs[n-1].tenants = nil // a default hashring at the end, as configurations usually have
	}
	if malformed {
		i := r.Intn(n)
		cs[i].typ = "g"
		cs[i].tenants = append(cs[i].tenants, r.Pick(badPatterns))
		if r.Bool() {
			cs[i].tenants = append(cs[i].tenants, r.Pick([]string{"*", "team-*", "t?"}))
		}
		p := r.Perm(len(cs[i].tenants))
		sh := make([]string, len(p))
		for a, b := range p {
			sh[a] = cs[i].tenants[b]
		}
		cs[i].tenants = sh
	}
	return cs
}

func genC27(c *hlib.Ctx) {
	r := c.R
	for i := 0; i < c.N(250, 5000) && !gaveUp(); i++ {
		cs := genRouteCfgs(r, false)
		nreq := r.Range(5, 30)
		pool := make([]string, r.Range(2, 10))
		for k := range pool {
			pool[k] = r.Pick(routeTenants)
			if r.Chance(1, 4) { // a tenant named in the configuration
				cfg := cs[r.Intn(len(cs))]
				if len(cfg.tenants) > 0 {
					pool[k] = r.Pick(cfg.tenants)
				}
			}
		}
		reqs := make([]string, nreq)
		for k := range reqs {
			t := r.Pick(pool)
			tab, _ := globTable(cs, t)
			reqs[k] = hlib.HexS(t) + ":" + tab
		}
		c.Count(fmt.Sprintf("route-gen:cfgs:%d", len(cs)))
		for _, cf := range cs {
			if len(cf.tenants) == 0 {
				c.Count("route-gen:cfg:default")
			} else {
				c.Count("route-gen:cfg:" + cf.typ)
			}
		}
		c.Do("route "+showRouteCfgs(cs)+" "+strings.Join(reqs, ";"), true)
	}
	// malformed stream: what happens is recorded and compared with the model, nothing is claimed
	for i := 0; i < c.N(60, 600) && !gaveUp(); i++ {
		cs := genRouteCfgs(r, true)
		t := r.Pick(routeTenants)
		tab, _ := globTable(cs, t)
		c.Count("routem-gen")
		c.Do("routem "+showRouteCfgs(cs)+" "+hlib.HexS(t)+":"+tab, true)
	}
}
