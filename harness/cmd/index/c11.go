package main

import (
	"bytes"
	"context"
	"encoding/binary"
	"fmt"
	"hash/fnv"
	"os"
	"path/filepath"
	"runtime"
	"runtime/debug"
	"sort"
	"strconv"
	"strings"
	"time"

	"github.com/go-kit/log"
	"github.com/oklog/ulid/v2"
	"github.com/prometheus/prometheus/model/labels"
	"github.com/prometheus/prometheus/storage"
	"github.com/prometheus/prometheus/tsdb/index"
	"github.com/thanos-io/objstore"

	"github.com/thanos-io/thanos/pkg/block/indexheader"
	"github.com/thanos-io/thanos/verifharness/hlib"
)

// C11 — binary index-header answers equal the full index.
//
// grammar (see also lean/Thanos/Driver/Index.lean)
//   ih.q <n> <nextOff> <tbl> <wanted ranks> <indexspec> <name hex> <wanted: x<hex>,…>
//       the first four arguments are what the model needs (derived by the generator from the real
//       TSDB index: third-party input, re-derived and compared by Exec); the last three say how to
//       rebuild the index and what to ask.
//       n         = postingOffsetsInMemSampling
//       tbl       = <rank>:<offset>,…   postings offset table of the label name (values as ranks)
//       nextOff   = start of the posting list that follows the last one of this name
//       indexspec = <name hex>=<value hex>,<value hex>…(;…)*   one series {name="value"} per pair
//     -> s=<kept table indices> l=<lastValOffset> v=<LabelValues as ranks> r=<start>:<end>|nf,…
//   ih.names <names of all table entries as ranks, table order> <rank of ""|-> <indexspec> <n>
//     -> LabelNames as ranks
//   ih.sym <shift> <nameSymbols ref:x<hex>,…> <refs> <symbol table ref:x<hex>,…> <indexspec> <n>
//       a sequence of LookupSymbol calls on a fresh header -> x<hex>|err per call
//   ih.v1 0 <lastEnd> <table name.value.offset,…> <name> <wanted> <name hex> <wanted: x<hex>,…>
//       the index in format v1 (the package's test fixture; indexspec "v1") -> v=<LabelValues> r=<ranges>
//   indexspec may start with "e;" (the symbol table also holds "") or be "v1"
//   o.ih.alias <n> <rounds> <indexspec A> <indexspec B>…   in-memory headers do not share memory: build A, ask
//       everything, build the in-memory headers of the other blocks, ask A again (GOMAXPROCS 1, GC off)
//   o.ih.meta <n> <indexspec>    label names, symbols, single-value lookups against the full index

func init() {
	props = append(props, &hlib.Prop{ID: "C11", Gen: genC11, Exec: execC11})
}

type c11BS []byte

func (b c11BS) Len() int                           { return len(b) }
func (b c11BS) Range(start, end int) []byte        { return b[start:end] }
func (b c11BS) Sub(start, end int) index.ByteSlice { return b[start:end] }

type c11Entry struct {
	name, value string
	off         uint64
	labelOff    int
}

type c11Index struct {
	id        ulid.ULID
	bkt       *objstore.InMemBucket
	table     []c11Entry
	tableEnd  uint64 // toc.PostingsTable: end of the postings section as the header knows it
	ranges    map[labels.Label]index.Range
	names     []string
	values    map[string][]string
	symbols   []string
	lastLabel labels.Label // last entry of the whole table
	version   int
	symRefs   []uint32 // reference of symbols[i]: i for format v2, the offset in the index file for v1
	symShift  uint32   // what LookupSymbol adds to a reference (v1)
	headers   map[int]*indexheader.BinaryReader
}

var c11Cache = map[string]*c11Index{}
var c11CacheOrder []string

// c11Enc / c11Dec: strings in index specs and queries.  Hex, except that a long run of one byte at the
// start is written R<run length>.<byte hex>.<hex of the rest> (label names and values of 16 KB).
func c11Enc(s string) string {
	run := 0
	for run < len(s) && s[run] == s[0] {
		run++
	}
	if run >= 48 {
		rest := "-"
		if run < len(s) {
			rest = hlib.HexS(s[run:])
		}
		return fmt.Sprintf("R%d.%02x.%s", run, s[0], rest)
	}
	return hlib.HexS(s)
}

func c11Dec(tok string) (string, bool) {
	if !strings.HasPrefix(tok, "R") {
		return unhexS(tok)
	}
	parts := strings.Split(tok[1:], ".")
	if len(parts) != 3 || len(parts[1]) != 2 {
		return "", false
	}
	n, err := strconv.Atoi(parts[0])
	b, ok := unhexS(parts[1])
	if err != nil || n < 48 || n > 1<<20 || !ok || len(b) != 1 {
		return "", false
	}
	rest := ""
	if parts[2] != "-" {
		if rest, ok = unhexS(parts[2]); !ok {
			return "", false
		}
	}
	if rest != "" && rest[0] == b[0] {
		return "", false // not canonical
	}
	return strings.Repeat(b, n) + rest, true
}

func parseIndexSpec(spec string) (map[string][]string, []string, bool) {
	m := map[string][]string{}
	var order []string
	for i, part := range strings.Split(spec, ";") {
		if i == 0 && part == "e" { // the symbol table also holds the empty string (as Prometheus' head writes it)
			continue
		}
		kv := strings.Split(part, "=")
		if len(kv) != 2 {
			return nil, nil, false
		}
		name, ok := c11Dec(kv[0])
		if !ok || name == "" {
			return nil, nil, false
		}
		for _, v := range strings.Split(kv[1], ",") {
			val, ok := c11Dec(v)
			if !ok || val == "" {
				return nil, nil, false
			}
			m[name] = append(m[name], val)
		}
		order = append(order, name)
	}
	return m, order, true
}

// c11V1Fixture is the index in format v1 that ships with the package's tests (the writer of v1 is gone
// from Prometheus, so v1 indexes cannot be generated).
func c11V1Fixture() string {
	repo := os.Getenv("VERIF_REPO")
	if repo == "" {
		repo = "/repo"
	}
	return filepath.Join(repo, "pkg/block/indexheader/testdata/index_format_v1/index")
}

func writeC11Index(spec, fn string) error {
	m, _, ok := parseIndexSpec(spec)
	if !ok {
		return fmt.Errorf("bad index spec")
	}
	ctx := context.Background()
	symSet := map[string]struct{}{}
	if strings.HasPrefix(spec, "e;") {
		symSet[""] = struct{}{}
	}
	var lsets []labels.Labels
	for n, vs := range m {
		symSet[n] = struct{}{}
		for _, v := range vs {
			symSet[v] = struct{}{}
			lsets = append(lsets, labels.FromStrings(n, v))
		}
	}
	syms := make([]string, 0, len(symSet))
	for s := range symSet {
		syms = append(syms, s)
	}
	sort.Strings(syms)
	sort.Slice(lsets, func(i, j int) bool { return labels.Compare(lsets[i], lsets[j]) < 0 })
	w, err := index.NewWriter(ctx, fn)
	if err != nil {
		return err
	}
	for _, s := range syms {
		if err := w.AddSymbol(s); err != nil {
			return err
		}
	}
	for i, l := range lsets {
		if i > 0 && labels.Equal(l, lsets[i-1]) {
			continue
		}
		if err := w.AddSeries(storage.SeriesRef(i+1), l); err != nil {
			return err
		}
	}
	return w.Close()
}

func buildC11Index(spec string) (*c11Index, error) {
	if ix, ok := c11Cache[spec]; ok {
		return ix, nil
	}
	ctx := context.Background()
	dir, err := os.MkdirTemp("", "verif-c11-")
	if err != nil {
		return nil, err
	}
	defer os.RemoveAll(dir)
	fn := filepath.Join(dir, "index")
	if spec == "v1" {
		fn = c11V1Fixture()
	} else if err := writeC11Index(spec, fn); err != nil {
		return nil, err
	}
	raw, err := os.ReadFile(fn)
	if err != nil {
		return nil, err
	}
	h := fnv.New64a()
	h.Write([]byte(spec))
	var ent [10]byte
	copy(ent[:], fmt.Sprintf("%010d", h.Sum64()%1e10))
	var id ulid.ULID
	_ = id.SetTime(1)
	_ = id.SetEntropy(ent[:])
	ix := &c11Index{id: id, bkt: objstore.NewInMemBucket(), values: map[string][]string{}, headers: map[int]*indexheader.BinaryReader{}}
	if err := ix.bkt.Upload(ctx, filepath.Join(id.String(), "index"), bytes.NewReader(raw)); err != nil {
		return nil, err
	}
	// the full index, read with Prometheus' own reader
	r, err := index.NewFileReader(fn, index.DecodePostingsRaw)
	if err != nil {
		return nil, err
	}
	defer r.Close()
	if ix.ranges, err = r.PostingsRanges(); err != nil {
		return nil, err
	}
	// the reader hands out strings that point into the mmapped file: copy them
	names, err := r.LabelNames(ctx)
	if err != nil {
		return nil, err
	}
	for _, n := range names {
		n = strings.Clone(n)
		ix.names = append(ix.names, n)
		vs, err := r.SortedLabelValues(ctx, n, nil)
		if err != nil {
			return nil, err
		}
		for _, v := range vs {
			ix.values[n] = append(ix.values[n], strings.Clone(v))
		}
	}
	it := r.Symbols()
	for it.Next() {
		ix.symbols = append(ix.symbols, strings.Clone(it.At()))
	}
	toc, err := index.NewTOCFromByteSlice(c11BS(raw))
	if err != nil {
		return nil, err
	}
	ix.tableEnd = toc.PostingsTable
	ix.version = int(raw[4])
	if ix.version == index.FormatV1 {
		// v1 symbol references are byte offsets into the index file: walk the symbols section
		// (len <4b> | count <4b> | (uvarint len | bytes)*); the symbols themselves must be the ones the
		// full reader lists
		pos := int(toc.Symbols) + 8
		cnt := int(binary.BigEndian.Uint32(raw[toc.Symbols+4:]))
		if cnt != len(ix.symbols) {
			return nil, fmt.Errorf("v1 symbols: %d in the section, %d listed", cnt, len(ix.symbols))
		}
		for i := 0; i < cnt; i++ {
			l, k := binary.Uvarint(raw[pos:])
			if k <= 0 || string(raw[pos+k:pos+k+int(l)]) != ix.symbols[i] {
				return nil, fmt.Errorf("v1 symbols: entry %d is not %q", i, ix.symbols[i])
			}
			ix.symRefs = append(ix.symRefs, uint32(pos))
			pos += k + int(l)
		}
		ix.symShift = 9 // the header file's own header is 14 bytes long, the index file's 5
	} else {
		for i := range ix.symbols {
			ix.symRefs = append(ix.symRefs, uint32(i))
		}
	}
	if err := index.ReadPostingsOffsetTable(c11BS(raw), toc.PostingsTable, func(name, value []byte, off uint64, labelOff int) error {
		ix.table = append(ix.table, c11Entry{string(name), string(value), off, labelOff})
		return nil
	}); err != nil {
		return nil, err
	}
	if len(ix.table) > 0 {
		e := ix.table[len(ix.table)-1]
		ix.lastLabel = labels.Label{Name: e.name, Value: e.value}
	}
	c11Cache[spec] = ix
	c11CacheOrder = append(c11CacheOrder, spec)
	if len(c11CacheOrder) > 8 {
		old := c11CacheOrder[0]
		c11CacheOrder = c11CacheOrder[1:]
		for _, hd := range c11Cache[old].headers {
			hd.Close()
		}
		delete(c11Cache, old)
	}
	return ix, nil
}

func (ix *c11Index) header(n int) (*indexheader.BinaryReader, error) {
	if h, ok := ix.headers[n]; ok {
		return h, nil
	}
	h, err := indexheader.NewBinaryReader(context.Background(), log.NewNopLogger(), ix.bkt, "", ix.id, n, indexheader.NewBinaryReaderMetrics(nil))
	if err != nil {
		return nil, err
	}
	ix.headers[n] = h
	return h, nil
}

// nameTable returns the entries of one label name and the offset at which the posting list after
// its last one starts.
func (ix *c11Index) nameTable(name string) (es []c11Entry, nextOff uint64) {
	nextOff = ix.tableEnd
	seen := false
	for _, e := range ix.table {
		if e.name == name {
			es = append(es, e)
			seen = true
		} else if seen {
			nextOff = e.off
			break
		}
	}
	return es, nextOff
}

// derived computes the model-side arguments of an ih.q op.
func (ix *c11Index) derived(name string, wanted []string) (nextOff uint64, tbl, wr string, rank map[string]int) {
	es, nextOff := ix.nameTable(name)
	all := map[string]struct{}{}
	for _, e := range es {
		all[e.value] = struct{}{}
	}
	for _, w := range wanted {
		all[w] = struct{}{}
	}
	sorted := make([]string, 0, len(all))
	for s := range all {
		sorted = append(sorted, s)
	}
	sort.Strings(sorted)
	rank = map[string]int{}
	for i, s := range sorted {
		rank[s] = i
	}
	var ts, ws []string
	for _, e := range es {
		ts = append(ts, fmt.Sprintf("%d:%d", rank[e.value], e.off))
	}
	for _, w := range wanted {
		ws = append(ws, strconv.Itoa(rank[w]))
	}
	return nextOff, hlib.Join(ts, ","), hlib.Join(ws, ","), rank
}

// c11CheckRanges is the oracle of a multi-value lookup: one answer per wanted value, in order; a value
// is found iff the full index has the pair; the range is the full index's (the end of the very last
// posting list of the table may be over-estimated, never under-estimated).
func c11CheckRanges(c *hlib.Ctx, ix *c11Index, name string, wanted []string, rngs []index.Range, n int) {
	shown := c11Abbrev(name)
	if len(rngs) != len(wanted) {
		c.Violation("result-length", fmt.Sprintf("%d ranges for %d values", len(rngs), len(wanted)))
		return
	}
	for i, w := range wanted {
		l := labels.Label{Name: name, Value: w}
		exact, present := ix.ranges[l]
		got := rngs[i]
		switch {
		case present && got == indexheader.NotFoundRange:
			c.Violation("present-value-not-found", fmt.Sprintf("%q=%q (position %d of %d wanted, sampling %d) exists in the index but the header says not found", shown, c11Abbrev(w), i, len(wanted), n))
		case !present && got != indexheader.NotFoundRange:
			c.Violation("absent-value-found", fmt.Sprintf("%q=%q does not exist but the header returns %v", shown, c11Abbrev(w), got))
		case present && got.Start != exact.Start:
			c.Violation("range-start-mismatch", fmt.Sprintf("%q=%q: header %v, index %v", shown, c11Abbrev(w), got, exact))
		case present && l == ix.lastLabel && got.End < exact.End:
			c.Violation("range-end-mismatch", fmt.Sprintf("%q=%q (last entry): header %v, index %v", shown, c11Abbrev(w), got, exact))
		case present && l != ix.lastLabel && got.End != exact.End:
			c.Violation("range-end-mismatch", fmt.Sprintf("%q=%q: header %v, index %v", shown, c11Abbrev(w), got, exact))
		}
	}
}

// c11Abbrev shortens a long label name or value for a message.
func c11Abbrev(s string) string {
	if len(s) <= 48 {
		return s
	}
	return fmt.Sprintf("%s…(%d bytes)…%s", s[:12], len(s), s[len(s)-8:])
}

func c11ParseWanted(tok string) ([]string, bool) {
	var wanted []string
	for _, w := range hlib.Split(tok, ",") {
		// every element carries the prefix "x", so that the empty string is not the empty list
		if !strings.HasPrefix(w, "x") {
			return nil, false
		}
		s := ""
		if len(w) > 1 {
			var ok bool
			if s, ok = c11Dec(w[1:]); !ok {
				return nil, false
			}
		}
		wanted = append(wanted, s)
	}
	return wanted, true
}

func c11HexList(ws []string) string {
	hw := make([]string, len(ws))
	for i, w := range ws {
		hw[i] = "x"
		if w != "" {
			hw[i] += c11Enc(w)
		}
	}
	return hlib.Join(hw, ",")
}

func c11Ranks(all map[string]struct{}) map[string]int {
	sorted := make([]string, 0, len(all))
	for s := range all {
		sorted = append(sorted, s)
	}
	sort.Strings(sorted)
	rank := map[string]int{}
	for i, s := range sorted {
		rank[s] = i
	}
	return rank
}

// derivedNames: the label names of all table entries, in table order, as ranks, and the rank of "".
func (ix *c11Index) derivedNames() (string, string, map[string]int) {
	all := map[string]struct{}{}
	for _, e := range ix.table {
		all[e.name] = struct{}{}
	}
	rank := c11Ranks(all)
	var ns []string
	if ix.version == index.FormatV1 {
		// the v1 table is not sorted; the reader collects the names in a map and sorts them
		// (sort.Strings: third party), so the model gets them sorted
		es := append([]c11Entry(nil), ix.table...)
		sort.SliceStable(es, func(i, j int) bool { return es[i].name < es[j].name })
		for _, e := range es {
			ns = append(ns, strconv.Itoa(rank[e.name]))
		}
	} else {
		for _, e := range ix.table {
			ns = append(ns, strconv.Itoa(rank[e.name]))
		}
	}
	empty := "-"
	if r, ok := rank[""]; ok {
		empty = strconv.Itoa(r)
	}
	return hlib.Join(ns, ","), empty, rank
}

// derivedSymbols: the symbol table (reference the header's Symbols.Lookup understands ↦ symbol) and the
// references of the label names (what the reader keeps in nameSymbols).
func (ix *c11Index) derivedSymbols() (names, syms string) {
	isName := map[string]bool{}
	for _, e := range ix.table {
		if e.name != "" {
			isName[e.name] = true
		}
	}
	var ns, ss []string
	for i, sym := range ix.symbols {
		ref := ix.symRefs[i] + ix.symShift
		ent := fmt.Sprintf("%d:x%s", ref, hlib.HexS(sym))
		if sym == "" {
			ent = fmt.Sprintf("%d:x", ref)
		}
		ss = append(ss, ent)
		if isName[sym] {
			ns = append(ns, ent)
		}
	}
	return hlib.Join(ns, ","), hlib.Join(ss, ",")
}

// derivedV1: the whole v1 table as name.value.offset with ranks, and the ranks of the wanted values.
func (ix *c11Index) derivedV1(name string, wanted []string) (tbl, nm, wr string, vrank map[string]int) {
	names, values := map[string]struct{}{name: {}, "": {}}, map[string]struct{}{} // "" has rank 0
	for _, e := range ix.table {
		names[e.name] = struct{}{}
		values[e.value] = struct{}{}
	}
	for _, w := range wanted {
		values[w] = struct{}{}
	}
	nrank, vrank := c11Ranks(names), c11Ranks(values)
	var ts, ws []string
	for _, e := range ix.table {
		ts = append(ts, fmt.Sprintf("%d.%d.%d", nrank[e.name], vrank[e.value], e.off))
	}
	for _, w := range wanted {
		ws = append(ws, strconv.Itoa(vrank[w]))
	}
	return hlib.Join(ts, ","), strconv.Itoa(nrank[name]), hlib.Join(ws, ","), vrank
}

// c11Snapshot asks a header everything: names, values, symbols, ranges of every label pair.
func c11Snapshot(h indexheader.Reader, ix *c11Index) (out string) {
	defer func() {
		if p := recover(); p != nil {
			out = fmt.Sprintf("panic: %v", p)
		}
	}()
	var sb strings.Builder
	names, err := h.LabelNames()
	fmt.Fprintf(&sb, "names=%q %v\n", names, err)
	for _, name := range append([]string{""}, ix.names...) {
		vs, err := h.LabelValues(name)
		fmt.Fprintf(&sb, "values(%q)=%q %v\n", c11Abbrev(name), len(vs), err)
		for _, v := range vs {
			sb.WriteString(v)
			sb.WriteByte(0)
		}
		rs, err := h.PostingsOffsets(name, ix.values[name]...)
		fmt.Fprintf(&sb, "ranges=%v %v\n", rs, err)
	}
	for i := range ix.symbols {
		sym, err := h.LookupSymbol(context.Background(), ix.symRefs[i])
		fmt.Fprintf(&sb, "%d=%q %v\n", i, sym, err)
	}
	return sb.String()
}

// c11Alias: o.ih.alias <n> <rounds> <spec A> <spec B>…   In-memory headers (dir == "") must not share
// memory: header A is built and asked everything, then in-memory headers of the other blocks are built
// (plain and lazy readers in turn), then A is asked again.  One processor and no garbage collection
// during the op, so that anything a pool hands back is handed back reliably.
func c11Alias(c *hlib.Ctx, tok []string) string {
	if len(tok) < 5 {
		return "bad-op"
	}
	n, err1 := strconv.Atoi(tok[1])
	rounds, err2 := strconv.Atoi(tok[2])
	if err1 != nil || err2 != nil || n < 1 || rounds < 1 || rounds > 8 {
		return "bad-op"
	}
	var ixs []*c11Index
	for _, spec := range tok[3:] {
		ix, err := buildC11Index(spec)
		if err != nil {
			return "bad-op"
		}
		ixs = append(ixs, ix)
	}
	prevProcs := runtime.GOMAXPROCS(1)
	prevGC := debug.SetGCPercent(-1)
	defer func() {
		debug.SetGCPercent(prevGC)
		runtime.GOMAXPROCS(prevProcs)
	}()
	ctx := context.Background()
	build := func(ix *c11Index, lazy bool) (indexheader.Reader, error) {
		if lazy {
			return indexheader.NewLazyBinaryReader(ctx, log.NewNopLogger(), ix.bkt, "", ix.id, n,
				indexheader.NewLazyBinaryReaderMetrics(nil), indexheader.NewBinaryReaderMetrics(nil), nil, false)
		}
		return indexheader.NewBinaryReader(ctx, log.NewNopLogger(), ix.bkt, "", ix.id, n, indexheader.NewBinaryReaderMetrics(nil))
	}
	changed := 0
	for round := 0; round < rounds; round++ {
		a := ixs[0]
		ha, err := build(a, round%2 == 1)
		if err != nil {
			return "err:" + err.Error()
		}
		before := c11Snapshot(ha, a)
		var others []indexheader.Reader
		for k, ix := range ixs[1:] {
			hb, err := build(ix, (round+k)%2 == 0)
			if err != nil {
				return "err:" + err.Error()
			}
			_ = c11Snapshot(hb, ix) // (a lazy reader builds its header on the first call)
			others = append(others, hb)
		}
		after := c11Snapshot(ha, a)
		if after != before {
			changed++
			i := 0
			for i < len(before) && i < len(after) && before[i] == after[i] {
				i++
			}
			from := i - 40
			if from < 0 {
				from = 0
			}
			c.Violation("in-memory-header-changed", fmt.Sprintf("round %d: header A answers differently after %d other in-memory headers were built; first difference: before %q, after %q",
				round, len(others), short(before[from:]), short(after[from:])))
		}
		// … and A still agrees with its full index (same checks as o.ih.meta, on the re-queried header)
		if names, err := ha.LabelNames(); err != nil || strings.Join(names, "\x00") != strings.Join(a.names, "\x00") {
			c.Violation("label-names-mismatch", fmt.Sprintf("after other headers were built: header %d names, index %d (%v)", len(names), len(a.names), err))
		}
		for _, name := range a.names {
			rs, err := ha.PostingsOffsets(name, a.values[name]...)
			if err != nil {
				c.Violation("lookup-error", "after other headers were built: "+err.Error())
				continue
			}
			c11CheckRanges(c, a, name, a.values[name], rs, n)
		}
		for _, h := range others {
			_ = h.Close()
		}
		_ = ha.Close()
	}
	return fmt.Sprintf("rounds=%d changed=%d", rounds, changed)
}

// c11Hung: index specs on which a call into the real header did not return.
var c11Hung = map[string]bool{}

// execC11 runs an op under a watchdog: a lookup that does not return within 15 s is a violation
// (class lookup-hang); the goroutine is left behind, further ops on the same index are not run.
func execC11(c *hlib.Ctx, tok []string) string {
	spec := ""
	if len(tok) > 0 {
		switch {
		case tok[0] == "ih.q" && len(tok) == 8, tok[0] == "ih.sym" && len(tok) == 7:
			spec = tok[5]
		case tok[0] == "ih.names" && len(tok) == 5:
			spec = tok[3]
		case tok[0] == "o.ih.meta" && len(tok) == 3:
			spec = tok[2]
		case tok[0] == "o.ih.alias" && len(tok) >= 5:
			spec = tok[3]
		case tok[0] == "ih.v1":
			spec = "v1"
		}
	}
	if c11Hung[spec] {
		c.Count("skipped:index-with-a-hung-lookup")
		return "hang"
	}
	done := make(chan string, 1)
	go func() {
		defer func() {
			if r := recover(); r != nil { // what hlib's safeExec does for a panic in the calling goroutine
				c.Dist["impl-panic"]++
				c.LastPanic = fmt.Sprint(r)
				done <- "panic"
			}
		}()
		done <- execC11Op(c, tok)
	}()
	select {
	case out := <-done:
		return out
	case <-time.After(15 * time.Second):
		c11Hung[spec] = true
		c.Violation("lookup-hang", "a call into the index-header did not return within 15 s (op "+tok[0]+")")
		return "hang"
	}
}

func execC11Op(c *hlib.Ctx, tok []string) string {
	if len(tok) == 0 {
		return "bad-op"
	}
	switch tok[0] {
	case "ih.q":
		if len(tok) != 8 {
			return "bad-op"
		}
		n, err := strconv.Atoi(tok[1])
		name, ok1 := c11Dec(tok[6])
		if err != nil || n < 1 || !ok1 {
			return "bad-op"
		}
		wanted, ok := c11ParseWanted(tok[7])
		if !ok {
			return "bad-op"
		}
		if !sort.StringsAreSorted(wanted) {
			return "bad-op"
		}
		ix, err := buildC11Index(tok[5])
		if err != nil {
			return "bad-op"
		}
		nextOff, tbl, wr, rank := ix.derived(name, wanted)
		if tok[2] != fmt.Sprint(nextOff) || tok[3] != tbl || tok[4] != wr || tbl == "-" {
			return "bad-op" // the table in the op line is not the one this index has
		}
		h, err := ix.header(n)
		if err != nil {
			return "err:" + err.Error()
		}
		es, _ := ix.nameTable(name)
		// sampled entries
		svals, soffs, lastVal, ok := indexheader.VerifSampledOffsets(h, name)
		if !ok {
			return "err:name-not-in-header"
		}
		byOff := map[int]int{}
		for i, e := range es {
			byOff[e.labelOff] = i
		}
		var kept []string
		for i, o := range soffs {
			k, ok := byOff[o]
			if !ok || es[k].value != svals[i] {
				c.Violation("sampling-mismatch", fmt.Sprintf("sampled entry %q at table offset %d is not an entry of %q", svals[i], o, name))
				kept = append(kept, "?")
				continue
			}
			kept = append(kept, strconv.Itoa(k))
		}
		{ // oracle: kept = multiples of n, and the last one
			var want []string
			for i := range es {
				if i%n == 0 || i == len(es)-1 {
					want = append(want, strconv.Itoa(i))
				}
			}
			if strings.Join(kept, ",") != strings.Join(want, ",") {
				c.Violation("sampling-mismatch", fmt.Sprintf("sampling %d of %d values keeps %v, want %v", n, len(es), kept, want))
			}
		}
		// label values
		lv, err := h.LabelValues(name)
		lvs := "err"
		if err == nil {
			var rs []string
			for _, v := range lv {
				rs = append(rs, strconv.Itoa(rank[v]))
			}
			lvs = hlib.Join(rs, ",")
			if strings.Join(lv, "\x00") != strings.Join(ix.values[name], "\x00") && name != "" {
				c.Violation("label-values-mismatch", fmt.Sprintf("LabelValues(%q): header %d values, full index %d", name, len(lv), len(ix.values[name])))
			}
		}
		// the lookup
		rngs, err := h.PostingsOffsets(name, wanted...)
		rs := "err"
		if err == nil {
			var parts []string
			for _, r := range rngs {
				if r == indexheader.NotFoundRange {
					parts = append(parts, "nf")
				} else {
					parts = append(parts, fmt.Sprintf("%d:%d", r.Start, r.End))
				}
			}
			rs = hlib.Join(parts, ",")
			c11CheckRanges(c, ix, name, wanted, rngs, n)
		} else {
			c.Violation("lookup-error", err.Error())
		}
		return fmt.Sprintf("s=%s l=%d v=%s r=%s", hlib.Join(kept, ","), lastVal, lvs, rs)
	case "ih.names":
		// ih.names <names of the table entries as ranks> <rank of ""|-> <indexspec> <n>
		if len(tok) != 5 {
			return "bad-op"
		}
		n, err := strconv.Atoi(tok[4])
		if err != nil || n < 1 {
			return "bad-op"
		}
		ix, err := buildC11Index(tok[3])
		if err != nil {
			return "bad-op"
		}
		ns, empty, rank := ix.derivedNames()
		if tok[1] != ns || tok[2] != empty {
			return "bad-op"
		}
		h, err := ix.header(n)
		if err != nil {
			return "err:" + err.Error()
		}
		names, err := h.LabelNames()
		if err != nil {
			return "err"
		}
		if strings.Join(names, "\x00") != strings.Join(ix.names, "\x00") {
			c.Violation("label-names-mismatch", fmt.Sprintf("header %q, index %q", names, ix.names))
		}
		var rs []string
		for _, nm := range names {
			r, ok := rank[nm]
			if !ok {
				return "err:unknown-name"
			}
			rs = append(rs, strconv.Itoa(r))
		}
		return hlib.Join(rs, ",")
	case "ih.sym":
		// ih.sym <shift> <nameSymbols> <refs> <symbol table> <indexspec> <n>
		if len(tok) != 7 {
			return "bad-op"
		}
		n, err := strconv.Atoi(tok[6])
		if err != nil || n < 1 {
			return "bad-op"
		}
		ix, err := buildC11Index(tok[5])
		if err != nil {
			return "bad-op"
		}
		ns, ss := ix.derivedSymbols()
		if tok[1] != fmt.Sprint(ix.symShift) || tok[2] != ns || tok[4] != ss {
			return "bad-op"
		}
		// a fresh header: the symbol cache starts empty
		h, err := indexheader.NewBinaryReader(context.Background(), log.NewNopLogger(), ix.bkt, "", ix.id, n, indexheader.NewBinaryReaderMetrics(nil))
		if err != nil {
			return "err:" + err.Error()
		}
		defer h.Close()
		byRef := map[uint32]string{}
		for i, sym := range ix.symbols {
			byRef[ix.symRefs[i]] = sym
		}
		var out []string
		bad := 0
		for _, f := range hlib.Split(tok[3], ",") {
			ref, err := strconv.ParseUint(f, 10, 32)
			if err != nil {
				return "bad-op"
			}
			got, err := h.LookupSymbol(context.Background(), uint32(ref))
			want, present := byRef[uint32(ref)]
			if ix.version == index.FormatV1 && !present && int(ref) < int(ix.tableEnd) {
				return "bad-op" // v1: a reference into the middle of the file decodes as whatever is there
			}
			switch {
			case err != nil:
				out = append(out, "err")
				if present {
					bad++
				}
			case got == "":
				out = append(out, "x")
				if !present || want != "" {
					bad++
				}
			default:
				out = append(out, "x"+hlib.HexS(got))
				if !present || want != got {
					bad++
				}
			}
		}
		if bad > 0 {
			c.Violation("symbol-mismatch", fmt.Sprintf("%d lookups in a sequence of %d differ from the full index", bad, len(out)))
		}
		return hlib.Join(out, ",")
	case "ih.v1":
		// ih.v1 0 <lastEnd> <table> <name> <wanted> <name hex> <wanted: x<hex>,…>     (0 = the rank of "")
		if len(tok) != 8 || tok[1] != "0" {
			return "bad-op"
		}
		tok = tok[1:]
		name, ok1 := unhexS(tok[5])
		if tok[5] == "-" {
			name, ok1 = "", true
		}
		wanted, ok2 := c11ParseWanted(tok[6])
		if !ok1 || !ok2 {
			return "bad-op"
		}
		ix, err := buildC11Index("v1")
		if err != nil {
			return "bad-op"
		}
		tbl, nm, wr, vrank := ix.derivedV1(name, wanted)
		if tok[1] != fmt.Sprint(ix.tableEnd) || tok[2] != tbl || tok[3] != nm || tok[4] != wr {
			return "bad-op"
		}
		h, err := ix.header(32)
		if err != nil {
			return "err:" + err.Error()
		}
		lv, err := h.LabelValues(name)
		lvs := "err"
		if err == nil {
			var rs []string
			for _, v := range lv {
				rs = append(rs, strconv.Itoa(vrank[v]))
			}
			lvs = hlib.Join(rs, ",")
			if strings.Join(lv, "\x00") != strings.Join(ix.values[name], "\x00") && name != "" {
				c.Violation("label-values-mismatch", fmt.Sprintf("v1 LabelValues(%q): header %q, full index %q", name, lv, ix.values[name]))
			}
		}
		rngs, err := h.PostingsOffsets(name, wanted...)
		rs := "err"
		if err == nil {
			var parts []string
			for _, r := range rngs {
				if r == indexheader.NotFoundRange {
					parts = append(parts, "nf")
				} else {
					parts = append(parts, fmt.Sprintf("%d:%d", r.Start, r.End))
				}
			}
			rs = hlib.Join(parts, ",")
			if _, known := ix.values[name]; known || name == "" {
				c11CheckRanges(c, ix, name, wanted, rngs, 0)
			} else if len(rngs) != 0 {
				c.Violation("unknown-name", fmt.Sprintf("unknown label name: %v", rngs))
			}
		} else {
			c.Violation("lookup-error", err.Error())
		}
		return fmt.Sprintf("v=%s r=%s", lvs, rs)
	case "o.ih.alias":
		return c11Alias(c, tok)
	case "o.ih.meta":
		if len(tok) != 3 {
			return "bad-op"
		}
		n, err := strconv.Atoi(tok[1])
		if err != nil || n < 1 {
			return "bad-op"
		}
		ix, err := buildC11Index(tok[2])
		if err != nil {
			return "bad-op"
		}
		h, err := ix.header(n)
		if err != nil {
			return "err:" + err.Error()
		}
		names, err := h.LabelNames()
		if err != nil || strings.Join(names, "\x00") != strings.Join(ix.names, "\x00") {
			c.Violation("label-names-mismatch", fmt.Sprintf("header %q, index %q (%v)", names, ix.names, err))
		}
		bad := 0
		for i, s := range ix.symbols {
			got, err := h.LookupSymbol(context.Background(), ix.symRefs[i])
			if err != nil || got != s {
				bad++
			}
			// a second lookup is served by the header's symbol cache
			got, err = h.LookupSymbol(context.Background(), ix.symRefs[i])
			if err != nil || got != s {
				bad++
			}
		}
		if bad > 0 {
			c.Violation("symbol-mismatch", fmt.Sprintf("%d of %d symbol lookups differ from the full index", bad, len(ix.symbols)))
		}
		// symbols that share a slot of the header's direct-mapped symbol cache (1024 slots), interleaved
		if len(ix.symbols) > 1024 {
			bad2 := 0
			for i := 0; i+1024 < len(ix.symbols); i += 37 {
				for _, j := range []int{i, i + 1024, i, i + 1024} {
					if got, err := h.LookupSymbol(context.Background(), uint32(j)); err != nil || got != ix.symbols[j] {
						bad2++
					}
				}
			}
			if bad2 > 0 {
				c.Violation("symbol-mismatch", fmt.Sprintf("%d interleaved lookups of symbols 1024 apart differ from the full index", bad2))
			}
		}
		past := uint32(len(ix.symbols))
		if ix.version == index.FormatV1 {
			past = uint32(ix.tableEnd) + 100000 // v1 references are offsets
		}
		if _, err := h.LookupSymbol(context.Background(), past); err == nil {
			c.Violation("symbol-mismatch", "lookup past the last symbol succeeds")
		}
		// single-value API and unknown names
		single, firstBad := 0, ""
		for l, exact := range ix.ranges {
			got, err := h.PostingsOffset(l.Name, l.Value)
			if err != nil || got.Start != exact.Start || (l != ix.lastLabel && got.End != exact.End) || got.End < exact.End {
				single++
				firstBad = fmt.Sprintf("PostingsOffset(%q, %q) = %v, %v; index %v", c11Abbrev(l.Name), c11Abbrev(l.Value), got, err, exact)
			}
			if _, present := ix.ranges[labels.Label{Name: l.Name, Value: l.Value + "\x00"}]; !present {
				if got, err := h.PostingsOffset(l.Name, l.Value+"\x00"); err != indexheader.NotFoundRangeErr {
					single++
					firstBad = fmt.Sprintf("PostingsOffset(%q, %q) = %v, %v; the value does not exist", l.Name, l.Value+"\x00", got, err)
				}
			}
		}
		if single > 0 {
			c.Violation("single-lookup-mismatch", fmt.Sprintf("%d single-value lookups differ from the full index, e.g. %s", single, firstBad))
		}
		if r, err := h.PostingsOffsets("no-such-name\xff", "a"); err != nil || len(r) != 0 {
			c.Violation("unknown-name", fmt.Sprintf("unknown label name: %v %v", r, err))
		}
		if v, err := h.LabelValues("no-such-name\xff"); err != nil || len(v) != 0 {
			c.Violation("unknown-name", fmt.Sprintf("LabelValues of an unknown label name: %v %v", v, err))
		}
		v, _ := h.IndexVersion()
		// the header written to a file and mmapped (the way store gateways use it) answers as the
		// in-memory one
		if dir, err := os.MkdirTemp("", "verif-c11-hdr-"); err == nil {
			hf, err := indexheader.NewBinaryReader(context.Background(), log.NewNopLogger(), ix.bkt, dir, ix.id, n, indexheader.NewBinaryReaderMetrics(nil))
			if err != nil {
				c.Violation("file-header-mismatch", "file-based header cannot be built: "+err.Error())
			} else {
				fnames, _ := hf.LabelNames()
				bad := 0
				if strings.Join(fnames, "\x00") != strings.Join(names, "\x00") {
					bad++
				}
				for _, name := range append([]string{""}, ix.names...) {
					a, _ := h.LabelValues(name)
					b, _ := hf.LabelValues(name)
					if strings.Join(a, "\x00") != strings.Join(b, "\x00") {
						bad++
					}
					ra, erra := h.PostingsOffsets(name, ix.values[name]...)
					rb, errb := hf.PostingsOffsets(name, ix.values[name]...)
					if fmt.Sprint(ra, erra) != fmt.Sprint(rb, errb) {
						bad++
					}
				}
				if fv, _ := hf.IndexVersion(); fv != v {
					bad++
				}
				if bad > 0 {
					c.Violation("file-header-mismatch", fmt.Sprintf("%d answers of the mmapped header differ from the in-memory header", bad))
				}
				hf.Close()
			}
			os.RemoveAll(dir)
		}
		return fmt.Sprintf("names=%d symbols=%d pairs=%d version=%d", len(names), len(ix.symbols), len(ix.ranges), v)
	}
	return "bad-op"
}

// ---------------------------------------------------------------- generator

func c11Value(r *hlib.Rand, style int, i int) string {
	switch style {
	case 0:
		return fmt.Sprintf("v%04d", i)
	case 1: // shared prefixes of growing length
		return strings.Repeat("a", 1+i/3) + string(rune('a'+i%3))
	case 2:
		return fmt.Sprintf("%d", i) // numeric strings: lexicographic ≠ numeric order
	case 3:
		return string(r.Bytes(r.Range(1, 6)))
	}
	return r.Pick([]string{"é", "日本", "x", "ÿ", "\x01"}) + fmt.Sprintf("%03d", i)
}

func genIndexSpec(c *hlib.Ctx, n int) (string, map[string][]string, []string) {
	r := c.R
	k := r.Range(1, 4)
	m := map[string][]string{}
	var names []string
	for len(names) < k {
		name := r.Pick([]string{"a", "job", "instance", "__name__", "zone", "le", "a_very_long_label_name_for_skipping", "é"})
		// sizes around the varint boundaries of the length prefixes (1/2 bytes at 128, 2/3 at 16384)
		sizes := []int{127, 128, 129, 200, 16383, 16384}
		nameLen, valueLen := 0, 0
		if r.Chance(1, 4) {
			nameLen = sizes[r.Intn(len(sizes))]
			name = strings.Repeat("n", nameLen-1) + string(rune('a'+len(names)))
			c.Count(fmt.Sprintf("name-bytes:%d", nameLen))
		} else {
			c.Count("name-bytes:short")
		}
		if _, ok := m[name]; ok {
			continue
		}
		cnt := []int{1, 2, 3, n - 1, n, n + 1, 2 * n, 2*n + 1, 3*n - 1, 4*n + 1, r.Range(1, 40), r.Range(20, 150), r.Range(60, 260)}[r.Intn(13)]
		if cnt < 1 {
			cnt = 1
		}
		if cnt > 260 {
			cnt = 260
		}
		if r.Chance(1, 5) {
			valueLen = sizes[r.Intn(len(sizes))]
			c.Count(fmt.Sprintf("value-bytes:%d", valueLen))
		}
		// every entry of the table repeats the name, every symbol is sent to the model once: keep big ones few
		if (nameLen >= 16383 || valueLen >= 16383) && cnt > 7 {
			cnt = 2 + cnt%6
		} else if (nameLen >= 127 || valueLen >= 127) && cnt > 40 {
			cnt = 2 + cnt%39
		}
		style := r.Intn(5)
		set := map[string]struct{}{}
		for i := 0; len(set) < cnt && i < 4*cnt+10; i++ {
			v := c11Value(r, style, i)
			if valueLen > 0 {
				// a long common run, then what tells the values apart; some values one byte shorter/longer
				tail := fmt.Sprintf("%03d", i)
				v = strings.Repeat("v", valueLen-len(tail)+[]int{0, 0, -1, 1}[i%4]) + tail
			}
			if v != "" {
				set[v] = struct{}{}
			}
		}
		var vs []string
		for v := range set {
			vs = append(vs, v)
		}
		sort.Strings(vs)
		m[name] = vs
		names = append(names, name)
	}
	sort.Strings(names)
	var parts []string
	for _, name := range names {
		hv := make([]string, len(m[name]))
		for i, v := range m[name] {
			hv[i] = c11Enc(v)
		}
		parts = append(parts, c11Enc(name)+"="+strings.Join(hv, ","))
	}
	spec := strings.Join(parts, ";")
	if r.Chance(1, 3) {
		spec = "e;" + spec
		c.Count("index:empty-string-symbol")
	}
	return spec, m, names
}

// c11GenNamesSyms: LabelNames and a sequence of symbol lookups on a fresh header.
func c11GenNamesSyms(c *hlib.Ctx, ix *c11Index, spec string, n int) {
	r := c.R
	ns, empty, _ := ix.derivedNames()
	c.Do(fmt.Sprintf("ih.names %s %s %s %d", ns, empty, spec, n), true)
	names, syms := ix.derivedSymbols()
	isName := map[string]bool{}
	for _, e := range ix.table {
		isName[e.name] = true
	}
	var refs []string
	add := func(i int, kind string) {
		refs = append(refs, fmt.Sprint(ix.symRefs[i]))
		c.Count("symref:" + kind)
		if ix.symbols[i] == "" {
			c.Count("symref:empty-string")
		} else if isName[ix.symbols[i]] {
			c.Count("symref:label-name")
		}
	}
	k := r.Range(4, 40)
	for j := 0; j < k; j++ {
		i := r.Intn(len(ix.symbols))
		switch r.Intn(8) {
		case 0: // twice in a row: the second one is a cache hit
			add(i, "repeat")
			add(i, "repeat")
		case 1: // two references that share a cache slot, interleaved
			if ix.version != index.FormatV1 && i+1024 < len(ix.symbols) {
				for _, x := range []int{i, i + 1024, i, i + 1024} {
					add(x, "same-slot")
				}
			} else if ix.version == index.FormatV1 {
				// v1 references are offsets: look for another symbol whose reference is congruent
				for x := range ix.symbols {
					if x != i && (ix.symRefs[x]+ix.symShift)%1024 == (ix.symRefs[i]+ix.symShift)%1024 {
						for _, y := range []int{i, x, i, x} {
							add(y, "same-slot")
						}
						break
					}
				}
			}
		case 2: // past the end
			if ix.version == index.FormatV1 {
				refs = append(refs, fmt.Sprint(int(ix.tableEnd)+r.Range(100000, 200000)))
			} else {
				refs = append(refs, fmt.Sprint(len(ix.symbols)+r.Intn(3)*1024))
			}
			c.Count("symref:out-of-range")
		case 3:
			add(0, "first")
			add(len(ix.symbols)-1, "last")
		default:
			add(i, "plain")
		}
	}
	c.Do(fmt.Sprintf("ih.sym %d %s %s %s %s %d", ix.symShift, names, hlib.Join(refs, ","), syms, spec, n), true)
}

// c11GenV1: the only index in format v1 there is — the package's test fixture.
func c11GenV1(c *hlib.Ctx) {
	r := c.R
	ix, err := buildC11Index("v1")
	if err != nil {
		c.Note("v1 fixture not usable: " + err.Error())
		return
	}
	c.Count("index:format-v1")
	c.Do("o.ih.meta 32 v1", true)
	for q := 0; q < c.N(2, 6); q++ {
		c11GenNamesSyms(c, ix, "v1", 32)
	}
	names := append([]string{"", "no-such-name"}, ix.names...)
	for _, name := range names {
		var vs []string
		for _, e := range ix.table {
			if e.name == name {
				vs = append(vs, e.value)
			}
		}
		sort.Strings(vs)
		for q := 0; q < c.N(6, 20); q++ {
			var wanted []string
			if len(vs) == 0 {
				wanted = []string{"a", "b"}[:r.Intn(3)]
			} else {
				wanted = genWanted(c, vs)
			}
			if q == 0 {
				wanted = vs // every value, none missing
			}
			absent := 0
			for _, w := range wanted {
				if _, ok := ix.ranges[labels.Label{Name: name, Value: w}]; !ok {
					absent++
				}
			}
			switch {
			case len(vs) == 0:
				c.Count("v1:unknown-name")
			case absent == 0:
				c.Count("v1:all-present")
			case absent == len(wanted):
				c.Count("v1:all-absent")
			default:
				c.Count("v1:some-absent")
			}
			tbl, nm, wr, _ := ix.derivedV1(name, wanted)
			hn := hlib.HexS(name)
			if name == "" {
				hn = "-"
			}
			c.Do(fmt.Sprintf("ih.v1 0 %d %s %s %s %s %s", ix.tableEnd, tbl, nm, wr, hn, c11HexList(wanted)), len(wanted) > 0)
		}
	}
}

func genWanted(c *hlib.Ctx, vs []string) []string {
	r := c.R
	k := []int{0, 1, 1, 2, 3, 4, 6, 9, 14}[r.Intn(9)]
	var w []string
	for i := 0; i < k; i++ {
		v := vs[r.Intn(len(vs))]
		switch r.Intn(10) {
		case 0:
			w = append(w, v+"\x00") // just after a present value
			c.Count("wanted:absent-just-after")
		case 1:
			if len(v) > 1 {
				w = append(w, v[:len(v)-1]) // usually just before
			} else {
				w = append(w, "")
			}
			c.Count("wanted:absent-prefix")
		case 2:
			w = append(w, r.Pick([]string{"", "\x00", "\xff\xff\xff", "~~~~", "0"}))
			c.Count("wanted:extreme")
		case 3:
			w = append(w, vs[0])
			c.Count("wanted:first")
		case 4:
			w = append(w, vs[len(vs)-1])
			c.Count("wanted:last")
		default:
			w = append(w, v)
			c.Count("wanted:present")
			if r.Chance(1, 4) {
				w = append(w, v)
				c.Count("wanted:duplicate")
			}
			if r.Chance(1, 4) {
				j := sort.SearchStrings(vs, v)
				if j+1 < len(vs) {
					w = append(w, vs[j+1]) // neighbours
					c.Count("wanted:neighbour")
				}
			}
		}
	}
	sort.Strings(w)
	return w
}

// c11VarySpec: another block with the same layout as spec — every value keeps its length, its last byte
// is changed (k-th variant), so that the two index-headers have the same size and different bytes.
func c11VarySpec(spec string, k int) string {
	m, order, ok := parseIndexSpec(spec)
	if !ok {
		return spec
	}
	var parts []string
	for _, name := range order {
		seen := map[string]bool{}
		var hv []string
		for _, v := range m[name] {
			b := []byte(v)
			b[len(b)-1] = "qzjxkwQZJX"[(int(b[len(b)-1])+k)%10]
			if k == 2 && len(b) > 1 {
				b = b[:len(b)-1] // the third variant is a little smaller
			}
			if !seen[string(b)] {
				seen[string(b)] = true
				hv = append(hv, c11Enc(string(b)))
			}
		}
		parts = append(parts, c11Enc(name)+"="+strings.Join(hv, ","))
	}
	out := strings.Join(parts, ";")
	if strings.HasPrefix(spec, "e;") {
		out = "e;" + out
	}
	return out
}

func genC11(c *hlib.Ctx) {
	r := c.R
	// one index with more symbols than the header's symbol cache has slots (meta checks only)
	{
		var hv []string
		for i := 0; i < 1300; i++ {
			hv = append(hv, hlib.HexS(fmt.Sprintf("val%05d", i)))
		}
		c.Count("index:more-than-1024-symbols")
		spec := hlib.HexS("big") + "=" + strings.Join(hv, ",")
		c.Do(fmt.Sprintf("o.ih.meta %d %s", r.Range(1, 64), spec), true)
		if ix, err := buildC11Index(spec); err == nil {
			for q := 0; q < c.N(3, 12); q++ {
				c11GenNamesSyms(c, ix, spec, 32)
			}
		}
	}
	c11GenV1(c)
	indexes := c.N(40, 260) // (every op line carries the index spec: ~2 KB per line)
	for it := 0; it < indexes; it++ {
		n := []int{1, 2, 3, 4, 5, 8, 16, 32, 64, r.Range(1, 64)}[r.Intn(10)]
		spec, m, names := genIndexSpec(c, n)
		ix, err := buildC11Index(spec)
		if err != nil {
			c.Note("index build failed: " + err.Error())
			continue
		}
		c11GenNamesSyms(c, ix, spec, n)
		if it%3 == 0 || it < 6 {
			// other blocks of the same shape (same lengths, other bytes: same header size), and one smaller
			var others []string
			for k := 0; k < r.Range(1, 3); k++ {
				o := c11VarySpec(spec, k)
				if _, err := buildC11Index(o); err == nil {
					others = append(others, o)
				}
			}
			if len(others) > 0 {
				c.Count(fmt.Sprintf("alias:other-headers=%d", len(others)))
				c.Do(fmt.Sprintf("o.ih.alias %d %d %s %s", n, r.Range(2, 4), spec, strings.Join(others, " ")), true)
			}
		}
		// several sampling rates on the same index
		rates := []int{n, r.Range(1, 64), []int{1, 2, 3, 5, 32}[r.Intn(5)]}
		for _, rate := range rates {
			c.Count(fmt.Sprintf("sampling:%s", bucket(rate)))
			c.Do(fmt.Sprintf("o.ih.meta %d %s", rate, spec), true)
			for _, name := range names {
				vs := m[name]
				c.Count(fmt.Sprintf("values-per-name:%s", bucket(len(vs))))
				switch {
				case len(vs) <= rate:
					c.Count("table:shorter-than-sampling")
				case (len(vs)-1)%rate == 0:
					c.Count("table:last-on-sample")
				default:
					c.Count("table:last-off-sample")
				}
				for q := 0; q < c.N(12, 20); q++ {
					wanted := genWanted(c, vs)
					nextOff, tbl, wr, _ := ix.derived(name, wanted)
					hw := make([]string, len(wanted))
					for i, w := range wanted {
						hw[i] = "x"
						if w != "" {
							hw[i] += c11Enc(w)
						}
					}
					c.Count(fmt.Sprintf("wanted-len:%s", bucket(len(wanted))))
					c.Do(fmt.Sprintf("ih.q %d %d %s %s %s %s %s", rate, nextOff, tbl, wr, spec, c11Enc(name), hlib.Join(hw, ",")), len(wanted) > 0)
				}
			}
		}
	}
}
