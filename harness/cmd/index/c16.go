package main

import (
	"context"
	"errors"
	"fmt"
	"math"
	"os"
	"os/exec"
	"runtime"
	"runtime/debug"
	"strconv"
	"strings"
	"sync"
	"sync/atomic"
	"time"

	"github.com/go-kit/log"
	"github.com/prometheus/client_golang/prometheus"

	"github.com/thanos-io/thanos/pkg/block/indexheader"
	"github.com/thanos-io/thanos/verifharness/hlib"
)

// C16 — lazy index headers stay correct under concurrent idle unloading.
//
// grammar (see also lean/Thanos/Driver/Index.lean)
//   lz.seq <item>(,<item>)*     calls made one after the other on one real LazyBinaryReader
//       item := q (PostingsOffsets / LabelValues / LabelNames, in turn) | u (unloadIfIdleSince(0))
//             | b (unloadIfIdleSince(1): never idle) | p (isIdleSince(far future))
//     -> <result>(,<result>)* loads=<n> unloads=<n>      result := ok | err | unloaded | noop | notidle | p0 | p1
//   lz.sched <kinds> <schedule>   model-only interleavings (corpus); the harness answers what the model must answer
//   o.lz.stress <readers> <unloaders> <calls per reader> <GOMAXPROCS> <seed>
//       real goroutines on one LazyBinaryReader (mmapped header file) in a child process; every
//       answer is compared with an always-loaded BinaryReader; the only error allowed is
//       errUnloadedWhileLoading; a crash of the child (use of an unmapped header) is a violation
//     -> ok | violation:<what>

func init() {
	props = append(props, &hlib.Prop{ID: "C16", Gen: genC16, Exec: execC16})
}

const c16Spec = "61=6131,6132,6133,6134,6135,6136,6137,6138,6139;6a6f62=78,79,7a"

type c16Fixture struct {
	ix  *c11Index
	dir string
	reg *prometheus.Registry
	lz  *indexheader.LazyBinaryReader
	ref *indexheader.BinaryReader
}

func newC16Fixture(sampling int) (*c16Fixture, error) {
	ix, err := buildC11Index(c16Spec)
	if err != nil {
		return nil, err
	}
	dir, err := os.MkdirTemp("", "verif-c16-")
	if err != nil {
		return nil, err
	}
	f := &c16Fixture{ix: ix, dir: dir, reg: prometheus.NewRegistry()}
	ctx := context.Background()
	f.lz, err = indexheader.NewLazyBinaryReader(ctx, log.NewNopLogger(), ix.bkt, dir, ix.id, sampling,
		indexheader.NewLazyBinaryReaderMetrics(f.reg), indexheader.NewBinaryReaderMetrics(nil), nil, false)
	if err != nil {
		os.RemoveAll(dir)
		return nil, err
	}
	f.ref, err = indexheader.NewBinaryReader(ctx, log.NewNopLogger(), ix.bkt, "", ix.id, sampling, indexheader.NewBinaryReaderMetrics(nil))
	if err != nil {
		os.RemoveAll(dir)
		return nil, err
	}
	return f, nil
}

func (f *c16Fixture) close() {
	_ = f.lz.Close()
	_ = f.ref.Close()
	os.RemoveAll(f.dir)
}

func (f *c16Fixture) counter(name string) int {
	mfs, _ := f.reg.Gather()
	for _, mf := range mfs {
		if mf.GetName() == name && len(mf.GetMetric()) == 1 {
			return int(mf.GetMetric()[0].GetCounter().GetValue())
		}
	}
	return -1
}

var c16Methods = []string{"PostingsOffsets", "LabelValues", "LabelNames", "PostingsOffset", "LookupSymbol", "IndexVersion"}

// c16Call runs the k-th kind of Reader method on r; the returned closure reads the answer the way
// a consumer does (it touches every byte of every returned string) and renders it canonically.
func c16Call(r indexheader.Reader, k int) (func() string, error) {
	switch k % 6 {
	case 5:
		v, err := r.IndexVersion()
		return func() string { return fmt.Sprint(v) }, err
	case 0:
		rs, err := r.PostingsOffsets("a", "a1", "a3", "a3", "a5x", "a9")
		return func() string { return fmt.Sprint(rs) }, err
	case 1:
		vs, err := r.LabelValues("a")
		return func() string { return strings.Join(vs, ",") }, err
	case 2:
		ns, err := r.LabelNames()
		return func() string { return strings.Join(ns, ",") }, err
	case 3:
		rg, err := r.PostingsOffset("job", "y")
		return func() string { return fmt.Sprint(rg) }, err
	}
	var ss []string
	for o := uint32(0); o < 14; o++ {
		s, err := r.LookupSymbol(context.Background(), o)
		if err != nil {
			return nil, err
		}
		ss = append(ss, s)
	}
	return func() string { return strings.Join(ss, ",") }, nil
}

func c16Query(r indexheader.Reader, k int) (string, error) {
	read, err := c16Call(r, k)
	if err != nil {
		return "", err
	}
	return read(), nil
}

func execC16(c *hlib.Ctx, tok []string) string {
	if len(tok) == 0 {
		return "bad-op"
	}
	switch tok[0] {
	case "lz.seq":
		if len(tok) != 2 {
			return "bad-op"
		}
		f, err := newC16Fixture(3)
		if err != nil {
			return "err:" + err.Error()
		}
		defer f.close()
		var out []string
		for k, it := range hlib.Split(tok[1], ",") {
			switch it {
			case "q":
				got, err := c16Query(f.lz, k)
				want, _ := c16Query(f.ref, k)
				switch {
				case err != nil:
					out = append(out, "err")
					c.Violation("sequential-call-error", err.Error())
				case got != want:
					out = append(out, "ok")
					c.Violation("answer-differs-from-loaded-header", fmt.Sprintf("lazy %q, always-loaded %q", got, want))
				default:
					out = append(out, "ok")
				}
			case "u", "b":
				ts := int64(0)
				if it == "b" {
					ts = 1
				}
				before := f.counter("indexheader_lazy_unload_total")
				err := indexheader.VerifUnloadIfIdleSince(f.lz, ts)
				after := f.counter("indexheader_lazy_unload_total")
				switch {
				case errors.Is(err, indexheader.VerifErrNotIdle):
					out = append(out, "notidle")
				case err != nil:
					out = append(out, "err")
				case after > before:
					out = append(out, "unloaded")
				default:
					out = append(out, "noop")
				}
			case "p":
				if indexheader.VerifIsIdleSince(f.lz, math.MaxInt64) {
					out = append(out, "p1")
				} else {
					out = append(out, "p0")
				}
			default:
				return "bad-op"
			}
		}
		return fmt.Sprintf("%s loads=%d unloads=%d", hlib.Join(out, ","), f.counter("indexheader_lazy_load_total"), f.counter("indexheader_lazy_unload_total"))
	case "lz.sched":
		// model-only op: the interleavings of the corpus are properties of the model (no use of a
		// closed or nil reader); the real code cannot be scheduled step by step without hooks
		// inside the lock calls.  The expected answer is part of the line.
		if len(tok) < 4 {
			return "bad-op"
		}
		return strings.Join(tok[3:], " ")
	case "o.lz.stress":
		if len(tok) != 6 {
			return "bad-op"
		}
		cmd := exec.Command(os.Args[0], append([]string{"c16child"}, tok[1:]...)...)
		cmd.Env = append(os.Environ(), "GOMAXPROCS="+tok[4])
		done := make(chan struct{})
		var outb []byte
		var err error
		go func() { outb, err = cmd.CombinedOutput(); close(done) }()
		select {
		case <-done:
		case <-time.After(120 * time.Second):
			_ = cmd.Process.Kill()
			<-done
			c.Violation("stress-hang", "the stress run did not finish in 120 s (deadlock?)")
			return "violation:hang"
		}
		res := strings.TrimSpace(string(outb))
		if err != nil {
			last := res
			if i := strings.Index(res, "\n"); i > 0 {
				last = res[:i]
			}
			c.Violation("stress-crash", "the stress child died: "+err.Error()+": "+short(last))
			return "violation:crash"
		}
		lines := strings.Split(res, "\n")
		final := lines[len(lines)-1]
		if strings.HasPrefix(final, "violation:") {
			parts := strings.SplitN(final, ":", 3)
			c.Violation("stress-"+parts[1], parts[len(parts)-1])
			return "violation:" + parts[1]
		}
		if strings.HasPrefix(final, "ok ") {
			for _, kv := range strings.Fields(final)[1:] {
				p := strings.SplitN(kv, "=", 2)
				if len(p) == 2 {
					n, _ := strconv.Atoi(p[1])
					c.Dist["stress:"+p[0]] += n
				}
			}
			return "ok"
		}
		c.Violation("stress-crash", "unexpected child output: "+short(final))
		return "violation:crash"
	}
	return "bad-op"
}

// c16Child is the stress run proper (executed in a child process).
func c16Child(args []string) {
	if len(args) != 5 {
		fmt.Println("violation:usage:bad arguments")
		return
	}
	readers, _ := strconv.Atoi(args[0])
	unloaders, _ := strconv.Atoi(args[1])
	calls, _ := strconv.Atoi(args[2])
	seed, _ := strconv.ParseUint(args[4], 10, 64)
	f, err := newC16Fixture(3)
	if err != nil {
		fmt.Println("violation:setup:" + err.Error())
		return
	}
	defer f.close()
	want := make([]string, 6)
	for k := range want {
		want[k], _ = c16Query(f.ref, k)
	}
	// a reader pool drives closeIdleReaders on the same kind of reader as well
	pool := indexheader.NewReaderPool(log.NewNopLogger(), true, time.Nanosecond, indexheader.NewReaderPoolMetrics(nil), indexheader.AlwaysEagerDownloadIndexHeader)
	defer pool.Close()
	pr, err := pool.NewBinaryReader(context.Background(), log.NewNopLogger(), f.ix.bkt, f.dir, f.ix.id, 3, nil)
	if err != nil {
		fmt.Println("violation:setup:" + err.Error())
		return
	}
	var bad atomic.Value
	var okCalls, unloadedErrs, unloads, sweeps int64
	stop := make(chan struct{})
	var wg, uwg sync.WaitGroup
	report := func(kind, what string) { bad.CompareAndSwap(nil, kind+":"+what) }
	for u := 0; u < unloaders; u++ {
		uwg.Add(1)
		go func(u int) {
			defer uwg.Done()
			r := hlib.NewRand(seed*1000 + uint64(u))
			for {
				select {
				case <-stop:
					return
				default:
				}
				switch r.Intn(4) {
				case 0:
					if err := indexheader.VerifUnloadIfIdleSince(f.lz, 0); err == nil {
						atomic.AddInt64(&unloads, 1)
					}
				case 1:
					_ = indexheader.VerifUnloadIfIdleSince(f.lz, time.Now().UnixNano())
				case 2:
					indexheader.VerifCloseIdleReaders(pool)
					atomic.AddInt64(&sweeps, 1)
				default:
					indexheader.VerifIsIdleSince(f.lz, time.Now().UnixNano())
				}
				for i := r.Intn(3); i > 0; i-- {
					runtime.Gosched()
				}
			}
		}(u)
	}
	for g := 0; g < readers; g++ {
		wg.Add(1)
		go func(g int) {
			defer wg.Done()
			// a fault on an unmapped address becomes a panic of this goroutine instead of a crash
			debug.SetPanicOnFault(true)
			inCall, method := false, ""
			defer func() {
				if p := recover(); p != nil {
					switch {
					case inCall:
						report("fault-inside-call", fmt.Sprintf("%s: %v", method, p))
					default:
						report("answer-in-unmapped-header", fmt.Sprintf("%s: reading the returned strings after the call: %v", method, p))
					}
				}
			}()
			r := hlib.NewRand(seed*7919 + uint64(g))
			for i := 0; i < calls && bad.Load() == nil; i++ {
				k := r.Intn(6)
				method = c16Methods[k]
				var rd indexheader.Reader = f.lz
				if r.Chance(1, 3) {
					rd = pr
				}
				inCall = true
				read, err := c16Call(rd, k)
				inCall = false
				if r.Chance(1, 4) {
					runtime.Gosched() // the consumer is descheduled between the call and the use of its answer
				}
				switch {
				case errors.Is(err, indexheader.VerifErrUnloadedWhileLoading):
					atomic.AddInt64(&unloadedErrs, 1)
				case err != nil:
					report("error", err.Error())
				default:
					if got := read(); got != want[k] {
						report("wrong-answer", fmt.Sprintf("%s: got %q want %q", method, got, want[k]))
					} else {
						atomic.AddInt64(&okCalls, 1)
					}
				}
			}
		}(g)
	}
	wg.Wait()
	close(stop)
	uwg.Wait()
	_ = pr.Close()
	if b := bad.Load(); b != nil {
		fmt.Println("violation:" + b.(string))
		return
	}
	fmt.Printf("ok calls=%d unloaded-while-loading=%d unloads=%d sweeps=%d loads=%d\n", okCalls, unloadedErrs, unloads, sweeps, f.counter("indexheader_lazy_load_total"))
}

// ---------------------------------------------------------------- generator

func genC16(c *hlib.Ctx) {
	r := c.R
	for i := 0; i < c.N(60, 500); i++ {
		n := r.Range(1, 14)
		items := make([]string, n)
		for j := range items {
			items[j] = string("qqqubp"[r.Intn(6)])
			c.Count("seq:" + items[j])
		}
		c.Do("lz.seq "+strings.Join(items, ","), true)
	}
	// stress: real goroutines, for a total of a few seconds
	runs := c.N(6, 40)
	for i := 0; i < runs; i++ {
		readers := r.Range(2, 8)
		unloaders := r.Range(1, 3)
		procs := []int{2, 8}[r.Intn(2)]
		c.Count(fmt.Sprintf("stress:gomaxprocs=%d", procs))
		c.Do(fmt.Sprintf("o.lz.stress %d %d %d %d %d", readers, unloaders, c.N(3000, 10000), procs, r.Intn(1<<30)), true)
	}
}
