package main

import (
	"context"
	"errors"
	"fmt"
	"io"
	"math"
	"os"
	"os/exec"
	"path/filepath"
	"runtime"
	"runtime/debug"
	"strconv"
	"strings"
	"sync"
	"sync/atomic"
	"time"

	"github.com/go-kit/log"
	"github.com/prometheus/client_golang/prometheus"
	"github.com/thanos-io/objstore"

	"github.com/thanos-io/thanos/pkg/block/indexheader"
	"github.com/thanos-io/thanos/verifharness/hlib"
)

// C16 — lazy index headers stay correct under concurrent idle unloading.
//
// grammar (see also lean/Thanos/Driver/Index.lean)
//   lz.seq <item>(,<item>)*     calls made one after the other on one real LazyBinaryReader
//       item := q (PostingsOffsets / LabelValues / LabelNames, in turn) | u (unloadIfIdleSince(0))
//             | b (unloadIfIdleSince(1): never idle) | p (isIdleSince(far future))
//     -> <result>(,<result>)* loads=<n> unloads=<n>      result := ok | err | unloaded | noop | notidle | p0 | p1
//   lz.seqf <item>(,<item>)*    as lz.seq with x (the header file is deleted and the bucket goes down: the next
//       NewBinaryReader fails) and h (the bucket is back); result also lerr; -> … loads=<n> failed=<n> unloads=<n>
//   lz.pool <0|1> <op>(,<op>)*  a real ReaderPool (1 = idle timeout 1h, 0 = none): n | u<i> | a<i> (last use moved
//       2h back) | c<i> | s (closeIdleReaders)  -> per op <tracked bits>/<loaded bits>, unloads=<n>
//   lz.sched <kinds> <schedule>   model-only interleavings (corpus); the harness answers what the model must answer
//   o.lz.stress <readers> <unloaders> <calls per reader> <GOMAXPROCS> <seed>
//       real goroutines on one LazyBinaryReader (mmapped header file) in a child process; every
//       answer is compared with an always-loaded BinaryReader; the only error allowed is
//       errUnloadedWhileLoading; a crash of the child (use of an unmapped header) is a violation
//     -> ok | violation:<what>

func init() {
	props = append(props, &hlib.Prop{ID: "C16", Gen: genC16, Exec: execC16})
}

const c16Spec = "61=6131,6132,6133,6134,6135,6136,6137,6138,6139;6a6f62=78,79,7a"

type c16Fixture struct {
	ix  *c11Index
	dir string
	reg *prometheus.Registry
	lz  *indexheader.LazyBinaryReader
	ref *indexheader.BinaryReader
}

func newC16Fixture(sampling int) (*c16Fixture, error) {
	ix, err := buildC11Index(c16Spec)
	if err != nil {
		return nil, err
	}
	dir, err := os.MkdirTemp("", "verif-c16-")
	if err != nil {
		return nil, err
	}
	f := &c16Fixture{ix: ix, dir: dir, reg: prometheus.NewRegistry()}
	ctx := context.Background()
	f.lz, err = indexheader.NewLazyBinaryReader(ctx, log.NewNopLogger(), ix.bkt, dir, ix.id, sampling,
		indexheader.NewLazyBinaryReaderMetrics(f.reg), indexheader.NewBinaryReaderMetrics(nil), nil, false)
	if err != nil {
		os.RemoveAll(dir)
		return nil, err
	}
	f.ref, err = indexheader.NewBinaryReader(ctx, log.NewNopLogger(), ix.bkt, "", ix.id, sampling, indexheader.NewBinaryReaderMetrics(nil))
	if err != nil {
		os.RemoveAll(dir)
		return nil, err
	}
	return f, nil
}

func (f *c16Fixture) close() {
	_ = f.lz.Close()
	_ = f.ref.Close()
	os.RemoveAll(f.dir)
}

func (f *c16Fixture) counter(name string) int {
	mfs, _ := f.reg.Gather()
	for _, mf := range mfs {
		if mf.GetName() == name && len(mf.GetMetric()) == 1 {
			return int(mf.GetMetric()[0].GetCounter().GetValue())
		}
	}
	return -1
}

var c16Methods = []string{"PostingsOffsets", "LabelValues", "LabelNames", "PostingsOffset", "LookupSymbol", "IndexVersion"}

// c16Call runs the k-th kind of Reader method on r; the returned closure reads the answer the way
// a consumer does (it touches every byte of every returned string) and renders it canonically.
func c16Call(r indexheader.Reader, k int) (func() string, error) {
	switch k % 6 {
	case 5:
		v, err := r.IndexVersion()
		return func() string { return fmt.Sprint(v) }, err
	case 0:
		rs, err := r.PostingsOffsets("a", "a1", "a3", "a3", "a5x", "a9")
		return func() string { return fmt.Sprint(rs) }, err
	case 1:
		vs, err := r.LabelValues("a")
		return func() string { return strings.Join(vs, ",") }, err
	case 2:
		ns, err := r.LabelNames()
		return func() string { return strings.Join(ns, ",") }, err
	case 3:
		rg, err := r.PostingsOffset("job", "y")
		return func() string { return fmt.Sprint(rg) }, err
	}
	var ss []string
	for o := uint32(0); o < 14; o++ {
		s, err := r.LookupSymbol(context.Background(), o)
		if err != nil {
			return nil, err
		}
		ss = append(ss, s)
	}
	return func() string { return strings.Join(ss, ",") }, nil
}

func c16Query(r indexheader.Reader, k int) (string, error) {
	read, err := c16Call(r, k)
	if err != nil {
		return "", err
	}
	return read(), nil
}

func execC16(c *hlib.Ctx, tok []string) string {
	if len(tok) == 0 {
		return "bad-op"
	}
	switch tok[0] {
	case "lz.seq":
		if len(tok) != 2 {
			return "bad-op"
		}
		f, err := newC16Fixture(3)
		if err != nil {
			return "err:" + err.Error()
		}
		defer f.close()
		var out []string
		for k, it := range hlib.Split(tok[1], ",") {
			switch it {
			case "q":
				got, err := c16Query(f.lz, k)
				want, _ := c16Query(f.ref, k)
				switch {
				case err != nil:
					out = append(out, "err")
					c.Violation("sequential-call-error", err.Error())
				case got != want:
					out = append(out, "ok")
					c.Violation("answer-differs-from-loaded-header", fmt.Sprintf("lazy %q, always-loaded %q", got, want))
				default:
					out = append(out, "ok")
				}
			case "u", "b":
				ts := int64(0)
				if it == "b" {
					ts = 1
				}
				before := f.counter("indexheader_lazy_unload_total")
				err := indexheader.VerifUnloadIfIdleSince(f.lz, ts)
				after := f.counter("indexheader_lazy_unload_total")
				switch {
				case errors.Is(err, indexheader.VerifErrNotIdle):
					out = append(out, "notidle")
				case err != nil:
					out = append(out, "err")
				case after > before:
					out = append(out, "unloaded")
				default:
					out = append(out, "noop")
				}
			case "p":
				if indexheader.VerifIsIdleSince(f.lz, math.MaxInt64) {
					out = append(out, "p1")
				} else {
					out = append(out, "p0")
				}
			default:
				return "bad-op"
			}
		}
		return fmt.Sprintf("%s loads=%d unloads=%d", hlib.Join(out, ","), f.counter("indexheader_lazy_load_total"), f.counter("indexheader_lazy_unload_total"))
	case "lz.seqf":
		if len(tok) != 2 {
			return "bad-op"
		}
		return c16SeqF(c, tok[1])
	case "lz.pool":
		if len(tok) != 3 || (tok[1] != "0" && tok[1] != "1") {
			return "bad-op"
		}
		return c16Pool(c, tok[1] == "1", tok[2])
	case "lz.sched":
		// model-only op: the interleavings of the corpus are properties of the model (no use of a
		// closed or nil reader); the real code cannot be scheduled step by step without hooks
		// inside the lock calls.  The expected answer is part of the line.
		if len(tok) < 4 {
			return "bad-op"
		}
		return strings.Join(tok[3:], " ")
	case "o.lz.stress":
		if len(tok) != 6 {
			return "bad-op"
		}
		cmd := exec.Command(os.Args[0], append([]string{"c16child"}, tok[1:]...)...)
		cmd.Env = append(os.Environ(), "GOMAXPROCS="+tok[4])
		done := make(chan struct{})
		var outb []byte
		var err error
		go func() { outb, err = cmd.CombinedOutput(); close(done) }()
		select {
		case <-done:
		case <-time.After(120 * time.Second):
			_ = cmd.Process.Kill()
			<-done
			c.Violation("stress-hang", "the stress run did not finish in 120 s (deadlock?)")
			return "violation:hang"
		}
		res := strings.TrimSpace(string(outb))
		if err != nil {
			last := res
			if i := strings.Index(res, "\n"); i > 0 {
				last = res[:i]
			}
			c.Violation("stress-crash", "the stress child died: "+err.Error()+": "+short(last))
			return "violation:crash"
		}
		lines := strings.Split(res, "\n")
		final := lines[len(lines)-1]
		if strings.HasPrefix(final, "violation:") {
			parts := strings.SplitN(final, ":", 3)
			c.Violation("stress-"+parts[1], parts[len(parts)-1])
			return "violation:" + parts[1]
		}
		if strings.HasPrefix(final, "ok ") {
			for _, kv := range strings.Fields(final)[1:] {
				p := strings.SplitN(kv, "=", 2)
				if len(p) == 2 {
					n, _ := strconv.Atoi(p[1])
					c.Dist["stress:"+p[0]] += n
				}
			}
			return "ok"
		}
		c.Violation("stress-crash", "unexpected child output: "+short(final))
		return "violation:crash"
	}
	return "bad-op"
}

// c16Bucket is a bucket that can be switched off.
type c16Bucket struct {
	objstore.BucketReader
	down atomic.Bool
}

var errC16Down = errors.New("bucket is down")

func (b *c16Bucket) Get(ctx context.Context, name string) (io.ReadCloser, error) {
	if b.down.Load() {
		return nil, errC16Down
	}
	return b.BucketReader.Get(ctx, name)
}
func (b *c16Bucket) GetRange(ctx context.Context, name string, off, length int64) (io.ReadCloser, error) {
	if b.down.Load() {
		return nil, errC16Down
	}
	return b.BucketReader.GetRange(ctx, name, off, length)
}
func (b *c16Bucket) Exists(ctx context.Context, name string) (bool, error) {
	if b.down.Load() {
		return false, errC16Down
	}
	return b.BucketReader.Exists(ctx, name)
}
func (b *c16Bucket) Attributes(ctx context.Context, name string) (objstore.ObjectAttributes, error) {
	if b.down.Load() {
		return objstore.ObjectAttributes{}, errC16Down
	}
	return b.BucketReader.Attributes(ctx, name)
}

// c16SeqF: lz.seq in an environment where loading can fail: "x" deletes the index-header file and
// switches the bucket off (the next NewBinaryReader fails), "h" switches the bucket on again.
func c16SeqF(c *hlib.Ctx, script string) string {
	ix, err := buildC11Index(c16Spec)
	if err != nil {
		return "err:" + err.Error()
	}
	dir, err := os.MkdirTemp("", "verif-c16f-")
	if err != nil {
		return "err:" + err.Error()
	}
	defer os.RemoveAll(dir)
	ctx := context.Background()
	bkt := &c16Bucket{BucketReader: ix.bkt}
	f := &c16Fixture{ix: ix, dir: dir, reg: prometheus.NewRegistry()}
	f.lz, err = indexheader.NewLazyBinaryReader(ctx, log.NewNopLogger(), bkt, dir, ix.id, 3,
		indexheader.NewLazyBinaryReaderMetrics(f.reg), indexheader.NewBinaryReaderMetrics(nil), nil, false)
	if err != nil {
		return "err:" + err.Error()
	}
	defer f.lz.Close()
	f.ref, err = indexheader.NewBinaryReader(ctx, log.NewNopLogger(), ix.bkt, "", ix.id, 3, indexheader.NewBinaryReaderMetrics(nil))
	if err != nil {
		return "err:" + err.Error()
	}
	defer f.ref.Close()
	var out []string
	everBroken := false
	for k, it := range hlib.Split(script, ",") {
		switch it {
		case "x":
			everBroken = true
			bkt.down.Store(true)
			_ = os.Remove(filepath.Join(dir, ix.id.String(), "index-header"))
		case "h":
			bkt.down.Store(false)
		case "q":
			got, err := c16Query(f.lz, k)
			want, _ := c16Query(f.ref, k)
			switch {
			case errors.Is(err, indexheader.VerifErrUnloadedWhileLoading):
				out = append(out, "err")
				c.Violation("sequential-call-error", err.Error())
			case err != nil:
				out = append(out, "lerr")
				if !everBroken {
					c.Violation("load-error-without-cause", err.Error())
				}
			case got != want:
				out = append(out, "ok")
				c.Violation("answer-differs-from-loaded-header", fmt.Sprintf("lazy %q, always-loaded %q", got, want))
			default:
				out = append(out, "ok")
			}
		case "u", "b":
			ts := int64(0)
			if it == "b" {
				ts = 1
			}
			before := f.counter("indexheader_lazy_unload_total")
			err := indexheader.VerifUnloadIfIdleSince(f.lz, ts)
			after := f.counter("indexheader_lazy_unload_total")
			switch {
			case errors.Is(err, indexheader.VerifErrNotIdle):
				out = append(out, "notidle")
			case err != nil:
				out = append(out, "err")
			case after > before:
				out = append(out, "unloaded")
			default:
				out = append(out, "noop")
			}
		case "p":
			if indexheader.VerifIsIdleSince(f.lz, math.MaxInt64) {
				out = append(out, "p1")
			} else {
				out = append(out, "p0")
			}
		default:
			return "bad-op"
		}
	}
	loads, failed := f.counter("indexheader_lazy_load_total"), f.counter("indexheader_lazy_load_failed_total")
	if failed > loads || failed > 1 && !everBroken {
		c.Violation("load-counters", fmt.Sprintf("loads=%d failed=%d", loads, failed))
	}
	return fmt.Sprintf("%s loads=%d failed=%d unloads=%d", hlib.Join(out, ","), loads, failed, f.counter("indexheader_lazy_unload_total"))
}

// c16Pool: one real ReaderPool and the lazy readers it hands out, driven call by call.
func c16Pool(c *hlib.Ctx, tracking bool, script string) string {
	ix, err := buildC11Index(c16Spec)
	if err != nil {
		return "err:" + err.Error()
	}
	dir, err := os.MkdirTemp("", "verif-c16p-")
	if err != nil {
		return "err:" + err.Error()
	}
	defer os.RemoveAll(dir)
	ctx := context.Background()
	reg := prometheus.NewRegistry()
	// an idle timeout of one hour: the pool's own sweeper (every 6 minutes) never runs during the
	// case; readers are aged by moving their last-use stamp two hours back
	timeout := time.Hour
	if !tracking {
		timeout = 0
	}
	pool := indexheader.NewReaderPool(log.NewNopLogger(), true, timeout, indexheader.NewReaderPoolMetrics(reg), indexheader.AlwaysEagerDownloadIndexHeader)
	defer pool.Close()
	ref, err := indexheader.NewBinaryReader(ctx, log.NewNopLogger(), ix.bkt, "", ix.id, 3, indexheader.NewBinaryReaderMetrics(nil))
	if err != nil {
		return "err:" + err.Error()
	}
	defer ref.Close()
	var readers []*indexheader.LazyBinaryReader
	defer func() {
		for _, r := range readers {
			_ = r.Close()
		}
	}()
	// the oracle's own picture
	var closed, aged, loaded []bool
	counter := func() int {
		mfs, _ := reg.Gather()
		for _, mf := range mfs {
			if mf.GetName() == "indexheader_lazy_unload_total" && len(mf.GetMetric()) == 1 {
				return int(mf.GetMetric()[0].GetCounter().GetValue())
			}
		}
		return -1
	}
	bits := func(f func(i int) bool) string {
		if len(readers) == 0 {
			return "-"
		}
		b := make([]byte, len(readers))
		for i := range readers {
			b[i] = '0'
			if f(i) {
				b[i] = '1'
			}
		}
		return string(b)
	}
	var out []string
	for k, it := range hlib.Split(script, ",") {
		idx := -1
		if len(it) > 1 {
			n, err := strconv.Atoi(it[1:])
			if err != nil || n < 0 {
				return "bad-op"
			}
			idx = n
		}
		switch {
		case it == "n":
			r, err := pool.NewBinaryReader(ctx, log.NewNopLogger(), ix.bkt, dir, ix.id, 3, nil)
			if err != nil {
				return "err:" + err.Error()
			}
			readers = append(readers, r.(*indexheader.LazyBinaryReader))
			closed, aged, loaded = append(closed, false), append(aged, false), append(loaded, false)
		case it == "s":
			before := append([]bool(nil), loaded...)
			indexheader.VerifCloseIdleReaders(pool)
			for i, r := range readers {
				now := indexheader.VerifIsIdleSince(r, math.MaxInt64)
				switch {
				case before[i] && tracking && !closed[i] && aged[i] && now:
					c.Violation("idle-reader-not-unloaded", fmt.Sprintf("reader %d is tracked, loaded and idle, the sweep left it loaded", i))
				case before[i] && !aged[i] && !now:
					c.Violation("busy-reader-unloaded", fmt.Sprintf("reader %d was used within the idle timeout, the sweep unloaded it", i))
				case !before[i] && now:
					c.Violation("sweep-loaded-a-reader", fmt.Sprintf("reader %d", i))
				}
				loaded[i] = now
			}
		case idx >= 0 && idx >= len(readers):
			// no such reader: nothing happens (in the model as well)
		case it[0] == 'u':
			got, err := c16Query(readers[idx], k)
			want, _ := c16Query(ref, k)
			if err != nil {
				c.Violation("sequential-call-error", err.Error())
			} else if got != want {
				c.Violation("answer-differs-from-loaded-header", fmt.Sprintf("lazy %q, always-loaded %q", got, want))
			}
			aged[idx], loaded[idx] = false, true
		case it[0] == 'a':
			indexheader.VerifSetUsedAt(readers[idx], time.Now().Add(-2*time.Hour).UnixNano())
			aged[idx] = true
		case it[0] == 'c':
			if err := readers[idx].Close(); err != nil {
				c.Violation("close-error", err.Error())
			}
			closed[idx], loaded[idx] = true, false
		default:
			return "bad-op"
		}
		for i, r := range readers {
			tr := indexheader.VerifIsTracking(pool, r)
			switch {
			case closed[i] && tr:
				c.Violation("closed-reader-still-tracked", fmt.Sprintf("reader %d after %s", i, it))
			case !closed[i] && tracking && !tr:
				c.Violation("open-reader-not-tracked", fmt.Sprintf("reader %d after %s", i, it))
			case !tracking && tr:
				c.Violation("tracked-without-sweeping", fmt.Sprintf("reader %d after %s", i, it))
			}
		}
		out = append(out, bits(func(i int) bool { return indexheader.VerifIsTracking(pool, readers[i]) })+"/"+
			bits(func(i int) bool { return indexheader.VerifIsIdleSince(readers[i], math.MaxInt64) }))
	}
	return fmt.Sprintf("%s unloads=%d", hlib.Join(out, ","), counter())
}

// c16Child is the stress run proper (executed in a child process).
func c16Child(args []string) {
	if len(args) != 5 {
		fmt.Println("violation:usage:bad arguments")
		return
	}
	readers, _ := strconv.Atoi(args[0])
	unloaders, _ := strconv.Atoi(args[1])
	calls, _ := strconv.Atoi(args[2])
	seed, _ := strconv.ParseUint(args[4], 10, 64)
	f, err := newC16Fixture(3)
	if err != nil {
		fmt.Println("violation:setup:" + err.Error())
		return
	}
	defer f.close()
	want := make([]string, 6)
	for k := range want {
		want[k], _ = c16Query(f.ref, k)
	}
	// a reader pool drives closeIdleReaders on the same kind of reader as well
	pool := indexheader.NewReaderPool(log.NewNopLogger(), true, time.Nanosecond, indexheader.NewReaderPoolMetrics(nil), indexheader.AlwaysEagerDownloadIndexHeader)
	defer pool.Close()
	pr, err := pool.NewBinaryReader(context.Background(), log.NewNopLogger(), f.ix.bkt, f.dir, f.ix.id, 3, nil)
	if err != nil {
		fmt.Println("violation:setup:" + err.Error())
		return
	}
	var bad atomic.Value
	var okCalls, unloadedErrs, unloads, sweeps int64
	stop := make(chan struct{})
	var wg, uwg sync.WaitGroup
	report := func(kind, what string) { bad.CompareAndSwap(nil, kind+":"+what) }
	for u := 0; u < unloaders; u++ {
		uwg.Add(1)
		go func(u int) {
			defer uwg.Done()
			r := hlib.NewRand(seed*1000 + uint64(u))
			for {
				select {
				case <-stop:
					return
				default:
				}
				switch r.Intn(4) {
				case 0:
					if err := indexheader.VerifUnloadIfIdleSince(f.lz, 0); err == nil {
						atomic.AddInt64(&unloads, 1)
					}
				case 1:
					_ = indexheader.VerifUnloadIfIdleSince(f.lz, time.Now().UnixNano())
				case 2:
					indexheader.VerifCloseIdleReaders(pool)
					atomic.AddInt64(&sweeps, 1)
				default:
					indexheader.VerifIsIdleSince(f.lz, time.Now().UnixNano())
				}
				for i := r.Intn(3); i > 0; i-- {
					runtime.Gosched()
				}
			}
		}(u)
	}
	for g := 0; g < readers; g++ {
		wg.Add(1)
		go func(g int) {
			defer wg.Done()
			// a fault on an unmapped address becomes a panic of this goroutine instead of a crash
			debug.SetPanicOnFault(true)
			inCall, method := false, ""
			defer func() {
				if p := recover(); p != nil {
					switch {
					case inCall:
						report("fault-inside-call", fmt.Sprintf("%s: %v", method, p))
					default:
						report("answer-in-unmapped-header", fmt.Sprintf("%s: reading the returned strings after the call: %v", method, p))
					}
				}
			}()
			r := hlib.NewRand(seed*7919 + uint64(g))
			for i := 0; i < calls && bad.Load() == nil; i++ {
				k := r.Intn(6)
				method = c16Methods[k]
				var rd indexheader.Reader = f.lz
				if r.Chance(1, 3) {
					rd = pr
				}
				inCall = true
				read, err := c16Call(rd, k)
				inCall = false
				if r.Chance(1, 4) {
					runtime.Gosched() // the consumer is descheduled between the call and the use of its answer
				}
				switch {
				case errors.Is(err, indexheader.VerifErrUnloadedWhileLoading):
					atomic.AddInt64(&unloadedErrs, 1)
				case err != nil:
					report("error", err.Error())
				default:
					if got := read(); got != want[k] {
						report("wrong-answer", fmt.Sprintf("%s: got %q want %q", method, got, want[k]))
					} else {
						atomic.AddInt64(&okCalls, 1)
					}
				}
			}
		}(g)
	}
	wg.Wait()
	close(stop)
	uwg.Wait()
	_ = pr.Close()
	if b := bad.Load(); b != nil {
		fmt.Println("violation:" + b.(string))
		return
	}
	fmt.Printf("ok calls=%d unloaded-while-loading=%d unloads=%d sweeps=%d loads=%d\n", okCalls, unloadedErrs, unloads, sweeps, f.counter("indexheader_lazy_load_total"))
}

// ---------------------------------------------------------------- generator

func genC16(c *hlib.Ctx) {
	r := c.R
	for i := 0; i < c.N(60, 500); i++ {
		n := r.Range(1, 14)
		items := make([]string, n)
		for j := range items {
			items[j] = string("qqqubp"[r.Intn(6)])
			c.Count("seq:" + items[j])
		}
		c.Do("lz.seq "+strings.Join(items, ","), true)
	}
	// load failures
	for i := 0; i < c.N(40, 300); i++ {
		n := r.Range(2, 14)
		items := make([]string, n)
		for j := range items {
			items[j] = string("qqqqubpxxh"[r.Intn(10)])
			c.Count("seqf:" + items[j])
		}
		c.Do("lz.seqf "+strings.Join(items, ","), true)
	}
	// the pool's set of tracked readers
	for i := 0; i < c.N(40, 300); i++ {
		n := r.Range(2, 16)
		items := []string{"n"}
		created := 1
		for j := 1; j < n; j++ {
			k := r.Intn(created)
			switch r.Intn(10) {
			case 0, 1:
				items = append(items, "n")
				created++
			case 2, 3, 4:
				items = append(items, fmt.Sprintf("u%d", k))
			case 5, 6:
				items = append(items, fmt.Sprintf("a%d", k))
			case 7:
				items = append(items, fmt.Sprintf("c%d", k))
			default:
				items = append(items, "s")
			}
			c.Count("pool:" + items[len(items)-1][:1])
		}
		tr := "1"
		if r.Chance(1, 5) {
			tr = "0"
			c.Count("pool:not-sweeping")
		}
		c.Do("lz.pool "+tr+" "+strings.Join(items, ","), true)
	}
	// stress: real goroutines, for a total of a few seconds
	runs := c.N(6, 40)
	for i := 0; i < runs; i++ {
		readers := r.Range(2, 8)
		unloaders := r.Range(1, 3)
		procs := []int{2, 8}[r.Intn(2)]
		c.Count(fmt.Sprintf("stress:gomaxprocs=%d", procs))
		c.Do(fmt.Sprintf("o.lz.stress %d %d %d %d %d", readers, unloaders, c.N(3000, 10000), procs, r.Intn(1<<30)), true)
	}
}
