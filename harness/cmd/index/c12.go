package main

import (
	"encoding/binary"
	"fmt"
	"hash/crc32"
	"hash/fnv"
	"sort"
	"strconv"
	"strings"

	"github.com/golang/snappy"
	"github.com/klauspost/compress/s2"
	"github.com/prometheus/prometheus/storage"
	"github.com/prometheus/prometheus/tsdb/index"

	"github.com/thanos-io/thanos/pkg/store"
	"github.com/thanos-io/thanos/verifharness/hlib"
)

// C12 — cached posting-list encodings decode to the original list.
//
// grammar (see also lean/Thanos/Driver/Index.lean)
//   list   := "-" | <uint64>(,<uint64>)*
//   script := "-" | op(,op)*      op := n (Next) | s<x> (Seek(x)) | d (call Next until false)
//   trace  := one item per op: t<At> | f | D<count>/<sum mod 2^64>/<Σ (i+1)·v_i mod 2^64>[=v.v.v if count ≤ 40]
//   chunk  := u<hex> (uncompressed data chunk) | c<hex> (compressed data chunk) | p<hex> (skippable chunk, no data)
//   pc.enc <list>                               -> hex of the diff+uvarint payload | unsorted
//   pc.rt  dvs|dss|dsp <list> <chunk lengths> <script>      (dsp: diffVarintEncodeNoHeader + snappyStreamedEncode)
//                                               -> <payload length>/<fnv1a-32 of payload> <trace> e<0|1> | unsorted
//        real encode with the codec, real decode, run the script.  The chunk lengths are those of
//        the real snappy stream (third-party input for the model; verified again by Exec).
//   pc.dec dvs|dss <chunk>(|<chunk>)* <script>  -> <trace> e<0|1>
//        the given payload framed by the harness (arbitrary chunk boundaries, malformed payloads),
//        decoded by the real decoder

func init() {
	props = append(props, &hlib.Prop{ID: "C12", Gen: genC12, Exec: execC12})
}

func parseRefs(s string) ([]storage.SeriesRef, bool) {
	var out []storage.SeriesRef
	for _, t := range hlib.Split(s, ",") {
		v, err := strconv.ParseUint(t, 10, 64)
		if err != nil {
			return nil, false
		}
		out = append(out, storage.SeriesRef(v))
	}
	return out, true
}

func refsTok(l []storage.SeriesRef) string {
	if len(l) == 0 {
		return "-"
	}
	var sb strings.Builder
	for i, v := range l {
		if i > 0 {
			sb.WriteByte(',')
		}
		sb.WriteString(strconv.FormatUint(uint64(v), 10))
	}
	return sb.String()
}

func sortedRefs(l []storage.SeriesRef) bool {
	return sort.SliceIsSorted(l, func(i, j int) bool { return l[i] < l[j] })
}

type c12Cmd struct {
	kind byte // 'n', 's', 'd'
	x    uint64
}

func parseScript(s string) ([]c12Cmd, bool) {
	var out []c12Cmd
	for _, t := range hlib.Split(s, ",") {
		switch {
		case t == "n":
			out = append(out, c12Cmd{kind: 'n'})
		case t == "d":
			out = append(out, c12Cmd{kind: 'd'})
		case strings.HasPrefix(t, "s"):
			x, err := strconv.ParseUint(t[1:], 10, 64)
			if err != nil {
				return nil, false
			}
			out = append(out, c12Cmd{kind: 's', x: x})
		default:
			return nil, false
		}
	}
	return out, true
}

func showDrain(vs []uint64) string {
	var sum, ws uint64
	for i, v := range vs {
		sum += v
		ws += uint64(i+1) * v
	}
	s := fmt.Sprintf("D%d/%d/%d", len(vs), sum, ws)
	if len(vs) > 0 && len(vs) <= 40 {
		p := make([]string, len(vs))
		for i, v := range vs {
			p[i] = strconv.FormatUint(v, 10)
		}
		s += "=" + strings.Join(p, ".")
	}
	return s
}

// runScript runs the script on a Postings iterator.  stopAtFalse: stop after the first call that
// returned false (the index.Postings contract says nothing about calls after that).
func runScript(p index.Postings, cmds []c12Cmd, stopAtFalse bool) []string {
	var tr []string
	for _, c := range cmds {
		ok := true
		switch c.kind {
		case 'n':
			ok = p.Next()
			if ok {
				tr = append(tr, "t"+strconv.FormatUint(uint64(p.At()), 10))
			} else {
				tr = append(tr, "f")
			}
		case 's':
			ok = p.Seek(storage.SeriesRef(c.x))
			if ok {
				tr = append(tr, "t"+strconv.FormatUint(uint64(p.At()), 10))
			} else {
				tr = append(tr, "f")
			}
		case 'd':
			var vs []uint64
			for p.Next() {
				vs = append(vs, uint64(p.At()))
			}
			tr = append(tr, showDrain(vs))
			ok = false
		}
		if !ok && stopAtFalse {
			break
		}
	}
	return tr
}

func encodeWith(codec string, l []storage.SeriesRef) ([]byte, error) {
	p := index.NewListPostings(l)
	switch codec {
	case "dvs":
		return store.VerifDiffVarintSnappyEncode(p, len(l))
	case "dsp": // the path of fetched postings: diff+varint bytes first, then the streamed snappy framing
		payload, err := store.VerifDiffVarintEncodeNoHeader(p, len(l))
		if err != nil {
			return nil, err
		}
		return store.VerifSnappyStreamedEncode(len(l), payload)
	}
	return store.VerifDiffVarintSnappyStreamedEncode(p, len(l))
}

// payloadChunks extracts the decoded payloads of the data chunks of an encoded posting list
// (snappy block for "dvs", snappy framing for "dss"): third-party decoding, done with the
// library itself.
func payloadChunks(codec string, enc []byte) ([][]byte, error) {
	hdr := codec
	if codec == "dsp" {
		hdr = "dss"
	}
	if len(enc) < 3 || string(enc[:3]) != hdr {
		return nil, fmt.Errorf("missing header")
	}
	in := enc[3:]
	if codec == "dvs" {
		raw, err := snappy.Decode(nil, in)
		if err != nil {
			return nil, err
		}
		return [][]byte{raw}, nil
	}
	var out [][]byte
	for len(in) > 0 {
		if len(in) < 4 {
			return nil, fmt.Errorf("short chunk header")
		}
		typ := in[0]
		n := int(in[1]) | int(in[2])<<8 | int(in[3])<<16
		in = in[4:]
		if len(in) < n {
			return nil, fmt.Errorf("short chunk")
		}
		body := in[:n]
		in = in[n:]
		switch typ {
		case 0xff: // stream identifier
		default:
			// the encoders write identifier, compressed and uncompressed chunks only (padding 0xfe
			// needs s2.WriterPadding, which snappy.NewBufferedWriter does not set); the decoder
			// rejects 0xfe, so an encoder that pads would make cached postings undecodable
			return nil, fmt.Errorf("unexpected chunk type 0x%02x in the encoder's output", typ)
		case 0x00:
			raw, err := s2.Decode(nil, body[4:])
			if err != nil {
				return nil, err
			}
			out = append(out, raw)
		case 0x01:
			out = append(out, body[4:])
		}
	}
	return out, nil
}

var c12Castagnoli = crc32.MakeTable(crc32.Castagnoli)

func maskedCRC(b []byte) uint32 {
	c := crc32.Update(0, c12Castagnoli, b)
	return uint32(c>>15|c<<17) + 0xa282ead8
}

func frameChunk(typ byte, body []byte) []byte {
	n := len(body)
	return append([]byte{typ, byte(n), byte(n >> 8), byte(n >> 16)}, body...)
}

// buildEncoded frames the given payload chunks the way the codecs store them.
func buildEncoded(codec string, chunks []string) ([]byte, bool) {
	if codec == "dvs" {
		var all []byte
		for _, c := range chunks {
			if len(c) == 0 || c[0] == 'p' {
				continue
			}
			b, err := hlib.UnHex(c[1:])
			if err != nil {
				return nil, false
			}
			all = append(all, b...)
		}
		return append([]byte("dvs"), snappy.Encode(nil, all)...), true
	}
	out := []byte("dss")
	out = append(out, frameChunk(0xff, []byte("sNaPpY"))...)
	for _, c := range chunks {
		if len(c) == 0 {
			return nil, false
		}
		b, err := hlib.UnHex(c[1:])
		if err != nil {
			return nil, false
		}
		var crc [4]byte
		binary.LittleEndian.PutUint32(crc[:], maskedCRC(b))
		switch c[0] {
		case 'u':
			out = append(out, frameChunk(0x01, append(crc[:], b...))...)
		case 'c':
			out = append(out, frameChunk(0x00, append(crc[:], snappy.Encode(nil, b)...))...)
		case 'p':
			out = append(out, frameChunk(0x80+byte(len(b)), b)...) // reserved skippable chunk (0x80..0xfd)
		default:
			return nil, false
		}
	}
	return out, true
}

// refDecode is the oracle's own reading of a payload: uvarints until the bytes run out; ok is
// false when the payload is not a well-formed sequence of uvarints whose running sum fits 64 bits.
func refDecode(payload []byte) (l []storage.SeriesRef, ok bool) {
	var cur uint64
	for len(payload) > 0 {
		x, n := binary.Uvarint(payload)
		if n <= 0 || cur+x < cur {
			return l, false
		}
		cur += x
		l = append(l, storage.SeriesRef(cur))
		payload = payload[n:]
	}
	return l, true
}

func errFlag(p index.Postings) string {
	if p.Err() != nil {
		return "e1"
	}
	return "e0"
}

func sameTrace(a, b []string) bool {
	if len(a) != len(b) {
		return false
	}
	for i := range a {
		if a[i] != b[i] {
			return false
		}
	}
	return true
}

func execC12(c *hlib.Ctx, tok []string) string {
	if len(tok) == 0 {
		return "bad-op"
	}
	switch tok[0] {
	case "pc.enc":
		if len(tok) != 2 {
			return "bad-op"
		}
		l, ok := parseRefs(tok[1])
		if !ok {
			return "bad-op"
		}
		b, err := store.VerifDiffVarintEncodeNoHeader(index.NewListPostings(l), len(l))
		if err != nil {
			if sortedRefs(l) {
				c.Violation("sorted-list-rejected", err.Error())
			}
			return "unsorted"
		}
		if !sortedRefs(l) {
			c.Violation("unsorted-list-accepted", "an unsorted list was encoded without error")
		}
		return hlib.Hex(b)
	case "pc.rt":
		if len(tok) != 5 || (tok[1] != "dvs" && tok[1] != "dss" && tok[1] != "dsp") {
			return "bad-op"
		}
		codec := tok[1]
		l, ok1 := parseRefs(tok[2])
		cmds, ok2 := parseScript(tok[4])
		if !ok1 || !ok2 {
			return "bad-op"
		}
		enc, err := encodeWith(codec, l)
		if err != nil {
			if sortedRefs(l) {
				c.Violation("sorted-list-rejected", err.Error())
			}
			return "unsorted"
		}
		if !sortedRefs(l) {
			c.Violation("unsorted-list-accepted", "an unsorted list was encoded without error")
			return "accepted-unsorted"
		}
		chunks, err := payloadChunks(codec, enc)
		if err != nil {
			c.Violation("encoder-output-not-decodable-frames", codec+": "+err.Error())
			return "bad-frames"
		}
		var lens []string
		var payload []byte
		for _, ch := range chunks {
			lens = append(lens, strconv.Itoa(len(ch)))
			payload = append(payload, ch...)
		}
		if hlib.Join(lens, ",") != tok[3] {
			return "bad-op" // the chunking in the op line is not the one the library produces
		}
		// oracle 1: decoding everything gives the original list
		{
			p, closeFn, err := store.VerifDecodePostings(enc)
			if err != nil {
				c.Violation("decode-error", err.Error())
				return "decode-error"
			}
			i, bad := 0, ""
			for p.Next() {
				if i >= len(l) || p.At() != l[i] {
					bad = fmt.Sprintf("position %d: got %d", i, p.At())
					break
				}
				i++
			}
			if bad == "" && i != len(l) {
				bad = fmt.Sprintf("decoded %d of %d entries", i, len(l))
			}
			if bad != "" {
				c.Violation("roundtrip-mismatch", codec+": "+bad)
			}
			if p.Err() != nil {
				c.Violation("unexpected-error", p.Err().Error())
			}
			closeFn()
		}
		p, closeFn, err := store.VerifDecodePostings(enc)
		if err != nil {
			return "decode-error"
		}
		defer closeFn()
		tr := runScript(p, cmds, false)
		// oracle 2: the same script on the original list (Prometheus' ListPostings), compared up
		// to and including the first call that returns false
		{
			p2, closeFn2, _ := store.VerifDecodePostings(enc)
			got := runScript(p2, cmds, true)
			closeFn2()
			want := runScript(index.NewListPostings(l), cmds, true)
			if !sameTrace(got, want) {
				c.Violation("seek-mismatch", fmt.Sprintf("%s: decoded iterator %v, list iterator %v", codec, got, want))
			}
		}
		h := fnv.New32a()
		h.Write(payload)
		return fmt.Sprintf("%d/%d %s %s", len(payload), h.Sum32(), hlib.Join(tr, ","), errFlag(p))
	case "pc.dec":
		if len(tok) != 4 || (tok[1] != "dvs" && tok[1] != "dss") {
			return "bad-op"
		}
		codec := tok[1]
		chunkToks := strings.Split(tok[2], "|")
		cmds, ok := parseScript(tok[3])
		if !ok {
			return "bad-op"
		}
		enc, ok := buildEncoded(codec, chunkToks)
		if !ok {
			return "bad-op"
		}
		p, closeFn, err := store.VerifDecodePostings(enc)
		if err != nil {
			return "decode-error"
		}
		defer closeFn()
		tr := runScript(p, cmds, false)
		// oracle: when the payload is a well-formed sequence of uvarints, whatever the chunk
		// boundaries, the decoded iterator behaves as the list iterator
		var payload []byte
		for _, ct := range chunkToks {
			if ct[0] != 'p' {
				b, _ := hlib.UnHex(ct[1:])
				payload = append(payload, b...)
			}
		}
		if l, ok := refDecode(payload); ok {
			p2, closeFn2, _ := store.VerifDecodePostings(enc)
			got := runScript(p2, cmds, true)
			if p2.Err() != nil {
				c.Violation("unexpected-error", p2.Err().Error())
			}
			closeFn2()
			want := runScript(index.NewListPostings(l), cmds, true)
			if !sameTrace(got, want) {
				c.Violation("chunked-decode-mismatch", fmt.Sprintf("%s: decoded iterator %v, list iterator %v", codec, got, want))
			}
		}
		return hlib.Join(tr, ",") + " " + errFlag(p)
	}
	return "bad-op"
}

// ---------------------------------------------------------------- generator

func genList(c *hlib.Ctx, n int) []storage.SeriesRef {
	r := c.R
	l := make([]storage.SeriesRef, 0, n)
	var cur uint64
	kind := r.Intn(7)
	c.Count([]string{"list:dense", "list:sparse", "list:large-gaps", "list:mixed", "list:with-duplicates", "list:near-2^64", "list:two-byte-diffs"}[kind])
	switch kind {
	case 5:
		cur = ^uint64(0) - uint64(n)*1000 - uint64(r.Intn(1000))
	default:
		if r.Bool() {
			cur = uint64(r.Intn(1000))
		}
	}
	for i := 0; i < n; i++ {
		var d uint64
		switch kind {
		case 0:
			d = 1
		case 1:
			d = uint64(r.I64Range(1, 1<<20))
		case 2:
			d = uint64(r.I64Range(1, 1<<40))
			if r.Chance(1, 50) && cur < 1<<62 {
				d = uint64(r.I64Range(1<<40, 1<<61))
			}
		case 3:
			d = []uint64{0, 1, 1, 2, 127, 128, 129, 16383, 16384, 1 << 21, 1 << 28, 1 << 35}[r.Intn(12)]
		case 4:
			d = uint64(r.Intn(3))
		case 5:
			d = uint64(r.Intn(1000))
		case 6:
			d = uint64(r.I64Range(128, 16383))
		}
		if i == 0 && kind != 5 && r.Chance(1, 3) {
			d = 0 // first entry equal to the start value (possibly 0)
		}
		if cur+d < cur {
			break
		}
		cur += d
		l = append(l, storage.SeriesRef(cur))
	}
	return l
}

func genScript(c *hlib.Ctx, l []storage.SeriesRef) string {
	r := c.R
	n := r.Range(1, 12)
	var ops []string
	for i := 0; i < n; i++ {
		switch r.Intn(10) {
		case 0, 1, 2:
			ops = append(ops, "n")
		case 3:
			ops = append(ops, "d")
			c.Count("script:drain")
		default:
			var x uint64
			switch {
			case len(l) == 0 || r.Chance(1, 8):
				x = []uint64{0, 1, 1 << 32, ^uint64(0), r.U64()}[r.Intn(5)]
				c.Count("seek:arbitrary")
			default:
				v := uint64(l[r.Intn(len(l))])
				switch r.Intn(4) {
				case 0:
					x = v
					c.Count("seek:present")
				case 1:
					x = v + 1
					c.Count("seek:present+1")
				case 2:
					if v > 0 {
						x = v - 1
					}
					c.Count("seek:present-1")
				default:
					x = uint64(l[len(l)-1]) + uint64(r.Intn(3))
					c.Count("seek:at-or-beyond-last")
				}
			}
			ops = append(ops, "s"+strconv.FormatUint(x, 10))
		}
	}
	if r.Chance(1, 2) {
		ops = append(ops, "d")
	}
	return strings.Join(ops, ",")
}

func doRT(c *hlib.Ctx, codec string, l []storage.SeriesRef, script string) {
	enc, err := encodeWith(codec, l)
	lens := "-"
	if err == nil {
		chunks, err := payloadChunks(codec, enc)
		if err != nil {
			c.Note("payloadChunks failed: " + err.Error())
			return
		}
		var ls []string
		for _, ch := range chunks {
			ls = append(ls, strconv.Itoa(len(ch)))
		}
		lens = hlib.Join(ls, ",")
		c.Count(fmt.Sprintf("%s:chunks=%d", codec, min(len(chunks), 5)))
	}
	c.Do(fmt.Sprintf("pc.rt %s %s %s %s", codec, refsTok(l), lens, script), len(l) > 0)
}

// splitPayload cuts a payload at random places (also inside varints, also empty pieces) and
// picks a chunk kind for each piece.
func splitPayload(c *hlib.Ctx, payload []byte) string {
	r := c.R
	var toks []string
	pieces := r.Range(1, 6)
	for len(payload) > 0 || pieces > 0 {
		var n int
		if pieces <= 1 {
			n = len(payload)
		} else {
			n = r.Intn(len(payload) + 1)
			if r.Chance(1, 2) && len(payload) > 0 {
				n = r.Intn(min(len(payload), 4) + 1) // short pieces: cuts inside varints are likely
			}
		}
		kind := "u"
		if r.Chance(1, 4) {
			kind = "c"
		}
		toks = append(toks, kind+hlib.Hex(payload[:n]))
		payload = payload[n:]
		pieces--
		if r.Chance(1, 10) {
			toks = append(toks, "p"+hlib.Hex(r.Bytes(r.Intn(4))))
			c.Count("dec:padding-chunk")
		}
		if pieces <= 0 && len(payload) == 0 {
			break
		}
	}
	return strings.Join(toks, "|")
}

func genC12(c *hlib.Ctx) {
	r := c.R
	rounds := c.N(700, 20000)
	for round := 0; round < rounds; round++ {
		n := []int{0, 1, 2, 3, 5, 10, 30, 100, 300}[r.Intn(9)]
		if r.Chance(1, 40) {
			n = r.Range(1000, 5000)
		}
		l := genList(c, n)
		c.Count(fmt.Sprintf("len:%s", bucket(len(l))))
		if r.Chance(1, 4) {
			c.Do("pc.enc "+refsTok(l), len(l) > 0)
		}
		script := genScript(c, l)
		codec := r.Pick([]string{"dvs", "dss", "dsp"})
		doRT(c, codec, l, script)
		// the same payload with arbitrary chunk boundaries, through the real streamed decoder
		if payload, err := store.VerifDiffVarintEncodeNoHeader(index.NewListPostings(l), len(l)); err == nil && len(payload) < 20000 {
			c.Count("dec:wellformed")
			c.Do(fmt.Sprintf("pc.dec %s %s %s", r.Pick([]string{"dss", "dss", "dvs"}), splitPayload(c, payload), script), true)
			// malformed payloads: cut-off varint at the end, overflowing varint, random bytes
			if r.Chance(1, 4) {
				b := append([]byte(nil), payload...)
				switch r.Intn(4) {
				case 0:
					b = append(b, 0x80|byte(r.Intn(128)))
					c.Count("dec:malformed/cut-off-varint")
				case 1:
					b = append(b, 0xff, 0xff, 0xff, 0xff, 0xff, 0xff, 0xff, 0xff, 0xff, byte(r.Range(2, 127)), 0x01)
					c.Count("dec:malformed/overflow-varint")
				case 2:
					b = append(b, 0xff, 0xff, 0xff, 0xff, 0xff, 0xff, 0xff, 0xff, 0xff, 0x01, 0x05)
					c.Count("dec:malformed/sum-wraps")
				default:
					b = r.Bytes(r.Range(1, 30))
					c.Count("dec:malformed/random-bytes")
				}
				c.Do(fmt.Sprintf("pc.dec %s %s %s", r.Pick([]string{"dss", "dss", "dvs"}), splitPayload(c, b), script+",n,s0"), true)
			}
		}
		// unsorted input must be rejected
		if len(l) >= 2 && r.Chance(1, 10) {
			u := append([]storage.SeriesRef(nil), l...)
			i := r.Intn(len(u) - 1)
			if u[i] != u[i+1] {
				u[i], u[i+1] = u[i+1], u[i]
				c.Count("list:unsorted")
				c.Do(fmt.Sprintf("pc.rt %s %s - n,d", codec, refsTok(u)), true)
			}
		}
	}
	// long lists crossing the 64 KiB frame of the snappy stream (few: the op lines are megabytes)
	for i := 0; i < c.N(2, 12); i++ {
		n := r.Range(60000, 90000)
		if c.Tier == "thorough" && i%3 == 0 {
			n = r.Range(200000, 300000)
		}
		l := genList(c, n)
		c.Count(fmt.Sprintf("len:%s", bucket(len(l))))
		doRT(c, "dss", l, "n,s"+strconv.FormatUint(uint64(l[len(l)/2]), 10)+",n,d")
		if i%2 == 0 {
			doRT(c, "dvs", l, "s"+strconv.FormatUint(uint64(l[len(l)-1]), 10)+",n")
		} else {
			doRT(c, "dsp", l, "s"+strconv.FormatUint(uint64(l[len(l)/3]), 10)+",n,d")
		}
	}
}

func bucket(n int) string {
	switch {
	case n == 0:
		return "0"
	case n < 10:
		return "1-9"
	case n < 100:
		return "10-99"
	case n < 1000:
		return "100-999"
	case n < 10000:
		return "1000-9999"
	case n < 100000:
		return "10000-99999"
	}
	return ">=100000"
}
