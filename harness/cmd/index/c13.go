package main

import (
	"context"
	"encoding/base64"
	"fmt"
	"strconv"
	"strings"
	"sync"
	"sync/atomic"
	"time"

	"github.com/go-kit/log"
	"github.com/oklog/ulid/v2"
	"github.com/prometheus/prometheus/model/labels"
	"github.com/prometheus/prometheus/storage"
	"golang.org/x/crypto/blake2b"

	storecache "github.com/thanos-io/thanos/pkg/store/cache"
	"github.com/thanos-io/thanos/pkg/store/storepb"
	"github.com/thanos-io/thanos/verifharness/hlib"
)

// C13 — cache keys never conflate different cached items.
//
// grammar (see also lean/Thanos/Driver/Index.lean)
//   str    := hex of the bytes, "-" for the empty string
//   m      := <type 0..3>,<name str>,<value str>            0 "="  1 "!="  2 "=~"  3 "!~"
//   ms     := "-" | m(;m)*
//   item   := P/<block>/<name>/<value>/<compression> | E/<block>/<ms>/<compression> | S/<block>/<id>
//   table  := "-" | <str>=<str>(,<str>=<str>)*      argument=result of a third-party function
//                                                    (strconv.Quote, base64url∘blake2b-256)
//   key   <item> <quote table> <hash table>   -> hex of CacheKey.String
//   pair  <item> <item> <quote table>         -> eq | ne   (oracle: different items ⇒ ne)
//   lms   <ms> <quote table>                  -> hex of LabelMatchersToString
//   mkey  <type> <name> <value>               -> hex of the matchers-cache key
//   mpair <type> <name> <value> <type> <name> <value>  -> eq | ne   (oracle: different matchers ⇒ ne)
//   o.ic.flow <stored items ;-joined> <probed items ;-joined>
//        end to end through the memcached index cache (RemoteIndexCache over an in-memory client):
//        store one payload per item, fetch the probed items (postings and series in one batch per
//        block); oracle: a hit carries the payload of the same item, an item that was never stored misses
//   o.mc.flow <stored matchers ;-joined> <probed matchers ;-joined>
//        end to end through the matchers conversion cache (GetOrSet, every matcher cacheable);
//        oracle: the converted matcher that comes back is the one of the matcher asked for
//   o.mc.conc <lru size> <all|re> <g|p> <rounds> <callers: matchers ;-joined>
//        the same cache under concurrent misses: one goroutine per caller, all released together, calling
//        GetOrSet (g) or MatchersToPromMatchersCached (p); the conversion callback waits at a barrier until
//        every distinct matcher's conversion has started (or 25 ms), so the lookups overlap; `all|re`: every
//        matcher is cacheable | only regular-expression matchers (the default); several rounds on one cache.
//        oracle: every caller gets the conversion of ITS matcher (name, type, value) -> callers=<n> wrong=<n>

func init() {
	props = append(props, &hlib.Prop{ID: "C13", Gen: genC13, Exec: execC13})
}

type c13Matcher struct {
	t    int
	n, v string
}

type c13Item struct {
	kind  byte // 'P', 'E', 'S'
	block string
	name  string
	value string
	ms    []c13Matcher
	comp  string
	id    uint64
}

func (m c13Matcher) tok() string {
	return fmt.Sprintf("%d,%s,%s", m.t, hlib.HexS(m.n), hlib.HexS(m.v))
}

func msTok(ms []c13Matcher) string {
	ts := make([]string, len(ms))
	for i, m := range ms {
		ts[i] = m.tok()
	}
	return hlib.Join(ts, ";")
}

func (it c13Item) tok() string {
	switch it.kind {
	case 'P':
		return fmt.Sprintf("P/%s/%s/%s/%s", hlib.HexS(it.block), hlib.HexS(it.name), hlib.HexS(it.value), hlib.HexS(it.comp))
	case 'E':
		return fmt.Sprintf("E/%s/%s/%s", hlib.HexS(it.block), msTok(it.ms), hlib.HexS(it.comp))
	}
	return fmt.Sprintf("S/%s/%d", hlib.HexS(it.block), it.id)
}

func unhexS(s string) (string, bool) {
	b, err := hlib.UnHex(s)
	return string(b), err == nil
}

func parseC13Matcher(s string) (c13Matcher, bool) {
	p := strings.Split(s, ",")
	if len(p) != 3 {
		return c13Matcher{}, false
	}
	t, err := strconv.Atoi(p[0])
	n, ok1 := unhexS(p[1])
	v, ok2 := unhexS(p[2])
	if err != nil || t < 0 || t > 3 || !ok1 || !ok2 {
		return c13Matcher{}, false
	}
	return c13Matcher{t, n, v}, true
}

func parseC13Matchers(s string) ([]c13Matcher, bool) {
	var ms []c13Matcher
	for _, t := range hlib.Split(s, ";") {
		m, ok := parseC13Matcher(t)
		if !ok {
			return nil, false
		}
		ms = append(ms, m)
	}
	return ms, true
}

func parseC13Item(s string) (c13Item, bool) {
	p := strings.Split(s, "/")
	var it c13Item
	var ok bool
	switch {
	case len(p) == 5 && p[0] == "P":
		it.kind = 'P'
		var o1, o2, o3 bool
		it.block, ok = unhexS(p[1])
		it.name, o1 = unhexS(p[2])
		it.value, o2 = unhexS(p[3])
		it.comp, o3 = unhexS(p[4])
		return it, ok && o1 && o2 && o3
	case len(p) == 4 && p[0] == "E":
		it.kind = 'E'
		var o1, o2 bool
		it.block, ok = unhexS(p[1])
		it.ms, o1 = parseC13Matchers(p[2])
		it.comp, o2 = unhexS(p[3])
		return it, ok && o1 && o2
	case len(p) == 3 && p[0] == "S":
		it.kind = 'S'
		it.block, ok = unhexS(p[1])
		id, err := strconv.ParseUint(p[2], 10, 64)
		it.id = id
		return it, ok && err == nil
	}
	return it, false
}

func promMatchers(ms []c13Matcher) []*labels.Matcher {
	out := make([]*labels.Matcher, len(ms))
	for i, m := range ms {
		// built directly: NewMatcher would compile the value as a regular expression, which
		// String() does not need
		out[i] = &labels.Matcher{Type: labels.MatchType(m.t), Name: m.n, Value: m.v}
	}
	return out
}

// realKey calls the real CacheKey.String the way memcached.go builds the key.
func (it c13Item) realKey() string {
	switch it.kind {
	case 'P':
		return storecache.CacheKey{Block: it.block, Key: storecache.CacheKeyPostings(labels.Label{Name: it.name, Value: it.value}), Compression: it.comp}.String()
	case 'E':
		return storecache.CacheKey{Block: it.block, Key: storecache.CacheKeyExpandedPostings(storecache.LabelMatchersToString(promMatchers(it.ms))), Compression: it.comp}.String()
	}
	return storecache.CacheKey{Block: it.block, Key: storecache.CacheKeySeries(it.id), Compression: ""}.String()
}

func (it c13Item) same(o c13Item) bool {
	if it.kind != o.kind || it.block != o.block {
		return false
	}
	switch it.kind {
	case 'P':
		return it.name == o.name && it.value == o.value && it.comp == o.comp
	case 'E':
		if len(it.ms) != len(o.ms) || it.comp != o.comp {
			return false
		}
		for i := range it.ms {
			if it.ms[i] != o.ms[i] {
				return false
			}
		}
		return true
	}
	return it.id == o.id
}

func (it c13Item) quoted() []string {
	var r []string
	for _, m := range it.ms {
		r = append(r, m.n, m.v)
	}
	return r
}

func hashB64(s string) string {
	h := blake2b.Sum256([]byte(s))
	return base64.RawURLEncoding.EncodeToString(h[:])
}

func table(f func(string) string, xs []string) string {
	seen := map[string]bool{}
	var es []string
	for _, x := range xs {
		if seen[x] {
			continue
		}
		seen[x] = true
		es = append(es, hlib.HexS(x)+"="+hlib.HexS(f(x)))
	}
	return hlib.Join(es, ",")
}

// checkTable verifies that every entry of a table in an op line really is argument=f(argument)
// (a corrupted replay must not make the model look wrong).
func checkTable(s string, f func(string) string) bool {
	for _, e := range hlib.Split(s, ",") {
		p := strings.Split(e, "=")
		if len(p) != 2 {
			return false
		}
		a, ok1 := unhexS(p[0])
		b, ok2 := unhexS(p[1])
		if !ok1 || !ok2 || f(a) != b {
			return false
		}
	}
	return true
}

// checkQuoteHypothesis re-checks, on the strings of this case, what the theorems assume of
// strconv.Quote: starts with '"', and no quoted string is a proper prefix of / equal to another's.
func checkQuoteHypothesis(c *hlib.Ctx, xs []string) {
	for i, a := range xs {
		qa := strconv.Quote(a)
		if !strings.HasPrefix(qa, "\"") {
			c.Violation("hypothesis-quote", fmt.Sprintf("Quote(%q) does not start with a quote", a))
		}
		for j, b := range xs {
			if i != j && a != b && strings.HasPrefix(strconv.Quote(b), qa) {
				c.Violation("hypothesis-quote", fmt.Sprintf("Quote(%q) is a prefix of Quote(%q)", a, b))
			}
		}
	}
}

type pbMatcher struct{ m c13Matcher }

func (p pbMatcher) lm() *storepb.LabelMatcher {
	return &storepb.LabelMatcher{Type: []storepb.LabelMatcher_Type{storepb.LabelMatcher_EQ, storepb.LabelMatcher_NEQ, storepb.LabelMatcher_RE, storepb.LabelMatcher_NRE}[p.m.t], Name: p.m.n, Value: p.m.v}
}

func realMatcherKey(m c13Matcher) string {
	k, err := storecache.VerifMatcherCacheKey(pbMatcher{m}.lm())
	if err != nil {
		return "\x00invalid"
	}
	return k
}

func eqne(b bool) string {
	if b {
		return "eq"
	}
	return "ne"
}

func execC13(c *hlib.Ctx, tok []string) string {
	if len(tok) == 0 {
		return "bad-op"
	}
	switch tok[0] {
	case "key":
		if len(tok) != 4 {
			return "bad-op"
		}
		it, ok := parseC13Item(tok[1])
		if !ok || !checkTable(tok[2], strconv.Quote) || !checkTable(tok[3], hashB64) {
			return "bad-op"
		}
		k := it.realKey()
		if it.kind != 'S' {
			// hypothesis of the theorems: the hash part contains no ':' (43 base64url characters)
			pre := "P:" + it.block + ":"
			if it.kind == 'E' {
				pre = "EP:" + it.block + ":"
			}
			h := strings.TrimPrefix(k, pre)
			if i := strings.IndexByte(h, ':'); i >= 0 {
				h = h[:i]
			}
			if !strings.HasPrefix(k, pre) || len(h) != 43 || strings.Trim(h, "ABCDEFGHIJKLMNOPQRSTUVWXYZabcdefghijklmnopqrstuvwxyz0123456789-_") != "" {
				c.Violation("hypothesis-hash", "hash part of the key is not 43 base64url characters: "+k)
			}
		}
		return hlib.HexS(k)
	case "pair":
		if len(tok) != 4 {
			return "bad-op"
		}
		a, ok1 := parseC13Item(tok[1])
		b, ok2 := parseC13Item(tok[2])
		if !ok1 || !ok2 || !checkTable(tok[3], strconv.Quote) {
			return "bad-op"
		}
		checkQuoteHypothesis(c, append(a.quoted(), b.quoted()...))
		ka, kb := a.realKey(), b.realKey()
		if ka == kb && !a.same(b) {
			class := "index-key-collision"
			if a.kind == 'P' && b.kind == 'P' && (strings.Contains(a.name, ":") || strings.Contains(b.name, ":")) {
				class = "postings-name-colon"
			}
			c.Violation(class, fmt.Sprintf("different items %s and %s share the key %q", describe(a), describe(b), ka))
		}
		if ka != kb && a.same(b) {
			c.Violation("same-item-different-key", fmt.Sprintf("the item %s got two keys", describe(a)))
		}
		return eqne(ka == kb)
	case "lms":
		if len(tok) != 3 {
			return "bad-op"
		}
		ms, ok := parseC13Matchers(tok[1])
		if !ok || !checkTable(tok[2], strconv.Quote) {
			return "bad-op"
		}
		return hlib.HexS(storecache.LabelMatchersToString(promMatchers(ms)))
	case "mkey":
		if len(tok) != 4 {
			return "bad-op"
		}
		m, ok := parseC13Matcher(strings.Join(tok[1:4], ","))
		if !ok {
			return "bad-op"
		}
		return hlib.HexS(realMatcherKey(m))
	case "mpair":
		if len(tok) != 7 {
			return "bad-op"
		}
		m1, ok1 := parseC13Matcher(strings.Join(tok[1:4], ","))
		m2, ok2 := parseC13Matcher(strings.Join(tok[4:7], ","))
		if !ok1 || !ok2 {
			return "bad-op"
		}
		k1, k2 := realMatcherKey(m1), realMatcherKey(m2)
		if k1 == k2 && m1 != m2 {
			c.Violation("matcher-key-collision", fmt.Sprintf("different matchers %s and %s share the conversion-cache key %q",
				describeM(m1), describeM(m2), k1))
		}
		if k1 != k2 && m1 == m2 {
			c.Violation("same-item-different-key", "one matcher, two keys")
		}
		return eqne(k1 == k2)
	case "o.ic.flow":
		if len(tok) != 3 {
			return "bad-op"
		}
		return c13IndexCacheFlow(c, tok[1], tok[2])
	case "o.mc.flow":
		if len(tok) != 3 {
			return "bad-op"
		}
		return c13MatcherCacheFlow(c, tok[1], tok[2])
	case "o.mc.conc":
		if len(tok) != 6 {
			return "bad-op"
		}
		return c13MatcherCacheConc(c, tok[1], tok[2], tok[3], tok[4], tok[5])
	}
	return "bad-op"
}

// fakeMemcached is an in-memory cacheutil.RemoteCacheClient that never loses anything.
type fakeMemcached struct{ data map[string][]byte }

func (f *fakeMemcached) GetMulti(_ context.Context, keys []string) map[string][]byte {
	out := map[string][]byte{}
	for _, k := range keys {
		if v, ok := f.data[k]; ok {
			out[k] = v
		}
	}
	return out
}
func (f *fakeMemcached) SetAsync(key string, value []byte, _ time.Duration) error {
	f.data[key] = append([]byte(nil), value...)
	return nil
}
func (f *fakeMemcached) Stop() {}

func parseItems(s string) ([]c13Item, bool) {
	var out []c13Item
	for _, t := range hlib.Split(s, ";") {
		it, ok := parseC13Item(t)
		if !ok {
			return nil, false
		}
		out = append(out, it)
	}
	return out, true
}

func c13IndexCacheFlow(c *hlib.Ctx, storedTok, probedTok string) string {
	stored, ok1 := parseItems(storedTok)
	probed, ok2 := parseItems(probedTok)
	if !ok1 || !ok2 {
		return "bad-op"
	}
	// the compression scheme is the cache's own (one per RemoteIndexCache), not part of the item here
	for i := range stored {
		stored[i].comp = ""
	}
	for i := range probed {
		probed[i].comp = ""
	}
	ic, err := storecache.NewRemoteIndexCache(log.NewNopLogger(), &fakeMemcached{data: map[string][]byte{}}, nil, nil, time.Hour)
	if err != nil {
		return "bad-op"
	}
	blockOf := func(it c13Item) (ulid.ULID, bool) {
		id, err := ulid.Parse(it.block)
		return id, err == nil
	}
	payload := func(i int) []byte { return []byte(fmt.Sprintf("payload-of-stored-item-%d", i)) }
	for i, it := range stored {
		id, ok := blockOf(it)
		if !ok {
			return "bad-op"
		}
		switch it.kind {
		case 'P':
			ic.StorePostings(id, labels.Label{Name: it.name, Value: it.value}, payload(i), "t")
		case 'E':
			ic.StoreExpandedPostings(id, promMatchers(it.ms), payload(i), "t")
		default:
			ic.StoreSeries(id, storage.SeriesRef(it.id), payload(i), "t")
		}
	}
	// what a probe may come back with: the payload of the LAST stored item that is the same item
	want := func(it c13Item) ([]byte, bool) {
		for i := len(stored) - 1; i >= 0; i-- {
			if stored[i].same(it) {
				return payload(i), true
			}
		}
		return nil, false
	}
	judge := func(it c13Item, got []byte, hit bool) {
		w, shouldHit := want(it)
		switch {
		case hit && !shouldHit, hit && shouldHit && string(got) != string(w):
			class := "index-cache-cross-answer"
			if it.kind == 'P' {
				for _, s := range stored {
					if s.kind == 'P' && !s.same(it) && s.block == it.block && (strings.Contains(s.name, ":") || strings.Contains(it.name, ":")) &&
						s.name+":"+s.value == it.name+":"+it.value {
						class = "postings-name-colon"
					}
				}
			}
			c.Violation(class, fmt.Sprintf("the lookup of %s is answered with %q", describe(it), got))
		case !hit && shouldHit:
			c.Violation("index-cache-lost-item", fmt.Sprintf("%s was stored but is not found", describe(it)))
		}
	}
	hits, misses := 0, 0
	count := func(h bool) {
		if h {
			hits++
		} else {
			misses++
		}
	}
	// postings and series: one batch per block (exercises the mapping of results back to items)
	byBlock := map[string][]c13Item{}
	var order []string
	for _, it := range probed {
		if _, ok := blockOf(it); !ok {
			return "bad-op"
		}
		if _, seen := byBlock[it.block]; !seen {
			order = append(order, it.block)
		}
		byBlock[it.block] = append(byBlock[it.block], it)
	}
	ctx := context.Background()
	for _, blk := range order {
		id, _ := ulid.Parse(blk)
		var lbls []labels.Label
		var ids []storage.SeriesRef
		for _, it := range byBlock[blk] {
			switch it.kind {
			case 'P':
				lbls = append(lbls, labels.Label{Name: it.name, Value: it.value})
			case 'S':
				ids = append(ids, storage.SeriesRef(it.id))
			default:
				got, hit := ic.FetchExpandedPostings(ctx, id, promMatchers(it.ms), "t")
				judge(it, got, hit)
				count(hit)
			}
		}
		if len(lbls) > 0 {
			h, m := ic.FetchMultiPostings(ctx, id, lbls, "t")
			for _, it := range byBlock[blk] {
				if it.kind == 'P' {
					got, hit := h[labels.Label{Name: it.name, Value: it.value}]
					judge(it, got, hit)
					count(hit)
				}
			}
			if len(h)+len(m) < len(uniqueLabels(lbls)) {
				c.Violation("index-cache-lost-item", "FetchMultiPostings: hits and misses do not cover the request")
			}
		}
		if len(ids) > 0 {
			h, _ := ic.FetchMultiSeries(ctx, id, ids, "t")
			for _, it := range byBlock[blk] {
				if it.kind == 'S' {
					got, hit := h[storage.SeriesRef(it.id)]
					judge(it, got, hit)
					count(hit)
				}
			}
		}
	}
	return fmt.Sprintf("hits=%d misses=%d", hits, misses)
}

func uniqueLabels(l []labels.Label) map[labels.Label]struct{} {
	m := map[labels.Label]struct{}{}
	for _, x := range l {
		m[x] = struct{}{}
	}
	return m
}

func c13MatcherCacheFlow(c *hlib.Ctx, storedTok, probedTok string) string {
	stored, ok1 := parseC13Matchers(storedTok)
	probed, ok2 := parseC13Matchers(probedTok)
	if !ok1 || !ok2 {
		return "bad-op"
	}
	mc, err := storecache.NewMatchersCache(storecache.WithSize(1000),
		storecache.WithIsCacheableFunc(func(storecache.ConversionLabelMatcher) bool { return true }))
	if err != nil {
		return "bad-op"
	}
	conv := func(m c13Matcher) (*labels.Matcher, error) {
		// (built directly: compiling the value as a regular expression is not the point here)
		return &labels.Matcher{Type: labels.MatchType(m.t), Name: m.n, Value: m.v}, nil
	}
	hits := 0
	for _, m := range append(append([]c13Matcher(nil), stored...), probed...) {
		m := m
		fresh := false
		got, err := mc.GetOrSet(pbMatcher{m}.lm(), func() (*labels.Matcher, error) { fresh = true; return conv(m) })
		if err != nil {
			return "err"
		}
		if !fresh {
			hits++
		}
		if int(got.Type) != m.t || got.Name != m.n || got.Value != m.v {
			c.Violation("matcher-cache-cross-answer", fmt.Sprintf("the conversion of %s is answered with the cached matcher {%q %s %q}",
				describeM(m), got.Name, got.Type, got.Value))
		}
	}
	return fmt.Sprintf("hits=%d", hits)
}

// c13BarrierCache passes GetOrSet on to the real cache with a conversion callback that first waits at
// the barrier: this is how MatchersToPromMatchersCached (which brings its own callback) is made to overlap.
type c13BarrierCache struct {
	real storecache.MatchersCache
	wait func()
}

func (b *c13BarrierCache) GetOrSet(m storecache.ConversionLabelMatcher, newItem storecache.NewItemFunc) (*labels.Matcher, error) {
	return b.real.GetOrSet(m, func() (*labels.Matcher, error) { b.wait(); return newItem() })
}

func c13MatcherCacheConc(c *hlib.Ctx, sizeTok, cacheable, api, roundsTok, callersTok string) string {
	size, err1 := strconv.Atoi(sizeTok)
	rounds, err2 := strconv.Atoi(roundsTok)
	callers, ok := parseC13Matchers(callersTok)
	if err1 != nil || err2 != nil || !ok || size < 1 || rounds < 1 || rounds > 8 || len(callers) < 1 || len(callers) > 32 ||
		(cacheable != "all" && cacheable != "re") || (api != "g" && api != "p") {
		return "bad-op"
	}
	opts := []storecache.MatcherCacheOption{storecache.WithSize(size)}
	if cacheable == "all" {
		opts = append(opts, storecache.WithIsCacheableFunc(func(storecache.ConversionLabelMatcher) bool { return true }))
	}
	mc, err := storecache.NewMatchersCache(opts...)
	if err != nil {
		return "bad-op"
	}
	distinct := map[c13Matcher]struct{}{}
	for _, m := range callers {
		distinct[m] = struct{}{}
	}
	wrong := 0
	for round := 0; round < rounds; round++ {
		var arrived atomic.Int64
		target := int64(len(distinct))
		wait := func() {
			arrived.Add(1)
			deadline := time.Now().Add(25 * time.Millisecond)
			for arrived.Load() < target && time.Now().Before(deadline) {
				time.Sleep(200 * time.Microsecond)
			}
		}
		type answer struct {
			got *labels.Matcher
			err error
		}
		answers := make([]answer, len(callers))
		start := make(chan struct{})
		var wg sync.WaitGroup
		for i, m := range callers {
			wg.Add(1)
			go func(i int, m c13Matcher) {
				defer wg.Done()
				<-start
				if api == "g" {
					got, err := mc.GetOrSet(pbMatcher{m}.lm(), func() (*labels.Matcher, error) {
						wait()
						return &labels.Matcher{Type: labels.MatchType(m.t), Name: m.n, Value: m.v}, nil
					})
					answers[i] = answer{got, err}
					return
				}
				res, err := storecache.MatchersToPromMatchersCached(&c13BarrierCache{real: mc, wait: wait}, *pbMatcher{m}.lm())
				if err == nil && len(res) == 1 {
					answers[i] = answer{res[0], nil}
				} else {
					answers[i] = answer{nil, fmt.Errorf("%d results, %v", len(res), err)}
				}
			}(i, m)
		}
		close(start)
		wg.Wait()
		for i, m := range callers {
			a := answers[i]
			if a.err != nil {
				// a value that is not a regular expression cannot be converted: the direct conversion fails as well
				if _, derr := storepb.MatcherToPromMatcher(*pbMatcher{m}.lm()); api == "p" && derr != nil {
					continue
				}
				wrong++
				c.Violation("matcher-inflight-error", fmt.Sprintf("round %d: the conversion of %s fails: %v", round, describeM(m), a.err))
				continue
			}
			if int(a.got.Type) != m.t || a.got.Name != m.n || a.got.Value != m.v {
				wrong++
				c.Violation("matcher-inflight-cross-answer", fmt.Sprintf("round %d, %d concurrent callers, cache size %d: the conversion of %s is answered with {%q %s %q}",
					round, len(callers), size, describeM(m), a.got.Name, a.got.Type, a.got.Value))
			}
		}
	}
	return fmt.Sprintf("callers=%d wrong=%d", len(callers), wrong)
}

var opStr = []string{"=", "!=", "=~", "!~"}

func describeM(m c13Matcher) string { return fmt.Sprintf("{%q %s %q}", m.n, opStr[m.t], m.v) }

func describe(it c13Item) string {
	switch it.kind {
	case 'P':
		return fmt.Sprintf("postings(block %s, %q=%q, compression %q)", it.block, it.name, it.value, it.comp)
	case 'E':
		ds := make([]string, len(it.ms))
		for i, m := range it.ms {
			ds[i] = describeM(m)
		}
		return fmt.Sprintf("expanded(block %s, [%s], compression %q)", it.block, strings.Join(ds, " "), it.comp)
	}
	return fmt.Sprintf("series(block %s, %d)", it.block, it.id)
}

// ---------------------------------------------------------------- generator

var c13Pieces = []string{"a", "b", "c", "x1", "_", "job", ":", ":", ";", "=", "!", "~", "=~", "!~", "!=", "\"", "\\", ",", "é", "日本", " ", "0", "1", "9", "{", "}", "\n", "ñ:", "a:b", "\\\"", "\";"}

func c13Str(r *hlib.Rand, maxPieces int) string {
	n := r.Intn(maxPieces + 1)
	var sb strings.Builder
	for i := 0; i < n; i++ {
		sb.WriteString(r.Pick(c13Pieces))
	}
	return sb.String()
}

func c13LegacyName(r *hlib.Rand) string {
	return r.Pick([]string{"a", "b", "job", "__name__", "_x9", "A1", "instance"})
}

func c13Name(r *hlib.Rand) string {
	switch r.Intn(4) {
	case 0:
		return c13LegacyName(r)
	case 1:
		return c13LegacyName(r) + r.Pick([]string{":", "=", "=~", ";", "\"", "é", "!"}) + c13Str(r, 2)
	}
	return c13Str(r, 3)
}

func c13MatcherGen(r *hlib.Rand) c13Matcher {
	return c13Matcher{t: r.Intn(4), n: c13Name(r), v: c13Str(r, 3)}
}

func c13Block(r *hlib.Rand, blocks []string) string { return r.Pick(blocks) }

var c13Comps = []string{"", "", "dss", "dvs"}

func classifyItem(c *hlib.Ctx, it c13Item) {
	switch it.kind {
	case 'P':
		c.Count("item:postings")
		if strings.Contains(it.name, ":") {
			c.Count("postings:name-with-colon")
		}
		if strings.Contains(it.value, ":") {
			c.Count("postings:value-with-colon")
		}
	case 'E':
		c.Count(fmt.Sprintf("item:expanded/%d-matchers", len(it.ms)))
		for _, m := range it.ms {
			if strconv.Quote(m.n) != "\""+m.n+"\"" || strconv.Quote(m.v) != "\""+m.v+"\"" {
				c.Count("expanded:needs-escaping")
				break
			}
		}
	default:
		c.Count("item:series")
	}
}

func doPair(c *hlib.Ctx, a, b c13Item) {
	classifyItem(c, a)
	classifyItem(c, b)
	if c.R.Chance(1, 4) {
		// the same pair end to end: a is stored, b (and a) are looked up
		c.Count("flow:index-cache")
		c.Do(fmt.Sprintf("o.ic.flow %s %s;%s", a.tok(), b.tok(), a.tok()), true)
	}
	qt := table(strconv.Quote, append(a.quoted(), b.quoted()...))
	out := c.Do(fmt.Sprintf("pair %s %s %s", a.tok(), b.tok(), qt), true)
	c.Count("pair:" + out)
	if a.same(b) {
		c.Count("pair:same-item")
	}
}

func doKey(c *hlib.Ctx, r *hlib.Rand, it c13Item) {
	qt := table(strconv.Quote, it.quoted())
	var cands []string
	switch it.kind {
	case 'P':
		for _, sep := range []string{":", "", ";", "=", "::", "\x00"} {
			cands = append(cands, it.name+sep+it.value)
		}
		cands = append(cands, it.value+":"+it.name, it.name, it.value)
	case 'E':
		real := storecache.LabelMatchersToString(promMatchers(it.ms))
		var raw []string
		for _, m := range it.ms {
			raw = append(raw, m.n+opStr[m.t]+strconv.Quote(m.v))
		}
		cands = append(cands, real, real+";", strings.Join(raw, ";"), strings.ReplaceAll(real, ";", ","))
	}
	// shuffled, so that the position says nothing
	p := r.Perm(len(cands))
	sh := make([]string, len(cands))
	for i, j := range p {
		sh[i] = cands[j]
	}
	c.Do(fmt.Sprintf("key %s %s %s", it.tok(), qt, table(hashB64, sh)), true)
}

// c13Fill makes a string of exactly n bytes out of letters and digits (no separator characters).
func c13Fill(r *hlib.Rand, n int) string {
	const alpha = "abcdefghijklmnopqrstuvwxyz0123456789_ABCDEFGHIJKLMNOPQRSTUVWXYZ"
	b := make([]byte, n)
	for i := range b {
		b[i] = alpha[r.Intn(len(alpha))]
	}
	return string(b)
}

// c13Flip changes one byte of s (the last or the first) to another letter.
func c13Flip(s string, last bool) string {
	if s == "" {
		return "x"
	}
	b := []byte(s)
	i := 0
	if last {
		i = len(b) - 1
	}
	if b[i] == 'a' {
		b[i] = 'b'
	} else {
		b[i] = 'a'
	}
	return string(b)
}

// c13GenLengths: the length dimension.  For every key kind, strings whose individual and combined
// lengths sit at and around powers of two (buffer sizes), in pairs that differ in one byte only — the
// last, or the first — or by the last byte missing.  Every pair goes through the key functions (tie +
// oracle: different items, different keys) and end to end through the caches.
func c13GenLengths(c *hlib.Ctx, blocks []string) {
	r := c.R
	marks := []int{31, 32, 63, 64, 127, 128, 129, 255, 256, 1023, 1024}
	pairP := func(a, b c13Item, shape string) {
		c.Count("length-pair:postings/" + shape)
		classifyItem(c, a)
		classifyItem(c, b)
		c.Do(fmt.Sprintf("o.ic.flow %s %s;%s", a.tok(), b.tok(), a.tok()), true)
		out := c.Do(fmt.Sprintf("pair %s %s -", a.tok(), b.tok()), true)
		c.Count("pair:" + out)
	}
	reps := c.N(1, 4)
	for rep := 0; rep < reps; rep++ {
		for _, mark := range marks {
			for _, delta := range []int{-1, 0, 1} {
				total := mark + delta
				c.Count(fmt.Sprintf("length:%d", total))
				blk, comp := c13Block(r, blocks), r.Pick(c13Comps)
				// ---- postings: total = len(name)+len(value), and = len(name)+1+len(value) (with the ':')
				for _, withSep := range []bool{false, true} {
					body := total
					if withSep {
						body = total - 1
					}
					nl := []int{1, 3, body / 2, body - 1}[r.Intn(4)]
					if nl < 1 {
						nl = 1
					}
					if nl > body-1 {
						nl = body - 1
					}
					name, value := c13Fill(r, nl), c13Fill(r, body-nl)
					a := c13Item{kind: 'P', block: blk, name: name, value: value, comp: comp}
					b := a
					b.value = c13Flip(value, true)
					pairP(a, b, "last-byte-of-value")
					b = a
					b.value = value[:len(value)-1]
					if b.value != "" {
						pairP(a, b, "last-byte-missing")
					}
					b = a
					b.name = c13Flip(name, false)
					pairP(a, b, "first-byte-of-name")
					b = a
					b.name = c13Flip(name, true)
					pairP(a, b, "last-byte-of-name")
					if r.Chance(1, 2) {
						doKey(c, r, a)
					}
				}
				// individual lengths at the mark
				{
					name, value := c13Fill(r, total), c13Fill(r, r.Range(1, 5))
					if r.Bool() {
						name, value = value, name
					}
					a := c13Item{kind: 'P', block: blk, name: name, value: value, comp: comp}
					b := a
					b.value = c13Flip(value, true)
					pairP(a, b, "one-long-string")
					b = a
					b.name = c13Flip(name, true)
					pairP(a, b, "one-long-string")
				}
				// ---- matchers: the conversion cache key and the expanded-postings key
				{
					nl := []int{1, 3, total / 2}[r.Intn(3)]
					m1 := c13Matcher{t: r.Intn(4), n: c13Fill(r, nl), v: c13Fill(r, total-nl)}
					for _, shape := range []string{"last-byte-of-value", "first-byte-of-value", "last-byte-of-name", "last-byte-missing"} {
						m2 := m1
						switch shape {
						case "last-byte-of-value":
							m2.v = c13Flip(m1.v, true)
						case "first-byte-of-value":
							m2.v = c13Flip(m1.v, false)
						case "last-byte-of-name":
							m2.n = c13Flip(m1.n, true)
						default:
							m2.v = m1.v[:len(m1.v)-1]
						}
						c.Count("length-pair:matcher/" + shape)
						c.Do(fmt.Sprintf("o.mc.flow %s %s;%s", m1.tok(), m2.tok(), m1.tok()), true)
						out := c.Do(fmt.Sprintf("mpair %d %s %s %d %s %s", m1.t, hlib.HexS(m1.n), hlib.HexS(m1.v), m2.t, hlib.HexS(m2.n), hlib.HexS(m2.v)), true)
						c.Count("mpair:" + out)
						// the same two matchers as expanded-postings items (with a second, short matcher)
						other := c13Matcher{t: 0, n: "job", v: "x"}
						a := c13Item{kind: 'E', block: blk, ms: []c13Matcher{m1, other}, comp: comp}
						b := c13Item{kind: 'E', block: blk, ms: []c13Matcher{m2, other}, comp: comp}
						c.Count("length-pair:expanded/" + shape)
						classifyItem(c, a)
						classifyItem(c, b)
						c.Do(fmt.Sprintf("o.ic.flow %s %s;%s", a.tok(), b.tok(), a.tok()), true)
						qt := table(strconv.Quote, append(a.quoted(), b.quoted()...))
						out = c.Do(fmt.Sprintf("pair %s %s %s", a.tok(), b.tok(), qt), true)
						c.Count("pair:" + out)
					}
					c.Do(fmt.Sprintf("mkey %d %s %s", m1.t, hlib.HexS(m1.n), hlib.HexS(m1.v)), true)
				}
			}
		}
	}
}

// c13GenConc: concurrent misses of the matchers cache by different matchers that share the value string.
func c13GenConc(c *hlib.Ctx) {
	r := c.R
	for i := 0; i < c.N(36, 240); i++ {
		v := r.Pick([]string{"x", "a.*", "foo|bar", ".+", "[0-9]+", "prod-.*", "", "a"})
		n := r.Pick([]string{"job", "instance", "a", "__name__", "zone"})
		n2 := r.Pick([]string{"job2", "b", "le", "pod"})
		var ms []c13Matcher
		shape := r.Intn(6)
		switch shape {
		case 0: // same value, different label name
			ms = []c13Matcher{{2, n, v}, {2, n2, v}}
			c.Count("conc:same-value-other-name")
		case 1: // same name and value, opposite polarity
			ms = []c13Matcher{{2, n, v}, {3, n, v}}
			c.Count("conc:re-vs-nre")
		case 2: // equality and regular expression with the same string
			ms = []c13Matcher{{0, n, v}, {2, n, v}, {1, n, v}, {3, n, v}}
			c.Count("conc:all-four-types")
		case 3: // a crowd: several names x several types on one value, with repeated callers
			for k := r.Range(3, 8); k > 0; k-- {
				ms = append(ms, c13Matcher{[]int{2, 3, 2, 3, 0, 1}[r.Intn(6)], r.Pick([]string{n, n2, "c"}), v})
			}
			c.Count("conc:crowd")
		case 4: // the same matcher several times (sharing is right here) next to one with another name
			ms = []c13Matcher{{2, n, v}, {2, n, v}, {2, n, v}, {3, n2, v}}
			c.Count("conc:legit-sharing-plus-one")
		default: // name/value boundary shapes of the key, concurrently
			s := c13Str(r, 3) + "ab"
			j := 1 + r.Intn(len(s)-1)
			ms = []c13Matcher{{2, s[:j], s[j:]}, {2, s[:1], s[1:]}, {3, s[:j], s[j:]}}
			c.Count("conc:boundary")
		}
		{
			perm, sh := r.Perm(len(ms)), make([]c13Matcher, len(ms))
			for a, b := range perm {
				sh[a] = ms[b]
			}
			ms = sh
		}
		size := []int{1, 2, 1000}[r.Intn(3)]
		cacheable := []string{"all", "re"}[r.Intn(2)]
		api := []string{"g", "g", "p"}[r.Intn(3)]
		if shape == 5 {
			api = "g" // arbitrary bytes are not regular expressions
		}
		c.Count(fmt.Sprintf("conc:lru-size-%d", size))
		c.Count("conc:api-" + api)
		c.Do(fmt.Sprintf("o.mc.conc %d %s %s %d %s", size, cacheable, api, r.Range(1, 3), msTok(ms)), true)
	}
}

func genC13(c *hlib.Ctx) {
	r := c.R
	var blocks []string
	for i := 0; i < 4; i++ {
		var e [10]byte
		copy(e[:], r.Bytes(10))
		var id ulid.ULID
		_ = id.SetTime(uint64(r.I64Range(0, 1<<40)))
		_ = id.SetEntropy(e[:])
		blocks = append(blocks, id.String())
	}
	c13GenConc(c)
	c13GenLengths(c, blocks)
	rounds := c.N(8000, 60000)
	for round := 0; round < rounds; round++ {
		// ---- postings: two ways of cutting one string at a ':' (the collision shape), and random pairs
		{
			s := c13Str(r, 5)
			var cuts []int
			for i := 0; i < len(s); i++ {
				if s[i] == ':' {
					cuts = append(cuts, i)
				}
			}
			blk, comp := c13Block(r, blocks), r.Pick(c13Comps)
			if len(cuts) >= 2 {
				i, j := cuts[r.Intn(len(cuts))], cuts[r.Intn(len(cuts))]
				a := c13Item{kind: 'P', block: blk, name: s[:i], value: s[i+1:], comp: comp}
				b := c13Item{kind: 'P', block: blk, name: s[:j], value: s[j+1:], comp: comp}
				c.Count("postings-pair:two-cuts-of-one-string")
				doPair(c, a, b)
			}
			a := c13Item{kind: 'P', block: blk, name: c13Name(r), value: c13Str(r, 3), comp: comp}
			b := a
			switch r.Intn(6) {
			case 0:
				b.block = c13Block(r, blocks)
			case 1:
				b.comp = r.Pick(c13Comps)
			case 2:
				b.name, b.value = a.name+":", strings.TrimPrefix(a.value, ":")
			case 3:
				b.name, b.value = a.value, a.name
			case 4:
				b.name, b.value = c13Name(r), c13Str(r, 3)
			}
			doPair(c, a, b)
			if r.Chance(1, 3) {
				doKey(c, r, a)
			}
		}
		// ---- expanded postings
		{
			n := r.Intn(4)
			a := c13Item{kind: 'E', block: c13Block(r, blocks), comp: r.Pick(c13Comps)}
			for i := 0; i < n; i++ {
				a.ms = append(a.ms, c13MatcherGen(r))
			}
			b := a
			b.ms = append([]c13Matcher(nil), a.ms...)
			switch r.Intn(9) {
			case 0: // split one matcher's value at a ';' into two matchers' worth of text
				if len(b.ms) > 0 {
					m := b.ms[0]
					b.ms[0].v = m.v + "\";" + c13LegacyName(r) + "=\"" + c13Str(r, 1)
				}
			case 1: // move the operator into the name / the value
				if len(b.ms) > 0 {
					m := b.ms[0]
					b.ms[0] = c13Matcher{t: 0, n: m.n + opStr[m.t], v: m.v}
				}
			case 2:
				if len(b.ms) > 0 {
					m := b.ms[0]
					b.ms[0] = c13Matcher{t: []int{0, 1, 0, 1}[m.t], n: m.n, v: "~" + m.v}
				}
			case 3: // merge two matchers into one
				if len(b.ms) > 1 {
					m0, m1 := b.ms[0], b.ms[1]
					b.ms = append([]c13Matcher{{t: m0.t, n: m0.n, v: m0.v + "\";" + m1.n + opStr[m1.t] + "\"" + m1.v}}, b.ms[2:]...)
				}
			case 4: // reorder
				if len(b.ms) > 1 {
					b.ms[0], b.ms[1] = b.ms[1], b.ms[0]
				}
			case 5:
				b.ms = append(b.ms, c13MatcherGen(r))
			case 6:
				b.block = c13Block(r, blocks)
			case 7: // one value spells out, in plain characters, the escape sequence of the other's special character
				if len(b.ms) > 0 {
					special := c13Str(r, 1) + r.Pick([]string{"\n", "\t", "\x01", "\"", "\\", "\r", "\x7f", "é\n"}) + c13Str(r, 1)
					a.ms = append([]c13Matcher(nil), a.ms...)
					a.ms[0].v = special
					q := strconv.Quote(special)
					b.ms[0].v = q[1 : len(q)-1]
					if r.Bool() { // with a legacy name, so that nothing else needs quoting
						a.ms[0].n, b.ms[0].n = "job", "job"
					}
					c.Count("expanded-pair:spelled-out-escape")
				}
			}
			doPair(c, a, b)
			if r.Chance(1, 3) {
				doKey(c, r, a)
				c.Do(fmt.Sprintf("lms %s %s", msTok(a.ms), table(strconv.Quote, a.quoted())), len(a.ms) > 0)
			}
		}
		// ---- series, and pairs across kinds (same block)
		{
			ids := []uint64{0, 1, 9, 10, 12345, 1<<63 - 1, 1 << 63, 1<<64 - 1, r.U64(), uint64(r.Intn(1000))}
			a := c13Item{kind: 'S', block: c13Block(r, blocks), id: ids[r.Intn(len(ids))]}
			b := c13Item{kind: 'S', block: a.block, id: ids[r.Intn(len(ids))]}
			if r.Chance(1, 4) {
				b.block = c13Block(r, blocks)
			}
			doPair(c, a, b)
			if r.Chance(1, 4) {
				doKey(c, r, a)
			}
			if r.Chance(1, 4) {
				x := c13Item{kind: 'P', block: a.block, name: c13Name(r), value: fmt.Sprint(a.id)}
				y := c13Item{kind: 'E', block: a.block, ms: []c13Matcher{c13MatcherGen(r)}}
				c.Count("pair:across-kinds")
				doPair(c, a, x)
				doPair(c, x, y)
			}
		}
		// ---- matchers conversion cache
		{
			m1 := c13MatcherGen(r)
			m2 := m1
			switch r.Intn(8) {
			case 0: // the operator's second character moves into the value
				m1.t = []int{0, 1}[r.Intn(2)]
				m1.v = "~" + m1.v
				m2 = c13Matcher{t: m1.t + 2, n: m1.n, v: m1.v[1:]}
				c.Count("mpair:tilde-moves")
			case 1: // an operator inside the name or the value
				op := r.Intn(4)
				x, y, z := c13Str(r, 1), c13Str(r, 1), c13Str(r, 1)
				m1 = c13Matcher{t: m1.t, n: x, v: y + opStr[op] + z}
				m2 = c13Matcher{t: op, n: x + opStr[m1.t] + y, v: z}
				c.Count("mpair:operator-inside")
			case 2: // boundary between name and operator / operator and value moves by one character
				s := c13Str(r, 4)
				if len(s) >= 2 {
					i, j := 1+r.Intn(len(s)-1), 1+r.Intn(len(s)-1)
					m1.n, m1.v = s[:i], s[i:]
					m2 = c13Matcher{t: m1.t, n: s[:j], v: s[j:]}
				}
				c.Count("mpair:boundary-moves")
			case 3: // digits and ':' around the name (the length prefix of the repaired format)
				m1.n = r.Pick([]string{"1:a", "1", "11:a", ":", "2:ab", "0:"}) + m1.n
				m2 = c13Matcher{t: m1.t, n: strings.TrimLeft(m1.n, "0123456789:"), v: m1.v}
				c.Count("mpair:digits-colon")
			case 4:
				m2 = c13MatcherGen(r)
			case 5:
				m2.t = r.Intn(4)
			case 6: // the operator's first character moves into the name: n != v  vs  n! = v
				m1.t = 1
				m2 = c13Matcher{t: 0, n: m1.n + "!", v: m1.v}
				c.Count("mpair:bang-moves")
			}
			if r.Chance(1, 4) {
				c.Count("flow:matchers-cache")
				c.Do(fmt.Sprintf("o.mc.flow %s %s;%s", m1.tok(), m2.tok(), m1.tok()), true)
			}
			out := c.Do(fmt.Sprintf("mpair %d %s %s %d %s %s", m1.t, hlib.HexS(m1.n), hlib.HexS(m1.v), m2.t, hlib.HexS(m2.n), hlib.HexS(m2.v)), true)
			c.Count("mpair:" + out)
			if m1 == m2 {
				c.Count("mpair:same-matcher")
			}
			if r.Chance(1, 2) {
				c.Do(fmt.Sprintf("mkey %d %s %s", m1.t, hlib.HexS(m1.n), hlib.HexS(m1.v)), true)
			}
		}
	}
}
