package main

import (
	"bufio"
	"bytes"
	"context"
	"fmt"
	"io"
	"os"
	"os/exec"
	"sort"
	"strconv"
	"strings"
	"sync"
	"time"

	"github.com/go-kit/log"
	"github.com/thanos-io/objstore"

	thanoscache "github.com/thanos-io/thanos/pkg/cache"
	storecache "github.com/thanos-io/thanos/pkg/store/cache"
	"github.com/thanos-io/thanos/pkg/store/cache/cachekey"
	"github.com/thanos-io/thanos/verifharness/hlib"
)

// C14 — caching bucket is transparent for immutable objects.
//
// grammar (see also lean/Thanos/Driver/Index.lean)
//   cb.hist <object hex> <S> <maxSub> <p> <op>(;<op>)*
//       one object in the wrapped in-memory bucket, a caching bucket with subrange size S and
//       MaxSubRequests maxSub in front of it, a history of reads; p = buffer size of the Read calls
//   op  := r<off>,<len>,<attrpat>,<subpat>     GetRange(off, len), read to EOF
//   pat := [012]+   how the lossy cache treats the i-th key of a Fetch call (cyclic):
//                   0 = return it if stored, 1 = miss this time, 2 = evict (miss and forget)
//   answer: one item per op, joined by ';':
//       <bytes hex | panic | err>/<A if the wrapped bucket's Attributes was called, else ->/
//       <GetRange calls on the wrapped bucket: start+len,…>/<stored subrange keys: start-end,…>
//   cb.mix <object hex> <S> <maxSub> <p> <maxGet> <op>(;<op>)*
//       the same with every verb; the bucket holds the object "obj" and "zdir/file", not "nope"
//       op := r… as above | g<mode>,<pat2> Get(obj)  mode := f (read to EOF) | x (read exactly size bytes) | h<n> (read n bytes, close)
//           | G<pat2> Get(nope) | e<pat1> Exists(obj) | E<pat1> Exists(nope) | a<pat1> Attributes(obj)
//           | A<pat1> Attributes(nope) | i<pat1> Iter("")
//       answer per op (other than r): <bytes hex | notfound | true | false | size:<n> | names:obj,zdir/>/<calls on the wrapped bucket joined by +, or ->

func init() {
	props = append(props, &hlib.Prop{ID: "C14", Gen: genC14, Exec: execC14})
}

const c14Obj = "obj"

// logBucket records the calls that reach the wrapped bucket.
type logBucket struct {
	*objstore.InMemBucket
	mu    sync.Mutex
	calls []string // "A", "R<start>+<len>"
}

func (b *logBucket) log(s string) {
	b.mu.Lock()
	b.calls = append(b.calls, s)
	b.mu.Unlock()
}

func (b *logBucket) GetRange(ctx context.Context, name string, off, length int64) (io.ReadCloser, error) {
	b.log(fmt.Sprintf("R%d+%d", off, length))
	return b.InMemBucket.GetRange(ctx, name, off, length)
}

func (b *logBucket) Attributes(ctx context.Context, name string) (objstore.ObjectAttributes, error) {
	b.log("A")
	return b.InMemBucket.Attributes(ctx, name)
}

func (b *logBucket) Get(ctx context.Context, name string) (io.ReadCloser, error) {
	b.log("G")
	return b.InMemBucket.Get(ctx, name)
}

func (b *logBucket) Exists(ctx context.Context, name string) (bool, error) {
	b.log("E")
	return b.InMemBucket.Exists(ctx, name)
}

func (b *logBucket) Iter(ctx context.Context, dir string, f func(string) error, options ...objstore.IterOption) error {
	b.log("I")
	return b.InMemBucket.Iter(ctx, dir, f, options...)
}

// lossyCache keeps everything that is stored, but each Fetch call is told by a pattern which of
// the requested keys it may return (0), must miss (1) or must forget (2).
type lossyCache struct {
	mu     sync.Mutex
	data   map[string][]byte
	pats   []string // one pattern per upcoming Fetch call
	stores []string // keys stored since the last reset
}

func (c *lossyCache) Name() string { return "lossy" }

func (c *lossyCache) Store(data map[string][]byte, _ time.Duration) {
	c.mu.Lock()
	defer c.mu.Unlock()
	for k, v := range data {
		c.data[k] = append([]byte(nil), v...)
		c.stores = append(c.stores, k)
	}
}

func (c *lossyCache) Fetch(_ context.Context, keys []string) map[string][]byte {
	c.mu.Lock()
	defer c.mu.Unlock()
	pat := "0"
	if len(c.pats) > 0 {
		pat, c.pats = c.pats[0], c.pats[1:]
	}
	out := map[string][]byte{}
	for i, k := range keys {
		switch pat[i%len(pat)] {
		case '0':
			if v, ok := c.data[k]; ok {
				out[k] = append([]byte{}, v...) // an empty value is still a hit
			}
		case '2':
			delete(c.data, k)
		}
	}
	return out
}

// c14Op is one call on the caching bucket.
type c14Op struct {
	kind        byte // r g e a i
	name        string
	off, length int64
	p           int
	mode        string // g: f | x | h<n>
	recursive   bool
	listing     []string // i: what the wrapped bucket lists (third-party input, verified by Exec)
	pats        []string
}

func okPat(p string) bool { return p != "" && strings.Trim(p, "012") == "" }

func okMode(m string) bool {
	if m == "f" || m == "x" {
		return true
	}
	if !strings.HasPrefix(m, "h") {
		return false
	}
	_, err := strconv.Atoi(m[1:])
	return err == nil
}

// parseLegacyOp: the ops of cb.hist / cb.mix (one object "obj", absent object "nope").
func parseLegacyOp(s string, p int) (c14Op, bool) {
	if s == "" {
		return c14Op{}, false
	}
	op := c14Op{kind: s[0], name: c14Obj, p: p, mode: "f"}
	rest := s[1:]
	switch s[0] {
	case 'r':
		f := strings.Split(rest, ",")
		if len(f) != 4 || !okPat(f[2]) || !okPat(f[3]) {
			return op, false
		}
		o, err1 := strconv.ParseInt(f[0], 10, 64)
		l, err2 := strconv.ParseInt(f[1], 10, 64)
		if err1 != nil || err2 != nil || o < 0 || l <= 0 {
			return op, false
		}
		op.off, op.length, op.pats = o, l, []string{f[2], f[3]}
		return op, true
	case 'g':
		f := strings.Split(rest, ",")
		if len(f) != 2 || !okPat(f[1]) || !okMode(f[0]) {
			return op, false
		}
		op.mode, op.pats = f[0], []string{f[1]}
		return op, true
	case 'G', 'E', 'A':
		op.kind, op.name = s[0]+'a'-'A', c14Missing
		fallthrough
	case 'e', 'a':
		if !okPat(rest) {
			return op, false
		}
		op.pats = []string{rest}
		return op, true
	case 'i':
		if !okPat(rest) {
			return op, false
		}
		op.name, op.pats, op.listing = "", []string{rest}, []string{"obj", "zdir/"}
		return op, true
	}
	return op, false
}

// parseWorldOp: kind:field:field…
func parseWorldOp(s string) (c14Op, bool) {
	f := strings.Split(s, ":")
	if len(f) < 3 || len(f[0]) != 1 {
		return c14Op{}, false
	}
	op := c14Op{kind: f[0][0], mode: "f", p: 512}
	name, ok := unhexS(f[1])
	if !ok {
		return op, false
	}
	op.name = name
	switch {
	case op.kind == 'r' && len(f) == 7:
		o, err1 := strconv.ParseInt(f[2], 10, 64)
		l, err2 := strconv.ParseInt(f[3], 10, 64)
		p, err3 := strconv.Atoi(f[4])
		if err1 != nil || err2 != nil || err3 != nil || o < 0 || l <= 0 || p <= 0 || !okPat(f[5]) || !okPat(f[6]) {
			return op, false
		}
		op.off, op.length, op.p, op.pats = o, l, p, []string{f[5], f[6]}
		return op, true
	case op.kind == 'g' && len(f) == 4:
		if !okMode(f[2]) || !okPat(f[3]) {
			return op, false
		}
		op.mode, op.pats = f[2], []string{f[3]}
		return op, true
	case (op.kind == 'e' || op.kind == 'a') && len(f) == 3:
		if !okPat(f[2]) {
			return op, false
		}
		op.pats = []string{f[2]}
		return op, true
	case op.kind == 'i' && len(f) == 5:
		if (f[2] != "0" && f[2] != "1") || !okPat(f[3]) {
			return op, false
		}
		op.recursive, op.pats = f[2] == "1", []string{f[3]}
		for _, n := range hlib.Split(f[4], ",") {
			x, ok := unhexS(n)
			if !ok {
				return op, false
			}
			op.listing = append(op.listing, x)
		}
		return op, true
	}
	return op, false
}

// readAllP reads r to EOF with a buffer of p bytes.
func readAllP(r io.Reader, p int, limit int) ([]byte, error) {
	var out []byte
	buf := make([]byte, p)
	for i := 0; i < limit; i++ {
		n, err := r.Read(buf)
		out = append(out, buf[:n]...)
		if err == io.EOF {
			return out, nil
		}
		if err != nil {
			return out, err
		}
	}
	return out, fmt.Errorf("reader does not end")
}

// execC14 runs a history in this process, or — in isolate mode (see main.go) — in a worker
// process, so that a panic inside one of the caching bucket's own goroutines is attributed to the
// history that caused it (the worker is restarted after a crash).
func execC14(c *hlib.Ctx, tok []string) string {
	if os.Getenv("VERIF_INDEX_ISOLATE") == "" {
		return execC14InProc(c.Violation, tok)
	}
	if c14w == nil {
		w := &c14Worker{}
		w.cmd = exec.Command(os.Args[0], "c14child")
		w.cmd.Stderr = &w.stderr
		in, err1 := w.cmd.StdinPipe()
		out, err2 := w.cmd.StdoutPipe()
		if err1 != nil || err2 != nil || w.cmd.Start() != nil {
			return "err:worker"
		}
		w.in, w.out = in, bufio.NewReaderSize(out, 1<<20)
		c14w = w
	}
	w := c14w
	fmt.Fprintln(w.in, strings.Join(tok, " "))
	for {
		l, err := w.out.ReadString('\n')
		l = strings.TrimRight(l, "\n")
		switch {
		case strings.HasPrefix(l, "V\t"):
			if p := strings.SplitN(l, "\t", 3); len(p) == 3 {
				c.Violation(p[1], p[2])
			}
		case strings.HasPrefix(l, "A\t"):
			return strings.TrimPrefix(l, "A\t")
		}
		if err != nil {
			_ = w.cmd.Wait()
			first := strings.SplitN(strings.TrimSpace(w.stderr.String()), "\n", 2)[0]
			c14w = nil
			c.Violation("getrange-crash", "the process died while serving this history: "+short(first))
			return "crash"
		}
	}
}

type c14Worker struct {
	cmd    *exec.Cmd
	in     io.WriteCloser
	out    *bufio.Reader
	stderr bytes.Buffer
}

var c14w *c14Worker

// c14Child is the worker: it executes history lines from stdin and prints, for each, its
// violations and its answer.
func c14Child(_ []string) {
	sc := bufio.NewScanner(os.Stdin)
	sc.Buffer(make([]byte, 1<<20), 1<<28)
	w := bufio.NewWriter(os.Stdout)
	for sc.Scan() {
		ans := execC14InProc(func(class, what string) {
			fmt.Fprintf(w, "V\t%s\t%s\n", class, strings.ReplaceAll(what, "\n", " "))
		}, strings.Fields(sc.Text()))
		fmt.Fprintf(w, "A\t%s\n", ans)
		w.Flush()
	}
}

const c14Missing = "nope"

func execC14InProc(violation func(class, what string), tok []string) string {
	if len(tok) > 0 && tok[0] == "cb.key" {
		return c14Key(violation, tok)
	}
	objects := map[string][]byte{}
	var ops []c14Op
	var S int64
	var maxSub, maxGet int
	hash := "h"
	switch {
	case (len(tok) == 6 && tok[0] == "cb.hist") || (len(tok) == 7 && tok[0] == "cb.mix"):
		obj, err := hlib.UnHex(tok[1])
		var err1, err2, err3, err4 error
		S, err1 = strconv.ParseInt(tok[2], 10, 64)
		maxSub, err2 = strconv.Atoi(tok[3])
		p, err3 := strconv.Atoi(tok[4])
		opsTok := tok[5]
		if tok[0] == "cb.mix" {
			maxGet, err4 = strconv.Atoi(tok[5])
			opsTok = tok[6]
		}
		if err != nil || err1 != nil || err2 != nil || err3 != nil || err4 != nil || S <= 0 || p <= 0 || maxSub < 0 || maxGet < 0 {
			return "bad-op"
		}
		if obj == nil {
			obj = []byte{}
		}
		objects[c14Obj], objects["zdir/file"] = obj, []byte("x")
		for _, s := range strings.Split(opsTok, ";") {
			op, ok := parseLegacyOp(s, p)
			if !ok {
				return "bad-op"
			}
			if op.kind == 'g' && strings.HasPrefix(op.mode, "h") {
				if n, _ := strconv.Atoi(op.mode[1:]); n > len(obj) {
					op.mode = fmt.Sprintf("h%d", len(obj))
				}
			}
			ops = append(ops, op)
		}
	case len(tok) == 7 && tok[0] == "cb.world":
		var err1, err2, err3 error
		S, err1 = strconv.ParseInt(tok[1], 10, 64)
		maxSub, err2 = strconv.Atoi(tok[2])
		maxGet, err3 = strconv.Atoi(tok[3])
		h, ok := unhexS(tok[4])
		if err1 != nil || err2 != nil || err3 != nil || !ok || S <= 0 || maxSub < 0 || maxGet < 0 {
			return "bad-op"
		}
		hash = h
		for _, e := range hlib.Split(tok[5], ",") {
			kv := strings.Split(e, "=")
			if len(kv) != 2 {
				return "bad-op"
			}
			n, ok1 := unhexS(kv[0])
			b, err := hlib.UnHex(kv[1])
			if !ok1 || err != nil || n == "" {
				return "bad-op"
			}
			if b == nil {
				b = []byte{}
			}
			objects[n] = b
		}
		for _, s := range strings.Split(tok[6], ";") {
			op, ok := parseWorldOp(s)
			if !ok {
				return "bad-op"
			}
			ops = append(ops, op)
		}
	default:
		return "bad-op"
	}
	ctx := context.Background()
	inmem := objstore.NewInMemBucket()
	for n, b := range objects {
		if err := inmem.Upload(ctx, n, bytes.NewReader(b)); err != nil {
			return "bad-op"
		}
	}
	lb := &logBucket{InMemBucket: inmem}
	lc := &lossyCache{data: map[string][]byte{}}
	all := func(string) bool { return true }
	cfg := thanoscache.NewCachingBucketConfig()
	cfg.CacheGetRange("verif", lc, all, S, time.Hour, time.Hour, maxSub)
	cfg.CacheGet("verif", lc, all, maxGet, time.Hour, time.Hour, time.Hour)
	cfg.CacheExists("verif", lc, all, time.Hour, time.Hour)
	cfg.CacheAttributes("verif", lc, all, time.Hour)
	cfg.CacheIter("verif", lc, all, time.Hour, storecache.JSONIterCodec{}, hash)
	cb, err := storecache.NewCachingBucket(lb, cfg, log.NewNopLogger(), nil)
	if err != nil {
		return "bad-op"
	}
	var answers []string
	for _, op := range ops {
		lc.pats = append([]string(nil), op.pats...)
		lc.stores = nil
		lb.calls = nil
		if op.kind == 'i' {
			// the listing in the op line must be what the wrapped bucket lists
			var names []string
			_ = inmem.Iter(ctx, op.name, func(n string) error { names = append(names, n); return nil }, iterOpts(op.recursive)...)
			if strings.Join(names, "\x00") != strings.Join(op.listing, "\x00") {
				return "bad-op"
			}
		}
		got := c14Run(ctx, cb, cb.IsObjNotFoundErr, op, objects)
		calls := append([]string(nil), lb.calls...)
		stores := append([]string(nil), lc.stores...)
		want := c14Run(ctx, inmem, inmem.IsObjNotFoundErr, op, objects)
		if got != want {
			class := map[byte]string{'r': "getrange", 'g': "get", 'e': "exists", 'a': "attributes", 'i': "iter"}[op.kind] + "-not-transparent"
			switch {
			case op.kind == 'r' && got == "panic" && op.off > int64(len(objects[op.name])):
				class = "getrange-panic-offset-beyond-object"
			case op.kind == 'r' && got == "panic":
				class = "getrange-panic"
			case op.kind == 'r' && got == "err":
				class = "getrange-error"
			}
			violation(class, fmt.Sprintf("%s on %q: caching bucket %s, wrapped bucket %s", describeC14(op), op.name, short(got), short(want)))
		}
		c14CheckCache(violation, lc, objects)
		// canonical: the modification time is compared above, not printed
		if i := strings.Index(got, "@"); i > 0 && strings.HasPrefix(got, "size:") {
			got = got[:i]
		}
		if got == "panic" || got == "err" {
			// what the goroutines did before the failure is scheduling dependent
			answers = append(answers, got+"/-/-")
			continue
		}
		// calls: A G E I first (at most one of each per op), then the range reads sorted
		var head []string
		type pr struct{ a, b int64 }
		var rs []pr
		for _, cl := range calls {
			if strings.HasPrefix(cl, "R") {
				var a, b int64
				fmt.Sscanf(cl, "R%d+%d", &a, &b)
				rs = append(rs, pr{a, b})
			} else {
				head = append(head, cl)
			}
		}
		sort.Slice(rs, func(i, j int) bool { return rs[i].a < rs[j].a || (rs[i].a == rs[j].a && rs[i].b < rs[j].b) })
		for _, x := range rs {
			head = append(head, fmt.Sprintf("R%d+%d", x.a, x.b))
		}
		var sk []string
		for _, k := range stores {
			sk = append(sk, hlib.HexS(k))
		}
		sort.Strings(sk)
		answers = append(answers, got+"/"+hlib.Join(head, "+")+"/"+hlib.Join(sk, ","))
	}
	return strings.Join(answers, ";")
}

var c14Verbs = []cachekey.VerbType{cachekey.ExistsVerb, cachekey.ContentVerb, cachekey.IterVerb, cachekey.IterRecursiveVerb, cachekey.AttributesVerb, cachekey.SubrangeVerb}

// c14Key: cb.key <verb 0..5> <name hex> <start> <end> <config hash hex> -> hex of BucketCacheKey.String
func c14Key(violation func(class, what string), tok []string) string {
	if len(tok) != 6 {
		return "bad-op"
	}
	v, err := strconv.Atoi(tok[1])
	name, err1 := hlib.UnHex(tok[2])
	start, err2 := strconv.ParseInt(tok[3], 10, 64)
	end, err3 := strconv.ParseInt(tok[4], 10, 64)
	hash, err4 := hlib.UnHex(tok[5])
	if err != nil || err1 != nil || err2 != nil || err3 != nil || err4 != nil || v < 0 || v > 5 || start < 0 || end < 0 {
		return "bad-op"
	}
	k := cachekey.BucketCacheKey{Verb: c14Verbs[v], Name: string(name), Start: start, End: end, ObjectStorageConfigHash: string(hash)}
	s := k.String()
	// oracle: for names without ':' the key parses back to what it was built from
	if !strings.Contains(string(name), ":") && !strings.Contains(string(hash), ":") && (start < end || (start == 0 && end == 0)) {
		if back, err := cachekey.ParseBucketCacheKey(s); err != nil || back.Verb != k.Verb || back.Name != k.Name || back.Start != k.Start || back.End != k.End {
			violation("bucket-key-roundtrip", fmt.Sprintf("key %q parses back to %+v (%v)", s, back, err))
		}
	}
	return hlib.HexS(s)
}

func iterOpts(recursive bool) []objstore.IterOption {
	if recursive {
		return []objstore.IterOption{objstore.WithRecursiveIter()}
	}
	return nil
}

func describeC14(op c14Op) string {
	switch op.kind {
	case 'r':
		return fmt.Sprintf("GetRange(off=%d, len=%d)", op.off, op.length)
	case 'g':
		return "Get(" + op.mode + ")"
	case 'e':
		return "Exists"
	case 'a':
		return "Attributes"
	}
	return fmt.Sprintf("Iter(recursive=%v)", op.recursive)
}

// c14Run runs one op on a bucket (the caching bucket or the wrapped one) and renders the answer.
func c14Run(ctx context.Context, b objstore.Bucket, isNotFound func(error) bool, op c14Op, objects map[string][]byte) (ans string) {
	defer func() {
		if r := recover(); r != nil {
			ans = "panic"
		}
	}()
	size := len(objects[op.name])
	switch op.kind {
	case 'r':
		r, err := b.GetRange(ctx, op.name, op.off, op.length)
		if err != nil {
			if isNotFound(err) {
				return "notfound"
			}
			return "err"
		}
		defer r.Close()
		data, err := readAllP(r, op.p, int(op.length)+10)
		if err != nil {
			return "err"
		}
		return hlib.Hex(data)
	case 'g':
		r, err := b.Get(ctx, op.name)
		if err != nil {
			if isNotFound(err) {
				return "notfound"
			}
			return "err"
		}
		defer r.Close()
		switch {
		case op.mode == "f":
			data, err := readAllP(r, op.p, size+10)
			if err != nil {
				return "err"
			}
			return hlib.Hex(data)
		case op.mode == "x":
			data := make([]byte, size)
			if _, err := io.ReadFull(r, data); err != nil {
				return "err"
			}
			return hlib.Hex(data)
		default:
			n, _ := strconv.Atoi(op.mode[1:])
			if n > size {
				n = size
			}
			data := make([]byte, n)
			if _, err := io.ReadFull(r, data); err != nil {
				return "err"
			}
			return hlib.Hex(data)
		}
	case 'e':
		ok, err := b.Exists(ctx, op.name)
		if err != nil {
			return "err"
		}
		return strconv.FormatBool(ok)
	case 'a':
		at, err := b.Attributes(ctx, op.name)
		if err != nil {
			if isNotFound(err) {
				return "notfound"
			}
			return "err"
		}
		return fmt.Sprintf("size:%d@%d", at.Size, at.LastModified.UnixNano())
	}
	var names []string
	if err := b.Iter(ctx, op.name, func(n string) error { names = append(names, n); return nil }, iterOpts(op.recursive)...); err != nil {
		return "err"
	}
	hx := make([]string, len(names))
	for i, n := range names {
		hx[i] = hlib.HexS(n)
	}
	return "names:" + hlib.Join(hx, ",")
}

// c14CheckCache: the cache holds only what the wrapped bucket says, under exact keys.
func c14CheckCache(violation func(class, what string), lc *lossyCache, objects map[string][]byte) {
	for k, v := range lc.data {
		ck, err := cachekey.ParseBucketCacheKey(k)
		if err != nil {
			continue // names with ':' do not parse back; the model covers them
		}
		obj, present := objects[ck.Name]
		switch ck.Verb {
		case cachekey.SubrangeVerb:
			if !present || ck.Start < 0 || ck.End > int64(len(obj)) || ck.Start >= ck.End || !bytes.Equal(v, obj[ck.Start:ck.End]) {
				violation("cache-poisoned", fmt.Sprintf("key %s holds %d bytes that are not that range of the object", k, len(v)))
			}
		case cachekey.ContentVerb:
			if !present || !bytes.Equal(v, obj) {
				violation("cache-poisoned", fmt.Sprintf("key %s holds %d bytes, the object has %d", k, len(v), len(obj)))
			}
		case cachekey.ExistsVerb:
			if string(v) != strconv.FormatBool(present) {
				violation("cache-poisoned", fmt.Sprintf("key %s = %q", k, v))
			}
		}
	}
}

func short(s string) string {
	if len(s) > 40 {
		return s[:40] + "…"
	}
	return s
}

// ---------------------------------------------------------------- generator

func genPat(c *hlib.Ctx) string {
	r := c.R
	switch r.Intn(5) {
	case 0, 1:
		return "0" // cooperative cache
	case 2:
		return "1" // everything misses
	}
	n := r.Range(1, 6)
	b := make([]byte, n)
	for i := range b {
		b[i] = "0001112"[r.Intn(7)]
	}
	return string(b)
}

func genC14(c *hlib.Ctx) {
	r := c.R
	rounds := c.N(400, 12000)
	for round := 0; round < rounds; round++ {
		S := []int{1, 2, 3, 7, 16, 16, 4096}[r.Intn(7)]
		size := r.Intn(5*S + 4)
		if S == 4096 {
			size = []int{0, 1, 4095, 4096, 4097, 3 * 4096, 3*4096 + 17, r.Intn(5*4096 + 4)}[r.Intn(8)]
		}
		if r.Chance(1, 25) {
			size = 0
		}
		obj := r.Bytes(size)
		maxSub := []int{0, 0, 1, 2, 3}[r.Intn(5)]
		p := []int{1, 3, 7, 512, 100000}[r.Intn(5)]
		nops := r.Range(1, 30)
		if S == 4096 {
			nops = r.Range(1, 6)
		}
		c.Count(fmt.Sprintf("S:%d", S))
		c.Count(fmt.Sprintf("maxSub:%d", maxSub))
		var ops []string
		for i := 0; i < nops; i++ {
			var off, length int
			switch r.Intn(8) {
			case 0: // aligned
				off = S * r.Intn(size/S+2)
			case 1: // just before / after a boundary
				off = S*r.Intn(size/S+2) + []int{-1, 1}[r.Intn(2)]
			case 2:
				off = size - r.Intn(3)
			default:
				off = r.Intn(size + 1)
			}
			if off < 0 {
				off = 0
			}
			switch r.Intn(6) {
			case 0:
				length = 1
			case 1:
				length = size - off // to the end
			case 2:
				length = size + S + r.Intn(10) // beyond the end
			case 3:
				length = S * r.Range(1, 4)
			default:
				length = r.Range(1, size+1)
			}
			if length <= 0 {
				length = 1
			}
			// malformed stream: offsets beyond the object
			if r.Chance(1, 12) {
				off = size + r.Intn(3*S+2)
				c.Count("read:offset-at-or-beyond-size")
				if off > size {
					c.Count("read:offset-beyond-size")
				}
			}
			switch {
			case off+length > size:
				c.Count("read:beyond-end")
			case off+length == size:
				c.Count("read:to-end")
			default:
				c.Count("read:inside")
			}
			ap, sp := genPat(c), genPat(c)
			if sp == "0" {
				c.Count("cache:cooperative")
			} else {
				c.Count("cache:lossy")
			}
			ops = append(ops, fmt.Sprintf("r%d,%d,%s,%s", off, length, ap, sp))
		}
		c.Count(fmt.Sprintf("history-len:%s", bucket(nops)))
		c.Do(fmt.Sprintf("cb.hist %s %d %d %d %s", hlib.Hex(obj), S, maxSub, p, strings.Join(ops, ";")), true)
	}
	pat := func(n int) string {
		b := make([]byte, n)
		for i := range b {
			b[i] = "0000112"[r.Intn(7)]
		}
		return string(b)
	}
	// worlds: several objects with nested names, every verb on present and absent names, listings
	// of the same and of different directories in both flavours (recursive / not) and both orders
	namePool := []string{"01ABC/meta.json", "01ABC/index", "01ABC/chunks/000001", "01ABC/chunks/000002",
		"01DEF/meta.json", "01DEF/chunks/000001", "top", "a:1", "a:1/x", "01ABC", "debug/metas/01ABC.json"}
	dirPool := []string{"", "01ABC", "01ABC/", "01ABC/chunks", "01ABC/chunks/", "01DEF/", "a:1/", "nosuch/", "debug/"}
	for round := 0; round < c.N(300, 8000); round++ {
		S := []int{1, 3, 16}[r.Intn(3)]
		nobj := r.Range(1, 7)
		objects := map[string][]byte{}
		for len(objects) < nobj {
			objects[r.Pick(namePool)] = r.Bytes(r.Intn(3*S + 3))
		}
		inmem := objstore.NewInMemBucket()
		var objToks []string
		names := hlib.SortedKeys(objects)
		for _, n := range names {
			_ = inmem.Upload(context.Background(), n, bytes.NewReader(objects[n]))
			objToks = append(objToks, hlib.HexS(n)+"="+hlib.Hex(objects[n]))
		}
		someName := func() string {
			if r.Chance(1, 5) {
				return r.Pick(namePool) // possibly absent
			}
			return names[r.Intn(len(names))]
		}
		iterOp := func(dir string, rec bool) string {
			var lst []string
			_ = inmem.Iter(context.Background(), dir, func(n string) error { lst = append(lst, hlib.HexS(n)); return nil }, iterOpts(rec)...)
			recS := "0"
			if rec {
				recS = "1"
				c.Count("world:iter-recursive")
			} else {
				c.Count("world:iter-flat")
			}
			return fmt.Sprintf("i:%s:%s:%s:%s", hlib.HexS(dir), recS, pat(1), hlib.Join(lst, ","))
		}
		nops := r.Range(2, 20)
		var ops []string
		for i := 0; i < nops; i++ {
			switch r.Intn(10) {
			case 0, 1:
				n := someName()
				size := len(objects[n])
				ops = append(ops, fmt.Sprintf("r:%s:%d:%d:%d:%s:%s", hlib.HexS(n), r.Intn(size+2), r.Range(1, size+2), []int{1, 3, 512}[r.Intn(3)], pat(1), genPat(c)))
			case 2, 3:
				n := someName()
				mode := "f"
				switch r.Intn(4) {
				case 0:
					mode = "x"
				case 1:
					mode = fmt.Sprintf("h%d", r.Intn(len(objects[n])+1))
				}
				ops = append(ops, fmt.Sprintf("g:%s:%s:%s", hlib.HexS(n), mode, pat(2)))
			case 4:
				ops = append(ops, fmt.Sprintf("e:%s:%s", hlib.HexS(someName()), pat(1)))
			case 5:
				ops = append(ops, fmt.Sprintf("a:%s:%s", hlib.HexS(someName()), pat(1)))
			case 6: // the same directory in both flavours, one right after the other
				d := r.Pick(dirPool)
				first := r.Bool()
				ops = append(ops, iterOp(d, first), iterOp(d, !first))
				c.Count("world:iter-both-flavours-same-dir")
			default:
				ops = append(ops, iterOp(r.Pick(dirPool), r.Bool()))
			}
		}
		maxGet := []int{0, 2, 1000}[r.Intn(3)]
		c.Count(fmt.Sprintf("world:objects=%d", len(objects)))
		c.Do(fmt.Sprintf("cb.world %d %d %d %s %s %s", S, r.Intn(3), maxGet, hlib.HexS(r.Pick([]string{"h", "", "cfg1"})), strings.Join(objToks, ","), strings.Join(ops, ";")), true)
	}
	// the key strings: every verb, names with ':' and digits, ranges at digit-count boundaries
	for i := 0; i < c.N(300, 5000); i++ {
		name := r.Pick([]string{"obj", "01H/chunks/000001", "a:1", "a:1:2", "a", "", "x:0:16", "é"})
		if r.Chance(1, 3) {
			name += r.Pick([]string{":", ":1", "1", ":10:20"})
		}
		v := r.Intn(6)
		var start, end int64
		hash := ""
		switch v {
		case 5:
			start = []int64{0, 1, 9, 10, 16, 99, 100, 16000}[r.Intn(8)]
			end = start + []int64{1, 6, 16, 90, 16000}[r.Intn(5)]
		case 2, 3:
			hash = r.Pick([]string{"", "h", "deadbeef"})
		}
		c.Count(fmt.Sprintf("key:verb-%d", v))
		c.Do(fmt.Sprintf("cb.key %d %s %d %d %s", v, hlib.HexS(name), start, end, hlib.HexS(hash)), true)
	}
	// every verb: Get (whole / partial / exact reads, size limit), Exists, Attributes, Iter, range
	// reads, on a present and on an absent object
	for round := 0; round < c.N(300, 8000); round++ {
		S := []int{1, 3, 16}[r.Intn(3)]
		size := r.Intn(4*S + 3)
		if r.Chance(1, 10) {
			size = 0
		}
		obj := r.Bytes(size)
		maxGet := []int{0, size - 1, size, size + 1, 1000}[r.Intn(5)]
		if maxGet < 0 {
			maxGet = 0
		}
		switch {
		case maxGet < size:
			c.Count("mix:object-larger-than-MaxCacheableSize")
		default:
			c.Count("mix:object-cacheable")
		}
		p := []int{1, 3, 512}[r.Intn(3)]
		nops := r.Range(2, 25)
		var ops []string
		for i := 0; i < nops; i++ {
			var op string
			switch r.Intn(12) {
			case 0, 1:
				op = "gf," + pat(2)
				c.Count("mix:get-full")
			case 2:
				op = fmt.Sprintf("gh%d,%s", r.Intn(size+1), pat(2))
				c.Count("mix:get-partial")
			case 3:
				op = "gx," + pat(2)
				c.Count("mix:get-exact-no-eof")
			case 4:
				op = "G" + pat(2)
				c.Count("mix:get-absent")
			case 5:
				op = "e" + pat(1)
			case 6:
				op = "E" + pat(1)
				c.Count("mix:exists-absent")
			case 7:
				op = "a" + pat(1)
			case 8:
				op = "A" + pat(1)
			case 9:
				op = "i" + pat(1)
				c.Count("mix:iter")
			default:
				off := r.Intn(size + 2)
				op = fmt.Sprintf("r%d,%d,%s,%s", off, r.Range(1, size+2), pat(1), genPat(c))
				c.Count("mix:getrange")
			}
			ops = append(ops, op)
		}
		c.Do(fmt.Sprintf("cb.mix %s %d %d %d %d %s", hlib.Hex(obj), S, r.Intn(3), p, maxGet, strings.Join(ops, ";")), true)
	}
}
